import BnpVerif.Model.C10
import BnpVerif.Gen.C10
/-! C10 property theorems. Helper lemmas first; the property theorems are the ones listed in
`Audit/C10.lean`. Everything is for an arbitrary genome (any number of chromosomes, any sizes,
zero sizes included) and arbitrary entry lists. -/
namespace C10
open Base

/-! ### prefix sums -/

theorem offsets_length (sizes : List Nat) : (offsets sizes).length = sizes.length + 1 := by
  induction sizes with
  | nil => rfl
  | cons s ss ih => simp [offsets, ih]

theorem offset_cons_zero (s : Nat) (ss : List Nat) : offset (s :: ss) 0 = 0 := by
  simp [offset, offsets]

theorem offset_cons_succ (s : Nat) (ss : List Nat) (c : Nat) (h : c ≤ ss.length) :
    offset (s :: ss) (c + 1) = offset ss c + s := by
  have hl := offsets_length ss
  simp only [offset, offsets, List.getD_eq_getElem?_getD, List.getElem?_cons_succ, List.getElem?_map]
  rw [List.getElem?_eq_getElem (by omega)]
  simp

theorem size_cons_zero (s : Nat) (ss : List Nat) : size (s :: ss) 0 = s := by simp [size]
theorem size_cons_succ (s : Nat) (ss : List Nat) (c : Nat) : size (s :: ss) (c + 1) = size ss c := by
  simp [size]

theorem offset_eq_spec (sizes : List Nat) (c : Nat) (h : c ≤ sizes.length) :
    offset sizes c = specOffset sizes c := by
  induction sizes generalizing c with
  | nil =>
    have : c = 0 := by simpa using h
    subst this; simp [offset, offsets, specOffset]
  | cons s ss ih =>
    cases c with
    | zero => simp [offset_cons_zero, specOffset]
    | succ c =>
      have hc : c ≤ ss.length := by simpa using h
      rw [offset_cons_succ s ss c hc, ih c hc]
      simp [specOffset]; omega

/-- the offsets are non-decreasing and consecutive chromosomes do not overlap -/
theorem offset_add_size_le (sizes : List Nat) (c₁ c₂ : Nat) (h : c₁ < c₂) (h₂ : c₂ ≤ sizes.length) :
    offset sizes c₁ + size sizes c₁ ≤ offset sizes c₂ := by
  induction sizes generalizing c₁ c₂ with
  | nil => simp at h₂; omega
  | cons s ss ih =>
    cases c₂ with
    | zero => omega
    | succ c₂ =>
      have hc₂ : c₂ ≤ ss.length := by simpa using h₂
      rw [offset_cons_succ s ss c₂ hc₂]
      cases c₁ with
      | zero => rw [offset_cons_zero, size_cons_zero]; omega
      | succ c₁ =>
        rw [offset_cons_succ s ss c₁ (by omega), size_cons_succ]
        have := ih c₁ c₂ (by omega) hc₂
        omega

theorem offset_add_size_le_total (sizes : List Nat) (c : Nat) (h : c < sizes.length) :
    offset sizes c + size sizes c ≤ total sizes := by
  induction sizes generalizing c with
  | nil => simp at h
  | cons s ss ih =>
    cases c with
    | zero => simp [offset_cons_zero, size_cons_zero, total]
    | succ c =>
      have hc : c < ss.length := by simpa using h
      rw [offset_cons_succ s ss c (by omega), size_cons_succ]
      have := ih c hc
      simp only [total, List.sum_cons] at *
      omega

/-! ### `searchsorted(side="right") - 1` walks the chromosomes -/

theorem offsets_head_le (sizes : List Nat) (g : Nat) :
    1 ≤ searchsortedRight (offsets sizes) g := by
  cases sizes <;> simp [offsets, searchsortedRight]

theorem searchsortedRight_map_add (l : List Nat) (s g : Nat) (h : s ≤ g) :
    searchsortedRight (l.map (· + s)) g = searchsortedRight l (g - s) := by
  unfold searchsortedRight
  induction l with
  | nil => rfl
  | cons a l ih =>
    simp only [List.map_cons, List.takeWhile_cons]
    by_cases ha : a + s ≤ g
    · have : a ≤ g - s := by omega
      simp [ha, this, ih]
    · have : ¬ a ≤ g - s := by omega
      simp [ha, this]

theorem chromIdx_cons (s : Nat) (ss : List Nat) (g : Nat) :
    chromIdx (s :: ss) g = if g < s then 0 else chromIdx ss (g - s) + 1 := by
  unfold chromIdx
  split
  · rename_i h
    have : searchsortedRight (offsets (s :: ss)) g = 1 := by
      cases ss with
      | nil =>
        have : ¬ s ≤ g := by omega
        simp [offsets, searchsortedRight, this]
      | cons t ts =>
        have : ¬ s ≤ g := by omega
        simp [offsets, searchsortedRight, this]
    omega
  · rename_i h
    have h' : s ≤ g := by omega
    have h1 := offsets_head_le ss (g - s)
    have : searchsortedRight (offsets (s :: ss)) g = searchsortedRight (offsets ss) (g - s) + 1 := by
      rw [← searchsortedRight_map_add _ s g h']
      simp [offsets, searchsortedRight]
    omega

theorem chromIdx_le (sizes : List Nat) (g : Nat) : chromIdx sizes g ≤ sizes.length := by
  induction sizes generalizing g with
  | nil => simp [chromIdx, offsets, searchsortedRight]
  | cons s ss ih =>
    rw [chromIdx_cons]
    split
    · omega
    · have := ih (g - s); simp; omega

/-- the code's coordinate map is the walk-the-chromosomes specification, for every position -/
theorem toLocal_eq_spec (sizes : List Nat) (g : Nat) : toLocal sizes g = specToLocal sizes g := by
  induction sizes generalizing g with
  | nil => simp [toLocal, chromIdx, offsets, offset, searchsortedRight, specToLocal]
  | cons s ss ih =>
    have ih' := ih (g - s)
    unfold toLocal at ih' ⊢
    rw [chromIdx_cons, specToLocal]
    split
    · simp [offset_cons_zero]
    · rename_i h
      rw [offset_cons_succ s ss _ (chromIdx_le ss (g - s))]
      rw [← ih']
      simp only [Prod.mk.injEq, true_and]
      omega

theorem specToLocal_offset (sizes : List Nat) (c p : Nat) (hc : c < sizes.length) (hp : p < size sizes c) :
    specToLocal sizes (offset sizes c + p) = (c, p) := by
  induction sizes generalizing c with
  | nil => simp at hc
  | cons s ss ih =>
    cases c with
    | zero =>
      rw [size_cons_zero] at hp
      simp [specToLocal, offset_cons_zero, hp]
    | succ c =>
      have hc' : c < ss.length := by simpa using hc
      rw [size_cons_succ] at hp
      rw [offset_cons_succ s ss c (by omega), specToLocal]
      have : ¬ (offset ss c + s + p < s) := by omega
      rw [if_neg this]
      have e : offset ss c + s + p - s = offset ss c + p := by omega
      rw [e, ih c hc' hp]

theorem specToLocal_inv (sizes : List Nat) (g : Nat) (hg : g < total sizes) :
    (specToLocal sizes g).1 < sizes.length ∧
    (specToLocal sizes g).2 < size sizes (specToLocal sizes g).1 ∧
    offset sizes (specToLocal sizes g).1 + (specToLocal sizes g).2 = g := by
  induction sizes generalizing g with
  | nil => simp [total] at hg
  | cons s ss ih =>
    rw [specToLocal]
    split
    · rename_i h
      simp [size_cons_zero, offset_cons_zero, h]
    · rename_i h
      have hg' : g - s < total ss := by simp only [total, List.sum_cons] at *; omega
      obtain ⟨h1, h2, h3⟩ := ih (g - s) hg'
      refine ⟨by simpa using h1, ?_, ?_⟩
      · simpa [size_cons_succ] using h2
      · simp only []
        rw [offset_cons_succ s ss _ (by omega)]
        omega

/-- **C10.local_global_bijection** — converting between per-chromosome and concatenated
coordinates is a bijection on valid positions: local → global → local is the identity for every
position inside a chromosome, global → local → global is the identity for every position of the
concatenated genome (and lands on a valid local position, so a zero-size chromosome owns no
position), and `from_local_coordinates` rejects exactly the positions outside the chromosome. -/
theorem local_global_bijection (sizes : List Nat) :
    (∀ c p, c < sizes.length → p < size sizes c →
      ∃ g, fromLocal sizes c p = some g ∧ g < total sizes ∧ toLocal sizes g = (c, p)) ∧
    (∀ g, g < total sizes →
      (toLocal sizes g).1 < sizes.length ∧ 0 < size sizes (toLocal sizes g).1 ∧
      fromLocal sizes (toLocal sizes g).1 (toLocal sizes g).2 = some g) ∧
    (∀ c p, c < sizes.length → size sizes c ≤ p → fromLocal sizes c p = none) := by
  refine ⟨?_, ?_, ?_⟩
  · intro c p hc hp
    refine ⟨offset sizes c + p, by simp [fromLocal, hc, hp], ?_, ?_⟩
    · have := offset_add_size_le_total sizes c hc; omega
    · rw [toLocal_eq_spec]; exact specToLocal_offset sizes c p hc hp
  · intro g hg
    rw [toLocal_eq_spec]
    obtain ⟨h1, h2, h3⟩ := specToLocal_inv sizes g hg
    refine ⟨h1, by omega, ?_⟩
    simp [fromLocal, h1, h2, h3]
  · intro c p hc hp
    simp [fromLocal]; omega

example : ∃ c p, c < [3, 0, 2].length ∧ p < size [3, 0, 2] c ∧ toLocal [3, 0, 2] (offset [3, 0, 2] c + p) = (2, 1) :=
  ⟨2, 1, by decide⟩

/-! ### pile-up and mask: the concatenated computation restricted to a chromosome -/

theorem valid_iff (sizes : List Nat) (iv : Iv) :
    iv.valid sizes = true ↔ iv.c < sizes.length ∧ iv.s < size sizes iv.c ∧ iv.e ≤ size sizes iv.c ∧ iv.s ≤ iv.e := by
  simp [Iv.valid, and_assoc]

theorem omap_toGlobal (sizes : List Nat) (ivs : List Iv) (hv : ∀ iv ∈ ivs, iv.valid sizes = true) :
    omap (toGlobal sizes) ivs = some (ivs.map (fun iv => (offset sizes iv.c + iv.s, offset sizes iv.c + iv.e))) :=
  omap_some_map _ _ _ (fun iv h => by simp [toGlobal, hv iv h])

/-- a valid interval of chromosome `c'` covers global position `offset c + p` exactly when `c' = c`
and it covers local position `p`: neighbours never contribute -/
theorem covers_iff (sizes : List Nat) (iv : Iv) (c p : Nat) (hv : iv.valid sizes = true)
    (hc : c < sizes.length) (hp : p < size sizes c) :
    (offset sizes iv.c + iv.s ≤ offset sizes c + p ∧ offset sizes c + p < offset sizes iv.c + iv.e) ↔
    (iv.c = c ∧ iv.s ≤ p ∧ p < iv.e) := by
  obtain ⟨h1, h2, h3, _⟩ := (valid_iff sizes iv).mp hv
  rcases Nat.lt_trichotomy iv.c c with h | h | h
  · have := offset_add_size_le sizes iv.c c h (by omega)
    constructor
    · intro ⟨_, _⟩; omega
    · intro ⟨_, _, _⟩; omega
  · subst h
    constructor
    · intro ⟨_, _⟩; exact ⟨rfl, by omega, by omega⟩
    · intro ⟨_, _, _⟩; omega
  · have := offset_add_size_le sizes c iv.c h (by omega)
    constructor
    · intro ⟨_, _⟩; omega
    · intro ⟨_, _, _⟩; omega

theorem covCount_local (sizes : List Nat) (ivs : List Iv) (hv : ∀ iv ∈ ivs, iv.valid sizes = true)
    (c p : Nat) (hc : c < sizes.length) (hp : p < size sizes c) :
    covCount (ivs.map (fun iv => (offset sizes iv.c + iv.s, offset sizes iv.c + iv.e))) (offset sizes c + p) =
    ((ivs.filter (fun iv => iv.c = c)).filter (fun iv => iv.s ≤ p && p < iv.e)).length := by
  simp only [covCount, List.filter_map, List.length_map, List.filter_filter]
  congr 1
  apply List.filter_congr
  intro iv hiv
  have := covers_iff sizes iv c p (hv iv hiv) hc hp
  rw [Bool.eq_iff_iff]
  simp only [Function.comp, Bool.and_eq_true, decide_eq_true_eq]
  rw [this]
  constructor
  · intro ⟨a, b, d⟩; exact ⟨⟨b, d⟩, a⟩
  · intro ⟨⟨b, d⟩, a⟩; exact ⟨a, b, d⟩

theorem drop_take_range_map {α} (f : Nat → α) (a n tot : Nat) (h : a + n ≤ tot) :
    (((List.range tot).map f).drop a).take n = (List.range n).map (fun p => f (a + p)) := by
  apply List.ext_getElem
  · simp; omega
  · intro i h1 h2
    simp [List.getElem_take, List.getElem_drop]

theorem extractChrom_range_map {α} (sizes : List Nat) (f : Nat → α) (c : Nat) (hc : c < sizes.length) :
    extractChrom sizes ((List.range (total sizes)).map f) c =
    (List.range (size sizes c)).map (fun p => f (offset sizes c + p)) :=
  drop_take_range_map f _ _ _ (offset_add_size_le_total sizes c hc)

/-- **C10.cover_local** — pile-up and mask computed on the concatenated genome and cut back per
chromosome (`to_dict` / `extract_chromsome`) are, for every chromosome, exactly the single-contig
pile-up / mask of that chromosome's own entries; entries of neighbouring chromosomes — including
intervals that end exactly at a chromosome end or start at position 0 of the next — never contribute. -/
theorem cover_local (sizes : List Nat) (ivs : List Iv) (hv : ∀ iv ∈ ivs, iv.valid sizes = true) :
    (pileupGlobal sizes ivs).map (toDict sizes) = some ((List.range sizes.length).map (specPileupChrom sizes ivs)) ∧
    (maskGlobal sizes ivs).map (toDict sizes) = some ((List.range sizes.length).map (specMaskChrom sizes ivs)) := by
  simp only [pileupGlobal, maskGlobal, omap_toGlobal sizes ivs hv, Option.map_some, Option.some.injEq, toDict]
  constructor
  · apply List.map_congr_left
    intro c hc
    have hc' : c < sizes.length := by simpa using hc
    rw [extractChrom_range_map sizes _ c hc', specPileupChrom]
    apply List.map_congr_left
    intro p hp
    exact covCount_local sizes ivs hv c p hc' (by simpa using hp)
  · apply List.map_congr_left
    intro c hc
    have hc' : c < sizes.length := by simpa using hc
    rw [extractChrom_range_map sizes _ c hc', specMaskChrom, specPileupChrom, List.map_map]
    apply List.map_congr_left
    intro p hp
    simp only [Function.comp]
    rw [covCount_local sizes ivs hv c p hc' (by simpa using hp)]

example : ∀ iv ∈ [({ c := 0, s := 3, e := 5 } : Iv), { c := 1, s := 0, e := 2 }], iv.valid [5, 5] = true := by decide

/-! ### merge -/

/-- **C10.merge_global_unsound** — the rule shipped before the repair (merge in concatenated
coordinates, then map back) is *not* the per-chromosome merge: an interval that ends exactly at a
chromosome end and one that starts at position 0 of the next chromosome are joined; mapping the
joined interval back fails (the `AssertionError` seen on the implementation), and when the second
interval is empty it is silently swallowed. -/
theorem merge_global_unsound :
    (mergeGlobalOld 0 [5, 5] [{ c := 0, s := 3, e := 5 }, { c := 1, s := 0, e := 2 }] = none ∧
     specMerge 0 2 [{ c := 0, s := 3, e := 5 }, { c := 1, s := 0, e := 2 }] =
       some [{ c := 0, s := 3, e := 5 }, { c := 1, s := 0, e := 2 }]) ∧
    (mergeGlobalOld 0 [3, 5] [{ c := 0, s := 0, e := 3 }, { c := 1, s := 0, e := 0 }, { c := 1, s := 1, e := 2 }] =
       some [{ c := 0, s := 0, e := 3 }, { c := 1, s := 1, e := 2 }] ∧
     specMerge 0 2 [{ c := 0, s := 0, e := 3 }, { c := 1, s := 0, e := 0 }, { c := 1, s := 1, e := 2 }] =
       some [{ c := 0, s := 0, e := 3 }, { c := 1, s := 0, e := 0 }, { c := 1, s := 1, e := 2 }]) := by
  decide

theorem runs_head (y : Iv) (r : List Iv) : ∃ g t, runs (y :: r) = (y.c, g) :: t := by
  simp only [runs]
  split
  · rename_i g t _
    split
    · rename_i h; exact ⟨y :: g.2, t, by rw [h]⟩
    · exact ⟨[y], g :: t, rfl⟩
  · exact ⟨[y], [], rfl⟩

/-- the first group of `runs` is the longest prefix on one chromosome -/
theorem runs_span (l : List Iv) (k : Nat) (h : l.takeWhile (fun iv => iv.c = k) ≠ []) :
    runs l = (k, l.takeWhile (fun iv => iv.c = k)) :: runs (l.dropWhile (fun iv => iv.c = k)) := by
  induction l with
  | nil => simp at h
  | cons x r ih =>
    by_cases hx : x.c = k
    · simp only [List.takeWhile_cons, List.dropWhile_cons, hx, decide_true, if_true]
      by_cases hr : r.takeWhile (fun iv => iv.c = k) = []
      · -- the run ends after `x`
        have hd : r.dropWhile (fun iv => iv.c = k) = r := by
          cases r with
          | nil => rfl
          | cons y r' =>
            by_cases hy : y.c = k
            · simp [hy] at hr
            · simp [hy]
        rw [hr, hd]
        cases r with
        | nil => simp [runs, hx]
        | cons y r' =>
          have hy : y.c ≠ k := by
            intro hy; simp [hy] at hr
          obtain ⟨g, t, hg⟩ := runs_head y r'
          simp only [runs] at hg ⊢
          rw [hg]
          simp [hx]
          exact fun h => hy h.symm
      · rw [runs, ih hr]
        simp [hx]
    · simp [hx] at h

theorem filter_eq_takeWhile (l : List Iv) (k : Nat) (hs : l.Pairwise (fun a b => a.c ≤ b.c))
    (hlo : ∀ iv ∈ l, k ≤ iv.c) :
    l.filter (fun iv => iv.c = k) = l.takeWhile (fun iv => iv.c = k) := by
  induction l with
  | nil => rfl
  | cons x r ih =>
    have hs' := List.pairwise_cons.mp hs
    by_cases hx : x.c = k
    · simp only [List.filter_cons, List.takeWhile_cons, hx, decide_true, if_true]
      rw [ih hs'.2 (fun iv h => hlo iv (List.mem_cons_of_mem _ h))]
    · simp only [List.filter_cons, List.takeWhile_cons, hx, decide_false]
      have hxk := hlo x (List.mem_cons_self ..)
      simp only [Bool.false_eq_true, if_false, List.filter_eq_nil_iff, decide_eq_true_eq]
      intro y hy
      have := hs'.1 y hy
      omega

theorem dropWhile_lo (l : List Iv) (k : Nat) (hs : l.Pairwise (fun a b => a.c ≤ b.c))
    (hlo : ∀ iv ∈ l, k ≤ iv.c) : ∀ y ∈ l.dropWhile (fun iv => iv.c = k), k + 1 ≤ y.c := by
  induction l with
  | nil => simp
  | cons x r ih =>
    have hs' := List.pairwise_cons.mp hs
    by_cases hx : x.c = k
    · simp only [List.dropWhile_cons, hx, decide_true, if_true]
      exact ih hs'.2 (fun iv h => hlo iv (List.mem_cons_of_mem _ h))
    · simp only [List.dropWhile_cons, hx, decide_false, Bool.false_eq_true, if_false]
      intro y hy
      have hxk := hlo x (List.mem_cons_self ..)
      rcases List.mem_cons.mp hy with rfl | hy
      · omega
      · have := hs'.1 y hy; omega

theorem takeWhile_sat {α} (p : α → Bool) (l : List α) : ∀ y ∈ l.takeWhile p, p y = true := by
  induction l with
  | nil => simp
  | cons x r ih =>
    by_cases hx : p x = true
    · simp only [List.takeWhile_cons, hx, if_true, List.mem_cons]
      intro y hy
      rcases hy with rfl | hy
      · exact hx
      · exact ih y hy
    · simp [hx]

theorem filter_dropWhile (l : List Iv) (k c : Nat) (hc : c ≠ k) :
    (l.dropWhile (fun iv => iv.c = k)).filter (fun iv => iv.c = c) = l.filter (fun iv => iv.c = c) := by
  conv => rhs; rw [← List.takeWhile_append_dropWhile (p := fun iv => decide (iv.c = k)) (l := l)]
  rw [List.filter_append]
  have : (l.takeWhile (fun iv => decide (iv.c = k))).filter (fun iv => iv.c = c) = [] := by
    simp only [List.filter_eq_nil_iff, decide_eq_true_eq]
    intro y hy
    have := takeWhile_sat _ _ y hy
    simp at this; omega
  rw [this, List.nil_append]

theorem mergeChrom_nil (d c : Nat) : mergeChrom d c [] = some [] := by
  simp [mergeChrom, merge1Checked, startsSorted, merge1]

theorem merge_over (d m : Nat) : ∀ (k : Nat) (ivs : List Iv), ivs.Pairwise (fun a b => a.c ≤ b.c) →
    (∀ iv ∈ ivs, k ≤ iv.c) → (∀ iv ∈ ivs, iv.c < k + m) →
    mergeFixed d ivs =
      (omap (fun c => mergeChrom d c (ivs.filter (fun iv => iv.c = c))) (List.range' k m)).map List.flatten := by
  induction m with
  | zero =>
    intro k ivs _ hlo hhi
    cases ivs with
    | nil => simp [mergeFixed, runs]
    | cons x r =>
      have := hlo x (List.mem_cons_self ..); have := hhi x (List.mem_cons_self ..); omega
  | succ m ih =>
    intro k ivs hs hlo hhi
    have hdl := dropWhile_lo ivs k hs hlo
    have hds : (ivs.dropWhile (fun iv => iv.c = k)).Pairwise (fun a b => a.c ≤ b.c) :=
      hs.sublist (List.dropWhile_sublist _)
    have hdh : ∀ iv ∈ ivs.dropWhile (fun iv => iv.c = k), iv.c < (k + 1) + m := by
      intro iv h
      have := hhi iv ((List.dropWhile_sublist _).subset h); omega
    have IH := ih (k + 1) _ hds hdl hdh
    have hrest : omap (fun c => mergeChrom d c (ivs.filter (fun iv => iv.c = c))) (List.range' (k + 1) m) =
        omap (fun c => mergeChrom d c ((ivs.dropWhile (fun iv => iv.c = k)).filter (fun iv => iv.c = c)))
          (List.range' (k + 1) m) := by
      apply omap_congr
      intro c hc
      have : c ≠ k := by have := (List.mem_range'_1.mp hc).1; omega
      rw [filter_dropWhile ivs k c this]
    rw [List.range'_succ]
    simp only [omap]
    rw [hrest, filter_eq_takeWhile ivs k hs hlo]
    by_cases ha : ivs.takeWhile (fun iv => iv.c = k) = []
    · have hd : ivs.dropWhile (fun iv => iv.c = k) = ivs := by
        have := List.takeWhile_append_dropWhile (p := fun iv => decide (iv.c = k)) (l := ivs)
        rw [ha, List.nil_append] at this; exact this
      rw [ha, mergeChrom_nil]
      rw [hd] at IH ⊢
      rw [IH]
      cases omap (fun c => mergeChrom d c (List.filter (fun iv => decide (iv.c = c)) ivs)) (List.range' (k + 1) m) <;> simp
    · rw [mergeFixed, runs_span ivs k ha]
      simp only [omap]
      rw [mergeFixed] at IH
      cases h1 : mergeChrom d k (ivs.takeWhile (fun iv => iv.c = k)) with
      | none => simp
      | some a =>
        cases h2 : omap (fun g => mergeChrom d g.1 g.2) (runs (ivs.dropWhile (fun iv => iv.c = k))) with
        | none => rw [h2] at IH; simp only [Option.map_none] at IH ⊢
                  cases h3 : omap (fun c => mergeChrom d c (List.filter (fun iv => decide (iv.c = c)) (ivs.dropWhile (fun iv => iv.c = k)))) (List.range' (k + 1) m) with
                  | none => simp
                  | some y => rw [h3] at IH; simp at IH
        | some b =>
          rw [h2] at IH; simp only [Option.map_some] at IH ⊢
          cases h3 : omap (fun c => mergeChrom d c (List.filter (fun iv => decide (iv.c = c)) (ivs.dropWhile (fun iv => iv.c = k)))) (List.range' (k + 1) m) with
          | none => rw [h3] at IH; simp at IH
          | some y => rw [h3] at IH; simp at IH ⊢; exact IH

/-- **C10.merge_per_chromosome** — the repaired `merged()` / `Geometry.merge_intervals` (group by
chromosome, merge every group with the single-contig function) gives, for entries sorted in genome
order, exactly the concatenation over the chromosomes of the single-contig merge of each chromosome's
own entries, for every merge distance; it fails (sortedness assertion) exactly when the single-contig
merge of some chromosome fails. No interval is ever joined with one on a neighbouring chromosome. -/
theorem merge_per_chromosome (d n : Nat) (ivs : List Iv) (hs : ivs.Pairwise (fun a b => a.c ≤ b.c))
    (hn : ∀ iv ∈ ivs, iv.c < n) : mergeFixed d ivs = specMerge d n ivs := by
  have := merge_over d n 0 ivs hs (fun _ _ => Nat.zero_le _) (by simpa using hn)
  rw [this, specMerge, List.range_eq_range']

example : [({ c := 0, s := 3, e := 5 } : Iv), { c := 1, s := 0, e := 2 }].Pairwise (fun a b => a.c ≤ b.c) := by decide

theorem sortedAdj_iff (l : List Nat) : sortedAdj l = true ↔ l.Pairwise (· ≤ ·) := by
  induction l with
  | nil => simp [sortedAdj]
  | cons x r ih =>
    cases r with
    | nil => simp [sortedAdj]
    | cons y r' =>
      simp only [sortedAdj, Bool.and_eq_true, decide_eq_true_eq, ih, List.pairwise_cons]
      constructor
      · intro ⟨hxy, hy, hr⟩
        refine ⟨?_, hy, hr⟩
        intro a ha
        rcases List.mem_cons.mp ha with rfl | ha
        · exact hxy
        · have := hy a ha; omega
      · intro ⟨hx, hy, hr⟩
        exact ⟨hx y (List.mem_cons_self ..), hy, hr⟩

theorem startsSorted_of_pairwise (l : List (Nat × Nat)) (h : l.Pairwise (fun a b => a.1 ≤ b.1)) : startsSorted l = true := by
  induction l with
  | nil => rfl
  | cons x r ih =>
    cases r with
    | nil => rfl
    | cons y r' =>
      have h' := List.pairwise_cons.mp h
      simp only [startsSorted, Bool.and_eq_true, decide_eq_true_eq]
      exact ⟨h'.1 y (List.mem_cons_self ..), ih h'.2⟩

/-- **C10.merge_checked_iff** — the in-memory merge entry points (`Geometry.merge_intervals`,
`GenomicIntervalsFull.merged`), with NO assumption on the input: they give a result exactly when every
entry lies inside its chromosome and the entries are in genome order (non-decreasing start in
concatenated coordinates), and that result is the per-chromosome single-contig merge; in every other
case an error is raised — nothing is merged silently (in particular not entries whose chromosomes are
not contiguous, which the shipped grouping attributed to the wrong chromosome). -/
theorem merge_checked_iff (d : Nat) (sizes : List Nat) (ivs : List Iv) :
    (((∀ iv ∈ ivs, iv.valid sizes = true) ∧ (ivs.map (fun iv => offset sizes iv.c + iv.s)).Pairwise (· ≤ ·)) →
      ∃ out, mergeChecked d sizes ivs = some out ∧ specMerge d sizes.length ivs = some out) ∧
    (¬ ((∀ iv ∈ ivs, iv.valid sizes = true) ∧ (ivs.map (fun iv => offset sizes iv.c + iv.s)).Pairwise (· ≤ ·)) →
      mergeChecked d sizes ivs = none) := by
  constructor
  · intro ⟨hv, hs⟩
    have hall : ivs.all (fun iv => iv.valid sizes) = true := List.all_eq_true.mpr hv
    have hadj := (sortedAdj_iff _).mpr hs
    rw [List.pairwise_map] at hs
    have hc : ivs.Pairwise (fun a b => a.c ≤ b.c) := by
      apply List.Pairwise.imp_of_mem _ hs
      intro a b ha hb hab
      obtain ⟨_, ha2, _, _⟩ := (valid_iff sizes a).mp (hv a ha)
      obtain ⟨hb1, hb2, _, _⟩ := (valid_iff sizes b).mp (hv b hb)
      refine Classical.byContradiction fun hlt => ?_
      have := offset_add_size_le sizes b.c a.c (by omega) (by have := ((valid_iff sizes a).mp (hv a ha)).1; omega)
      omega
    have hper := merge_per_chromosome d sizes.length ivs hc (fun iv h => ((valid_iff sizes iv).mp (hv iv h)).1)
    simp only [mergeChecked, hall, hadj, Bool.and_self, if_true]
    rw [hper]
    -- the per-chromosome merges all succeed: within a chromosome the starts are sorted
    have hsome : ∀ c ∈ List.range sizes.length, (mergeChrom d c (ivs.filter (fun iv => iv.c = c))).isSome = true := by
      intro c _
      have hf : ((ivs.filter (fun iv => iv.c = c)).map (fun iv => (iv.s, iv.e))).Pairwise (fun a b => a.1 ≤ b.1) := by
        rw [List.pairwise_map]
        apply List.Pairwise.imp_of_mem _ (hs.filter _)
        intro a b ha hb hab
        have ha' : a.c = c := by simpa using (List.mem_filter.mp ha).2
        have hb' : b.c = c := by simpa using (List.mem_filter.mp hb).2
        rw [ha', hb'] at hab
        simp only []
        omega
      simp [mergeChrom, merge1Checked, startsSorted_of_pairwise _ hf]
    have := (omap_isSome_iff _ _).mpr hsome
    simp only [specMerge]
    cases ho : omap (fun c => mergeChrom d c (ivs.filter (fun iv => iv.c = c))) (List.range sizes.length) with
    | none => rw [ho] at this; simp at this
    | some ms => exact ⟨ms.flatten, rfl, rfl⟩
  · intro hn
    simp only [mergeChecked]
    by_cases hall : ivs.all (fun iv => iv.valid sizes) = true
    · have hv := List.all_eq_true.mp hall
      have : sortedAdj (ivs.map (fun iv => offset sizes iv.c + iv.s)) = false := by
        cases h : sortedAdj (ivs.map (fun iv => offset sizes iv.c + iv.s)) with
        | false => rfl
        | true => exact absurd ⟨hv, (sortedAdj_iff _).mp h⟩ hn
      simp [this]
    · simp [hall]

example : (∀ iv ∈ [({ c := 0, s := 3, e := 5 } : Iv), { c := 1, s := 0, e := 2 }], iv.valid [5, 5] = true) ∧
    ([({ c := 0, s := 3, e := 5 } : Iv), { c := 1, s := 0, e := 2 }].map (fun iv => offset [5, 5] iv.c + iv.s)).Pairwise (· ≤ ·) := by
  decide

/-- the grouping alone (without the genome-order check) is unsound on non-contiguous chromosomes: witness for the
rule of commits 5ae8cf0..9c24e3c, where `groupby`'s first-key = last-key fast path made ONE group of chr1, chr2, chr1 -/
theorem merge_unsorted_unsound :
    mergeChecked 0 [5, 5] [{ c := 0, s := 0, e := 2 }, { c := 1, s := 0, e := 1 }, { c := 0, s := 1, e := 3 }] = none ∧
    specMerge 0 2 [{ c := 0, s := 0, e := 2 }, { c := 1, s := 0, e := 1 }, { c := 0, s := 1, e := 3 }] =
      some [{ c := 0, s := 0, e := 3 }, { c := 1, s := 0, e := 1 }] := by
  decide

/-! ### values under intervals -/

theorem offset_lengths_cons {α} (a : List α) (as : List (List α)) (c : Nat) (hc : c ≤ as.length) :
    offset ((a :: as).map List.length) (c + 1) = offset (as.map List.length) c + a.length := by
  rw [List.map_cons, offset_cons_succ _ _ _ (by simpa using hc)]

theorem flatten_drop_take {α} (arrays : List (List α)) (c s n : Nat) (hc : c < arrays.length)
    (h : s + n ≤ (arrays.getD c []).length) :
    ((arrays.flatten).drop (offset (arrays.map List.length) c + s)).take n = ((arrays.getD c []).drop s).take n := by
  induction arrays generalizing c with
  | nil => simp at hc
  | cons a as ih =>
    cases c with
    | zero =>
      simp only [List.map_cons, offset_cons_zero, Nat.zero_add, List.flatten_cons, List.getD_cons_zero] at h ⊢
      rw [List.drop_append_of_le_length (by omega), List.take_append_of_le_length (by simp; omega)]
    | succ c =>
      have hc' : c < as.length := by simpa using hc
      simp only [List.getD_cons_succ] at h ⊢
      rw [offset_lengths_cons a as c (by omega), List.flatten_cons]
      have : offset (as.map List.length) c + a.length + s = a.length + (offset (as.map List.length) c + s) := by omega
      rw [this, List.drop_append]
      simp only [Nat.le_add_right, List.drop_eq_nil_of_le, Nat.add_sub_cancel_left, List.nil_append]
      exact ih c hc' h

/-- **C10.extract_reversed** — the values extracted under a (valid) interval from the array over the
concatenated genome are exactly the slice `[start, stop)` of the interval's own chromosome's dense
array, reversed on the `-` strand when the extraction is stranded; values of neighbouring
chromosomes never appear, also for intervals that end exactly at the chromosome end. -/
theorem extract_reversed {α} (arrays : List (List α)) (stranded : Bool) (iv : Iv)
    (hv : iv.valid (arrays.map List.length) = true) :
    extractRow (arrays.map List.length) arrays.flatten stranded iv = some (specExtractRow arrays stranded iv) := by
  obtain ⟨h1, h2, h3, _⟩ := (valid_iff _ iv).mp hv
  have hc : iv.c < arrays.length := by simpa using h1
  have hsz : size (arrays.map List.length) iv.c = (arrays.getD iv.c []).length := by
    simp [size, List.getD_eq_getElem?_getD, List.getElem?_map]
    cases arrays[iv.c]? <;> simp
  simp only [extractRow, toGlobal, hv, if_true, specExtractRow]
  have e : offset (arrays.map List.length) iv.c + iv.e - (offset (arrays.map List.length) iv.c + iv.s) = iv.e - iv.s := by omega
  rw [e, flatten_drop_take arrays iv.c iv.s (iv.e - iv.s) hc (by omega)]

example : ({ c := 1, s := 0, e := 2 } : Iv).valid ([[7, 7, 7], [1, 2]].map List.length) = true := by decide

/-! ### name encoding and ignored chromosomes -/

theorem count_take_lt (ign : List Bool) (c : Nat) (hc : c < ign.length) (h : ign.getD c false = false) :
    ((ign.take c).filter (!·)).length < nIncluded ign := by
  unfold nIncluded
  have hs : ign = ign.take c ++ ign.drop c := (List.take_append_drop c ign).symm
  have hd : ign.drop c = ign[c] :: ign.drop (c + 1) := List.drop_eq_getElem_cons hc
  have hg : ign[c] = false := by
    simpa [List.getD_eq_getElem?_getD, List.getElem?_eq_getElem hc] using h
  conv => rhs; rw [hs, hd, hg]
  simp [List.filter_append]

theorem encodeIdx_lt_iff (ign : List Bool) (c : Nat) (hc : c < ign.length) :
    encodeIdx ign c < nIncluded ign ↔ ign.getD c false = false := by
  unfold encodeIdx
  cases h : ign.getD c false
  · simp; exact count_take_lt ign c hc h
  · simp

/-- **C10.mask_data_spec** — the name → index encoding followed by the ignored-chromosome filter
(`GenomeContext.mask_data`) drops exactly the rows on ignored chromosomes, keeps the others in order
and gives each the rank of its chromosome among the included ones (so every later size / offset
lookup is by the row's own chromosome). -/
theorem mask_data_spec (ign : List Bool) (ivs : List Iv) (h : ∀ iv ∈ ivs, iv.c < ign.length) :
    maskData ign ivs = specMask ign ivs := by
  unfold maskData specMask
  rw [List.filter_map]
  have hf : ivs.filter ((fun iv : Iv => decide (iv.c < nIncluded ign)) ∘ fun iv => { iv with c := encodeIdx ign iv.c }) =
      ivs.filter (fun iv => !(ign.getD iv.c false)) := by
    apply List.filter_congr
    intro iv hiv
    have := encodeIdx_lt_iff ign iv.c (h iv hiv)
    simp only [Function.comp]
    cases hg : ign.getD iv.c false
    · simp [this.mpr hg]
    · have : ¬ encodeIdx ign iv.c < nIncluded ign := fun x => absurd (this.mp x) (by rw [hg]; decide)
      simp [this]
  rw [hf]
  apply List.map_congr_left
  intro iv hiv
  have hg : ign.getD iv.c false = false := by
    have := (List.mem_filter.mp hiv).2
    cases h' : ign.getD iv.c false
    · rfl
    · rw [h'] at this; exact absurd this (by decide)
  have : encodeIdx ign iv.c = ((ign.take iv.c).filter (!·)).length := by
    unfold encodeIdx; rw [hg]; simp
  rw [this]

example : maskData [false, true, false] [{ c := 2, s := 0, e := 1 }, { c := 1, s := 0, e := 1 }] = [{ c := 1, s := 0, e := 1 }] := by decide

/-! ### clip, extend to size, windows: the size is looked up by the row's own chromosome -/

/-- **C10.clip_extend_windows_inside** — with the chromosome size looked up by the row's own chromosome:
(1) the positions of a clipped interval are exactly the positions of the original interval that lie
inside `[0, size)` of its own chromosome (so the clipped interval has `0 ≤ start`, `stop ≤ size`);
(2) extending an interval that lies inside its chromosome keeps it inside (`+`: start kept, stop =
min(start+L, size); `-`: stop kept, start = max(stop-L, 0));
(3) the window around a location `p` is `[p-l, p+r)` cut to `[0, size)`, and contains `p`. -/
theorem clip_extend_windows_inside (sizes : List Nat) :
    (∀ iv : IvZ, (clipG sizes iv).c = iv.c ∧ 0 ≤ (clipG sizes iv).s ∧ (clipG sizes iv).e ≤ size sizes iv.c ∧
      ∀ p : Int, ((clipG sizes iv).s ≤ p ∧ p < (clipG sizes iv).e) ↔
        (iv.s ≤ p ∧ p < iv.e ∧ 0 ≤ p ∧ p < size sizes iv.c)) ∧
    (∀ (L : Int) (iv : IvZ), 0 ≤ L → 0 ≤ iv.s → iv.s ≤ iv.e → iv.e ≤ size sizes iv.c →
      (extendG sizes L iv).c = iv.c ∧ 0 ≤ (extendG sizes L iv).s ∧ (extendG sizes L iv).s ≤ (extendG sizes L iv).e ∧
      (extendG sizes L iv).e ≤ size sizes iv.c ∧
      (iv.fwd = true → (extendG sizes L iv).s = iv.s ∧ (extendG sizes L iv).e = min (iv.s + L) (size sizes iv.c)) ∧
      (iv.fwd = false → (extendG sizes L iv).e = iv.e ∧ (extendG sizes L iv).s = max (iv.e - L) 0)) ∧
    (∀ (flank : Option Nat) (wsize c : Nat) (p : Int) (fwd : Bool), 0 ≤ p → p < size sizes c →
      let w := windowG sizes (flanks flank wsize) c p fwd
      w.c = c ∧ 0 ≤ w.s ∧ w.e ≤ size sizes c ∧
      (∀ q : Int, (w.s ≤ q ∧ q < w.e) ↔
        (p - (flanks flank wsize).1 ≤ q ∧ q < p + (flanks flank wsize).2 ∧ 0 ≤ q ∧ q < size sizes c)) ∧
      (0 < (flanks flank wsize).2 → w.s ≤ p ∧ p < w.e)) := by
  refine ⟨?_, ?_, ?_⟩
  · intro iv
    simp only [clipG, clip1]
    refine ⟨trivial, by omega, by omega, fun p => by omega⟩
  · intro L iv hL hs hse he
    simp only [extendG, extend1]
    cases iv.fwd <;> simp <;> omega
  · intro flank wsize c p fwd hp hps
    have hf : 0 ≤ (flanks flank wsize).1 := by
      unfold flanks; cases flank <;> simp <;> omega
    simp only [windowG, clipG, clip1]
    refine ⟨trivial, by omega, by omega, fun q => by omega, fun h => by omega⟩

/-- every position of an interval that lies inside chromosome `c` maps, in concatenated coordinates,
back to chromosome `c` itself (consequence of the bijection used with the three kernels above) -/
theorem inside_positions_own_chromosome (sizes : List Nat) (c p : Nat) (hc : c < sizes.length)
    (hp : p < size sizes c) : toLocal sizes (offset sizes c + p) = (c, p) := by
  rw [toLocal_eq_spec]; exact specToLocal_offset sizes c p hc hp

example : (0 : Int) ≤ 3 ∧ (3 : Int) ≤ 5 ∧ (5 : Int) ≤ size [5, 5] 0 := by decide

/-! ### sorting -/

theorem keyLe_trans (a b c : Iv) (h1 : keyLe a b = true) (h2 : keyLe b c = true) : keyLe a c = true := by
  simp only [keyLe, Bool.or_eq_true, Bool.and_eq_true, decide_eq_true_eq] at *
  omega

theorem keyLe_total (a b : Iv) : (keyLe a b || keyLe b a) = true := by
  simp only [keyLe, Bool.or_eq_true, Bool.and_eq_true, decide_eq_true_eq]
  omega

/-- **C10.sorted_genome_order** — `sorted()` (lexsort on chromosome index, start, stop) returns a
permutation of the entries in genome order: chromosome indices are non-decreasing, and the entries
of every chromosome form one block that is a permutation of that chromosome's own entries ordered
by (start, stop). -/
theorem sorted_genome_order (ivs : List Iv) :
    (sortGenome ivs).Perm ivs ∧
    (sortGenome ivs).Pairwise (fun a b => keyLe a b = true) ∧
    (sortGenome ivs).Pairwise (fun a b => a.c ≤ b.c) ∧
    ∀ c, ((sortGenome ivs).filter (fun iv => iv.c = c)).Perm (ivs.filter (fun iv => iv.c = c)) ∧
      ((sortGenome ivs).filter (fun iv => iv.c = c)).Pairwise (fun a b => a.s < b.s ∨ (a.s = b.s ∧ a.e ≤ b.e)) := by
  have hp : (sortGenome ivs).Perm ivs := List.mergeSort_perm ivs keyLe
  have hs : (sortGenome ivs).Pairwise (fun a b => keyLe a b = true) :=
    List.pairwise_mergeSort keyLe_trans keyLe_total ivs
  refine ⟨hp, hs, ?_, ?_⟩
  · apply hs.imp
    intro a b h
    simp only [keyLe, Bool.or_eq_true, Bool.and_eq_true, decide_eq_true_eq] at h
    omega
  · intro c
    refine ⟨hp.filter _, ?_⟩
    have := hs.filter (fun iv => decide (iv.c = c))
    apply List.Pairwise.imp_of_mem _ this
    intro a b ha hb h
    have ha' : a.c = c := by simpa using (List.mem_filter.mp ha).2
    have hb' : b.c = c := by simpa using (List.mem_filter.mp hb).2
    simp only [keyLe, Bool.or_eq_true, Bool.and_eq_true, decide_eq_true_eq] at h
    omega

/-! ### the traced kernels are the model's kernels -/

/-- **C10.traced_kernels** — obligations regenerated from the running code on every run: the expressions
recorded by executing the real `GenomicIntervalsFull.clip` / `.extended_to_size` / `.get_location`,
`Geometry.clip` and `Geometry.extend_to_size` on symbolic columns (`Gen/C10.lean`) are, for all coordinates, the single-contig kernels of the model
applied with the size of the row's *own* chromosome (`own`), never a neighbour's (`other`); and the
window flanks observed on the running `get_windows` are the model's `flanks`. -/
theorem traced_kernels :
    (∀ (s e L other : Int) (sz : Nat) (fwd : Bool),
      Gen.C10.clipGenomeS s e L sz other fwd = (clip1 sz s e).1 ∧
      Gen.C10.clipGenomeE s e L sz other fwd = (clip1 sz s e).2 ∧
      Gen.C10.clipGeometryS s e L sz other fwd = (clip1 sz s e).1 ∧
      Gen.C10.clipGeometryE s e L sz other fwd = (clip1 sz s e).2 ∧
      Gen.C10.extendGeometryS s e L sz other fwd = (extend1 sz L fwd s e).1 ∧
      Gen.C10.extendGeometryE s e L sz other fwd = (extend1 sz L fwd s e).2 ∧
      Gen.C10.extendGenomeS s e L sz other fwd = (extend1 sz L fwd s e).1 ∧
      Gen.C10.extendGenomeE s e L sz other fwd = (extend1 sz L fwd s e).2) ∧
    (∀ (c s e : Nat) (fwd : Bool),
      Gen.C10.locStart s e fwd = location true 0 { c := c, s := s, e := e, fwd := fwd } ∧
      Gen.C10.locStop s e fwd = location true 1 { c := c, s := s, e := e, fwd := fwd } ∧
      Gen.C10.locCenter s e fwd = location true 2 { c := c, s := s, e := e, fwd := fwd } ∧
      Gen.C10.locStartU s e fwd = location false 0 { c := c, s := s, e := e, fwd := fwd } ∧
      Gen.C10.locCenterU s e fwd = location false 2 { c := c, s := s, e := e, fwd := fwd }) ∧
    Gen.C10.flankTable.all (fun x => flanks (some x.1) 0 == (x.2.1, x.2.2)) = true ∧
    Gen.C10.wsizeTable.all (fun x => flanks none x.1 == (x.2.1, x.2.2)) = true := by
  refine ⟨?_, ?_, by decide, by decide⟩
  · intro s e L other sz fwd
    simp only [Gen.C10.clipGenomeS, Gen.C10.clipGenomeE, Gen.C10.clipGeometryS, Gen.C10.clipGeometryE,
      Gen.C10.extendGeometryS, Gen.C10.extendGeometryE, Gen.C10.extendGenomeS, Gen.C10.extendGenomeE, clip1, extend1]
    cases fwd <;> simp <;> omega
  · intro c s e fwd
    simp only [Gen.C10.locStart, Gen.C10.locStop, Gen.C10.locCenter, Gen.C10.locStartU, Gen.C10.locCenterU, location]
    cases fwd <;> simp <;> omega

/-! ### genome-wide quantities and the streamed per-chromosome path -/

theorem extractChrom_succ {α} (s : Nat) (ss : List Nat) (dense : List α) (c : Nat) (hc : c ≤ ss.length) :
    extractChrom (s :: ss) dense (c + 1) = extractChrom ss (dense.drop s) c := by
  simp only [extractChrom, offset_cons_succ s ss c hc, size_cons_succ, List.drop_drop]
  congr 2
  omega

theorem toDict_cons {α} (s : Nat) (ss : List Nat) (dense : List α) :
    toDict (s :: ss) dense = dense.take s :: toDict ss (dense.drop s) := by
  simp only [toDict, List.length_cons, List.range_succ_eq_map, List.map_cons, List.map_map]
  have h0 : extractChrom (s :: ss) dense 0 = dense.take s := by
    simp [extractChrom, offset_cons_zero, size_cons_zero]
  rw [h0]
  congr 1
  apply List.map_congr_left
  intro c hc
  exact extractChrom_succ s ss dense c (by have := List.mem_range.mp hc; omega)

theorem flatten_toDict {α} (sizes : List Nat) : ∀ (dense : List α), dense.length = total sizes →
    (toDict sizes dense).flatten = dense := by
  induction sizes with
  | nil => intro dense h; simp [total] at h; simp [toDict, h]
  | cons s ss ih =>
    intro dense h
    rw [toDict_cons, List.flatten_cons, ih (dense.drop s) (by simp [total] at h ⊢; omega)]
    exact List.take_append_drop s dense

/-- **C10.global_is_concat** — the array over the whole genome that the in-memory pile-up / mask builds
is exactly the concatenation, over the chromosomes of the (included) genome in order, of each
chromosome's own single-contig array. Hence every genome-wide quantity — total length, sum, number of
zero positions, any histogram — is that of the concatenation and depends on nothing else (in
particular not on an ignored chromosome's size, which is not in `sizes`). -/
theorem global_is_concat (sizes : List Nat) (ivs : List Iv) (hv : ∀ iv ∈ ivs, iv.valid sizes = true) :
    pileupGlobal sizes ivs = some ((List.range sizes.length).map (specPileupChrom sizes ivs)).flatten ∧
    maskGlobal sizes ivs = some ((List.range sizes.length).map (specMaskChrom sizes ivs)).flatten ∧
    ((List.range sizes.length).map (specPileupChrom sizes ivs)).flatten.length = total sizes := by
  obtain ⟨h1, h2⟩ := cover_local sizes ivs hv
  have hp : ∃ d, pileupGlobal sizes ivs = some d ∧ d.length = total sizes := by
    simp [pileupGlobal, omap_toGlobal sizes ivs hv]
  have hm : ∃ d, maskGlobal sizes ivs = some d ∧ d.length = total sizes := by
    simp [maskGlobal, omap_toGlobal sizes ivs hv]
  obtain ⟨d, hd, hl⟩ := hp
  obtain ⟨d', hd', hl'⟩ := hm
  rw [hd] at h1; rw [hd'] at h2
  simp only [Option.map_some, Option.some.injEq] at h1 h2
  refine ⟨?_, ?_, ?_⟩
  · rw [hd, ← h1, flatten_toDict sizes d hl]
  · rw [hd', ← h2, flatten_toDict sizes d' hl']
  · rw [← h1, flatten_toDict sizes d hl, hl]

/-- **C10.stream_per_chromosome** — the streamed per-chromosome path gives one array per chromosome of the
genome order, each the single-contig result of that chromosome's own entries — the all-zero array
of the chromosome's full length for a chromosome without entries, whether it is the first, a middle
or the last one — and these are exactly the per-chromosome views of the in-memory computation. -/
theorem stream_per_chromosome (sizes : List Nat) (ivs : List Iv) :
    pileupStream sizes ivs = (List.range sizes.length).map (specPileupChrom sizes ivs) ∧
    maskStream sizes ivs = (List.range sizes.length).map (specMaskChrom sizes ivs) ∧
    (pileupStream sizes ivs).length = sizes.length ∧
    (∀ c, c < sizes.length → (∀ iv ∈ ivs, iv.c ≠ c) →
      (pileupStream sizes ivs).getD c [] = List.replicate (size sizes c) 0) ∧
    ((∀ iv ∈ ivs, iv.valid sizes = true) →
      (pileupGlobal sizes ivs).map (toDict sizes) = some (pileupStream sizes ivs) ∧
      (maskGlobal sizes ivs).map (toDict sizes) = some (maskStream sizes ivs)) := by
  have h1 : pileupStream sizes ivs = (List.range sizes.length).map (specPileupChrom sizes ivs) := by
    simp only [pileupStream, pile1]
    apply List.map_congr_left
    intro c _
    simp only [specPileupChrom]
    apply List.map_congr_left
    intro p _
    simp [covCount, List.filter_map]
  have h2 : maskStream sizes ivs = (List.range sizes.length).map (specMaskChrom sizes ivs) := by
    rw [maskStream, h1, List.map_map]; rfl
  refine ⟨h1, h2, by simp [pileupStream], ?_, ?_⟩
  · intro c hc hno
    rw [h1]
    simp only [List.getD_eq_getElem?_getD, List.getElem?_map, List.getElem?_range hc, Option.map_some, Option.getD_some,
      specPileupChrom]
    have : ivs.filter (fun iv => decide (iv.c = c)) = [] := by
      simp only [List.filter_eq_nil_iff, decide_eq_true_eq]; exact hno
    rw [this]
    apply List.ext_getElem <;> simp
  · intro hv
    obtain ⟨a, b⟩ := cover_local sizes ivs hv
    rw [a, b, h1, h2]; exact ⟨rfl, rfl⟩

example : (pileupStream [2, 3, 2] [{ c := 0, s := 0, e := 2 }]) = [[1, 1], [0, 0, 0], [0, 0]] := by decide

/-! ### `get_location` and `Geometry.sort` -/

/-- **C10.location_inside** — `get_location` of an interval that lies inside its chromosome and is not empty
is a position of that same interval (hence of that chromosome, never of a neighbour): the centre
always; for stranded intervals the 5' end for `start` (`start` on `+`, `stop - 1` on `-`) and the 3'
end for `stop`; for unstranded `start` the start. (For unstranded intervals the code returns the start
also for `where = 'stop'`; that combination is modelled as the code has it and not claimed here.) -/
theorem location_inside (sizes : List Nat) (iv : Iv) (hv : iv.valid sizes = true) (hne : iv.s < iv.e)
    (stranded : Bool) (w : Nat) (hw : w ≤ 2) (hdom : stranded = true ∨ w ≠ 1) :
    (iv.s : Int) ≤ location stranded w iv ∧ location stranded w iv < iv.e ∧
    location stranded w iv < size sizes iv.c ∧
    (w = 0 → stranded = true → location stranded w iv = if iv.fwd then (iv.s : Int) else (iv.e : Int) - 1) ∧
    (w = 1 → stranded = true → location stranded w iv = if iv.fwd then (iv.e : Int) - 1 else (iv.s : Int)) := by
  obtain ⟨_, _, h3, _⟩ := (valid_iff sizes iv).mp hv
  have hw' : w = 0 ∨ w = 1 ∨ w = 2 := by omega
  rcases hw' with rfl | rfl | rfl
  · cases stranded <;> cases hf : iv.fwd <;> simp [location, hf] <;> omega
  · rcases hdom with rfl | h
    · cases hf : iv.fwd <;> simp [location, hf] <;> omega
    · exact absurd rfl h
  · cases stranded <;> simp [location] <;> omega

example : ({ c := 0, s := 3, e := 5 } : Iv).valid [5, 5] = true ∧ (3 : Nat) < 5 := by decide

theorem offset_mono (sizes : List Nat) (c₁ c₂ : Nat) (h : c₁ ≤ c₂) (h₂ : c₂ ≤ sizes.length) :
    offset sizes c₁ ≤ offset sizes c₂ := by
  rcases Nat.lt_or_eq_of_le h with h' | rfl
  · have := offset_add_size_le sizes c₁ c₂ h' h₂; omega
  · exact Nat.le_refl _

/-- **C10.geometry_sort_genome_order** — `Geometry.sort` (order by start in concatenated coordinates) returns
a permutation of the (valid) entries in genome order: chromosome indices are non-decreasing and, within
a chromosome, starts are non-decreasing; an entry is never moved into a neighbouring chromosome's block. -/
theorem geometry_sort_genome_order (sizes : List Nat) (ivs : List Iv) (hv : ∀ iv ∈ ivs, iv.valid sizes = true) :
    (sortByGlobalStart sizes ivs).Perm ivs ∧
    (sortByGlobalStart sizes ivs).Pairwise (fun a b => a.c < b.c ∨ (a.c = b.c ∧ a.s ≤ b.s)) := by
  have hp : (sortByGlobalStart sizes ivs).Perm ivs := List.mergeSort_perm ivs _
  refine ⟨hp, ?_⟩
  have hs : (sortByGlobalStart sizes ivs).Pairwise
      (fun a b => (decide (offset sizes a.c + a.s ≤ offset sizes b.c + b.s)) = true) :=
    List.pairwise_mergeSort (le := fun a b => decide (offset sizes a.c + a.s ≤ offset sizes b.c + b.s))
      (fun a b c h1 h2 => by simp only [decide_eq_true_eq] at *; omega)
      (fun a b => by simp only [Bool.or_eq_true, decide_eq_true_eq]; omega) ivs
  apply List.Pairwise.imp_of_mem _ hs
  intro a b ha hb h
  simp only [decide_eq_true_eq] at h
  obtain ⟨ha1, ha2, _, _⟩ := (valid_iff sizes a).mp (hv a (hp.mem_iff.mp ha))
  obtain ⟨hb1, hb2, _, _⟩ := (valid_iff sizes b).mp (hv b (hp.mem_iff.mp hb))
  rcases Nat.lt_trichotomy a.c b.c with hc | hc | hc
  · exact Or.inl hc
  · right; refine ⟨hc, ?_⟩; rw [hc] at h; omega
  · exfalso
    have := offset_add_size_le sizes b.c a.c hc (by omega)
    omega

/-! ### chromosome-name lookup -/

/-- **C10.name_lookup_partial** — when the hashes of the genome's chromosome names are pairwise distinct
(the code asserts this when the encoding is built), looking up a chromosome name of the genome returns
exactly its own index — names that are prefixes of one another are never confused — and whatever
index a query is mapped to carries the query's hash. *Partial*: a name that is NOT in the genome is
rejected only if its hash (polynomial in 129 modulo 2^31 − 1) differs from every genome name's hash;
a colliding foreign name would be accepted silently. Hash collisions are not excluded by proof. -/
theorem name_lookup_partial (names : List (List Nat)) (hnd : (names.map asciiHash).Nodup) :
    (∀ i (h : i < names.length), lookupName names names[i] = some i) ∧
    (∀ q i, lookupName names q = some i → ∃ h : i < names.length, asciiHash names[i] = asciiHash q) := by
  constructor
  · intro i h
    have hi : i < (names.map asciiHash).length := by simpa using h
    have := hnd.idxOf_getElem i hi
    simp only [List.getElem_map] at this
    simp [lookupName, this, h]
  · intro q i hq
    simp only [lookupName] at hq
    split at hq
    · rename_i hlt
      simp only [Option.some.injEq] at hq
      subst hq
      have := List.getElem_idxOf hlt
      simp only [List.getElem_map] at this
      exact ⟨by simpa using hlt, this⟩
    · simp at hq

example : ([[99, 104, 114, 49], [99, 104, 114, 49, 49], [99, 104, 114, 49, 95, 97]].map asciiHash).Nodup := by decide


/-! ### round 4: views, bins, location mapping, pinning and completeness -/

theorem zip_flatten {α β} (A : List (List α)) : ∀ (B : List (List β)), A.map List.length = B.map List.length →
    A.flatten.zip B.flatten = (List.zipWith List.zip A B).flatten := by
  induction A with
  | nil => intro B h; cases B <;> simp_all
  | cons a A ih =>
    intro B h
    cases B with
    | nil => simp at h
    | cons b B =>
      simp only [List.map_cons, List.cons.injEq] at h
      simp only [List.flatten_cons, List.zipWith_cons_cons]
      rw [List.zip_append h.1, ih B h.2]

/-- **C10.toDict_flatten_inverse** — cutting the genome-wide array back per chromosome (`to_dict`, `track[name]`) and
concatenating the per-chromosome arrays (`from_dict`) are inverse to each other: `toDict`/`extractChrom` are pinned by `List.flatten`. -/
theorem toDict_flatten_inverse {α} (arrays : List (List α)) :
    toDict (arrays.map List.length) arrays.flatten = arrays ∧
    (∀ (sizes : List Nat) (dense : List α), dense.length = total sizes → (toDict sizes dense).flatten = dense) := by
  refine ⟨?_, fun sizes dense h => flatten_toDict sizes dense h⟩
  induction arrays with
  | nil => rfl
  | cons a as ih =>
    rw [List.map_cons, toDict_cons, List.flatten_cons]
    simp [ih]

theorem size_lengths {α} (arrays : List (List α)) (c : Nat) :
    size (arrays.map List.length) c = (arrays.getD c []).length := by
  simp [size, List.getD_eq_getElem?_getD, List.getElem?_map]
  cases arrays[c]? <;> simp

theorem flatten_getElem? {α} (arrays : List (List α)) (c p : Nat) (hc : c < arrays.length)
    (hp : p < (arrays.getD c []).length) :
    arrays.flatten[offset (arrays.map List.length) c + p]? = (arrays.getD c [])[p]? := by
  have h := flatten_drop_take arrays c p 1 hc (by omega)
  have h1 : ∀ (l : List α) (i : Nat), (l.drop i).take 1 = (l[i]?).toList := by
    intro l i
    induction l generalizing i with
    | nil => simp
    | cons x xs ih =>
      cases i with
      | zero => simp
      | succ i => simpa using ih i
  rw [h1, h1] at h
  cases ha : arrays.flatten[offset (arrays.map List.length) c + p]? <;>
    cases hb : (arrays.getD c [])[p]? <;> simp_all

/-- **C10.track_views_local** — `track[name]` is that chromosome's own array, `track[location]` the own array's value at the
local position, and boolean indexing with a genome-wide mask is the concatenation over the chromosomes of each chromosome's
own values under its own mask; values of neighbouring chromosomes never appear. -/
theorem track_views_local (arrays : List (List Nat)) :
    (∀ c, c < arrays.length → extractChrom (arrays.map List.length) arrays.flatten c = arrays.getD c []) ∧
    (∀ c p, c < arrays.length → p < (arrays.getD c []).length →
      extractAt (arrays.map List.length) arrays.flatten c p = (arrays.getD c [])[p]?) ∧
    (∀ masks : List (List Nat), masks.map List.length = arrays.map List.length →
      boolIndex arrays.flatten masks.flatten = (List.zipWith boolIndex arrays masks).flatten) := by
  refine ⟨?_, ?_, ?_⟩
  · intro c hc
    have h := flatten_drop_take arrays c 0 (arrays.getD c []).length hc (by omega)
    simp only [extractChrom, size_lengths]
    simpa using h
  · intro c p hc hp
    have hfl : fromLocal (arrays.map List.length) c p = some (offset (arrays.map List.length) c + p) := by
      have : p < size (arrays.map List.length) c := by rw [size_lengths]; exact hp
      simp only [fromLocal]
      rw [if_pos ⟨by simpa using hc, this⟩]
    simp only [extractAt, hfl]
    exact flatten_getElem? arrays c p hc hp
  · intro masks hm
    simp only [boolIndex]
    rw [zip_flatten arrays masks hm.symm, List.filter_flatten, List.map_flatten]
    congr 1
    induction arrays generalizing masks with
    | nil => simp
    | cons a as ih =>
      cases masks with
      | nil => simp
      | cons m ms =>
        simp only [List.map_cons, List.cons.injEq] at hm
        have := ih ms hm.2
        simp only [List.zipWith_cons_cons, List.map_cons, List.cons.injEq]
        exact ⟨rfl, this⟩

theorem length_flatten_sum {α} (L : List (List α)) : L.flatten.length = (L.map List.length).sum := by
  induction L with
  | nil => rfl
  | cons a L ih => simp [ih]

/-- **C10.jaccard_counts_concat** — the intersection and union sizes `Geometry.jaccard` computes on the genome-wide masks are the
sums over the chromosomes of the per-chromosome intersection / union sizes. -/
theorem jaccard_counts_concat (A B : List (List Nat)) (h : A.map List.length = B.map List.length) :
    interCount A.flatten B.flatten = (List.zipWith interCount A B).sum ∧
    unionCount A.flatten B.flatten = (List.zipWith unionCount A B).sum := by
  simp only [interCount, unionCount]
  rw [zip_flatten A B h, List.filter_flatten, List.filter_flatten, length_flatten_sum, length_flatten_sum]
  constructor <;>
  · congr 1
    clear h
    induction A generalizing B with
    | nil => simp
    | cons a A ih =>
      cases B with
      | nil => simp
      | cons b B =>
        have := ih B
        simp only [List.zipWith_cons_cons, List.map_cons, List.cons.injEq]
        exact ⟨rfl, this⟩

theorem size_nBins (b : Nat) (hb : 0 < b) (sizes : List Nat) (c : Nat) :
    size (nBins b sizes) c = (size sizes c + b - 1) / b := by
  simp only [size, nBins, List.getD_eq_getElem?_getD, List.getElem?_map]
  cases sizes[c]? with
  | some s => simp
  | none =>
    simp only [Option.map_none, Option.getD_none, Nat.zero_add]
    exact (Nat.div_eq_of_lt (by omega)).symm

theorem div_lt_bins (b p sz : Nat) (hb : 0 < b) (hp : p < sz) : p / b + 1 ≤ (sz + b - 1) / b := by
  rw [Nat.le_div_iff_mul_le hb]
  have := Nat.div_mul_le_self p b
  rw [Nat.add_mul]
  omega

/-- **C10.binned_local** — `BinnedGenome.count` / `count_dict`: for locations inside their chromosomes and any bin size,
every chromosome's bins count exactly that chromosome's own locations (`position // bin_size`); a location never lands
in a neighbouring chromosome's bin, also not in the last, partial bin. -/
theorem binned_local (b : Nat) (hb : 0 < b) (sizes : List Nat) (pts : List (Nat × Nat))
    (hv : ∀ x ∈ pts, x.1 < sizes.length ∧ x.2 < size sizes x.1) :
    binnedCounts b sizes pts = specBinned b sizes pts := by
  let ivs : List Iv := pts.map (fun x => { c := x.1, s := x.2 / b, e := x.2 / b + 1 })
  have hvalid : ∀ iv ∈ ivs, iv.valid (nBins b sizes) = true := by
    intro iv hiv
    obtain ⟨x, hx, rfl⟩ := List.mem_map.mp hiv
    obtain ⟨h1, h2⟩ := hv x hx
    have := div_lt_bins b x.2 _ hb h2
    rw [valid_iff, size_nBins b hb]
    have hlen : (nBins b sizes).length = sizes.length := by simp [nBins]
    refine ⟨by rw [hlen]; exact h1, ?_, ?_⟩
    · exact Nat.lt_of_lt_of_le (Nat.lt_succ_self _) this
    · exact ⟨this, Nat.le_succ _⟩
  obtain ⟨hcl, _⟩ := cover_local (nBins b sizes) ivs hvalid
  have hg : pileupGlobal (nBins b sizes) ivs = some ((List.range (total (nBins b sizes))).map
      (fun g => (pts.filter (fun x => binIndex b sizes x.1 x.2 == g)).length)) := by
    simp only [pileupGlobal, omap_toGlobal _ ivs hvalid, Option.some.injEq]
    apply List.map_congr_left
    intro g _
    simp only [covCount, ivs, List.map_map, List.filter_map, List.length_map]
    congr 1
    apply List.filter_congr
    intro x _
    simp only [Function.comp, binIndex]
    rw [Bool.eq_iff_iff]
    simp only [Bool.and_eq_true, decide_eq_true_eq, beq_iff_eq]
    omega
  rw [hg] at hcl
  simp only [Option.map_some, Option.some.injEq] at hcl
  rw [binnedCounts, hcl, specBinned]
  have hl : (nBins b sizes).length = sizes.length := by simp [nBins]
  rw [hl]
  apply List.map_congr_left
  intro c _
  rw [specPileupChrom, size_nBins b hb]
  apply List.map_congr_left
  intro k _
  simp only [ivs, List.filter_map, List.length_map, List.filter_filter]
  congr 1
  apply List.filter_congr
  intro x _
  simp only [Function.comp]
  rw [Bool.eq_iff_iff]
  simp only [Bool.and_eq_true, decide_eq_true_eq, beq_iff_eq]
  omega

example : binnedCounts 2 [5, 4] [(0, 0), (0, 4), (1, 3)] = [[1, 0, 1], [0, 1]] := by decide

/-! ### locations → intervals -/

theorem drop_countLt {β} (l : List (Nat × β)) (a : Nat) (hs : l.Pairwise (fun x y => x.1 ≤ y.1)) :
    l.drop (countLt l a) = l.filter (fun x => a ≤ x.1) := by
  induction l with
  | nil => rfl
  | cons x r ih =>
    have hs' := List.pairwise_cons.mp hs
    by_cases hx : x.1 < a
    · have : ¬ a ≤ x.1 := by omega
      simp only [countLt, List.filter_cons, hx, decide_true, if_true, List.length_cons, List.drop_succ_cons, this,
        decide_false, Bool.false_eq_true, if_false]
      exact ih hs'.2
    · have hall : ∀ y ∈ r, a ≤ y.1 := fun y hy => by have := hs'.1 y hy; omega
      have h0 : countLt (x :: r) a = 0 := by
        simp only [countLt, List.length_eq_zero_iff, List.filter_eq_nil_iff, decide_eq_true_eq]
        intro y hy
        rcases List.mem_cons.mp hy with rfl | hy
        · exact hx
        · have := hall y hy; omega
      rw [h0, List.drop_zero]
      symm
      rw [List.filter_eq_self]
      intro y hy
      rcases List.mem_cons.mp hy with rfl | hy
      · simp; omega
      · simpa using hall y hy

theorem take_countLt {β} (l : List (Nat × β)) (b : Nat) (hs : l.Pairwise (fun x y => x.1 ≤ y.1)) :
    l.take (countLt l b) = l.filter (fun x => x.1 < b) := by
  induction l with
  | nil => rfl
  | cons x r ih =>
    have hs' := List.pairwise_cons.mp hs
    by_cases hx : x.1 < b
    · simp only [countLt, List.filter_cons, hx, decide_true, if_true, List.length_cons, List.take_succ_cons]
      congr 1
      exact ih hs'.2
    · have hall : ∀ y ∈ r, ¬ y.1 < b := fun y hy => by have := hs'.1 y hy; omega
      have hf : (x :: r).filter (fun x => decide (x.1 < b)) = [] := by
        simp only [List.filter_eq_nil_iff, decide_eq_true_eq]
        intro y hy
        rcases List.mem_cons.mp hy with rfl | hy
        · exact hx
        · exact hall y hy
      simp [countLt, hf]

/-- on a list sorted by global position, the repaired `find_indices` picks exactly the locations in `[gs, ge)` -/
theorem locSlice_filter (gl : List (Nat × Nat)) (gs ge : Nat) (hs : gl.Pairwise (fun x y => x.1 ≤ y.1)) (h : gs ≤ ge) :
    locSlice false gl gs ge = gl.filter (fun x => gs ≤ x.1 && x.1 < ge) := by
  simp only [locSlice, Bool.false_eq_true, if_false]
  rw [← List.drop_take, take_countLt gl ge hs]
  have hs' : (gl.filter (fun x => decide (x.1 < ge))).Pairwise (fun x y => x.1 ≤ y.1) := hs.filter _
  have hc : countLt gl gs = countLt (gl.filter (fun x => decide (x.1 < ge))) gs := by
    simp only [countLt, List.filter_filter]
    congr 1
    apply List.filter_congr
    intro x _
    rw [Bool.eq_iff_iff]
    simp only [decide_eq_true_eq, Bool.and_eq_true]
    omega
  rw [hc, drop_countLt _ gs hs', List.filter_filter]

theorem flatMap_congr' {α β} (l : List α) (f g : α → List β) (h : ∀ a ∈ l, f a = g a) : l.flatMap f = l.flatMap g := by
  induction l with
  | nil => rfl
  | cons x r ih =>
    simp only [List.flatMap_cons]
    rw [h x (List.mem_cons_self ..), ih (fun a ha => h a (List.mem_cons_of_mem _ ha))]

/-- **C10.map_locations_local** — `map_locations` (repaired `find_indices`), for intervals inside their chromosomes and locations
given in genome order: every interval is paired with exactly the locations on its own chromosome with
`start ≤ position < stop`, reported relative to the interval start. The shipped rule (`side="right"` for the stop) is
refuted: an interval ending at a chromosome end captured position 0 of the next chromosome, at relative position −3. -/
theorem map_locations_local (sizes : List Nat) (ivs : List Iv) (pts : List (Nat × Nat))
    (hv : ∀ iv ∈ ivs, iv.valid sizes = true ∧ iv.s ≤ iv.e)
    (hp : ∀ x ∈ pts, x.1 < sizes.length ∧ x.2 < size sizes x.1)
    (hs : (pts.map (fun x => offset sizes x.1 + x.2)).Pairwise (· ≤ ·)) :
    mapLocs false sizes ivs pts = some (specMapLocs ivs pts) ∧
    mapLocs true [5, 5] [{ c := 0, s := 3, e := 5 }] [(1, 0)] = some [(0, -3)] ∧
    specMapLocs [{ c := 0, s := 3, e := 5 }] [(1, 0)] = [] := by
  refine ⟨?_, by decide, by decide⟩
  have h1 : omap (fun (x : Nat × Nat) => (fromLocal sizes x.1 x.2).map (fun g => (g, x.2))) pts =
      some (pts.map (fun x => (offset sizes x.1 + x.2, x.2))) :=
    omap_some_map _ _ _ (fun x hx => by simp [fromLocal, hp x hx])
  have h2 := omap_toGlobal sizes ivs (fun iv h => (hv iv h).1)
  simp only [mapLocs, h1, h2, Option.some.injEq, specMapLocs]
  apply flatMap_congr'
  intro i hi
  have hi' : i < ivs.length := List.mem_range.mp hi
  have hget : ivs.getD i default = ivs[i] := by simp [List.getD_eq_getElem?_getD, List.getElem?_eq_getElem hi']
  have hmem : ivs[i] ∈ ivs := List.getElem_mem hi'
  obtain ⟨hval, hse⟩ := hv _ hmem
  have hg : (ivs.map (fun iv => (offset sizes iv.c + iv.s, offset sizes iv.c + iv.e))).getD i (0, 0) =
      (offset sizes ivs[i].c + ivs[i].s, offset sizes ivs[i].c + ivs[i].e) := by
    simp [List.getD_eq_getElem?_getD, List.getElem?_map, List.getElem?_eq_getElem hi']
  rw [hg, hget]
  have hsorted : (pts.map (fun x => (offset sizes x.1 + x.2, x.2))).Pairwise (fun x y => x.1 ≤ y.1) := by
    rw [List.pairwise_map] at hs ⊢
    exact hs
  rw [locSlice_filter _ _ _ hsorted (by simp only []; omega), List.filter_map, List.map_map]
  have hf : pts.filter ((fun (x : Nat × Nat) => decide (offset sizes ivs[i].c + ivs[i].s ≤ x.1) && decide (x.1 < offset sizes ivs[i].c + ivs[i].e)) ∘
        fun x => (offset sizes x.1 + x.2, x.2)) =
      pts.filter (fun x => x.1 == ivs[i].c && decide (ivs[i].s ≤ x.2) && decide (x.2 < ivs[i].e)) := by
    apply List.filter_congr
    intro x hx
    obtain ⟨hx1, hx2⟩ := hp x hx
    have := covers_iff sizes ivs[i] x.1 x.2 hval hx1 hx2
    simp only [Function.comp]
    rw [Bool.eq_iff_iff]
    simp only [Bool.and_eq_true, decide_eq_true_eq, beq_iff_eq]
    rw [this]
    constructor
    · intro ⟨a, b, c⟩; exact ⟨⟨a.symm, b⟩, c⟩
    · intro ⟨⟨a, b⟩, c⟩; exact ⟨a.symm, b, c⟩
  rw [hf]
  rfl

example : (([(0, 3), (0, 4), (1, 0)] : List (Nat × Nat)).map (fun x => offset [5, 5] x.1 + x.2)).Pairwise (· ≤ ·) := by decide

/-! ### sorted locations -/

theorem locLe_trans (a b c : Nat × Nat) (h1 : locLe a b = true) (h2 : locLe b c = true) : locLe a c = true := by
  simp only [locLe, Bool.or_eq_true, Bool.and_eq_true, decide_eq_true_eq, beq_iff_eq] at *
  omega

theorem locLe_total (a b : Nat × Nat) : (locLe a b || locLe b a) = true := by
  simp only [locLe, Bool.or_eq_true, Bool.and_eq_true, decide_eq_true_eq, beq_iff_eq]
  omega

/-- **C10.sort_locs_genome_order** — `GenomicLocation.sorted()` is a permutation in genome order (chromosome index, then
position) and is idempotent. -/
theorem sort_locs_genome_order (pts : List (Nat × Nat)) :
    (sortLocs pts).Perm pts ∧
    (sortLocs pts).Pairwise (fun a b => a.1 < b.1 ∨ (a.1 = b.1 ∧ a.2 ≤ b.2)) ∧
    sortLocs (sortLocs pts) = sortLocs pts := by
  have hs : (sortLocs pts).Pairwise (fun a b => locLe a b = true) := List.pairwise_mergeSort locLe_trans locLe_total pts
  refine ⟨List.mergeSort_perm pts locLe, ?_, List.mergeSort_of_pairwise hs⟩
  apply hs.imp
  intro a b h
  simp only [locLe, Bool.or_eq_true, Bool.and_eq_true, decide_eq_true_eq, beq_iff_eq] at h
  exact h

/-! ### completeness (`…_none_iff`), pinning of `searchsorted`, idempotence -/

/-- **C10.pileup_none_iff** — completeness: pile-up, mask and value extraction fail exactly when some entry does not lie
inside its chromosome (and never otherwise). -/
theorem pileup_none_iff (sizes : List Nat) (ivs : List Iv) :
    (pileupGlobal sizes ivs = none ↔ ∃ iv ∈ ivs, iv.valid sizes = false) ∧
    (maskGlobal sizes ivs = none ↔ ∃ iv ∈ ivs, iv.valid sizes = false) ∧
    (∀ {α} (dense : List α) (stranded : Bool) (iv : Iv), extractRow sizes dense stranded iv = none ↔ iv.valid sizes = false) := by
  have key : omap (toGlobal sizes) ivs = none ↔ ∃ iv ∈ ivs, iv.valid sizes = false := by
    have h := omap_isSome_iff (toGlobal sizes) ivs
    constructor
    · intro hn
      refine Classical.byContradiction fun hne => ?_
      have : (omap (toGlobal sizes) ivs).isSome = true := h.mpr (fun iv hiv => by
        have : iv.valid sizes = true := by
          cases hv : iv.valid sizes with
          | true => rfl
          | false => exact absurd ⟨iv, hiv, hv⟩ hne
        simp [toGlobal, this])
      rw [hn] at this; simp at this
    · intro ⟨iv, hiv, hv⟩
      cases ho : omap (toGlobal sizes) ivs with
      | none => rfl
      | some gs =>
        have := h.mp (by rw [ho]; rfl) iv hiv
        simp [toGlobal, hv] at this
  refine ⟨?_, ?_, ?_⟩
  · simp only [pileupGlobal]
    cases ho : omap (toGlobal sizes) ivs with
    | none => simp [← key, ho]
    | some gs => simp [← key, ho]
  · simp only [maskGlobal]
    cases ho : omap (toGlobal sizes) ivs with
    | none => simp [← key, ho]
    | some gs => simp [← key, ho]
  · intro α dense stranded iv
    simp only [extractRow, toGlobal]
    cases iv.valid sizes <;> simp

theorem offsets_sorted (sizes : List Nat) : (offsets sizes).Pairwise (· ≤ ·) := by
  induction sizes with
  | nil => simp [offsets]
  | cons s ss ih =>
    simp only [offsets, List.pairwise_cons, List.mem_map, forall_exists_index, and_imp, forall_apply_eq_imp_iff₂]
    refine ⟨fun a _ => Nat.zero_le _, ?_⟩
    rw [List.pairwise_map]
    exact ih.imp (fun h => by omega)

theorem takeWhile_eq_filter_sorted (l : List Nat) (g : Nat) (hs : l.Pairwise (· ≤ ·)) :
    l.takeWhile (· ≤ g) = l.filter (· ≤ g) := by
  induction l with
  | nil => rfl
  | cons x r ih =>
    have hs' := List.pairwise_cons.mp hs
    by_cases hx : x ≤ g
    · simp [List.takeWhile_cons, List.filter_cons, hx, ih hs'.2]
    · have : r.filter (· ≤ g) = [] := by
        simp only [List.filter_eq_nil_iff, decide_eq_true_eq]
        intro y hy; have := hs'.1 y hy; omega
      simp [List.takeWhile_cons, List.filter_cons, hx, this]

/-- **C10.searchsorted_is_count** — the model of `np.searchsorted(self._offset, g, side="right")` is pinned by a
standard notion: on the (sorted) offsets it is the number of offsets `≤ g`, and the offsets are the prefix sums
`(sizes.take c).sum`. -/
theorem searchsorted_is_count (sizes : List Nat) (g : Nat) :
    searchsortedRight (offsets sizes) g = ((offsets sizes).filter (· ≤ g)).length ∧
    (offsets sizes).Pairwise (· ≤ ·) ∧
    (∀ c, c ≤ sizes.length → offset sizes c = (sizes.take c).sum) := by
  refine ⟨?_, offsets_sorted sizes, fun c hc => offset_eq_spec sizes c hc⟩
  rw [searchsortedRight, takeWhile_eq_filter_sorted _ _ (offsets_sorted sizes)]

/-- **C10.sort_idempotent** — sorting sorted intervals changes nothing. -/
theorem sort_idempotent (ivs : List Iv) : sortGenome (sortGenome ivs) = sortGenome ivs :=
  List.mergeSort_of_pairwise (List.pairwise_mergeSort keyLe_trans keyLe_total ivs)



/-- **C10.binned_iff** — `BinnedGenome.count` with NO assumption on the locations: it gives a result exactly when every
location lies inside its chromosome, and then every chromosome's bins count exactly that chromosome's own locations;
otherwise an error is raised. Without the validation (`binnedCounts`, the shipped rule) a position beyond its
chromosome was counted in the neighbouring chromosome's first bin (witness: chr1:4 on sizes [4, 4], bin size 2). -/
theorem binned_iff (b : Nat) (hb : 0 < b) (sizes : List Nat) (pts : List (Nat × Nat)) :
    ((∀ x ∈ pts, x.1 < sizes.length ∧ x.2 < size sizes x.1) → binnedChecked b sizes pts = some (specBinned b sizes pts)) ∧
    (¬ (∀ x ∈ pts, x.1 < sizes.length ∧ x.2 < size sizes x.1) → binnedChecked b sizes pts = none) ∧
    binnedCounts 2 [4, 4] [(0, 4)] = [[0, 0], [1, 0]] := by
  refine ⟨?_, ?_, by decide⟩
  · intro hv
    have : pts.all (fun x => decide (x.1 < sizes.length) && decide (x.2 < size sizes x.1)) = true := by
      simp only [List.all_eq_true, Bool.and_eq_true, decide_eq_true_eq]; exact hv
    simp [binnedChecked, this, binned_local b hb sizes pts hv]
  · intro hn
    have : pts.all (fun x => decide (x.1 < sizes.length) && decide (x.2 < size sizes x.1)) = false := by
      cases h : pts.all (fun x => decide (x.1 < sizes.length) && decide (x.2 < size sizes x.1)) with
      | false => rfl
      | true =>
        simp only [List.all_eq_true, Bool.and_eq_true, decide_eq_true_eq] at h
        exact absurd h hn
    simp [binnedChecked, this]


/-! ### reviewer (audit/review-C01-C10.md, C10) -/

/-- **C10.negative_offsets_refused** — integer coordinates (repair 0868386): `from_local_coordinates` succeeds exactly for
`0 ≤ offset < size` (then global = chromosome offset + offset); an integer interval passes the globalisation checks
exactly when `0 ≤ start ≤ stop ≤ size` and `start < size`; the shipped rule (only `offset ≥ size` rejected) mapped
('b', −1) on sizes [3, 2] to global position 2, which is the LAST position of the neighbouring chromosome 'a'. -/
theorem negative_offsets_refused (sizes : List Nat) :
    (∀ c (p : Int) g, fromLocalZ sizes c p = some g ↔ c < sizes.length ∧ 0 ≤ p ∧ p < size sizes c ∧ (g : Int) = offset sizes c + p) ∧
    (∀ iv : IvZ, (∃ v, iv.checked = some v ∧ v.valid sizes = true) ↔
      iv.c < sizes.length ∧ 0 ≤ iv.s ∧ iv.s ≤ iv.e ∧ iv.s < size sizes iv.c ∧ iv.e ≤ size sizes iv.c) ∧
    (fromLocalOldZ [3, 2] 1 (-1) = some 2 ∧ toLocal [3, 2] 2 = (0, 2) ∧ fromLocalZ [3, 2] 1 (-1) = none) := by
  refine ⟨?_, ?_, by decide⟩
  · intro c p g
    simp only [fromLocalZ]
    by_cases hp : p < 0
    · simp [hp]; omega
    · simp only [hp, if_false, fromLocal]
      by_cases h : c < sizes.length ∧ p.toNat < size sizes c
      · rw [if_pos h]
        simp only [Option.some.injEq]
        constructor
        · intro hg; subst hg; exact ⟨h.1, by omega, by omega, by omega⟩
        · intro ⟨_, _, _, hg⟩; omega
      · rw [if_neg h]
        constructor
        · intro hh; cases hh
        · intro ⟨h1, h2, h3, _⟩; exact absurd ⟨h1, by omega⟩ h
  · intro iv
    simp only [IvZ.checked]
    by_cases h : 0 ≤ iv.s ∧ iv.s ≤ iv.e
    · rw [if_pos h]
      constructor
      · intro ⟨v, hv, hval⟩
        simp only [Option.some.injEq] at hv
        subst hv
        obtain ⟨a, b, c, d⟩ := (valid_iff _ _).mp hval
        simp only [] at a b c d
        omega
      · intro ⟨a, b, c, d, e⟩
        refine ⟨_, rfl, (valid_iff _ _).mpr ?_⟩
        simp only []
        omega
    · simp only [h, if_false]
      constructor
      · intro ⟨v, hv, _⟩; cases hv
      · intro ⟨_, a, b, _, _⟩; exact absurd ⟨a, b⟩ h


/-! ### the streamed path as a walk over the runs -/

theorem assignRuns_nil (m : Nat) : ∀ k, assignRuns k m [] = List.replicate m [] := by
  induction m with
  | zero => intro k; rfl
  | succ m ih => intro k; simp [assignRuns, ih, List.replicate_succ]

theorem assignRuns_sorted (m : Nat) : ∀ (k : Nat) (ivs : List Iv), ivs.Pairwise (fun a b => a.c ≤ b.c) →
    (∀ iv ∈ ivs, k ≤ iv.c) → (∀ iv ∈ ivs, iv.c < k + m) →
    assignRuns k m (runs ivs) = (List.range' k m).map (fun c => ivs.filter (fun iv => iv.c = c)) := by
  induction m with
  | zero =>
    intro k ivs _ hlo hhi
    rfl
  | succ m ih =>
    intro k ivs hs hlo hhi
    have hdl := dropWhile_lo ivs k hs hlo
    have hds : (ivs.dropWhile (fun iv => iv.c = k)).Pairwise (fun a b => a.c ≤ b.c) :=
      hs.sublist (List.dropWhile_sublist _)
    have hdh : ∀ iv ∈ ivs.dropWhile (fun iv => iv.c = k), iv.c < (k + 1) + m := by
      intro iv h
      have := hhi iv ((List.dropWhile_sublist _).subset h); omega
    have IH := ih (k + 1) _ hds hdl hdh
    have hrest : (List.range' (k + 1) m).map (fun c => ivs.filter (fun iv => iv.c = c)) =
        (List.range' (k + 1) m).map (fun c => (ivs.dropWhile (fun iv => iv.c = k)).filter (fun iv => iv.c = c)) := by
      apply List.map_congr_left
      intro c hc
      have : c ≠ k := by have := (List.mem_range'_1.mp hc).1; omega
      rw [filter_dropWhile ivs k c this]
    rw [List.range'_succ, List.map_cons, hrest, filter_eq_takeWhile ivs k hs hlo]
    by_cases ha : ivs.takeWhile (fun iv => iv.c = k) = []
    · have hd : ivs.dropWhile (fun iv => iv.c = k) = ivs := by
        have := List.takeWhile_append_dropWhile (p := fun iv => decide (iv.c = k)) (l := ivs)
        rw [ha, List.nil_append] at this; exact this
      rw [ha]
      rw [hd] at IH ⊢
      cases hr : runs ivs with
      | nil => rw [hr] at IH; simp [assignRuns, IH]
      | cons g t =>
        -- the first run is not chromosome k (no entry has chromosome k)
        have hg : g.1 ≠ k := by
          cases ivs with
          | nil => simp [runs] at hr
          | cons x r =>
            obtain ⟨g', t', hgt⟩ := runs_head x r
            rw [hgt] at hr
            simp only [List.cons.injEq] at hr
            have hx : x.c ≠ k := by
              intro hxk; simp [List.takeWhile_cons, hxk] at ha
            rw [← hr.1]; exact hx
        rw [hr] at IH
        simp [assignRuns, hg, IH]
    · rw [runs_span ivs k ha]
      simp [assignRuns, IH]

/-- **C10.stream_runs_per_chromosome** — the streamed path modelled as it runs: the entries are grouped into consecutive
chromosome runs, the genome order is walked and every chromosome gets its run or the empty table (`assignRuns`), zipped
with the sizes, single-contig pile-up per table. For entries in genome order on known chromosomes this is, per
chromosome, the pile-up / mask of that chromosome's own entries (all-zero of full length where there are none), and
for valid entries it equals the per-chromosome views of the in-memory computation. -/
theorem stream_runs_per_chromosome (sizes : List Nat) (ivs : List Iv) (hs : ivs.Pairwise (fun a b => a.c ≤ b.c))
    (hn : ∀ iv ∈ ivs, iv.c < sizes.length) :
    pileupStreamRuns sizes ivs = (List.range sizes.length).map (specPileupChrom sizes ivs) ∧
    maskStreamRuns sizes ivs = (List.range sizes.length).map (specMaskChrom sizes ivs) ∧
    ((∀ iv ∈ ivs, iv.valid sizes = true) →
      (pileupGlobal sizes ivs).map (toDict sizes) = some (pileupStreamRuns sizes ivs) ∧
      (maskGlobal sizes ivs).map (toDict sizes) = some (maskStreamRuns sizes ivs)) := by
  have ha := assignRuns_sorted sizes.length 0 ivs hs (fun _ _ => Nat.zero_le _) (by simpa using hn)
  have h1 : pileupStreamRuns sizes ivs = (List.range sizes.length).map (specPileupChrom sizes ivs) := by
    rw [pileupStreamRuns, ha, ← List.range_eq_range', ← (stream_per_chromosome sizes ivs).1, pileupStream]
    apply List.ext_getElem
    · simp
    · intro i h1 h2
      simp only [List.length_map, List.length_zip, List.length_range] at h1
      simp [List.getElem_zip, size, List.getD_eq_getElem?_getD, List.getElem?_eq_getElem (show i < sizes.length by omega)]
  have h2 : maskStreamRuns sizes ivs = (List.range sizes.length).map (specMaskChrom sizes ivs) := by
    rw [maskStreamRuns, h1, List.map_map]; rfl
  refine ⟨h1, h2, fun hv => ?_⟩
  obtain ⟨a, b⟩ := cover_local sizes ivs hv
  rw [a, b, h1, h2]; exact ⟨rfl, rfl⟩

example : pileupStreamRuns [2, 3, 2] [{ c := 0, s := 0, e := 2 }, { c := 2, s := 1, e := 2 }] = [[1, 1], [0, 0, 0], [0, 1]] := by decide


/-! ### reviewer items 4-7, sequence extraction, non-interference -/

/-- **C10.all_traced** — every kernel listed here was really traced from the running code this run: if a trace fails the
generator falls back to the hand formula and drops the name from `Gen.C10.traced`, which breaks THIS obligation. -/
theorem all_traced : Gen.C10.traced =
    ["clipGenome", "clipGeometry", "extendGeometry", "extendGenome", "locStart", "locStop", "locCenter", "locStartU", "locCenterU"] := by
  decide

/-- **C10.merge_grouping_old_wrong_answer** — the grouping shipped between 5ae8cf0 and 57736e2 (`groupby` with its
first-key = last-key fast path, no genome-order check) on chr1 [0,2), chr2 [0,1), chr1 [1,3): ONE group, the answer is
chr1 [0,3) alone — the chr2 entry is gone (what the real package returned) — while the specification keeps both. -/
theorem merge_grouping_old_wrong_answer :
    mergeGroupedOld 0 [{ c := 0, s := 0, e := 2 }, { c := 1, s := 0, e := 1 }, { c := 0, s := 1, e := 3 }] =
      some [{ c := 0, s := 0, e := 3 }] ∧
    specMerge 0 2 [{ c := 0, s := 0, e := 2 }, { c := 1, s := 0, e := 1 }, { c := 0, s := 1, e := 3 }] =
      some [{ c := 0, s := 0, e := 3 }, { c := 1, s := 0, e := 1 }] ∧
    mergeChecked 0 [5, 5] [{ c := 0, s := 0, e := 2 }, { c := 1, s := 0, e := 1 }, { c := 0, s := 1, e := 3 }] = none := by
  decide

theorem includedSizes_eq (sizes : List Nat) : ∀ (ign : List Bool),
    includedSizes sizes ign = ((sizes.zip ign).filter (fun y => !y.2)).map (·.1) := by
  induction sizes with
  | nil => intro ign; cases ign <;> simp [includedSizes]
  | cons s ss ih =>
    intro ign
    cases ign with
    | nil => simp [includedSizes]
    | cons g gs => cases g <;> simp [includedSizes, ih gs]

theorem size_includedSizes (sizes : List Nat) : ∀ (ign : List Bool) (c : Nat), sizes.length = ign.length → c < ign.length →
    ign.getD c false = false →
    size (includedSizes sizes ign) ((ign.take c).filter (!·)).length = size sizes c := by
  induction sizes with
  | nil => intro ign c hl hc; simp at hl; rw [← hl] at hc; simp at hc
  | cons s ss ih =>
    intro ign c hl hc hg
    cases ign with
    | nil => simp at hc
    | cons g gs =>
      cases c with
      | zero =>
        have : g = false := by simpa using hg
        subst this
        simp [includedSizes, size]
      | succ c =>
        have hl' : ss.length = gs.length := by simpa using hl
        have hc' : c < gs.length := by simpa using hc
        have hg' : gs.getD c false = false := by simpa using hg
        have := ih gs c hl' hc' hg'
        cases g
        · simp only [includedSizes, Bool.false_eq_true, if_false, List.take_succ_cons, List.filter_cons, Bool.not_false,
            if_true, List.length_cons, size_cons_succ]
          rw [this]
        · simp only [includedSizes, if_true, List.take_succ_cons, List.filter_cons, Bool.not_true, Bool.false_eq_true, if_false]
          rw [this]
          first | rfl | simp [size]

theorem length_filter_zip (sizes : List Nat) : ∀ (ign : List Bool), sizes.length = ign.length →
    ((sizes.zip ign).filter (fun y => !y.2)).length = (ign.filter (!·)).length := by
  induction sizes with
  | nil => intro ign h; cases ign <;> simp_all
  | cons s ss ih =>
    intro ign h
    cases ign with
    | nil => simp at h
    | cons g gs =>
      have := ih gs (by simpa using h)
      cases g <;> simp [this]

/-- **C10.included_sizes_spec** — `includedSizes` (the `_chrom_size_dict` every driver op works on) is the list of the
non-ignored sizes in genome order, it has `nIncluded` entries, and the size found under an included chromosome's code
(its rank) is that chromosome's own size; `maskDataZ` (the integer-coordinate rows) filters and re-indexes exactly like
`maskData` (`mask_data_spec`). -/
theorem included_sizes_spec (sizes : List Nat) (ign : List Bool) (hl : sizes.length = ign.length) :
    includedSizes sizes ign = ((sizes.zip ign).filter (fun y => !y.2)).map (·.1) ∧
    (includedSizes sizes ign).length = nIncluded ign ∧
    (∀ c, c < ign.length → ign.getD c false = false → size (includedSizes sizes ign) (encodeIdx ign c) = size sizes c) ∧
    (∀ ivs : List IvZ, (∀ iv ∈ ivs, iv.c < ign.length) →
      maskDataZ ign ivs = (ivs.filter (fun iv => !(ign.getD iv.c false))).map
        (fun iv => { iv with c := ((ign.take iv.c).filter (!·)).length })) := by
  refine ⟨includedSizes_eq sizes ign, ?_, ?_, ?_⟩
  · rw [includedSizes_eq, List.length_map, nIncluded]
    exact length_filter_zip sizes ign hl
  · intro c hc hg
    have : encodeIdx ign c = ((ign.take c).filter (!·)).length := by unfold encodeIdx; rw [hg]; simp
    rw [this]; exact size_includedSizes sizes ign c hl hc hg
  · intro ivs h
    unfold maskDataZ
    rw [List.filter_map]
    have hf : ivs.filter ((fun iv : IvZ => decide (iv.c < nIncluded ign)) ∘ fun iv => { iv with c := encodeIdx ign iv.c }) =
        ivs.filter (fun iv => !(ign.getD iv.c false)) := by
      apply List.filter_congr
      intro iv hiv
      have := encodeIdx_lt_iff ign iv.c (h iv hiv)
      simp only [Function.comp]
      cases hg : ign.getD iv.c false
      · simp [this.mpr hg]
      · have : ¬ encodeIdx ign iv.c < nIncluded ign := fun x => absurd (this.mp x) (by rw [hg]; decide)
        simp [this]
    rw [hf]
    apply List.map_congr_left
    intro iv hiv
    have hg : ign.getD iv.c false = false := by
      have := (List.mem_filter.mp hiv).2
      cases h' : ign.getD iv.c false
      · rfl
      · rw [h'] at this; exact absurd this (by decide)
    have : encodeIdx ign iv.c = ((ign.take iv.c).filter (!·)).length := by
      unfold encodeIdx; rw [hg]; simp
    rw [this]


/-- **C10.sort_stable** — `sorted()` is stable and looks at (chromosome, start, stop) only: two entries that are in key order
in the input (in particular two entries with the SAME key that differ in strand or any other column) keep their relative
order in the output. -/
theorem sort_stable (ivs : List Iv) (a b : Iv) (hab : keyLe a b = true) (h : [a, b].Sublist ivs) :
    [a, b].Sublist (sortGenome ivs) :=
  List.pair_sublist_mergeSort keyLe_trans keyLe_total hab h

example : keyLe { c := 0, s := 1, e := 2, fwd := true } { c := 0, s := 1, e := 2, fwd := false } = true := by decide

theorem compBase_involutive (b : Nat) : compBase (compBase b) = b := by
  unfold compBase
  repeat' split
  all_goals omega

theorem revComp_involutive (l : List Nat) : revComp (revComp l) = l := by
  simp [revComp, List.map_reverse, Function.comp_def, compBase_involutive]

/-- **C10.extract_seq_revcomp** — sequence under a (valid) interval: the slice `[start, stop)` of the interval's OWN chromosome's
sequence, and on the `-` strand (stranded extraction) its reverse complement (`A↔T`, `C↔G`, reversed); reverse complement is
an involution. Letters of neighbouring chromosomes never appear. -/
theorem extract_seq_revcomp (seqs : List (List Nat)) (stranded : Bool) (iv : Iv)
    (hv : iv.valid (seqs.map List.length) = true) :
    extractSeqRow (seqs.map List.length) seqs.flatten stranded iv = some (specSeqRow seqs stranded iv) ∧
    (∀ l, revComp (revComp l) = l) ∧
    revComp [65, 67, 71, 84, 78] = [78, 65, 67, 71, 84] := by
  refine ⟨?_, revComp_involutive, by decide⟩
  obtain ⟨h1, h2, h3, _⟩ := (valid_iff _ iv).mp hv
  have hc : iv.c < seqs.length := by simpa using h1
  have hsz : size (seqs.map List.length) iv.c = (seqs.getD iv.c []).length := size_lengths seqs iv.c
  simp only [extractSeqRow, toGlobal, hv, if_true, specSeqRow]
  have e : offset (seqs.map List.length) iv.c + iv.e - (offset (seqs.map List.length) iv.c + iv.s) = iv.e - iv.s := by omega
  rw [e, flatten_drop_take seqs iv.c iv.s (iv.e - iv.s) hc (by omega)]

example : ({ c := 1, s := 0, e := 2, fwd := false } : Iv).valid ([[65, 67], [71, 84, 84]].map List.length) = true := by decide

theorem specPileupChrom_eq_pile1 (sizes : List Nat) (ivs : List Iv) (c : Nat) :
    specPileupChrom sizes ivs c = pile1 (size sizes c) ((ivs.filter (fun iv => iv.c = c)).map (fun iv => (iv.s, iv.e))) := by
  simp only [specPileupChrom, pile1]
  apply List.map_congr_left
  intro p _
  simp [covCount, List.filter_map]

/-- **C10.non_interference** — the pile-up / mask of chromosome `c` depends on nothing but `c`'s own size and the (start, stop)
pairs of the entries on `c`: two genomes / entry lists that agree on these (whatever the other chromosomes, their sizes,
their entries and `c`'s position in the genome are) give the same array for it. -/
theorem non_interference (sizes sizes' : List Nat) (ivs ivs' : List Iv) (c c' : Nat)
    (hv : ∀ iv ∈ ivs, iv.valid sizes = true) (hv' : ∀ iv ∈ ivs', iv.valid sizes' = true)
    (hc : c < sizes.length) (hc' : c' < sizes'.length) (hsz : size sizes c = size sizes' c')
    (hent : (ivs.filter (fun iv => iv.c = c)).map (fun iv => (iv.s, iv.e)) =
            (ivs'.filter (fun iv => iv.c = c')).map (fun iv => (iv.s, iv.e))) :
    (pileupGlobal sizes ivs).map (fun d => extractChrom sizes d c) =
      (pileupGlobal sizes' ivs').map (fun d => extractChrom sizes' d c') ∧
    (maskGlobal sizes ivs).map (fun d => extractChrom sizes d c) =
      (maskGlobal sizes' ivs').map (fun d => extractChrom sizes' d c') := by
  have key : ∀ (sz : List Nat) (l : List Iv) (k : Nat), (∀ iv ∈ l, iv.valid sz = true) → k < sz.length →
      (pileupGlobal sz l).map (fun d => extractChrom sz d k) = some (specPileupChrom sz l k) ∧
      (maskGlobal sz l).map (fun d => extractChrom sz d k) = some (specMaskChrom sz l k) := by
    intro sz l k hvl hk
    obtain ⟨a, b⟩ := cover_local sz l hvl
    constructor
    · cases hp : pileupGlobal sz l with
      | none => rw [hp] at a; simp at a
      | some d =>
        rw [hp] at a
        simp only [Option.map_some, Option.some.injEq, toDict] at a ⊢
        have := congrArg (fun L => L.getD k []) a
        simpa [List.getD_eq_getElem?_getD, List.getElem?_map, List.getElem?_range hk] using this
    · cases hp : maskGlobal sz l with
      | none => rw [hp] at b; simp at b
      | some d =>
        rw [hp] at b
        simp only [Option.map_some, Option.some.injEq, toDict] at b ⊢
        have := congrArg (fun L => L.getD k []) b
        simpa [List.getD_eq_getElem?_getD, List.getElem?_map, List.getElem?_range hk] using this
  obtain ⟨a1, b1⟩ := key sizes ivs c hv hc
  obtain ⟨a2, b2⟩ := key sizes' ivs' c' hv' hc'
  have hp : specPileupChrom sizes ivs c = specPileupChrom sizes' ivs' c' := by
    rw [specPileupChrom_eq_pile1, specPileupChrom_eq_pile1, hsz, hent]
  refine ⟨by rw [a1, a2, hp], by rw [b1, b2, specMaskChrom, specMaskChrom, hp]⟩

example : size [5, 2] 1 = size [2] 0 ∧
    (([{ c := 1, s := 0, e := 2 }] : List Iv).filter (fun iv => iv.c = 1)).map (fun iv => (iv.s, iv.e)) =
    (([{ c := 0, s := 0, e := 2 }] : List Iv).filter (fun iv => iv.c = 0)).map (fun iv => (iv.s, iv.e)) := by decide

/-! ### `GlobalOffset.start_ends_from_intervals(interval, do_clip)` (round 6) -/

/-- **C10.globalise_clip_own_chromosome** — whenever the globalisation of an integer entry succeeds (with or without the
keyword `do_clip`), the global interval lies inside the global range of the entry's OWN chromosome: every position of it
converts back to that chromosome, `to_local_interval` returns the entry with its stop cut at the chromosome size, and
without `do_clip` nothing was cut. -/
theorem globalise_clip_own_chromosome (sizes : List Nat) (clip : Bool) (iv : IvZ) (a b : Nat)
    (h : globaliseZ sizes clip iv = some (a, b)) :
    iv.c < sizes.length ∧ 0 ≤ iv.s ∧
    a = offset sizes iv.c + iv.s.toNat ∧ b = offset sizes iv.c + min iv.e.toNat (size sizes iv.c) ∧
    a ≤ b ∧ b ≤ offset sizes iv.c + size sizes iv.c ∧
    (∀ g, a ≤ g → g < b → toLocal sizes g = (iv.c, g - offset sizes iv.c)) ∧
    toLocalIv sizes (a, b) = some { c := iv.c, s := iv.s.toNat, e := min iv.e.toNat (size sizes iv.c) } ∧
    (clip = false → b = offset sizes iv.c + iv.e.toNat) := by
  unfold globaliseZ at h
  split at h
  · rename_i hc
    obtain ⟨hc, h0, hs, hse, hcl⟩ := hc
    simp only [Option.some.injEq, Prod.mk.injEq] at h
    obtain ⟨ha, hb⟩ := h
    have hloc : ∀ p, p < size sizes iv.c → toLocal sizes (offset sizes iv.c + p) = (iv.c, p) := by
      intro p hp
      obtain ⟨g, hg, _, hl⟩ := (local_global_bijection sizes).1 iv.c p hc hp
      simp only [fromLocal, hc, hp, and_self, if_true, Option.some.injEq] at hg
      rw [hg]; exact hl
    have hsz : iv.s.toNat < size sizes iv.c := by omega
    refine ⟨hc, h0, ha.symm, hb.symm, by omega, by omega, ?_, ?_, ?_⟩
    · intro g h1 h2
      have := hloc (g - offset sizes iv.c) (by omega)
      have e : offset sizes iv.c + (g - offset sizes iv.c) = g := by omega
      rw [e] at this; exact this
    · have h1 := hloc iv.s.toNat hsz
      rw [ha] at h1
      have hci : chromIdx sizes a = iv.c := by
        have := congrArg Prod.fst h1; simpa [toLocal] using this
      unfold toLocalIv
      simp only [hci]
      have : b - offset sizes iv.c ≤ size sizes iv.c := by omega
      rw [if_pos this]
      congr 2 <;> omega
    · intro hf
      have : iv.e ≤ (size sizes iv.c : Int) := by
        rcases hcl with h | h
        · rw [hf] at h; cases h
        · exact h
      omega
  · cases h

/-- **C10.globalise_none_iff** — the globalisation refuses exactly: unknown chromosome, negative start, start at or beyond
the chromosome size, stop before start, and (only without `do_clip`) a stop beyond the chromosome size. -/
theorem globalise_none_iff (sizes : List Nat) (clip : Bool) (iv : IvZ) :
    globaliseZ sizes clip iv = none ↔
      ¬ (iv.c < sizes.length ∧ 0 ≤ iv.s ∧ iv.s < (size sizes iv.c : Int) ∧ iv.s ≤ iv.e ∧
        (clip = true ∨ iv.e ≤ (size sizes iv.c : Int))) := by
  unfold globaliseZ
  split <;> simp_all

/-- **C10.globalise_genome_end_unsound** — refutation of the deviating rule "clip against the end of the genome": an entry
overhanging a chromosome that is not the last one covers positions of the NEXT chromosome; the code's rule stops at the
boundary. -/
theorem globalise_genome_end_unsound :
    ∃ (sizes : List Nat) (iv : IvZ) (a b g : Nat), globaliseGenomeEndZ sizes iv = some (a, b) ∧
      a ≤ g ∧ g < b ∧ (toLocal sizes g).1 ≠ iv.c ∧ globaliseZ sizes true iv = some (a, g) :=
  ⟨[5, 5, 4], { c := 0, s := 3, e := 9 }, 3, 9, 5, by decide⟩

end C10
