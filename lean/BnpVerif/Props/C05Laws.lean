import BnpVerif.Props.C05Core
import BnpVerif.Props.C04Laws
/-! C05 — the model's notions pinned by standard list facts, and algebraic laws of the lazy table. -/
namespace C05
open PyIdx

/-- **C05.fileCol_get** — the parsed column f is, row by row, the value of cell f -/
theorem fileCol_get (buf : List FRow) (f i : Nat) :
    (fileCol buf f)[i]? = (buf[i]?).map (fun r => ((r.cells[f]?).map (·.val)).getD []) := by
  simp [fileCol, List.getElem?_map]

/-- **C05.view_ofFile** — a freshly read lazy table shows the file's columns -/
theorem view_ofFile (buf : List FRow) (f : Nat) : view (Lazy.ofFile buf) f = fileCol buf f := by
  simp [view, Lazy.ofFile, lookup]

/-- **C05.transposeN_get** — rows ↔ columns: entry (i, f) of the row form is entry (f, i) of the column form -/
theorem transposeN_get (n : Nat) (cols : List Col) (i f : Nat) (hi : i < n) :
    ((transposeN n cols)[i]?).bind (·[f]?) = (cols[f]?).map (fun c => c.getD i []) := by
  unfold transposeN rowOf
  simp [List.getElem?_map, List.getElem?_range hi]

/-- **C05.eager_select_get** — indexing an eager table indexes every column -/
theorem eager_select_get (e : Eager) (ixs : List Nat) (f : Nat) (hf : f < e.cols.length) :
    (e.select ixs).get f = gather (e.get f) ixs := by
  unfold Eager.select Eager.get
  simp [List.getD_eq_getElem?_getD, List.getElem?_map, List.getElem?_eq_getElem hf]

/-- **C05.get_idempotent** — reading a field twice gives the same column and no further state change -/
theorem get_idempotent (l : Lazy) (f : Nat) : (l.get f).2.get f = ((l.get f).1, (l.get f).2) := by
  unfold Lazy.get
  cases hs : lookup l.set f with
  | some c => simp [hs]
  | none =>
    cases hc : lookup l.computed f with
    | some c => simp [hs, hc]
    | none => simp [hs, hc, lookup_insert]

/-- **C05.setattr_get** — after `t.f = c`, field f reads back as c (whatever was cached) and the other fields are unchanged -/
theorem setattr_get (l : Lazy) (f g : Nat) (c : Col) :
    ((l.setattr f c).get g).1 = if f = g then c else (l.get g).1 := by
  rw [get_fst, get_fst, view_setattr]

/-- **C05.select_select_view** — two index selections in a row show what the composed selection shows -/
theorem select_select_view (l : Lazy) (hc : Coh l) (ha : Aligned l) (a b : List Nat) (hv : ∀ k ∈ a, k < l.len) (f : Nat) :
    view ((l.select a).select b) f = view (l.select (gather a b)) f := by
  have hsel : Coh (l.select a) := by
    intro g c hg
    simp only [Lazy.select, lookup_mapVals] at hg
    cases hcm : lookup l.computed g with
    | none => simp [hcm] at hg
    | some c0 =>
      simp [hcm] at hg; subst hg
      rw [hc g c0 hcm]; exact (fileCol_gather l.buf g a).symm
  rw [view_select _ hsel, view_select _ hc, view_select _ hc]
  exact C04.gather_gather _ _ _ (by rw [view_length l hc ha f]; exact hv)

/-- **C05.replace_replace_view** — replacing twice is replacing once with the later values winning -/
theorem replace_replace_view (l : Lazy) (kw1 kw2 : FMap) (f : Nat) :
    view ((l.replace kw1).replace kw2) f = view (l.replace (kw1 ++ kw2)) f := by
  have hupd : ∀ (kw : FMap) (S : FMap), update (update S kw1) kw = update S (kw1 ++ kw) := by
    intro kw S
    induction kw1 generalizing S with
    | nil => rfl
    | cons p ps ih => obtain ⟨g, c⟩ := p; simp only [update, List.cons_append]; exact ih _
  unfold Lazy.replace view
  simp only [hupd]

/-- **C05.concat_assoc_view** — concatenation is associative on what the tables show: `cat [cat [a, b], c]` and
`cat [a, cat [b, c]]` both show `a ++ b ++ c` in every field -/
theorem concat_assoc_view (nF : Nat) (af : Bool) (a b c : Lazy) (ha : Coh a ∧ Aligned a) (hb : Coh b ∧ Aligned b) (hc : Coh c ∧ Aligned c)
    (f : Nat) (hf : f < nF) :
    ∃ ab bc x y, (concatNew nF af [a, b]).map (·.1) = some ab ∧ (concatNew nF af [b, c]).map (·.1) = some bc ∧
      (concatNew nF af [ab, c]).map (·.1) = some x ∧ (concatNew nF af [a, bc]).map (·.1) = some y ∧
      view x f = view a f ++ view b f ++ view c f ∧ view y f = view a f ++ view b f ++ view c f := by
  have two : ∀ (p q : Lazy), (Coh p ∧ Aligned p) → (Coh q ∧ Aligned q) →
      ∃ r, (concatNew nF af [p, q]).map (·.1) = some r ∧ Coh r ∧ Aligned r ∧ (∀ g, g < nF → view r g = view p g ++ view q g) := by
    intro p q hp hq
    obtain ⟨r, hr, c1, c2, _, _, c5⟩ := concatNew_spec nF af [p, q] (by simp)
      (by intro x hx; simp at hx; rcases hx with rfl | rfl; exact hp.1; exact hq.1)
      (by intro x hx; simp at hx; rcases hx with rfl | rfl; exact hp.2; exact hq.2)
    exact ⟨r, by rw [hr]; rfl, c1, c2, fun g hg => by rw [c5 g hg]; simp⟩
  obtain ⟨ab, h1, c1, a1, v1⟩ := two a b ha hb
  obtain ⟨bc, h2, c2, a2, v2⟩ := two b c hb hc
  obtain ⟨x, h3, _, _, v3⟩ := two ab c ⟨c1, a1⟩ hc
  obtain ⟨y, h4, _, _, v4⟩ := two a bc ha ⟨c2, a2⟩
  exact ⟨ab, bc, x, y, h1, h2, h3, h4, by rw [v3 f hf, v1 f hf], by rw [v4 f hf, v2 f hf, List.append_assoc]⟩

/-- **C05.write_untouched** — an untouched lazy table (nothing set), however indexed, writes the selected records' original bytes -/
theorem write_untouched (join : List Bytes → Bytes) (nF : Nat) (buf : List FRow) (ixs : List Nat) :
    ((Lazy.ofFile buf).select ixs).write join nF = ((gather buf ixs).map (·.raw)).flatten := by
  simp [Lazy.write, Lazy.select, Lazy.ofFile, mapVals]

/-! non-vacuity -/
example : Coh (Lazy.ofFile [demoRow 49 50]) ∧ Aligned (Lazy.ofFile [demoRow 49 50]) :=
  ⟨(R_ofFile 2 _).1, (R_ofFile 2 _).2.1⟩

end C05
