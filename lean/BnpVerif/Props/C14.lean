import BnpVerif.Model.C14
import BnpVerif.Gen.C14
/-! C14 property theorems. Helper lemmas first; the property theorems are the ones listed in
`Audit/C14.lean`. -/
namespace C14
open Base

/-! ### facts about the specification -/

theorem compByte_invol (b : Nat) : compByte (compByte b) = b := by
  by_cases h1 : b = 65; · subst h1; decide
  by_cases h2 : b = 84; · subst h2; decide
  by_cases h3 : b = 67; · subst h3; decide
  by_cases h4 : b = 71; · subst h4; decide
  by_cases h5 : b = 97; · subst h5; decide
  by_cases h6 : b = 116; · subst h6; decide
  by_cases h7 : b = 99; · subst h7; decide
  by_cases h8 : b = 103; · subst h8; decide
  have : compByte b = b := by simp [compByte, *]
  rw [this, this]

theorem isDna_compByte (b : Nat) (h : isDna b = true) : isDna (compByte b) = true := by
  have : b ∈ dnaLetters := by simpa [isDna] using h
  simp only [dnaLetters, List.mem_cons, List.not_mem_nil, or_false] at this
  rcases this with h | h | h | h | h | h | h | h | h | h <;> subst h <;> decide

/-- spec level: reverse complement applied twice is the identity, for every byte string -/
theorem specRevComp_invol (s : Bytes) : specRevComp (specRevComp s) = s := by
  unfold specRevComp
  rw [List.map_reverse, List.reverse_reverse, List.map_map]
  have : (compByte ∘ compByte) = id := by funext b; simp [compByte_invol]
  simp [this]

theorem specRevComp_length (s : Bytes) : (specRevComp s).length = s.length := by
  simp [specRevComp]

theorem specRevComp_dna (s : Bytes) (h : ∀ b ∈ s, isDna b = true) : ∀ b ∈ specRevComp s, isDna b = true := by
  intro b hb
  simp only [specRevComp, List.mem_reverse, List.mem_map] at hb
  obtain ⟨a, ha, rfl⟩ := hb
  exact isDna_compByte a (h a ha)

/-! ### the specification pinned by standard list notions -/

/-- complement then reverse = reverse then complement -/
theorem specRevComp_eq_reverse_map (s : Bytes) : specRevComp s = s.reverse.map compByte := by
  simp [specRevComp, List.map_reverse]

/-- the reverse complement of a concatenation is the concatenation, in the opposite order, of the
reverse complements (why a multi-exon `-` transcript is complemented as a whole) -/
theorem specRevComp_append (a b : Bytes) : specRevComp (a ++ b) = specRevComp b ++ specRevComp a := by
  simp [specRevComp, List.map_append, List.reverse_append]

theorem specRevComp_flatten (l : List Bytes) : specRevComp l.flatten = (l.reverse.map specRevComp).flatten := by
  induction l with
  | nil => rfl
  | cons x xs ih => simp [List.flatten_cons, specRevComp_append, ih, List.map_append, List.flatten_append]

/-- position `i` of the reverse complement is the complement of position `len-1-i` -/
theorem specRevComp_getElem? (s : Bytes) (i : Nat) (hi : i < s.length) :
    (specRevComp s)[i]? = some (compByte (s.getD (s.length - 1 - i) 0)) := by
  unfold specRevComp
  rw [List.getElem?_reverse (by simpa using hi)]
  simp only [List.length_map, List.getElem?_map]
  rw [List.getD_eq_getElem?_getD, List.getElem?_eq_getElem (by omega)]
  rfl

/-- the complement written out on the ten letters: A<->T, C<->G, a<->t, c<->g, N and n fixed -/
theorem compByte_table : dnaLetters.map compByte = [84, 71, 67, 65, 78, 116, 103, 99, 97, 110] := by decide

/-- case is kept -/
theorem compByte_case : dnaLetters.all (fun b => isLower (compByte b) == isLower b) = true := by decide

/-! ### from the whole-table obligation to single codes -/

theorem tableOK_point (T : Tab) (h : tableOK T = true) (c b : Nat) (hc : T.dec[c]? = some b)
    (hb : isDna b = true) : ∃ c', (T.comp[c]?).join = some c' ∧ T.dec[c']? = some (compByte b) := by
  unfold tableOK at h
  simp only [Bool.and_eq_true, List.all_eq_true, List.mem_range] at h
  have hlt : c < T.dec.length := by
    rcases Nat.lt_or_ge c T.dec.length with h' | h'
    · exact h'
    · rw [List.getElem?_eq_none h'] at hc; simp at hc
  have := h.1.2 c hlt
  rw [hc] at this
  simp only [hb, Bool.not_true, Bool.false_or] at this
  split at this
  · rename_i c' hc'
    exact ⟨c', hc', by simpa using this⟩
  · simp at this

theorem tableOK_nodup (T : Tab) (h : tableOK T = true) : T.dec.Nodup := by
  unfold tableOK at h
  simp only [Bool.and_eq_true, decide_eq_true_eq] at h
  exact h.2

theorem dec_inj (T : Tab) (h : tableOK T = true) (a a' b : Nat) (ha : T.dec[a]? = some b)
    (ha' : T.dec[a']? = some b) : a = a' := by
  have hlt : a < T.dec.length := by
    rcases Nat.lt_or_ge a T.dec.length with h' | h'
    · exact h'
    · rw [List.getElem?_eq_none h'] at ha; simp at ha
  exact (List.getElem?_inj hlt (tableOK_nodup T h)).mp (ha.trans ha'.symm)

theorem decode_inj (T : Tab) (h : tableOK T = true) (cs cs' : List Nat) (t : Bytes)
    (h1 : decode T cs = some t) (h2 : decode T cs' = some t) : cs = cs' :=
  omap_inj _ (dec_inj T h) cs cs' t h1 h2

/-- flat: the looked-up codes decode to the complemented text -/
theorem complement_decode (T : Tab) (h : tableOK T = true) (cs : List Nat) (t : Bytes)
    (hd : decode T cs = some t) (hdna : ∀ b ∈ t, isDna b = true) :
    ∃ d, complement T cs = some d ∧ decode T d = some (t.map compByte) := by
  unfold decode complement at *
  induction cs generalizing t with
  | nil => simp at hd; subst hd; exact ⟨[], rfl, rfl⟩
  | cons c cs ih =>
    obtain ⟨b, bs, hb, hbs, rfl⟩ := omap_cons_eq_some _ c cs t hd
    obtain ⟨d, hd1, hd2⟩ := ih bs hbs (fun x hx => hdna x (by simp [hx]))
    obtain ⟨c', hc1, hc2⟩ := tableOK_point T h c b hb (hdna b (by simp))
    exact ⟨c' :: d, omap_cons_some _ _ _ _ _ hc1 hd1, by
      simpa using omap_cons_some (fun c => T.dec[c]?) c' d _ _ hc2 hd2⟩

/-- rows: every row's lookup decodes to that row's complemented text -/
theorem complement_rows (T : Tab) (h : tableOK T = true) (rows : List (List Nat)) (texts : List Bytes)
    (hd : omap (decode T) rows = some texts) (hdna : ∀ t ∈ texts, ∀ b ∈ t, isDna b = true) :
    ∃ outs, omap (complement T) rows = some outs ∧
      omap (decode T) outs = some (texts.map (fun t => t.map compByte)) := by
  induction rows generalizing texts with
  | nil => simp at hd; subst hd; exact ⟨[], rfl, rfl⟩
  | cons r rs ih =>
    obtain ⟨t, ts, ht, hts, rfl⟩ := omap_cons_eq_some _ r rs texts hd
    obtain ⟨outs, ho1, ho2⟩ := ih ts hts (fun x hx => hdna x (by simp [hx]))
    obtain ⟨d, hd1, hd2⟩ := complement_decode T h r t ht (hdna t (by simp))
    exact ⟨d :: outs, omap_cons_some _ _ _ _ _ hd1 ho1, by
      simpa using omap_cons_some (decode T) d outs _ _ hd2 ho2⟩

/-- the ragged model computes the per-row lookups, reversed -/
theorem revcompRagged_rows (T : Tab) (rows outs : List (List Nat))
    (h : omap (complement T) rows = some outs) :
    revcompRagged T rows = some (outs.map List.reverse) := by
  unfold revcompRagged
  have hf : complement T rows.flatten = some outs.flatten := by
    unfold complement at *
    rw [omap_flatten, h]; rfl
  rw [hf]
  have hl : outs.map List.length = rows.map List.length := by
    unfold complement at h
    exact omap_omap_lengths _ rows outs h
  simp only [Option.map_some, Option.some.injEq]
  rw [unflatten_flatten_of_lengths _ _ hl]

theorem revcompRagged_some (T : Tab) (rows out : List (List Nat)) (h : revcompRagged T rows = some out) :
    ∃ outs, omap (complement T) rows = some outs ∧ out = outs.map List.reverse := by
  unfold revcompRagged at h
  cases hc : complement T rows.flatten with
  | none => simp [hc] at h
  | some d =>
    have hc' := hc
    unfold complement at hc'
    rw [omap_flatten] at hc'
    cases ho : omap (omap fun c => (T.comp[c]?).join) rows with
    | none => simp [ho] at hc'
    | some outs =>
      have h1 : omap (complement T) rows = some outs := ho
      have := revcompRagged_rows T rows outs h1
      unfold revcompRagged at this
      rw [this] at h
      exact ⟨outs, h1, by simpa using h.symm⟩

/-- completeness: `get_reverse_complement` answers iff every code has a table entry (the numpy lookup
raises exactly on an out-of-range code / a symbol the table could not complement) -/
theorem revcompRagged_isSome_iff (T : Tab) (rows : List (List Nat)) :
    (revcompRagged T rows).isSome ↔ ∀ r ∈ rows, ∀ c ∈ r, ((T.comp[c]?).join).isSome := by
  unfold revcompRagged complement
  rw [Option.isSome_map, omap_isSome_iff]
  constructor
  · intro h r hr c hc
    exact h c (List.mem_flatten.mpr ⟨r, hr, hc⟩)
  · intro h c hc
    obtain ⟨r, hr, hcr⟩ := List.mem_flatten.mp hc
    exact h r hr c hcr

/-! ### property theorems: reverse complement -/

/-- C14 clause 1 (`revcomp_def`): for every encoding whose tabulated table passes the obligation
and every ragged array whose rows decode to DNA text, `get_reverse_complement` succeeds and its
result decodes, row for row, to `reverse ∘ map complement` of that row's text. -/
theorem revcomp_def (T : Tab) (h : tableOK T = true) (rows : List (List Nat)) (texts : List Bytes)
    (hd : omap (decode T) rows = some texts) (hdna : ∀ t ∈ texts, ∀ b ∈ t, isDna b = true) :
    ∃ out, revcompRagged T rows = some out ∧ omap (decode T) out = some (texts.map specRevComp) := by
  obtain ⟨outs, ho1, ho2⟩ := complement_rows T h rows texts hd hdna
  refine ⟨outs.map List.reverse, revcompRagged_rows T rows outs ho1, ?_⟩
  rw [omap_map]
  have := omap_comp_some (decode T) (fun a => decode T a.reverse) List.reverse outs _
    (fun a _ => by unfold decode; exact omap_reverse _ a) ho2
  rw [this, List.map_map]
  rfl

/-- the same for a flat (one-sequence) array -/
theorem revcomp_def_flat (T : Tab) (h : tableOK T = true) (cs : List Nat) (t : Bytes)
    (hd : decode T cs = some t) (hdna : ∀ b ∈ t, isDna b = true) :
    ∃ out, revcompFlat T cs = some out ∧ decode T out = some (specRevComp t) := by
  obtain ⟨d, hd1, hd2⟩ := complement_decode T h cs t hd hdna
  refine ⟨d.reverse, by simp [revcompFlat, hd1], ?_⟩
  unfold decode at *
  rw [omap_reverse, hd2]; rfl

/-- C14 clause 2 (`revcomp_lengths`): every row keeps its length (no table hypothesis needed) -/
theorem revcomp_lengths (T : Tab) (rows out : List (List Nat)) (h : revcompRagged T rows = some out) :
    out.map List.length = rows.map List.length := by
  obtain ⟨outs, ho, rfl⟩ := revcompRagged_some T rows out h
  unfold complement at ho
  have := omap_omap_lengths _ rows outs ho
  simpa [List.map_map, Function.comp_def] using this

/-- C14 clause 3 (`revcomp_involutive`): applied twice gives back the input, code for code -/
theorem revcomp_involutive (T : Tab) (h : tableOK T = true) (rows : List (List Nat)) (texts : List Bytes)
    (hd : omap (decode T) rows = some texts) (hdna : ∀ t ∈ texts, ∀ b ∈ t, isDna b = true)
    (out : List (List Nat)) (h1 : revcompRagged T rows = some out) : revcompRagged T out = some rows := by
  obtain ⟨out', h1', hd1⟩ := revcomp_def T h rows texts hd hdna
  rw [h1] at h1'; cases h1'
  have hdna1 : ∀ t ∈ texts.map specRevComp, ∀ b ∈ t, isDna b = true := by
    intro t ht
    obtain ⟨s, hs, rfl⟩ := List.mem_map.mp ht
    exact specRevComp_dna s (hdna s hs)
  obtain ⟨out2, h2, hd2⟩ := revcomp_def T h out _ hd1 hdna1
  rw [h2]
  have : (texts.map specRevComp).map specRevComp = texts := by
    rw [List.map_map]
    have : (specRevComp ∘ specRevComp) = id := by funext s; simp [specRevComp_invol]
    simp [this]
  rw [this] at hd2
  congr 1
  exact omap_inj (decode T) (fun a a' b ha ha' => decode_inj T h a a' b ha ha') out2 rows texts hd2 hd

/-! ### stranded extraction -/

theorem selectRows_map {ι} (ivs : List ι) (p : ι → Bool) (f g : ι → List Nat) :
    selectRows (ivs.map p) (ivs.map f) (ivs.map g) = ivs.map (fun iv => if p iv then f iv else g iv) := by
  induction ivs with
  | nil => rfl
  | cons x xs ih => simp [selectRows, ih]

theorem selectRows_decode (g : List Nat → Option (List Nat)) (ms : List Bool) (as bs as' bs' : List (List Nat))
    (ha : omap g as = some as') (hb : omap g bs = some bs') :
    omap g (selectRows ms as bs) = some (selectRows ms as' bs') := by
  induction ms generalizing as bs as' bs' with
  | nil => simp [selectRows]
  | cons m ms ih =>
    cases as with
    | nil => simp at ha; subst ha; simp [selectRows]
    | cons a as =>
      obtain ⟨x, xs, hx, hxs, rfl⟩ := omap_cons_eq_some g a as as' ha
      cases bs with
      | nil => simp at hb; subst hb; simp [selectRows]
      | cons b bs =>
        obtain ⟨y, ys, hy, hys, rfl⟩ := omap_cons_eq_some g b bs bs' hb
        simp only [selectRows]
        cases m
        · simpa using omap_cons_some g b _ y _ hy (ih as bs xs ys hxs hys)
        · simpa using omap_cons_some g a _ x _ hx (ih as bs xs ys hxs hys)

theorem decode_slice (T : Tab) (seq : List Nat) (t : Bytes) (iv : Iv) (h : decode T seq = some t) :
    decode T (slice seq iv) = some (slice t iv) := by
  unfold slice decode at *
  exact omap_take _ _ _ _ (omap_drop _ _ _ _ h)

theorem slice_mem (t : Bytes) (iv : Iv) : ∀ b ∈ slice t iv, b ∈ t := by
  intro b hb
  exact List.mem_of_mem_drop (List.mem_of_mem_take hb)

theorem relevant_decode (T : Tab) (seqs : List (List Nat)) (texts : List Bytes)
    (hd : omap (decode T) seqs = some texts) (ivs : List Iv) :
    omap (decode T) (relevant seqs ivs) = some (relevant texts ivs) := by
  unfold relevant
  rw [omap_map]
  apply omap_some_map
  intro iv _
  exact decode_slice T _ _ iv (omap_getD (decode T) rfl seqs texts iv.chrom hd)

theorem getD_mem {α} (l : List (List α)) (i : Nat) : l.getD i [] = [] ∨ l.getD i [] ∈ l := by
  rcases Nat.lt_or_ge i l.length with h | h
  · right; simp [List.getD, List.getElem?_eq_getElem h]
  · left; simp [List.getD, List.getElem?_eq_none h]

/-! #### the code path: ragged view, Python slices, `where_rows` -/

theorem view_extract_eq (data : List Nat) (ivs : List Iv) :
    View.extract data (View.ofBounds ivs).starts (View.ofBounds ivs).lens = ivs.map (fun iv => slice data iv) := by
  induction ivs with
  | nil => rfl
  | cons iv ivs ih =>
    simp only [View.ofBounds, List.map_cons, View.extract, slice] at ih ⊢
    rw [ih]

theorem pySliceNat_eq (seq : List Nat) (iv : Iv) : pySliceNat seq iv.start iv.stop = slice seq iv := by
  simp [pySliceNat, slice, List.drop_take]

theorem whereFlat_append (m : Bool) (r r' : List Nat) (hl : r.length = r'.length) (M : List Bool) (X Y : List Nat) :
    whereFlat (List.replicate r.length m ++ M) (r ++ X) (r' ++ Y) = (if m then r else r') ++ whereFlat M X Y := by
  induction r generalizing r' with
  | nil =>
    cases r' with
    | nil => cases m <;> simp
    | cons _ _ => simp at hl
  | cons x xs ih =>
    cases r' with
    | nil => simp at hl
    | cons y ys =>
      have := ih ys (by simpa using hl)
      simp only [List.length_cons, List.replicate_succ, List.cons_append, whereFlat, this]
      cases m <;> simp

/-- `where_rows` with one boolean per row and equally shaped operands IS row selection -/
theorem whereRows_eq_selectRows (mask : List Bool) (a b : List (List Nat)) (h1 : mask.length = a.length)
    (h2 : a.map List.length = b.map List.length) : whereRows mask a b = selectRows mask a b := by
  unfold whereRows
  induction a generalizing mask b with
  | nil => cases mask <;> simp [unflatten, selectRows]
  | cons r as ih =>
    cases mask with
    | nil => simp at h1
    | cons m ms =>
      cases b with
      | nil => simp at h2
      | cons r' bs =>
        simp only [List.map_cons, List.cons.injEq] at h2
        simp only [List.map_cons, expandMask, List.flatten_cons, selectRows, unflatten]
        rw [whereFlat_append m r r' h2.1]
        have hlen : (if m = true then r else r').length = r.length := by cases m <;> simp [h2.1]
        rw [List.take_left' hlen, List.drop_left' hlen]
        congr 1
        exact ih ms bs (by simpa using h1) h2.2

/-- the two entry points on ANY strand byte (hypothesis "strand is + or -" dropped):
`get_strand_specific_sequences` reverse-complements exactly the rows whose strand is `-` … -/
theorem strand_dna_def (T : Tab) (h : tableOK T = true) (seq : List Nat) (text : Bytes)
    (hd : decode T seq = some text) (hdna : ∀ b ∈ text, isDna b = true) (ivs : List Iv) :
    ∃ out, strandSpecific T [seq] ivs = some out ∧
      omap (decode T) out = some (ivs.map (fun iv => if iv.strand == 45 then specRevComp (slice text iv) else slice text iv)) := by
  have hrel : omap (decode T) (ivs.map (fun iv => slice seq iv)) = some (ivs.map (fun iv => slice text iv)) := by
    rw [omap_map]
    apply omap_some_map
    intro iv _
    exact decode_slice T seq text iv hd
  have hreldna : ∀ t ∈ ivs.map (fun iv => slice text iv), ∀ b ∈ t, isDna b = true := by
    intro t ht b hb
    obtain ⟨iv, _, rfl⟩ := List.mem_map.mp ht
    exact hdna b (slice_mem _ iv b hb)
  obtain ⟨rc, hrc, hrcd⟩ := revcomp_def T h _ _ hrel hreldna
  have hlens := revcomp_lengths T _ rc hrc
  have hrclen : rc.length = ivs.length := by
    have := congrArg List.length hlens
    simpa using this
  refine ⟨selectRows (ivs.map (fun iv => iv.strand == 45)) rc (ivs.map (fun iv => slice seq iv)), ?_, ?_⟩
  · simp only [strandSpecific, List.getD_cons_zero, view_extract_eq, hrc, Option.map_some, Option.some.injEq]
    exact whereRows_eq_selectRows _ _ _ (by simp [hrclen]) hlens
  · rw [selectRows_decode (decode T) _ _ _ _ _ hrcd hrel, List.map_map, selectRows_map]
    rfl

/-- … and `GenomicSequence.extract_intervals(stranded=True)` keeps exactly the rows whose strand is `+`
and reverse-complements every other row (so the two differ on unstranded `.` intervals) -/
theorem extract_stranded_def (T : Tab) (h : tableOK T = true) (seqs : List (List Nat)) (texts : List Bytes)
    (hd : omap (decode T) seqs = some texts) (hdna : ∀ t ∈ texts, ∀ b ∈ t, isDna b = true) (ivs : List Iv) :
    ∃ out, extractStranded T seqs ivs = some out ∧
      omap (decode T) out = some (ivs.map (fun iv =>
        if iv.strand == 43 then slice (texts.getD iv.chrom []) iv else specRevComp (slice (texts.getD iv.chrom []) iv))) := by
  have hrel := relevant_decode T seqs texts hd ivs
  have hreldna : ∀ t ∈ relevant texts ivs, ∀ b ∈ t, isDna b = true := by
    intro t ht b hb
    obtain ⟨iv, _, rfl⟩ := List.mem_map.mp ht
    have hb' := slice_mem _ iv b hb
    rcases getD_mem texts iv.chrom with e | e
    · rw [e] at hb'; simp at hb'
    · exact hdna _ e b hb'
  obtain ⟨rc, hrc, hrcd⟩ := revcomp_def T h (relevant seqs ivs) (relevant texts ivs) hrel hreldna
  have hlens := revcomp_lengths T _ rc hrc
  have hpy : ivs.map (fun iv => pySliceNat (seqs.getD iv.chrom []) iv.start iv.stop) = relevant seqs ivs := by
    unfold relevant
    apply List.map_congr_left
    intro iv _
    exact pySliceNat_eq _ iv
  refine ⟨selectRows (ivs.map (fun iv => iv.strand == 43)) (relevant seqs ivs) rc, ?_, ?_⟩
  · simp only [extractStranded, hpy, hrc, Option.map_some, Option.some.injEq]
    exact whereRows_eq_selectRows _ _ _ (by simp [relevant]) hlens.symm
  · rw [selectRows_decode (decode T) _ _ _ _ _ hrel hrcd]
    unfold relevant
    rw [List.map_map, selectRows_map]
    rfl

/-- the entry points disagree on an unstranded (`.`) interval: witness -/
theorem entry_points_differ_on_dot :
    strandSpecific asciiOld [[65, 67]] [⟨0, 0, 2, 46⟩] = some [[65, 67]] ∧
    extractStranded asciiOld [[65, 67]] [⟨0, 0, 2, 46⟩] = some [[71, 84]] := by decide +kernel

/-- `get_sequences` and `extract_intervals(stranded=False)` are the plain slices, whatever the strands -/
theorem get_sequences_def (seq : List Nat) (ivs : List Iv) : getSequences seq ivs = ivs.map (fun iv => slice seq iv) :=
  view_extract_eq seq ivs

theorem extract_unstranded_def (seqs : List (List Nat)) (ivs : List Iv) : extractUnstranded seqs ivs = relevant seqs ivs := by
  unfold extractUnstranded relevant
  apply List.map_congr_left
  intro iv _
  exact pySliceNat_eq _ iv

/-- C14 clause 4 (`strand_specific`): for every encoding with a good table, every set of sequences
that decode to DNA text and every list of intervals with strands `+`/`-`, BOTH entry points succeed
and return, per interval, the forward slice for `+` and its reverse complement for `-`:
`get_strand_specific_sequences` (one sequence, ragged view by the interval bounds, `where_rows`
on `strand == '-'`; the intervals all refer to that sequence) and
`GenomicSequence.extract_intervals(stranded=True)` (one Python slice per interval of the named
sequence, `where_rows` on `strand == '+'`). -/
theorem strand_specific (T : Tab) (h : tableOK T = true) (seqs : List (List Nat)) (texts : List Bytes)
    (hd : omap (decode T) seqs = some texts) (hdna : ∀ t ∈ texts, ∀ b ∈ t, isDna b = true)
    (ivs : List Iv) (hs : ∀ iv ∈ ivs, iv.strand = 43 ∨ iv.strand = 45) :
    ∃ out, ((∀ iv ∈ ivs, iv.chrom = 0) → strandSpecific T seqs ivs = some out) ∧
      extractStranded T seqs ivs = some out ∧
      omap (decode T) out = some (specStrand texts ivs) := by
  have hrel := relevant_decode T seqs texts hd ivs
  have hreldna : ∀ t ∈ relevant texts ivs, ∀ b ∈ t, isDna b = true := by
    intro t ht b hb
    obtain ⟨iv, _, rfl⟩ := List.mem_map.mp ht
    have hb' := slice_mem _ iv b hb
    rcases getD_mem texts iv.chrom with e | e
    · rw [e] at hb'; simp at hb'
    · exact hdna _ e b hb'
  obtain ⟨rc, hrc, hrcd⟩ := revcomp_def T h (relevant seqs ivs) (relevant texts ivs) hrel hreldna
  have hsame : selectRows (ivs.map (fun iv => iv.strand == 45)) rc (relevant seqs ivs) =
      selectRows (ivs.map (fun iv => iv.strand == 43)) (relevant seqs ivs) rc := by
    have hlen : rc.length = ivs.length := by
      have := congrArg List.length (revcomp_lengths T _ rc hrc)
      simpa [relevant] using this
    clear hrc hrcd hrel hreldna
    unfold relevant
    induction ivs generalizing rc with
    | nil => simp [selectRows]
    | cons iv ivs ih =>
      cases rc with
      | nil => simp at hlen
      | cons r rs =>
        simp only [List.map_cons, selectRows]
        rw [ih (fun x hx => hs x (by simp [hx])) rs (by simpa using hlen)]
        rcases hs iv (by simp) with e | e <;> simp [e]
  have hlens := revcomp_lengths T _ rc hrc
  have hrlen : (relevant seqs ivs).length = ivs.length := by simp [relevant]
  have hrclen : rc.length = ivs.length := by
    have := congrArg List.length hlens
    simpa [relevant] using this
  refine ⟨selectRows (ivs.map (fun iv => iv.strand == 45)) rc (relevant seqs ivs), ?_, ?_, ?_⟩
  · intro hc0
    have hview : View.extract (seqs.getD 0 []) (View.ofBounds ivs).starts (View.ofBounds ivs).lens =
        relevant seqs ivs := by
      rw [view_extract_eq]
      unfold relevant
      apply List.map_congr_left
      intro iv hiv
      rw [hc0 iv hiv]
    simp only [strandSpecific, hview, hrc, Option.map_some, Option.some.injEq]
    exact whereRows_eq_selectRows _ _ _ (by simp [hrclen]) hlens
  · have hpy : ivs.map (fun iv => pySliceNat (seqs.getD iv.chrom []) iv.start iv.stop) = relevant seqs ivs := by
      unfold relevant
      apply List.map_congr_left
      intro iv _
      exact pySliceNat_eq _ iv
    simp only [extractStranded, hpy, hrc, Option.map_some, Option.some.injEq]
    rw [whereRows_eq_selectRows _ _ _ (by simp [hrlen]) hlens.symm, hsame]
  · rw [selectRows_decode (decode T) _ _ _ _ _ hrcd hrel]
    unfold relevant specStrand
    rw [List.map_map, selectRows_map]
    congr 1
    apply List.map_congr_left
    intro iv hiv
    rcases hs iv hiv with e | e <;> simp [e]

/-! #### transcript sequences -/

theorem groupRuns_flatten (exons : List Exon) : (groupRuns exons).flatten = exons := by
  induction exons with
  | nil => rfl
  | cons e es ih =>
    simp only [groupRuns]
    cases hg : groupRuns es with
    | nil => rw [hg] at ih; simp at ih; simp [← ih]
    | cons g gs =>
      rw [hg] at ih
      simp only
      split <;> simp [← ih]

theorem view_extract_exons (ref : List Nat) (exons : List Exon) :
    View.extract ref (exons.map (·.start)) (exons.map (fun e => e.stop - e.start)) = exons.map (exonSlice ref) := by
  induction exons with
  | nil => rfl
  | cons e es ih => simp only [List.map_cons, View.extract, exonSlice] at ih ⊢; rw [ih]

theorem exonSlice_length (ref : List Nat) (e : Exon) (h : e.stop ≤ ref.length) :
    (exonSlice ref e).length = e.stop - e.start := by
  simp [exonSlice]; omega

theorem decode_exonSlice (T : Tab) (ref : List Nat) (t : Bytes) (e : Exon) (h : decode T ref = some t) :
    decode T (exonSlice ref e) = some (exonSlice t e) := by
  unfold exonSlice decode at *
  exact omap_take _ _ _ _ (omap_drop _ _ _ _ h)

theorem decode_flatten_map (T : Tab) (ref : List Nat) (t : Bytes) (h : decode T ref = some t) (g : List Exon) :
    decode T (g.map (exonSlice ref)).flatten = some (g.map (exonSlice t)).flatten := by
  unfold decode
  rw [omap_flatten]
  have : omap (omap fun c => T.dec[c]?) (g.map (exonSlice ref)) = some (g.map (exonSlice t)) := by
    rw [omap_map]
    apply omap_some_map
    intro e _
    exact decode_exonSlice T ref t e h
  rw [this]; rfl

/-- C14, transcripts (`sequence/genes.py`): for a reference that decodes to DNA text and exon rows with
`start ≤ stop ≤ len`, `get_transcript_sequences` returns, per run of equal transcript ids, the exon
slices joined in order — reverse-complemented as a whole when the transcript's strand is `-`. -/
theorem transcripts (T : Tab) (h : tableOK T = true) (ref : List Nat) (text : Bytes)
    (hd : decode T ref = some text) (hdna : ∀ b ∈ text, isDna b = true)
    (exons : List Exon) (hb : ∀ e ∈ exons, e.stop ≤ ref.length) :
    ∃ out, transcriptSeqs T ref exons = some out ∧ omap (decode T) out = some (specTranscripts text exons) := by
  obtain ⟨groups, hgr⟩ : ∃ g, g = groupRuns exons := ⟨_, rfl⟩
  have hflat : groups.flatten = exons := by rw [hgr]; exact groupRuns_flatten exons
  have hmemg : ∀ g ∈ groups, ∀ e ∈ g, e ∈ exons := by
    intro g hg e he
    rw [← hflat]
    exact List.mem_flatten.mpr ⟨g, hg, he⟩
  -- the re-wrapped rows are the per-transcript joins
  obtain ⟨ts, hts⟩ : ∃ ts, ts = groups.map (fun g => (g.map (exonSlice ref)).flatten) := ⟨_, rfl⟩
  have hwrap : unflatten (groups.map (fun g => (g.map (fun e => e.stop - e.start)).sum))
      (View.extract ref (exons.map (·.start)) (exons.map (fun e => e.stop - e.start))).flatten = ts := by
    rw [view_extract_exons]
    have e1 : (exons.map (exonSlice ref)).flatten = ts.flatten := by
      rw [hts, ← hflat, List.map_flatten, List.flatten_flatten, List.map_map]
      rfl
    rw [e1]
    apply unflatten_flatten_of_lengths
    rw [hts, List.map_map]
    apply List.map_congr_left
    intro g hg
    simp only [Function.comp, List.length_flatten, List.map_map]
    congr 1
    apply List.map_congr_left
    intro e he
    exact exonSlice_length ref e (hb e (hmemg g hg e he))
  -- they decode to the per-transcript joins of the text
  have hdec : omap (decode T) ts = some (groups.map (fun g => (g.map (exonSlice text)).flatten)) := by
    rw [hts, omap_map]
    apply omap_some_map
    intro g _
    exact decode_flatten_map T ref text hd g
  have hdna' : ∀ t ∈ groups.map (fun g => (g.map (exonSlice text)).flatten), ∀ b ∈ t, isDna b = true := by
    intro t ht b hb'
    obtain ⟨g, _, rfl⟩ := List.mem_map.mp ht
    obtain ⟨sl, hsl, hbs⟩ := List.mem_flatten.mp hb'
    obtain ⟨e, _, rfl⟩ := List.mem_map.mp hsl
    exact hdna b (List.mem_of_mem_drop (List.mem_of_mem_take hbs))
  obtain ⟨rc, hrc, hrcd⟩ := revcomp_def T h ts _ hdec hdna'
  have hlens := revcomp_lengths T ts rc hrc
  have hrclen : rc.length = groups.length := by
    have := congrArg List.length hlens
    simpa [hts] using this
  refine ⟨selectRows (groups.map (fun g => (g.head?.map (·.strand)) == some 45)) rc ts, ?_, ?_⟩
  · unfold transcriptSeqs
    simp only [← hgr, hwrap, hrc, Option.map_some, Option.some.injEq]
    exact whereRows_eq_selectRows _ _ _ (by simp [hrclen]) hlens
  · rw [selectRows_decode (decode T) _ _ _ _ _ hrcd hdec]
    unfold specTranscripts
    rw [← hgr, List.map_map, selectRows_map]
    rfl

/-- the shipped row selection (npstructures `where` with a column mask that is only broadcast
when it is smaller than the data) raised on a single one-base interval. Recorded refutation. -/
theorem strandSpecificOld_fails :
    strandSpecificOld asciiOld [[65, 67, 71]] [⟨0, 1, 2, 45⟩] = none ∧
    specStrand [[65, 67, 71]] [⟨0, 1, 2, 45⟩] = [[71]] := by decide

/-- the shipped ASCII lookup had no lower-case entries: `get_reverse_complement("ac")` returned two
NUL bytes instead of `"gt"`. Recorded refutation of the old table. -/
theorem revcompOld_unsound :
    revcompFlat asciiOld [97, 99] = some [0, 0] ∧ specRevComp [97, 99] = [103, 116] ∧
    tableOK asciiOld = false := by decide +kernel

/-! ### translation -/

def acgt8 : List Nat := [65, 67, 71, 84, 97, 99, 103, 116]

/-- finite check behind the codon lemma: for every codon over `ACGTacgt`, encoding in TCAG order,
reversing, hashing base 4 and indexing the standard table gives the standard amino acid -/
def codonCheck (tab : List Nat) (a b c : Nat) : Bool :=
  match encTCAG a, encTCAG b, encTCAG c with
  | some x, some y, some z =>
    (match standardCode [toUpper a, toUpper b, toUpper c] with
     | some aa => tab[hashLE 4 [z, y, x]]? == some aa
     | none => false)
  | _, _, _ => false

theorem codonCheck_all : acgt8.all (fun a => acgt8.all (fun b => acgt8.all (fun c => codonCheck stdTable a b c))) = true := by
  decide +kernel

def okLetter (b : Nat) : Bool := acgt8.contains b

theorem codon_point (a b c : Nat) (ha : okLetter a = true) (hb : okLetter b = true) (hc : okLetter c = true) :
    ∃ x y z aa, encTCAG a = some x ∧ encTCAG b = some y ∧ encTCAG c = some z ∧
      standardCode [toUpper a, toUpper b, toUpper c] = some aa ∧ stdTable[hashLE 4 [z, y, x]]? = some aa := by
  have h := codonCheck_all
  simp only [List.all_eq_true] at h
  have := h a (by simpa [okLetter] using ha) b (by simpa [okLetter] using hb) c (by simpa [okLetter] using hc)
  unfold codonCheck at this
  split at this
  · rename_i x y z hx hy hz
    split at this
    · rename_i aa haa
      exact ⟨x, y, z, aa, hx, hy, hz, haa, by simpa using this⟩
    · simp at this
  · simp at this

/-- one row: encoding succeeds, and translating its codes gives the specified protein -/
theorem translate_row : ∀ (r : Bytes), r.length % 3 = 0 → (∀ b ∈ r, okLetter b = true) →
    ∃ codes aas, omap encTCAG r = some codes ∧ codes.length = r.length ∧
      translateCodes stdTable codes = some aas ∧ specTranslate r = some aas ∧ aas.length = r.length / 3
  | [], _, _ => ⟨[], [], rfl, rfl, rfl, rfl, rfl⟩
  | [_], h, _ => by simp at h
  | [_, _], h, _ => by simp at h
  | a :: b :: c :: rest, h, hl => by
    have h3 : rest.length % 3 = 0 := by simp at h; omega
    obtain ⟨codes, aas, h1, h2, h4, h5, h6⟩ := translate_row rest h3 (fun x hx => hl x (by simp [hx]))
    obtain ⟨x, y, z, aa, hx, hy, hz, haa, htab⟩ := codon_point a b c (hl a (by simp)) (hl b (by simp)) (hl c (by simp))
    refine ⟨x :: y :: z :: codes, aa :: aas, ?_, by simp [h2], ?_, ?_, by simp [h6]; omega⟩
    · exact omap_cons_some _ _ _ _ _ hx (omap_cons_some _ _ _ _ _ hy (omap_cons_some _ _ _ _ _ hz h1))
    · unfold translateCodes at *
      simp only [chunks3]
      exact omap_cons_some _ _ _ _ _ (by simpa using htab) h4
    · unfold specTranslate at *
      simp only [List.map_cons, chunks3]
      exact omap_cons_some _ _ _ _ _ haa h5

theorem chunks3_append : ∀ (r s : List Nat), r.length % 3 = 0 → chunks3 (r ++ s) = chunks3 r ++ chunks3 s
  | [], s, _ => by simp [chunks3]
  | [_], _, h => by simp at h
  | [_, _], _, h => by simp at h
  | a :: b :: c :: rest, s, h => by
    have h3 : rest.length % 3 = 0 := by simp at h; omega
    simp [chunks3, chunks3_append rest s h3]

theorem translateCodes_append (tab : List Nat) (r s : List Nat) (h : r.length % 3 = 0) :
    translateCodes tab (r ++ s) = (match translateCodes tab r, translateCodes tab s with
      | some a, some b => some (a ++ b)
      | _, _ => none) := by
  unfold translateCodes
  rw [chunks3_append r s h, omap_append]
  cases omap (fun t => tab[hashLE 4 t.reverse]?) (chunks3 r) <;>
    cases omap (fun t => tab[hashLE 4 t.reverse]?) (chunks3 s) <;> rfl

/-- all rows: the flat computation is the concatenation of the per-row results -/
theorem translate_rows (rows : List Bytes) (h3 : ∀ r ∈ rows, r.length % 3 = 0)
    (hl : ∀ r ∈ rows, ∀ b ∈ r, okLetter b = true) :
    ∃ codes out, omap encTCAG rows.flatten = some codes ∧ codes.length % 3 = 0 ∧
      translateCodes stdTable codes = some out.flatten ∧
      omap specTranslate rows = some out ∧ out.map List.length = rows.map (fun r => r.length / 3) := by
  induction rows with
  | nil => exact ⟨[], [], rfl, rfl, rfl, rfl, rfl⟩
  | cons r rs ih =>
    obtain ⟨codes, out, h1, h2, h4, h5, h6⟩ := ih (fun x hx => h3 x (by simp [hx])) (fun x hx => hl x (by simp [hx]))
    obtain ⟨c, aas, g1, g2, g4, g5, g6⟩ := translate_row r (h3 r (by simp)) (hl r (by simp))
    have hc3 : c.length % 3 = 0 := by rw [g2]; exact h3 r (by simp)
    refine ⟨c ++ codes, aas :: out, ?_, ?_, ?_, ?_, ?_⟩
    · simp [omap_append, g1, h1]
    · simp; omega
    · rw [translateCodes_append _ _ _ hc3, g4, h4]; simp
    · exact omap_cons_some _ _ _ _ _ g5 h5
    · simp [g6, h6]

theorem okLetter_of_upper (b : Nat) (h : toUpper b = 65 ∨ toUpper b = 67 ∨ toUpper b = 71 ∨ toUpper b = 84) :
    okLetter b = true := by
  unfold toUpper isLower at h
  simp only [okLetter, acgt8, List.contains_iff_mem, List.mem_cons, List.not_mem_nil, or_false]
  split at h
  · rename_i hlow
    simp at hlow
    omega
  · omega

/-- C14 clause 5 (`translate`): for every list of sequences over `ACGTacgt` whose lengths are
multiples of three, the model of `translate_dna_to_protein` (encode in TCAG order, reshape to
triples, reverse, base-4 hash, table index, re-wrap by `lengths // 3`) with the standard table
returns exactly the standard-genetic-code amino acid of each codon, in order, row for row. -/
theorem translate_std (rows : List Bytes) (h3 : ∀ r ∈ rows, r.length % 3 = 0)
    (hl : ∀ r ∈ rows, ∀ b ∈ r, toUpper b = 65 ∨ toUpper b = 67 ∨ toUpper b = 71 ∨ toUpper b = 84) :
    ∃ out, translateRows stdTable rows = .ok out ∧ omap specTranslate rows = some out := by
  obtain ⟨codes, out, h1, _, h4, h5, h6⟩ := translate_rows rows h3
    (fun r hr b hb => okLetter_of_upper b (hl r hr b hb))
  refine ⟨out, ?_, h5⟩
  unfold translateRows
  rw [h1]
  have hall : rows.all (fun r => r.length % 3 == 0) = true := by
    simp only [List.all_eq_true, beq_iff_eq]; exact h3
  simp only [hall, if_true, h4]
  rw [unflatten_flatten_of_lengths _ _ h6]

/-! ### translation: characterisations and completeness -/

theorem chunks3_length : ∀ (s : List Nat), (chunks3 s).length = s.length / 3
  | [] => rfl
  | [_] => by simp [chunks3]
  | [_, _] => by simp [chunks3]
  | _ :: _ :: _ :: rest => by simp [chunks3, chunks3_length rest]; omega

/-- the codons of a sequence whose length is a multiple of three, put back together, are the sequence -/
theorem chunks3_flatten : ∀ (s : List Nat), s.length % 3 = 0 → (chunks3 s).flatten = s
  | [], _ => rfl
  | [_], h => by simp at h
  | [_, _], h => by simp at h
  | a :: b :: c :: rest, h => by
    have h3 : rest.length % 3 = 0 := by simp at h; omega
    simp [chunks3, chunks3_flatten rest h3]

theorem omap_chunks_append (s t : List Nat) (h : s.length % 3 = 0) :
    specTranslate (s ++ t) = (match specTranslate s, specTranslate t with
      | some a, some b => some (a ++ b)
      | _, _ => none) := by
  unfold specTranslate
  rw [List.map_append, chunks3_append _ _ (by simpa using h), omap_append]
  cases omap standardCode (chunks3 (List.map toUpper s)) <;>
    cases omap standardCode (chunks3 (List.map toUpper t)) <;> rfl

/-- translating a concatenation of in-frame pieces = concatenating the translations (the protein of a
sequence does not depend on how it is cut into rows at codon borders) -/
theorem specTranslate_append (s t : List Nat) (a b : Bytes) (h : s.length % 3 = 0)
    (ha : specTranslate s = some a) (hb : specTranslate t = some b) : specTranslate (s ++ t) = some (a ++ b) := by
  rw [omap_chunks_append s t h, ha, hb]

/-- exactly TAA, TAG and TGA are stop codons (`*`), over all 64 codons -/
theorem stop_codons_iff : (List.range 64).all (fun i =>
    (standardCode (codonOfIndex i) == some 42) ==
      ([[84, 65, 65], [84, 65, 71], [84, 71, 65]].contains (codonOfIndex i))) = true := by decide +kernel

/-- exactly ATG is methionine and exactly TGG tryptophan -/
theorem met_trp_unique : (List.range 64).all (fun i =>
    ((standardCode (codonOfIndex i) == some 77) == (codonOfIndex i == [65, 84, 71])) &&
    ((standardCode (codonOfIndex i) == some 87) == (codonOfIndex i == [84, 71, 71]))) = true := by decide +kernel

/-- completeness, clause 1: translation raises `EncodingError` iff some letter is not one of `ACGTacgt` -/
theorem translate_encoding_error_iff (tab : List Nat) (rows : List Bytes) :
    translateRows tab rows = .error .encoding ↔ ∃ r ∈ rows, ∃ b ∈ r, encTCAG b = none := by
  unfold translateRows
  cases hc : omap encTCAG rows.flatten with
  | none =>
    simp only [true_iff]
    have : ¬ (omap encTCAG rows.flatten).isSome := by simp [hc]
    rw [omap_isSome_iff] at this
    apply Classical.byContradiction
    intro hne
    apply this
    intro b hb
    obtain ⟨r, hr, hbr⟩ := List.mem_flatten.mp hb
    cases h : encTCAG b with
    | some v => rfl
    | none => exact absurd ⟨r, hr, b, hbr, h⟩ hne
  | some codes =>
    have hall : (omap encTCAG rows.flatten).isSome := by simp [hc]
    rw [omap_isSome_iff] at hall
    constructor
    · intro h
      exfalso
      simp only at h
      split at h
      · split at h <;> simp at h
      · simp at h
    · rintro ⟨r, hr, b, hb, hn⟩
      have := hall b (List.mem_flatten.mpr ⟨r, hr, hb⟩)
      simp [hn] at this

/-- completeness, clause 2: with every letter acceptable, it fails the length assertion iff some row's
length is not a multiple of three — and otherwise (standard table) it answers -/
theorem translate_assertion_iff (rows : List Bytes) (hl : ∀ r ∈ rows, ∀ b ∈ r, (encTCAG b).isSome) :
    translateRows stdTable rows = .error .assertion ↔ ∃ r ∈ rows, r.length % 3 ≠ 0 := by
  constructor
  · intro h
    unfold translateRows at h
    have hsome : (omap encTCAG rows.flatten).isSome := by
      rw [omap_isSome_iff]
      intro b hb
      obtain ⟨r, hr, hbr⟩ := List.mem_flatten.mp hb
      exact hl r hr b hbr
    obtain ⟨codes, hc⟩ := Option.isSome_iff_exists.mp hsome
    rw [hc] at h
    simp only at h
    split at h
    · split at h <;> simp at h
    · rename_i hall
      simp only [List.all_eq_true, beq_iff_eq] at hall
      apply Classical.byContradiction
      intro hne
      apply hall
      intro r hr
      apply Classical.byContradiction
      intro h3
      exact hne ⟨r, hr, h3⟩
  · rintro ⟨r, hr, hne⟩
    unfold translateRows
    have hsome : (omap encTCAG rows.flatten).isSome := by
      rw [omap_isSome_iff]
      intro b hb
      obtain ⟨r', hr', hbr⟩ := List.mem_flatten.mp hb
      exact hl r' hr' b hbr
    obtain ⟨codes, hc⟩ := Option.isSome_iff_exists.mp hsome
    rw [hc]
    have : rows.all (fun r => r.length % 3 == 0) = false := by
      rw [List.all_eq_false]
      exact ⟨r, hr, by simpa using hne⟩
    simp [this]

/-! ### the generated tables (re-extracted from /repo on every run) satisfy the obligations -/

theorem gen_tables_ok : Gen.C14.all.all (fun p => tableOK p.2) = true := by decide +kernel

theorem gen_names : Gen.C14.all.map (·.1) = ["ASCII", "ACGT", "ACGTN", "ACTG", "ACTGN"] := by decide +kernel

/-- the decode tables are the documented alphabets (ASCII: the identity on 0..127) -/
theorem gen_dec : Gen.C14.all.map (·.2.dec) =
    [List.range 128, "ACGT".toList.map Char.toNat, "ACGTN".toList.map Char.toNat,
     "ACTG".toList.map Char.toNat, "ACTGN".toList.map Char.toNat] := by decide +kernel

/-- the code's 64-codon table (tabulated by running `translate_dna_to_protein` on every codon) is
the standard genetic code written by amino-acid families -/
theorem gen_codon_ok : Gen.C14.codon = stdTable := by decide +kernel

/-- every codon has exactly one amino acid in the family form (the form itself is well-formed) -/
theorem families_partition : (List.range 64).all (fun i =>
    (familiesB.filter (fun p => p.2.contains (codonOfIndex i))).length == 1) = true := by decide +kernel

/-- C14 for the shipped tables: every predefined DNA encoding -/
theorem predefined (n : String) (T : Tab) (hT : (n, T) ∈ Gen.C14.all) (rows : List (List Nat)) (texts : List Bytes)
    (hd : omap (decode T) rows = some texts) (hdna : ∀ t ∈ texts, ∀ b ∈ t, isDna b = true) :
    ∃ out, revcompRagged T rows = some out ∧ omap (decode T) out = some (texts.map specRevComp) ∧
      out.map List.length = rows.map List.length ∧ revcompRagged T out = some rows := by
  have h : tableOK T = true := (List.all_eq_true.mp gen_tables_ok) (n, T) hT
  obtain ⟨out, h1, h2⟩ := revcomp_def T h rows texts hd hdna
  exact ⟨out, h1, h2, revcomp_lengths T rows out h1, revcomp_involutive T h rows texts hd hdna out h1⟩

/-- C14 translation clause for the shipped table -/
theorem translate (rows : List Bytes) (h3 : ∀ r ∈ rows, r.length % 3 = 0)
    (hl : ∀ r ∈ rows, ∀ b ∈ r, toUpper b = 65 ∨ toUpper b = 67 ∨ toUpper b = 71 ∨ toUpper b = 84) :
    ∃ out, translateRows Gen.C14.codon rows = .ok out ∧ omap specTranslate rows = some out := by
  rw [gen_codon_ok]; exact translate_std rows h3 hl

/-! ### non-vacuity -/
example : tableOK Gen.C14.ASCII = true := by decide +kernel
example : decode Gen.C14.ASCII [97, 67, 78] = some [97, 67, 78] ∧ (∀ b ∈ [97, 67, 78], isDna b = true) := by decide
example : revcompRagged Gen.C14.ACGTN [[0, 1, 4], [], [3]] = some [[4, 2, 3], [], [0]] := by decide +kernel
example : strandSpecific Gen.C14.ACGT [[0, 1, 2, 3]] [⟨0, 1, 3, 45⟩, ⟨0, 0, 2, 43⟩] = some [[1, 2], [0, 1]] := by decide +kernel
example : extractStranded Gen.C14.ACGT [[0, 1, 2, 3], [3, 3]] [⟨0, 1, 3, 45⟩, ⟨1, 0, 0, 45⟩, ⟨1, 0, 2, 43⟩] =
    some [[1, 2], [], [3, 3]] := by decide +kernel
example : transcriptSeqs Gen.C14.ACGTN [0, 1, 2, 3, 4, 0, 1] [⟨0, 43, 0, 2⟩, ⟨0, 43, 3, 5⟩, ⟨1, 45, 1, 4⟩] =
    some [[0, 1, 3, 4], [0, 1, 2]] := by decide +kernel
example : whereRows [true, false, true] [[1], [], [2, 3]] [[7], [], [8, 9]] = [[1], [], [2, 3]] := by decide
example : (translateRows stdTable [[65, 84, 71, 116, 97, 97], []]).toOption = some [[77, 42], []] := by decide +kernel
example : specTranslate [65, 84, 71, 116, 97, 97] = some [77, 42] := by decide +kernel

/-! ### tables of sequences: a derived table carries ITS OWN sequence column -/

theorem lookup_filter_ne (l : List (String × List Bytes)) (k k' : String) (h : k' ≠ k) :
    (l.filter (fun p => p.1 != k)).lookup k' = l.lookup k' := by
  induction l with
  | nil => rfl
  | cons p ps ih =>
    by_cases hp : p.1 = k
    · have hk : (k' == p.1) = false := by
        simp only [beq_eq_false_iff_ne, ne_eq]; intro e; exact h (e.trans hp)
      simp only [List.filter_cons, hp, bne_self_eq_false, Bool.false_eq_true, if_false]
      rw [ih]
      obtain ⟨a, b⟩ := p
      simp only at hk
      simp [List.lookup, hk]
    · have : (p.1 != k) = true := by simp [hp]
      simp only [List.filter_cons, this, if_true]
      obtain ⟨a, b⟩ := p
      simp only [List.lookup]
      split <;> simp_all

/-- `bnp.replace` answers iff the new column has the table's length (else AssertionError) -/
theorem table_replace_ok_iff (t : Table) (k : String) (v : List Bytes) :
    (∃ t', t.replace k v = .ok t') ↔ v.length = t.n := by
  unfold Table.replace
  by_cases h : v.length = t.n <;> simp [h]

theorem table_replace_refused (t : Table) (k : String) (v : List Bytes) (h : v.length ≠ t.n) :
    t.replace k v = .error .assertion := by
  simp [Table.replace, h]

/-- reading a column that was just replaced gives the NEW value, whatever was replaced before -/
theorem table_get_replace (t t' : Table) (k : String) (v : List Bytes) (h : t.replace k v = .ok t') :
    t'.get k = some v ∧ t'.n = t.n := by
  unfold Table.replace at h
  split at h
  · cases h; simp [Table.get]
  · cases h

/-- … and every other column is untouched -/
theorem table_get_replace_ne (t t' : Table) (k k' : String) (v : List Bytes) (h : t.replace k v = .ok t') (hne : k' ≠ k) :
    t'.get k' = t.get k' := by
  unfold Table.replace at h
  split at h
  · cases h
    have hk : (k' == k) = false := by simp [hne]
    simp only [Table.get, List.lookup, hk]
    rw [lookup_filter_ne _ _ _ hne]
  · cases h

/-- `apply_to_npdataclass("sequence")(f)`: the result's sequence column is `f` of the CURRENT sequence column of its
argument; all other columns are the argument's -/
theorem applySeq_def (f : List Bytes → Except PErr (List Bytes)) (t t' : Table) (h : t.applySeq f = .ok t') :
    ∃ s r, t.get "sequence" = some s ∧ f s = .ok r ∧ t'.get "sequence" = some r ∧
      ∀ k, k ≠ "sequence" → t'.get k = t.get k := by
  unfold Table.applySeq at h
  cases hs : t.get "sequence" with
  | none => simp [hs] at h
  | some s =>
    cases hr : f s with
    | error e => simp [hs, hr] at h
    | ok r =>
      simp only [hs, hr] at h
      exact ⟨s, r, rfl, hr, (table_get_replace _ _ _ _ h).1, fun k hk => table_get_replace_ne _ _ _ _ _ h hk⟩

/-- two decorated functions one after the other: the second sees the FIRST one's output, and the final table holds the
second one's output (also when the argument is a lazy table whose `sequence` was already replaced) -/
theorem applySeq_compose (f g : List Bytes → Except PErr (List Bytes)) (t t1 t2 : Table)
    (h1 : t.applySeq f = .ok t1) (h2 : t1.applySeq g = .ok t2) :
    ∃ s r r2, t.get "sequence" = some s ∧ f s = .ok r ∧ g r = .ok r2 ∧ t2.get "sequence" = some r2 ∧
      ∀ k, k ≠ "sequence" → t2.get k = t.get k := by
  obtain ⟨s, r, hs, hr, h1s, h1o⟩ := applySeq_def f t t1 h1
  obtain ⟨s', r2, hs', hr2, h2s, h2o⟩ := applySeq_def g t1 t2 h2
  rw [h1s] at hs'; cases hs'
  exact ⟨s, r, r2, hs, hr, hr2, h2s, fun k hk => (h2o k hk).trans (h1o k hk)⟩

/-- row selection and split-and-concatenate act on every column alike (a replaced column included) -/
theorem mapCols_get (n' : Nat) (f : List Bytes → List Bytes) (t : Table) (k : String) :
    (t.mapCols n' f).get k = (t.get k).map f := by
  have key : ∀ l : List (String × List Bytes), (l.map (fun p => (p.1, f p.2))).lookup k = (l.lookup k).map f := by
    intro l
    induction l with
    | nil => rfl
    | cons p ps ih =>
      obtain ⟨a, b⟩ := p
      simp only [List.map_cons, List.lookup]
      split <;> simp_all
  simp only [Table.get, Table.mapCols, key]
  cases t.sets.lookup k <;> simp

/-! #### model = spec for every pipeline in the domain (the ASCII carrier: codes are the text bytes) -/

theorem ascii_dec : Gen.C14.ASCII.dec = List.range 128 := by decide +kernel
theorem ascii_ok : tableOK Gen.C14.ASCII = true := by decide +kernel

theorem isDna_lt (b : Nat) (h : isDna b = true) : b < 128 := by
  simp only [isDna, dnaLetters, List.contains_eq_mem, List.mem_cons, List.mem_nil_iff, or_false,
    decide_eq_true_eq] at h
  omega

theorem decode_ascii (cs : List Nat) (h : ∀ b ∈ cs, b < 128) : decode Gen.C14.ASCII cs = some cs := by
  unfold decode
  rw [ascii_dec]
  have := omap_some_map (fun c => (List.range 128)[c]?) id cs (fun a ha => by simp [h a ha])
  simpa using this

theorem decode_ascii_rows (s : List Bytes) (h : ∀ r ∈ s, ∀ b ∈ r, isDna b = true) :
    omap (decode Gen.C14.ASCII) s = some s := by
  have := omap_some_map (decode Gen.C14.ASCII) id s
    (fun r hr => decode_ascii r (fun b hb => isDna_lt b (h r hr b hb)))
  simpa using this

/-- the invariant of a pipeline stage: the table has a `name` and a `sequence` column, both of the table's length -/
structure TableWF (t : Table) (nm s : List Bytes) : Prop where
  hs : t.get "sequence" = some s
  hnm : t.get "name" = some nm
  hn : s.length = t.n
  hnn : nm.length = t.n

/-- the domain of one step given the current sequence column: reverse complement wants DNA letters, translation whole
codons over ACGTacgt; the table operations carry their own refusals (`specStepSeq … = none`) -/
def stepOK (s : List Bytes) : PStep → Prop
  | .rc => ∀ r ∈ s, ∀ b ∈ r, isDna b = true
  | .translate => (∀ r ∈ s, r.length % 3 = 0) ∧
      ∀ r ∈ s, ∀ b ∈ r, toUpper b = 65 ∨ toUpper b = 67 ∨ toUpper b = 71 ∨ toUpper b = 84
  | _ => True

theorem replace_wf (t : Table) (nm s v : List Bytes) (wf : TableWF t nm s) (hv : v.length = t.n) :
    ∃ t', t.replace "sequence" v = .ok t' ∧ TableWF t' nm v := by
  obtain ⟨t', ht'⟩ := (table_replace_ok_iff t "sequence" v).mpr hv
  have h1 := table_get_replace _ _ _ _ ht'
  have h2 := table_get_replace_ne _ _ _ "name" _ ht' (by decide)
  exact ⟨t', ht', ⟨h1.1, h2.trans wf.hnm, by rw [h1.2]; exact hv, by rw [h1.2]; exact wf.hnn⟩⟩

/-- C14 on tables, one step: inside the domain the step answers, and the answer's `sequence` column is what the property
says of the CURRENT `sequence` column (reverse complement per row / standard genetic code per codon / the new column /
the selected rows), its `name` column the selected or unchanged names -/
theorem pipeStep_spec (t : Table) (nm s s' : List Bytes) (st : PStep) (wf : TableWF t nm s) (hok : stepOK s st)
    (hspec : specStepSeq s st = some s') :
    ∃ t', pipeStep Gen.C14.ASCII Gen.C14.codon t st = .ok t' ∧ TableWF t' (specStepNames nm st) s' := by
  cases st with
  | rc =>
    simp only [specStepSeq, Option.some.injEq] at hspec
    subst hspec
    have hd := decode_ascii_rows s hok
    obtain ⟨out, ho, hod⟩ := revcomp_def Gen.C14.ASCII ascii_ok s s hd hok
    have hdna' : ∀ r ∈ s.map specRevComp, ∀ b ∈ r, isDna b = true := by
      intro r hr
      obtain ⟨x, hx, rfl⟩ := List.mem_map.mp hr
      exact specRevComp_dna x (hok x hx)
    have hout : out = s.map specRevComp :=
      omap_inj (decode Gen.C14.ASCII) (fun a a' b ha ha' => decode_inj Gen.C14.ASCII ascii_ok a a' b ha ha')
        out _ _ hod (decode_ascii_rows _ hdna')
    subst hout
    obtain ⟨t', ht', wf'⟩ := replace_wf t nm s (s.map specRevComp) wf (by simp [wf.hn])
    exact ⟨t', by simp [pipeStep, Table.applySeq, wf.hs, ho, ht'], wf'⟩
  | translate =>
    simp only [specStepSeq] at hspec
    obtain ⟨out, h1, h2⟩ := translate s hok.1 hok.2
    rw [hspec] at h2; cases h2
    have hl := omap_length _ _ _ hspec
    obtain ⟨t', ht', wf'⟩ := replace_wf t nm s s' wf (by rw [hl, wf.hn])
    exact ⟨t', by simp [pipeStep, Table.applySeq, wf.hs, h1, ht'], wf'⟩
  | replace r =>
    simp only [specStepSeq] at hspec
    split at hspec
    · rename_i hl
      cases hspec
      obtain ⟨t', ht', wf'⟩ := replace_wf t nm s s' wf (by rw [hl, wf.hn])
      exact ⟨t', by simp [pipeStep, ht'], wf'⟩
    · cases hspec
  | same =>
    simp only [specStepSeq, Option.some.injEq] at hspec
    subst hspec
    obtain ⟨t', ht', wf'⟩ := replace_wf t nm s s wf wf.hn
    exact ⟨t', by simp [pipeStep, Table.applySeq, wf.hs, ht'], wf'⟩
  | idx p =>
    simp only [specStepSeq] at hspec
    split at hspec
    · rename_i hp
      cases hspec
      rw [wf.hn] at hp
      refine ⟨t.mapCols p.length (selRows p), by simp only [pipeStep, hp, if_true], ?_⟩
      exact ⟨by rw [mapCols_get, wf.hs]; rfl, by rw [mapCols_get, wf.hnm]; rfl,
        by simp [selRows, Table.mapCols], by simp [selRows, Table.mapCols, specStepNames]⟩
    · cases hspec
  | concat k =>
    simp only [specStepSeq, Option.some.injEq] at hspec
    subst hspec
    refine ⟨t.mapCols t.n (fun v => v.take k ++ v.drop k), rfl, ?_⟩
    exact ⟨by rw [mapCols_get, wf.hs]; simp, by rw [mapCols_get, wf.hnm]; simp [specStepNames],
      by simp [Table.mapCols, wf.hn], by simp [Table.mapCols, specStepNames, wf.hnn]⟩

/-- … and outside the table operations' domain the code refuses: a column of another length (AssertionError), a row
index outside the table (IndexError) - exactly where the spec has no answer -/
theorem pipeStep_refuses (T : Tab) (tab : List Nat) (t : Table) (nm s : List Bytes) (wf : TableWF t nm s) :
    (∀ r, specStepSeq s (.replace r) = none → pipeStep T tab t (.replace r) = .error .assertion) ∧
    (∀ p, specStepSeq s (.idx p) = none → pipeStep T tab t (.idx p) = .error .index) := by
  constructor
  · intro r h
    simp only [specStepSeq] at h
    split at h
    · cases h
    · rename_i hl
      exact table_replace_refused t _ r (by rw [← wf.hn]; exact hl)
  · intro p h
    simp only [specStepSeq] at h
    split at h
    · cases h
    · rename_i hp
      rw [wf.hn] at hp
      simp [pipeStep, hp]

/-- the domain of a pipeline: every step is in the domain of its function on the column the spec gives it -/
def PipeOK : List Bytes → List PStep → Prop
  | _, [] => True
  | s, st :: ss => stepOK s st ∧ ∀ s', specStepSeq s st = some s' → PipeOK s' ss

/-- C14 on tables, whole pipelines: for every step list in the domain the model answers, and stage by stage the `name`
and `sequence` columns it holds are the ones the property-level reading (`specStages`) gives -/
theorem runPipe_spec (steps : List PStep) : ∀ (t : Table) (nm s : List Bytes) (stages : List (List Bytes × List Bytes)),
    TableWF t nm s → PipeOK s steps → specStages nm s steps = some stages →
    ∃ ts, runPipe Gen.C14.ASCII Gen.C14.codon t steps = .ok ts ∧
      ts.map (fun t => (t.get "name", t.get "sequence")) = stages.map (fun p => (some p.1, some p.2)) := by
  induction steps with
  | nil =>
    intro t nm s stages wf _ h
    simp only [specStages, Option.some.injEq] at h
    subst h
    exact ⟨[t], rfl, by simp [wf.hs, wf.hnm]⟩
  | cons st ss ih =>
    intro t nm s stages wf hok h
    simp only [specStages] at h
    cases hsp : specStepSeq s st with
    | none => simp [hsp] at h
    | some s' =>
      simp only [hsp, Option.map_eq_some_iff] at h
      obtain ⟨rest, hrest, rfl⟩ := h
      obtain ⟨t', ht', wf'⟩ := pipeStep_spec t nm s s' st wf hok.1 hsp
      obtain ⟨ts, hts, hmap⟩ := ih t' _ s' rest wf' (hok.2 s' hsp) hrest
      exact ⟨t :: ts, by simp [runPipe, ht', hts], by simp [wf.hs, wf.hnm, hmap]⟩

/-- C14 clause 3 on a TABLE: reverse complement applied twice to a table of DNA gives back the sequence column, names
unchanged (instance of `runPipe_spec` + `specRevComp_invol`) -/
theorem table_rc_twice (t : Table) (nm s : List Bytes) (wf : TableWF t nm s) (hdna : ∀ r ∈ s, ∀ b ∈ r, isDna b = true) :
    ∃ t1 t2, runPipe Gen.C14.ASCII Gen.C14.codon t [.rc, .rc] = .ok [t, t1, t2] ∧
      t1.get "sequence" = some (s.map specRevComp) ∧ t2.get "sequence" = some s ∧ t2.get "name" = some nm := by
  have hdna' : ∀ r ∈ s.map specRevComp, ∀ b ∈ r, isDna b = true := by
    intro r hr
    obtain ⟨x, hx, rfl⟩ := List.mem_map.mp hr
    exact specRevComp_dna x (hdna x hx)
  have hback : (s.map specRevComp).map specRevComp = s := by
    rw [List.map_map]
    have : (specRevComp ∘ specRevComp) = id := by funext x; simp [specRevComp_invol]
    simp [this]
  obtain ⟨t1, h1, wf1⟩ := pipeStep_spec t nm s _ .rc wf hdna rfl
  obtain ⟨t2, h2, wf2⟩ := pipeStep_spec t1 nm _ _ .rc wf1 hdna' rfl
  refine ⟨t1, t2, by simp [runPipe, h1, h2], wf1.hs, ?_, wf2.hnm⟩
  rw [wf2.hs, hback]

/-! ### derived interval objects: the kind flag along the derivations -/

/-- the running code hands the object's own `is_stranded` on in all five derivations (re-tabulated every run; a method
that drops the flag changes `Gen.C14.giFlags` and this stops compiling) -/
theorem gen_flags_keep : Gen.C14.giFlags = GFlags.keep := by decide

theorem gi_step_kind (g g' : GI) (s : GStep) (h : GI.step GFlags.keep g s = some g') : g'.stranded = g.stranded := by
  cases s <;> simp only [GI.step] at h
  · cases h; cases hg : g.stranded <;> simp [Flag.apply, GFlags.keep, Flag.keep]
  · split at h
    · cases h; cases hg : g.stranded <;> simp [Flag.apply, GFlags.keep, Flag.keep]
    · cases h
  · cases h; cases hg : g.stranded <;> simp [Flag.apply, GFlags.keep, Flag.keep]
  · cases h; cases hg : g.stranded <;> simp [Flag.apply, GFlags.keep, Flag.keep]

/-- with flag-keeping constructor calls, any derivation that answers gives an object of the original's kind -/
theorem derived_keeps_kind (steps : List GStep) : ∀ (g g' : GI), runG GFlags.keep g steps = some g' →
    g'.stranded = g.stranded := by
  induction steps with
  | nil => intro g g' h; simp only [runG, Option.some.injEq] at h; subst h; rfl
  | cons s ss ih =>
    intro g g' h
    simp only [runG] at h
    cases hs : GI.step GFlags.keep g s with
    | none => simp [hs] at h
    | some g1 =>
      simp only [hs] at h
      rw [ih g1 g' h, gi_step_kind g g1 s hs]

/-- a model in which ONE derivation (`clip`) leaves the flag out is a different model, and it violates clause 4: the
`-` interval comes back forward -/
theorem flag_dropped_unsound :
    let F : GFlags := { GFlags.keep with clip := ⟨false, false⟩ }
    (runG F ⟨[⟨0, 1, 9, 45⟩], true⟩ [.clip [3]]).bind (getitem Gen.C14.ACGT [[0, 1, 1]]) = some [[1, 1]] ∧
    (runG GFlags.keep ⟨[⟨0, 1, 9, 45⟩], true⟩ [.clip [3]]).bind (getitem Gen.C14.ACGT [[0, 1, 1]]) = some [[2, 2]] := by
  decide +kernel

/-- a clipped interval ends inside its chromosome -/
theorem clip_in_bounds (F : GFlags) (g g' : GI) (sizes : List Nat) (h : GI.step F g (.clip sizes) = some g') :
    ∀ iv ∈ g'.ivs, iv.stop ≤ sizes.getD iv.chrom 0 := by
  simp only [GI.step, Option.some.injEq] at h
  subst h
  intro iv hiv
  simp only [List.mem_map] at hiv
  obtain ⟨iv0, _, rfl⟩ := hiv
  simp only [clipIv]
  exact Nat.min_le_left _ _

/-- the windows around locations are `[p - flank, p + flank + 1) ∩ [0, size)` with the location's strand -/
theorem windows_ivs (F : GFlags) (sizes : List Nat) (flank : Nat) (locs : List (Nat × Nat × Nat)) (st : Bool) :
    (windows F sizes flank locs st).ivs =
      locs.map (fun l => ⟨l.1, l.2.1 - flank, min (sizes.getD l.1 0) (l.2.1 + flank + 1), l.2.2⟩) := by
  simp [windows, clipIv, Function.comp_def]

/-- C14 clause 4 through the Genome API: with the flags of the running code, `genomic_sequence[intervals]` for a
stranded interval object that went through any derivation that answers returns, for the intervals the derived object
denotes, the forward slice for `+` and its reverse complement otherwise -/
theorem getitem_derived (T : Tab) (h : tableOK T = true) (seqs : List (List Nat)) (texts : List Bytes)
    (hd : omap (decode T) seqs = some texts) (hdna : ∀ t ∈ texts, ∀ b ∈ t, isDna b = true)
    (g g' : GI) (hs : g.stranded = true) (steps : List GStep) (hg : runG Gen.C14.giFlags g steps = some g') :
    ∃ out, getitem T seqs g' = some out ∧ omap (decode T) out = some (specStrand texts g'.ivs) := by
  rw [gen_flags_keep] at hg
  obtain ⟨out, h1, h2⟩ := extract_stranded_def T h seqs texts hd hdna g'.ivs
  refine ⟨out, ?_, h2⟩
  simp [getitem, derived_keeps_kind steps g g' hg, hs, h1]

/-- … and for an object that is not stranded, the forward slices whatever the strand column says -/
theorem getitem_unstranded (T : Tab) (seqs : List (List Nat)) (g g' : GI) (hs : g.stranded = false) (steps : List GStep)
    (hg : runG Gen.C14.giFlags g steps = some g') : getitem T seqs g' = some (relevant seqs g'.ivs) := by
  rw [gen_flags_keep] at hg
  simp [getitem, derived_keeps_kind steps g g' hg, hs, extract_unstranded_def]

example : TableWF ⟨1, [("name", [[0]]), ("sequence", [[97, 71]])], []⟩ [[0]] [[97, 71]] := ⟨rfl, rfl, rfl, rfl⟩
example : PipeOK [[97, 84, 71]] [.rc, .replace [[67, 65, 84]], .translate] := by
  refine ⟨?_, fun s' h => ⟨trivial, fun s'' h' => ?_⟩⟩
  · show ∀ r ∈ [[97, 84, 71]], ∀ b ∈ r, isDna b = true
    decide
  · simp only [specStepSeq] at h h'
    cases h
    simp at h'
    subst h'
    refine ⟨?_, fun _ _ => trivial⟩
    show (∀ r ∈ [[67, 65, 84]], r.length % 3 = 0) ∧
      ∀ r ∈ [[67, 65, 84]], ∀ b ∈ r, toUpper b = 65 ∨ toUpper b = 67 ∨ toUpper b = 71 ∨ toUpper b = 84
    decide
example : ((windows GFlags.keep [4] 2 [(0, 2, 45), (0, 0, 45)] true).ivs.map (fun iv => (iv.start, iv.stop))) = [(0, 4), (0, 3)] := by decide

end C14
