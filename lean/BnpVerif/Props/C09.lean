import BnpVerif.Model.C09
import BnpVerif.Props.C08Core
/-! C09 — genomic arrays are exact, lossless views of dense per-base arrays: helper lemmas and the
property theorems. -/
namespace C09
open Base.Rle

/-! ## from_bedgraph -/

/-- sorted, non-overlapping, non-empty records -/
def OkBg {V : Type} (bg : List (Rec V)) : Prop :=
  bg.Pairwise (fun a b => a.2.1 ≤ b.1) ∧ ∀ r ∈ bg, r.1 < r.2.1

theorem OkBg.tail {V : Type} {r : Rec V} {bg : List (Rec V)} (h : OkBg (r :: bg)) : OkBg bg :=
  ⟨(List.pairwise_cons.1 h.1).2, fun x hx => h.2 x (by simp [hx])⟩

/-- dense meaning of records from position `c` on -/
def denseBg {V : Type} (zero : V) (size : Nat) : Nat → List (Rec V) → List V
  | c, [] => List.replicate (size - c) zero
  | c, (s, e, v) :: rest => List.replicate (s - c) zero ++ List.replicate (e - s) v ++ denseBg zero size e rest

theorem gapPairs_head {V : Type} (zero : V) (r : Rec V) (rest : List (Rec V)) :
    ∃ tl, gapPairs zero (r :: rest) = (r.1, r.2.2) :: tl := by
  cases rest with
  | nil => exact ⟨[], rfl⟩
  | cons r' rest =>
    simp only [gapPairs]
    split
    · exact ⟨_, rfl⟩
    · exact ⟨_, rfl⟩

theorem lastStop_cons_cons {V : Type} (r r' : Rec V) (rest : List (Rec V)) :
    lastStop (r :: r' :: rest) = lastStop (r' :: rest) := by
  simp [lastStop]

theorem denseBg_shift {V : Type} (zero : V) (size c : Nat) (r : Rec V) (rest : List (Rec V)) :
    denseBg zero size c (r :: rest) = List.replicate (r.1 - c) zero ++ denseBg zero size r.1 (r :: rest) := by
  obtain ⟨s, e, v⟩ := r
  simp [denseBg]

/-- the tail events/values appended after the (gap-filled) starts: nothing when the last record ends at
`size`, otherwise the run `[last, size)` of zeros -/
def TailOk {V : Type} (zero : V) (size last : Nat) (post : List Nat) (postVals : List V) : Prop :=
  (post = [] ∧ postVals = [] ∧ last = size) ∨ (post = [size] ∧ postVals = [zero] ∧ last < size)

theorem runs_gapPairs {V : Type} (zero : V) (size : Nat) (post : List Nat) (postVals : List V) (bg : List (Rec V)) :
    ∀ r, OkBg (r :: bg) → TailOk zero size (lastStop (r :: bg)) post postVals →
    runs ((gapPairs zero (r :: bg)).map (·.1) ++ lastStop (r :: bg) :: post)
         ((gapPairs zero (r :: bg)).map (·.2) ++ postVals) = denseBg zero size r.1 (r :: bg) := by
  induction bg with
  | nil =>
    intro r hok ht
    obtain ⟨s, e, v⟩ := r
    have hl : lastStop [(s, e, v)] = e := by simp [lastStop]
    rw [hl] at ht ⊢
    rcases ht with ⟨rfl, rfl, h⟩ | ⟨rfl, rfl, h⟩
    · subst h; simp [gapPairs, runs, denseBg]
    · simp [gapPairs, runs, denseBg]
  | cons r' rest ih =>
    intro r hok ht
    obtain ⟨s, e, v⟩ := r
    rw [lastStop_cons_cons] at ht ⊢
    have ih' := ih r' hok.tail ht
    obtain ⟨tl, htl⟩ := gapPairs_head zero r' rest
    have hle : e ≤ r'.1 := (List.pairwise_cons.1 hok.1).1 r' (by simp)
    rw [denseBg, denseBg_shift]
    simp only [gapPairs]
    split
    · rename_i hne
      rw [htl] at ih' ⊢
      simp only [List.map_cons, List.cons_append, runs] at ih' ⊢
      rw [ih']
      simp
    · rename_i hne
      have heq : r'.1 = e := by simpa using hne
      rw [htl] at ih' ⊢
      simp only [List.map_cons, List.cons_append, runs] at ih' ⊢
      rw [ih', heq]
      simp

theorem stops_le_last {V : Type} (bg : List (Rec V)) : OkBg bg → ∀ r ∈ bg, r.2.1 ≤ lastStop bg := by
  induction bg with
  | nil => intro _ r h; simp at h
  | cons x bg ih =>
    intro hok r hr
    cases bg with
    | nil =>
      simp only [List.mem_singleton] at hr
      subst hr; simp [lastStop]
    | cons y bg =>
      rw [lastStop_cons_cons]
      have ih' := ih hok.tail
      rcases List.mem_cons.1 hr with rfl | hr
      · have h1 : r.2.1 ≤ y.1 := (List.pairwise_cons.1 hok.1).1 y (by simp)
        have h2 : y.1 < y.2.1 := hok.2 y (by simp)
        have h3 := ih' y (by simp)
        omega
      · exact ih' r hr

theorem valueAt_cons {V : Type} (zero : V) (r : Rec V) (bg : List (Rec V)) (p : Nat) :
    valueAt zero (r :: bg) p = if r.1 ≤ p ∧ p < r.2.1 then r.2.2 else valueAt zero bg p := by
  simp only [valueAt, List.find?_cons]
  by_cases h : r.1 ≤ p ∧ p < r.2.1
  · simp [h]
  · rw [if_neg h]
    have : (decide (r.1 ≤ p) && decide (p < r.2.1)) = false := by
      simp only [Bool.and_eq_false_imp, decide_eq_true_eq, decide_eq_false_iff_not]
      intro h1 h2; exact h ⟨h1, h2⟩
    simp [this]

theorem valueAt_before {V : Type} (zero : V) (bg : List (Rec V)) (p : Nat) (h : ∀ r ∈ bg, p < r.1) :
    valueAt zero bg p = zero := by
  induction bg with
  | nil => rfl
  | cons r bg ih =>
    rw [valueAt_cons, if_neg (by have := h r (by simp); omega)]
    exact ih (fun x hx => h x (by simp [hx]))

theorem denseBg_eq {V : Type} (zero : V) (size : Nat) (bg : List (Rec V)) : ∀ c, (∀ r ∈ bg, c ≤ r.1) → OkBg bg →
    (∀ r ∈ bg, r.2.1 ≤ size) → c ≤ size →
    denseBg zero size c bg = (List.range' c (size - c)).map (valueAt zero bg) := by
  induction bg with
  | nil =>
    intro c _ _ _ _
    simp only [denseBg]
    exact (C08.map_range'_const _ zero c (size - c) (fun p _ _ => rfl)).symm
  | cons x bg ih =>
    intro c hc hok hle hcs
    obtain ⟨s, e, v⟩ := x
    have hse : s < e := hok.2 (s, e, v) (by simp)
    have hes : e ≤ size := hle (s, e, v) (by simp)
    have hcs' : c ≤ s := hc (s, e, v) (by simp)
    have hgt : ∀ r ∈ bg, e ≤ r.1 := fun r hr => (List.pairwise_cons.1 hok.1).1 r hr
    have ihK := ih e hgt hok.tail (fun r hr => hle r (by simp [hr])) hes
    have hsplit : List.range' c (size - c) = List.range' c (s - c) ++ (List.range' s (e - s) ++ List.range' e (size - e)) := by
      have h1 : List.range' s (e - s) ++ List.range' e (size - e) = List.range' s (size - s) := by
        have := List.range'_append_1 (s := s) (m := e - s) (n := size - e)
        rw [show s + (e - s) = e by omega, show e - s + (size - e) = size - s by omega] at this
        exact this
      have := List.range'_append_1 (s := c) (m := s - c) (n := size - s)
      rw [show c + (s - c) = s by omega, show s - c + (size - s) = size - c by omega] at this
      rw [h1, this]
    rw [hsplit, List.map_append, List.map_append, denseBg, ihK, List.append_assoc]
    congr 1
    · exact (C08.map_range'_const _ zero c (s - c) (fun p h1 h2 => by
        rw [valueAt_cons, if_neg (by simp only; omega)]
        exact valueAt_before zero bg p (fun r hr => by have := hgt r hr; omega))).symm
    congr 1
    · exact (C08.map_range'_const _ v s (e - s) (fun p h1 h2 => by
        rw [valueAt_cons, if_pos (by simp only; omega)])).symm
    · apply List.map_congr_left
      intro p hp
      rw [List.mem_range'_1] at hp
      rw [valueAt_cons, if_neg (by simp only; omega)]

/-- events of the (gap-filled) starts followed by the tail are strictly increasing and ≥ the first start -/
theorem gapPairs_events {V : Type} (zero : V) (post : List Nat) (bg : List (Rec V)) :
    ∀ r, OkBg (r :: bg) → (∀ x ∈ post, lastStop (r :: bg) < x) → post.Pairwise (· < ·) →
    ((gapPairs zero (r :: bg)).map (·.1) ++ lastStop (r :: bg) :: post).Pairwise (· < ·) ∧
    ∀ x ∈ (gapPairs zero (r :: bg)).map (·.1) ++ lastStop (r :: bg) :: post, r.1 ≤ x := by
  induction bg with
  | nil =>
    intro r hok hpost hpw
    obtain ⟨s, e, v⟩ := r
    have hse : s < e := hok.2 (s, e, v) (by simp)
    have hl : lastStop [(s, e, v)] = e := by simp [lastStop]
    rw [hl] at hpost ⊢
    simp only [gapPairs, List.map_cons, List.map_nil, List.cons_append, List.nil_append]
    refine ⟨List.pairwise_cons.2 ⟨?_, List.pairwise_cons.2 ⟨hpost, hpw⟩⟩, ?_⟩
    · intro x hx
      rcases List.mem_cons.1 hx with rfl | hx
      · exact hse
      · have := hpost x hx; omega
    · intro x hx
      rcases List.mem_cons.1 hx with rfl | hx
      · exact Nat.le_refl _
      · rcases List.mem_cons.1 hx with rfl | hx
        · omega
        · have := hpost x hx; omega
  | cons r' rest ih =>
    intro r hok hpost hpw
    obtain ⟨s, e, v⟩ := r
    have hse : s < e := hok.2 (s, e, v) (by simp)
    rw [lastStop_cons_cons] at hpost ⊢
    obtain ⟨ih1, ih2⟩ := ih r' hok.tail hpost hpw
    have hle : e ≤ r'.1 := (List.pairwise_cons.1 hok.1).1 r' (by simp)
    simp only [gapPairs]
    split
    · rename_i hne
      have hne' : r'.1 ≠ e := by simpa using hne
      simp only [List.map_cons, List.cons_append]
      refine ⟨List.pairwise_cons.2 ⟨?_, List.pairwise_cons.2 ⟨?_, ih1⟩⟩, ?_⟩
      · intro x hx
        rcases List.mem_cons.1 hx with rfl | hx
        · exact hse
        · have := ih2 x hx; omega
      · intro x hx
        have := ih2 x hx; omega
      · intro x hx
        rcases List.mem_cons.1 hx with rfl | hx
        · exact Nat.le_refl _
        · rcases List.mem_cons.1 hx with rfl | hx
          · omega
          · have := ih2 x hx; omega
    · simp only [List.map_cons, List.cons_append]
      refine ⟨List.pairwise_cons.2 ⟨?_, ih1⟩, ?_⟩
      · intro x hx
        have := ih2 x hx; omega
      · intro x hx
        rcases List.mem_cons.1 hx with rfl | hx
        · exact Nat.le_refl _
        · have := ih2 x hx; omega

theorem gapPairs_lengths {V : Type} (zero : V) (bg : List (Rec V)) :
    ((gapPairs zero bg).map (·.1)).length = ((gapPairs zero bg).map (·.2)).length := by simp

theorem fromBedgraph_none {V : Type} (zero : V) (r : Rec V) (bg : List (Rec V)) :
    fromBedgraph zero (r :: bg) none = fromBedgraph zero (r :: bg) (some (lastStop (r :: bg))) := by
  simp [fromBedgraph]

/-- the events/values `from_bedgraph` builds for a non-empty bedGraph, with the tail made explicit -/
theorem fromBedgraph_cons {V : Type} (zero : V) (r : Rec V) (bg : List (Rec V)) (size : Nat)
    (hlast : lastStop (r :: bg) ≤ size) :
    ∃ post postVals, TailOk zero size (lastStop (r :: bg)) post postVals ∧
      fromBedgraph zero (r :: bg) (some size) =
        if r.1 = 0 then ⟨(gapPairs zero (r :: bg)).map (·.1) ++ lastStop (r :: bg) :: post,
                         (gapPairs zero (r :: bg)).map (·.2) ++ postVals⟩
        else ⟨0 :: ((gapPairs zero (r :: bg)).map (·.1) ++ lastStop (r :: bg) :: post),
              zero :: ((gapPairs zero (r :: bg)).map (·.2) ++ postVals)⟩ := by
  obtain ⟨tl, htl⟩ := gapPairs_head zero r bg
  by_cases hsl : size = lastStop (r :: bg)
  · refine ⟨[], [], Or.inl ⟨rfl, rfl, hsl.symm⟩, ?_⟩
    simp only [fromBedgraph, htl, hsl]
    by_cases h0 : r.1 = 0 <;> simp [h0]
  · refine ⟨[size], [zero], Or.inr ⟨rfl, rfl, by omega⟩, ?_⟩
    simp only [fromBedgraph, htl]
    by_cases h0 : r.1 = 0 <;> simp [h0, hsl]

/-- **from_bedgraph**: for every sorted non-overlapping bedGraph whose last stop is ≤ size (with or without
gaps, starting at 0 or later, ending at or before `size`, empty) the constructed run-length array is well formed
and its dense meaning is the value under each record and `zero` elsewhere, of length `size`. -/
theorem bedgraph_dense {V : Type} (zero : V) (bg : List (Rec V)) (size : Nat) (hsz : bg = [] → 0 < size) (hok : OkBg bg)
    (hlast : lastStop bg ≤ size) :
    (fromBedgraph zero bg (some size)).WF ∧ (fromBedgraph zero bg (some size)).toDense = specDense zero bg size := by
  cases bg with
  | nil =>
    refine ⟨⟨rfl, rfl, by show List.Pairwise (· < ·) [0, size]; simp; exact hsz rfl⟩, ?_⟩
    simp only [fromBedgraph, Rle.toDense, Option.getD_some, runs, specDense, List.append_nil, Nat.sub_zero]
    rw [List.range_eq_range']
    exact (C08.map_range'_const _ zero 0 size (fun p _ _ => rfl)).symm
  | cons r bg =>
    obtain ⟨post, postVals, ht, heq⟩ := fromBedgraph_cons zero r bg size hlast
    have hruns := runs_gapPairs zero size post postVals bg r hok ht
    have hpost : ∀ x ∈ post, lastStop (r :: bg) < x := by
      intro x hx
      rcases ht with ⟨rfl, _, _⟩ | ⟨rfl, _, h⟩
      · simp at hx
      · simp only [List.mem_singleton] at hx; omega
    have hpw : post.Pairwise (· < ·) := by
      rcases ht with ⟨rfl, _, _⟩ | ⟨rfl, _, _⟩ <;> simp
    obtain ⟨hev1, hev2⟩ := gapPairs_events zero post bg r hok hpost hpw
    have hlen : ((gapPairs zero (r :: bg)).map (·.1) ++ lastStop (r :: bg) :: post).length =
        ((gapPairs zero (r :: bg)).map (·.2) ++ postVals).length + 1 := by
      rcases ht with ⟨rfl, rfl, _⟩ | ⟨rfl, rfl, _⟩ <;> simp
    obtain ⟨tl, htl⟩ := gapPairs_head zero r bg
    have hstops : ∀ x ∈ r :: bg, x.2.1 ≤ size := fun x hx => Nat.le_trans (stops_le_last _ hok x hx) hlast
    have hdense : denseBg zero size 0 (r :: bg) = specDense zero (r :: bg) size := by
      rw [denseBg_eq zero size (r :: bg) 0 (fun _ _ => Nat.zero_le _) hok hstops (Nat.zero_le _)]
      simp [specDense, List.range_eq_range']
    rw [heq]
    by_cases h0 : r.1 = 0
    · rw [if_pos h0]
      refine ⟨⟨hlen, ?_, hev1⟩, ?_⟩
      · simp [htl, h0]
      · simp only [Rle.toDense]
        rw [hruns, ← hdense, h0]
    · rw [if_neg h0]
      refine ⟨⟨by simp only [List.length_cons]; omega, rfl, ?_⟩, ?_⟩
      · refine List.pairwise_cons.2 ⟨?_, hev1⟩
        intro x hx
        have := hev2 x hx
        omega
      · simp only [Rle.toDense]
        rw [htl] at hruns ⊢
        simp only [List.map_cons, List.cons_append, runs] at hruns ⊢
        rw [hruns, ← hdense, denseBg_shift zero size 0 r bg]

/-- without a size the array ends at the last stop -/
theorem bedgraph_dense_nosize {V : Type} (zero : V) (r : Rec V) (bg : List (Rec V)) (hok : OkBg (r :: bg)) :
    (fromBedgraph zero (r :: bg) none).WF ∧
    (fromBedgraph zero (r :: bg) none).toDense = specDense zero (r :: bg) (lastStop (r :: bg)) := by
  rw [fromBedgraph_none]
  exact bedgraph_dense zero (r :: bg) _ (fun h => by cases h) hok (Nat.le_refl _)

/-! ## to_array on booleans, 64-bit words and int64 values -/

theorem toArray_dense_bool (r : Rle Bool) (h : r.WF) : toArrayBool r = r.toDense :=
  C08.toArray_dense xor false (by simp) (by intro a b; cases a <;> cases b <;> rfl) r h

theorem nat_xor_cancel (a b : Nat) : Nat.xor a (Nat.xor a b) = b := by
  show a ^^^ (a ^^^ b) = b
  rw [← Nat.xor_assoc, Nat.xor_self, Nat.zero_xor]

/-- `to_array` on the unsigned 64-bit view (floats, non-negative ints): exact for every bit pattern -/
theorem toArray_dense_bits (r : Rle Nat) (h : r.WF) : r.toArray Nat.xor 0 = r.toDense :=
  C08.toArray_dense Nat.xor 0 (fun a => Nat.xor_zero a) nat_xor_cancel r h

theorem runs_map {V W : Type} (f : V → W) : ∀ (ev : List Nat) (vs : List V), runs ev (vs.map f) = (runs ev vs).map f := by
  intro ev
  induction ev with
  | nil => intro vs; cases vs <;> simp [runs]
  | cons e0 es ih =>
    intro vs
    cases es with
    | nil => cases vs <;> simp [runs]
    | cons e1 es =>
      cases vs with
      | nil => simp [runs]
      | cons v vs => simp [runs, ih vs]

theorem mem_runs {V : Type} : ∀ (ev : List Nat) (vs : List V) (x : V), x ∈ runs ev vs → x ∈ vs := by
  intro ev
  induction ev with
  | nil => intro vs x h; cases vs <;> simp [runs] at h
  | cons e0 es ih =>
    intro vs x h
    cases es with
    | nil => cases vs <;> simp [runs] at h
    | cons e1 es =>
      cases vs with
      | nil => simp [runs] at h
      | cons v vs =>
        simp only [runs, List.mem_append] at h
        rcases h with h | h
        · rw [(List.mem_replicate.1 h).2]; simp
        · exact List.mem_cons_of_mem _ (ih vs x h)

theorem mapRle_WF {V W : Type} (f : V → W) (r : Rle V) (h : r.WF) : (mapRle f r).WF := by
  obtain ⟨h1, h2, h3⟩ := h
  exact ⟨by simpa [mapRle] using h1, h2, h3⟩

/-- unary ufuncs and ufuncs with a scalar commute with the dense expansion -/
theorem mapRle_dense {V W : Type} (f : V → W) (r : Rle V) : (mapRle f r).toDense = r.toDense.map f := by
  simp [mapRle, Rle.toDense, runs_map]

theorem dec64_enc64 (v : Int) (h1 : -(2 ^ 63 : Int) ≤ v) (h2 : v < (2 ^ 63 : Int)) : dec64 (enc64 v) = v := by
  obtain ⟨n, hn⟩ : ∃ n, n = enc64 v := ⟨_, rfl⟩
  have hn' : (n : Int) = v % 2 ^ 64 := by rw [hn, enc64]; omega
  rw [← hn]
  unfold dec64
  by_cases hlt : n < 2 ^ 63
  · rw [if_pos hlt]; omega
  · rw [if_neg hlt]; omega

/-- `to_array` on int64 values (two's complement words) -/
theorem toArray_dense_int (r : Rle Int) (h : r.WF) (hr : ∀ v ∈ r.values, -(2 ^ 63 : Int) ≤ v ∧ v < (2 ^ 63 : Int)) :
    toArrayInt r = r.toDense := by
  simp only [toArrayInt]
  rw [toArray_dense_bits _ (mapRle_WF enc64 r h), mapRle_dense, List.map_map]
  have : ∀ x ∈ r.toDense, (dec64 ∘ enc64) x = id x := by
    intro x hx
    have := hr x (mem_runs _ _ x hx)
    exact dec64_enc64 x this.1 this.2
  rw [List.map_congr_left this, List.map_id]

/-! ## slicing a chromosome out of the genome-wide array and converting back to records -/

/-- expansion of records by their own lengths -/
def expandR {V : Type} (recs : List (Rec V)) : List V := recs.flatMap (fun r => List.replicate (r.2.1 - r.1) r.2.2)

/-- records tile `[c, …)` without gaps or overlaps, each non-empty -/
def Contig {V : Type} : Nat → List (Rec V) → Prop
  | _, [] => True
  | c, (s, e, _) :: rest => s = c ∧ c < e ∧ Contig e rest

theorem contig_runRecs {V : Type} : ∀ (es : List Nat) (vs : List V) (e0 : Nat), (e0 :: es).Pairwise (· < ·) →
    Contig e0 (runRecs (e0 :: es) vs) := by
  intro es
  induction es with
  | nil => intro vs e0 _; cases vs <;> simp [runRecs, Contig]
  | cons e1 es ih =>
    intro vs e0 h
    cases vs with
    | nil => simp [runRecs, Contig]
    | cons v vs =>
      simp only [runRecs, Contig]
      exact ⟨trivial, (List.pairwise_cons.1 h).1 e1 (by simp), ih vs e1 (List.pairwise_cons.1 h).2⟩

theorem expandR_runRecs {V : Type} : ∀ (ev : List Nat) (vs : List V), expandR (runRecs ev vs) = runs ev vs := by
  intro ev
  induction ev with
  | nil => intro vs; cases vs <;> simp [runRecs, runs, expandR]
  | cons e0 es ih =>
    intro vs
    cases es with
    | nil => cases vs <;> simp [runRecs, runs, expandR]
    | cons e1 es =>
      cases vs with
      | nil => simp [runRecs, runs, expandR]
      | cons v vs =>
        have := ih vs
        simp only [expandR] at this
        simp [runRecs, runs, expandR, this]

theorem expandR_clip {V : Type} (a b : Nat) (recs : List (Rec V)) :
    expandR (clipRecs a b recs) = recs.flatMap (fun r => List.replicate (min r.2.1 b - max r.1 a) r.2.2) := by
  induction recs with
  | nil => rfl
  | cons x recs ih =>
    obtain ⟨s, e, v⟩ := x
    simp only [clipRecs, List.flatMap_cons]
    split
    · rename_i h
      simp only [expandR, List.flatMap_cons] at ih ⊢
      rw [ih]
      congr 2
      omega
    · rename_i h
      rw [ih]
      have : min e b - max s a = 0 := by omega
      simp [this]

/-- clipping contiguous records to `[a, b)` selects exactly the positions `[a, b)` of their expansion -/
theorem flatMap_clip {V : Type} (a b : Nat) (recs : List (Rec V)) : ∀ c, Contig c recs →
    recs.flatMap (fun r => List.replicate (min r.2.1 b - max r.1 a) r.2.2) =
      ((expandR recs).drop (a - c)).take (b - max a c) := by
  induction recs with
  | nil => intro c _; simp [expandR]
  | cons x recs ih =>
    intro c hc
    obtain ⟨s, e, v⟩ := x
    obtain ⟨rfl, hlt, hrest⟩ := hc
    have ih' := ih e hrest
    simp only [expandR, List.flatMap_cons] at ih' ⊢
    rw [ih', List.drop_append, List.take_append, List.drop_replicate, List.take_replicate]
    simp only [List.length_replicate, List.length_drop]
    congr 1
    · congr 1; omega
    · congr 1
      · omega
      · congr 1; omega

theorem clipRecs_nil {V : Type} (a b : Nat) (recs : List (Rec V)) (h : ∀ r ∈ recs, b ≤ max r.1 a) :
    clipRecs a b recs = [] := by
  induction recs with
  | nil => rfl
  | cons x recs ih =>
    obtain ⟨s, e, v⟩ := x
    have := h (s, e, v) (by simp)
    simp only at this
    simp only [clipRecs]
    rw [if_neg (by omega)]
    exact ih (fun r hr => h r (by simp [hr]))

theorem contig_start_ge {V : Type} (recs : List (Rec V)) : ∀ c, Contig c recs → ∀ r ∈ recs, c ≤ r.1 := by
  induction recs with
  | nil => intro c _ r h; simp at h
  | cons x recs ih =>
    intro c hc r hr
    obtain ⟨s, e, v⟩ := x
    obtain ⟨rfl, hlt, hrest⟩ := hc
    rcases List.mem_cons.1 hr with rfl | hr
    · exact Nat.le_refl _
    · have := ih e hrest r hr; omega

theorem contig_clip {V : Type} (a b : Nat) (recs : List (Rec V)) : ∀ c, Contig c recs →
    Contig (max c a - a) (clipRecs a b recs) := by
  induction recs with
  | nil => intro c _; simp [clipRecs, Contig]
  | cons x recs ih =>
    intro c hc
    obtain ⟨s, e, v⟩ := x
    obtain ⟨rfl, hlt, hrest⟩ := hc
    have ih' := ih e hrest
    have hge := contig_start_ge recs e hrest
    simp only [clipRecs]
    split
    · rename_i hk
      refine ⟨rfl, by omega, ?_⟩
      by_cases heb : e ≤ b
      · have h1 : min e b - a = max e a - a := by omega
        rw [h1]; exact ih'
      · rw [clipRecs_nil a b recs (fun r hr => by have := hge r hr; omega)]
        trivial
    · rename_i hk
      by_cases hea : e ≤ a
      · have h1 : max s a - a = max e a - a := by omega
        rw [h1]; exact ih'
      · rw [clipRecs_nil a b recs (fun r hr => by have := hge r hr; omega)]
        trivial

theorem runRecs_ofRecs {V : Type} (recs : List (Rec V)) : ∀ c, Contig c recs →
    runRecs (c :: recs.map (·.2.1)) (recs.map (·.2.2)) = recs := by
  induction recs with
  | nil => intro c _; rfl
  | cons x recs ih =>
    intro c hc
    obtain ⟨s, e, v⟩ := x
    obtain ⟨rfl, hlt, hrest⟩ := hc
    simp only [List.map_cons, runRecs]
    rw [ih e hrest]

theorem contig_ends_pairwise {V : Type} (recs : List (Rec V)) : ∀ c, Contig c recs →
    (c :: recs.map (·.2.1)).Pairwise (· < ·) := by
  induction recs with
  | nil => intro c _; simp
  | cons x recs ih =>
    intro c hc
    obtain ⟨s, e, v⟩ := x
    obtain ⟨rfl, hlt, hrest⟩ := hc
    have ih' := ih e hrest
    simp only [List.map_cons]
    refine List.pairwise_cons.2 ⟨?_, ih'⟩
    intro y hy
    rcases List.mem_cons.1 hy with rfl | hy
    · exact hlt
    · have := (List.pairwise_cons.1 ih').1 y hy; omega

theorem contig_of_WF {V : Type} (r : Rle V) (h : r.WF) : Contig 0 (runRecs r.events r.values) := by
  obtain ⟨events, values⟩ := r
  obtain ⟨_, hhead, hpw⟩ := h
  simp only at hhead hpw ⊢
  cases events with
  | nil => simp at hhead
  | cons e0 es =>
    simp only [List.head?_cons, Option.some.injEq] at hhead
    subst hhead
    exact contig_runRecs es values 0 hpw

theorem contig_nonoverlap {V : Type} (recs : List (Rec V)) : ∀ c, Contig c recs →
    recs.Pairwise (fun x y => x.2.1 ≤ y.1) ∧ ∀ x ∈ recs, x.1 < x.2.1 := by
  induction recs with
  | nil => intro c _; simp
  | cons x recs ih =>
    intro c hc
    obtain ⟨s, e, v⟩ := x
    obtain ⟨rfl, hlt, hrest⟩ := hc
    obtain ⟨ih1, ih2⟩ := ih e hrest
    refine ⟨List.pairwise_cons.2 ⟨fun y hy => contig_start_ge recs e hrest y hy, ih1⟩, ?_⟩
    intro y hy
    rcases List.mem_cons.1 hy with rfl | hy
    · exact hlt
    · exact ih2 y hy

/-- the slice `[a, b)` of a run-length array (one chromosome of the genome-wide array) is a well-formed
run-length array whose dense meaning is the slice of the dense array -/
theorem slice_dense {V : Type} (r : Rle V) (h : r.WF) (a b : Nat) :
    (sliceRle r a b).WF ∧ (sliceRle r a b).toDense = (r.toDense.drop a).take (b - a) ∧
    dataRecs (sliceRle r a b) = clipRecs a b (runRecs r.events r.values) := by
  have hR := contig_of_WF r h
  have hC : Contig 0 (clipRecs a b (runRecs r.events r.values)) := by
    have := contig_clip a b _ 0 hR
    rwa [show max 0 a - a = 0 by omega] at this
  have hs : sliceRle r a b = ofRecs (clipRecs a b (runRecs r.events r.values)) := by
    simp only [sliceRle]
    by_cases hab : a ≥ b
    · rw [if_pos hab, clipRecs_nil a b _ (fun x _ => by omega)]; rfl
    · rw [if_neg hab]
  have hdata : dataRecs (sliceRle r a b) = clipRecs a b (runRecs r.events r.values) := by
    rw [hs]; exact runRecs_ofRecs _ 0 hC
  refine ⟨?_, ?_, hdata⟩
  · rw [hs]
    exact ⟨by simp [ofRecs], rfl, contig_ends_pairwise _ 0 hC⟩
  · have h1 : (sliceRle r a b).toDense = expandR (dataRecs (sliceRle r a b)) := by
      simp only [Rle.toDense, dataRecs, expandR_runRecs]
    rw [h1, hdata, expandR_clip, flatMap_clip a b _ 0 hR, expandR_runRecs]
    simp [Rle.toDense]

/-- **back-conversion** (`get_data` / `_get_intervals_from_data` on a chromosome slice): the records are
non-empty, non-overlapping, in increasing order, tile the chromosome from 0, and expand to exactly the dense slice -/
theorem back_conversion {V : Type} (r : Rle V) (h : r.WF) (a b : Nat) :
    Contig 0 (dataRecs (sliceRle r a b)) ∧
    (dataRecs (sliceRle r a b)).Pairwise (fun x y => x.2.1 ≤ y.1) ∧
    (∀ x ∈ dataRecs (sliceRle r a b), x.1 < x.2.1) ∧
    expandR (dataRecs (sliceRle r a b)) = (r.toDense.drop a).take (b - a) := by
  obtain ⟨_, h2, h3⟩ := slice_dense r h a b
  have hC : Contig 0 (dataRecs (sliceRle r a b)) := by
    rw [h3]
    have := contig_clip a b _ 0 (contig_of_WF r h)
    rwa [show max 0 a - a = 0 by omega] at this
  refine ⟨hC, (contig_nonoverlap _ 0 hC).1, (contig_nonoverlap _ 0 hC).2, ?_⟩
  rw [← h2]
  simp only [Rle.toDense, dataRecs, expandR_runRecs]

/-- boolean data: the reported intervals are exactly where the dense array is `True` -/
theorem covered_trueRuns (recs : List (Rec Bool)) : ∀ c, Contig c recs → ∀ p, c ≤ p →
    C08.covered ((recs.filter (·.2.2)).map (fun x => (x.1, x.2.1))) p = ((expandR recs)[p - c]?).getD false := by
  induction recs with
  | nil => intro c _ p _; simp [C08.covered, expandR]
  | cons x recs ih =>
    intro c hc p hp
    obtain ⟨s, e, v⟩ := x
    obtain ⟨rfl, hlt, hrest⟩ := hc
    have hge := contig_start_ge recs e hrest
    simp only [expandR, List.flatMap_cons] at ih ⊢
    by_cases hpe : p < e
    · rw [List.getElem?_append_left (by simp; omega), List.getElem?_replicate, if_pos (by omega)]
      have hrest_false : C08.covered ((recs.filter (·.2.2)).map (fun x => (x.1, x.2.1))) p = false := by
        cases hcv : C08.covered ((recs.filter (·.2.2)).map (fun x => (x.1, x.2.1))) p with
        | false => rfl
        | true =>
          obtain ⟨iv, hiv, h1, _⟩ := (C08.covered_iff _ p).1 hcv
          obtain ⟨y, hy, rfl⟩ := List.mem_map.1 hiv
          have := hge y (List.mem_filter.1 hy).1
          simp only at h1; omega
      cases v with
      | true =>
        simp only [List.filter_cons, if_true, List.map_cons, Option.getD_some]
        exact (C08.covered_cons _ _ p).2 (Or.inl ⟨hp, hpe⟩)
      | false =>
        simp only [List.filter_cons, Bool.false_eq_true, if_false, Option.getD_some]
        exact hrest_false
    · rw [List.getElem?_append_right (by simp; omega)]
      simp only [List.length_replicate]
      have := ih e hrest p (by omega)
      rw [show p - s - (e - s) = p - e by omega, ← this]
      cases v with
      | true =>
        simp only [List.filter_cons, if_true, List.map_cons]
        cases hcv : C08.covered ((recs.filter (·.2.2)).map (fun x => (x.1, x.2.1))) p with
        | true => exact (C08.covered_cons _ _ p).2 (Or.inr hcv)
        | false =>
          cases hcv2 : C08.covered ((s, e) :: (recs.filter (·.2.2)).map (fun x => (x.1, x.2.1))) p with
          | false => rfl
          | true =>
            rcases (C08.covered_cons _ _ p).1 hcv2 with h3 | h3
            · simp only at h3; omega
            · rw [hcv] at h3; cases h3
      | false => simp only [List.filter_cons, Bool.false_eq_true, if_false]

theorem back_conversion_bool (r : Rle Bool) (h : r.WF) (a b : Nat) (p : Nat) :
    C08.covered (dataIntervals (sliceRle r a b)) p = (((r.toDense.drop a).take (b - a))[p]?).getD false := by
  obtain ⟨hC, _, _, hE⟩ := back_conversion r h a b
  have := covered_trueRuns _ 0 hC p (Nat.zero_le _)
  rw [hE] at this
  simpa [dataIntervals, dataRecs] using this

/-! ## the specified ufunc engine: dense meaning of `zipRuns`, `joinPairs`, `zipRle` -/

/-- dense meaning of `(end, value)` pairs laid out from position `c` -/
def expandP {V : Type} (c : Nat) : List (Nat × V) → List V
  | [] => []
  | (e, v) :: ps => List.replicate (e - c) v ++ expandP e ps

/-- run ends are non-decreasing from `c` -/
def Mono {V : Type} : Nat → List (Nat × V) → Prop
  | _, [] => True
  | c, (e, _) :: ps => c ≤ e ∧ Mono e ps

theorem zipWith_replicate_append {α β γ : Type} (f : α → β → γ) (n : Nat) (x : α) (y : β) (A : List α) (B : List β) :
    List.zipWith f (List.replicate n x ++ A) (List.replicate n y ++ B) = List.replicate n (f x y) ++ List.zipWith f A B := by
  induction n with
  | zero => simp
  | succ n ih => simp [List.replicate_succ, ih]

theorem replicate_split {V : Type} (v : V) (c e e' : Nat) (h1 : c ≤ e) (h2 : e ≤ e') :
    List.replicate (e' - c) v = List.replicate (e - c) v ++ List.replicate (e' - e) v := by
  rw [List.replicate_append_replicate]; congr 1; omega

theorem zipRuns_dense {α β γ : Type} (f : α → β → γ) (as : List (Nat × α)) (bs : List (Nat × β)) :
    ∀ c, Mono c as → Mono c bs → expandP c (zipRuns f as bs) = List.zipWith f (expandP c as) (expandP c bs) := by
  fun_induction zipRuns f as bs with
  | case1 ea x as eb y bs hlt ih =>
    intro c ha hb
    obtain ⟨ha1, ha2⟩ := ha
    obtain ⟨hb1, hb2⟩ := hb
    simp only [expandP]
    rw [ih ea ha2 ⟨by omega, hb2⟩]
    simp only [expandP]
    rw [replicate_split y c ea eb ha1 (by omega), List.append_assoc, zipWith_replicate_append]
  | case2 ea x as eb y bs hnlt hlt ih =>
    intro c ha hb
    obtain ⟨ha1, ha2⟩ := ha
    obtain ⟨hb1, hb2⟩ := hb
    simp only [expandP]
    rw [ih eb ⟨by omega, ha2⟩ hb2]
    simp only [expandP]
    rw [replicate_split x c eb ea hb1 (by omega), List.append_assoc, zipWith_replicate_append]
  | case3 ea x as eb y bs hnlt hnlt2 ih =>
    intro c ha hb
    obtain ⟨ha1, ha2⟩ := ha
    obtain ⟨hb1, hb2⟩ := hb
    have heq : eb = ea := by omega
    subst heq
    simp only [expandP]
    rw [ih eb ha2 hb2, zipWith_replicate_append]
  | case4 as bs hne =>
    intro c _ _
    cases as with
    | nil => simp [expandP]
    | cons a as =>
      cases bs with
      | nil => simp [expandP]
      | cons b bs => exact (hne a.1 a.2 as b.1 b.2 bs rfl rfl).elim

theorem joinPairs_dense {V : Type} [BEq V] [LawfulBEq V] (ps : List (Nat × V)) : ∀ c, Mono c ps →
    expandP c (joinPairs ps) = expandP c ps := by
  induction ps with
  | nil => intro c _; rfl
  | cons p ps ih =>
    intro c hm
    obtain ⟨e, v⟩ := p
    cases ps with
    | nil => rfl
    | cons q ps =>
      obtain ⟨e', v'⟩ := q
      obtain ⟨h1, h2, h3⟩ := hm
      simp only [joinPairs]
      split
      · rename_i heq
        have hv : v = v' := eq_of_beq heq
        subst hv
        rw [ih c ⟨by omega, h3⟩]
        simp only [expandP]
        rw [replicate_split v c e e' h1 h2, List.append_assoc]
      · simp only [expandP]
        rw [ih e ⟨h2, h3⟩]
        simp only [expandP]

theorem joinPairs_sublist {V : Type} [BEq V] (ps : List (Nat × V)) : (joinPairs ps).Sublist ps := by
  induction ps with
  | nil => exact List.Sublist.slnil
  | cons p ps ih =>
    obtain ⟨e, v⟩ := p
    cases ps with
    | nil => exact List.Sublist.refl _
    | cons q ps =>
      obtain ⟨e', v'⟩ := q
      simp only [joinPairs]
      split
      · exact List.Sublist.cons _ ih
      · exact List.Sublist.cons₂ _ ih

/-- run ends strictly increasing and above `c` -/
def SMono {V : Type} (c : Nat) (ps : List (Nat × V)) : Prop := (c :: ps.map (·.1)).Pairwise (· < ·)

theorem SMono.mono {V : Type} {c : Nat} {ps : List (Nat × V)} (h : SMono c ps) : Mono c ps := by
  induction ps generalizing c with
  | nil => trivial
  | cons p ps ih =>
    obtain ⟨e, v⟩ := p
    simp only [SMono, List.map_cons] at h
    exact ⟨Nat.le_of_lt ((List.pairwise_cons.1 h).1 e (by simp)), ih (List.pairwise_cons.1 h).2⟩

theorem zipRuns_lower {α β γ : Type} (f : α → β → γ) (as : List (Nat × α)) (bs : List (Nat × β)) :
    ∀ c, SMono c as → SMono c bs → SMono c (zipRuns f as bs) := by
  fun_induction zipRuns f as bs with
  | case1 ea x as eb y bs hlt ih =>
    intro c ha hb
    simp only [SMono, List.map_cons] at ha hb ⊢
    have ha' := List.pairwise_cons.1 ha
    have hb' := List.pairwise_cons.1 hb
    have h1 := ih ea ha'.2 (List.pairwise_cons.2 ⟨fun z hz => by
      rcases List.mem_cons.1 hz with rfl | hz
      · exact hlt
      · have := (List.pairwise_cons.1 hb'.2).1 z hz; omega, hb'.2⟩)
    simp only [SMono] at h1
    refine List.pairwise_cons.2 ⟨?_, h1⟩
    intro z hz
    rcases List.mem_cons.1 hz with rfl | hz
    · exact ha'.1 _ (by simp)
    · have := (List.pairwise_cons.1 h1).1 z hz
      have := ha'.1 ea (by simp)
      omega
  | case2 ea x as eb y bs hnlt hlt ih =>
    intro c ha hb
    simp only [SMono, List.map_cons] at ha hb ⊢
    have ha' := List.pairwise_cons.1 ha
    have hb' := List.pairwise_cons.1 hb
    have h1 := ih eb (List.pairwise_cons.2 ⟨fun z hz => by
      rcases List.mem_cons.1 hz with rfl | hz
      · exact hlt
      · have := (List.pairwise_cons.1 ha'.2).1 z hz; omega, ha'.2⟩) hb'.2
    simp only [SMono] at h1
    refine List.pairwise_cons.2 ⟨?_, h1⟩
    intro z hz
    rcases List.mem_cons.1 hz with rfl | hz
    · exact hb'.1 _ (by simp)
    · have := (List.pairwise_cons.1 h1).1 z hz
      have := hb'.1 eb (by simp)
      omega
  | case3 ea x as eb y bs hnlt hnlt2 ih =>
    intro c ha hb
    have heq : eb = ea := by omega
    subst heq
    simp only [SMono, List.map_cons] at ha hb ⊢
    have ha' := List.pairwise_cons.1 ha
    have hb' := List.pairwise_cons.1 hb
    have h1 := ih eb ha'.2 hb'.2
    simp only [SMono] at h1
    refine List.pairwise_cons.2 ⟨?_, h1⟩
    intro z hz
    rcases List.mem_cons.1 hz with rfl | hz
    · exact ha'.1 _ (by simp)
    · have := (List.pairwise_cons.1 h1).1 z hz
      have := ha'.1 eb (by simp)
      omega
  | case4 as bs hne =>
    intro c _ _
    simp [SMono]

theorem pairsOf_of_WF {V : Type} (r : Rle V) (h : r.WF) :
    SMono 0 (pairsOf r) ∧ expandP 0 (pairsOf r) = r.toDense := by
  obtain ⟨events, values⟩ := r
  obtain ⟨hlen, hhead, hpw⟩ := h
  simp only at hlen hhead hpw
  cases events with
  | nil => simp at hhead
  | cons e0 es =>
    simp only [List.head?_cons, Option.some.injEq] at hhead
    subst hhead
    have hl : es.length = values.length := by simpa using hlen
    simp only [pairsOf, List.tail_cons, Rle.toDense]
    constructor
    · simp only [SMono]
      rw [List.map_fst_zip (by omega)]
      exact hpw
    · clear hpw hlen
      generalize (0 : Nat) = c
      induction es generalizing values c with
      | nil => cases values <;> simp [expandP, runs]
      | cons e1 es ih =>
        cases values with
        | nil => simp at hl
        | cons v vs =>
          simp only [List.zip_cons_cons, expandP, runs]
          rw [ih vs (by simpa using hl) e1]

theorem ofPairs_dense {V : Type} (ps : List (Nat × V)) : (ofPairs ps).toDense = expandP 0 ps := by
  simp only [ofPairs, Rle.toDense]
  generalize (0 : Nat) = c
  induction ps generalizing c with
  | nil => simp [runs, expandP]
  | cons p ps ih =>
    obtain ⟨e, v⟩ := p
    simp only [List.map_cons, runs, expandP, ih e]

/-- **ufunc homomorphism** for the specified engine: a binary ufunc on two run-length arrays expands to the
element-wise ufunc on the dense arrays; the result is again a well-formed run-length array -/
theorem ufunc_homomorphism {α β γ : Type} [BEq γ] [LawfulBEq γ] (f : α → β → γ) (a : Rle α) (b : Rle β)
    (ha : a.WF) (hb : b.WF) :
    (zipRle f a b).WF ∧ (zipRle f a b).toDense = List.zipWith f a.toDense b.toDense := by
  obtain ⟨ha1, ha2⟩ := pairsOf_of_WF a ha
  obtain ⟨hb1, hb2⟩ := pairsOf_of_WF b hb
  have hz := zipRuns_lower f _ _ 0 ha1 hb1
  constructor
  · refine ⟨by simp [zipRle, ofPairs], rfl, ?_⟩
    simp only [zipRle, ofPairs]
    simp only [SMono] at hz
    have hsub : (0 :: (joinPairs (zipRuns f (pairsOf a) (pairsOf b))).map (·.1)).Sublist
        (0 :: (zipRuns f (pairsOf a) (pairsOf b)).map (·.1)) :=
      List.Sublist.cons₂ _ ((joinPairs_sublist _).map _)
    exact List.Pairwise.sublist hsub hz
  · simp only [zipRle]
    rw [ofPairs_dense, joinPairs_dense _ 0 hz.mono, zipRuns_dense f _ _ 0 ha1.mono hb1.mono, ha2, hb2]

/-! ## reductions: sum and histogram -/

theorem sum_replicate_int (n : Nat) (v : Int) : (List.replicate n v).sum = (n : Int) * v := by
  induction n with
  | zero => simp
  | succ n ih =>
    rw [List.replicate_succ, List.sum_cons, ih]
    rw [show ((n + 1 : Nat) : Int) = (n : Int) + 1 by omega, Int.add_mul, Int.one_mul, Int.add_comm]

theorem sum_recs (recs : List (Rec Int)) : ∀ c, Contig c recs →
    (recs.map (fun x => ((x.2.1 : Int) - (x.1 : Int)) * x.2.2)).sum = (expandR recs).sum := by
  induction recs with
  | nil => intro c _; simp [expandR]
  | cons x recs ih =>
    intro c hc
    obtain ⟨s, e, v⟩ := x
    obtain ⟨rfl, hlt, hrest⟩ := hc
    have ih' := ih e hrest
    simp only [expandR, List.flatMap_cons] at ih' ⊢
    simp only [List.map_cons, List.sum_cons, List.sum_append, sum_replicate_int, ih']
    congr 2
    omega

/-- `np.sum` of a genomic array (Σ run length × value) equals the sum of the dense array -/
theorem sum_dense (r : Rle Int) (h : r.WF) : sumRle r = r.toDense.sum := by
  simp only [sumRle]
  rw [sum_recs _ 0 (contig_of_WF r h), expandR_runRecs]
  rfl

theorem hist_recs (p : Int → Bool) (recs : List (Rec Int)) : ∀ c, Contig c recs →
    ((recs.filter (fun x => p x.2.2)).map (fun x => (x.2.1 : Int) - (x.1 : Int))).sum =
      (((expandR recs).filter p).length : Int) := by
  induction recs with
  | nil => intro c _; simp [expandR]
  | cons x recs ih =>
    intro c hc
    obtain ⟨s, e, v⟩ := x
    obtain ⟨rfl, hlt, hrest⟩ := hc
    have ih' := ih e hrest
    simp only [expandR, List.flatMap_cons] at ih' ⊢
    simp only [List.filter_cons, List.filter_append, List.length_append]
    cases hp : p v with
    | true =>
      have : (List.replicate (e - s) v).filter p = List.replicate (e - s) v := by
        apply List.filter_eq_self.2
        intro a ha; rw [(List.mem_replicate.1 ha).2]; exact hp
      simp only [if_true, List.map_cons, List.sum_cons, ih', this, List.length_replicate]
      omega
    | false =>
      have : (List.replicate (e - s) v).filter p = [] := by
        apply List.filter_eq_nil_iff.2
        intro a ha; rw [(List.mem_replicate.1 ha).2]; simp [hp]
      simp only [Bool.false_eq_true, if_false, ih', this, List.length_nil]
      omega

/-- `np.histogram(array, bins)` (weights = run lengths) counts the bases of the dense array bin by bin -/
theorem hist_dense (r : Rle Int) (h : r.WF) (bins : List Int) : histRle r bins = specHist r.toDense bins := by
  simp only [histRle, specHist]
  apply List.map_congr_left
  intro j _
  rw [hist_recs (inBin bins j) _ 0 (contig_of_WF r h), expandR_runRecs]
  rfl

/-! ## from_intervals with an array of values (repaired code) -/

/-- strictly separated, non-empty records -/
def SepR {V : Type} (recs : List (Rec V)) : Prop :=
  recs.Pairwise (fun a b => a.2.1 < b.1) ∧ ∀ r ∈ recs, r.1 < r.2.1

theorem SepR.ok {V : Type} {recs : List (Rec V)} (h : SepR recs) : OkBg recs :=
  ⟨h.1.imp (fun h => Nat.le_of_lt h), h.2⟩

def ivOf {V : Type} (recs : List (Rec V)) : List C08.Iv := recs.map (fun r => (r.1, r.2.1))

theorem SepR.sep {V : Type} {recs : List (Rec V)} (h : SepR recs) : C08.Sep (ivOf recs) := by
  constructor
  · exact List.pairwise_map.2 h.1
  · intro iv hiv
    obtain ⟨r, hr, rfl⟩ := List.mem_map.1 hiv
    exact h.2 r hr

def dv {V : Type} (d : V) (recs : List (Rec V)) : List V := recs.flatMap (fun r => [d, r.2.2])

theorem interleave_dv {V : Type} (d : V) (recs : List (Rec V)) :
    interleave ((recs.map (·.2.2)).map (fun _ => d)) (recs.map (·.2.2)) = dv d recs := by
  induction recs with
  | nil => rfl
  | cons r recs ih => simp only [List.map_cons, interleave, dv, List.flatMap_cons, List.cons_append, List.nil_append] at ih ⊢; rw [ih]

def lastEndR {V : Type} : Nat → List (Rec V) → Nat
  | c, [] => c
  | _, (_, e, _) :: rest => lastEndR e rest

theorem lastEndR_eq {V : Type} (recs : List (Rec V)) : ∀ c, lastEndR c recs = ((recs.map (·.2.1)).getLast?).getD c := by
  induction recs with
  | nil => intro c; rfl
  | cons x recs ih =>
    intro c
    obtain ⟨s, e, v⟩ := x
    simp only [lastEndR, ih e]
    cases recs with
    | nil => rfl
    | cons y recs =>
      obtain ⟨w, hw⟩ : ∃ w, (List.map (fun x : Rec V => x.2.1) (y :: recs)).getLast? = some w :=
        ⟨_, List.getLast?_eq_some_getLast (by simp)⟩
      simp only [List.map_cons] at hw ⊢
      rw [List.getLast?_cons_cons, hw]; rfl

theorem runs_dv {V : Type} (d : V) (size : Nat) (recs : List (Rec V)) : ∀ (c : Nat) (post : List Nat) (postVals : List V),
    ((post = [] ∧ postVals = [] ∧ lastEndR c recs = size) ∨ (post = [size] ∧ postVals = [d])) →
    runs (c :: (interleave (recs.map (·.1)) (recs.map (·.2.1)) ++ post)) (dv d recs ++ postVals) = denseBg d size c recs := by
  induction recs with
  | nil =>
    intro c post postVals h
    rcases h with ⟨rfl, rfl, h⟩ | ⟨rfl, rfl⟩
    · simp only [lastEndR] at h; subst h
      simp [interleave, dv, runs, denseBg]
    · simp [interleave, dv, runs, denseBg]
  | cons x recs ih =>
    intro c post postVals h
    obtain ⟨s, e, v⟩ := x
    simp only [List.map_cons, interleave, dv, List.flatMap_cons, List.cons_append, List.nil_append, runs, denseBg]
    have := ih e post postVals (by simpa [lastEndR] using h)
    simp only [dv] at this
    rw [this]
    simp

theorem dv_length {V : Type} (d : V) (recs : List (Rec V)) : (dv d recs).length = 2 * recs.length := by
  induction recs with
  | nil => rfl
  | cons x xs ih =>
    simp only [dv, List.flatMap_cons, List.length_append, List.length_cons, List.length_nil] at ih ⊢
    rw [ih]; omega

theorem interleave_length' {V : Type} (recs : List (Rec V)) :
    (interleave (recs.map (·.1)) (recs.map (·.2.1))).length = 2 * recs.length := by
  induction recs with
  | nil => rfl
  | cons x xs ih => simp only [List.map_cons, interleave, List.length_cons, ih]; omega

/-- **from_intervals(values=array)**: separated intervals with per-interval values expand to the value under
each interval and the default elsewhere -/
theorem intervals_values_dense {V : Type} (d : V) (recs : List (Rec V)) (size : Nat) (hsz : 0 < size) (hsep : SepR recs)
    (hle : ∀ r ∈ recs, r.2.1 ≤ size) :
    let r := fromIntervalsArr (recs.map (·.1)) (recs.map (·.2.1)) size (recs.map (·.2.2)) d
    r.WF ∧ r.toDense = specDense d recs size := by
  intro r
  have hS : recs.map (·.1) = (ivOf recs).map (·.1) := by simp [ivOf]
  have hE : recs.map (·.2.1) = (ivOf recs).map (·.2) := by simp [ivOf]
  have hKle : ∀ iv ∈ ivOf recs, iv.2 ≤ size := by
    intro iv hiv
    obtain ⟨x, hx, rfl⟩ := List.mem_map.1 hiv
    exact hle x hx
  have hwf0 := C08.fromIntervals_WF (ivOf recs) size hsep.sep hKle hsz
  have hev : r.events = (fromIntervals ((ivOf recs).map (·.1)) ((ivOf recs).map (·.2)) size true false).events := by
    simp only [r, fromIntervalsArr, fromIntervals, hS, hE]
  -- the values, before truncation
  obtain ⟨post, postVals, hpost, hpv, htail⟩ : ∃ post postVals,
      post = (if (recs.map (·.2.1)).getLast? = some size then [] else [size]) ∧
      postVals = (if (recs.map (·.2.1)).getLast? = some size then [] else [d]) ∧
      ((post = [] ∧ postVals = [] ∧ lastEndR 0 recs = size) ∨ (post = [size] ∧ postVals = [d])) := by
    refine ⟨_, _, rfl, rfl, ?_⟩
    by_cases hl : (recs.map (·.2.1)).getLast? = some size
    · left; simp only [if_pos hl, true_and]; rw [lastEndR_eq, hl]; rfl
    · right; simp only [if_neg hl, and_self]
  have hpl : postVals.length = post.length := by
    rcases htail with ⟨rfl, rfl, _⟩ | ⟨rfl, rfl⟩ <;> rfl
  have hv1 : (if (recs.map (·.2.1)).getLast? = some size then dv d recs else dv d recs ++ [d]) = dv d recs ++ postVals := by
    rw [hpv]; split <;> simp
  have hstops : ∀ x ∈ recs, x.2.1 ≤ size := hle
  have hdense : denseBg d size 0 recs = specDense d recs size := by
    rw [denseBg_eq d size recs 0 (fun _ _ => Nat.zero_le _) hsep.ok hstops (Nat.zero_le _)]
    simp [specDense, List.range_eq_range']
  have hvals : r.values = (if (recs.map (·.1)).head? = some 0 then (dv d recs ++ postVals).tail else dv d recs ++ postVals).take
      (r.events.length - 1) := by
    simp only [r, fromIntervalsArr, interleave_dv, hv1]
  have hevents : r.events = (if (recs.map (·.1)).head? = some 0 then [] else [0]) ++
      interleave (recs.map (·.1)) (recs.map (·.2.1)) ++ post := by
    simp only [r, fromIntervalsArr, hpost]
  by_cases h0 : (recs.map (·.1)).head? = some 0
  · rw [if_pos h0] at hvals hevents
    cases recs with
    | nil => simp at h0
    | cons x rest =>
      obtain ⟨s, e, v⟩ := x
      simp only [List.map_cons, List.head?_cons, Option.some.injEq] at h0
      subst h0
      have hlen : r.events.length - 1 = (dv d ((0, e, v) :: rest) ++ postVals).tail.length := by
        rw [hevents]
        simp only [List.nil_append, List.length_append, interleave_length', List.length_tail, dv_length, hpl, List.length_cons]
      rw [hlen, List.take_length] at hvals
      have hvals' : r.values = v :: (dv d rest ++ postVals) := by
        rw [hvals]; simp [dv]
      have hevents' : r.events = 0 :: e :: (interleave (rest.map (·.1)) (rest.map (·.2.1)) ++ post) := by
        rw [hevents]; simp [interleave]
      refine ⟨⟨?_, hev ▸ hwf0.2.1, hev ▸ hwf0.2.2⟩, ?_⟩
      · rw [hvals', hevents']
        simp only [List.length_cons, List.length_append, interleave_length', dv_length, hpl]
      · simp only [Rle.toDense]
        rw [hvals', hevents', runs, runs_dv d size rest e post postVals (by simpa [lastEndR] using htail), ← hdense]
        simp [denseBg]
  · rw [if_neg h0] at hvals hevents
    have hlen : r.events.length - 1 = (dv d recs ++ postVals).length := by
      rw [hevents]
      simp only [List.length_append, interleave_length', dv_length, hpl, List.length_cons, List.length_nil]
      omega
    rw [hlen, List.take_length] at hvals
    refine ⟨⟨?_, hev ▸ hwf0.2.1, hev ▸ hwf0.2.2⟩, ?_⟩
    · rw [hvals, hevents]
      simp only [List.length_append, interleave_length', dv_length, hpl, List.length_cons, List.length_nil]
      omega
    · simp only [Rle.toDense]
      rw [hvals, hevents, List.append_assoc]
      simp only [List.singleton_append]
      rw [runs_dv d size recs 0 post postVals htail, hdense]

/-! ## the hypotheses are satisfiable by non-trivial values; the rule shipped before the repair -/

example : OkBg [((1 : Nat), (3 : Nat), (2 : Int)), (3, 4, 5), (6, 8, -1)] ∧ lastStop [((1 : Nat), (3 : Nat), (2 : Int)), (3, 4, 5), (6, 8, -1)] ≤ 9 := by
  unfold OkBg; decide

example : (fromBedgraph (0 : Int) [(1, 3, 2), (3, 4, 5), (6, 8, -1)] (some 9)).events = [0, 1, 3, 4, 6, 8, 9] ∧
    (fromBedgraph (0 : Int) [(1, 3, 2), (3, 4, 5), (6, 8, -1)] (some 9)).values = [0, 2, 5, 0, -1, 0] := by decide

example : (⟨[0, 1, 3, 4, 6, 8, 9], [0, 2, 5, 0, -1, 0]⟩ : Rle Int).WF := by decide

example : SepR [((0 : Nat), (2 : Nat), (7 : Int)), (3, 5, 1)] := by unfold SepR; decide

example : toArrayInt ⟨[0, 1, 3, 4], [-5, 2, -5]⟩ = [-5, 2, 2, -5] := by decide

example : (zipRle (fun (x y : Int) => x + y) ⟨[0, 2, 5], [1, 2]⟩ ⟨[0, 3, 5], [10, 20]⟩).toDense = [11, 11, 12, 22, 22] := by
  rw [(ufunc_homomorphism _ _ _ (by decide) (by decide)).2]; decide

/-- `Geometry.get_track` before the repair built the genome-wide array without the genome size: the array then
ends at the last record, i.e. it is not the dense array of a genome of size 3 (the slice taken for the chromosome
was then padded with the last value by npstructures) -/
theorem getTrackOld_unsound :
    (fromBedgraph (0 : Int) [(0, 1, 2)] none).toDense = [2] ∧ specDense (0 : Int) [(0, 1, 2)] 3 = [2, 0, 0] := by decide

/-! ## the genome-wide array of a bedGraph, seen chromosome by chromosome -/

def off (sizes : List Nat) (i : Nat) : Nat := (sizes.take i).sum

theorem offsFrom_getD (sizes : List Nat) : ∀ (acc i : Nat), i ≤ sizes.length →
    (offsFrom acc sizes).getD i 0 = acc + (sizes.take i).sum := by
  induction sizes with
  | nil => intro acc i h; have : i = 0 := by simpa using h
           subst this; simp [offsFrom]
  | cons s ss ih =>
    intro acc i h
    cases i with
    | zero => simp [offsFrom]
    | succ i =>
      simp only [offsFrom, List.getD_cons_succ, List.take_succ_cons, List.sum_cons]
      rw [ih (acc + s) i (by simpa using h)]; omega

theorem offsets_getD (sizes : List Nat) (i : Nat) (h : i ≤ sizes.length) : (offsets sizes).getD i 0 = off sizes i := by
  have := offsFrom_getD sizes 0 i h
  simp only [offsets, off]
  omega

theorem off_succ (sizes : List Nat) (i : Nat) (h : i < sizes.length) : off sizes (i + 1) = off sizes i + sizes.getD i 0 := by
  induction sizes generalizing i with
  | nil => simp at h
  | cons s ss ih =>
    cases i with
    | zero => simp [off]
    | succ i =>
      have := ih i (by simpa using h)
      simp only [off, List.take_succ_cons, List.sum_cons, List.getD_cons_succ] at this ⊢
      omega

theorem off_mono (sizes : List Nat) (i j : Nat) (h : i ≤ j) : off sizes i ≤ off sizes j := by
  induction sizes generalizing i j with
  | nil => simp [off]
  | cons s ss ih =>
    cases i with
    | zero => simp [off]
    | succ i =>
      cases j with
      | zero => omega
      | succ j =>
        have := ih i j (by omega)
        simp only [off, List.take_succ_cons, List.sum_cons] at this ⊢
        omega

theorem off_next_le (sizes : List Nat) (i j : Nat) (hi : i < sizes.length) (h : i < j) :
    off sizes i + sizes.getD i 0 ≤ off sizes j := by
  rw [← off_succ sizes i hi]; exact off_mono sizes (i + 1) j h

theorem off_total (sizes : List Nat) : off sizes sizes.length = sizes.sum := by simp [off]

/-- records carry a chromosome index; sorted by chromosome, inside their chromosome, and sorted and
non-overlapping within a chromosome -/
structure OkTrack {V : Type} (sizes : List Nat) (recs : List (Nat × Rec V)) : Prop where
  chromSorted : recs.Pairwise (fun a b => a.1 ≤ b.1)
  inRange : ∀ x ∈ recs, x.1 < sizes.length ∧ x.2.1 < x.2.2.1 ∧ x.2.2.1 ≤ sizes.getD x.1 0
  ordered : recs.Pairwise (fun a b => a.1 = b.1 → a.2.2.1 ≤ b.2.1)

def localRecs {V : Type} (recs : List (Nat × Rec V)) (i : Nat) : List (Rec V) :=
  (recs.filter (fun x => x.1 == i)).map (·.2)

def toGlobal' {V : Type} (sizes : List Nat) (recs : List (Nat × Rec V)) : List (Rec V) :=
  recs.map (fun x => (off sizes x.1 + x.2.1, off sizes x.1 + x.2.2.1, x.2.2.2))

theorem toGlobal_eq {V : Type} (sizes : List Nat) (recs : List (Nat × Rec V)) (h : ∀ x ∈ recs, x.1 < sizes.length) :
    toGlobal sizes recs = toGlobal' sizes recs := by
  simp only [toGlobal, toGlobal']
  apply List.map_congr_left
  intro x hx
  rw [offsets_getD sizes x.1 (Nat.le_of_lt (h x hx))]

theorem global_ok {V : Type} (sizes : List Nat) (recs : List (Nat × Rec V)) (h : OkTrack sizes recs) :
    OkBg (toGlobal' sizes recs) ∧ ∀ r ∈ toGlobal' sizes recs, r.2.1 ≤ sizes.sum := by
  refine ⟨⟨?_, ?_⟩, ?_⟩
  · simp only [toGlobal']
    refine List.pairwise_map.2 ?_
    have hall : recs.Pairwise (fun a b => a ∈ recs ∧ b ∈ recs) := by
      exact List.Pairwise.imp_of_mem (fun ha hb _ => ⟨ha, hb⟩) (List.pairwise_of_forall (fun _ _ => trivial))
    have := (h.chromSorted.and h.ordered).and hall
    refine this.imp ?_
    intro a b hab
    obtain ⟨⟨h1, h2⟩, ha, hb⟩ := hab
    have hra := h.inRange a ha
    have hrb := h.inRange b hb
    simp only
    by_cases hc : a.1 = b.1
    · have := h2 hc; rw [hc]; omega
    · have := off_next_le sizes a.1 b.1 hra.1 (by omega)
      omega
  · intro r hr
    simp only [toGlobal'] at hr
    obtain ⟨x, hx, rfl⟩ := List.mem_map.1 hr
    have := h.inRange x hx
    simp only; omega
  · intro r hr
    simp only [toGlobal'] at hr
    obtain ⟨x, hx, rfl⟩ := List.mem_map.1 hr
    have hx' := h.inRange x hx
    have h1 := off_next_le sizes x.1 sizes.length hx'.1 hx'.1
    rw [off_total] at h1
    simp only; omega

/-- a base of chromosome `i` sees exactly the records of chromosome `i` -/
theorem valueAt_global {V : Type} (zero : V) (sizes : List Nat) (recs : List (Nat × Rec V))
    (hr : ∀ x ∈ recs, x.1 < sizes.length ∧ x.2.2.1 ≤ sizes.getD x.1 0) (i p : Nat) (hi : i < sizes.length)
    (hp : p < sizes.getD i 0) :
    valueAt zero (toGlobal' sizes recs) (off sizes i + p) = valueAt zero (localRecs recs i) p := by
  induction recs with
  | nil => rfl
  | cons x recs ih =>
    have ih' := ih (fun y hy => hr y (by simp [hy]))
    have hx := hr x (by simp)
    simp only [toGlobal', localRecs, List.map_cons, List.filter_cons] at ih' ⊢
    rw [valueAt_cons]
    by_cases hc : x.1 = i
    · subst hc
      simp only [beq_self_eq_true, if_true, List.map_cons]
      rw [valueAt_cons, ih']
      by_cases hin : x.2.1 ≤ p ∧ p < x.2.2.1
      · rw [if_pos (by omega), if_pos hin]
      · rw [if_neg (by omega), if_neg hin]
    · have hne : (x.1 == i) = false := by simpa using hc
      simp only [hne, Bool.false_eq_true, if_false]
      rw [if_neg ?_, ih']
      rcases Nat.lt_or_gt_of_ne hc with hlt | hgt
      · have := off_next_le sizes x.1 i hx.1 hlt; omega
      · have := off_next_le sizes i x.1 hi hgt; omega

theorem chromSlices_eq {V : Type} (sizes : List Nat) (r : Rle V) :
    chromSlices sizes r = (List.range sizes.length).map (fun i => sliceRle r (off sizes i) (off sizes i + sizes.getD i 0)) := by
  simp only [chromSlices]
  apply List.map_congr_left
  intro i hi
  rw [offsets_getD sizes i (Nat.le_of_lt (List.mem_range.1 hi))]

theorem drop_take_map_range {β : Type} (f : Nat → β) (n a k : Nat) (h : a + k ≤ n) :
    (((List.range n).map f).drop a).take k = (List.range k).map (fun p => f (a + p)) := by
  rw [← List.map_drop, ← List.map_take, List.range_eq_range', List.drop_range', List.take_range'_of_length_ge (by omega)]
  rw [List.range'_eq_map_range, List.map_map]
  apply List.map_congr_left
  intro p _
  simp

/-- **`Genome.get_track(bedgraph).to_dict()`**: the genome-wide run-length array built from the records shifted
by their chromosome offsets is well formed, and the slice of chromosome `i` expands to exactly the dense array
of the records of chromosome `i` (value under each record, `zero` elsewhere, length = chromosome size) -/
theorem track_dense {V : Type} (zero : V) (sizes : List Nat) (recs : List (Nat × Rec V)) (h : OkTrack sizes recs)
    (hsz : 0 < sizes.sum) (i : Nat) (hi : i < sizes.length) :
    (fromBedgraph zero (toGlobal sizes recs) (some sizes.sum)).WF ∧
    (sliceRle (fromBedgraph zero (toGlobal sizes recs) (some sizes.sum)) (off sizes i) (off sizes i + sizes.getD i 0)).toDense
      = specDense zero (localRecs recs i) (sizes.getD i 0) := by
  rw [toGlobal_eq sizes recs (fun x hx => (h.inRange x hx).1)]
  obtain ⟨hok, hle⟩ := global_ok sizes recs h
  have hlast : lastStop (toGlobal' sizes recs) ≤ sizes.sum := by
    simp only [lastStop]
    cases hl : (toGlobal' sizes recs).getLast? with
    | none => simp
    | some r => simpa using hle r (List.mem_of_getLast? hl)
  obtain ⟨hwf, hd⟩ := bedgraph_dense zero (toGlobal' sizes recs) sizes.sum (fun _ => hsz) hok hlast
  refine ⟨hwf, ?_⟩
  have hfit : off sizes i + sizes.getD i 0 ≤ sizes.sum := by
    have := off_next_le sizes i sizes.length hi hi
    rwa [off_total] at this
  by_cases hz : sizes.getD i 0 = 0
  · rw [hz]; simp [sliceRle, Rle.toDense, runs, specDense]
  · rw [(slice_dense _ hwf (off sizes i) (off sizes i + sizes.getD i 0)).2.1, hd]
    simp only [specDense]
    rw [show off sizes i + sizes.getD i 0 - off sizes i = sizes.getD i 0 by omega,
      drop_take_map_range _ sizes.sum (off sizes i) (sizes.getD i 0) hfit]
    apply List.map_congr_left
    intro p hp
    exact valueAt_global zero sizes recs (fun x hx => ⟨(h.inRange x hx).1, (h.inRange x hx).2.2⟩) i p hi (List.mem_range.1 hp)

example : OkTrack [4, 3, 5] [((0 : Nat), ((1 : Nat), (4 : Nat), (2 : Int))), (2, (0, 2, 5)), (2, (2, 5, -1))] := by
  constructor <;> decide

theorem expandP_unit {V : Type} (d : List V) : ∀ c, expandP c ((d.zipIdx c).map (fun x => (x.2 + 1, x.1))) = d ∧
    Mono c ((d.zipIdx c).map (fun x => (x.2 + 1, x.1))) := by
  induction d with
  | nil => intro c; exact ⟨rfl, trivial⟩
  | cons v d ih =>
    intro c
    obtain ⟨h1, h2⟩ := ih (c + 1)
    simp only [List.zipIdx_cons, List.map_cons, expandP, Mono]
    refine ⟨?_, Nat.le_succ c, h2⟩
    rw [h1]; simp

/-- the canonical run-length form of a dense array expands back to it (pileup leaves of the expression trees) -/
theorem canonRle_dense {V : Type} [BEq V] [LawfulBEq V] (d : List V) : (canonRle d).toDense = d := by
  simp only [canonRle]
  rw [ofPairs_dense, joinPairs_dense _ 0 (expandP_unit d 0).2]
  exact (expandP_unit d 0).1

/-- the rule shipped between fix 6347e85 and fix bfb8d84 converted the default to the dtype of `values`: with integer
values and default 0.5 (values in halves: 4 = 2.0, 1 = 0.5; `cast` = truncation to an integer) the leading background
became 0 while the trailing one stayed 0.5 -/
theorem fromIntervalsArrOld_unsound :
    (fromIntervalsArrOld (fun x : Int => x / 2 * 2) [1] [3] 5 [4] 1).toDense = [0, 4, 4, 1, 1] ∧
    specDense (1 : Int) [(1, 3, 4)] 5 = [1, 4, 4, 1, 1] ∧
    (fromIntervalsArr [1] [3] 5 [(4 : Int)] 1).toDense = [1, 4, 4, 1, 1] := by decide

/-! ## spec-level characterisations in plain list vocabulary -/

theorem expandR_length_contig {V : Type} (recs : List (Rec V)) : ∀ c, Contig c recs →
    (expandR recs).length + c = lastEndR c recs := by
  induction recs with
  | nil => intro c _; simp [expandR, lastEndR]
  | cons x recs ih =>
    intro c hc
    obtain ⟨s, e, v⟩ := x
    obtain ⟨rfl, hlt, hrest⟩ := hc
    have := ih e hrest
    simp only [expandR, List.flatMap_cons, List.length_append, List.length_replicate, lastEndR] at this ⊢
    omega

theorem lastEndR_runRecs {V : Type} : ∀ (es : List Nat) (vs : List V) (e0 : Nat), es.length = vs.length →
    lastEndR e0 (runRecs (e0 :: es) vs) = ((e0 :: es).getLast?).getD 0 := by
  intro es
  induction es with
  | nil => intro vs e0 _; cases vs <;> simp [runRecs, lastEndR]
  | cons e1 es ih =>
    intro vs e0 h
    cases vs with
    | nil => simp at h
    | cons v vs =>
      simp only [runRecs, lastEndR]
      rw [ih vs e1 (by simpa using h), List.getLast?_cons_cons]

/-- the dense array has exactly `len` entries (contig / genome size) -/
theorem toDense_length {V : Type} (r : Rle V) (h : r.WF) : r.toDense.length = r.len := by
  have hC := contig_of_WF r h
  obtain ⟨events, values⟩ := r
  obtain ⟨hlen, hhead, hpw⟩ := h
  simp only at hlen hhead hpw hC
  cases events with
  | nil => simp at hhead
  | cons e0 es =>
    simp only [List.head?_cons, Option.some.injEq] at hhead
    subst hhead
    have h1 := expandR_length_contig _ 0 hC
    rw [expandR_runRecs, lastEndR_runRecs es values 0 (by simpa using hlen)] at h1
    simp only [Rle.toDense, Rle.len]
    cases es with
    | nil => simpa using h1
    | cons e1 es => simpa using h1

theorem expandR_getElem {V : Type} (recs : List (Rec V)) : ∀ c, Contig c recs → ∀ p, c ≤ p →
    (expandR recs)[p - c]? = (recs.find? (fun x => decide (x.1 ≤ p) && decide (p < x.2.1))).map (·.2.2) := by
  induction recs with
  | nil => intro c _ p _; simp [expandR]
  | cons x recs ih =>
    intro c hc p hp
    obtain ⟨s, e, v⟩ := x
    obtain ⟨rfl, hlt, hrest⟩ := hc
    simp only [expandR, List.flatMap_cons, List.find?_cons] at ih ⊢
    by_cases hpe : p < e
    · rw [List.getElem?_append_left (by simp; omega), List.getElem?_replicate, if_pos (by omega)]
      simp [hp, hpe]
    · rw [List.getElem?_append_right (by simp; omega)]
      simp only [List.length_replicate]
      have := ih e hrest p (by omega)
      rw [show p - s - (e - s) = p - e by omega, this]
      have : (decide (s ≤ p) && decide (p < e)) = false := by simp; omega
      simp [this]

/-- the dense value at base `p` is the value of the run that contains `p` (`t[locations]`) -/
theorem toDense_getElem {V : Type} (r : Rle V) (h : r.WF) (p : Nat) : r.toDense[p]? = valueAtPos r p := by
  have := expandR_getElem _ 0 (contig_of_WF r h) p (Nat.zero_le _)
  rw [expandR_runRecs] at this
  simpa [valueAtPos, Rle.toDense] using this

/-- `t[intervals]`: every row is the dense slice under the interval, reversed on the `-` strand when stranded -/
theorem extractRows_spec {V : Type} (r : Rle V) (h : r.WF) (rows : List (Nat × Nat × Bool)) (stranded : Bool) :
    extractRows r rows stranded = rows.map (fun x =>
      let d := (r.toDense.drop x.1).take (x.2.1 - x.1)
      if stranded && !x.2.2 then d.reverse else d) := by
  simp only [extractRows]
  apply List.map_congr_left
  intro x _
  rw [(slice_dense r h x.1 x.2.1).2.1]

/-- slicing the whole array changes nothing -/
theorem sliceRle_full {V : Type} (r : Rle V) (h : r.WF) : (sliceRle r 0 r.len).toDense = r.toDense := by
  rw [(slice_dense r h 0 r.len).2.1, List.drop_zero, Nat.sub_zero, ← toDense_length r h, List.take_length]

/-! ## lossless: back to records and forth again -/

theorem denseBg_contig {V : Type} (zero : V) (size : Nat) (recs : List (Rec V)) : ∀ c, Contig c recs →
    lastEndR c recs = size → denseBg zero size c recs = expandR recs := by
  induction recs with
  | nil => intro c _ h; simp only [lastEndR] at h; subst h; simp [denseBg, expandR]
  | cons x recs ih =>
    intro c hc h
    obtain ⟨s, e, v⟩ := x
    obtain ⟨rfl, hlt, hrest⟩ := hc
    simp only [denseBg, expandR, List.flatMap_cons, Nat.sub_self, List.replicate_zero, List.nil_append]
    rw [ih e hrest (by simpa [lastEndR] using h)]
    rfl

theorem contig_okbg {V : Type} (recs : List (Rec V)) (c : Nat) (h : Contig c recs) : OkBg recs :=
  ⟨(contig_nonoverlap recs c h).1, (contig_nonoverlap recs c h).2⟩

/-- **lossless round trip**: converting a chromosome slice back to bedGraph records (`get_data`) and building a
run-length array from those records again (`from_bedgraph`) gives exactly the same dense array -/
theorem roundtrip_records {V : Type} (zero : V) (r : Rle V) (h : r.WF) (a b : Nat) (hab : a < b) (hb : b ≤ r.len) :
    (fromBedgraph zero (dataRecs (sliceRle r a b)) (some (b - a))).toDense = (sliceRle r a b).toDense := by
  obtain ⟨hC, _, _, hE⟩ := back_conversion r h a b
  obtain ⟨_, hD, _⟩ := slice_dense r h a b
  have hlenE : (expandR (dataRecs (sliceRle r a b))).length = b - a := by
    rw [hE, List.length_take, List.length_drop, toDense_length r h]; omega
  have hlast : lastEndR 0 (dataRecs (sliceRle r a b)) = b - a := by
    have := expandR_length_contig _ 0 hC; omega
  have hok := contig_okbg _ 0 hC
  have hstops : ∀ x ∈ dataRecs (sliceRle r a b), x.2.1 ≤ b - a := by
    intro x hx
    have h1 := stops_le_last _ hok x hx
    have h2 : lastStop (dataRecs (sliceRle r a b)) = lastEndR 0 (dataRecs (sliceRle r a b)) := by
      rw [lastEndR_eq]
      simp only [lastStop]
      cases hl : (dataRecs (sliceRle r a b)).getLast? with
      | none => simp [List.getLast?_eq_none_iff.1 hl]
      | some y => simp [List.getLast?_map, hl]
    omega
  have hls : lastStop (dataRecs (sliceRle r a b)) ≤ b - a := by
    simp only [lastStop]
    cases hl : (dataRecs (sliceRle r a b)).getLast? with
    | none => simp
    | some y => simpa using hstops y (List.mem_of_getLast? hl)
  rw [(bedgraph_dense zero _ (b - a) (fun _ => by omega) hok hls).2, hD, ← hE]
  rw [← denseBg_contig zero (b - a) _ 0 hC hlast]
  rw [denseBg_eq zero (b - a) _ 0 (fun _ _ => Nat.zero_le _) hok hstops (Nat.zero_le _)]
  simp [specDense, List.range_eq_range']

/-- no two neighbouring runs carry the same value -/
def NoAdjEq {V : Type} [BEq V] : List (Nat × V) → Prop
  | (_, v) :: (e', v') :: rest => (v == v') = false ∧ NoAdjEq ((e', v') :: rest)
  | _ => True

theorem joinPairs_head {V : Type} [BEq V] [LawfulBEq V] (e : Nat) (v : V) (ps : List (Nat × V)) :
    ∃ e' tl, joinPairs ((e, v) :: ps) = (e', v) :: tl := by
  induction ps generalizing e with
  | nil => exact ⟨e, [], rfl⟩
  | cons q ps ih =>
    obtain ⟨e2, v2⟩ := q
    simp only [joinPairs]
    split
    · rename_i h
      have hv : v = v2 := eq_of_beq h
      subst hv
      exact ih e2
    · exact ⟨e, _, rfl⟩

/-- **maximal runs**: after a binary ufunc (`join_runs`) neighbouring runs always differ in value, so the records
reported by `get_data` for such a result are the maximal runs of the dense array -/
theorem joinPairs_maximal {V : Type} [BEq V] [LawfulBEq V] (ps : List (Nat × V)) : NoAdjEq (joinPairs ps) := by
  induction ps with
  | nil => trivial
  | cons p ps ih =>
    obtain ⟨e, v⟩ := p
    cases ps with
    | nil => trivial
    | cons q ps =>
      obtain ⟨e2, v2⟩ := q
      simp only [joinPairs]
      split
      · exact ih
      · rename_i hne
        obtain ⟨e', tl, htl⟩ := joinPairs_head e2 v2 ps
        rw [htl] at ih ⊢
        exact ⟨by simpa using hne, ih⟩

theorem zipRle_maximal {α β γ : Type} [BEq γ] [LawfulBEq γ] (f : α → β → γ) (a : Rle α) (b : Rle β) :
    NoAdjEq (pairsOf (zipRle f a b)) := by
  have : pairsOf (zipRle f a b) = joinPairs (zipRuns f (pairsOf a) (pairsOf b)) := by
    simp only [zipRle, pairsOf, ofPairs, List.tail_cons]
    exact (List.zip_of_prod rfl rfl).symm
  rw [this]; exact joinPairs_maximal _

example : (⟨[0, 2, 5, 9], [(1 : Int), 4, 1]⟩ : Rle Int).WF ∧ (1 : Nat) < 7 ∧ 7 ≤ (⟨[0, 2, 5, 9], [(1 : Int), 4, 1]⟩ : Rle Int).len := by decide

example : dataRecs (sliceRle (⟨[0, 2, 5, 9], [(1 : Int), 4, 1]⟩ : Rle Int) 1 7) = [(0, 1, 1), (1, 4, 4), (4, 6, 1)] := by decide

/-! ## `join_runs` under an equality test that is not Lean's `=` (IEEE `==` on floats) -/

theorem joinPairsBy_beq {V : Type} [BEq V] (ps : List (Nat × V)) : joinPairsBy (· == ·) ps = joinPairs ps := by
  induction ps with
  | nil => rfl
  | cons p ps ih =>
    obtain ⟨e, v⟩ := p
    cases ps with
    | nil => rfl
    | cons q ps =>
      obtain ⟨e', v'⟩ := q
      simp only [joinPairsBy, joinPairs, ih]

theorem zipRleBy_beq {α β γ : Type} [BEq γ] (f : α → β → γ) (a : Rle α) (b : Rle β) :
    zipRleBy (· == ·) f a b = zipRle f a b := by
  simp only [zipRleBy, zipRle, joinPairsBy_beq]

/-- two lists agree position by position up to `R` -/
def RelL {V : Type} (R : V → V → Prop) (l₁ l₂ : List V) : Prop :=
  l₁.length = l₂.length ∧ ∀ p ∈ l₁.zip l₂, R p.1 p.2

theorem RelL.refl {V : Type} {R : V → V → Prop} (hr : ∀ a, R a a) (l : List V) : RelL R l l := by
  refine ⟨rfl, ?_⟩
  intro p hp
  induction l with
  | nil => simp at hp
  | cons a l ih =>
    simp only [List.zip_cons_cons, List.mem_cons] at hp
    rcases hp with rfl | hp
    · exact hr a
    · exact ih hp

theorem RelL.append {V : Type} {R : V → V → Prop} {a b c d : List V} (h1 : RelL R a b) (h2 : RelL R c d) :
    RelL R (a ++ c) (b ++ d) := by
  refine ⟨by simp [h1.1, h2.1], ?_⟩
  intro p hp
  rw [List.zip_append h1.1] at hp
  rcases List.mem_append.1 hp with hp | hp
  · exact h1.2 p hp
  · exact h2.2 p hp

theorem RelL.trans {V : Type} {R : V → V → Prop} (ht : ∀ a b c, R a b → R b c → R a c) :
    ∀ {a b c : List V}, RelL R a b → RelL R b c → RelL R a c := by
  intro a
  induction a with
  | nil =>
    intro b c h1 h2
    have : b = [] := by cases b with | nil => rfl | cons _ _ => exact absurd h1.1 (by simp)
    subst this
    have : c = [] := by cases c with | nil => rfl | cons _ _ => have := h2.1; simp at this
    subst this
    exact ⟨rfl, by simp⟩
  | cons x a ih =>
    intro b c h1 h2
    cases b with
    | nil => have := h1.1; simp at this
    | cons y b =>
      cases c with
      | nil => have := h2.1; simp at this
      | cons z c =>
        have h1' : RelL R a b := ⟨by simpa using h1.1, fun p hp => h1.2 p (by simp [hp])⟩
        have h2' : RelL R b c := ⟨by simpa using h2.1, fun p hp => h2.2 p (by simp [hp])⟩
        have := ih h1' h2'
        refine ⟨by simp [this.1], ?_⟩
        intro p hp
        simp only [List.zip_cons_cons, List.mem_cons] at hp
        rcases hp with rfl | hp
        · exact ht _ _ _ (h1.2 (x, y) (by simp)) (h2.2 (y, z) (by simp))
        · exact this.2 p hp

theorem RelL.replicate {V : Type} {R : V → V → Prop} (n : Nat) {a b : V} (h : R a b) :
    RelL R (List.replicate n a) (List.replicate n b) := by
  refine ⟨by simp, ?_⟩
  intro p hp
  induction n with
  | zero => simp at hp
  | succ n ih =>
    simp only [List.replicate_succ, List.zip_cons_cons, List.mem_cons] at hp
    rcases hp with rfl | hp
    · exact h
    · exact ih hp

/-- equal, or equal under the test -/
def EqOr {V : Type} (eq : V → V → Bool) (a b : V) : Prop := a = b ∨ eq a b = true

theorem EqOr.refl {V : Type} (eq : V → V → Bool) (a : V) : EqOr eq a a := Or.inl rfl

theorem EqOr.trans' {V : Type} {eq : V → V → Bool} (ht : ∀ a b c, eq a b = true → eq b c = true → eq a c = true) :
    ∀ a b c, EqOr eq a b → EqOr eq b c → EqOr eq a c := by
  intro a b c h1 h2
  rcases h1 with rfl | h1
  · exact h2
  · rcases h2 with rfl | h2
    · exact Or.inr h1
    · exact Or.inr (ht a b c h1 h2)

/-- joining runs whose values are equal *under the test* changes the dense meaning only up to that test: every
position keeps a value that the test (an equivalence: symmetric, transitive) identifies with the original one -/
theorem joinPairsBy_rel {V : Type} (eq : V → V → Bool) (hs : ∀ a b, eq a b = true → eq b a = true)
    (ht : ∀ a b c, eq a b = true → eq b c = true → eq a c = true) (ps : List (Nat × V)) : ∀ c, Mono c ps →
    RelL (EqOr eq) (expandP c (joinPairsBy eq ps)) (expandP c ps) := by
  induction ps with
  | nil => intro c _; exact RelL.refl (EqOr.refl eq) _
  | cons p ps ih =>
    intro c hm
    obtain ⟨e, v⟩ := p
    cases ps with
    | nil => exact RelL.refl (EqOr.refl eq) _
    | cons q ps =>
      obtain ⟨e', v'⟩ := q
      obtain ⟨h1, h2, h3⟩ := hm
      simp only [joinPairsBy]
      split
      · rename_i heq
        have ih' := ih c ⟨by omega, h3⟩
        refine RelL.trans (EqOr.trans' ht) ih' ?_
        simp only [expandP]
        rw [replicate_split v' c e e' h1 h2, List.append_assoc]
        exact RelL.append (RelL.replicate _ (Or.inr (hs _ _ heq))) (RelL.refl (EqOr.refl eq) _)
      · simp only [expandP]
        exact RelL.append (RelL.refl (EqOr.refl eq) _) (ih e ⟨h2, h3⟩)

theorem joinPairsBy_sublist {V : Type} (eq : V → V → Bool) (ps : List (Nat × V)) : (joinPairsBy eq ps).Sublist ps := by
  induction ps with
  | nil => exact List.Sublist.slnil
  | cons p ps ih =>
    obtain ⟨e, v⟩ := p
    cases ps with
    | nil => exact List.Sublist.refl _
    | cons q ps =>
      obtain ⟨e', v'⟩ := q
      simp only [joinPairsBy]
      split
      · exact List.Sublist.cons _ ih
      · exact List.Sublist.cons₂ _ ih

/-- **ufunc homomorphism for any equality test** (the float engine: `join_runs` compares with IEEE `==`): the result
is a well-formed run-length array and its dense meaning is the element-wise ufunc of the dense operands at every
position *up to the test* — for IEEE `==` on finite values: up to the sign of zero. With Lean's `=` this is
`ufunc_homomorphism`. -/
theorem ufunc_homomorphism_rel {α β γ : Type} (eq : γ → γ → Bool) (hs : ∀ a b, eq a b = true → eq b a = true)
    (ht : ∀ a b c, eq a b = true → eq b c = true → eq a c = true) (f : α → β → γ) (a : Rle α) (b : Rle β)
    (ha : a.WF) (hb : b.WF) :
    (zipRleBy eq f a b).WF ∧ RelL (EqOr eq) (zipRleBy eq f a b).toDense (List.zipWith f a.toDense b.toDense) := by
  obtain ⟨ha1, ha2⟩ := pairsOf_of_WF a ha
  obtain ⟨hb1, hb2⟩ := pairsOf_of_WF b hb
  have hz := zipRuns_lower f _ _ 0 ha1 hb1
  constructor
  · refine ⟨by simp [zipRleBy, ofPairs], rfl, ?_⟩
    simp only [zipRleBy, ofPairs]
    simp only [SMono] at hz
    have hsub : (0 :: (joinPairsBy eq (zipRuns f (pairsOf a) (pairsOf b))).map (·.1)).Sublist
        (0 :: (zipRuns f (pairsOf a) (pairsOf b)).map (·.1)) :=
      List.Sublist.cons₂ _ ((joinPairsBy_sublist eq _).map _)
    exact List.Pairwise.sublist hsub hz
  · simp only [zipRleBy]
    rw [ofPairs_dense, ← ha2, ← hb2, ← zipRuns_dense f _ _ 0 ha1.mono hb1.mono]
    exact joinPairsBy_rel eq hs ht _ 0 hz.mono

/-! ## expression trees: evaluation on run-length arrays = the same tree on dense arrays -/

def GArr.dense (g : GArr) : List Int × Bool := (g.rle.toDense, g.isBool)

/-- **tree homomorphism** (int64 / bool genomic arrays): for every expression tree over
{+, −, *, <, >, ==, &, |, ~, unary −, scalars on either side} and well-formed leaves, evaluating the tree on the
run-length arrays succeeds exactly when the dense evaluation is well typed, gives a well-formed array of the same
boolean-ness, and its dense meaning is the dense evaluation -/
theorem eval_homomorphism (leaves : List GArr) (hl : ∀ g ∈ leaves, g.rle.WF) (e : Expr) :
    (e.eval leaves).map GArr.dense = e.denote (leaves.map GArr.dense) ∧
    ∀ g, e.eval leaves = some g → g.rle.WF := by
  induction e with
  | leaf i =>
    constructor
    · simp only [Expr.eval, Expr.denote, List.getElem?_map]
    · intro g hg
      simp only [Expr.eval] at hg
      exact hl g (List.mem_of_getElem? hg)
  | un f a ih =>
    obtain ⟨ih1, ih2⟩ := ih
    simp only [Expr.eval, Expr.denote]
    rw [← ih1]
    cases ha : a.eval leaves with
    | none => simp
    | some x =>
      have hx := ih2 x ha
      cases ht : f.typ x.isBool with
      | none => simp [GArr.dense, ht]
      | some t =>
        constructor
        · simp [GArr.dense, ht, mapRle_dense]
        · intro g hg
          simp only [Option.map_some, GArr.dense, ht, Option.bind_eq_bind, Option.bind_some, Option.pure_def,
            Option.some.injEq] at hg
          rw [← hg]; exact mapRle_WF _ _ hx
  | bin f a b iha ihb =>
    obtain ⟨ia1, ia2⟩ := iha
    obtain ⟨ib1, ib2⟩ := ihb
    simp only [Expr.eval, Expr.denote]
    rw [← ia1, ← ib1]
    cases ha : a.eval leaves with
    | none => simp
    | some x =>
      cases hb : b.eval leaves with
      | none => simp
      | some y =>
        have hx := ia2 x ha
        have hy := ib2 y hb
        have hh := ufunc_homomorphism f.fn x.rle y.rle hx hy
        cases ht : f.typ x.isBool y.isBool with
        | none => simp [GArr.dense, ht]
        | some t =>
          constructor
          · simp [GArr.dense, ht, hh.2]
          · intro g hg
            simp only [Option.map_some, GArr.dense, ht, Option.bind_eq_bind, Option.bind_some, Option.pure_def,
              Option.some.injEq] at hg
            rw [← hg]; exact hh.1
  | scr f a k ih =>
    obtain ⟨ih1, ih2⟩ := ih
    simp only [Expr.eval, Expr.denote]
    rw [← ih1]
    cases ha : a.eval leaves with
    | none => simp
    | some x =>
      have hx := ih2 x ha
      cases ht : f.typ x.isBool false with
      | none => simp [GArr.dense, ht]
      | some t =>
        constructor
        · simp [GArr.dense, ht, mapRle_dense]
        · intro g hg
          simp only [Option.map_some, GArr.dense, ht, Option.bind_eq_bind, Option.bind_some, Option.pure_def,
            Option.some.injEq] at hg
          rw [← hg]; exact mapRle_WF _ _ hx
  | scl f k a ih =>
    obtain ⟨ih1, ih2⟩ := ih
    simp only [Expr.eval, Expr.denote]
    rw [← ih1]
    cases ha : a.eval leaves with
    | none => simp
    | some x =>
      have hx := ih2 x ha
      cases ht : f.typ false x.isBool with
      | none => simp [GArr.dense, ht]
      | some t =>
        constructor
        · simp [GArr.dense, ht, mapRle_dense]
        · intro g hg
          simp only [Option.map_some, GArr.dense, ht, Option.bind_eq_bind, Option.bind_some, Option.pure_def,
            Option.some.injEq] at hg
          rw [← hg]; exact mapRle_WF _ _ hx

/-- on boolean arrays (values 0 / 1) the model's `&`, `|`, `~` are NumPy's: logical and bitwise meaning coincide -/
theorem bool_ops_on_bits : ∀ x ∈ [(0 : Int), 1], ∀ y ∈ [(0 : Int), 1],
    BinOp.and.fn x y = (if x = 1 ∧ y = 1 then 1 else 0) ∧ BinOp.or.fn x y = (if x = 1 ∨ y = 1 then 1 else 0) ∧
    UnOp.not.fn x = 1 - x := by decide

example : (Expr.bin .and (.scr .gt (.leaf 0) 1) (.un .not (.leaf 1))).eval
    [⟨⟨[0, 2, 5], [1, 3]⟩, false⟩, ⟨⟨[0, 4, 5], [1, 0]⟩, true⟩] ≠ none := by decide

theorem RelL.map {V W : Type} {R : V → V → Prop} {S : W → W → Prop} (g : V → W) (hg : ∀ a b, R a b → S (g a) (g b)) :
    ∀ {l₁ l₂ : List V}, RelL R l₁ l₂ → RelL S (l₁.map g) (l₂.map g) := by
  intro l₁
  induction l₁ with
  | nil => intro l₂ h; cases l₂ with
    | nil => exact ⟨rfl, by simp⟩
    | cons _ _ => have := h.1; simp at this
  | cons a l₁ ih =>
    intro l₂ h
    cases l₂ with
    | nil => have := h.1; simp at this
    | cons b l₂ =>
      have h' : RelL R l₁ l₂ := ⟨by simpa using h.1, fun p hp => h.2 p (by simp [hp])⟩
      have := ih h'
      refine ⟨by simp [this.1], ?_⟩
      intro p hp
      simp only [List.map_cons, List.zip_cons_cons, List.mem_cons] at hp
      rcases hp with rfl | hp
      · exact hg _ _ (h.2 (a, b) (by simp))
      · exact this.2 p hp

theorem RelL.zipWith {V : Type} {R : V → V → Prop} (f : V → V → V) (hf : ∀ a a' b b', R a a' → R b b' → R (f a b) (f a' b')) :
    ∀ {x x' y y' : List V}, RelL R x x' → RelL R y y' → RelL R (List.zipWith f x y) (List.zipWith f x' y') := by
  intro x
  induction x with
  | nil => intro x' y y' hx _; cases x' with
    | nil => exact ⟨by simp, by simp⟩
    | cons _ _ => have := hx.1; simp at this
  | cons a x ih =>
    intro x' y y' hx hy
    cases x' with
    | nil => have := hx.1; simp at this
    | cons a' x' =>
      cases y with
      | nil => cases y' with
        | nil => exact ⟨by simp, by simp⟩
        | cons _ _ => have := hy.1; simp at this
      | cons b y =>
        cases y' with
        | nil => have := hy.1; simp at this
        | cons b' y' =>
          have hx' : RelL R x x' := ⟨by simpa using hx.1, fun p hp => hx.2 p (by simp [hp])⟩
          have hy' : RelL R y y' := ⟨by simpa using hy.1, fun p hp => hy.2 p (by simp [hp])⟩
          have := ih hx' hy'
          refine ⟨by simp [this.1], ?_⟩
          intro p hp
          simp only [List.zipWith_cons_cons, List.zip_cons_cons, List.mem_cons] at hp
          rcases hp with rfl | hp
          · exact hf _ _ _ _ (hx.2 (a, a') (by simp)) (hy.2 (b, b') (by simp))
          · exact this.2 p hp

/-- **tree homomorphism for the float engine** (generic in the value type): if the engine's equality test is an
equivalence that the operations respect — IEEE `==` with `+ − *` and negation on finite doubles: equal up to the sign of
zero — then evaluating any arithmetic tree on run-length arrays gives a well-formed array whose dense meaning agrees
with the dense evaluation at every position *up to the test*. The hypotheses about IEEE arithmetic cannot be proved in
Lean (`Float` is opaque); they are what the correspondence (bitwise comparison with NumPy after mapping −0.0 to +0.0)
exercises. With Lean's `=` as the test the conclusion is equality (`ufunc_homomorphism`). -/
theorem fexpr_homomorphism {V : Type} (eq : V → V → Bool) (ng : V → V) (op : FOp → V → V → V)
    (hs : ∀ a b, eq a b = true → eq b a = true) (ht : ∀ a b c, eq a b = true → eq b c = true → eq a c = true)
    (hop : ∀ f a a' b b', EqOr eq a a' → EqOr eq b b' → EqOr eq (op f a b) (op f a' b'))
    (hng : ∀ a a', EqOr eq a a' → EqOr eq (ng a) (ng a'))
    (leaves : List (Rle V)) (hl : ∀ r ∈ leaves, r.WF) (e : FExpr V) :
    (e.evalG eq ng op leaves).WF ∧
    RelL (EqOr eq) (e.evalG eq ng op leaves).toDense (e.denoteG ng op (leaves.map Rle.toDense)) := by
  induction e with
  | leaf i =>
    simp only [FExpr.evalG, FExpr.denoteG]
    by_cases hi : i < leaves.length
    · have h1 : leaves.getD i ⟨[0], []⟩ = leaves[i] := by simp [List.getD, hi]
      have h2 : (leaves.map Rle.toDense).getD i [] = leaves[i].toDense := by simp [List.getD, hi]
      rw [h1, h2]
      exact ⟨hl _ (List.getElem_mem hi), RelL.refl (EqOr.refl eq) _⟩
    · have h1 : leaves.getD i ⟨[0], []⟩ = ⟨[0], []⟩ := by simp [List.getD, List.getElem?_eq_none (Nat.le_of_not_lt hi)]
      have h2 : (leaves.map Rle.toDense).getD i [] = [] := by
        simp [List.getD, List.getElem?_eq_none (Nat.le_of_not_lt hi)]
      rw [h1, h2]
      exact ⟨⟨rfl, rfl, by simp⟩, RelL.refl (EqOr.refl eq) _⟩
  | neg a ih =>
    simp only [FExpr.evalG, FExpr.denoteG]
    exact ⟨mapRle_WF _ _ ih.1, by rw [mapRle_dense]; exact RelL.map ng hng ih.2⟩
  | bin f a b iha ihb =>
    simp only [FExpr.evalG, FExpr.denoteG]
    obtain ⟨h1, h2⟩ := ufunc_homomorphism_rel eq hs ht (op f) _ _ iha.1 ihb.1
    exact ⟨h1, RelL.trans (EqOr.trans' ht) h2 (RelL.zipWith (op f) (hop f) iha.2 ihb.2)⟩
  | scr f a k ih =>
    simp only [FExpr.evalG, FExpr.denoteG]
    exact ⟨mapRle_WF _ _ ih.1, by
      rw [mapRle_dense]
      exact RelL.map _ (fun x y h => hop f x y k k h (EqOr.refl eq k)) ih.2⟩

/-- the hypotheses are satisfiable: integers with `x ≡ y (mod 4)` as the (non-trivial) equality test, which `+ − *`
and negation respect -/
example : (∀ a b : Int, (a % 4 == b % 4) = true → (b % 4 == a % 4) = true) ∧
    (∀ a b c : Int, (a % 4 == b % 4) = true → (b % 4 == c % 4) = true → (a % 4 == c % 4) = true) := by
  constructor
  · intro a b h; simp only [beq_iff_eq] at h ⊢; omega
  · intro a b c h1 h2; simp only [beq_iff_eq] at h1 h2 ⊢; omega

/-- inside the array (`b ≤ len`, the only region where `sliceRle` is the specification of npstructures — beyond it
npstructures pads with the last value, which was defect 84d3e59) a slice has exactly `b − a` entries -/
theorem slice_length {V : Type} (r : Rle V) (h : r.WF) (a b : Nat) (hab : a ≤ b) (hb : b ≤ r.len) :
    (sliceRle r a b).toDense.length = b - a := by
  rw [(slice_dense r h a b).2.1, List.length_take, List.length_drop, toDense_length r h]; omega

/-- **end to end `to_dict()`** for any word type with an xor (`Bool`/`xor`, 64-bit words/`Nat.xor`): the array that
`Genome.get_track(bedgraph).to_dict()[chromosome i]` computes — records shifted by chromosome offsets, one genome-wide
run-length array, slice, xor-diff / scatter / xor-accumulate — is the dense array of chromosome i's records -/
theorem to_dict_dense {V : Type} (op : V → V → V) (zero : V) (hz : ∀ a, op a zero = a) (hxx : ∀ a b, op a (op a b) = b)
    (sizes : List Nat) (recs : List (Nat × Rec V)) (h : OkTrack sizes recs) (hsz : 0 < sizes.sum) (i : Nat)
    (hi : i < sizes.length) :
    (sliceRle (fromBedgraph zero (toGlobal sizes recs) (some sizes.sum)) (off sizes i) (off sizes i + sizes.getD i 0)).toArray op zero
      = specDense zero (localRecs recs i) (sizes.getD i 0) := by
  obtain ⟨hwf, hd⟩ := track_dense zero sizes recs h hsz i hi
  rw [C08.toArray_dense op zero hz hxx _ (slice_dense _ hwf _ _).1, hd]

theorem list_eq_map_range {β : Type} (f : Nat → β) (l : List β) (n : Nat) (hl : l.length = n)
    (h : ∀ p, p < n → l[p]? = some (f p)) : (List.range n).map f = l := by
  apply List.ext_getElem?
  intro p
  by_cases hp : p < n
  · rw [h p hp]; simp [hp]
  · have h1 : l[p]? = none := List.getElem?_eq_none (by omega)
    rw [h1]; simp; omega

/-- **boolean round trip, list level**: the intervals `get_data()` reports for a boolean chromosome slice are non-empty,
in increasing order, non-overlapping, inside the chromosome, and the mask of those intervals is the dense slice -/
theorem back_conversion_bool_list (r : Rle Bool) (h : r.WF) (a b : Nat) (hab : a ≤ b) (hb : b ≤ r.len) :
    let ivs := dataIntervals (sliceRle r a b)
    ivs.Pairwise (fun x y => x.2 ≤ y.1) ∧ (∀ x ∈ ivs, x.1 < x.2) ∧
    (List.range (b - a)).map (fun p => C08.covered ivs p) = (r.toDense.drop a).take (b - a) := by
  intro ivs
  obtain ⟨hC, hP, hN, hE⟩ := back_conversion r h a b
  refine ⟨?_, ?_, ?_⟩
  · simp only [ivs, dataIntervals]
    refine List.pairwise_map.2 (List.Pairwise.filter _ ?_)
    exact hP
  · intro x hx
    simp only [ivs, dataIntervals] at hx
    obtain ⟨y, hy, rfl⟩ := List.mem_map.1 hx
    exact hN y (List.mem_filter.1 hy).1
  · have hlen : ((r.toDense.drop a).take (b - a)).length = b - a := by
      rw [List.length_take, List.length_drop, toDense_length r h]; omega
    apply list_eq_map_range _ _ _ hlen
    intro p hp
    have := back_conversion_bool r h a b p
    rw [this]
    have hp' : p < ((r.toDense.drop a).take (b - a)).length := by omega
    rw [List.getElem?_eq_getElem hp']
    simp

example : (⟨[0, 2, 5, 9], [true, false, true]⟩ : Rle Bool).WF ∧
    dataIntervals (sliceRle (⟨[0, 2, 5, 9], [true, false, true]⟩ : Rle Bool) 1 7) = [(0, 1), (4, 6)] := by decide

end C09
