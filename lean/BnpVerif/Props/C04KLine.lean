import BnpVerif.Props.C04Build
namespace C04
open PyIdx

/-! ### k-line formats (FASTQ, two-line FASTA): an entry of K lines is `dumpLine 10 lines` -/

theorem posFrom_congr (p q : Nat → Bool) (h : ∀ b, p b = q b) (k : Nat) (l : Bytes) : posFrom p k l = posFrom q k l := by
  induction l generalizing k with
  | nil => rfl
  | cons x xs ih => simp only [posFrom, h x, ih]

/-- rows tile the data: record i is exactly block i, fields stay inside their record -/
def TileOK : Nat → List Bytes → List Row → Prop
  | k, b :: bs, r :: rs =>
    r.eS = k ∧ r.eE = k + b.length ∧ r.fS.length = r.fL.length ∧ (∀ s ∈ r.fS, k ≤ s) ∧
    (∀ p ∈ List.zip r.fS r.fL, p.1 + p.2 ≤ k + b.length) ∧ TileOK (k + b.length) bs rs
  | _, [], [] => True
  | _, _, _ => False

theorem tile_spec (blocks : List Bytes) :
    ∀ (rows : List Row) (Pfx : Bytes), TileOK Pfx.length blocks rows →
      (rows.map (absRow (Pfx ++ blocks.flatten))).map (·.raw) = blocks ∧
      (∀ r ∈ rows, RowWF (Pfx ++ blocks.flatten).length r) ∧ rows.length = blocks.length := by
  induction blocks with
  | nil =>
    intro rows Pfx h
    cases rows with
    | nil => simp
    | cons r rs => simp [TileOK] at h
  | cons b bs ih =>
    intro rows Pfx h
    cases rows with
    | nil => simp [TileOK] at h
    | cons r rs =>
      obtain ⟨h1, h2, h3, h4, h5, h6⟩ := h
      have h6' : TileOK (Pfx ++ b).length bs rs := by simpa [List.length_append] using h6
      obtain ⟨i1, i2, i3⟩ := ih rs (Pfx ++ b) h6'
      have hdata : Pfx ++ (b :: bs).flatten = Pfx ++ b ++ bs.flatten := by simp [List.append_assoc]
      rw [hdata]
      refine ⟨?_, ?_, by simp [i3]⟩
      · simp only [List.map_cons, i1]
        congr 1
        unfold absRow
        simp only
        rw [h1, h2]
        have : Pfx.length + b.length - Pfx.length = b.length := by omega
        rw [this]
        have hh := slice_append_mid Pfx b bs.flatten 0 b.length (by omega)
        rw [Nat.add_zero] at hh
        rw [hh, slice_zero_all]
      · intro x hx
        simp only [List.mem_cons] at hx
        rcases hx with rfl | hx
        · refine ⟨by omega, by simp; omega, h3, by rw [h1]; exact h4, by rw [h2]; exact h5⟩
        · exact i2 x hx

def kGuard (G : List (List Nat)) : Bool := ((G.head?).map (fun r0 => decide (r0.headD 0 < 1))).getD true

/-- the line-end table after `OneLineBuffer._modify_for_carriage_return` -/
def kEnds (raw : Bytes) (K : Nat) (G : List (List Nat)) : List (List Nat) :=
  if (!kGuard G && ((G.take K).any (fun r => byteAt raw (r.headD 0 - 1) == 13))) then
    G.map (·.map (fun e => if byteAt raw (e - 1) == 13 then e - 1 else e))
  else G

/-- what `OneLineBuffer.from_raw_buffer` constructs from the dump of a list of K-line entries -/
def kExt (K : Nat) (offs : List Nat) (entries : List (List Bytes)) : Ext :=
  { data := dumpFile 10 entries,
    fStart := (startGroups 10 0 entries).map (fun r => List.zipWith (· + ·) r offs),
    fLen := List.zipWith (fun ss es => List.zipWith (fun s e => e - s) ss es)
      ((startGroups 10 0 entries).map (fun r => List.zipWith (· + ·) r offs)) (kEnds (dumpFile 10 entries) K (lineGroups 10 0 entries)),
    eStart := (startGroups 10 0 entries).map (·.headD 0),
    eEnd := (lineGroups 10 0 entries).map (fun r => r.getLastD 0 + 1),
    contiguous := true }

theorem getLastD_of_getLast? {α} (l : List α) (x d : α) (h : l.getLast? = some x) : l.getLastD d = x := by
  rw [List.getLastD_eq_getLast?, h]; rfl

theorem buildKLine_eq (K : Nat) (hK : 0 < K) (offs : List Nat) (entries : List (List Bytes)) (hne : entries ≠ [])
    (h : CleanTable 10 K entries) :
    buildKLine K offs (dumpFile 10 entries) = some (kExt K offs entries) := by
  obtain ⟨raw, hraw⟩ : ∃ raw, raw = dumpFile 10 entries := ⟨_, rfl⟩
  obtain ⟨G, hG⟩ : ∃ G, G = lineGroups 10 0 entries := ⟨_, rfl⟩
  obtain ⟨S, hS⟩ : ∃ S, S = startGroups 10 0 entries := ⟨_, rfl⟩
  have hd : posFrom (· == 10) 0 raw = G.flatten := by
    rw [posFrom_congr (· == 10) (fun b => b == 10 || b == 10) (by intro b; simp), hraw, hG]
    exact posFrom_dumpFile 10 K hK entries h 0
  have hl : G.flatten.getLast? = some (raw.length - 1) := by
    rw [← hd, hraw]; exact lastNl_dumpFile 10 entries hne
  have hGall : ∀ g ∈ G, g.length = K := by rw [hG]; exact lineGroups_all_length 10 K hK entries h 0
  have hSall : ∀ g ∈ S, g.length = K := by rw [hS]; exact startGroups_all_length 10 K hK entries h 0
  have hGlen : G.length = entries.length := by rw [hG]; exact lineGroups_length 10 0 entries
  have hSlen : S.length = entries.length := by rw [hS]; exact startGroups_length 10 0 entries
  have hflen : G.flatten.length = entries.length * K := by rw [flatten_length_const K G hGall, hGlen]
  have hents : 0 < entries.length := by cases entries with | nil => exact absurd rfl hne | cons _ _ => simp
  have hrawpos : 0 < raw.length := by
    obtain ⟨X, hX⟩ := dumpFile_ends_nl 10 entries hne
    rw [hraw, hX]; simp
  have hnotlt : (decide (G.flatten.length < K) || K == 0) = false := by
    have : K ≤ entries.length * K := Nat.le_mul_of_pos_left _ hents
    have hK0 : (K == 0) = false := by simp; omega
    simp [hflen, hK0]; omega
  have htakeall : G.flatten.take (G.flatten.length - G.flatten.length % K) = G.flatten := by
    rw [hflen, Nat.mul_mod_left, Nat.sub_zero, ← hflen, List.take_length]
  have hlast : G.flatten.getLastD 0 = raw.length - 1 := getLastD_of_getLast? _ _ _ hl
  have htake : raw.take (raw.length - 1 + 1) = raw := by
    have : raw.length - 1 + 1 = raw.length := by omega
    rw [this, List.take_length]
  have hfuel : entries.length ≤ G.flatten.length := by
    rw [hflen]; exact Nat.le_mul_of_pos_right _ hK
  have hGne : G.flatten ≠ [] := by intro e; rw [e] at hl; simp at hl
  have hdrop : (0 :: G.flatten.map (· + 1)).dropLast = 0 :: G.flatten.dropLast.map (· + 1) := by
    have : G.flatten.map (· + 1) ≠ [] := by simpa using hGne
    rw [List.dropLast_cons_of_ne_nil this, List.map_dropLast]
  have hSchunk : chunksOf K G.flatten.length (0 :: G.flatten.dropLast.map (· + 1)) = S := by
    rw [hG, starts_groups 10 entries hne 0, ← hS]
    exact chunksOf_flatten K hK S hSall _ (by rw [hSlen]; rw [hG] at hfuel; exact hfuel)
  have hGchunk : chunksOf K G.flatten.length G.flatten = G :=
    chunksOf_flatten K hK G hGall _ (by rw [hGlen]; exact hfuel)
  unfold buildKLine
  simp only [← hraw, hd, hnotlt, htakeall, hlast, htake, hdrop, hSchunk, hGchunk, Bool.false_eq_true, if_false]
  unfold kExt kEnds kGuard
  rw [← hraw, ← hG, ← hS]
  cases G.head? <;> rfl

/-- line-end tables that never exceed the true newline positions -/
def LeOK : List (List Nat) → List (List Nat) → Prop
  | E :: Es, g :: gs => E.length = g.length ∧ (∀ j, E.getD j 0 ≤ g.getD j 0) ∧ LeOK Es gs
  | [], [] => True
  | _, _ => False

/-- the per-line start offsets (1 for the header character, 0 otherwise) stay inside the line (or on its newline) -/
def OffsOK (offs : List Nat) (entries : List (List Bytes)) : Prop :=
  ∀ l ∈ entries, ∀ j, j < l.length → offs.getD j 0 ≤ (l.getD j []).length + 1

theorem tile_rows (offs : List Nat) (entries : List (List Bytes)) (hne : ∀ l ∈ entries, l ≠ []) (ho : OffsOK offs entries) :
    ∀ (Es : List (List Nat)) (k : Nat) (data : Bytes) (c : Bool), LeOK Es (lineGroups 10 k entries) →
    TileOK k (entries.map (dumpLine 10))
      (Ext.mk data ((startGroups 10 k entries).map (fun r => List.zipWith (· + ·) r offs))
        (List.zipWith (fun ss es => List.zipWith (fun s e => e - s) ss es)
          ((startGroups 10 k entries).map (fun r => List.zipWith (· + ·) r offs)) Es)
        ((startGroups 10 k entries).map (·.headD 0)) ((lineGroups 10 k entries).map (fun r => r.getLastD 0 + 1)) c).rows := by
  induction entries with
  | nil =>
    intro Es k data c hle
    cases Es with
    | nil => simp [Ext.rows, startGroups, lineGroups, TileOK]
    | cons E Es => simp [lineGroups, LeOK] at hle
  | cons l ls ih =>
    intro Es k data c hle
    cases Es with
    | nil => simp [lineGroups, LeOK] at hle
    | cons E Es =>
      have hl := hne l (by simp)
      simp only [lineGroups, LeOK] at hle
      obtain ⟨hE, hEle, hrest⟩ := hle
      have ih' := ih (fun x hx => hne x (by simp [hx])) (fun x hx => ho x (by simp [hx])) Es (k + (dumpLine 10 l).length) data c hrest
      unfold Ext.rows at ih' ⊢
      simp only at ih' ⊢
      simp only [startGroups, lineGroups, List.zipWith_cons_cons, List.map_cons, List.zip_cons_cons, TileOK]
      have h1 := lineStarts_closed k l hl
      have h2 := lineDelims_closed k l hl
      have h3 := dumpLine_length 10 l k hl
      have hDlen := lineDelims_length k l hl
      rw [h1]
      refine ⟨?_, by omega, ?_, ?_, ?_, ih'⟩
      · cases l with
        | nil => exact absurd rfl hl
        | cons f r => rfl
      · simp only [List.length_zipWith, offsFrom_length, hE, hDlen]; omega
      · intro s hs
        obtain ⟨j, hj, hsj⟩ := List.getElem_of_mem hs
        simp only [List.length_zipWith, offsFrom_length] at hj
        rw [← hsj]
        simp only [List.getElem_zipWith]
        have := offsFrom_ge k l _ (List.getElem_mem (by rw [offsFrom_length]; omega : j < (offsFrom k l).length))
        omega
      · intro p hp
        obtain ⟨j, hj, hpj⟩ := List.getElem_of_mem hp
        simp only [List.length_zip, List.length_zipWith, offsFrom_length, hE, hDlen] at hj
        have hjl : j < l.length := by omega
        have hjo : j < offs.length := by omega
        have hj1 : j < (offsFrom k l).length := by rw [offsFrom_length]; exact hjl
        have hjE : j < E.length := by rw [hE, hDlen]; exact hjl
        have hjD : j < (lineDelims k l).length := by rw [hDlen]; exact hjl
        rw [← hpj]
        simp only [List.getElem_zip, List.getElem_zipWith]
        have hb := offs_bound 10 l k j hjl
        have hle := hEle j
        have hoff := ho l (by simp) j hjl
        have hDj : (lineDelims k l).getD j 0 = (offsFrom k l).getD j 0 + (l.getD j []).length := by
          rw [h2]
          simp [List.getD_eq_getElem?_getD, List.getElem?_zipWith, List.getElem?_eq_getElem hj1, List.getElem?_eq_getElem hjl]
        simp only [List.getD_eq_getElem?_getD, List.getElem?_eq_getElem hj1, List.getElem?_eq_getElem hjE,
          List.getElem?_eq_getElem hjl, List.getElem?_eq_getElem hjo, List.getElem?_eq_getElem hjD, Option.getD_some] at hb hle hoff hDj
        omega

theorem LeOK_refl : ∀ (G : List (List Nat)), LeOK G G
  | [] => trivial
  | _ :: gs => ⟨rfl, fun _ => Nat.le_refl _, LeOK_refl gs⟩

theorem LeOK_map (f : Nat → Nat) (hf : ∀ e, f e ≤ e) : ∀ (G : List (List Nat)), LeOK (G.map (·.map f)) G
  | [] => trivial
  | g :: gs => by
    refine ⟨by simp, ?_, LeOK_map f hf gs⟩
    intro j
    simp only [List.getD_eq_getElem?_getD, List.getElem?_map]
    cases g[j]? with
    | none => simp
    | some x => simp [hf x]

theorem kEnds_le (raw : Bytes) (K : Nat) (G : List (List Nat)) : LeOK (kEnds raw K G) G := by
  unfold kEnds
  split
  · exact LeOK_map _ (by intro e; split <;> omega) G
  · exact LeOK_refl G

/-- **C04.build_kline_records** — for EVERY list of entries of K lines each (no newline inside a line; the per-line start
offsets stay inside their line), the extractor `OneLineBuffer.from_raw_buffer` constructs (FASTQ: K = 4, two-line FASTA:
K = 2; LF or CRLF) satisfies the invariant of the program theorems and its records are exactly the entries' bytes -/
theorem build_kline_records (K : Nat) (hK : 0 < K) (offs : List Nat) (entries : List (List Bytes)) (hne : entries ≠ [])
    (h : CleanTable 10 K entries) (ho : OffsOK offs entries) :
    ∃ e, buildKLine K offs (dumpFile 10 entries) = some e ∧ Inv e ∧ e.abs.map (·.raw) = entries.map (dumpLine 10) := by
  refine ⟨kExt K offs entries, buildKLine_eq K hK offs entries hne h, ?_⟩
  have hlne : ∀ l ∈ entries, l ≠ [] := by
    intro l hl e; have := (h l hl).1; rw [e] at this; simp at this; omega
  have htile := tile_rows offs entries hlne ho (kEnds (dumpFile 10 entries) K (lineGroups 10 0 entries)) 0
    (dumpFile 10 entries) true (kEnds_le _ K _)
  obtain ⟨s1, s2, s3⟩ := tile_spec (entries.map (dumpLine 10)) (kExt K offs entries).rows [] htile
  simp only [List.nil_append] at s1 s2
  have hwf : WF (kExt K offs entries) := by
    refine ⟨?_, fun r hr => s2 r hr⟩
    have hlen : (kEnds (dumpFile 10 entries) K (lineGroups 10 0 entries)).length = entries.length := by
      unfold kEnds; split <;> simp [lineGroups_length]
    unfold LenWF kExt
    simp only [List.length_map, List.length_zipWith, startGroups_length, lineGroups_length, hlen, Nat.min_self]
    exact ⟨trivial, trivial, trivial⟩
  have habs : (kExt K offs entries).abs.map (·.raw) = entries.map (dumpLine 10) := s1
  refine ⟨⟨hwf, ?_⟩, habs⟩
  intro _
  unfold specBytes
  rw [habs]
  rfl

/-- **C04.passthrough_kline** — end to end for FASTQ / two-line FASTA (LF or CRLF): for EVERY list of tables of K-line
entries and EVERY program of selections and in-between writes over the pass-through extractor, the bytes handed to the
writer are the selected entries' SOURCE BYTES in the selected order (or an index error exactly when lists fail) -/
theorem passthrough_kline (K : Nat) (hK : 0 < K) (offs : List Nat)
    (tables : List (List (List Bytes))) (hne : ∀ t ∈ tables, t ≠ []) (h : ∀ t ∈ tables, CleanTable 10 K t)
    (ho : ∀ t ∈ tables, OffsOK offs t) (p : Prog) :
    (∀ t ∈ tables, buildKLine K offs (dumpFile 10 t) = some (kExt K offs t)) ∧
    (p.evalExt (tables.map (kExt K offs))).map Ext.bytes =
      (p.evalSpec (tables.map (·.map (dumpLine 10)))).map List.flatten := by
  refine ⟨fun t ht => buildKLine_eq K hK offs t (hne t ht) (h t ht), ?_⟩
  have hspec : ∀ t ∈ tables, Inv (kExt K offs t) ∧ (kExt K offs t).abs.map (·.raw) = t.map (dumpLine 10) := by
    intro t ht
    obtain ⟨e, he, hi, hr⟩ := build_kline_records K hK offs t (hne t ht) (h t ht) (ho t ht)
    rw [buildKLine_eq K hK offs t (hne t ht) (h t ht)] at he
    simp only [Option.some.injEq] at he
    subst he
    exact ⟨hi, hr⟩
  have hinv : ∀ e ∈ tables.map (kExt K offs), Inv e := by
    intro e he
    simp only [List.mem_map] at he
    obtain ⟨t, ht, rfl⟩ := he
    exact (hspec t ht).1
  rw [program_bytes _ hinv p]
  have hraws : tables.map (·.map (dumpLine 10)) = ((tables.map (kExt K offs)).map Ext.abs).map (·.map (·.raw)) := by
    simp only [List.map_map]
    apply List.map_congr_left
    intro t ht
    simp only [Function.comp]
    exact ((hspec t ht).2).symm
  rw [hraws, evalSpec_map]
  cases p.evalSpec ((tables.map (kExt K offs)).map Ext.abs) with
  | none => rfl
  | some recs => simp [specBytes]

/-! non-vacuity: a FASTQ entry with a '+name' line is four newline-free lines; the header offset 1 stays inside '@r1 d' -/
example : CleanTable 10 4 [["@r1 d".toList.map Char.toNat, "ACGT".toList.map Char.toNat, "+r1 d".toList.map Char.toNat, "IIII".toList.map Char.toNat]] := by
  intro l hl
  simp only [List.mem_cons, List.not_mem_nil, or_false] at hl
  subst hl
  refine ⟨rfl, ?_⟩
  intro f hf
  simp only [List.mem_cons, List.not_mem_nil, or_false] at hf
  rcases hf with rfl | rfl | rfl | rfl <;> intro b hb <;> revert b <;> decide

example : OffsOK [1, 0, 0, 0] [["@r1 d".toList.map Char.toNat, "ACGT".toList.map Char.toNat, "+r1 d".toList.map Char.toNat, "IIII".toList.map Char.toNat]] := by
  intro l hl j hj
  simp only [List.mem_cons, List.not_mem_nil, or_false] at hl
  subst hl
  have : j < 4 := hj
  rcases j with _ | _ | _ | _ | j <;> first | decide | omega

end C04
