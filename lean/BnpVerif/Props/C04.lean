import BnpVerif.Props.C04Core
import BnpVerif.Props.C04Build
import BnpVerif.Props.C04KLine
import BnpVerif.Props.C04Eager
import BnpVerif.Props.C04Sam
import BnpVerif.Props.C04Bam
import BnpVerif.Props.C04Cr
import BnpVerif.Props.C04Laws
import BnpVerif.Props.C04Write
import BnpVerif.Props.C04Fields
/-! C04 property theorems: `C04Core` (refinement of the extractor to a list of records, programs,
fields, modified writes, BAM, checker soundness, refutation of the shipped record-end rule) and
`C04Build` (the construction from a raw chunk, for all well-formed delimited files, LF/CRLF/mixed) and
`C04KLine` (the same for the k-line formats FASTQ / two-line FASTA). The audited theorems
are listed in `Audit/C04.lean`. `C04Write`: modified writes about the Model functions the driver runs
(`Ext.writeModified`, `writeRowsModified`). `C04Fields`: SOURCE-LEVEL field text (FASTQ/FASTA lines without header byte / CR, SAM
columns and tags, VCF rest-of-line, last column on LF/CRLF/mixed files) and the bridge to the driver's `evalTab`. -/
