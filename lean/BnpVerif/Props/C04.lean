import BnpVerif.Model.C04
namespace C04
end C04
