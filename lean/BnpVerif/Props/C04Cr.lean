import BnpVerif.Props.C04Build
/-! C04 — what the LAST column of a CRLF (or mixed) file parses to: its text without the trailing CR. -/
namespace C04
open PyIdx

/-- a field without its trailing carriage return -/
def dropCR (f : Bytes) : Bytes := if f.getLast? = some 13 then f.dropLast else f

theorem slice_take {α} (d : List α) (s m n : Nat) (h : m ≤ n) : slice d s m = (slice d s n).take m := by
  unfold slice
  rw [List.take_take, Nat.min_eq_left h]

theorem byteAt_of_slice (d f : Bytes) (s i : Nat) (h : slice d s f.length = f) (hi : i < f.length) : byteAt d (s + i) = f[i] := by
  have : (slice d s f.length)[i]? = some f[i] := by rw [h]; exact List.getElem?_eq_getElem hi
  unfold slice at this
  rw [List.getElem?_take, if_pos hi, List.getElem?_drop] at this
  unfold byteAt
  simp [List.getD_eq_getElem?_getD, this]

theorem getLast?_eq_getElem_pred (f : Bytes) (hne : f ≠ []) : f.getLast? = some (f[f.length - 1]'(by
    cases f with | nil => exact absurd rfl hne | cons _ _ => simp)) := by
  rw [List.getLast?_eq_getElem?]
  exact List.getElem?_eq_getElem _

/-- one line inside the whole file: its last delimiter and the byte just before it -/
theorem line_last_byte (sep : Nat) (Pfx rest : Bytes) (l : List Bytes) (hne : l ≠ []) (hlast : l.getLastD [] ≠ []) :
    (lineDelims Pfx.length l).getLastD 0 = (offsFrom Pfx.length l).getLastD 0 + (l.getLastD []).length ∧
    0 < (l.getLastD []).length ∧
    some (byteAt (Pfx ++ dumpLine sep l ++ rest) ((lineDelims Pfx.length l).getLastD 0 - 1)) = (l.getLastD []).getLast? := by
  have hD := lineDelims_closed Pfx.length l hne
  have hDne := lineDelims_ne_nil Pfx.length l
  have hlen := lineDelims_length Pfx.length l hne
  have hn : 0 < l.length := by cases l with | nil => exact absurd rfl hne | cons _ _ => simp
  -- the last delimiter is the end of the last field
  have hj : l.length - 1 < l.length := by omega
  have hjo : l.length - 1 < (offsFrom Pfx.length l).length := by rw [offsFrom_length]; exact hj
  have hoL : (offsFrom Pfx.length l).getLastD 0 = (offsFrom Pfx.length l)[l.length - 1] := by
    rw [List.getLastD_eq_getLast?, List.getLast?_eq_getElem?, offsFrom_length, List.getElem?_eq_getElem hjo]; rfl
  have hlL : l.getLastD [] = l[l.length - 1] := by
    rw [List.getLastD_eq_getLast?, List.getLast?_eq_getElem?, List.getElem?_eq_getElem hj]; rfl
  have hDL : (lineDelims Pfx.length l).getLast? = some ((offsFrom Pfx.length l)[l.length - 1] + (l[l.length - 1]).length) := by
    rw [List.getLast?_eq_getElem?, hlen, hD]
    simp [List.getElem?_zipWith, List.getElem?_eq_getElem hjo, List.getElem?_eq_getElem hj]
  obtain ⟨f, hf⟩ : ∃ f, f = l[l.length - 1] := ⟨_, rfl⟩
  obtain ⟨o, ho⟩ : ∃ o, o = (offsFrom Pfx.length l)[l.length - 1] := ⟨_, rfl⟩
  rw [hlL, ← hf] at hlast ⊢
  rw [hoL, ← ho]
  rw [← hf, ← ho] at hDL
  have hfpos : 0 < f.length := by cases f with | nil => exact absurd rfl hlast | cons _ _ => simp
  -- the byte before the last delimiter is the last byte of the last field
  have hfield := line_field sep l Pfx.length (l.length - 1) hj
  rw [← hf, ← ho] at hfield
  have hoge : Pfx.length ≤ o := by rw [ho]; exact offsFrom_ge _ _ _ (List.getElem_mem hjo)
  have hs : slice (Pfx ++ dumpLine sep l ++ rest) o f.length = f := by
    have hb := offs_bound sep l Pfx.length (l.length - 1) hj
    simp only [List.getD_eq_getElem?_getD, List.getElem?_eq_getElem hjo, List.getElem?_eq_getElem hj, Option.getD_some] at hb
    rw [← hf, ← ho] at hb
    have := slice_append_mid Pfx (dumpLine sep l) rest (o - Pfx.length) f.length (by omega)
    have e : Pfx.length + (o - Pfx.length) = o := by omega
    rw [e] at this
    rw [this]; exact hfield
  have hbyte : byteAt (Pfx ++ dumpLine sep l ++ rest) (o + f.length - 1) = f[f.length - 1] := by
    have := byteAt_of_slice _ f o (f.length - 1) hs (by omega)
    have e : o + (f.length - 1) = o + f.length - 1 := by omega
    rw [e] at this; exact this
  have hDLd : (lineDelims Pfx.length l).getLastD 0 = o + f.length := by
    rw [List.getLastD_eq_getLast?, hDL]; rfl
  refine ⟨hDLd, hfpos, ?_⟩
  rw [hDLd, hbyte, getLast?_eq_getElem_pred f hlast]

/-- one line inside the whole file: the end `stripCR` computes for the last column is the end of the field without its CR -/
theorem stripCR_last (sep : Nat) (Pfx rest : Bytes) (l : List Bytes) (hne : l ≠ []) (hlast : l.getLastD [] ≠ []) :
    (stripCR (Pfx ++ dumpLine sep l ++ rest) (lineDelims Pfx.length l)).getLastD 0 =
      (offsFrom Pfx.length l).getLastD 0 + (dropCR (l.getLastD [])).length := by
  have hD := lineDelims_closed Pfx.length l hne
  have hDne := lineDelims_ne_nil Pfx.length l
  have hlen := lineDelims_length Pfx.length l hne
  have hn : 0 < l.length := by cases l with | nil => exact absurd rfl hne | cons _ _ => simp
  -- the last delimiter is the end of the last field
  have hj : l.length - 1 < l.length := by omega
  have hjo : l.length - 1 < (offsFrom Pfx.length l).length := by rw [offsFrom_length]; exact hj
  have hoL : (offsFrom Pfx.length l).getLastD 0 = (offsFrom Pfx.length l)[l.length - 1] := by
    rw [List.getLastD_eq_getLast?, List.getLast?_eq_getElem?, offsFrom_length, List.getElem?_eq_getElem hjo]; rfl
  have hlL : l.getLastD [] = l[l.length - 1] := by
    rw [List.getLastD_eq_getLast?, List.getLast?_eq_getElem?, List.getElem?_eq_getElem hj]; rfl
  have hDL : (lineDelims Pfx.length l).getLast? = some ((offsFrom Pfx.length l)[l.length - 1] + (l[l.length - 1]).length) := by
    rw [List.getLast?_eq_getElem?, hlen, hD]
    simp [List.getElem?_zipWith, List.getElem?_eq_getElem hjo, List.getElem?_eq_getElem hj]
  obtain ⟨f, hf⟩ : ∃ f, f = l[l.length - 1] := ⟨_, rfl⟩
  obtain ⟨o, ho⟩ : ∃ o, o = (offsFrom Pfx.length l)[l.length - 1] := ⟨_, rfl⟩
  rw [hlL, ← hf] at hlast ⊢
  rw [hoL, ← ho]
  rw [← hf, ← ho] at hDL
  have hfpos : 0 < f.length := by cases f with | nil => exact absurd rfl hlast | cons _ _ => simp
  -- the byte before the last delimiter is the last byte of the last field
  have hfield := line_field sep l Pfx.length (l.length - 1) hj
  rw [← hf, ← ho] at hfield
  have hoge : Pfx.length ≤ o := by rw [ho]; exact offsFrom_ge _ _ _ (List.getElem_mem hjo)
  have hs : slice (Pfx ++ dumpLine sep l ++ rest) o f.length = f := by
    have hb := offs_bound sep l Pfx.length (l.length - 1) hj
    simp only [List.getD_eq_getElem?_getD, List.getElem?_eq_getElem hjo, List.getElem?_eq_getElem hj, Option.getD_some] at hb
    rw [← hf, ← ho] at hb
    have := slice_append_mid Pfx (dumpLine sep l) rest (o - Pfx.length) f.length (by omega)
    have e : Pfx.length + (o - Pfx.length) = o := by omega
    rw [e] at this
    rw [this]; exact hfield
  have hbyte : byteAt (Pfx ++ dumpLine sep l ++ rest) (o + f.length - 1) = f[f.length - 1] := by
    have := byteAt_of_slice _ f o (f.length - 1) hs (by omega)
    have e : o + (f.length - 1) = o + f.length - 1 := by omega
    rw [e] at this; exact this
  unfold stripCR
  rw [hDL]
  simp only
  rw [List.getLastD_eq_getLast?, List.getLast?_append, List.getLast?_singleton]
  simp only [Option.some_or, Option.getD_some]
  rw [hbyte]
  unfold dropCR
  rw [getLast?_eq_getElem_pred f hlast]
  by_cases h13 : f[f.length - 1] = 13
  · simp [h13]; omega
  · simp [h13]

theorem dropCR_prefix (f : Bytes) : f.take (dropCR f).length = dropCR f := by
  unfold dropCR
  split
  · rw [List.length_dropLast, List.dropLast_eq_take]
  · rw [List.take_length]

theorem dropCR_len_le (f : Bytes) : (dropCR f).length ≤ f.length := by
  unfold dropCR; split <;> simp

theorem getLastD_eq_getD_pred {α} (l : List α) (d : α) : l.getLastD d = l.getD (l.length - 1) d := by
  cases l with
  | nil => rfl
  | cons x xs =>
    rw [List.getLastD_eq_getLast?, List.getLast?_eq_getElem?, List.getD_eq_getElem?_getD]

/-- the last column of every line, as `get_field_by_number(n-1)` returns it once the CR switch is on -/
theorem last_column_rows (sep n : Nat) (hn : 0 < n) (lines : List (List Bytes))
    (h : ∀ l ∈ lines, l.length = n ∧ l.getLastD [] ≠ []) :
    ∀ (Pfx tail : Bytes),
      (expRowsE sep Pfx.length lines ((lineGroups sep Pfx.length lines).map (stripCR (Pfx ++ dumpFile sep lines ++ tail)))).map
        (fun r => slice (Pfx ++ dumpFile sep lines ++ tail) (r.fS.getD (n - 1) 0) (r.fL.getD (n - 1) 0))
      = lines.map (fun l => dropCR (l.getD (n - 1) [])) := by
  induction lines with
  | nil => intro Pfx tail; simp [expRowsE]
  | cons l ls ih =>
    intro Pfx tail
    have hl := h l (by simp)
    have hne : l ≠ [] := by intro e; rw [e] at hl; simp at hl
    have hdata : Pfx ++ dumpFile sep (l :: ls) ++ tail = Pfx ++ dumpLine sep l ++ (dumpFile sep ls ++ tail) := by
      simp [dumpFile, List.append_assoc]
    have hdata2 : Pfx ++ dumpFile sep (l :: ls) ++ tail = (Pfx ++ dumpLine sep l) ++ dumpFile sep ls ++ tail := by
      simp [dumpFile, List.append_assoc]
    simp only [lineGroups, List.map_cons, expRowsE]
    congr 1
    · -- the head line
      have hs := stripCR_last sep Pfx (dumpFile sep ls ++ tail) l hne hl.2
      rw [← hdata] at hs
      have hoff : (offsFrom Pfx.length l).length = n := by rw [offsFrom_length]; exact hl.1
      obtain ⟨E, hE⟩ : ∃ E, E = stripCR (Pfx ++ dumpFile sep (l :: ls) ++ tail) (lineDelims Pfx.length l) := ⟨_, rfl⟩
      rw [← hE] at hs ⊢
      have hElen : E.length = n := by
        rw [hE, (stripCR_spec _ _).1, lineDelims_length _ _ hne]; exact hl.1
      have ho : (offsFrom Pfx.length l).getD (n - 1) 0 = (offsFrom Pfx.length l).getLastD 0 := by
        rw [getLastD_eq_getD_pred, hoff]
      have hEl : E.getD (n - 1) 0 = E.getLastD 0 := by rw [getLastD_eq_getD_pred, hElen]
      have hfl : l.getD (n - 1) [] = l.getLastD [] := by rw [getLastD_eq_getD_pred, hl.1]
      have hj1 : n - 1 < (offsFrom Pfx.length l).length := by omega
      have hj2 : n - 1 < E.length := by omega
      have hlen : (List.zipWith (fun s e => e - s) (offsFrom Pfx.length l) E).getD (n - 1) 0 = (dropCR (l.getLastD [])).length := by
        have : (List.zipWith (fun s e => e - s) (offsFrom Pfx.length l) E).getD (n - 1) 0
            = E.getD (n - 1) 0 - (offsFrom Pfx.length l).getD (n - 1) 0 := by
          simp [List.getD_eq_getElem?_getD, List.getElem?_zipWith, List.getElem?_eq_getElem hj1, List.getElem?_eq_getElem hj2]
        rw [this, hEl, ho, hs]; omega
      rw [hlen, ho, hfl]
      -- the text at the last start, cut to the CR-less length
      have hjl : n - 1 < l.length := by omega
      have hfield := line_field sep l Pfx.length (n - 1) hjl
      have hoge := offsFrom_ge Pfx.length l _ (List.getElem_mem hj1)
      have hb := offs_bound sep l Pfx.length (n - 1) hjl
      have hoL : (offsFrom Pfx.length l).getLastD 0 = (offsFrom Pfx.length l)[n - 1] := by
        rw [← ho]; simp [List.getD_eq_getElem?_getD, List.getElem?_eq_getElem hj1]
      have hlL : l.getLastD [] = l[n - 1] := by
        rw [← hfl]; simp [List.getD_eq_getElem?_getD, List.getElem?_eq_getElem hjl]
      simp only [List.getD_eq_getElem?_getD, List.getElem?_eq_getElem hj1, List.getElem?_eq_getElem hjl, Option.getD_some] at hb
      rw [hoL, hlL]
      rw [slice_take _ _ _ (l[n - 1]).length (dropCR_len_le _), hdata]
      have := slice_append_mid Pfx (dumpLine sep l) (dumpFile sep ls ++ tail) ((offsFrom Pfx.length l)[n - 1] - Pfx.length) (l[n - 1]).length (by omega)
      have e : Pfx.length + ((offsFrom Pfx.length l)[n - 1] - Pfx.length) = (offsFrom Pfx.length l)[n - 1] := by omega
      rw [e] at this
      rw [this, hfield, dropCR_prefix]
    · have := ih (fun x hx => h x (by simp [hx])) (Pfx ++ dumpLine sep l) tail
      simp only [List.length_append] at this
      rw [hdata2]
      exact this

/-- a table whose every line ends in a carriage return (a CRLF file seen as an LF dump) -/
def CRTable (lines : List (List Bytes)) : Prop := ∀ l ∈ lines, (l.getLastD []).getLast? = some 13

theorem crFlag_of_CRTable (sep n : Nat) (hn : 0 < n) (lines : List (List Bytes)) (hne : lines ≠ [])
    (h : CleanTable sep n lines) (hcr : CRTable lines) :
    crFlag (dumpFile sep lines) (lineGroups sep 0 lines) = true := by
  cases lines with
  | nil => exact absurd rfl hne
  | cons l0 ls =>
    have hl0 := h l0 (by simp)
    have hne0 : l0 ≠ [] := by intro e; rw [e] at hl0; simp at hl0; omega
    have hc0 := hcr l0 (by simp)
    have hlast : l0.getLastD [] ≠ [] := by intro e; rw [e] at hc0; simp at hc0
    obtain ⟨a, b, c⟩ := line_last_byte sep [] (dumpFile sep ls) l0 hne0 hlast
    simp only [List.length_nil, List.nil_append] at a b c
    unfold crFlag
    simp only [lineGroups, List.head?_cons, Option.map_some, Option.getD_some, dumpFile, List.map_cons, List.flatten_cons]
    rw [hc0] at c
    simp only [Option.some.injEq] at c
    have hpos : (lineDelims 0 l0).getLastD 0 ≠ 0 := by rw [a]; omega
    simp only [dumpFile] at c
    simp only [bne_iff_ne, Bool.and_eq_true, beq_iff_eq, ne_eq]
    exact ⟨hpos, c⟩

/-- **C04.crlf_last_column** — for EVERY CRLF table (every line's last field carries the CR) the last column is returned
WITHOUT its carriage return; together with `build_delimited_records` this gives every column of every CRLF file -/
theorem crlf_last_column (sep n : Nat) (hn : 0 < n) (lines : List (List Bytes)) (hne : lines ≠ [])
    (h : CleanTable sep n lines) (hcr : CRTable lines) :
    (expExtG sep lines).fieldText (n - 1) = lines.map (fun l => dropCR (l.getD (n - 1) [])) := by
  have hlne : ∀ l ∈ lines, l ≠ [] := by
    intro l hl e; have := (h l hl).1; rw [e] at this; simp at this; omega
  have hflag := crFlag_of_CRTable sep n hn lines hne h hcr
  have hEs : endsOf (dumpFile sep lines) (lineGroups sep 0 lines) = (lineGroups sep 0 lines).map (stripCR (dumpFile sep lines)) := by
    unfold endsOf; simp [hflag]
  have hrows : (expExtG sep lines).rows = expRowsE sep 0 lines ((lineGroups sep 0 lines).map (stripCR (dumpFile sep lines))) := by
    unfold expExtG; rw [hEs]
    exact rows_expE sep lines hlne _ 0 _ true (by simp [lineGroups_length])
  have hlast : ∀ l ∈ lines, l.length = n ∧ l.getLastD [] ≠ [] := by
    intro l hl
    refine ⟨(h l hl).1, ?_⟩
    intro e; have := hcr l hl; rw [e] at this; simp at this
  have := last_column_rows sep n hn lines hlast [] []
  simp only [List.length_nil, List.nil_append, List.append_nil] at this
  unfold Ext.fieldText
  rw [hrows]
  exact this

end C04
