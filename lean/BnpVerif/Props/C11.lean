import BnpVerif.Model.C11
/-! C11 property theorems. Helper lemmas first; the property theorems are the ones listed in
`Audit/C11.lean`. Everything is for unbounded inputs: every stream `cs` (list of chunks), i.e. every
chunking of `cs.flatten`. -/
set_option linter.unusedSectionVars false
set_option linter.unusedSimpArgs false
set_option linter.unnecessarySimpa false
namespace C11
open Base

/-! ## reductions -/
/-! ### mean -/
private theorem foldl_pairAdd (acc : Int × Nat) (cs : List (List Int)) :
    (cs.map sumAndN).foldl pairAdd acc = pairAdd acc (sumAndN cs.flatten) := by
  induction cs generalizing acc with
  | nil => simp [sumAndN, pairAdd]
  | cons c cs ih =>
    simp only [List.map_cons, List.foldl_cons, ih, List.flatten_cons]
    simp only [pairAdd, sumAndN, List.sum_append, List.length_append]
    ext <;> simp <;> omega

theorem mean_chunks_partial (cs : List (List Int)) : meanStream cs = sumAndN cs.flatten := by
  unfold meanStream
  rw [foldl_pairAdd]
  simp [pairAdd]

/-! ### bincount -/
theorem size_append (a b : List Nat) : size (a ++ b) = max (size a) (size b) := by
  induction a with
  | nil => simp [size]
  | cons x xs ih =>
    simp only [size, List.cons_append, List.foldr_cons] at ih ⊢
    rw [ih]; omega

theorem count_eq_zero_of_size_le (c : List Nat) (v : Nat) (h : size c ≤ v) : c.count v = 0 := by
  induction c with
  | nil => simp
  | cons x xs ih =>
    simp only [size, List.foldr_cons] at h ih
    have hx : x ≠ v := by omega
    rw [List.count_cons_of_ne hx]
    exact ih (by omega)

theorem bincount_length (ml : Nat) (c : List Nat) : (bincount ml c).length = max (size c) ml := by
  simp [bincount]

theorem bincount_getD (ml : Nat) (c : List Nat) (i : Nat) : (bincount ml c).getD i 0 = c.count i := by
  unfold bincount
  by_cases h : i < max (size c) ml
  · simp [List.getD_eq_getElem?_getD, h]
  · simp [List.getD_eq_getElem?_getD, h]
    exact (count_eq_zero_of_size_le c i (by omega)).symm

theorem addPrefix_length (long short : List Nat) (h : short.length ≤ long.length) :
    (addPrefix long short).length = long.length := by
  simp [addPrefix]; omega

theorem addPrefix_getD (long short : List Nat) (h : short.length ≤ long.length) (i : Nat) :
    (addPrefix long short).getD i 0 = long.getD i 0 + short.getD i 0 := by
  unfold addPrefix
  simp only [List.getD_eq_getElem?_getD]
  by_cases hi : i < short.length
  · rw [List.getElem?_append_left (by simp; omega)]
    simp [List.getElem?_zipWith, hi]
    have h1 : i < long.length := by omega
    simp [List.getElem?_eq_getElem h1]
  · rw [List.getElem?_append_right (by simp; omega)]
    simp
    have : min short.length long.length = short.length := by omega
    rw [this]
    have e : short.length + (i - short.length) = i := by omega
    rw [e]
    have : short[i]? = none := by simp; omega
    simp [this]

theorem bincountReduce_length (a b : List Nat) : (bincountReduce a b).length = max a.length b.length := by
  unfold bincountReduce
  split
  · rw [addPrefix_length _ _ (by omega)]; omega
  · rw [addPrefix_length _ _ (by omega)]; omega

theorem bincountReduce_getD (a b : List Nat) (i : Nat) :
    (bincountReduce a b).getD i 0 = a.getD i 0 + b.getD i 0 := by
  unfold bincountReduce
  split
  · rw [addPrefix_getD _ _ (by omega)]
  · rw [addPrefix_getD _ _ (by omega)]; omega

theorem ext_getD (a b : List Nat) (hl : a.length = b.length) (h : ∀ i, a.getD i 0 = b.getD i 0) : a = b := by
  apply List.ext_getElem hl
  intro i h1 h2
  have := h i
  simp only [List.getD_eq_getElem?_getD, List.getElem?_eq_getElem h1, List.getElem?_eq_getElem h2] at this
  simpa using this

theorem bincountReduce_bincount (ml : Nat) (a b : List Nat) :
    bincountReduce (bincount ml a) (bincount ml b) = bincount ml (a ++ b) := by
  apply ext_getD
  · rw [bincountReduce_length, bincount_length, bincount_length, bincount_length, size_append]; omega
  · intro i
    rw [bincountReduce_getD, bincount_getD, bincount_getD, bincount_getD, List.count_append]

theorem bincount_chunks (ml : Nat) (cs : List (List Nat)) (h : cs ≠ []) :
    bincountStream ml cs = some (bincount ml cs.flatten) := by
  cases cs with
  | nil => exact absurd rfl h
  | cons c rest =>
    simp only [bincountStream, List.map_cons, reduce1, List.flatten_cons]
    congr 1
    clear h
    induction rest generalizing c with
    | nil => simp
    | cons d ds ih =>
      simp only [List.map_cons, List.foldl_cons, bincountReduce_bincount, List.flatten_cons]
      rw [ih (c ++ d)]
      simp

/-! ## histogram, k-mer counts -/
theorem zipWith_add_map_range (k : Nat) (f g : Nat → Nat) :
    List.zipWith (· + ·) ((List.range k).map f) ((List.range k).map g) = (List.range k).map (fun i => f i + g i) := by
  apply List.ext_getElem
  · simp
  · intro i h1 h2
    simp

theorem histogram_add (e : List Int) (a b : List Int) :
    List.zipWith (· + ·) (histogram e a) (histogram e b) = histogram e (a ++ b) := by
  unfold histogram
  rw [zipWith_add_map_range]
  simp [List.countP_append]

theorem histogram_comm (e : List Int) (a b : List Int) : histogram e (a ++ b) = histogram e (b ++ a) := by
  unfold histogram
  simp [List.countP_append, Nat.add_comm]

@[simp] theorem pyAdd_zero (v : List Nat) : pyAdd .zero v = .arr v := rfl
@[simp] theorem pyAdd_arr (a v : List Nat) : pyAdd (.arr a) v = .arr (List.zipWith (· + ·) a v) := rfl

private theorem hist_fold (e : List Int) (a : List Int) (rest : List (List Int)) :
    (rest.map (fun c => (histogram e c, e))).foldl (fun acc p => pyAdd acc p.1) (PySum.arr (histogram e a))
      = PySum.arr (histogram e (a ++ rest.flatten)) := by
  induction rest generalizing a with
  | nil => simp
  | cons d ds ih =>
    simp only [List.map_cons, List.foldl_cons, pyAdd_arr, histogram_add, List.flatten_cons]
    rw [ih]; simp

theorem histogram_chunks (edges : List Int) (cs : List (List Int)) (h : cs ≠ []) :
    histogramStream edges cs = some (histogram edges cs.flatten, edges) := by
  cases cs with
  | nil => exact absurd rfl h
  | cons c rest =>
    simp only [histogramStream, List.map_cons, histogramReduce, List.flatten_cons]
    cases rest with
    | nil => simp
    | cons d ds =>
      simp only [List.map_cons, List.foldl_cons, pyAdd_zero, hist_fold, histogram_add, List.flatten_cons]
      rw [histogram_comm]

theorem kmerHashes_append (k : Nat) (a b : List (List Nat)) :
    kmerHashes k (a ++ b) = kmerHashes k a ++ kmerHashes k b := by
  simp [kmerHashes]

theorem kmerCounts_add (k : Nat) (a b : List (List Nat)) :
    List.zipWith (· + ·) (kmerCounts k a) (kmerCounts k b) = kmerCounts k (a ++ b) := by
  unfold kmerCounts
  rw [zipWith_add_map_range]
  simp [kmerHashes_append, List.count_append]

private theorem kmer_fold (k : Nat) (a : List (List Nat)) (rest : List (List (List Nat))) :
    (rest.map (kmerCounts k)).foldl pyAdd (PySum.arr (kmerCounts k a)) = PySum.arr (kmerCounts k (a ++ rest.flatten)) := by
  induction rest generalizing a with
  | nil => simp
  | cons d ds ih =>
    simp only [List.map_cons, List.foldl_cons, pyAdd_arr, kmerCounts_add, List.flatten_cons]
    rw [ih]; simp

theorem count_kmers_chunks (k : Nat) (cs : List (List (List Nat))) (h : cs ≠ []) :
    countKmersStream k cs = PySum.arr (kmerCounts k cs.flatten) := by
  cases cs with
  | nil => exact absurd rfl h
  | cons c rest =>
    simp only [countKmersStream, List.map_cons, List.foldl_cons, pyAdd_zero, kmer_fold, List.flatten_cons]

/-! ## group-by: lemmas -/
section groupby
variable {α κ : Type} [DecidableEq κ]

/-- flatten groups to (key, entry) pairs -/
def expand (L : List (κ × List α)) : List (κ × α) := (L.map (fun p => p.2.map (fun a => (p.1, a)))).flatten

/-- runs of a list of (key, entry) pairs -/
def runsP : List (κ × α) → List (κ × List α)
  | [] => []
  | (k, a) :: rest =>
    match runsP rest with
    | (k', g) :: r => if k = k' then (k', a :: g) :: r else (k, [a]) :: (k', g) :: r
    | [] => [(k, [a])]

theorem runs_eq_runsP (key : α → κ) (xs : List α) : runs key xs = runsP (xs.map (fun x => (key x, x))) := by
  induction xs with
  | nil => rfl
  | cons a as ih =>
    simp only [runs, List.map_cons, runsP, ih]
    generalize runsP (List.map (fun x => (key x, x)) as) = R
    cases R with
    | nil => rfl
    | cons p r => obtain ⟨k, g⟩ := p; rfl

theorem expand_cons (k : κ) (g : List α) (L : List (κ × List α)) :
    expand ((k, g) :: L) = g.map (fun a => (k, a)) ++ expand L := by
  simp [expand]

theorem runsP_const_append (k : κ) (g : List α) (hg : g ≠ []) (R : List (κ × α)) :
    runsP (g.map (fun a => (k, a)) ++ R) =
      (match runsP R with
       | (k', g') :: r => if k = k' then (k', g ++ g') :: r else (k, g) :: (k', g') :: r
       | [] => [(k, g)]) := by
  induction g with
  | nil => exact absurd rfl hg
  | cons a t ih =>
    cases t with
    | nil => simp [runsP]
    | cons b t' =>
      have ih' := ih (by simp)
      simp only [List.map_cons, List.cons_append] at ih' ⊢
      rw [runsP, ih']
      cases hR : runsP R with
      | nil => simp
      | cons p r =>
        obtain ⟨k', g'⟩ := p
        by_cases hk : k = k'
        · subst hk; simp
        · simp [hk]

theorem joinGroups_eq (L : List (κ × List α)) (h : ∀ p ∈ L, p.2 ≠ []) : joinGroups L = runsP (expand L) := by
  induction L with
  | nil => rfl
  | cons p L ih =>
    obtain ⟨k, g⟩ := p
    have hg : g ≠ [] := h (k, g) (by simp)
    have ih' := ih (fun p hp => h p (by simp [hp]))
    rw [expand_cons, runsP_const_append k g hg, joinGroups, ih']
    cases runsP (expand L) with
    | nil => rfl
    | cons q r =>
      obtain ⟨k', g'⟩ := q
      by_cases hk : k = k'
      · subst hk; simp
      · simp [hk]

theorem runsP_nonempty (l : List (κ × α)) : ∀ p ∈ runsP l, p.2 ≠ [] := by
  induction l with
  | nil => simp [runsP]
  | cons x xs ih =>
    obtain ⟨k, a⟩ := x
    simp only [runsP]
    cases h : runsP xs with
    | nil => intro p hp; simp at hp; subst hp; simp
    | cons q r =>
      obtain ⟨k', g'⟩ := q
      rw [h] at ih
      by_cases hk : k = k'
      · simp only [hk, ↓reduceIte]
        intro p hp
        simp only [List.mem_cons] at hp
        rcases hp with e | e
        · rw [e]; exact List.cons_ne_nil _ _
        · exact ih p (by simp [e])
      · simp only [hk, ↓reduceIte]
        intro p hp
        simp only [List.mem_cons] at hp
        rcases hp with e | e | e
        · rw [e]; exact List.cons_ne_nil _ _
        · exact ih p (by simp [e])
        · exact ih p (by simp [e])

theorem expand_runsP (l : List (κ × α)) : expand (runsP l) = l := by
  induction l with
  | nil => rfl
  | cons x xs ih =>
    obtain ⟨k, a⟩ := x
    simp only [runsP]
    cases h : runsP xs with
    | nil =>
      rw [h] at ih
      simp [expand] at ih ⊢
      exact ih
    | cons q r =>
      obtain ⟨k', g'⟩ := q
      rw [h] at ih
      by_cases hk : k = k'
      · subst hk
        simp [expand] at ih ⊢
        exact ih
      · simp [hk, expand] at ih ⊢
        exact ih

theorem expand_append (A B : List (κ × List α)) : expand (A ++ B) = expand A ++ expand B := by
  simp [expand]

theorem expand_flatten_runs (key : α → κ) (cs : List (List α)) :
    expand ((cs.map (runs key)).flatten) = cs.flatten.map (fun x => (key x, x)) := by
  induction cs with
  | nil => rfl
  | cons c cs ih =>
    simp only [List.map_cons, List.flatten_cons, expand_append, ih, List.map_append]
    rw [runs_eq_runsP, expand_runsP]

theorem runs_nonempty (key : α → κ) (c : List α) : ∀ p ∈ runs key c, p.2 ≠ [] := by
  rw [runs_eq_runsP]; exact runsP_nonempty _

/-- joining the per-chunk runs gives the runs of the whole (no hypothesis on the keys) -/
theorem join_runs (key : α → κ) (cs : List (List α)) :
    joinGroups ((cs.map (runs key)).flatten) = runs key cs.flatten := by
  rw [joinGroups_eq, expand_flatten_runs, ← runs_eq_runsP]
  intro p hp
  simp only [List.mem_flatten, List.mem_map] at hp
  obtain ⟨l, ⟨c, _, rfl⟩, hpl⟩ := hp
  exact runs_nonempty key c p hpl



theorem sliceGroups_single [Inhabited α] (key : α → κ) (c : List α) (s : Nat) : sliceGroups key c [s] = [] := by
  simp [sliceGroups]

theorem sliceGroups_cons2 [Inhabited α] (key : α → κ) (c : List α) (s e : Nat) (B : List Nat) :
    sliceGroups key c (s :: e :: B) = (key c[s]!, (c.drop s).take (e - s)) :: sliceGroups key c (e :: B) := by
  simp [sliceGroups]

theorem sliceGroups_shift [Inhabited α] (key : α → κ) (a : α) (c : List α) (B : List Nat) :
    sliceGroups key (a :: c) (B.map (· + 1)) = sliceGroups key c B := by
  induction B with
  | nil => simp [sliceGroups]
  | cons s B ih =>
    cases B with
    | nil => simp [sliceGroups]
    | cons e B' =>
      simp only [List.map_cons] at ih ⊢
      rw [sliceGroups_cons2, sliceGroups_cons2, ih]
      congr 2 <;> simp

theorem runs_head (key : α → κ) (b : α) (t : List α) :
    ∃ g rest, runs key (b :: t) = (key b, b :: g) :: rest := by
  simp only [runs]
  cases h : runs key t with
  | nil => exact ⟨[], [], rfl⟩
  | cons p r =>
    obtain ⟨k, g⟩ := p
    by_cases hk : key b = k
    · subst hk; exact ⟨g, r, by simp⟩
    · exact ⟨[], (k, g) :: r, by simp [hk]⟩

theorem changePoints_pos (ks : List κ) : ∀ e ∈ changePoints ks, 1 ≤ e := by
  match ks with
  | [] => simp [changePoints]
  | [_] => simp [changePoints]
  | a :: b :: rest =>
    simp only [changePoints]
    intro e he
    split at he
    · simp at he; omega
    · simp at he; omega

theorem sliceGroups_eq_runs [Inhabited α] (key : α → κ) (c : List α) (hc : c ≠ []) :
    sliceGroups key c (0 :: changePoints (c.map key) ++ [c.length]) = runs key c := by
  induction c with
  | nil => exact absurd rfl hc
  | cons a c' ih =>
    cases c' with
    | nil => simp [changePoints, sliceGroups, runs]
    | cons b t =>
      have ih' := ih (by simp)
      obtain ⟨g0, rest0, hr⟩ := runs_head key b t
      -- bounds of the tail, shifted by one
      have hshift : sliceGroups key (a :: b :: t)
          (1 :: (changePoints ((b :: t).map key)).map (· + 1) ++ [(b :: t).length + 1]) = runs key (b :: t) := by
        rw [← ih', ← sliceGroups_shift key a (b :: t)]
        simp
      simp only [List.map_cons, changePoints, List.length_cons, List.cons_append] at hshift ⊢
      by_cases hk : key a = key b
      · simp only [hk, ne_eq, not_true_eq_false, ↓reduceIte]
        rw [runs, hr]
        simp only [hk, ↓reduceIte]
        -- first bound after 0
        obtain ⟨T, hT⟩ : ∃ T, T = List.map (fun x => x + 1) (changePoints (key b :: List.map key t)) ++ [t.length + 1 + 1] := ⟨_, rfl⟩
        rw [← hT] at hshift ⊢
        cases T with
        | nil => simp at hT
        | cons e T' =>
          have he : 1 ≤ e := by
            have : e ∈ List.map (fun x => x + 1) (changePoints (key b :: List.map key t)) ++ [t.length + 1 + 1] := by
              rw [← hT]; simp
            simp at this
            rcases this with ⟨x, _, rfl⟩ | rfl <;> omega
          rw [sliceGroups_cons2] at hshift ⊢
          rw [hr] at hshift
          simp only [List.cons.injEq, Prod.mk.injEq] at hshift
          obtain ⟨⟨_, h2⟩, h3⟩ := hshift
          rw [h3]
          simp only [List.getElem!_cons_zero, List.drop_zero, Nat.sub_zero, hk]
          congr 2
          obtain ⟨e', rfl⟩ : ∃ e', e = e' + 1 := ⟨e - 1, by omega⟩
          rw [List.take_succ_cons]
          simpa using h2
      · simp only [hk, ne_eq, not_false_eq_true, ↓reduceIte, List.cons_append]
        have e : runs key (a :: b :: t) = (key a, [a]) :: (key b, b :: g0) :: rest0 := by
          rw [runs, hr]; simp [hk]
        rw [sliceGroups_cons2, hshift, hr, e]
        simp

theorem runs_const (key : α → κ) (k : κ) (c : List α) (hc : c ≠ []) (h : ∀ x ∈ c, key x = k) :
    runs key c = [(k, c)] := by
  induction c with
  | nil => exact absurd rfl hc
  | cons a t ih =>
    cases t with
    | nil => simp [runs, h a (by simp)]
    | cons b t' =>
      have := ih (by simp) (fun x hx => h x (by simp [hx]))
      rw [runs, this]
      simp [h a (by simp)]

theorem contig_infix (p m s : List κ) (h : Contig (p ++ m ++ s)) : Contig m := by
  intro p' q r x y hm hx
  exact h (p ++ p') q (r ++ s) x y (by rw [hm]; simp) (by simp [hx])

theorem contig_all_eq (x : κ) (mid : List κ) (h : Contig (x :: mid ++ [x])) : ∀ y ∈ mid, y = x := by
  intro y hy
  obtain ⟨q, r', rfl⟩ := List.append_of_mem hy
  exact h [] q (r' ++ [x]) x y (by simp) (by simp)

theorem head_last_all_eq (ks : List κ) (hc : Contig ks) (hl : ks.head? = ks.getLast?) (x : κ) (hx : ks.head? = some x) :
    ∀ y ∈ ks, y = x := by
  cases ks with
  | nil => simp
  | cons a t =>
    simp at hx; subst hx
    rcases List.eq_nil_or_concat t with rfl | ⟨mid, z, rfl⟩
    · simp
    · simp only [List.concat_eq_append] at hc hl ⊢
      have hz : z = a := by
        rw [show a :: (mid ++ [z]) = (a :: mid) ++ [z] from rfl, List.getLast?_concat] at hl
        simpa using hl.symm
      subst hz
      intro y hy
      simp at hy
      rcases hy with rfl | hy | rfl
      · rfl
      · exact contig_all_eq z mid (by simpa using hc) y hy
      · rfl

/-- each chunk's groups are its runs: the change-point slicing in general, the first-key = last-key
shortcut because contiguous keys with equal ends are all equal -/
theorem groupbyChunk_eq_runs [Inhabited α] (fast : Bool) (key : α → κ) (c : List α) (hc : c ≠ [])
    (hcon : Contig (c.map key)) : groupbyChunk fast key c = some (runs key c) := by
  cases c with
  | nil => exact absurd rfl hc
  | cons a t =>
    simp only [groupbyChunk]
    split
    · rename_i hf
      simp only [Bool.and_eq_true, decide_eq_true_eq] at hf
      have hall := head_last_all_eq _ hcon hf.2 (key a) (by simp)
      rw [runs_const key (key a) (a :: t) (by simp)]
      · simp
      · intro x hx; exact hall (key x) (List.mem_map_of_mem hx)
    · rw [sliceGroups_eq_runs key (a :: t) (by simp)]

end groupby

/-! ## re-chunking: lemmas -/
section rechunk
variable {α : Type}

theorem chopGo_fuel2 (n : Nat) (hn : 0 < n) (f g : Nat) (xs : List α) (h : xs.length ≤ f) (h' : xs.length ≤ g) :
    chopGo n f xs = chopGo n g xs := by
  induction f generalizing g xs with
  | zero =>
    have : xs = [] := List.length_eq_zero_iff.mp (by omega)
    subst this
    cases g <;> simp [chopGo]
  | succ f ih =>
    cases xs with
    | nil => cases g <;> simp [chopGo]
    | cons a t =>
      simp only [List.length_cons] at h h'
      cases g with
      | zero => omega
      | succ g =>
        simp only [chopGo, reduceCtorEq, ↓reduceIte]
        congr 1
        have hd : (List.drop n (a :: t)).length ≤ t.length := by
          simp only [List.length_drop, List.length_cons]; omega
        exact ih g _ (by omega) (by omega)

theorem chopGo_fuel (n : Nat) (hn : 0 < n) (f : Nat) (xs : List α) (h : xs.length ≤ f) :
    chopGo n f xs = chopGo n xs.length xs := chopGo_fuel2 n hn f xs.length xs h (Nat.le_refl _)

theorem chop_nil (n : Nat) : chop n ([] : List α) = [] := rfl

theorem chop_eq (n : Nat) (hn : 0 < n) (xs : List α) (h : xs ≠ []) :
    chop n xs = xs.take n :: chop n (xs.drop n) := by
  cases xs with
  | nil => exact absurd rfl h
  | cons a t =>
    simp only [chop, List.length_cons, chopGo]
    simp only [reduceCtorEq, ↓reduceIte]
    congr 1
    exact chopGo_fuel n hn _ _ (by simp; omega)

theorem chop_flatten_aux (n : Nat) (hn : 0 < n) (m : Nat) (xs : List α) (hm : xs.length ≤ m) :
    (chop n xs).flatten = xs := by
  induction m generalizing xs with
  | zero =>
    have : xs = [] := List.length_eq_zero_iff.mp (by omega)
    subst this; rfl
  | succ m ih =>
    by_cases hx : xs = []
    · subst hx; rfl
    · rw [chop_eq n hn xs hx, List.flatten_cons]
      have hl : (xs.drop n).length ≤ m := by
        have : 0 < xs.length := List.length_pos_iff.mpr hx
        simp only [List.length_drop]; omega
      rw [ih (xs.drop n) hl, List.take_append_drop]

theorem chop_flatten (n : Nat) (hn : 0 < n) (xs : List α) : (chop n xs).flatten = xs :=
  chop_flatten_aux n hn xs.length xs (Nat.le_refl _)

/-- every piece has between 1 and n entries, and every piece that is not the last has exactly n -/
theorem chop_sizes_aux (n : Nat) (hn : 0 < n) (m : Nat) (xs : List α) (hm : xs.length ≤ m) :
    (∀ c ∈ chop n xs, 1 ≤ c.length ∧ c.length ≤ n) ∧
    (∀ i, i + 1 < (chop n xs).length → ((chop n xs)[i]?).map List.length = some n) := by
  induction m generalizing xs with
  | zero =>
    have : xs = [] := List.length_eq_zero_iff.mp (by omega)
    subst this; simp [chop_nil]
  | succ m ih =>
    by_cases hx : xs = []
    · subst hx; simp [chop_nil]
    · have hpos : 0 < xs.length := List.length_pos_iff.mpr hx
      have hl : (xs.drop n).length ≤ m := by simp only [List.length_drop]; omega
      obtain ⟨ih1, ih2⟩ := ih (xs.drop n) hl
      rw [chop_eq n hn xs hx]
      constructor
      · intro c hc
        simp only [List.mem_cons] at hc
        rcases hc with rfl | hc
        · simp; omega
        · exact ih1 c hc
      · intro i hi
        cases i with
        | zero =>
          simp only [List.length_cons] at hi
          have hne : chop n (xs.drop n) ≠ [] := by
            intro e; rw [e] at hi; simp at hi
          have : xs.drop n ≠ [] := by
            intro e; rw [e] at hne; exact hne rfl
          have : n < xs.length := by
            have := List.length_pos_iff.mpr this
            simp only [List.length_drop] at this; omega
          simp; omega
        | succ j =>
          simp only [List.length_cons] at hi
          simpa using ih2 j (by omega)

/-- every piece has between 1 and n entries, and every piece that is not the last has exactly n -/
theorem chop_sizes (n : Nat) (hn : 0 < n) (xs : List α) :
    (∀ c ∈ chop n xs, 1 ≤ c.length ∧ c.length ≤ n) ∧
    (∀ i, i + 1 < (chop n xs).length → ((chop n xs)[i]?).map List.length = some n) :=
  chop_sizes_aux n hn xs.length xs (Nat.le_refl _)

theorem emit_spec (n : Nat) (hn : 0 < n) (f : Nat) (t : List α) (hf : t.length ≤ f) :
    (emit n f t).2.length < n ∧
    ∀ more : List α, (emit n f t).1 ++ chop n ((emit n f t).2 ++ more) = chop n (t ++ more) := by
  induction f generalizing t with
  | zero =>
    have : t = [] := List.length_eq_zero_iff.mp (by omega)
    subst this
    simp [emit, hn]
  | succ f ih =>
    simp only [emit]
    split
    · rename_i hge
      obtain ⟨h1, h2⟩ := ih (t.drop n) (by simp; omega)
      refine ⟨h1, fun more => ?_⟩
      simp only [List.cons_append]
      rw [h2 more]
      have hne : t ++ more ≠ [] := by
        intro e
        have : (t ++ more).length = 0 := by rw [e]; rfl
        simp only [List.length_append] at this; omega
      rw [chop_eq n hn (t ++ more) hne]
      rw [List.take_append_of_le_length hge, List.drop_append_of_le_length hge]
    · rename_i hlt
      exact ⟨by simpa using hlt, fun more => by simp⟩

theorem chop_small (n : Nat) (hn : 0 < n) (b : List α) (h1 : 0 < b.length) (h2 : b.length ≤ n) : chop n b = [b] := by
  have hb : b ≠ [] := List.length_pos_iff.mp h1
  rw [chop_eq n hn b hb, List.take_of_length_le h2, List.drop_eq_nil_of_le h2, chop_nil]

theorem chunkEntriesGo_eq (n : Nat) (hn : 0 < n) (buf : List α) (hb : buf.length < n) (cs : List (List α)) :
    chunkEntriesGo n buf cs = chop n (buf ++ cs.flatten) := by
  induction cs generalizing buf with
  | nil =>
    simp only [chunkEntriesGo, List.flatten_nil, List.append_nil]
    split
    · rename_i h; exact (chop_small n hn buf h (by omega)).symm
    · rename_i h
      have : buf = [] := List.length_eq_zero_iff.mp (by omega)
      subst this; rfl
  | cons c cs ih =>
    simp only [chunkEntriesGo, List.flatten_cons]
    obtain ⟨h1, h2⟩ := emit_spec n hn (buf ++ c).length (buf ++ c) (Nat.le_refl _)
    rw [ih _ h1, h2, List.append_assoc]

/-- the repaired `chunk_entries` is the canonical cut of the concatenated stream -/
theorem rechunk_entries (n : Nat) (hn : 0 < n) (cs : List (List α)) :
    chunkEntries n cs = some (chop n cs.flatten) := by
  unfold chunkEntries
  rw [if_neg (by omega), chunkEntriesGo_eq n hn [] (by simpa using hn)]
  simp

theorem linesInner_spec (n : Nat) (hn : 0 < n) (f : Nat) (cur chunk : List α) (hc : cur.length < n)
    (hf : chunk.length < f) :
    (linesInner n f cur chunk).2.length < n ∧
    ∀ more : List α, (linesInner n f cur chunk).1 ++ chop n ((linesInner n f cur chunk).2 ++ more)
      = chop n (cur ++ chunk ++ more) := by
  induction f generalizing cur chunk with
  | zero => omega
  | succ f ih =>
    simp only [linesInner]
    split
    · rename_i hge
      have hd : (chunk.drop (n - cur.length)).length < f := by simp; omega
      obtain ⟨h1, h2⟩ := ih [] (chunk.drop (n - cur.length)) (by simpa using hn) hd
      refine ⟨h1, fun more => ?_⟩
      simp only [List.cons_append]
      rw [h2 more]
      have hne : cur ++ chunk ++ more ≠ [] := by
        intro e
        have : (cur ++ chunk ++ more).length = 0 := by rw [e]; rfl
        simp only [List.length_append] at this; omega
      rw [chop_eq n hn _ hne]
      have e1 : (cur ++ chunk ++ more).take n = cur ++ chunk.take (n - cur.length) := by
        rw [List.append_assoc, List.take_append, List.take_of_length_le (by omega)]
        congr 1
        rw [List.take_append_of_le_length hge]
      have e2 : (cur ++ chunk ++ more).drop n = chunk.drop (n - cur.length) ++ more := by
        rw [List.append_assoc, List.drop_append, List.drop_eq_nil_of_le (by omega)]
        simp only [List.nil_append]
        rw [List.drop_append_of_le_length hge]
      rw [e1, e2]; simp
    · rename_i hlt
      refine ⟨by simp; omega, fun more => by simp⟩

theorem chunkLinesGo_eq (n : Nat) (hn : 0 < n) (cur : List α) (hc : cur.length < n) (cs : List (List α)) :
    chunkLinesGo n false cur cs = chop n (cur ++ cs.flatten) := by
  induction cs generalizing cur with
  | nil =>
    simp only [chunkLinesGo, List.flatten_nil, List.append_nil, Bool.false_or]
    split
    · rename_i h; exact (chop_small n hn cur (by simpa using h) (by omega)).symm
    · rename_i h
      have : cur = [] := List.length_eq_zero_iff.mp (by simp only [decide_eq_true_eq] at h; omega)
      subst this; rfl
  | cons c cs ih =>
    simp only [chunkLinesGo, List.flatten_cons]
    obtain ⟨h1, h2⟩ := linesInner_spec n hn (c.length + 1) cur c hc (by omega)
    rw [ih _ h1, h2]
    simp

theorem rechunk_lines (n : Nat) (hn : 0 < n) (cs : List (List α)) :
    chunkLines n cs = some (chop n cs.flatten) := by
  unfold chunkLines
  rw [if_neg (by omega), chunkLinesGo_eq n hn [] (by simpa using hn)]
  simp

end rechunk

/-! ## property theorems: group-by -/
section groupbyMain
variable {α κ : Type} [DecidableEq κ]

/-- chunks of a stream whose concatenated keys are contiguous have contiguous keys -/
theorem contig_chunk (key : α → κ) (cs : List (List α)) (h : Contig (cs.flatten.map key))
    (c : List α) (hc : c ∈ cs) : Contig (c.map key) := by
  obtain ⟨L, R, rfl⟩ := List.append_of_mem hc
  apply contig_infix (L.flatten.map key) (c.map key) (R.flatten.map key)
  simpa using h

/-- **group-by on a sorted key**: for every chunking of `data` (chunks of one entry, cuts inside a
group, …) whose equal keys are contiguous, grouping each chunk (change points or the first = last
shortcut) and joining equal consecutive keys gives exactly the runs of the whole data. -/
theorem groupby_chunks [Inhabited α] (fast : Bool) (key : α → κ) (data : List α) (cs : List (List α))
    (hcs : IsChunking data cs) (hcon : Contig (data.map key)) :
    groupbyStream fast key cs = some (runs key data) := by
  obtain ⟨hflat, hne⟩ := hcs
  subst hflat
  have h1 : omap (groupbyChunk fast key) cs = some (cs.map (runs key)) :=
    omap_some_map _ _ _ (fun c hc => groupbyChunk_eq_runs fast key c (hne c hc) (contig_chunk key cs hcon c hc))
  simp only [groupbyStream, h1, join_runs]

/-- without the shortcut (string / integer key columns) no hypothesis on the keys is needed -/
theorem groupby_chunks_any_keys [Inhabited α] (key : α → κ) (data : List α) (cs : List (List α))
    (hcs : IsChunking data cs) : groupbyStream false key cs = some (runs key data) := by
  obtain ⟨hflat, hne⟩ := hcs
  subst hflat
  have h1 : omap (groupbyChunk false key) cs = some (cs.map (runs key)) := by
    apply omap_some_map
    intro c hc
    cases c with
    | nil => exact absurd rfl (hne [] hc)
    | cons a t =>
      simp only [groupbyChunk, Bool.false_and, Bool.false_eq_true, ↓reduceIte]
      rw [sliceGroups_eq_runs key (a :: t) (by simp)]
  simp only [groupbyStream, h1, join_runs]

/-- the shortcut really needs the sortedness the property assumes: on keys 1,2,1 in one chunk it
returns a single group (outside the property's domain) -/
theorem groupby_fast_needs_contig :
    groupbyStream true (fun x : Nat => x) [[1, 2, 1]] ≠ some (runs (fun x : Nat => x) [1, 2, 1]) := by decide

end groupbyMain

/-- a sorted key column has contiguous equal keys -/
theorem sorted_contig (ks : List Nat) (h : ks.Pairwise (· ≤ ·)) : Contig ks := by
  intro p q r x y hk hx
  subst hk
  rw [List.pairwise_append] at h
  obtain ⟨_, h2, h3⟩ := h
  have hxy : x ≤ y := h3 x (by simp) y (by simp)
  have hyx : y ≤ x := by
    rw [List.pairwise_cons] at h2
    exact h2.1 x hx
  omega

/-! ## property theorems: re-chunking -/
section rechunkMain
variable {α : Type}

/-- **re-chunking** (`chunk_entries` and `chunk_lines`, repaired): for every stream and every `n ≥ 1`
both return the same chunks; order and content are preserved, every chunk has `1..n` entries and
every chunk except the last has exactly `n`. -/
theorem rechunk (n : Nat) (hn : 0 < n) (cs : List (List α)) :
    ∃ out, chunkEntries n cs = some out ∧ chunkLines n cs = some out ∧ out.flatten = cs.flatten ∧
      (∀ c ∈ out, 1 ≤ c.length ∧ c.length ≤ n) ∧
      (∀ i, i + 1 < out.length → (out[i]?).map List.length = some n) :=
  ⟨chop n cs.flatten, rechunk_entries n hn cs, rechunk_lines n hn cs, chop_flatten n hn _,
    (chop_sizes n hn _).1, (chop_sizes n hn _).2⟩

end rechunkMain

/-- the shipped `chunk_entries` (one `if` per incoming chunk) violates the property:
one 10-entry chunk, n = 3 gives sizes [3, 7] -/
theorem chunkEntriesOld_unsound :
    (chunkEntriesOld 3 [[0, 1, 2, 3, 4, 5, 6, 7, 8, 9]]).map List.length = [3, 7] ∧
    chunkEntriesOld 3 [[0, 1, 2, 3, 4, 5, 6, 7, 8, 9]] ≠ chop 3 [0, 1, 2, 3, 4, 5, 6, 7, 8, 9] := by decide

/-- the shipped `chunk_lines` yields an empty trailing chunk when `n` divides the total, and raises
on an empty stream -/
theorem chunkLinesOld_unsound :
    chunkLinesOld 5 [[1, 2, 3, 4, 5]] = some [[1, 2, 3, 4, 5], []] ∧
    chunkLinesOld 2 ([] : List (List Nat)) = none ∧
    chunkLines 2 ([] : List (List Nat)) = some [] := by decide

/-- the shipped `StreamNode.compute` lost the first chunk; the repaired one (`get_iter`) does not -/
theorem streamComputeOld_unsound :
    streamComputeOld [[1, 2], [3], [4, 5]] = some [3, 4, 5] ∧ streamComputeOld [[1, 2]] = none ∧
    (computeGraph [.stream [[1, 2], [3], [4, 5]]] 0 5).toOption.map (·.1) = some [1, 2, 3, 4, 5] := by decide

/-! ## non-vacuity of the hypotheses -/
example : IsChunking [1, 2, 3] [[1], [2, 3]] := ⟨rfl, by intro c hc; simp at hc; rcases hc with rfl | rfl <;> simp⟩
example : Contig [1, 1, 2, 5, 5] := sorted_contig _ (by decide)
example : groupbyStream true (fun x : Nat × Nat => x.1) [[(1, 0), (1, 1)], [(1, 2), (2, 3)], [(3, 4)]]
    = some [(1, [(1, 0), (1, 1), (1, 2)]), (2, [(2, 3)]), (3, [(3, 4)])] := by decide
example : bincountStream 0 [[1, 2], [5], [0]] = some [1, 1, 1, 0, 0, 1] := by decide
example : chunkEntries 3 [[0, 1, 2, 3], [4, 5, 6, 7, 8, 9]] = some [[0, 1, 2], [3, 4, 5], [6, 7, 8], [9]] := by decide

end C11
