import BnpVerif.Model.C11
import BnpVerif.Props.C10
/-! C11 property theorems. Helper lemmas first; the property theorems are the ones listed in
`Audit/C11.lean`. Everything is for unbounded inputs: every stream `cs` (list of chunks), i.e. every
chunking of `cs.flatten`. -/
set_option linter.unusedSectionVars false
set_option linter.unusedSimpArgs false
set_option linter.unnecessarySimpa false
namespace C11
open Base

/-! ## reductions -/
/-! ### mean -/
private theorem foldl_pairAdd (acc : Int × Nat) (cs : List (List Int)) :
    (cs.map sumAndN).foldl pairAdd acc = pairAdd acc (sumAndN cs.flatten) := by
  induction cs generalizing acc with
  | nil => simp [sumAndN, pairAdd]
  | cons c cs ih =>
    simp only [List.map_cons, List.foldl_cons, ih, List.flatten_cons]
    simp only [pairAdd, sumAndN, List.sum_append, List.length_append]
    ext <;> simp <;> omega

theorem mean_chunks_partial (cs : List (List Int)) (h : cs ≠ []) : meanStream cs = .ok (sumAndN cs.flatten) := by
  cases cs with
  | nil => exact absurd rfl h
  | cons c t =>
    simp only [meanStream]
    rw [foldl_pairAdd]
    simp [pairAdd]

/-- the streamed mean raises exactly on the stream without chunks (`sum(())` is the integer 0, `0[:-1]` is a
`TypeError`); chunks that are all empty give the pair (0, 0), i.e. `nan`, as in memory -/
theorem meanStream_error_iff (cs : List (List Int)) : meanStream cs = .error .emptyStream ↔ cs = [] := by
  cases cs <;> simp [meanStream]

/-! ### bincount -/
theorem size_append (a b : List Nat) : size (a ++ b) = max (size a) (size b) := by
  induction a with
  | nil => simp [size]
  | cons x xs ih =>
    simp only [size, List.cons_append, List.foldr_cons] at ih ⊢
    rw [ih]; omega

theorem count_eq_zero_of_size_le (c : List Nat) (v : Nat) (h : size c ≤ v) : c.count v = 0 := by
  induction c with
  | nil => simp
  | cons x xs ih =>
    simp only [size, List.foldr_cons] at h ih
    have hx : x ≠ v := by omega
    rw [List.count_cons_of_ne hx]
    exact ih (by omega)

theorem bincount_length (ml : Nat) (c : List Nat) : (bincount ml c).length = max (size c) ml := by
  simp [bincount]

theorem bincount_getD (ml : Nat) (c : List Nat) (i : Nat) : (bincount ml c).getD i 0 = c.count i := by
  unfold bincount
  by_cases h : i < max (size c) ml
  · simp [List.getD_eq_getElem?_getD, h]
  · simp [List.getD_eq_getElem?_getD, h]
    exact (count_eq_zero_of_size_le c i (by omega)).symm

theorem addPrefix_length (long short : List Nat) (h : short.length ≤ long.length) :
    (addPrefix long short).length = long.length := by
  simp [addPrefix]; omega

theorem addPrefix_getD (long short : List Nat) (h : short.length ≤ long.length) (i : Nat) :
    (addPrefix long short).getD i 0 = long.getD i 0 + short.getD i 0 := by
  unfold addPrefix
  simp only [List.getD_eq_getElem?_getD]
  by_cases hi : i < short.length
  · rw [List.getElem?_append_left (by simp; omega)]
    simp [List.getElem?_zipWith, hi]
    have h1 : i < long.length := by omega
    simp [List.getElem?_eq_getElem h1]
  · rw [List.getElem?_append_right (by simp; omega)]
    simp
    have : min short.length long.length = short.length := by omega
    rw [this]
    have e : short.length + (i - short.length) = i := by omega
    rw [e]
    have : short[i]? = none := by simp; omega
    simp [this]

theorem bincountReduce_length (a b : List Nat) : (bincountReduce a b).length = max a.length b.length := by
  unfold bincountReduce
  split
  · rw [addPrefix_length _ _ (by omega)]; omega
  · rw [addPrefix_length _ _ (by omega)]; omega

theorem bincountReduce_getD (a b : List Nat) (i : Nat) :
    (bincountReduce a b).getD i 0 = a.getD i 0 + b.getD i 0 := by
  unfold bincountReduce
  split
  · rw [addPrefix_getD _ _ (by omega)]
  · rw [addPrefix_getD _ _ (by omega)]; omega

theorem ext_getD (a b : List Nat) (hl : a.length = b.length) (h : ∀ i, a.getD i 0 = b.getD i 0) : a = b := by
  apply List.ext_getElem hl
  intro i h1 h2
  have := h i
  simp only [List.getD_eq_getElem?_getD, List.getElem?_eq_getElem h1, List.getElem?_eq_getElem h2] at this
  simpa using this

theorem bincountReduce_bincount (ml : Nat) (a b : List Nat) :
    bincountReduce (bincount ml a) (bincount ml b) = bincount ml (a ++ b) := by
  apply ext_getD
  · rw [bincountReduce_length, bincount_length, bincount_length, bincount_length, size_append]; omega
  · intro i
    rw [bincountReduce_getD, bincount_getD, bincount_getD, bincount_getD, List.count_append]

theorem bincount_chunks (ml : Nat) (cs : List (List Nat)) (h : cs ≠ []) :
    bincountStream ml cs = some (bincount ml cs.flatten) := by
  cases cs with
  | nil => exact absurd rfl h
  | cons c rest =>
    simp only [bincountStream, List.map_cons, reduce1, List.flatten_cons]
    congr 1
    clear h
    induction rest generalizing c with
    | nil => simp
    | cons d ds ih =>
      simp only [List.map_cons, List.foldl_cons, bincountReduce_bincount, List.flatten_cons]
      rw [ih (c ++ d)]
      simp

/-! ## histogram, k-mer counts -/
theorem zipWith_add_map_range (k : Nat) (f g : Nat → Nat) :
    List.zipWith (· + ·) ((List.range k).map f) ((List.range k).map g) = (List.range k).map (fun i => f i + g i) := by
  apply List.ext_getElem
  · simp
  · intro i h1 h2
    simp

theorem histogram_add (e : List Int) (a b : List Int) :
    List.zipWith (· + ·) (histogram e a) (histogram e b) = histogram e (a ++ b) := by
  unfold histogram
  rw [zipWith_add_map_range]
  simp [List.countP_append]

theorem histogram_comm (e : List Int) (a b : List Int) : histogram e (a ++ b) = histogram e (b ++ a) := by
  unfold histogram
  simp [List.countP_append, Nat.add_comm]

@[simp] theorem pyAdd_zero (v : List Nat) : pyAdd .zero v = .arr v := rfl
@[simp] theorem pyAdd_arr (a v : List Nat) : pyAdd (.arr a) v = .arr (List.zipWith (· + ·) a v) := rfl

private theorem hist_fold (e : List Int) (a : List Int) (rest : List (List Int)) :
    (rest.map (fun c => (histogram e c, e))).foldl (fun acc p => pyAdd acc p.1) (PySum.arr (histogram e a))
      = PySum.arr (histogram e (a ++ rest.flatten)) := by
  induction rest generalizing a with
  | nil => simp
  | cons d ds ih =>
    simp only [List.map_cons, List.foldl_cons, pyAdd_arr, histogram_add, List.flatten_cons]
    rw [ih]; simp

theorem histogramReduce_chunks (edges : List Int) (cs : List (List Int)) (h : cs ≠ []) :
    histogramReduce (cs.map (fun c => (histogram edges c, edges))) = some (histogram edges cs.flatten, edges) := by
  cases cs with
  | nil => exact absurd rfl h
  | cons c rest =>
    simp only [List.map_cons, histogramReduce, List.flatten_cons]
    cases rest with
    | nil => simp
    | cons d ds =>
      simp only [List.map_cons, List.foldl_cons, pyAdd_zero, hist_fold, histogram_add, List.flatten_cons]
      rw [histogram_comm]

/-- **histogram** with explicit edges: on a stream with at least one chunk the streamed call does what the
in-memory call does on the concatenated data - the same counts and edges when the edges never decrease, the same
`ValueError` when they do - for every chunking -/
theorem histogram_chunks (edges : List Int) (cs : List (List Int)) (h : cs ≠ []) :
    histogramStream edges cs = histogramMem edges cs.flatten := by
  unfold histogramStream histogramMem
  rw [if_neg h, histogramReduce_chunks edges cs h]

/-- `edgesMono` pinned by the standard notion: every edge is at most the next one -/
theorem edgesMono_iff (e : List Int) : edgesMono e = true ↔ ∀ i (h : i + 1 < e.length), e[i]'(by omega) ≤ e[i + 1] := by
  induction e with
  | nil => simp [edgesMono]
  | cons a t ih =>
    cases t with
    | nil => simp [edgesMono]
    | cons b t2 =>
      have hstep : edgesMono (a :: b :: t2) = (decide (a ≤ b) && edgesMono (b :: t2)) := by
        simp [edgesMono]
      rw [hstep, Bool.and_eq_true, ih]
      constructor
      · rintro ⟨hab, hrest⟩ i hi
        cases i with
        | zero => simpa using hab
        | succ j => exact hrest j (by simpa using hi)
      · intro hall
        refine ⟨by simpa using hall 0 (by simp), fun i hi => ?_⟩
        exact hall (i + 1) (by simpa using hi)

/-- the in-memory histogram raises exactly on edges that decrease somewhere (any number of edges is accepted:
fewer than two give no bins) -/
theorem histogramMem_error_iff (e : List Int) (c : List Int) :
    histogramMem e c = .error .badEdges ↔ ∃ i, ∃ h : i + 1 < e.length, e[i + 1] < e[i]'(by omega) := by
  have hm := edgesMono_iff e
  unfold histogramMem
  cases hE : edgesMono e
  · simp only [Bool.false_eq_true, if_false, true_iff]
    rcases Classical.em (∃ i, ∃ h : i + 1 < e.length, e[i + 1] < e[i]'(by omega)) with hx | hx
    · exact hx
    · exfalso
      have : edgesMono e = true := hm.2 (fun i hi => by
        by_cases hlt : e[i + 1] < e[i]'(by omega)
        · exact absurd ⟨i, hi, hlt⟩ hx
        · omega)
      simp [hE] at this
  · simp only [if_true, reduceCtorEq, false_iff]
    rintro ⟨i, hi, hlt⟩
    have := (hm.1 hE) i hi
    omega

theorem kmerHashes_append (A k : Nat) (a b : List (List Nat)) :
    kmerHashes A k (a ++ b) = kmerHashes A k a ++ kmerHashes A k b := by
  simp [kmerHashes]

theorem kmerCounts_add (A k : Nat) (a b : List (List Nat)) :
    List.zipWith (· + ·) (kmerCounts A k a) (kmerCounts A k b) = kmerCounts A k (a ++ b) := by
  unfold kmerCounts
  rw [zipWith_add_map_range]
  simp [kmerHashes_append, List.count_append]

private theorem kmer_fold (A k : Nat) (a : List (List Nat)) (rest : List (List (List Nat))) :
    (rest.map (kmerCounts A k)).foldl pyAdd (PySum.arr (kmerCounts A k a)) = PySum.arr (kmerCounts A k (a ++ rest.flatten)) := by
  induction rest generalizing a with
  | nil => simp
  | cons d ds ih =>
    simp only [List.map_cons, List.foldl_cons, pyAdd_arr, kmerCounts_add, List.flatten_cons]
    rw [ih]; simp

theorem count_kmers_chunks (A k : Nat) (cs : List (List (List Nat))) (h : cs ≠ []) :
    countKmersStream A k cs = PySum.arr (kmerCounts A k cs.flatten) := by
  cases cs with
  | nil => exact absurd rfl h
  | cons c rest =>
    simp only [countKmersStream, List.map_cons, List.foldl_cons, pyAdd_zero, kmer_fold, List.flatten_cons]

/-! ## mean over axis 0, row-wise maps, quantiles -/

theorem colSums_append (w : Nat) (a b : List (List Int)) :
    List.zipWith (· + ·) (colSums w a) (colSums w b) = colSums w (a ++ b) := by
  unfold colSums
  apply List.ext_getElem
  · simp
  · intro i h1 h2
    simp [List.sum_append]

theorem sumAndNCols_append (w : Nat) (a b : List (List Int)) :
    List.zipWith (· + ·) (sumAndNCols w a) (sumAndNCols w b) = sumAndNCols w (a ++ b) := by
  unfold sumAndNCols
  rw [List.zipWith_append (by simp [colSums]), colSums_append]
  simp

@[simp] theorem pyAddI_zero (v : List Int) : pyAddI .zero v = .arr v := rfl
@[simp] theorem pyAddI_arr (a v : List Int) : pyAddI (.arr a) v = .arr (List.zipWith (· + ·) a v) := rfl

private theorem meanCols_fold (w : Nat) (a : List (List Int)) (rest : List (List (List Int))) :
    (rest.map (sumAndNCols w)).foldl pyAddI (PySumI.arr (sumAndNCols w a)) = PySumI.arr (sumAndNCols w (a ++ rest.flatten)) := by
  induction rest generalizing a with
  | nil => simp
  | cons d ds ih =>
    simp only [List.map_cons, List.foldl_cons, pyAddI_arr, sumAndNCols_append, List.flatten_cons]
    rw [ih]; simp

/-- **mean over axis 0** of a stream of 2-d chunks: the (column sums, row count) vectors of the chunks add
up to those of all rows, for every chunking (empty chunks included). Partial: exact integer arithmetic,
the final division `t[:-1] / t[-1]` and float re-association are runtime behaviour. -/
theorem mean_axis0_chunks_partial (w : Nat) (cs : List (List (List Int))) (h : cs ≠ []) :
    meanColsStream w cs = PySumI.arr (sumAndNCols w cs.flatten) := by
  cases cs with
  | nil => exact absurd rfl h
  | cons c rest =>
    simp only [meanColsStream, List.map_cons, List.foldl_cons, pyAddI_zero, meanCols_fold, List.flatten_cons]

/-- the column sums really are the sums of the columns: entry `j` adds the `j`-th cell of every row -/
theorem colSums_getElem (w : Nat) (rows : List (List Int)) (j : Nat) (hj : j < w) :
    (colSums w rows)[j]? = some ((rows.map (fun r => r.getD j 0)).sum) := by
  simp [colSums, hj]

/-- **`streamable()` without a reduction** (e.g. `mean(axis=1)`): a row-wise function applied chunk by
chunk and concatenated is the function applied to all rows, for every chunking -/
theorem map_chunks {α β} (g : α → β) (cs : List (List α)) :
    (mapStream (List.map g) cs).flatten = cs.flatten.map g := by
  simp [mapStream, List.map_flatten]

/-- **quantiles** (`quantile(stream, q)`): computed from the streamed bincount, so equal to the quantile
index of the concatenated data for every chunking. Partial: `q * total` is a float product at run time. -/
theorem quantile_chunks_partial (cs : List (List Nat)) (p d : Nat) (h : cs ≠ []) :
    quantileStream cs p d = quantileMem cs.flatten p d := by
  simp [quantileStream, quantileMem, bincount_chunks 0 cs h]

theorem cumsumFrom_length (acc : Nat) (l : List Nat) : (cumsumFrom acc l).length = l.length := by
  induction l generalizing acc with
  | nil => rfl
  | cons x xs ih => simp [cumsumFrom, ih]

/-- `np.cumsum` pinned by the standard notion: entry `i` is the sum of the first `i+1` counts -/
theorem cumsumFrom_getElem (acc : Nat) (l : List Nat) (i : Nat) (h : i < l.length) :
    (cumsumFrom acc l)[i]? = some (acc + (l.take (i + 1)).sum) := by
  induction l generalizing acc i with
  | nil => simp at h
  | cons x xs ih =>
    cases i with
    | zero => simp [cumsumFrom]
    | succ i =>
      simp only [cumsumFrom, List.getElem?_cons_succ, List.take_succ_cons, List.sum_cons]
      rw [ih (acc + x) i (by simpa using h)]
      simp; omega

/-! ## group-by: lemmas -/
section groupby
variable {α κ : Type} [DecidableEq κ]

/-- flatten groups to (key, entry) pairs -/
def expand (L : List (κ × List α)) : List (κ × α) := (L.map (fun p => p.2.map (fun a => (p.1, a)))).flatten

/-- runs of a list of (key, entry) pairs -/
def runsP : List (κ × α) → List (κ × List α)
  | [] => []
  | (k, a) :: rest =>
    match runsP rest with
    | (k', g) :: r => if k = k' then (k', a :: g) :: r else (k, [a]) :: (k', g) :: r
    | [] => [(k, [a])]

theorem runs_eq_runsP (key : α → κ) (xs : List α) : runs key xs = runsP (xs.map (fun x => (key x, x))) := by
  induction xs with
  | nil => rfl
  | cons a as ih =>
    simp only [runs, List.map_cons, runsP, ih]
    generalize runsP (List.map (fun x => (key x, x)) as) = R
    cases R with
    | nil => rfl
    | cons p r => obtain ⟨k, g⟩ := p; rfl

theorem expand_cons (k : κ) (g : List α) (L : List (κ × List α)) :
    expand ((k, g) :: L) = g.map (fun a => (k, a)) ++ expand L := by
  simp [expand]

theorem runsP_const_append (k : κ) (g : List α) (hg : g ≠ []) (R : List (κ × α)) :
    runsP (g.map (fun a => (k, a)) ++ R) =
      (match runsP R with
       | (k', g') :: r => if k = k' then (k', g ++ g') :: r else (k, g) :: (k', g') :: r
       | [] => [(k, g)]) := by
  induction g with
  | nil => exact absurd rfl hg
  | cons a t ih =>
    cases t with
    | nil => simp [runsP]
    | cons b t' =>
      have ih' := ih (by simp)
      simp only [List.map_cons, List.cons_append] at ih' ⊢
      rw [runsP, ih']
      cases hR : runsP R with
      | nil => simp
      | cons p r =>
        obtain ⟨k', g'⟩ := p
        by_cases hk : k = k'
        · subst hk; simp
        · simp [hk]

theorem joinGroups_eq (L : List (κ × List α)) (h : ∀ p ∈ L, p.2 ≠ []) : joinGroups L = runsP (expand L) := by
  induction L with
  | nil => rfl
  | cons p L ih =>
    obtain ⟨k, g⟩ := p
    have hg : g ≠ [] := h (k, g) (by simp)
    have ih' := ih (fun p hp => h p (by simp [hp]))
    rw [expand_cons, runsP_const_append k g hg, joinGroups, ih']
    cases runsP (expand L) with
    | nil => rfl
    | cons q r =>
      obtain ⟨k', g'⟩ := q
      by_cases hk : k = k'
      · subst hk; simp
      · simp [hk]

theorem runsP_nonempty (l : List (κ × α)) : ∀ p ∈ runsP l, p.2 ≠ [] := by
  induction l with
  | nil => simp [runsP]
  | cons x xs ih =>
    obtain ⟨k, a⟩ := x
    simp only [runsP]
    cases h : runsP xs with
    | nil => intro p hp; simp at hp; subst hp; simp
    | cons q r =>
      obtain ⟨k', g'⟩ := q
      rw [h] at ih
      by_cases hk : k = k'
      · simp only [hk, ↓reduceIte]
        intro p hp
        simp only [List.mem_cons] at hp
        rcases hp with e | e
        · rw [e]; exact List.cons_ne_nil _ _
        · exact ih p (by simp [e])
      · simp only [hk, ↓reduceIte]
        intro p hp
        simp only [List.mem_cons] at hp
        rcases hp with e | e | e
        · rw [e]; exact List.cons_ne_nil _ _
        · exact ih p (by simp [e])
        · exact ih p (by simp [e])

theorem expand_runsP (l : List (κ × α)) : expand (runsP l) = l := by
  induction l with
  | nil => rfl
  | cons x xs ih =>
    obtain ⟨k, a⟩ := x
    simp only [runsP]
    cases h : runsP xs with
    | nil =>
      rw [h] at ih
      simp [expand] at ih ⊢
      exact ih
    | cons q r =>
      obtain ⟨k', g'⟩ := q
      rw [h] at ih
      by_cases hk : k = k'
      · subst hk
        simp [expand] at ih ⊢
        exact ih
      · simp [hk, expand] at ih ⊢
        exact ih

theorem expand_append (A B : List (κ × List α)) : expand (A ++ B) = expand A ++ expand B := by
  simp [expand]

theorem expand_flatten_runs (key : α → κ) (cs : List (List α)) :
    expand ((cs.map (runs key)).flatten) = cs.flatten.map (fun x => (key x, x)) := by
  induction cs with
  | nil => rfl
  | cons c cs ih =>
    simp only [List.map_cons, List.flatten_cons, expand_append, ih, List.map_append]
    rw [runs_eq_runsP, expand_runsP]

theorem runs_nonempty (key : α → κ) (c : List α) : ∀ p ∈ runs key c, p.2 ≠ [] := by
  rw [runs_eq_runsP]; exact runsP_nonempty _

/-- joining the per-chunk runs gives the runs of the whole (no hypothesis on the keys) -/
theorem join_runs (key : α → κ) (cs : List (List α)) :
    joinGroups ((cs.map (runs key)).flatten) = runs key cs.flatten := by
  rw [joinGroups_eq, expand_flatten_runs, ← runs_eq_runsP]
  intro p hp
  simp only [List.mem_flatten, List.mem_map] at hp
  obtain ⟨l, ⟨c, _, rfl⟩, hpl⟩ := hp
  exact runs_nonempty key c p hpl



theorem sliceGroups_single [Inhabited α] (key : α → κ) (c : List α) (s : Nat) : sliceGroups key c [s] = [] := by
  simp [sliceGroups]

theorem sliceGroups_cons2 [Inhabited α] (key : α → κ) (c : List α) (s e : Nat) (B : List Nat) :
    sliceGroups key c (s :: e :: B) = (key c[s]!, (c.drop s).take (e - s)) :: sliceGroups key c (e :: B) := by
  simp [sliceGroups]

theorem sliceGroups_shift [Inhabited α] (key : α → κ) (a : α) (c : List α) (B : List Nat) :
    sliceGroups key (a :: c) (B.map (· + 1)) = sliceGroups key c B := by
  induction B with
  | nil => simp [sliceGroups]
  | cons s B ih =>
    cases B with
    | nil => simp [sliceGroups]
    | cons e B' =>
      simp only [List.map_cons] at ih ⊢
      rw [sliceGroups_cons2, sliceGroups_cons2, ih]
      congr 2 <;> simp

theorem runs_head (key : α → κ) (b : α) (t : List α) :
    ∃ g rest, runs key (b :: t) = (key b, b :: g) :: rest := by
  simp only [runs]
  cases h : runs key t with
  | nil => exact ⟨[], [], rfl⟩
  | cons p r =>
    obtain ⟨k, g⟩ := p
    by_cases hk : key b = k
    · subst hk; exact ⟨g, r, by simp⟩
    · exact ⟨[], (k, g) :: r, by simp [hk]⟩

theorem changePoints_pos (ks : List κ) : ∀ e ∈ changePoints ks, 1 ≤ e := by
  match ks with
  | [] => simp [changePoints]
  | [_] => simp [changePoints]
  | a :: b :: rest =>
    simp only [changePoints]
    intro e he
    split at he
    · simp at he; omega
    · simp at he; omega

theorem sliceGroups_eq_runs [Inhabited α] (key : α → κ) (c : List α) (hc : c ≠ []) :
    sliceGroups key c (0 :: changePoints (c.map key) ++ [c.length]) = runs key c := by
  induction c with
  | nil => exact absurd rfl hc
  | cons a c' ih =>
    cases c' with
    | nil => simp [changePoints, sliceGroups, runs]
    | cons b t =>
      have ih' := ih (by simp)
      obtain ⟨g0, rest0, hr⟩ := runs_head key b t
      -- bounds of the tail, shifted by one
      have hshift : sliceGroups key (a :: b :: t)
          (1 :: (changePoints ((b :: t).map key)).map (· + 1) ++ [(b :: t).length + 1]) = runs key (b :: t) := by
        rw [← ih', ← sliceGroups_shift key a (b :: t)]
        simp
      simp only [List.map_cons, changePoints, List.length_cons, List.cons_append] at hshift ⊢
      by_cases hk : key a = key b
      · simp only [hk, ne_eq, not_true_eq_false, ↓reduceIte]
        rw [runs, hr]
        simp only [hk, ↓reduceIte]
        -- first bound after 0
        obtain ⟨T, hT⟩ : ∃ T, T = List.map (fun x => x + 1) (changePoints (key b :: List.map key t)) ++ [t.length + 1 + 1] := ⟨_, rfl⟩
        rw [← hT] at hshift ⊢
        cases T with
        | nil => simp at hT
        | cons e T' =>
          have he : 1 ≤ e := by
            have : e ∈ List.map (fun x => x + 1) (changePoints (key b :: List.map key t)) ++ [t.length + 1 + 1] := by
              rw [← hT]; simp
            simp at this
            rcases this with ⟨x, _, rfl⟩ | rfl <;> omega
          rw [sliceGroups_cons2] at hshift ⊢
          rw [hr] at hshift
          simp only [List.cons.injEq, Prod.mk.injEq] at hshift
          obtain ⟨⟨_, h2⟩, h3⟩ := hshift
          rw [h3]
          simp only [List.getElem!_cons_zero, List.drop_zero, Nat.sub_zero, hk]
          congr 2
          obtain ⟨e', rfl⟩ : ∃ e', e = e' + 1 := ⟨e - 1, by omega⟩
          rw [List.take_succ_cons]
          simpa using h2
      · simp only [hk, ne_eq, not_false_eq_true, ↓reduceIte, List.cons_append]
        have e : runs key (a :: b :: t) = (key a, [a]) :: (key b, b :: g0) :: rest0 := by
          rw [runs, hr]; simp [hk]
        rw [sliceGroups_cons2, hshift, hr, e]
        simp

theorem runs_const (key : α → κ) (k : κ) (c : List α) (hc : c ≠ []) (h : ∀ x ∈ c, key x = k) :
    runs key c = [(k, c)] := by
  induction c with
  | nil => exact absurd rfl hc
  | cons a t ih =>
    cases t with
    | nil => simp [runs, h a (by simp)]
    | cons b t' =>
      have := ih (by simp) (fun x hx => h x (by simp [hx]))
      rw [runs, this]
      simp [h a (by simp)]

theorem contig_infix (p m s : List κ) (h : Contig (p ++ m ++ s)) : Contig m := by
  intro p' q r x y hm hx
  exact h (p ++ p') q (r ++ s) x y (by rw [hm]; simp) (by simp [hx])

theorem contig_all_eq (x : κ) (mid : List κ) (h : Contig (x :: mid ++ [x])) : ∀ y ∈ mid, y = x := by
  intro y hy
  obtain ⟨q, r', rfl⟩ := List.append_of_mem hy
  exact h [] q (r' ++ [x]) x y (by simp) (by simp)

theorem head_last_all_eq (ks : List κ) (hc : Contig ks) (hl : ks.head? = ks.getLast?) (x : κ) (hx : ks.head? = some x) :
    ∀ y ∈ ks, y = x := by
  cases ks with
  | nil => simp
  | cons a t =>
    simp at hx; subst hx
    rcases List.eq_nil_or_concat t with rfl | ⟨mid, z, rfl⟩
    · simp
    · simp only [List.concat_eq_append] at hc hl ⊢
      have hz : z = a := by
        rw [show a :: (mid ++ [z]) = (a :: mid) ++ [z] from rfl, List.getLast?_concat] at hl
        simpa using hl.symm
      subst hz
      intro y hy
      simp at hy
      rcases hy with rfl | hy | rfl
      · rfl
      · exact contig_all_eq z mid (by simpa using hc) y hy
      · rfl

/-- each chunk's groups are its runs: the change-point slicing in general, the first-key = last-key
shortcut because contiguous keys with equal ends are all equal -/
theorem groupbyChunk_eq_runs [Inhabited α] (fast : Bool) (key : α → κ) (c : List α)
    (hcon : Contig (c.map key)) : groupbyChunk fast key c = some (runs key c) := by
  cases c with
  | nil => rfl
  | cons a t =>
    simp only [groupbyChunk]
    split
    · rename_i hf
      simp only [Bool.and_eq_true, decide_eq_true_eq] at hf
      have hall := head_last_all_eq _ hcon hf.2 (key a) (by simp)
      rw [runs_const key (key a) (a :: t) (by simp)]
      · simp
      · intro x hx; exact hall (key x) (List.mem_map_of_mem hx)
    · rw [sliceGroups_eq_runs key (a :: t) (by simp)]

end groupby

/-! ## re-chunking: lemmas -/
section rechunk
variable {α : Type}

theorem chopGo_fuel2 (n : Nat) (hn : 0 < n) (f g : Nat) (xs : List α) (h : xs.length ≤ f) (h' : xs.length ≤ g) :
    chopGo n f xs = chopGo n g xs := by
  induction f generalizing g xs with
  | zero =>
    have : xs = [] := List.length_eq_zero_iff.mp (by omega)
    subst this
    cases g <;> simp [chopGo]
  | succ f ih =>
    cases xs with
    | nil => cases g <;> simp [chopGo]
    | cons a t =>
      simp only [List.length_cons] at h h'
      cases g with
      | zero => omega
      | succ g =>
        simp only [chopGo, reduceCtorEq, ↓reduceIte]
        congr 1
        have hd : (List.drop n (a :: t)).length ≤ t.length := by
          simp only [List.length_drop, List.length_cons]; omega
        exact ih g _ (by omega) (by omega)

theorem chopGo_fuel (n : Nat) (hn : 0 < n) (f : Nat) (xs : List α) (h : xs.length ≤ f) :
    chopGo n f xs = chopGo n xs.length xs := chopGo_fuel2 n hn f xs.length xs h (Nat.le_refl _)

theorem chop_nil (n : Nat) : chop n ([] : List α) = [] := rfl

theorem chop_eq (n : Nat) (hn : 0 < n) (xs : List α) (h : xs ≠ []) :
    chop n xs = xs.take n :: chop n (xs.drop n) := by
  cases xs with
  | nil => exact absurd rfl h
  | cons a t =>
    simp only [chop, List.length_cons, chopGo]
    simp only [reduceCtorEq, ↓reduceIte]
    congr 1
    exact chopGo_fuel n hn _ _ (by simp; omega)

theorem chop_flatten_aux (n : Nat) (hn : 0 < n) (m : Nat) (xs : List α) (hm : xs.length ≤ m) :
    (chop n xs).flatten = xs := by
  induction m generalizing xs with
  | zero =>
    have : xs = [] := List.length_eq_zero_iff.mp (by omega)
    subst this; rfl
  | succ m ih =>
    by_cases hx : xs = []
    · subst hx; rfl
    · rw [chop_eq n hn xs hx, List.flatten_cons]
      have hl : (xs.drop n).length ≤ m := by
        have : 0 < xs.length := List.length_pos_iff.mpr hx
        simp only [List.length_drop]; omega
      rw [ih (xs.drop n) hl, List.take_append_drop]

theorem chop_flatten (n : Nat) (hn : 0 < n) (xs : List α) : (chop n xs).flatten = xs :=
  chop_flatten_aux n hn xs.length xs (Nat.le_refl _)

/-- every piece has between 1 and n entries, and every piece that is not the last has exactly n -/
theorem chop_sizes_aux (n : Nat) (hn : 0 < n) (m : Nat) (xs : List α) (hm : xs.length ≤ m) :
    (∀ c ∈ chop n xs, 1 ≤ c.length ∧ c.length ≤ n) ∧
    (∀ i, i + 1 < (chop n xs).length → ((chop n xs)[i]?).map List.length = some n) := by
  induction m generalizing xs with
  | zero =>
    have : xs = [] := List.length_eq_zero_iff.mp (by omega)
    subst this; simp [chop_nil]
  | succ m ih =>
    by_cases hx : xs = []
    · subst hx; simp [chop_nil]
    · have hpos : 0 < xs.length := List.length_pos_iff.mpr hx
      have hl : (xs.drop n).length ≤ m := by simp only [List.length_drop]; omega
      obtain ⟨ih1, ih2⟩ := ih (xs.drop n) hl
      rw [chop_eq n hn xs hx]
      constructor
      · intro c hc
        simp only [List.mem_cons] at hc
        rcases hc with rfl | hc
        · simp; omega
        · exact ih1 c hc
      · intro i hi
        cases i with
        | zero =>
          simp only [List.length_cons] at hi
          have hne : chop n (xs.drop n) ≠ [] := by
            intro e; rw [e] at hi; simp at hi
          have : xs.drop n ≠ [] := by
            intro e; rw [e] at hne; exact hne rfl
          have : n < xs.length := by
            have := List.length_pos_iff.mpr this
            simp only [List.length_drop] at this; omega
          simp; omega
        | succ j =>
          simp only [List.length_cons] at hi
          simpa using ih2 j (by omega)

/-- every piece has between 1 and n entries, and every piece that is not the last has exactly n -/
theorem chop_sizes (n : Nat) (hn : 0 < n) (xs : List α) :
    (∀ c ∈ chop n xs, 1 ≤ c.length ∧ c.length ≤ n) ∧
    (∀ i, i + 1 < (chop n xs).length → ((chop n xs)[i]?).map List.length = some n) :=
  chop_sizes_aux n hn xs.length xs (Nat.le_refl _)

theorem emit_spec (n : Nat) (hn : 0 < n) (f : Nat) (t : List α) (hf : t.length ≤ f) :
    (emit n f t).2.length < n ∧
    ∀ more : List α, (emit n f t).1 ++ chop n ((emit n f t).2 ++ more) = chop n (t ++ more) := by
  induction f generalizing t with
  | zero =>
    have : t = [] := List.length_eq_zero_iff.mp (by omega)
    subst this
    simp [emit, hn]
  | succ f ih =>
    simp only [emit]
    split
    · rename_i hge
      obtain ⟨h1, h2⟩ := ih (t.drop n) (by simp; omega)
      refine ⟨h1, fun more => ?_⟩
      simp only [List.cons_append]
      rw [h2 more]
      have hne : t ++ more ≠ [] := by
        intro e
        have : (t ++ more).length = 0 := by rw [e]; rfl
        simp only [List.length_append] at this; omega
      rw [chop_eq n hn (t ++ more) hne]
      rw [List.take_append_of_le_length hge, List.drop_append_of_le_length hge]
    · rename_i hlt
      exact ⟨by simpa using hlt, fun more => by simp⟩

theorem chop_small (n : Nat) (hn : 0 < n) (b : List α) (h1 : 0 < b.length) (h2 : b.length ≤ n) : chop n b = [b] := by
  have hb : b ≠ [] := List.length_pos_iff.mp h1
  rw [chop_eq n hn b hb, List.take_of_length_le h2, List.drop_eq_nil_of_le h2, chop_nil]

theorem chunkEntriesGo_eq (n : Nat) (hn : 0 < n) (buf : List α) (hb : buf.length < n) (cs : List (List α)) :
    chunkEntriesGo n buf cs = chop n (buf ++ cs.flatten) := by
  induction cs generalizing buf with
  | nil =>
    simp only [chunkEntriesGo, List.flatten_nil, List.append_nil]
    split
    · rename_i h; exact (chop_small n hn buf h (by omega)).symm
    · rename_i h
      have : buf = [] := List.length_eq_zero_iff.mp (by omega)
      subst this; rfl
  | cons c cs ih =>
    simp only [chunkEntriesGo, List.flatten_cons]
    obtain ⟨h1, h2⟩ := emit_spec n hn (buf ++ c).length (buf ++ c) (Nat.le_refl _)
    rw [ih _ h1, h2, List.append_assoc]

/-- the repaired `chunk_entries` is the canonical cut of the concatenated stream -/
theorem rechunk_entries (n : Nat) (hn : 0 < n) (cs : List (List α)) :
    chunkEntries n cs = some (chop n cs.flatten) := by
  unfold chunkEntries
  rw [if_neg (by omega), chunkEntriesGo_eq n hn [] (by simpa using hn)]
  simp

theorem linesInner_spec (n : Nat) (hn : 0 < n) (f : Nat) (cur chunk : List α) (hc : cur.length < n)
    (hf : chunk.length < f) :
    (linesInner n f cur chunk).2.length < n ∧
    ∀ more : List α, (linesInner n f cur chunk).1 ++ chop n ((linesInner n f cur chunk).2 ++ more)
      = chop n (cur ++ chunk ++ more) := by
  induction f generalizing cur chunk with
  | zero => omega
  | succ f ih =>
    simp only [linesInner]
    split
    · rename_i hge
      have hd : (chunk.drop (n - cur.length)).length < f := by simp; omega
      obtain ⟨h1, h2⟩ := ih [] (chunk.drop (n - cur.length)) (by simpa using hn) hd
      refine ⟨h1, fun more => ?_⟩
      simp only [List.cons_append]
      rw [h2 more]
      have hne : cur ++ chunk ++ more ≠ [] := by
        intro e
        have : (cur ++ chunk ++ more).length = 0 := by rw [e]; rfl
        simp only [List.length_append] at this; omega
      rw [chop_eq n hn _ hne]
      have e1 : (cur ++ chunk ++ more).take n = cur ++ chunk.take (n - cur.length) := by
        rw [List.append_assoc, List.take_append, List.take_of_length_le (by omega)]
        congr 1
        rw [List.take_append_of_le_length hge]
      have e2 : (cur ++ chunk ++ more).drop n = chunk.drop (n - cur.length) ++ more := by
        rw [List.append_assoc, List.drop_append, List.drop_eq_nil_of_le (by omega)]
        simp only [List.nil_append]
        rw [List.drop_append_of_le_length hge]
      rw [e1, e2]; simp
    · rename_i hlt
      refine ⟨by simp; omega, fun more => by simp⟩

theorem chunkLinesGo_eq (n : Nat) (hn : 0 < n) (cur : List α) (hc : cur.length < n) (cs : List (List α)) :
    chunkLinesGo n false cur cs = chop n (cur ++ cs.flatten) := by
  induction cs generalizing cur with
  | nil =>
    simp only [chunkLinesGo, List.flatten_nil, List.append_nil, Bool.false_or]
    split
    · rename_i h; exact (chop_small n hn cur (by simpa using h) (by omega)).symm
    · rename_i h
      have : cur = [] := List.length_eq_zero_iff.mp (by simp only [decide_eq_true_eq] at h; omega)
      subst this; rfl
  | cons c cs ih =>
    simp only [chunkLinesGo, List.flatten_cons]
    obtain ⟨h1, h2⟩ := linesInner_spec n hn (c.length + 1) cur c hc (by omega)
    rw [ih _ h1, h2]
    simp

theorem rechunk_lines (n : Nat) (hn : 0 < n) (cs : List (List α)) :
    chunkLines n cs = some (chop n cs.flatten) := by
  unfold chunkLines
  rw [if_neg (by omega), chunkLinesGo_eq n hn [] (by simpa using hn)]
  simp

end rechunk

/-! ## property theorems: group-by -/
section groupbyMain
variable {α κ : Type} [DecidableEq κ]

/-- chunks of a stream whose concatenated keys are contiguous have contiguous keys -/
theorem contig_chunk (key : α → κ) (cs : List (List α)) (h : Contig (cs.flatten.map key))
    (c : List α) (hc : c ∈ cs) : Contig (c.map key) := by
  obtain ⟨L, R, rfl⟩ := List.append_of_mem hc
  apply contig_infix (L.flatten.map key) (c.map key) (R.flatten.map key)
  simpa using h

/-- **group-by on a sorted key**: for every chunking of `data` (chunks of one entry, cuts inside a
group, …) whose equal keys are contiguous, grouping each chunk (change points or the first = last
shortcut) and joining equal consecutive keys gives exactly the runs of the whole data. -/
theorem groupby_chunks [Inhabited α] (fast : Bool) (key : α → κ) (data : List α) (cs : List (List α))
    (hcs : IsChunking data cs) (hcon : Contig (data.map key)) :
    groupbyStream fast key cs = some (runs key data) := by
  have hflat : cs.flatten = data := hcs
  subst hflat
  have h1 : omap (groupbyChunk fast key) cs = some (cs.map (runs key)) :=
    omap_some_map _ _ _ (fun c hc => groupbyChunk_eq_runs fast key c (contig_chunk key cs hcon c hc))
  simp only [groupbyStream, h1, join_runs]

/-- without the shortcut (string / integer key columns) no hypothesis on the keys is needed -/
theorem groupby_chunks_any_keys [Inhabited α] (key : α → κ) (data : List α) (cs : List (List α))
    (hcs : IsChunking data cs) : groupbyStream false key cs = some (runs key data) := by
  have hflat : cs.flatten = data := hcs
  subst hflat
  have h1 : omap (groupbyChunk false key) cs = some (cs.map (runs key)) := by
    apply omap_some_map
    intro c hc
    cases c with
    | nil => rfl
    | cons a t =>
      simp only [groupbyChunk, Bool.false_and, Bool.false_eq_true, ↓reduceIte]
      rw [sliceGroups_eq_runs key (a :: t) (by simp)]
  simp only [groupbyStream, h1, join_runs]

/-- the shortcut really needs the sortedness the property assumes: on keys 1,2,1 in one chunk it
returns a single group (outside the property's domain) -/
theorem groupby_fast_needs_contig :
    groupbyStream true (fun x : Nat => x) [[1, 2, 1]] ≠ some (runs (fun x : Nat => x) [1, 2, 1]) := by decide

end groupbyMain

/-- a sorted key column has contiguous equal keys -/
theorem sorted_contig (ks : List Nat) (h : ks.Pairwise (· ≤ ·)) : Contig ks := by
  intro p q r x y hk hx
  subst hk
  rw [List.pairwise_append] at h
  obtain ⟨_, h2, h3⟩ := h
  have hxy : x ≤ y := h3 x (by simp) y (by simp)
  have hyx : y ≤ x := by
    rw [List.pairwise_cons] at h2
    exact h2.1 x hx
  omega

/-! ## property theorems: re-chunking -/
section rechunkMain
variable {α : Type}

/-- **re-chunking** (`chunk_entries` and `chunk_lines`, repaired): for every stream and every `n ≥ 1`
both return the same chunks; order and content are preserved, every chunk has `1..n` entries and
every chunk except the last has exactly `n`. -/
theorem rechunk (n : Nat) (hn : 0 < n) (cs : List (List α)) :
    ∃ out, chunkEntries n cs = some out ∧ chunkLines n cs = some out ∧ out.flatten = cs.flatten ∧
      (∀ c ∈ out, 1 ≤ c.length ∧ c.length ≤ n) ∧
      (∀ i, i + 1 < out.length → (out[i]?).map List.length = some n) :=
  ⟨chop n cs.flatten, rechunk_entries n hn cs, rechunk_lines n hn cs, chop_flatten n hn _,
    (chop_sizes n hn _).1, (chop_sizes n hn _).2⟩

end rechunkMain

/-- the shipped `chunk_entries` (one `if` per incoming chunk) violates the property:
one 10-entry chunk, n = 3 gives sizes [3, 7] -/
theorem chunkEntriesOld_unsound :
    (chunkEntriesOld 3 [[0, 1, 2, 3, 4, 5, 6, 7, 8, 9]]).map List.length = [3, 7] ∧
    chunkEntriesOld 3 [[0, 1, 2, 3, 4, 5, 6, 7, 8, 9]] ≠ chop 3 [0, 1, 2, 3, 4, 5, 6, 7, 8, 9] := by decide

/-- the shipped `groupby` raised on an empty table in the stream; the repaired one (5241510) yields no groups, and
every chunking with empty chunks groups like the concatenated data -/
theorem groupbyChunkOld_unsound :
    groupbyChunkOld false (fun x : Nat => x) [] = none ∧ groupbyChunk false (fun x : Nat => x) [] = some [] ∧
    groupbyStream true (fun x : Nat => x) [[1], [], [1, 2], []] = some [(1, [1, 1]), (2, [2])] := by decide

/-- the shipped `chunk_lines` yields an empty trailing chunk when `n` divides the total, and raises
on an empty stream -/
theorem chunkLinesOld_unsound :
    chunkLinesOld 5 [[1, 2, 3, 4, 5]] = some [[1, 2, 3, 4, 5], []] ∧
    chunkLinesOld 2 ([] : List (List Nat)) = none ∧
    chunkLines 2 ([] : List (List Nat)) = some [] := by decide

/-- the shipped `StreamNode.compute` lost the first chunk; the repaired one (`get_iter`) does not -/
theorem streamComputeOld_unsound :
    streamComputeOld [[1, 2], [3], [4, 5]] = some [3, 4, 5] ∧ streamComputeOld [[1, 2]] = none ∧
    (computeGraph [.stream [[1, 2], [3], [4, 5]]] 0 5).toOption.map (·.1) = some [1, 2, 3, 4, 5] := by decide


/-! ## computation graph: lock step -/

def argNodes : Arg → List Nat
  | .node m => [m]
  | .const _ => []

def nodeArgs : NodeDef → List Nat
  | .stream _ => []
  | .comp _ a b => argNodes a ++ argNodes b

/-- construction order: the arguments of a node were constructed before it -/
def WFG (g : List NodeDef) : Prop := ∀ n d, g[n]? = some d → ∀ m ∈ nodeArgs d, m < n

theorem argValWith_congr (r1 r2 : Nat → Option (List Int)) (n : Nat) (x : Arg)
    (h : ∀ m, m < n → r1 m = r2 m) : argValWith r1 n x = argValWith r2 n x := by
  cases x with
  | const c => rfl
  | node m =>
    simp only [argValWith]
    split
    · rename_i hm; rw [h m hm]
    · rfl

theorem valAt_fuel2 (g : List NodeDef) (i : Nat) (f1 f2 n : Nat) (h1 : n < f1) (h2 : n < f2) :
    valAt g i f1 n = valAt g i f2 n := by
  induction f1 generalizing f2 n with
  | zero => omega
  | succ a ih =>
    cases f2 with
    | zero => omega
    | succ b =>
      simp only [valAt]
      cases hg : g[n]? with
      | none => rfl
      | some d =>
        cases d with
        | stream cs => rfl
        | comp fn x y =>
          simp only
          rw [argValWith_congr (valAt g i a) (valAt g i b) n x (fun m hm => ih b m (by omega) (by omega)),
            argValWith_congr (valAt g i a) (valAt g i b) n y (fun m hm => ih b m (by omega) (by omega))]

@[simp] theorem idxOk_same (i : Nat) : idxOk (some i) i = true := by simp [idxOk]
@[simp] theorem idxOk_next (i : Nat) : idxOk (some i) (i + 1) = true := by simp [idxOk]
@[simp] theorem needsAdvance_same (i : Nat) : needsAdvance (some i) i = false := by simp [needsAdvance]
@[simp] theorem needsAdvance_next (i : Nat) : needsAdvance (some i) (i + 1) = true := by simp [needsAdvance]

/-- node `n` is at buffer index `i`, holds the right buffer, and (stream) was pulled exactly `i+1` times -/
def At (g : List NodeDef) (st : GState) (i n : Nat) : Prop :=
  ∃ s d v, st[n]? = some s ∧ g[n]? = some d ∧ s.idx = some i ∧ valAt g i (n + 1) n = some v ∧ s.cur = v ∧
    (∀ cs, d = .stream cs → s.rest = cs.drop (i + 1) ∧ s.pulls = i + 1)

theorem At_congr (g : List NodeDef) (st st' : GState) (i n : Nat) (h : st'[n]? = st[n]?) (ha : At g st i n) :
    At g st' i n := by
  obtain ⟨s, d, v, h1, h2⟩ := ha
  exact ⟨s, d, v, by rw [h, h1], h2⟩

theorem At_idx_unique (g : List NodeDef) (st : GState) (i j n : Nat) (h1 : At g st i n) (h2 : At g st j n) : i = j := by
  obtain ⟨s, _, _, hs, _, hi, _⟩ := h1
  obtain ⟨s', _, _, hs', _, hj, _⟩ := h2
  rw [hs] at hs'
  simp only [Option.some.injEq] at hs'
  subst hs'
  rw [hi] at hj
  simpa using hj


/-- between two complete rounds, on a set `R` of nodes closed under arguments: every node is at
index `i` or already at `i+1`, and a node at `i+1` has all its arguments at `i+1` -/
def Mixed (g : List NodeDef) (st : GState) (i : Nat) (R : Nat → Prop) : Prop :=
  (∀ n, R n → At g st i n ∨ At g st (i + 1) n) ∧
  (∀ n d, R n → At g st (i + 1) n → g[n]? = some d → ∀ m ∈ nodeArgs d, At g st (i + 1) m)

theorem getElem?_set_ne' (st : GState) (n j : Nat) (s : NodeState) (h : j ≠ n) : (st.set n s)[j]? = st[j]? := by
  rw [List.getElem?_set_ne (by omega)]

/-- advancing node `n` (all of whose arguments are already advanced) keeps the invariant -/
theorem mixed_set (g : List NodeDef) (st : GState) (i : Nat) (R : Nat → Prop) (n : Nat) (s' : NodeState)
    (hm : Mixed g st i R) (hi : At g st i n) (hat : At g (st.set n s') (i + 1) n)
    (hargs : ∀ d, g[n]? = some d → ∀ m ∈ nodeArgs d, At g st (i + 1) m ∧ m ≠ n) :
    Mixed g (st.set n s') i R ∧ (∀ j, At g st (i + 1) j → At g (st.set n s') (i + 1) j) := by
  have mono : ∀ j, At g st (i + 1) j → At g (st.set n s') (i + 1) j := by
    intro j hj
    by_cases hjn : j = n
    · subst hjn
      have := At_idx_unique g st i (i + 1) j hi hj
      omega
    · exact At_congr g st _ (i + 1) j (getElem?_set_ne' st n j s' hjn) hj
  refine ⟨⟨?_, ?_⟩, mono⟩
  · intro j hj
    by_cases hjn : j = n
    · subst hjn; exact Or.inr hat
    · rcases hm.1 j hj with h | h
      · exact Or.inl (At_congr g st _ i j (getElem?_set_ne' st n j s' hjn) h)
      · exact Or.inr (mono j h)
  · intro j d hj hatj hd m hmem
    by_cases hjn : j = n
    · subst hjn
      exact mono m (hargs d hd m hmem).1
    · have hj' : At g st (i + 1) j :=
        At_congr g _ st (i + 1) j (getElem?_set_ne' st n j s' hjn).symm hatj
      exact mono m (hm.2 j d hj hj' hd m hmem)

/-- what one `_get_buffer(i+1)` call achieves -/
structure StepOut (g : List NodeDef) (st : GState) (i : Nat) (R : Nat → Prop) (n : Nat) (st' : GState) (v : List Int) : Prop where
  val : valAt g (i + 1) (n + 1) n = some v
  mixed : Mixed g st' i R
  at_n : At g st' (i + 1) n
  mono : ∀ j, At g st (i + 1) j → At g st' (i + 1) j
  frame : ∀ j, n < j → st'[j]? = st[j]?

theorem stepOut_refl (g : List NodeDef) (st : GState) (i : Nat) (R : Nat → Prop) (n : Nat) (v : List Int)
    (hm : Mixed g st i R) (hat : At g st (i + 1) n) (hv : valAt g (i + 1) (n + 1) n = some v) : StepOut g st i R n st v :=
  ⟨hv, hm, hat, fun _ h => h, fun _ _ => rfl⟩


/-- the statement proved by induction on the fuel -/
def StepSpec (g : List NodeDef) (i : Nat) (R : Nat → Prop) (fuel : Nat) : Prop :=
  ∀ n st, n < fuel → R n → Mixed g st i R →
    ∃ st' v, getBuffer g fuel st n (i + 1) = .ok (st', v) ∧ StepOut g st i R n st' v

theorem evalArg_step (g : List NodeDef) (i : Nat) (R : Nat → Prop) (fuel : Nat) (ih : StepSpec g i R fuel)
    (n : Nat) (hn : n ≤ fuel) (x : Arg) (hx : ∀ m ∈ argNodes x, m < n ∧ R m) (st : GState) (hm : Mixed g st i R) :
    ∃ st' va, evalArg (fun st m => getBuffer g fuel st m (i + 1)) n st x = .ok (st', va) ∧
      argValWith (valAt g (i + 1) n) n x = some va ∧ Mixed g st' i R ∧
      (∀ j, At g st (i + 1) j → At g st' (i + 1) j) ∧ (∀ j, n ≤ j → st'[j]? = st[j]?) ∧
      (∀ m ∈ argNodes x, At g st' (i + 1) m) := by
  cases x with
  | const c =>
    exact ⟨st, .inr c, rfl, rfl, hm, fun _ h => h, fun _ _ => rfl, by simp [argNodes]⟩
  | node m =>
    obtain ⟨hmn, hRm⟩ := hx m (by simp [argNodes])
    obtain ⟨st', v, hget, hout⟩ := ih m st (by omega) hRm hm
    refine ⟨st', .inl v, ?_, ?_, hout.mixed, hout.mono, fun j hj => hout.frame j (by omega), ?_⟩
    · simp only [evalArg, hmn, ↓reduceIte, hget]
    · simp only [argValWith, hmn, ↓reduceIte]
      rw [valAt_fuel2 g (i + 1) n (m + 1) m hmn (by omega), hout.val]
      rfl
    · intro m' hm'
      simp only [argNodes, List.mem_singleton] at hm'
      subst hm'
      exact hout.at_n

theorem getBuffer_step (g : List NodeDef) (hg : WFG g) (R : Nat → Prop)
    (hR : ∀ n d, R n → g[n]? = some d → ∀ m ∈ nodeArgs d, R m) (i : Nat)
    (hch : ∀ n cs, R n → g[n]? = some (.stream cs) → i + 1 < cs.length) (fuel : Nat) : StepSpec g i R fuel := by
  induction fuel with
  | zero => intro n st h; omega
  | succ fuel ih =>
    intro n st hnf hRn hm
    rcases hm.1 n hRn with hi | hi
    · -- the node still is at index i: it has to advance
      obtain ⟨s, d, v0, hs, hd, hidx, hv0, hcur, hstream⟩ := hi
      have hiAt : At g st i n := ⟨s, d, v0, hs, hd, hidx, hv0, hcur, hstream⟩
      cases d with
      | stream cs =>
        obtain ⟨hrest, hpulls⟩ := hstream cs rfl
        have hlen := hch n cs hRn hd
        have hdrop : cs.drop (i + 1) = cs[i + 1] :: cs.drop (i + 2) := List.drop_eq_getElem_cons hlen
        have hval : valAt g (i + 1) (n + 1) n = some cs[i + 1] := by
          simp only [valAt, hd]
          exact List.getElem?_eq_getElem hlen
        obtain ⟨s', hs'⟩ : ∃ s' : NodeState, s' = { idx := some (i + 1), cur := cs[i + 1], rest := cs.drop (i + 2), pulls := s.pulls + 1 } := ⟨_, rfl⟩
        have hnlt : n < st.length := by
          have := List.getElem?_eq_some_iff.mp hs
          exact this.1
        have hat : At g (st.set n s') (i + 1) n := by
          refine ⟨s', .stream cs, cs[i + 1], ?_, hd, by rw [hs'], hval, by rw [hs'], ?_⟩
          · rw [List.getElem?_set_self hnlt]
          · intro cs' hcs'
            simp only [NodeDef.stream.injEq] at hcs'
            subst hcs'
            rw [hs']
            exact ⟨rfl, by simp only; omega⟩
        obtain ⟨hmix, hmono⟩ := mixed_set g st i R n s' hm hiAt hat (by
          intro d' hd' m hmem
          rw [hd] at hd'
          simp only [Option.some.injEq] at hd'
          subst hd'
          simp [nodeArgs] at hmem)
        refine ⟨st.set n s', cs[i + 1], ?_, ⟨hval, hmix, hat, hmono, ?_⟩⟩
        · simp only [getBuffer, hd, hs, hidx, idxOk_next, needsAdvance_next, Bool.not_true, Bool.false_eq_true,
            ↓reduceIte, hrest, hdrop, hs']
        · intro j hj
          exact getElem?_set_ne' st n j s' (by omega)
      | comp f a b =>
        have hargs_lt : ∀ m ∈ nodeArgs (.comp f a b), m < n := hg n _ hd
        have hargs_R : ∀ m ∈ nodeArgs (.comp f a b), R m := hR n _ hRn hd
        have hxa : ∀ m ∈ argNodes a, m < n ∧ R m := fun m hm' =>
          ⟨hargs_lt m (by simp [nodeArgs, hm']), hargs_R m (by simp [nodeArgs, hm'])⟩
        have hxb : ∀ m ∈ argNodes b, m < n ∧ R m := fun m hm' =>
          ⟨hargs_lt m (by simp [nodeArgs, hm']), hargs_R m (by simp [nodeArgs, hm'])⟩
        obtain ⟨st1, va, he1, hva, hm1, hmono1, hfr1, hat1⟩ := evalArg_step g i R fuel ih n (by omega) a hxa st hm
        obtain ⟨st2, vb, he2, hvb, hm2, hmono2, hfr2, hat2⟩ := evalArg_step g i R fuel ih n (by omega) b hxb st1 hm1
        have hs2 : st2[n]? = some s := by rw [hfr2 n (Nat.le_refl _), hfr1 n (Nat.le_refl _), hs]
        have hi2 : At g st2 i n := At_congr g st st2 i n (by rw [hs2, hs]) hiAt
        have hval : valAt g (i + 1) (n + 1) n = some (applyFn f va vb) := by
          simp only [valAt, hd, hva, hvb, Option.bind_some, Option.map_some]
        obtain ⟨s', hs'⟩ : ∃ s' : NodeState, s' = { s with idx := some (i + 1), cur := applyFn f va vb } := ⟨_, rfl⟩
        have hnlt : n < st2.length := (List.getElem?_eq_some_iff.mp hs2).1
        have hat : At g (st2.set n s') (i + 1) n := by
          refine ⟨s', .comp f a b, applyFn f va vb, ?_, hd, by rw [hs'], hval, by rw [hs'], ?_⟩
          · rw [List.getElem?_set_self hnlt]
          · intro cs' hcs'; simp at hcs'
        obtain ⟨hmix, hmono⟩ := mixed_set g st2 i R n s' hm2 hi2 hat (by
          intro d' hd' m hmem
          rw [hd] at hd'
          simp only [Option.some.injEq] at hd'
          subst hd'
          refine ⟨?_, by have := hargs_lt m hmem; omega⟩
          simp only [nodeArgs, List.mem_append] at hmem
          rcases hmem with h | h
          · exact hmono2 m (hat1 m h)
          · exact hat2 m h)
        refine ⟨st2.set n s', applyFn f va vb, ?_, ⟨hval, hmix, hat, fun j hj => hmono j (hmono2 j (hmono1 j hj)), ?_⟩⟩
        · simp only [getBuffer, hd, hs, hidx, idxOk_next, needsAdvance_next, Bool.not_true, Bool.false_eq_true,
            ↓reduceIte, he1, he2, hs2, hs']
        · intro j hj
          rw [getElem?_set_ne' st2 n j s' (by omega), hfr2 j (by omega), hfr1 j (by omega)]
    · -- already advanced in this round (shared by two parents): the buffer is returned, nothing is pulled
      obtain ⟨s, d, v0, hs, hd, hidx, hv0, hcur, hstream⟩ := hi
      have hiAt : At g st (i + 1) n := ⟨s, d, v0, hs, hd, hidx, hv0, hcur, hstream⟩
      refine ⟨st, v0, ?_, stepOut_refl g st i R n v0 hm hiAt hv0⟩
      cases d with
      | stream cs => simp [getBuffer, hd, hs, hidx, hcur]
      | comp f a b => simp [getBuffer, hd, hs, hidx, hcur]


/-- nodes reachable from the root through arguments -/
inductive Reach (g : List NodeDef) (root : Nat) : Nat → Prop where
  | root : Reach g root root
  | step {n m : Nat} {d : NodeDef} : Reach g root n → g[n]? = some d → m ∈ nodeArgs d → Reach g root m

/-- all nodes the root depends on are at buffer index `i` -/
def Level (g : List NodeDef) (root : Nat) (st : GState) (i : Nat) : Prop := ∀ n, Reach g root n → At g st i n

theorem level_mixed (g : List NodeDef) (root : Nat) (st : GState) (i : Nat) (h : Level g root st i) :
    Mixed g st i (Reach g root) := by
  refine ⟨fun n hn => Or.inl (h n hn), ?_⟩
  intro n d hn hat _ _ _
  have := At_idx_unique g st i (i + 1) n (h n hn) hat
  omega

/-- **lock step**: if every node the root depends on is at buffer index `i` and the streams have a
buffer `i+1`, then `root._get_buffer(i+1)` succeeds (no assertion fires), returns the value of the
root on the `(i+1)`-th buffers, and leaves every node the root depends on at index `i+1` — a stream
shared by several parents was pulled exactly once (its pull count is `i+2`). -/
theorem graph_lockstep (g : List NodeDef) (hg : WFG g) (root : Nat) (st : GState) (i : Nat)
    (hl : Level g root st i)
    (hch : ∀ n cs, Reach g root n → g[n]? = some (.stream cs) → i + 1 < cs.length) :
    ∃ st' v, getBuffer g (root + 1) st root (i + 1) = .ok (st', v) ∧
      valAt g (i + 1) (root + 1) root = some v ∧ Level g root st' (i + 1) := by
  have hR : ∀ n d, Reach g root n → g[n]? = some d → ∀ m ∈ nodeArgs d, Reach g root m :=
    fun n d hn hd m hm => Reach.step hn hd hm
  obtain ⟨st', v, hget, hout⟩ :=
    getBuffer_step g hg (Reach g root) hR i hch (root + 1) root st (by omega) Reach.root (level_mixed g root st i hl)
  refine ⟨st', v, hget, hout.val, ?_⟩
  intro n hn
  induction hn with
  | root => exact hout.at_n
  | step hr hd hm ih => exact hout.mixed.2 _ _ hr ih hd _ hm

/-- asking again for the current index returns the current buffer and changes nothing -/
theorem getBuffer_same (g : List NodeDef) (st : GState) (i n fuel : Nat) (h : At g st i n) :
    ∃ v, getBuffer g (fuel + 1) st n i = .ok (st, v) ∧ valAt g i (n + 1) n = some v := by
  obtain ⟨s, d, v, hs, hd, hidx, hv, hcur, _⟩ := h
  refine ⟨v, ?_, hv⟩
  cases d with
  | stream cs => simp [getBuffer, hd, hs, hidx, hcur]
  | comp f a b => simp [getBuffer, hd, hs, hidx, hcur]

/-- every `ComputationNode` has at least one node among its arguments (NumPy only dispatches to a
node when one is present) -/
def HasNodeArg (g : List NodeDef) : Prop := ∀ (n : Nat) (f : Fn) (a b : Arg), g[n]? = some (NodeDef.comp f a b) → argNodes a ++ argNodes b ≠ []

/-- when the streams are exhausted the request raises `StopIteration` before anything is changed -/
theorem graph_stop (g : List NodeDef) (hg : WFG g) (hna : HasNodeArg g) (root : Nat) (st : GState) (i : Nat)
    (hl : Level g root st i)
    (hch : ∀ n cs, Reach g root n → g[n]? = some (.stream cs) → cs.length = i + 1) :
    ∀ fuel n, n < fuel → Reach g root n → getBuffer g fuel st n (i + 1) = .error .stop := by
  intro fuel
  induction fuel with
  | zero => intro n h; omega
  | succ fuel ih =>
    intro n hnf hrn
    obtain ⟨s, d, v0, hs, hd, hidx, hv0, hcur, hstream⟩ := hl n hrn
    cases d with
    | stream cs =>
      obtain ⟨hrest, _⟩ := hstream cs rfl
      have : cs.drop (i + 1) = [] := List.drop_eq_nil_of_le (by rw [hch n cs hrn hd]; omega)
      simp [getBuffer, hd, hs, hidx, hrest, this]
    | comp f a b =>
      have hlt : ∀ m ∈ nodeArgs (.comp f a b), m < n := hg n _ hd
      have hne := hna n f a b hd
      cases a with
      | node m =>
        have hm : m < n := hlt m (by simp [nodeArgs, argNodes])
        have := ih m (by omega) (Reach.step hrn hd (by simp [nodeArgs, argNodes]))
        simp [getBuffer, hd, hs, hidx, evalArg, hm, this]
      | const c =>
        cases b with
        | node m =>
          have hm : m < n := hlt m (by simp [nodeArgs, argNodes])
          have := ih m (by omega) (Reach.step hrn hd (by simp [nodeArgs, argNodes]))
          simp [getBuffer, hd, hs, hidx, evalArg, hm, this]
        | const c' => simp [argNodes] at hne

/-- **`get_iter`**: from a state where everything the root depends on is at index `i`, with streams of
exactly `M` buffers, iterating yields the values of the root on buffers `i, i+1, …, M-1` in order and
then stops. -/
theorem graph_iter (g : List NodeDef) (hg : WFG g) (hna : HasNodeArg g) (root M : Nat)
    (hch : ∀ n cs, Reach g root n → g[n]? = some (.stream cs) → cs.length = M) :
    ∀ k i st fuel, i + k + 1 = M → k + 1 < fuel → Level g root st i →
      ∃ vs st', getIter g root fuel i st = .ok (vs, st') ∧
        List.map some vs = (List.range (k + 1)).map (fun j => valAt g (i + j) (root + 1) root) := by
  intro k
  induction k with
  | zero =>
    intro i st fuel hM hf hl
    obtain ⟨v, hget, hv⟩ := getBuffer_same g st i root root (hl root Reach.root)
    have hstop := graph_stop g hg hna root st i hl (fun n cs hr hd => by rw [hch n cs hr hd]; omega)
      (root + 1) root (by omega) Reach.root
    obtain ⟨f', rfl⟩ : ∃ f', fuel = f' + 2 := ⟨fuel - 2, by omega⟩
    refine ⟨[v], st, ?_, by simp [hv]⟩
    simp only [getIter, hget, hstop]
  | succ k ih =>
    intro i st fuel hM hf hl
    obtain ⟨v, hget, hv⟩ := getBuffer_same g st i root root (hl root Reach.root)
    obtain ⟨st1, v1, hget1, hv1, hl1⟩ := graph_lockstep g hg root st i hl
      (fun n cs hr hd => by rw [hch n cs hr hd]; omega)
    obtain ⟨f', rfl⟩ : ∃ f', fuel = f' + 1 := ⟨fuel - 1, by omega⟩
    -- the next iteration asks for index i+1 in state st: it advances to st1, and from there on ih applies
    obtain ⟨vs, st', hiter, hvs⟩ := ih (i + 1) st1 f' (by omega) (by omega) hl1
    -- getIter at (i+1) from st1 starts by re-reading index i+1 (no change); from st it advances first.
    -- Both give the same continuation:
    have hsame : getIter g root f' (i + 1) st = getIter g root f' (i + 1) st1 := by
      obtain ⟨f'', rfl⟩ : ∃ f'', f' = f'' + 1 := ⟨f' - 1, by omega⟩
      obtain ⟨v1', hget1', hv1'⟩ := getBuffer_same g st1 (i + 1) root root (hl1 root Reach.root)
      have : v1' = v1 := by rw [hv1] at hv1'; exact (Option.some.inj hv1').symm
      subst this
      simp only [getIter, hget1, hget1']
    refine ⟨v :: vs, st', ?_, ?_⟩
    · simp only [getIter, hget, hsame, hiter]
    · rw [List.range_succ_eq_map]
      simp only [List.map_cons, List.map_map, hv, hvs]
      simp [Function.comp_def, Nat.add_assoc, Nat.add_comm 1, hv]


/-! ### construction (`__init__` pulls buffer 0) and `compute` -/

theorem initState_getElem? (g : List NodeDef) (n : Nat) (d : NodeDef) (h : g[n]? = some d) :
    ∃ s, (initState g)[n]? = some s ∧ s.idx = none ∧ s.pulls = 0 ∧ (∀ cs, d = .stream cs → s.rest = cs) := by
  simp only [initState, List.getElem?_map, h, Option.map_some]
  cases d with
  | stream cs => exact ⟨_, rfl, rfl, rfl, fun cs' h' => by simp at h'; simp [h']⟩
  | comp f a b => exact ⟨_, rfl, rfl, rfl, fun cs' h' => by simp at h'⟩

@[simp] theorem idxOk_none : idxOk none 0 = true := by simp [idxOk]
@[simp] theorem needsAdvance_none (i : Nat) : needsAdvance none i = true := by simp [needsAdvance]

theorem evalArg_same (g : List NodeDef) (st : GState) (k : Nat) (x : Arg)
    (hx : ∀ m ∈ argNodes x, m < k ∧ At g st 0 m) :
    ∃ va, evalArg (fun st m => getBuffer g k st m 0) k st x = .ok (st, va) ∧ argValWith (valAt g 0 k) k x = some va := by
  cases x with
  | const c => exact ⟨.inr c, rfl, rfl⟩
  | node m =>
    obtain ⟨hmk, hat⟩ := hx m (by simp [argNodes])
    obtain ⟨k', rfl⟩ : ∃ k', k = k' + 1 := ⟨k - 1, by omega⟩
    obtain ⟨v, hget, hv⟩ := getBuffer_same g st 0 m k' hat
    refine ⟨.inl v, ?_, ?_⟩
    · simp only [evalArg, hmk, ↓reduceIte, hget]
    · simp only [argValWith, hmk, ↓reduceIte]
      rw [valAt_fuel2 g 0 (k' + 1) (m + 1) m hmk (by omega), hv]; rfl

/-- constructing node `k` when all earlier nodes are at index 0 puts it at index 0 and touches nothing else -/
theorem construct_node (g : List NodeDef) (hg : WFG g) (st : GState) (k : Nat) (d : NodeDef) (hd : g[k]? = some d)
    (hne : ∀ cs, d = .stream cs → cs ≠ [])
    (hprev : ∀ m, m < k → At g st 0 m) (s : NodeState) (hs : st[k]? = some s) (hidx : s.idx = none)
    (hp : s.pulls = 0) (hrest : ∀ cs, d = .stream cs → s.rest = cs) :
    ∃ st' v, getBuffer g (k + 1) st k 0 = .ok (st', v) ∧ At g st' 0 k ∧ (∀ j, j ≠ k → st'[j]? = st[j]?) := by
  have hklt : k < st.length := (List.getElem?_eq_some_iff.mp hs).1
  cases d with
  | stream cs =>
    have hr := hrest cs rfl
    cases hcs : cs with
    | nil => exact absurd hcs (hne cs rfl)
    | cons c0 cs' =>
      refine ⟨st.set k { idx := some 0, cur := c0, rest := cs', pulls := s.pulls + 1 }, c0, ?_, ?_, ?_⟩
      · simp only [getBuffer, hd, hs, hidx, idxOk_none, needsAdvance_none, Bool.not_true, Bool.false_eq_true,
          ↓reduceIte, hr, hcs]
      · refine ⟨_, .stream cs, c0, List.getElem?_set_self hklt, hd, rfl, ?_, rfl, ?_⟩
        · simp [valAt, hd, hcs]
        · intro cs'' h''
          simp only [NodeDef.stream.injEq] at h''
          subst h''
          simp [hcs, hp]
      · intro j hj; exact getElem?_set_ne' st k j _ hj
  | comp f a b =>
    have hlt : ∀ m ∈ nodeArgs (.comp f a b), m < k := hg k _ hd
    obtain ⟨va, he1, hva⟩ := evalArg_same g st k a (fun m hm => ⟨hlt m (by simp [nodeArgs, hm]), hprev m (hlt m (by simp [nodeArgs, hm]))⟩)
    obtain ⟨vb, he2, hvb⟩ := evalArg_same g st k b (fun m hm => ⟨hlt m (by simp [nodeArgs, hm]), hprev m (hlt m (by simp [nodeArgs, hm]))⟩)
    refine ⟨st.set k { s with idx := some 0, cur := applyFn f va vb }, applyFn f va vb, ?_, ?_, ?_⟩
    · simp only [getBuffer, hd, hs, hidx, idxOk_none, needsAdvance_none, Bool.not_true, Bool.false_eq_true,
        ↓reduceIte, he1, he2]
    · refine ⟨_, .comp f a b, applyFn f va vb, List.getElem?_set_self hklt, hd, rfl, ?_, rfl, ?_⟩
      · simp only [valAt, hd, hva, hvb, Option.bind_some, Option.map_some]
      · intro cs h; simp at h
    · intro j hj; exact getElem?_set_ne' st k j _ hj

/-- after constructing the first `k` nodes they are all at index 0 and the others are untouched -/
theorem construct_spec (g : List NodeDef) (hg : WFG g)
    (hne : ∀ (n : Nat) (cs : List (List Int)), g[n]? = some (NodeDef.stream cs) → cs ≠ []) (k : Nat) (hk : k ≤ g.length) :
    ∃ st, construct g k (initState g) = .ok st ∧ (∀ m, m < k → At g st 0 m) ∧
      (∀ j, k ≤ j → st[j]? = (initState g)[j]?) := by
  induction k with
  | zero => exact ⟨initState g, rfl, fun m h => by omega, fun _ _ => rfl⟩
  | succ k ih =>
    obtain ⟨st, hc, hprev, hrest⟩ := ih (by omega)
    have hkl : k < g.length := by omega
    have hd : g[k]? = some g[k] := List.getElem?_eq_getElem hkl
    obtain ⟨s, hs, hidx, hp, hr⟩ := initState_getElem? g k g[k] hd
    obtain ⟨st', v, hget, hat, hfr⟩ := construct_node g hg st k g[k] hd (fun cs h => hne k cs (by rw [hd, h]))
      hprev s (by rw [hrest k (Nat.le_refl _), hs]) hidx hp hr
    refine ⟨st', ?_, ?_, ?_⟩
    · simp only [construct, hc, hget]
    · intro m hm
      by_cases hmk : m = k
      · subst hmk; exact hat
      · exact At_congr g st st' 0 m (hfr m hmk) (hprev m (by omega))
    · intro j hj
      rw [hfr j (by omega), hrest j (by omega)]

/-- **`compute()` of a node**: with all streams cut into the same number `M ≥ 1` of buffers, the graph
is constructed without error, iterated in lock step, and the result is the concatenation over the
buffer index of the root's value on the `i`-th buffers. -/
theorem graph_compute (g : List NodeDef) (hg : WFG g) (hna : HasNodeArg g) (root M fuel : Nat)
    (hroot : root < g.length) (hM : 0 < M) (hf : M < fuel)
    (hch : ∀ (n : Nat) (cs : List (List Int)), g[n]? = some (NodeDef.stream cs) → cs.length = M) :
    ∃ vs st, computeGraph g root fuel = .ok (List.flatten vs, st) ∧
      List.map some vs = (List.range M).map (fun i => valAt g i (root + 1) root) := by
  obtain ⟨st0, hc, hall, _⟩ := construct_spec g hg (fun n cs h => by
    intro e; have := hch n cs h; rw [e] at this; simp at this; omega) g.length (Nat.le_refl _)
  have hlt : ∀ n, Reach g root n → n < g.length := by
    intro n hn
    induction hn with
    | root => exact hroot
    | step hr hd hm ih => have := hg _ _ hd _ hm; omega
  have hl : Level g root st0 0 := fun n hn => hall n (hlt n hn)
  obtain ⟨k, rfl⟩ : ∃ k, M = k + 1 := ⟨M - 1, by omega⟩
  obtain ⟨vs, st', hiter, hvs⟩ := graph_iter g hg hna root (k + 1) (fun n cs _ h => hch n cs h) k 0 st0 fuel
    (by omega) (by omega) hl
  refine ⟨vs, st', ?_, ?_⟩
  · simp only [computeGraph, hc, hiter]
  · simpa using hvs


/-! ### streamed value = in-memory value (aligned streams, element-wise node functions) -/

theorem evalMem_fuel2 (g : List NodeDef) (f1 f2 n : Nat) (h1 : n < f1) (h2 : n < f2) :
    evalMem g f1 n = evalMem g f2 n := by
  induction f1 generalizing f2 n with
  | zero => omega
  | succ a ih =>
    cases f2 with
    | zero => omega
    | succ b =>
      simp only [evalMem]
      cases hg : g[n]? with
      | none => rfl
      | some d =>
        cases d with
        | stream cs => rfl
        | comp fn x y =>
          simp only
          rw [argValWith_congr (evalMem g a) (evalMem g b) n x (fun m hm => ih b m (by omega) (by omega)),
            argValWith_congr (evalMem g a) (evalMem g b) n y (fun m hm => ih b m (by omega) (by omega))]

theorem zipWith_flatten {β} (f : β → β → β) (A B : List (List β)) (h : A.map List.length = B.map List.length) :
    List.zipWith f A.flatten B.flatten = (List.zipWith (List.zipWith f) A B).flatten := by
  induction A generalizing B with
  | nil => cases B <;> simp at h ⊢
  | cons a A ih =>
    cases B with
    | nil => simp at h
    | cons b B =>
      simp only [List.map_cons, List.cons.injEq] at h
      simp only [List.flatten_cons, List.zipWith_cons_cons]
      rw [List.zipWith_append h.1, ih B h.2]

theorem zipWith_zipWith_lengths {β} (f : β → β → β) (A B : List (List β)) (h : A.map List.length = B.map List.length) :
    (List.zipWith (List.zipWith f) A B).map List.length = A.map List.length := by
  induction A generalizing B with
  | nil => simp
  | cons a A ih =>
    cases B with
    | nil => simp at h
    | cons b B =>
      simp only [List.map_cons, List.cons.injEq] at h
      simp only [List.zipWith_cons_cons, List.map_cons, List.length_zipWith, ih B h.2]
      congr 1; omega

theorem map_some_inj {β} (l1 l2 : List β) (e : l1.map some = l2.map some) : l1 = l2 := by
  have := congrArg (fun l => l.filterMap id) e
  simpa [List.filterMap_map] using this

/-- all streams are cut at the same positions -/
def Aligned (g : List NodeDef) (lens : List Nat) : Prop :=
  ∀ (n : Nat) (cs : List (List Int)), g[n]? = some (NodeDef.stream cs) → cs.map List.length = lens

/-- chunk-wise application of a node function -/
def applyChunks (f : Fn) : (List (List Int) ⊕ Int) → (List (List Int) ⊕ Int) → List (List Int)
  | .inl A, .inl B => List.zipWith (List.zipWith f.app) A B
  | .inl A, .inr c => A.map (fun x => x.map (fun v => f.app v c))
  | .inr c, .inl B => B.map (fun y => y.map (fun v => f.app c v))
  | .inr c, .inr d => [[f.app c d]]

/-- a chunked value `V` describes argument `x`: chunk `i` is its value on the `i`-th buffers, the
concatenation is its in-memory value -/
def ArgRel (g : List NodeDef) (lens : List Nat) (n : Nat) (x : Arg) : (List (List Int) ⊕ Int) → Prop
  | .inl A => A.map List.length = lens ∧
      (∀ i (h : i < A.length), argValWith (valAt g i n) n x = some (.inl A[i])) ∧
      argValWith (evalMem g n) n x = some (.inl A.flatten)
  | .inr c => (∀ i, argValWith (valAt g i n) n x = some (.inr c)) ∧ argValWith (evalMem g n) n x = some (.inr c)

/-- a chunked value `A` describes node `n` -/
def NodeRel (g : List NodeDef) (lens : List Nat) (n : Nat) (A : List (List Int)) : Prop :=
  A.map List.length = lens ∧ (∀ i (h : i < A.length), valAt g i (n + 1) n = some A[i]) ∧
    evalMem g (n + 1) n = some A.flatten

/-- every `ComputationNode` in the set `P` applies an element-wise function -/
def EwOn (g : List NodeDef) (P : Nat → Prop) : Prop :=
  ∀ (n : Nat) (f : Fn) (a b : Arg), P n → g[n]? = some (NodeDef.comp f a b) → f.elementwise = true

/-- every `ComputationNode` in the set `P` applies an element-wise function or indexes a node by a boolean mask node -/
def EwSelOn (g : List NodeDef) (P : Nat → Prop) : Prop :=
  ∀ (n : Nat) (f : Fn) (a b : Arg), P n → g[n]? = some (NodeDef.comp f a b) →
    f.elementwise = true ∨ (f = Fn.sel ∧ ∃ x y, a = Arg.node x ∧ b = Arg.node y)

/-- the streamed run is shape-correct: in each of the `K` buffers the two node operands of a node in `P` have the
same length (what NumPy needs to apply a binary ufunc / a boolean index to one buffer; automatic when no operand
is below a mask selection, `shapeOK_of_aligned`) -/
def ShapeOK (g : List NodeDef) (K : Nat) (P : Nat → Prop) : Prop :=
  ∀ (n : Nat) (f : Fn) (x y : Nat), P n → g[n]? = some (NodeDef.comp f (Arg.node x) (Arg.node y)) →
    ∀ i, i < K → ∀ u v, valAt g i (x + 1) x = some u → valAt g i (y + 1) y = some v → u.length = v.length

/-- a chunked value `A` (one chunk per buffer, of any lengths) describes node `n` -/
def NodeRelG (g : List NodeDef) (K : Nat) (n : Nat) (A : List (List Int)) : Prop :=
  A.length = K ∧ (∀ i (h : i < A.length), valAt g i (n + 1) n = some A[i]) ∧ evalMem g (n + 1) n = some A.flatten

theorem node_chunks (g : List NodeDef) (hg : WFG g) (hna : HasNodeArg g) (lens : List Nat) (ha : Aligned g lens)
    (P : Nat → Prop) (hP : ∀ n d, P n → g[n]? = some d → ∀ m ∈ nodeArgs d, P m) (hew : EwOn g P) :
    ∀ n, P n → n < g.length → ∃ A, NodeRel g lens n A := by
  intro n
  induction n using Nat.strongRecOn with
  | _ n ih =>
    intro hnb hn
    have hd : g[n]? = some g[n] := List.getElem?_eq_getElem hn
    cases hdn : g[n] with
    | stream cs =>
      rw [hdn] at hd
      refine ⟨cs, ha n cs hd, ?_, ?_⟩
      · intro i h; simp [valAt, hd, List.getElem?_eq_getElem h]
      · simp [evalMem, hd]
    | comp f a b =>
      rw [hdn] at hd
      have hlt : ∀ m ∈ nodeArgs (.comp f a b), m < n := hg n _ hd
      have harg : ∀ x : Arg, (∀ m ∈ argNodes x, m < n) → (∀ m ∈ argNodes x, P m) → ∃ V, ArgRel g lens n x V := by
        intro x hx hPargs
        cases x with
        | const c => exact ⟨.inr c, fun _ => rfl, rfl⟩
        | node m =>
          have hm : m < n := hx m (by simp [argNodes])
          obtain ⟨A, h1, h2, h3⟩ := ih m hm (hPargs m (by simp [argNodes])) (by omega)
          refine ⟨.inl A, h1, ?_, ?_⟩
          · intro i h
            simp only [argValWith, hm, ↓reduceIte]
            rw [valAt_fuel2 g i n (m + 1) m hm (by omega), h2 i h]; rfl
          · simp only [argValWith, hm, ↓reduceIte]
            rw [evalMem_fuel2 g n (m + 1) m hm (by omega), h3]; rfl
      obtain ⟨Va, hVa⟩ := harg a (fun m hm => hlt m (by simp [nodeArgs, hm])) (fun m hm => hP n _ hnb hd m (by simp [nodeArgs, hm]))
      obtain ⟨Vb, hVb⟩ := harg b (fun m hm => hlt m (by simp [nodeArgs, hm])) (fun m hm => hP n _ hnb hd m (by simp [nodeArgs, hm]))
      have hne := hna n f a b hd
      have hf : f.elementwise = true := hew n f a b hnb hd
      refine ⟨applyChunks f Va Vb, ?_⟩
      cases Va with
      | inl A =>
        cases Vb with
        | inl B =>
          obtain ⟨a1, a2, a3⟩ := hVa
          obtain ⟨b1, b2, b3⟩ := hVb
          have hAB : A.map List.length = B.map List.length := by rw [a1, b1]
          have hlen : A.length = B.length := by
            have := congrArg List.length hAB; simpa using this
          refine ⟨?_, ?_, ?_⟩
          · simp only [applyChunks]
            rw [zipWith_zipWith_lengths f.app A B hAB, a1]
          · intro i h
            simp only [applyChunks, List.length_zipWith] at h
            simp only [valAt, hd, a2 i (by omega), b2 i (by omega), Option.bind_some, Option.map_some, applyFn, hf, ↓reduceIte, applyEw, applyChunks,
              List.getElem_zipWith]
          · simp only [evalMem, hd, a3, b3, Option.bind_some, Option.map_some, applyFn, hf, ↓reduceIte, applyEw, applyChunks]
            rw [zipWith_flatten f.app A B hAB]
        | inr c =>
          obtain ⟨a1, a2, a3⟩ := hVa
          obtain ⟨b2, b3⟩ := hVb
          refine ⟨?_, ?_, ?_⟩
          · simp only [applyChunks, List.map_map]
            rw [← a1]; congr 1; funext x; simp
          · intro i h
            simp only [applyChunks, List.length_map] at h
            simp only [valAt, hd, a2 i h, b2 i, Option.bind_some, Option.map_some, applyFn, hf, ↓reduceIte, applyEw, applyChunks, List.getElem_map]
          · simp only [evalMem, hd, a3, b3, Option.bind_some, Option.map_some, applyFn, hf, ↓reduceIte, applyEw, applyChunks, List.map_flatten]
      | inr c =>
        cases Vb with
        | inl B =>
          obtain ⟨a2, a3⟩ := hVa
          obtain ⟨b1, b2, b3⟩ := hVb
          refine ⟨?_, ?_, ?_⟩
          · simp only [applyChunks, List.map_map]
            rw [← b1]; congr 1; funext x; simp
          · intro i h
            simp only [applyChunks, List.length_map] at h
            simp only [valAt, hd, a2 i, b2 i h, Option.bind_some, Option.map_some, applyFn, hf, ↓reduceIte, applyEw, applyChunks, List.getElem_map]
          · simp only [evalMem, hd, a3, b3, Option.bind_some, Option.map_some, applyFn, hf, ↓reduceIte, applyEw, applyChunks, List.map_flatten]
        | inr c' =>
          -- both arguments constant: excluded (NumPy would not have created a node)
          exfalso
          obtain ⟨a2, _⟩ := hVa
          obtain ⟨b2, _⟩ := hVb
          cases a with
          | const _ =>
            cases b with
            | const _ => simp [argNodes] at hne
            | node m =>
              have := b2 0
              simp only [argValWith] at this
              split at this
              · cases h : valAt g 0 n m <;> simp [h] at this
              · simp at this
          | node m =>
            have := a2 0
            simp only [argValWith] at this
            split at this
            · cases h : valAt g 0 n m <;> simp [h] at this
            · simp at this

/-- **streamed = in-memory for computation graphs**: for every graph in construction order whose
streams are cut at the same positions (any positions, at least one buffer), `compute()` of any node
returns exactly the value of the same expression evaluated in memory on the concatenated streams. -/
theorem graph_value (g : List NodeDef) (hg : WFG g) (hna : HasNodeArg g) (lens : List Nat) (ha : Aligned g lens)
    (hpos : 0 < lens.length) (root fuel : Nat) (hew : EwOn g (Reach g root)) (hroot : root < g.length)
    (hf : lens.length < fuel) :
    ∃ v st, computeGraph g root fuel = .ok (v, st) ∧ evalMem g (root + 1) root = some v := by
  have hch : ∀ (n : Nat) (cs : List (List Int)), g[n]? = some (NodeDef.stream cs) → cs.length = lens.length := by
    intro n cs h
    have := congrArg List.length (ha n cs h)
    simpa using this
  obtain ⟨vs, st, hc, hvs⟩ := graph_compute g hg hna root lens.length fuel hroot hpos hf hch
  obtain ⟨A, h1, h2, h3⟩ := node_chunks g hg hna lens ha (Reach g root) (fun n d hn hd m hm => Reach.step hn hd hm) hew root Reach.root hroot
  have hAl : A.length = lens.length := by
    have := congrArg List.length h1; simpa using this
  have : vs = A := by
    have e : List.map some vs = List.map some A := by
      rw [hvs]
      apply List.ext_getElem
      · simp [hAl]
      · intro i hi1 hi2
        simp only [List.getElem_map, List.getElem_range]
        exact h2 i (by simpa using hi2)
    exact map_some_inj _ _ e
  subst this
  exact ⟨vs.flatten, st, hc, h3⟩



/-! ### several roots evaluated together (`compute([a, b, …])`, `compute((reduction, reduction, …))`) -/

/-- nodes some root depends on -/
def ReachAny (g : List NodeDef) (roots : List Nat) (n : Nat) : Prop := ∃ r, r ∈ roots ∧ Reach g r n

def LevelMany (g : List NodeDef) (roots : List Nat) (st : GState) (i : Nat) : Prop :=
  ∀ n, ReachAny g roots n → At g st i n

theorem reachAny_closed (g : List NodeDef) (roots : List Nat) :
    ∀ n d, ReachAny g roots n → g[n]? = some d → ∀ m ∈ nodeArgs d, ReachAny g roots m := by
  intro n d ⟨r, hr, hn⟩ hd m hm
  exact ⟨r, hr, Reach.step hn hd hm⟩

/-- the values of the roots on the `i`-th buffers -/
def valsAt (g : List NodeDef) (roots : List Nat) (i : Nat) : List (List Int) :=
  roots.map (fun r => (valAt g i (r + 1) r).getD [])

theorem getBuffers_mixed (g : List NodeDef) (hg : WFG g) (roots : List Nat) (i : Nat)
    (hch : ∀ n cs, ReachAny g roots n → g[n]? = some (NodeDef.stream cs) → i + 1 < cs.length) :
    ∀ (rs : List Nat) (st : GState), (∀ r ∈ rs, r ∈ roots) → Mixed g st i (ReachAny g roots) →
      ∃ st' vs, getBuffers g rs st (i + 1) = .ok (st', vs) ∧ vs = valsAt g rs (i + 1) ∧
        Mixed g st' i (ReachAny g roots) ∧ (∀ j, At g st (i + 1) j → At g st' (i + 1) j) ∧
        (∀ r ∈ rs, At g st' (i + 1) r) := by
  intro rs
  induction rs with
  | nil => intro st _ hm; exact ⟨st, [], rfl, rfl, hm, fun _ h => h, by simp⟩
  | cons r rs ih =>
    intro st hrs hm
    obtain ⟨st1, v, hget, hout⟩ := getBuffer_step g hg (ReachAny g roots) (reachAny_closed g roots) i hch (r + 1) r st
      (by omega) ⟨r, hrs r (by simp), Reach.root⟩ hm
    obtain ⟨st2, vs, hget2, hvs, hm2, hmono2, hat2⟩ := ih st1 (fun x hx => hrs x (by simp [hx])) hout.mixed
    refine ⟨st2, v :: vs, ?_, ?_, hm2, fun j hj => hmono2 j (hout.mono j hj), ?_⟩
    · simp only [getBuffers, hget, hget2]
    · simp only [valsAt, List.map_cons, hout.val, Option.getD_some, hvs]
    · intro x hx
      simp only [List.mem_cons] at hx
      rcases hx with rfl | hx
      · exact hmono2 _ hout.at_n
      · exact hat2 x hx

theorem levelMany_mixed (g : List NodeDef) (roots : List Nat) (st : GState) (i : Nat) (h : LevelMany g roots st i) :
    Mixed g st i (ReachAny g roots) := by
  refine ⟨fun n hn => Or.inl (h n hn), ?_⟩
  intro n d hn hat _ _ _
  have := At_idx_unique g st i (i + 1) n (h n hn) hat
  omega

/-- **lock step for several roots**: one round over all roots keeps every node any root depends on
at the same index; shared sub-expressions and shared streams are advanced once. -/
theorem graph_lockstep_many (g : List NodeDef) (hg : WFG g) (roots : List Nat) (st : GState) (i : Nat)
    (hl : LevelMany g roots st i)
    (hch : ∀ n cs, ReachAny g roots n → g[n]? = some (NodeDef.stream cs) → i + 1 < cs.length) :
    ∃ st', getBuffers g roots st (i + 1) = .ok (st', valsAt g roots (i + 1)) ∧ LevelMany g roots st' (i + 1) := by
  obtain ⟨st', vs, hget, hvs, hm, _, hat⟩ :=
    getBuffers_mixed g hg roots i hch roots st (fun r h => h) (levelMany_mixed g roots st i hl)
  subst hvs
  refine ⟨st', hget, ?_⟩
  intro n ⟨r, hr, hn⟩
  induction hn with
  | root => exact hat r hr
  | step hreach hd hmem ih => exact hm.2 _ _ ⟨r, hr, hreach⟩ ih hd _ hmem

theorem getBuffers_same (g : List NodeDef) (st : GState) (i : Nat) :
    ∀ rs, (∀ r ∈ rs, At g st i r) → getBuffers g rs st i = .ok (st, valsAt g rs i) := by
  intro rs
  induction rs with
  | nil => intro _; rfl
  | cons r rs ih =>
    intro h
    obtain ⟨v, hget, hv⟩ := getBuffer_same g st i r r (h r (by simp))
    simp only [getBuffers, hget, ih (fun x hx => h x (by simp [hx])), valsAt, List.map_cons, hv, Option.getD_some]

theorem getBuffers_stop (g : List NodeDef) (hg : WFG g) (hna : HasNodeArg g) (r : Nat) (rs : List Nat) (st : GState) (i : Nat)
    (hl : LevelMany g (r :: rs) st i)
    (hch : ∀ n cs, ReachAny g (r :: rs) n → g[n]? = some (NodeDef.stream cs) → cs.length = i + 1) :
    getBuffers g (r :: rs) st (i + 1) = .error .stop := by
  have hl1 : Level g r st i := fun n hn => hl n ⟨r, by simp, hn⟩
  have := graph_stop g hg hna r st i hl1 (fun n cs hn hd => hch n cs ⟨r, by simp, hn⟩ hd) (r + 1) r (by omega) Reach.root
  simp only [getBuffers, this]

theorem graph_iter_many (g : List NodeDef) (hg : WFG g) (hna : HasNodeArg g) (roots : List Nat) (hne : roots ≠ []) (M : Nat)
    (hch : ∀ n cs, ReachAny g roots n → g[n]? = some (NodeDef.stream cs) → cs.length = M) :
    ∀ k i st fuel, i + k + 1 = M → k + 1 < fuel → LevelMany g roots st i →
      ∃ st', getIterMany g roots fuel i st = .ok ((List.range (k + 1)).map (fun j => valsAt g roots (i + j)), st') := by
  obtain ⟨r0, rs0, rfl⟩ : ∃ r rs, roots = r :: rs := by
    cases roots with
    | nil => exact absurd rfl hne
    | cons r rs => exact ⟨r, rs, rfl⟩
  intro k
  induction k with
  | zero =>
    intro i st fuel hM hf hl
    have hsame := getBuffers_same g st i (r0 :: rs0) (fun r hr => hl r ⟨r, hr, Reach.root⟩)
    have hstop := getBuffers_stop g hg hna r0 rs0 st i hl (fun n cs hr hd => by rw [hch n cs hr hd]; omega)
    obtain ⟨f', rfl⟩ : ∃ f', fuel = f' + 2 := ⟨fuel - 2, by omega⟩
    exact ⟨st, by simp only [getIterMany, hsame, hstop]; simp⟩
  | succ k ih =>
    intro i st fuel hM hf hl
    have hsame := getBuffers_same g st i (r0 :: rs0) (fun r hr => hl r ⟨r, hr, Reach.root⟩)
    obtain ⟨st1, hget1, hl1⟩ := graph_lockstep_many g hg (r0 :: rs0) st i hl
      (fun n cs hr hd => by rw [hch n cs hr hd]; omega)
    obtain ⟨f', rfl⟩ : ∃ f', fuel = f' + 1 := ⟨fuel - 1, by omega⟩
    obtain ⟨st', hiter⟩ := ih (i + 1) st1 f' (by omega) (by omega) hl1
    have hsame1 := getBuffers_same g st1 (i + 1) (r0 :: rs0) (fun r hr => hl1 r ⟨r, hr, Reach.root⟩)
    have hcont : getIterMany g (r0 :: rs0) f' (i + 1) st = getIterMany g (r0 :: rs0) f' (i + 1) st1 := by
      obtain ⟨f'', rfl⟩ : ∃ f'', f' = f'' + 1 := ⟨f' - 1, by omega⟩
      simp only [getIterMany, hget1, hsame1]
    refine ⟨st', ?_⟩
    simp only [getIterMany, hsame, hcont, hiter]
    rw [List.range_succ_eq_map (n := k + 1)]
    simp [Function.comp_def, Nat.add_assoc, Nat.add_comm 1]


/-- per-buffer values of all roots, for buffers `0 … M-1` -/
def rowsAt (g : List NodeDef) (roots : List Nat) (M : Nat) : List (List (List Int)) :=
  (List.range M).map (fun i => valsAt g roots i)

/-- **`compute` of several roots**: construction succeeds, the roots are iterated together in lock
step, and what is concatenated / reduced are exactly the roots' values on buffers `0 … M-1`. -/
theorem graph_compute_many (g : List NodeDef) (hg : WFG g) (hna : HasNodeArg g) (roots : List Nat) (hne : roots ≠ [])
    (M fuel : Nat) (hroots : ∀ r ∈ roots, r < g.length) (hM : 0 < M) (hf : M < fuel)
    (hch : ∀ (n : Nat) (cs : List (List Int)), g[n]? = some (NodeDef.stream cs) → cs.length = M) :
    ∃ st, computeMany g roots fuel =
        .ok ((List.range roots.length).map (fun j => ((rowsAt g roots M).map (fun r => r.getD j [])).flatten), st) ∧
      computeReduced g roots fuel = .ok (reduce1 addTuples (rowsAt g roots M), st) := by
  obtain ⟨st0, hc, hall, _⟩ := construct_spec g hg (fun n cs h => by
    intro e; have := hch n cs h; rw [e] at this; simp at this; omega) g.length (Nat.le_refl _)
  have hlt : ∀ n, ReachAny g roots n → n < g.length := by
    intro n ⟨r, hr, hn⟩
    induction hn with
    | root => exact hroots r hr
    | step _ hd hm ih => have := hg _ _ hd _ hm; omega
  have hl : LevelMany g roots st0 0 := fun n hn => hall n (hlt n hn)
  obtain ⟨k, rfl⟩ : ∃ k, M = k + 1 := ⟨M - 1, by omega⟩
  obtain ⟨st', hiter⟩ := graph_iter_many g hg hna roots hne (k + 1) (fun n cs _ h => hch n cs h) k 0 st0 fuel
    (by omega) (by omega) hl
  refine ⟨st', ?_, ?_⟩
  · simp only [computeMany, hc, hiter, rowsAt]; simp
  · simp only [computeReduced, hc, hiter, rowsAt]; simp

/-- **several roots, streamed = in memory**: every column returned by `compute([a, b, …])` is the
in-memory value of that root on the concatenated streams. -/
theorem graph_value_many (g : List NodeDef) (hg : WFG g) (hna : HasNodeArg g) (lens : List Nat) (ha : Aligned g lens)
    (hpos : 0 < lens.length) (roots : List Nat) (hne : roots ≠ []) (fuel : Nat)
    (hew : EwOn g (ReachAny g roots)) (hroots : ∀ r ∈ roots, r < g.length) (hf : lens.length < fuel) :
    ∃ cols st, computeMany g roots fuel = .ok (cols, st) ∧
      cols.map some = roots.map (fun r => evalMem g (r + 1) r) := by
  have hch : ∀ (n : Nat) (cs : List (List Int)), g[n]? = some (NodeDef.stream cs) → cs.length = lens.length := by
    intro n cs h
    have := congrArg List.length (ha n cs h)
    simpa using this
  obtain ⟨st, hc, _⟩ := graph_compute_many g hg hna roots hne lens.length fuel hroots hpos hf hch
  refine ⟨_, st, hc, ?_⟩
  apply List.ext_getElem
  · simp
  · intro j h1 h2
    simp only [List.length_map, List.length_range] at h1
    simp only [List.getElem_map, List.getElem_range]
    obtain ⟨A, a1, a2, a3⟩ := node_chunks g hg hna lens ha (ReachAny g roots) (reachAny_closed g roots) hew roots[j]
      ⟨roots[j], List.getElem_mem h1, Reach.root⟩ (hroots _ (List.getElem_mem h1))
    have hAl : A.length = lens.length := by
      have := congrArg List.length a1; simpa using this
    rw [a3]
    congr 2
    apply List.ext_getElem
    · simp [rowsAt, hAl]
    · intro i hi1 hi2
      simp only [rowsAt, List.map_map, List.getElem_map, List.getElem_range, Function.comp_apply, valsAt,
        List.getD_eq_getElem?_getD, List.getElem?_map, List.getElem?_eq_getElem h1, Option.map_some, Option.getD_some]
      rw [a2 i hi2]; rfl


/-! ### reductions over the buffers (`np.sum(node)`, `np.mean(node)`, `np.histogram(node, edges)`) -/

theorem applyRed_add (f : Fn) (hf : f.elementwise = false) (hsel : f ≠ Fn.sel) (x y : List Int) :
    List.zipWith (· + ·) (applyRed f x) (applyRed f y) = applyRed f (x ++ y) := by
  cases f with
  | add => simp [Fn.elementwise] at hf
  | sub => simp [Fn.elementwise] at hf
  | mul => simp [Fn.elementwise] at hf
  | gt => simp [Fn.elementwise] at hf
  | sel => exact absurd rfl hsel
  | sum => simp [applyRed, List.sum_append]
  | sumN => simp [applyRed, List.sum_append]
  | hist e =>
    simp only [applyRed]
    rw [← histogram_add]
    apply List.ext_getElem
    · simp
    · intro i h1 h2; simp

theorem zipWith_map_map {ρ β} (f : β → β → β) (g h : ρ → β) (l : List ρ) :
    List.zipWith f (l.map g) (l.map h) = l.map (fun x => f (g x) (h x)) := by
  induction l with
  | nil => rfl
  | cons a l ih => simp [ih]

/-- folding position-wise addition over the rows: if each root's running value `P r k` satisfies
`P r 0 = B r 0` and `P r k + B r (k+1) = P r (k+1)` then the fold of the first `k+1` rows is `P · k` -/
theorem fold_rows {ρ} (roots : List ρ) (B P : ρ → Nat → List Int) (K : Nat)
    (h0 : ∀ r ∈ roots, P r 0 = B r 0)
    (hs : ∀ r ∈ roots, ∀ k, k < K → List.zipWith (· + ·) (P r k) (B r (k + 1)) = P r (k + 1)) :
    ∀ k, k ≤ K → ((List.range k).map (fun j => roots.map (fun r => B r (j + 1)))).foldl addTuples (roots.map (fun r => B r 0))
      = roots.map (fun r => P r k) := by
  intro k
  induction k with
  | zero =>
    intro _
    simp only [List.range_zero, List.map_nil, List.foldl_nil]
    exact List.map_congr_left (fun r hr => (h0 r hr).symm)
  | succ k ih =>
    intro hk
    rw [List.range_succ, List.map_append, List.foldl_append, ih (by omega)]
    simp only [List.map_cons, List.map_nil, List.foldl_cons, List.foldl_nil, addTuples, zipWith_map_map]
    exact List.map_congr_left (fun r hr => hs r hr k (by omega))

/-- a root that is the inner node of a reduction: a non-element-wise function of one element-wise
sub-expression (the second operand slot holds a constant) -/
def RedRoot (g : List NodeDef) (r : Nat) : Prop :=
  ∃ (f : Fn) (a : Nat) (c : Int), g[r]? = some (NodeDef.comp f (Arg.node a) (Arg.const c)) ∧
    f.elementwise = false ∧ f ≠ Fn.sel ∧ EwOn g (Reach g a)

/-- the fold of per-buffer reduction results, given chunked descriptions of the reductions' arguments -/
theorem graph_reduced_core (g : List NodeDef) (hg : WFG g) (hna : HasNodeArg g) (K0 : Nat)
    (hch : ∀ (n : Nat) (cs : List (List Int)), g[n]? = some (NodeDef.stream cs) → cs.length = K0)
    (hpos : 0 < K0) (roots : List Nat) (hne : roots ≠ []) (fuel : Nat)
    (hred : ∀ r ∈ roots, ∃ (f : Fn) (a : Nat) (c : Int) (A : List (List Int)),
      g[r]? = some (NodeDef.comp f (Arg.node a) (Arg.const c)) ∧ f.elementwise = false ∧ f ≠ Fn.sel ∧ NodeRelG g K0 a A)
    (hroots : ∀ r ∈ roots, r < g.length) (hf : K0 < fuel) :
    ∃ res st, computeReduced g roots fuel = .ok (some res, st) ∧
      res.map some = roots.map (fun r => evalMem g (r + 1) r) := by
  obtain ⟨st, _, hc⟩ := graph_compute_many g hg hna roots hne K0 fuel hroots hpos hf hch
  obtain ⟨K, hK⟩ : ∃ K, K0 = K + 1 := ⟨K0 - 1, by omega⟩
  -- per root: chunks of the argument, running values
  have hper : ∀ r ∈ roots, ∃ P : Nat → List Int,
      P 0 = (valAt g 0 (r + 1) r).getD [] ∧
      (∀ k, k < K → List.zipWith (· + ·) (P k) ((valAt g (k + 1) (r + 1) r).getD []) = P (k + 1)) ∧
      evalMem g (r + 1) r = some (P K) := by
    intro r hr
    obtain ⟨f, a, c, A, hd, hf', hsel, a1, a2, a3⟩ := hred r hr
    have har : a < r := hg r _ hd a (by simp [nodeArgs, argNodes])
    have hAl : A.length = K + 1 := by omega
    have hval : ∀ i (h : i < A.length), valAt g i (r + 1) r = some (applyRed f A[i]) := by
      intro i h
      simp only [valAt, hd, argValWith, har, ↓reduceIte]
      rw [valAt_fuel2 g i r (a + 1) a har (by omega), a2 i h]
      simp [applyFn, hf', hsel]
    refine ⟨fun k => applyRed f (A.take (k + 1)).flatten, ?_, ?_, ?_⟩
    · rw [hval 0 (by omega)]
      have : A.take 1 = [A[0]'(by omega)] := by
        cases A with
        | nil => simp at hAl
        | cons x xs => simp
      simp [this]
    · intro k hk
      rw [hval (k + 1) (by omega), Option.getD_some, applyRed_add f hf' hsel]
      congr 1
      rw [List.take_add_one (i := k + 1), List.getElem?_eq_getElem (by omega)]
      simp only [List.flatten_append, Option.toList_some, List.flatten_cons, List.flatten_nil, List.append_nil]
    · simp only [evalMem, hd, argValWith, har, ↓reduceIte]
      rw [evalMem_fuel2 g r (a + 1) a har (by omega), a3]
      have : A.take (K + 1) = A := List.take_of_length_le (by omega)
      simp [applyFn, hf', hsel, this]
  -- choose the running values
  have hchoice : ∃ P : Nat → Nat → List Int, ∀ r ∈ roots,
      P r 0 = (valAt g 0 (r + 1) r).getD [] ∧
      (∀ k, k < K → List.zipWith (· + ·) (P r k) ((valAt g (k + 1) (r + 1) r).getD []) = P r (k + 1)) ∧
      evalMem g (r + 1) r = some (P r K) := by
    classical
    refine ⟨fun r => if h : r ∈ roots then (hper r h).choose else fun _ => [], ?_⟩
    intro r hr
    simp only [hr, ↓reduceDIte]
    exact (hper r hr).choose_spec
  obtain ⟨P, hP⟩ := hchoice
  have hfold := fold_rows roots (fun r i => (valAt g i (r + 1) r).getD []) P K
    (fun r hr => (hP r hr).1) (fun r hr => (hP r hr).2.1) K (Nat.le_refl _)
  refine ⟨roots.map (fun r => P r K), st, ?_, ?_⟩
  · rw [hc]
    congr 2
    simp only [rowsAt, hK, List.range_succ_eq_map, List.map_cons, List.map_map, reduce1]
    congr 1
  · rw [List.map_map]
    exact List.map_congr_left (fun r hr => ((hP r hr).2.2).symm)

/-- **reductions, streamed = in memory**: folding the per-buffer results of `np.sum` / `sum_and_n` /
`np.histogram(·, edges)` nodes over all buffers (one or several reductions computed together) gives,
for every reduction, its value on the concatenated data — for every common cutting of the streams. -/
theorem graph_reduced_value (g : List NodeDef) (hg : WFG g) (hna : HasNodeArg g) (lens : List Nat) (ha : Aligned g lens)
    (hpos : 0 < lens.length) (roots : List Nat) (hne : roots ≠ []) (fuel : Nat)
    (hred : ∀ r ∈ roots, RedRoot g r) (hroots : ∀ r ∈ roots, r < g.length) (hf : lens.length < fuel) :
    ∃ res st, computeReduced g roots fuel = .ok (some res, st) ∧
      res.map some = roots.map (fun r => evalMem g (r + 1) r) := by
  have hch : ∀ (n : Nat) (cs : List (List Int)), g[n]? = some (NodeDef.stream cs) → cs.length = lens.length := by
    intro n cs h
    have := congrArg List.length (ha n cs h)
    simpa using this
  refine graph_reduced_core g hg hna lens.length hch hpos roots hne fuel ?_ hroots hf
  intro r hr
  obtain ⟨f, a, c, hd, hf', hsel, hewa⟩ := hred r hr
  have har : a < r := hg r _ hd a (by simp [nodeArgs, argNodes])
  obtain ⟨A, a1, a2, a3⟩ := node_chunks g hg hna lens ha (Reach g a) (fun n d hn hd m hm => Reach.step hn hd hm) hewa a
    Reach.root (by have := hroots r hr; omega)
  exact ⟨f, a, c, A, hd, hf', hsel, by have := congrArg List.length a1; simpa using this, a2, a3⟩



/-! ### boolean-mask indexing of a node by a node (`node[mask_node]`) -/

theorem applySel_append (x x' m m' : List Int) (h : x.length = m.length) :
    applySel (x ++ x') (m ++ m') = applySel x m ++ applySel x' m' := by
  simp [applySel, List.zip_append h]

/-- mask selection pinned by the standard notions: it is `filter` on the zipped pairs -/
theorem applySel_eq_filter (x m : List Int) :
    applySel x m = ((x.zip m).filter (fun p => p.2 ≠ 0)).map (·.1) := by
  unfold applySel
  induction x.zip m with
  | nil => rfl
  | cons p l ih =>
    simp only [ne_eq, ite_not, decide_not] at ih
    by_cases hp : p.2 = 0 <;> simp [hp, ih]

theorem applySel_flatten (A M : List (List Int)) (h : A.map List.length = M.map List.length) :
    (List.zipWith applySel A M).flatten = applySel A.flatten M.flatten := by
  induction A generalizing M with
  | nil => cases M <;> simp [applySel] at h ⊢
  | cons a A ih =>
    cases M with
    | nil => simp at h
    | cons m M =>
      simp only [List.map_cons, List.cons.injEq] at h
      simp only [List.zipWith_cons_cons, List.flatten_cons, applySel_append a A.flatten m M.flatten h.1, ih M h.2]

/-- a root that indexes one element-wise sub-expression by another (a boolean mask) -/
def SelRoot (g : List NodeDef) (r : Nat) : Prop :=
  ∃ (a mk : Nat), g[r]? = some (NodeDef.comp Fn.sel (Arg.node a) (Arg.node mk)) ∧
    EwOn g (Reach g a) ∧ EwOn g (Reach g mk)

/-- **`compute(node[mask_node])`, streamed = in memory**: selecting buffer by buffer with the mask's
buffers and concatenating is selecting from the concatenated values with the concatenated mask, for
every common cutting of the streams (the result's buffers have data-dependent lengths). -/
theorem graph_filter_value (g : List NodeDef) (hg : WFG g) (hna : HasNodeArg g) (lens : List Nat) (ha : Aligned g lens)
    (hpos : 0 < lens.length) (root fuel : Nat) (hsel : SelRoot g root) (hroot : root < g.length)
    (hf : lens.length < fuel) :
    ∃ v st, computeGraph g root fuel = .ok (v, st) ∧ evalMem g (root + 1) root = some v := by
  have hch : ∀ (n : Nat) (cs : List (List Int)), g[n]? = some (NodeDef.stream cs) → cs.length = lens.length := by
    intro n cs h
    have := congrArg List.length (ha n cs h)
    simpa using this
  obtain ⟨vs, st, hc, hvs⟩ := graph_compute g hg hna root lens.length fuel hroot hpos hf hch
  obtain ⟨a, mk, hd, hewa, hewm⟩ := hsel
  have har : a < root := hg root _ hd a (by simp [nodeArgs, argNodes])
  have hmr : mk < root := hg root _ hd mk (by simp [nodeArgs, argNodes])
  obtain ⟨A, a1, a2, a3⟩ := node_chunks g hg hna lens ha (Reach g a) (fun n d hn hd m hm => Reach.step hn hd hm) hewa a
    Reach.root (by omega)
  obtain ⟨M, m1, m2, m3⟩ := node_chunks g hg hna lens ha (Reach g mk) (fun n d hn hd m hm => Reach.step hn hd hm) hewm mk
    Reach.root (by omega)
  have hAl : A.length = lens.length := by have := congrArg List.length a1; simpa using this
  have hMl : M.length = lens.length := by have := congrArg List.length m1; simpa using this
  have hval : ∀ i (h1 : i < A.length) (h2 : i < M.length), valAt g i (root + 1) root = some (applySel A[i] M[i]) := by
    intro i h1 h2
    simp only [valAt, hd, argValWith, har, hmr, ↓reduceIte]
    rw [valAt_fuel2 g i root (a + 1) a har (by omega), a2 i h1, valAt_fuel2 g i root (mk + 1) mk hmr (by omega), m2 i h2]
    simp [applyFn, Fn.elementwise]
  have hmem : evalMem g (root + 1) root = some (applySel A.flatten M.flatten) := by
    simp only [evalMem, hd, argValWith, har, hmr, ↓reduceIte]
    rw [evalMem_fuel2 g root (a + 1) a har (by omega), a3, evalMem_fuel2 g root (mk + 1) mk hmr (by omega), m3]
    simp [applyFn, Fn.elementwise]
  have : vs = List.zipWith applySel A M := by
    apply map_some_inj
    rw [hvs]
    apply List.ext_getElem
    · simp [hAl, hMl]
    · intro i h1 h2
      simp only [List.length_map, List.length_range] at h1
      simp only [List.getElem_map, List.getElem_range, List.getElem_zipWith]
      exact hval i (by omega) (by omega)
  subst this
  refine ⟨_, st, hc, ?_⟩
  rw [hmem, applySel_flatten A M (by rw [a1, m1])]


/-! ### compositions: mask selections anywhere below element-wise functions and reductions
(`a[mask] + 1`, `np.sum(a[mask])`, `a[m1][m2]`, `np.histogram((a * b)[a > c], edges)`, ...) -/

theorem lengths_of_getElem (A B : List (List Int)) (K : Nat) (hA : A.length = K) (hB : B.length = K)
    (h : ∀ i (h1 : i < A.length) (h2 : i < B.length), A[i].length = B[i].length) :
    A.map List.length = B.map List.length := by
  apply List.ext_getElem
  · simp [hA, hB]
  · intro i h1 h2
    simp only [List.length_map] at h1 h2
    simp only [List.getElem_map]
    exact h i h1 h2

theorem node_chunks_sel (g : List NodeDef) (hg : WFG g) (hna : HasNodeArg g) (K : Nat)
    (hch : ∀ (n : Nat) (cs : List (List Int)), g[n]? = some (NodeDef.stream cs) → cs.length = K)
    (P : Nat → Prop) (hP : ∀ n d, P n → g[n]? = some d → ∀ m ∈ nodeArgs d, P m) (hes : EwSelOn g P) (hsh : ShapeOK g K P) :
    ∀ n, P n → n < g.length → ∃ A, NodeRelG g K n A := by
  intro n
  induction n using Nat.strongRecOn with
  | _ n ih =>
    intro hnb hn
    have hd : g[n]? = some g[n] := List.getElem?_eq_getElem hn
    cases hdn : g[n] with
    | stream cs =>
      rw [hdn] at hd
      refine ⟨cs, hch n cs hd, ?_, ?_⟩
      · intro i h; simp [valAt, hd, List.getElem?_eq_getElem h]
      · simp [evalMem, hd]
    | comp f a b =>
      rw [hdn] at hd
      have hlt : ∀ m ∈ nodeArgs (.comp f a b), m < n := hg n _ hd
      have hnode : ∀ m, m ∈ nodeArgs (.comp f a b) → ∃ A : List (List Int), A.length = K ∧
          (∀ i (h : i < A.length), valAt g i n m = some A[i] ∧ valAt g i (m + 1) m = some A[i]) ∧
          evalMem g n m = some A.flatten := by
        intro m hm
        have hmn := hlt m hm
        obtain ⟨A, h1, h2, h3⟩ := ih m hmn (hP n _ hnb hd m hm) (by omega)
        refine ⟨A, h1, fun i h => ⟨?_, h2 i h⟩, ?_⟩
        · rw [valAt_fuel2 g i n (m + 1) m hmn (by omega)]; exact h2 i h
        · rw [evalMem_fuel2 g n (m + 1) m hmn (by omega)]; exact h3
      cases a with
      | const c =>
        cases b with
        | const d =>
          have hne := hna n f _ _ hd
          simp [argNodes] at hne
        | node y =>
          have hf : f.elementwise = true := by
            rcases hes n f _ _ hnb hd with h | ⟨_, x, y', hx, _⟩
            · exact h
            · cases hx
          obtain ⟨B, b1, b2, b3⟩ := hnode y (by simp [nodeArgs, argNodes])
          have hy : y < n := hlt y (by simp [nodeArgs, argNodes])
          refine ⟨B.map (fun yv => yv.map (fun v => f.app c v)), by simpa using b1, ?_, ?_⟩
          · intro i h
            simp only [List.length_map] at h
            simp only [valAt, hd, argValWith, hy, ↓reduceIte, (b2 i h).1, Option.map_some, Option.bind_some, applyFn, hf,
              applyEw, List.getElem_map]
          · simp only [evalMem, hd, argValWith, hy, ↓reduceIte, b3, Option.map_some, Option.bind_some, applyFn, hf, applyEw,
              List.map_flatten]
      | node x =>
        have hx : x < n := hlt x (by simp [nodeArgs, argNodes])
        obtain ⟨A, a1, a2, a3⟩ := hnode x (by simp [nodeArgs, argNodes])
        cases b with
        | const d =>
          have hf : f.elementwise = true := by
            rcases hes n f _ _ hnb hd with h | ⟨_, x', y', _, hy'⟩
            · exact h
            · cases hy'
          refine ⟨A.map (fun xv => xv.map (fun v => f.app v d)), by simpa using a1, ?_, ?_⟩
          · intro i h
            simp only [List.length_map] at h
            simp only [valAt, hd, argValWith, hx, ↓reduceIte, (a2 i h).1, Option.map_some, Option.bind_some, applyFn, hf,
              applyEw, List.getElem_map]
          · simp only [evalMem, hd, argValWith, hx, ↓reduceIte, a3, Option.map_some, Option.bind_some, applyFn, hf, applyEw,
              List.map_flatten]
        | node y =>
          have hy : y < n := hlt y (by simp [nodeArgs, argNodes])
          obtain ⟨B, b1, b2, b3⟩ := hnode y (by simp [nodeArgs, argNodes])
          have hAB : A.map List.length = B.map List.length :=
            lengths_of_getElem A B K a1 b1 (fun i h1 h2 =>
              hsh n f x y hnb hd i (by omega) _ _ (a2 i h1).2 (b2 i h2).2)
          rcases hes n f _ _ hnb hd with hf | ⟨hf, _⟩
          · refine ⟨List.zipWith (List.zipWith f.app) A B, by simp [a1, b1], ?_, ?_⟩
            · intro i h
              simp only [List.length_zipWith] at h
              simp only [valAt, hd, argValWith, hx, hy, ↓reduceIte, (a2 i (by omega)).1, (b2 i (by omega)).1, Option.map_some,
                Option.bind_some, applyFn, hf, applyEw, List.getElem_zipWith]
            · simp only [evalMem, hd, argValWith, hx, hy, ↓reduceIte, a3, b3, Option.map_some, Option.bind_some, applyFn, hf,
                applyEw]
              rw [zipWith_flatten f.app A B hAB]
          · subst hf
            refine ⟨List.zipWith applySel A B, by simp [a1, b1], ?_, ?_⟩
            · intro i h
              simp only [List.length_zipWith] at h
              simp only [valAt, hd, argValWith, hx, hy, ↓reduceIte, (a2 i (by omega)).1, (b2 i (by omega)).1, Option.map_some,
                Option.bind_some, List.getElem_zipWith]
              simp [applyFn, Fn.elementwise]
            · simp only [evalMem, hd, argValWith, hx, hy, ↓reduceIte, a3, b3, Option.map_some, Option.bind_some]
              simp [applyFn, Fn.elementwise, applySel_flatten A B hAB]

/-- without mask selections the streamed run is always shape-correct when the streams are cut alike -/
theorem shapeOK_of_aligned (g : List NodeDef) (hg : WFG g) (hna : HasNodeArg g) (lens : List Nat) (ha : Aligned g lens)
    (P : Nat → Prop) (hP : ∀ n d, P n → g[n]? = some d → ∀ m ∈ nodeArgs d, P m) (hew : EwOn g P)
    (hlen : ∀ n, P n → n < g.length) : ShapeOK g lens.length P := by
  intro n f x y hn hd i hi u v hu hv
  have hx : P x := hP n _ hn hd x (by simp [nodeArgs, argNodes])
  have hy : P y := hP n _ hn hd y (by simp [nodeArgs, argNodes])
  obtain ⟨A, a1, a2, _⟩ := node_chunks g hg hna lens ha P hP hew x hx (hlen x hx)
  obtain ⟨B, b1, b2, _⟩ := node_chunks g hg hna lens ha P hP hew y hy (hlen y hy)
  have hAl : A.length = lens.length := by have := congrArg List.length a1; simpa using this
  have hBl : B.length = lens.length := by have := congrArg List.length b1; simpa using this
  have e1 := a2 i (by omega)
  have e2 := b2 i (by omega)
  rw [hu] at e1; rw [hv] at e2
  cases e1; cases e2
  have h1 : (A.map List.length)[i]'(by simp; omega) = (B.map List.length)[i]'(by simp; omega) := by
    simp only [a1, b1]
  simpa using h1

/-- **any composition of element-wise functions and mask selections, streamed = in memory**: for every graph
in construction order whose streams have the same number of buffers, whose nodes below the root are
element-wise functions or `node[mask_node]` selections in any arrangement (`a[m] + 1`, `a[m1][m2]`,
`(a + b)[a > c] * 2`, ...), and whose streamed run is shape-correct buffer by buffer, `compute()` of the root
returns exactly the in-memory value of the same expression on the concatenated streams. `graph_value` and
`graph_filter_value` are the special cases without / with one selection at the root. -/
theorem graph_value_sel (g : List NodeDef) (hg : WFG g) (hna : HasNodeArg g) (K : Nat)
    (hch : ∀ (n : Nat) (cs : List (List Int)), g[n]? = some (NodeDef.stream cs) → cs.length = K)
    (hpos : 0 < K) (root fuel : Nat) (hes : EwSelOn g (Reach g root)) (hsh : ShapeOK g K (Reach g root))
    (hroot : root < g.length) (hf : K < fuel) :
    ∃ v st, computeGraph g root fuel = .ok (v, st) ∧ evalMem g (root + 1) root = some v := by
  obtain ⟨vs, st, hc, hvs⟩ := graph_compute g hg hna root K fuel hroot hpos hf hch
  obtain ⟨A, h1, h2, h3⟩ := node_chunks_sel g hg hna K hch (Reach g root) (fun n d hn hd m hm => Reach.step hn hd hm) hes hsh
    root Reach.root hroot
  have : vs = A := by
    have e : List.map some vs = List.map some A := by
      rw [hvs]
      apply List.ext_getElem
      · simp [h1]
      · intro i hi1 hi2
        simp only [List.getElem_map, List.getElem_range]
        exact h2 i (by simpa using hi2)
    exact map_some_inj _ _ e
  subst this
  exact ⟨vs.flatten, st, hc, h3⟩

/-- a root that is the inner node of a reduction over any composition of element-wise functions and mask
selections (`np.sum(a[mask])`, `np.histogram((a * b)[a > c], edges)`, `mean(a[m1][m2] + 1)`, ...) -/
def RedSelRoot (g : List NodeDef) (K : Nat) (r : Nat) : Prop :=
  ∃ (f : Fn) (a : Nat) (c : Int), g[r]? = some (NodeDef.comp f (Arg.node a) (Arg.const c)) ∧
    f.elementwise = false ∧ f ≠ Fn.sel ∧ EwSelOn g (Reach g a) ∧ ShapeOK g K (Reach g a)

/-- **reductions over compositions with mask selections, streamed = in memory** (`np.sum(a[mask])` and the like,
one or several computed together): the fold of the per-buffer results is the reduction's value on the
in-memory value of its argument, for every common number of buffers and every shape-correct cutting -/
theorem graph_reduced_filter_value (g : List NodeDef) (hg : WFG g) (hna : HasNodeArg g) (K : Nat)
    (hch : ∀ (n : Nat) (cs : List (List Int)), g[n]? = some (NodeDef.stream cs) → cs.length = K)
    (hpos : 0 < K) (roots : List Nat) (hne : roots ≠ []) (fuel : Nat)
    (hred : ∀ r ∈ roots, RedSelRoot g K r) (hroots : ∀ r ∈ roots, r < g.length) (hf : K < fuel) :
    ∃ res st, computeReduced g roots fuel = .ok (some res, st) ∧
      res.map some = roots.map (fun r => evalMem g (r + 1) r) := by
  refine graph_reduced_core g hg hna K hch hpos roots hne fuel ?_ hroots hf
  intro r hr
  obtain ⟨f, a, c, hd, hf', hsel, hes, hsh⟩ := hred r hr
  have har : a < r := hg r _ hd a (by simp [nodeArgs, argNodes])
  obtain ⟨A, hA⟩ := node_chunks_sel g hg hna K hch (Reach g a) (fun n d hn hd m hm => Reach.step hn hd hm) hes hsh a
    Reach.root (by have := hroots r hr; omega)
  exact ⟨f, a, c, A, hd, hf', hsel, hA⟩

/-- `np.sum(a[a > 1])` on streams cut as [2, 1]: the hypotheses hold and both sides give 5 -/
def exSel : List NodeDef :=
  [.stream [[1, 2], [3]], .comp .gt (.node 0) (.const 1), .comp .sel (.node 0) (.node 1), .comp .sum (.node 2) (.const 0)]

example : (computeReduced exSel [3] 5).toOption.map (·.1) = some (some [[5]]) ∧ evalMem exSel 4 3 = some [5] := by decide

example : EwSelOn exSel (fun n => n ≤ 2) := by
  intro n f a b hn hd
  rcases n with _ | _ | _ | _ | n <;> simp [exSel] at hd
  · obtain ⟨rfl, rfl, rfl⟩ := hd; exact Or.inl rfl
  · obtain ⟨rfl, rfl, rfl⟩ := hd; exact Or.inr ⟨rfl, 0, 1, rfl, rfl⟩
  · omega

example : ShapeOK exSel 2 (fun _ => True) := by
  intro n f x y _ hd i hi u v hu hv
  rcases n with _ | _ | _ | _ | n <;> simp [exSel] at hd
  obtain ⟨rfl, rfl, rfl⟩ := hd
  rcases i with _ | _ | i
  · have e1 : valAt exSel 0 1 0 = some [1, 2] := by decide
    have e2 : valAt exSel 0 2 1 = some [0, 1] := by decide
    rw [e1] at hu; rw [e2] at hv; cases hu; cases hv; rfl
  · have e1 : valAt exSel 1 1 0 = some [3] := by decide
    have e2 : valAt exSel 1 2 1 = some [1] := by decide
    rw [e1] at hu; rw [e2] at hv; cases hu; cases hv; rfl
  · omega

/-- a graph with a stream shared by two parents, cut as [2, 1] -/
def exG : List NodeDef :=
  [.stream [[1, 2], [3]], .stream [[10, 20], [30]], .comp .add (.node 0) (.node 1), .comp .mul (.node 2) (.node 0)]

example : WFG exG := by
  intro n d h m hm
  rcases n with _ | _ | _ | _ | n <;> simp [exG] at h <;> subst h <;> simp [nodeArgs, argNodes] at hm <;> omega

example : HasNodeArg exG := by
  intro n f a b h
  rcases n with _ | _ | _ | _ | n <;> simp [exG] at h
  all_goals (obtain ⟨rfl, rfl, rfl⟩ := h; simp [argNodes])

example : Aligned exG [2, 1] := by
  intro n cs h
  rcases n with _ | _ | _ | _ | n <;> simp [exG] at h <;> subst h <;> rfl

example : (computeGraph exG 3 5).toOption.map (·.1) = some [11, 44, 99] ∧ evalMem exG 4 3 = some [11, 44, 99] := by decide

/-! ## non-vacuity of the hypotheses -/
example : IsChunking [1, 2, 3] [[1], [], [2, 3]] := rfl
example : Contig [1, 1, 2, 5, 5] := sorted_contig _ (by decide)
example : groupbyStream true (fun x : Nat × Nat => x.1) [[(1, 0), (1, 1)], [(1, 2), (2, 3)], [(3, 4)]]
    = some [(1, [(1, 0), (1, 1), (1, 2)]), (2, [(2, 3)]), (3, [(3, 4)])] := by decide
example : bincountStream 0 [[1, 2], [5], [0]] = some [1, 1, 1, 0, 0, 1] := by decide
example : chunkEntries 3 [[0, 1, 2, 3], [4, 5, 6, 7, 8, 9]] = some [[0, 1, 2], [3, 4, 5], [6, 7, 8], [9]] := by decide


/-! ## per-chromosome pipelines (`stream=True`) -/

theorem runs_eq_C10 (l : List C10.Iv) : runs (fun iv : C10.Iv => iv.c) l = C10.runs l := by
  induction l with
  | nil => rfl
  | cons x r ih =>
    simp only [runs, C10.runs, ih]
    cases C10.runs r with
    | nil => rfl
    | cons g t =>
      obtain ⟨k, grp⟩ := g
      simp only

theorem iterChrom_nil (rem c : Nat) (seen : List Nat) :
    iterChrom rem c seen [] = some (List.replicate rem []) := by
  induction rem generalizing c seen with
  | zero => rfl
  | succ rem ih => simp [iterChrom, ih, List.replicate_succ]

theorem dropWhile_pairwise {α} (R : α → α → Prop) (p : α → Bool) (l : List α) (h : l.Pairwise R) :
    (l.dropWhile p).Pairwise R :=
  h.sublist (List.dropWhile_sublist p)

/-- walking the genome order over the runs of chromosome-sorted entries hands out, for every
chromosome, exactly its own entries (an empty table when it has none) and never raises -/
theorem iterChrom_runs (rem : Nat) : ∀ (c0 : Nat) (seen : List Nat) (l : List C10.Iv),
    l.Pairwise (fun a b => a.c ≤ b.c) → (∀ iv ∈ l, c0 ≤ iv.c ∧ iv.c < c0 + rem) → (∀ x ∈ seen, x < c0) →
    iterChrom rem c0 seen (C10.runs l) = some ((List.range' c0 rem).map (fun c => l.filter (fun iv => iv.c = c))) := by
  induction rem with
  | zero =>
    intro c0 seen l _ hb _
    have : l = [] := by
      cases l with
      | nil => rfl
      | cons x r => have := hb x (by simp); omega
    subst this
    rfl
  | succ rem ih =>
    intro c0 seen l hs hb hseen
    have hlo : ∀ iv ∈ l, c0 ≤ iv.c := fun iv h => (hb iv h).1
    have hfilt := C10.filter_eq_takeWhile l c0 hs hlo
    by_cases htw : l.takeWhile (fun iv => iv.c = c0) = []
    · -- chromosome c0 has no entries
      have hall : ∀ iv ∈ l, c0 + 1 ≤ iv.c ∧ iv.c < c0 + 1 + rem := by
        intro iv hiv
        have h1 := hb iv hiv
        have : iv.c ≠ c0 := by
          intro e
          have : iv ∈ l.filter (fun iv => iv.c = c0) := by simp [hiv, e]
          rw [hfilt, htw] at this
          simp at this
        omega
      have ih' := ih (c0 + 1) (c0 :: seen) l hs hall (by
        intro x hx; simp at hx; rcases hx with rfl | hx
        · omega
        · have := hseen x hx; omega)
      rw [List.range'_succ, List.map_cons, hfilt, htw]
      cases hl : l with
      | nil =>
        subst hl
        simp only [C10.runs, iterChrom] at ih' ⊢
        rw [ih']; simp
      | cons x r =>
        obtain ⟨g, t, hg⟩ := C10.runs_head x r
        have hx : x.c ≠ c0 := by
          have := (hall x (by rw [hl]; simp)).1; omega
        rw [hl] at ih'
        rw [hg] at ih' ⊢
        simp only [iterChrom, hx, ↓reduceIte, ih', Option.map_some]
    · -- chromosome c0 has entries: they are the first run
      rw [C10.runs_span l c0 htw]
      obtain ⟨dw, hdw⟩ : ∃ dw, dw = l.dropWhile (fun iv => iv.c = c0) := ⟨_, rfl⟩
      rw [← hdw]
      have hdlo := C10.dropWhile_lo l c0 hs hlo
      rw [← hdw] at hdlo
      have hds : dw.Pairwise (fun a b => a.c ≤ b.c) := by rw [hdw]; exact dropWhile_pairwise _ _ l hs
      have hdb : ∀ iv ∈ dw, c0 + 1 ≤ iv.c ∧ iv.c < c0 + 1 + rem := by
        intro iv hiv
        have h1 := hdlo iv hiv
        have : iv ∈ l := by rw [hdw] at hiv; exact (List.dropWhile_sublist _).subset hiv
        have := (hb iv this).2
        omega
      have ih' := ih (c0 + 1) (c0 :: seen) dw hds hdb (by
        intro x hx; simp at hx; rcases hx with rfl | hx
        · omega
        · have := hseen x hx; omega)
      have hrest : (List.range' (c0 + 1) rem).map (fun c => dw.filter (fun iv => iv.c = c))
          = (List.range' (c0 + 1) rem).map (fun c => l.filter (fun iv => iv.c = c)) := by
        apply List.map_congr_left
        intro c hc
        have : c ≠ c0 := by simp [List.mem_range'] at hc; omega
        rw [hdw]; exact C10.filter_dropWhile l c0 c this
      rw [List.range'_succ, List.map_cons, hfilt, ← hrest]
      cases hd : dw with
      | nil =>
        rw [hd] at ih'
        simp only [C10.runs] at ih' ⊢
        simp only [iterChrom, ↓reduceIte, ih', Option.map_some]
      | cons y r =>
        obtain ⟨g, t, hg⟩ := C10.runs_head y r
        rw [hd] at ih'
        rw [hg] at ih' ⊢
        have hy : seen.contains y.c = false := by
          have h1 := hdlo y (by rw [hd]; simp)
          cases hc : seen.contains y.c with
          | false => rfl
          | true =>
            have := hseen y.c (by simpa using hc)
            omega
        simp only [iterChrom, ↓reduceIte, hy, Bool.false_eq_true, ih', Option.map_some]


theorem toDict_flatten (sizes : List Nat) : ∀ (dense : List Nat), dense.length = C10.total sizes →
    (C10.toDict sizes dense).flatten = dense := by
  induction sizes with
  | nil =>
    intro dense h
    simp only [C10.total, List.sum_nil] at h
    have : dense = [] := List.length_eq_zero_iff.mp h
    subst this; rfl
  | cons s ss ih =>
    intro dense h
    simp only [C10.total, List.sum_cons] at h
    have hrec : ∀ c, c < ss.length → C10.extractChrom (s :: ss) dense (c + 1) = C10.extractChrom ss (dense.drop s) c := by
      intro c hc
      simp only [C10.extractChrom, C10.size_cons_succ, C10.offset_cons_succ s ss c (by omega), List.drop_drop]
      congr 2; omega
    have h0 : C10.extractChrom (s :: ss) dense 0 = dense.take s := by
      simp [C10.extractChrom, C10.offset_cons_zero, C10.size_cons_zero]
    have : C10.toDict (s :: ss) dense = dense.take s :: C10.toDict ss (dense.drop s) := by
      simp only [C10.toDict, List.length_cons, List.range_succ_eq_map, List.map_cons, List.map_map, h0]
      congr 1
      apply List.map_congr_left
      intro c hc
      simp only [List.mem_range] at hc
      exact hrec c hc
    rw [this, List.flatten_cons, ih (dense.drop s) (by simp [C10.total]; omega), List.take_append_drop]

theorem sum_map_sum (l : List (List Nat)) : (l.map List.sum).sum = l.flatten.sum := by
  induction l with
  | nil => rfl
  | cons a l ih => simp [List.sum_append, ih]

theorem zipWith_range_map {β γ} (f : Nat → β → γ) (l : List Nat) (G : Nat → β) :
    List.zipWith f l ((List.range l.length).map G) = (List.range l.length).map (fun c => f (l.getD c 0) (G c)) := by
  apply List.ext_getElem
  · simp
  · intro i h1 h2
    simp only [List.length_map, List.length_range] at h2
    simp [List.getD_eq_getElem?_getD, List.getElem?_eq_getElem h2]

theorem pileup1_spec (sizes : List Nat) (ivs : List C10.Iv) (c : Nat) :
    pileup1 (C10.size sizes c) (ivs.filter (fun iv => iv.c = c)) = C10.specPileupChrom sizes ivs c := by
  simp only [pileup1, C10.specPileupChrom]

theorem chromBuffers_spec (sizes : List Nat) (ivs : List C10.Iv) (cs : List (List C10.Iv)) (hcs : IsChunking ivs cs)
    (hs : ivs.Pairwise (fun a b => a.c ≤ b.c)) (hv : ∀ iv ∈ ivs, iv.valid sizes = true) :
    chromBuffers sizes.length cs = some ((List.range sizes.length).map (fun c => ivs.filter (fun iv => iv.c = c))) := by
  have hg := groupby_chunks_any_keys (fun iv : C10.Iv => iv.c) ivs cs hcs
  simp only [chromBuffers, hg, runs_eq_C10]
  rw [iterChrom_runs sizes.length 0 [] ivs hs ?_ (by simp), List.range_eq_range']
  intro iv hiv
  have := hv iv hiv
  simp only [C10.Iv.valid, Bool.and_eq_true, decide_eq_true_eq] at this
  omega

/-- **per-chromosome streaming = whole-genome in memory**: for every genome, every chromosome-sorted
set of valid entries and every way of cutting it into chunks (inside a chromosome, chunks of one
entry, chromosomes without entries), grouping the chunks by chromosome, walking the genome order and
concatenating the per-chromosome pile-ups (masks) gives exactly the in-memory pile-up (mask) over the
concatenated genome; the streamed `sum` reduction is the sum of that array. -/
theorem per_chromosome (sizes : List Nat) (ivs : List C10.Iv) (cs : List (List C10.Iv)) (hcs : IsChunking ivs cs)
    (hs : ivs.Pairwise (fun a b => a.c ≤ b.c)) (hv : ∀ iv ∈ ivs, iv.valid sizes = true) :
    streamPileup sizes cs = C10.pileupGlobal sizes ivs ∧ streamMask sizes cs = C10.maskGlobal sizes ivs ∧
    streamPileupSum sizes cs = (C10.pileupGlobal sizes ivs).map List.sum := by
  have hb := chromBuffers_spec sizes ivs cs hcs hs hv
  obtain ⟨hp, hm⟩ := C10.cover_local sizes ivs hv
  have hzp : List.zipWith pileup1 sizes ((List.range sizes.length).map (fun c => ivs.filter (fun iv => iv.c = c)))
      = (List.range sizes.length).map (C10.specPileupChrom sizes ivs) := by
    rw [zipWith_range_map]
    apply List.map_congr_left
    intro c _
    exact pileup1_spec sizes ivs c
  have hzm : List.zipWith mask1 sizes ((List.range sizes.length).map (fun c => ivs.filter (fun iv => iv.c = c)))
      = (List.range sizes.length).map (C10.specMaskChrom sizes ivs) := by
    rw [zipWith_range_map]
    apply List.map_congr_left
    intro c _
    simp only [mask1, C10.specMaskChrom]
    rw [show sizes.getD c 0 = C10.size sizes c from rfl, pileup1_spec]
  -- the in-memory arrays
  simp only [C10.pileupGlobal, C10.maskGlobal, C10.omap_toGlobal sizes ivs hv, Option.map_some, Option.some.injEq] at hp hm ⊢
  have hpf := congrArg List.flatten hp
  have hmf := congrArg List.flatten hm
  rw [toDict_flatten sizes _ (by simp)] at hpf hmf
  refine ⟨?_, ?_, ?_⟩
  · simp only [streamPileup, hb, Option.map_some, hzp, ← hpf]
  · simp only [streamMask, hb, Option.map_some, hzm, ← hmf]
  · simp only [streamPileupSum, hb, Option.map_some, hzp, Option.some.injEq]
    rw [hpf, sum_map_sum]

/-- **the per-chromosome arrays and their histogram** (`pileup_data`, `pileup_hist`): under the hypotheses of
`per_chromosome`, the streamed per-chromosome pile-ups are the in-memory pile-up cut at the chromosome borders,
and (for a genome with at least one chromosome) the histograms of the chromosomes added up by
`histogram_reduce` are the histogram of the whole in-memory pile-up -/
theorem per_chromosome_data_hist (edges : List Int) (sizes : List Nat) (ivs : List C10.Iv) (cs : List (List C10.Iv))
    (hcs : IsChunking ivs cs) (hs : ivs.Pairwise (fun a b => a.c ≤ b.c)) (hv : ∀ iv ∈ ivs, iv.valid sizes = true) :
    ∃ dense, C10.pileupGlobal sizes ivs = some dense ∧
      streamPileupData sizes cs = some (C10.toDict sizes dense) ∧
      (sizes ≠ [] → streamPileupHist edges sizes cs = .ok (histogram edges (dense.map Int.ofNat), edges)) := by
  have hb := chromBuffers_spec sizes ivs cs hcs hs hv
  obtain ⟨hp, _⟩ := C10.cover_local sizes ivs hv
  have hzp : List.zipWith pileup1 sizes ((List.range sizes.length).map (fun c => ivs.filter (fun iv => iv.c = c)))
      = (List.range sizes.length).map (C10.specPileupChrom sizes ivs) := by
    rw [zipWith_range_map]
    apply List.map_congr_left
    intro c _
    exact pileup1_spec sizes ivs c
  simp only [C10.pileupGlobal, C10.omap_toGlobal sizes ivs hv, Option.map_some, Option.some.injEq] at hp ⊢
  have hpf := congrArg List.flatten hp
  rw [toDict_flatten sizes _ (by simp)] at hpf
  refine ⟨_, rfl, ?_, ?_⟩
  · simp only [streamPileupData, hb, Option.map_some, hzp, hp]
  · intro hne
    simp only [streamPileupHist, hb, hzp]
    have hne2 : ((List.range sizes.length).map (C10.specPileupChrom sizes ivs)).map (fun d => d.map Int.ofNat) ≠ [] := by
      cases sizes with
      | nil => exact absurd rfl hne
      | cons a t => simp [List.range_succ_eq_map]
    have := histogramReduce_chunks edges _ hne2
    rw [List.map_map] at this
    simp only [Function.comp_def] at this
    rw [this, ← List.map_flatten, hpf]

example : IsChunking ([{ c := 0, s := 3, e := 5 }, { c := 1, s := 0, e := 2 }] : List C10.Iv)
    [[{ c := 0, s := 3, e := 5 }], [{ c := 1, s := 0, e := 2 }]] := rfl
example : streamPileup [5, 5] [[{ c := 0, s := 3, e := 5 }], [{ c := 1, s := 0, e := 2 }]]
    = some [0, 0, 0, 1, 1, 1, 1, 0, 0, 0] := by decide
example : chromBuffers 3 [[{ c := 0, s := 3, e := 5 }], [{ c := 2, s := 0, e := 2 }]]
    = some [[{ c := 0, s := 3, e := 5 }], [], [{ c := 2, s := 0, e := 2 }]] := by decide



theorem sorted_filter_concat (rem : Nat) : ∀ (c0 : Nat) (l : List C10.Iv),
    l.Pairwise (fun a b => a.c ≤ b.c) → (∀ iv ∈ l, c0 ≤ iv.c ∧ iv.c < c0 + rem) →
    ((List.range' c0 rem).map (fun c => l.filter (fun iv => iv.c = c))).flatten = l := by
  induction rem with
  | zero =>
    intro c0 l _ hb
    cases l with
    | nil => rfl
    | cons x r => have := hb x (by simp); omega
  | succ rem ih =>
    intro c0 l hs hb
    have hlo : ∀ iv ∈ l, c0 ≤ iv.c := fun iv h => (hb iv h).1
    have hfilt := C10.filter_eq_takeWhile l c0 hs hlo
    obtain ⟨dw, hdw⟩ : ∃ dw, dw = l.dropWhile (fun iv => iv.c = c0) := ⟨_, rfl⟩
    have hdlo := C10.dropWhile_lo l c0 hs hlo
    rw [← hdw] at hdlo
    have hds : dw.Pairwise (fun a b => a.c ≤ b.c) := by rw [hdw]; exact dropWhile_pairwise _ _ l hs
    have hdb : ∀ iv ∈ dw, c0 + 1 ≤ iv.c ∧ iv.c < c0 + 1 + rem := by
      intro iv hiv
      have h1 := hdlo iv hiv
      have : iv ∈ l := by rw [hdw] at hiv; exact (List.dropWhile_sublist _).subset hiv
      have := (hb iv this).2
      omega
    have hrest : (List.range' (c0 + 1) rem).map (fun c => l.filter (fun iv => iv.c = c))
        = (List.range' (c0 + 1) rem).map (fun c => dw.filter (fun iv => iv.c = c)) := by
      apply List.map_congr_left
      intro c hc
      have : c ≠ c0 := by simp [List.mem_range'] at hc; omega
      rw [hdw]; exact (C10.filter_dropWhile l c0 c this).symm
    rw [List.range'_succ, List.map_cons, List.flatten_cons, hfilt, hrest, ih (c0 + 1) dw hds hdb, hdw,
      List.takeWhile_append_dropWhile]

theorem specPileup_length (sizes : List Nat) (ivs : List C10.Iv) :
    ((List.range sizes.length).map (C10.specPileupChrom sizes ivs)).map List.length = sizes := by
  apply List.ext_getElem
  · simp
  · intro i h1 h2
    simp only [List.length_map, List.length_range] at h1
    simp [C10.specPileupChrom, C10.size, List.getD_eq_getElem?_getD, List.getElem?_eq_getElem h1]

/-- **windows around streamed locations = windows around the in-memory locations**: for chromosome-sorted valid
entries and every chunking, the streamed `get_location('start').get_windows(...)` gives, entry for entry, the
window of the in-memory call (`C10.windowG` with `C10.flanks`), for `flank=` and for `window_size=` of either
parity -/
theorem per_chromosome_windows (sizes : List Nat) (flank : Option Nat) (wsize : Nat) (ivs : List C10.Iv)
    (cs : List (List C10.Iv)) (hcs : IsChunking ivs cs) (hs : ivs.Pairwise (fun a b => a.c ≤ b.c))
    (hv : ∀ iv ∈ ivs, iv.valid sizes = true) :
    streamWindows sizes flank wsize cs =
      some (ivs.map (fun iv => C10.windowG sizes (C10.flanks flank wsize) iv.c iv.s true)) := by
  have hb := chromBuffers_spec sizes ivs cs hcs hs hv
  have hflat : ((List.range sizes.length).map (fun c => ivs.filter (fun iv => iv.c = c))).flatten = ivs := by
    rw [List.range_eq_range']
    apply sorted_filter_concat sizes.length 0 ivs hs
    intro iv hiv
    have := hv iv hiv
    simp only [C10.Iv.valid, Bool.and_eq_true, decide_eq_true_eq] at this
    omega
  simp only [streamWindows, hb, Option.map_some, Option.some.injEq]
  rw [← List.map_flatten, hflat]

/-- the two keywords pinned: the window has `2 * flank + 1` resp. `window_size` positions before clipping, and the
position is its middle (for even sizes the right one of the two middle positions) -/
theorem flanks_spec (flank : Option Nat) (wsize : Nat) :
    let fl := C10.flanks flank wsize
    (∀ k, flank = some k → fl = ((k : Int), (k : Int) + 1)) ∧
    (flank = none → fl.1 + fl.2 = wsize ∧ fl.1 = ((wsize / 2 : Nat) : Int) ∧ (wsize % 2 = 0 → fl.1 = fl.2) ∧
      (wsize % 2 = 1 → fl.2 = fl.1 + 1)) := by
  refine ⟨fun k hk => by subst hk; simp [C10.flanks], fun h => ?_⟩
  subst h
  simp only [C10.flanks]
  refine ⟨by omega, by first | trivial | rfl | omega, fun h => by omega, fun h => by omega⟩

/-- **values under intervals**: per chromosome, slicing that chromosome's streamed pile-up under that
chromosome's peaks and concatenating in genome order gives, for chromosome-sorted valid peaks, row for
row the slices of the whole-genome in-memory pile-up under the peaks' global coordinates. -/
theorem per_chromosome_values (stranded : Bool) (sizes : List Nat) (ivs peaks : List C10.Iv) (cs pcs : List (List C10.Iv))
    (hcs : IsChunking ivs cs) (hs : ivs.Pairwise (fun a b => a.c ≤ b.c)) (hv : ∀ iv ∈ ivs, iv.valid sizes = true)
    (hpcs : IsChunking peaks pcs) (hps : peaks.Pairwise (fun a b => a.c ≤ b.c))
    (hpv : ∀ iv ∈ peaks, iv.valid sizes = true) :
    ∃ dense, C10.pileupGlobal sizes ivs = some dense ∧
      streamValues stranded sizes cs pcs = omap (C10.extractRow sizes dense stranded) peaks := by
  obtain ⟨hp, _⟩ := C10.cover_local sizes ivs hv
  obtain ⟨arrays, harr⟩ : ∃ arrays, arrays = (List.range sizes.length).map (C10.specPileupChrom sizes ivs) := ⟨_, rfl⟩
  have hlens : arrays.map List.length = sizes := by rw [harr]; exact specPileup_length sizes ivs
  simp only [C10.pileupGlobal, C10.omap_toGlobal sizes ivs hv, Option.map_some, Option.some.injEq] at hp ⊢
  have hpf := congrArg List.flatten hp
  rw [toDict_flatten sizes _ (by simp), ← harr] at hpf
  refine ⟨_, rfl, ?_⟩
  rw [hpf]
  -- in memory: every row is the slice of its own chromosome's array
  have hmem : omap (C10.extractRow sizes arrays.flatten stranded) peaks = some (peaks.map (C10.specExtractRow arrays stranded)) := by
    apply omap_some_map
    intro iv hiv
    have := C10.extract_reversed arrays stranded iv (by rw [hlens]; exact hpv iv hiv)
    rw [hlens] at this
    exact this
  rw [hmem]
  -- streamed: buffers of entries and of peaks
  have hb := chromBuffers_spec sizes ivs cs hcs hs hv
  have hpb := chromBuffers_spec sizes peaks pcs hpcs hps hpv
  have hzp : List.zipWith pileup1 sizes ((List.range sizes.length).map (fun c => ivs.filter (fun iv => iv.c = c))) = arrays := by
    rw [harr, zipWith_range_map]
    apply List.map_congr_left
    intro c _
    exact pileup1_spec sizes ivs c
  simp only [streamValues, hb, hpb, hzp, Option.some.injEq, valuesRows]
  -- row by row
  have hk : arrays.length = sizes.length := by rw [harr]; simp
  have hrows : List.zipWith (fun d pk => pk.map (fun iv : C10.Iv =>
        let row := (d.drop iv.s).take (iv.e - iv.s)
        if stranded && !iv.fwd then row.reverse else row)) arrays
      ((List.range sizes.length).map (fun c => peaks.filter (fun iv => iv.c = c)))
      = (List.range sizes.length).map (fun c => (peaks.filter (fun iv => iv.c = c)).map (C10.specExtractRow arrays stranded)) := by
    apply List.ext_getElem
    · simp [hk]
    · intro i h1 h2
      simp only [List.length_map, List.length_range] at h2
      simp only [List.getElem_zipWith, List.getElem_map, List.getElem_range]
      apply List.map_congr_left
      intro iv hiv
      have hc : iv.c = i := by simpa using (List.mem_filter.mp hiv).2
      simp only [C10.specExtractRow, hc,
        List.getD_eq_getElem?_getD, List.getElem?_eq_getElem (by omega : i < arrays.length), Option.getD_some]
  rw [hrows]
  have : ((List.range sizes.length).map (fun c => (peaks.filter (fun iv => iv.c = c)).map (C10.specExtractRow arrays stranded))).flatten
      = (((List.range sizes.length).map (fun c => peaks.filter (fun iv => iv.c = c))).flatten).map (C10.specExtractRow arrays stranded) := by
    rw [List.map_flatten, List.map_map]; rfl
  rw [this, List.range_eq_range', sorted_filter_concat sizes.length 0 peaks hps]
  intro iv hiv
  have := hpv iv hiv
  simp only [C10.Iv.valid, Bool.and_eq_true, decide_eq_true_eq] at this
  omega



/-! ## characterisations in plain list vocabulary, completeness (iff) and chunk-independence corollaries -/

section runsChar
variable {α κ : Type} [DecidableEq κ]

/-- `runs` loses and reorders nothing: the groups concatenated are the data -/
theorem runs_flatten (key : α → κ) (l : List α) : ((runs key l).map (·.2)).flatten = l := by
  induction l with
  | nil => rfl
  | cons a as ih =>
    simp only [runs]
    cases h : runs key as with
    | nil => rw [h] at ih; simp at ih ⊢; exact ih
    | cons q r =>
      obtain ⟨k, g⟩ := q
      rw [h] at ih
      by_cases hk : key a = k
      · simp only [hk, ↓reduceIte]; simp at ih ⊢; exact ih
      · simp only [hk, ↓reduceIte]; simp at ih ⊢; exact ih

/-- every entry of a group has the group's key -/
theorem runs_group_key (key : α → κ) (l : List α) : ∀ p ∈ runs key l, ∀ x ∈ p.2, key x = p.1 := by
  induction l with
  | nil => simp [runs]
  | cons a as ih =>
    simp only [runs]
    cases h : runs key as with
    | nil => intro p hp x hx; simp at hp; subst hp; simp at hx; subst hx; rfl
    | cons q r =>
      obtain ⟨k, g⟩ := q
      rw [h] at ih
      by_cases hk : key a = k
      · simp only [hk, ↓reduceIte]
        intro p hp x hx
        simp only [List.mem_cons] at hp
        rcases hp with rfl | hp
        · simp only [List.mem_cons] at hx
          rcases hx with rfl | hx
          · exact hk
          · exact ih (k, g) (by simp) x hx
        · exact ih p (by simp [hp]) x hx
      · simp only [hk, ↓reduceIte]
        intro p hp x hx
        simp only [List.mem_cons] at hp
        rcases hp with rfl | hp
        · simp at hx; subst hx; rfl
        · exact ih p (by simpa using hp) x hx

/-- neighbours differ -/
def AdjNe : List κ → Prop
  | a :: b :: r => a ≠ b ∧ AdjNe (b :: r)
  | _ => True

/-- neighbouring groups have different keys (the runs are maximal) -/
theorem runs_adjacent_ne (key : α → κ) (l : List α) : AdjNe ((runs key l).map (·.1)) := by
  induction l with
  | nil => simp [runs, AdjNe]
  | cons a as ih =>
    simp only [runs]
    cases h : runs key as with
    | nil => simp [AdjNe]
    | cons q r =>
      obtain ⟨k, g⟩ := q
      rw [h] at ih
      by_cases hk : key a = k
      · simpa [hk] using ih
      · simp only [hk, ↓reduceIte, List.map_cons] at ih ⊢
        exact ⟨hk, ih⟩

end runsChar

/-! ### the reductions: entries, lengths, and when they raise -/

theorem bincount_getElem? (ml : Nat) (c : List Nat) (v : Nat) :
    (bincount ml c)[v]? = if v < max (size c) ml then some (c.count v) else none := by
  by_cases h : v < max (size c) ml <;> simp [bincount, h]

/-- `size` is one more than the largest value: every value is below it and it is attained -/
theorem size_spec (c : List Nat) : (∀ x ∈ c, x < size c) ∧ (c ≠ [] → ∃ x ∈ c, x + 1 = size c) := by
  induction c with
  | nil => simp [size]
  | cons a t ih =>
    simp only [size, List.foldr_cons] at ih ⊢
    refine ⟨?_, fun _ => ?_⟩
    · intro x hx
      simp only [List.mem_cons] at hx
      rcases hx with rfl | hx
      · omega
      · have := ih.1 x hx; omega
    · by_cases ht : t = []
      · subst ht; exact ⟨a, by simp, by simp⟩
      · obtain ⟨x, hx, hs⟩ := ih.2 ht
        by_cases hle : a + 1 ≤ List.foldr (fun x acc => max (x + 1) acc) 0 t
        · exact ⟨x, by simp [hx], by omega⟩
        · exact ⟨a, by simp, by omega⟩

theorem histogram_getElem? (e : List Int) (c : List Int) (i : Nat) (h : i + 1 < e.length) :
    (histogram e c)[i]? = some (c.countP (inBin e i)) := by
  have : i < e.length - 1 := by omega
  simp [histogram, this]

/-- the streamed bincount raises (`reduce` of an empty sequence) exactly on the empty stream -/
theorem bincountStream_none_iff (ml : Nat) (cs : List (List Nat)) : bincountStream ml cs = none ↔ cs = [] := by
  cases cs with
  | nil => simp [bincountStream, reduce1]
  | cons c t => simp [bincount_chunks ml (c :: t)]

/-- the streamed histogram raises `StopIteration` exactly on the stream without chunks (whatever the edges) -/
theorem histogramStream_stop_iff (e : List Int) (cs : List (List Int)) : histogramStream e cs = .error .stop ↔ cs = [] := by
  cases cs with
  | nil => simp [histogramStream]
  | cons c t =>
    rw [histogram_chunks e (c :: t) (by simp)]
    unfold histogramMem
    cases edgesMono e <;> simp

/-- `bincount` of data is empty exactly when there is no data (and no `minlength`) -/
theorem bincount_zero_eq_nil (c : List Nat) : bincount 0 c = [] ↔ c = [] := by
  cases c with
  | nil => simp [bincount, size]
  | cons a t =>
    have : (bincount 0 (a :: t)).length ≠ 0 := by
      rw [bincount_length]; simp [size]
    constructor
    · intro h; rw [h] at this; simp at this
    · intro h; cases h

/-- the streamed quantile raises `TypeError` (`reduce` of nothing) exactly on the stream without chunks ... -/
theorem quantileStream_emptyStream_iff (cs : List (List Nat)) (p d : Nat) :
    quantileStream cs p d = .error .emptyStream ↔ cs = [] := by
  cases cs with
  | nil => simp [quantileStream, bincountStream, reduce1]
  | cons c t =>
    rw [quantile_chunks_partial (c :: t) p d (by simp)]
    unfold quantileMem quantileHist
    split <;> simp

/-- ... and `IndexError` exactly when there are chunks but no data, which is when the in-memory call raises it too -/
theorem quantileMem_noData_iff (c : List Nat) (p d : Nat) : quantileMem c p d = .error .noData ↔ c = [] := by
  unfold quantileMem quantileHist
  rw [← bincount_zero_eq_nil c]
  split <;> simp_all

/-- the result depends on the data only, not on how it was cut (for two non-empty streams of the same data) -/
theorem bincount_chunking_independent (ml : Nat) (cs cs' : List (List Nat)) (h : cs.flatten = cs'.flatten)
    (h1 : cs ≠ []) (h2 : cs' ≠ []) : bincountStream ml cs = bincountStream ml cs' := by
  rw [bincount_chunks ml cs h1, bincount_chunks ml cs' h2, h]

theorem histogram_chunking_independent (e : List Int) (cs cs' : List (List Int)) (h : cs.flatten = cs'.flatten)
    (h1 : cs ≠ []) (h2 : cs' ≠ []) : histogramStream e cs = histogramStream e cs' := by
  rw [histogram_chunks e cs h1, histogram_chunks e cs' h2, h]

theorem mean_chunking_independent (cs cs' : List (List Int)) (h : cs.flatten = cs'.flatten)
    (h1 : cs ≠ []) (h2 : cs' ≠ []) : meanStream cs = meanStream cs' := by
  rw [mean_chunks_partial cs h1, mean_chunks_partial cs' h2, h]

theorem groupby_chunking_independent {α κ : Type} [DecidableEq κ] [Inhabited α] (fast : Bool) (key : α → κ)
    (cs cs' : List (List α)) (h : cs.flatten = cs'.flatten) (hcon : Contig (cs.flatten.map key)) :
    groupbyStream fast key cs = groupbyStream fast key cs' := by
  rw [groupby_chunks fast key cs.flatten cs rfl hcon, groupby_chunks fast key cs.flatten cs' h.symm hcon]

/-! ### re-chunking: when it raises, independence of the incoming cut, idempotence -/

theorem chunkEntries_none_iff {α} (n : Nat) (cs : List (List α)) : chunkEntries n cs = none ↔ n = 0 := by
  by_cases h : n = 0
  · simp [chunkEntries, h]
  · simp [chunkEntries, h]

theorem chunkLines_none_iff {α} (n : Nat) (cs : List (List α)) : chunkLines n cs = none ↔ n = 0 := by
  by_cases h : n = 0
  · simp [chunkLines, h]
  · simp [chunkLines, h]

theorem rechunk_chunking_independent {α} (n : Nat) (hn : 0 < n) (cs cs' : List (List α)) (h : cs.flatten = cs'.flatten) :
    chunkEntries n cs = chunkEntries n cs' ∧ chunkLines n cs = chunkLines n cs' := by
  rw [rechunk_entries n hn, rechunk_entries n hn, rechunk_lines n hn, rechunk_lines n hn, h]
  exact ⟨rfl, rfl⟩

/-- re-chunking an already re-chunked stream to the same size changes nothing -/
theorem rechunk_idempotent {α} (n : Nat) (hn : 0 < n) (cs out : List (List α)) (h : chunkEntries n cs = some out) :
    chunkEntries n out = some out := by
  rw [rechunk_entries n hn] at h ⊢
  simp only [Option.some.injEq] at h
  rw [← h, chop_flatten n hn]

/-- the canonical cut, piece by piece: piece `i` holds entries `i*n … i*n+n-1` -/
theorem chop_getElem? {α} (n : Nat) (hn : 0 < n) (xs : List α) (i : Nat) :
    (chop n xs)[i]? = if i * n < xs.length then some ((xs.drop (i * n)).take n) else none := by
  induction i generalizing xs with
  | zero =>
    by_cases hx : xs = []
    · subst hx; simp [chop_nil]
    · rw [chop_eq n hn xs hx]
      have : 0 < xs.length := List.length_pos_iff.mpr hx
      simp [this]
  | succ i ih =>
    by_cases hx : xs = []
    · subst hx; simp [chop_nil]
    · rw [chop_eq n hn xs hx, List.getElem?_cons_succ, ih (xs.drop n)]
      have e : (i + 1) * n = n + i * n := by rw [Nat.add_mul]; omega
      simp only [List.length_drop, List.drop_drop, e]
      by_cases hlt : i * n < xs.length - n
      · rw [if_pos hlt, if_pos (by omega)]
      · rw [if_neg hlt, if_neg (by omega)]

/-! ### k-mers -/

theorem windows_length (k : Nat) (hk : 0 < k) (r : List Nat) : (windows k r).length = r.length + 1 - k := by
  induction r with
  | nil => simp [windows]; omega
  | cons x xs ih =>
    by_cases h : k ≤ xs.length + 1
    · simp only [windows, List.length_cons, h, ↓reduceIte, ih]; omega
    · simp only [windows, List.length_cons, h, ↓reduceIte, List.length_nil]; omega

theorem windows_getElem? (k : Nat) (hk : 0 < k) (r : List Nat) (i : Nat) :
    (windows k r)[i]? = if i + k ≤ r.length then some ((r.drop i).take k) else none := by
  induction r generalizing i with
  | nil => simp [windows]; omega
  | cons x xs ih =>
    simp only [windows]
    by_cases h : k ≤ (x :: xs).length
    · rw [if_pos h]
      cases i with
      | zero => simp only [List.length_cons] at h; simp [h]
      | succ i =>
        rw [List.getElem?_cons_succ, ih]
        simp only [List.length_cons, List.drop_succ_cons] at h ⊢
        by_cases h2 : i + k ≤ xs.length
        · rw [if_pos h2, if_pos (by omega)]
        · rw [if_neg h2, if_neg (by omega)]
    · rw [if_neg h]
      simp only [List.length_cons] at h ⊢
      simp; omega



section fastIff
variable {α κ : Type} [DecidableEq κ]

/-- what the first = last shortcut needs of one chunk: if the first and the last key agree, all keys agree -/
def FastOK (key : α → κ) (c : List α) : Prop :=
  (c.map key).head? = (c.map key).getLast? → ∀ x ∈ c, ∀ y ∈ c, key x = key y

theorem groupbyChunk_eq_runs_of_fastOK [Inhabited α] (key : α → κ) (c : List α) (h : FastOK key c) :
    groupbyChunk true key c = some (runs key c) := by
  cases c with
  | nil => rfl
  | cons a t =>
    simp only [groupbyChunk]
    split
    · rename_i hf
      simp only [Bool.true_and, decide_eq_true_eq] at hf
      have hall := h hf
      rw [runs_const key (key a) (a :: t) (by simp) (fun x hx => hall x hx a (by simp))]
      simp
    · rw [sliceGroups_eq_runs key (a :: t) (by simp)]

/-- the groups one chunk contributes, flattened to (key, entry) pairs -/
theorem expand_groupbyChunk [Inhabited α] (key : α → κ) (c : List α) (gs : List (κ × List α))
    (h : groupbyChunk true key c = some gs) :
    (expand gs).map (·.2) = c ∧ (∀ p ∈ gs, p.2 ≠ []) ∧
      (expand gs = c.map (fun x => (key x, x)) → FastOK key c) := by
  cases c with
  | nil =>
    simp only [groupbyChunk, Option.some.injEq] at h
    subst h
    exact ⟨rfl, by simp, fun _ _ x hx => by simp at hx⟩
  | cons a t =>
    simp only [groupbyChunk] at h
    split at h
    · rename_i hf
      simp only [Option.some.injEq] at h
      subst h
      refine ⟨by simp [expand, Function.comp_def], by simp, ?_⟩
      intro he _ x hx y hy
      have he' : ∀ z ∈ a :: t, (key a, z) = (key z, z) := by
        have e : expand [(key (a :: t)[0]!, (a :: t).drop 0)] = (a :: t).map (fun x => (key a, x)) := by simp [expand]
        rw [e] at he
        exact List.map_inj_left.mp he
      have hk : ∀ z ∈ a :: t, key a = key z := fun z hz => (Prod.mk.inj (he' z hz)).1
      rw [← hk x hx, ← hk y hy]
    · rename_i hnf
      simp only [Option.some.injEq] at h
      rw [sliceGroups_eq_runs key (a :: t) (by simp)] at h
      subst h
      refine ⟨?_, runs_nonempty key _, ?_⟩
      · rw [runs_eq_runsP, expand_runsP]; simp [Function.comp_def]
      · intro _ hf
        simp only [Bool.true_and, decide_eq_true_eq] at hnf
        exact absurd hf hnf

theorem omap_getElem?' {β γ} (f : β → Option γ) (l : List β) (r : List γ) (h : omap f l = some r) (j : Nat) :
    r[j]? = (l[j]?).bind f := by
  induction l generalizing r j with
  | nil => simp at h; subst h; simp
  | cons x xs ih =>
    obtain ⟨b, bs, hb, hbs, rfl⟩ := omap_cons_eq_some f x xs r h
    cases j with
    | zero => simp [hb]
    | succ j => simpa using ih bs hbs j

theorem flatten_pieces_eq {β} : ∀ (A B : List (List β)), A.map List.length = B.map List.length →
    A.flatten = B.flatten → A = B
  | [], [], _, _ => rfl
  | [], _ :: _, h, _ => by simp at h
  | _ :: _, [], h, _ => by simp at h
  | a :: A, b :: B, h, hf => by
    simp only [List.map_cons, List.cons.injEq] at h
    simp only [List.flatten_cons] at hf
    obtain ⟨h1, h2⟩ := List.append_inj hf h.1
    rw [h1, flatten_pieces_eq A B h.2 h2]

/-- **completeness of group-by with the shortcut**: the streamed result is the runs of the whole data
*exactly when* every chunk whose first and last key agree has one key only — contiguity of the keys
(a sorted column) is sufficient, this is what is necessary. -/
theorem groupby_fast_iff [Inhabited α] (key : α → κ) (cs : List (List α)) :
    groupbyStream true key cs = some (runs key cs.flatten) ↔ ∀ c ∈ cs, FastOK key c := by
  constructor
  · intro h
    -- the per-chunk groups exist
    cases hom : omap (groupbyChunk true key) cs with
    | none => simp [groupbyStream, hom] at h
    | some gss =>
      simp only [groupbyStream, hom, Option.some.injEq] at h
      -- per chunk facts
      have hper : ∀ i (h1 : i < cs.length) (h2 : i < gss.length), groupbyChunk true key cs[i] = some gss[i] := by
        intro i h1 h2
        have := omap_getElem?' _ cs gss hom i
        rw [List.getElem?_eq_getElem h2, List.getElem?_eq_getElem h1] at this
        simpa using this.symm
      have hlen : gss.length = cs.length := omap_length _ _ _ hom
      have hne : ∀ p ∈ gss.flatten, p.2 ≠ [] := by
        intro p hp
        obtain ⟨gs, hgs, hpg⟩ := List.mem_flatten.mp hp
        obtain ⟨i, hi, rfl⟩ := List.getElem_of_mem hgs
        exact (expand_groupbyChunk key cs[i] gss[i] (hper i (by omega) hi)).2.1 p hpg
      have he : expand gss.flatten = cs.flatten.map (fun x => (key x, x)) := by
        have := congrArg expand h
        rw [joinGroups_eq _ hne, expand_runsP, runs_eq_runsP, expand_runsP] at this
        exact this
      -- piecewise
      have hpieces : gss.map expand = cs.map (fun c => c.map (fun x => (key x, x))) := by
        apply flatten_pieces_eq
        · apply List.ext_getElem
          · simp [hlen]
          · intro i h1 h2
            simp only [List.length_map] at h1 h2
            simp only [List.map_map, List.getElem_map, Function.comp_apply, List.length_map]
            have := (expand_groupbyChunk key cs[i] gss[i] (hper i h2 h1)).1
            have := congrArg List.length this
            simpa using this
        · have e1 : (gss.map expand).flatten = expand gss.flatten := by
            clear hom h hper hlen hne he
            induction gss with
            | nil => rfl
            | cons g gs ih => simp [expand_append, ih]
          rw [e1, he, List.map_flatten]
      intro c hc
      obtain ⟨i, hi, rfl⟩ := List.getElem_of_mem hc
      have hi' : i < gss.length := by omega
      have := congrArg (fun l => l[i]?) hpieces
      simp only [List.getElem?_map, List.getElem?_eq_getElem hi, List.getElem?_eq_getElem hi', Option.map_some,
        Option.some.injEq] at this
      exact (expand_groupbyChunk key cs[i] gss[i] (hper i hi hi')).2.2 this
  · intro h
    have h1 : omap (groupbyChunk true key) cs = some (cs.map (runs key)) :=
      omap_some_map _ _ _ (fun c hc => groupbyChunk_eq_runs_of_fastOK key c (h c hc))
    simp only [groupbyStream, h1, join_runs]

example : FastOK (fun x : Nat => x) [1, 1, 2] := by intro h; simp at h
example : ¬ FastOK (fun x : Nat => x) [1, 2, 1] := by
  intro h
  have := h (by simp) 1 (by simp) 2 (by simp)
  simp at this

end fastIff

end C11
