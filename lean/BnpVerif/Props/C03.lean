import BnpVerif.Model.C03
import BnpVerif.Gen.C03
import BnpVerif.Props.C02
/-! C03 property theorems. Helper lemmas first; the property theorems are the ones listed in
`Audit/C03.lean`. -/
namespace C03
open Base
open C02 (Bytes joinWith splitOn unlines linesOf decVal specNat specInt specIntList isDigit)

/-! ### integers: parse ∘ format = id -/

theorem decVal_single (x : Nat) : decVal [x] = x := by simp [decVal]

theorem decVal_natDigits (n : Nat) : decVal (natDigits n) = n := by
  fun_induction natDigits n with
  | case1 n h => exact decVal_single n
  | case2 n h ih =>
    rw [C02.decVal_append, ih, decVal_single]
    simp
    omega

theorem natDigits_lt (n : Nat) : ∀ d ∈ natDigits n, d < 10 := by
  fun_induction natDigits n with
  | case1 n h => intro d hd; simp at hd; omega
  | case2 n h ih =>
    intro d hd
    simp only [List.mem_append, List.mem_singleton] at hd
    cases hd with
    | inl hd => exact ih d hd
    | inr hd => omega

theorem natDigits_ne_nil (n : Nat) : natDigits n ≠ [] := by
  fun_induction natDigits n with
  | case1 n h => simp
  | case2 n h ih => simp

theorem formatNat_digits (n : Nat) : ∀ b ∈ formatNat n, 48 ≤ b ∧ b ≤ 57 := by
  intro b hb
  simp only [formatNat, List.mem_map] at hb
  obtain ⟨d, hd, rfl⟩ := hb
  have := natDigits_lt n d hd
  omega

theorem specNat_formatNat (n : Nat) : specNat (formatNat n) = some n := by
  unfold specNat
  have hne : formatNat n ≠ [] := by simp [formatNat, natDigits_ne_nil]
  have hall : (formatNat n).all isDigit = true := by
    rw [List.all_eq_true]
    intro b hb
    have := formatNat_digits n b hb
    simp [isDigit]; omega
  have hval : (formatNat n).map (· - 48) = natDigits n := by
    simp [formatNat, List.map_map, Function.comp_def]
  simp [hne, hall, hval, decVal_natDigits]

/-- **parse_format_int.** Reading the decimal text written for an integer gives the integer back. -/
theorem parse_format_int (i : Int) : specInt (formatInt i) = some i := by
  unfold formatInt
  by_cases h : i < 0
  · simp only [h, if_true]
    unfold specInt
    simp [specNat_formatNat]
    omega
  · simp only [h, if_false]
    have hne : formatNat i.natAbs ≠ [] := by simp [formatNat, natDigits_ne_nil]
    obtain ⟨c, r, hcr⟩ : ∃ c r, formatNat i.natAbs = c :: r := by
      cases hf : formatNat i.natAbs with
      | nil => exact absurd hf hne
      | cons c r => exact ⟨c, r, rfl⟩
    have hc := formatNat_digits i.natAbs c (by rw [hcr]; simp)
    rw [C02.specInt_unsigned _ (by rw [hcr]; simp; omega) (by rw [hcr]; simp; omega)]
    simp [specNat_formatNat]
    omega

theorem formatInt_ne_nil (i : Int) : formatInt i ≠ [] := by
  unfold formatInt
  split
  · simp
  · simp [formatNat, natDigits_ne_nil]

theorem formatInt_bytes (i : Int) : ∀ b ∈ formatInt i, b = 45 ∨ (48 ≤ b ∧ b ≤ 57) := by
  intro b hb
  unfold formatInt at hb
  split at hb
  · simp only [List.mem_cons] at hb
    cases hb with
    | inl h => exact Or.inl h
    | inr h => exact Or.inr (formatNat_digits _ b h)
  · exact Or.inr (formatNat_digits _ b hb)

/-! ### splitOn ∘ joinWith -/

theorem splitOn_free (d : Nat) (f : Bytes) (h : d ∉ f) : splitOn d f = [f] := by
  induction f with
  | nil => rfl
  | cons b bs ih =>
    have hb : b ≠ d := fun e => h (by simp [e])
    have hbs : d ∉ bs := fun e => h (by simp [e])
    simp [splitOn, hb, ih hbs, C02.consHead]

theorem splitOn_append_sep (d : Nat) (f rest : Bytes) (h : d ∉ f) :
    splitOn d (f ++ d :: rest) = f :: splitOn d rest := by
  induction f with
  | nil => simp [splitOn]
  | cons b bs ih =>
    have hb : b ≠ d := fun e => h (by simp [e])
    have hbs : d ∉ bs := fun e => h (by simp [e])
    simp only [List.cons_append, splitOn, hb, if_false, ih hbs, C02.consHead]

/-- splitting a joined record gives the cells back, when no cell contains the separator -/
theorem splitOn_joinWith (d : Nat) (fs : List Bytes) (hne : fs ≠ []) (hfree : ∀ f ∈ fs, d ∉ f) :
    splitOn d (joinWith d fs) = fs := by
  induction fs with
  | nil => exact absurd rfl hne
  | cons f rest ih =>
    cases rest with
    | nil => simp [joinWith, splitOn_free d f (hfree f (by simp))]
    | cons g gs =>
      simp only [joinWith]
      rw [splitOn_append_sep d f _ (hfree f (by simp)), ih (by simp) (fun x hx => hfree x (by simp [hx]))]

theorem joinWith_mem (d : Nat) (fs : List Bytes) (x : Nat) (hx : x ∈ joinWith d fs) : x = d ∨ ∃ f ∈ fs, x ∈ f := by
  induction fs with
  | nil => simp [joinWith] at hx
  | cons f rest ih =>
    cases rest with
    | nil => simp only [joinWith] at hx; exact Or.inr ⟨f, by simp, hx⟩
    | cons g gs =>
      simp only [joinWith, List.mem_append, List.mem_cons] at hx
      rcases hx with h | h | h
      · exact Or.inr ⟨f, by simp, h⟩
      · exact Or.inl h
      · rcases ih h with h' | ⟨f', hf', hxf⟩
        · exact Or.inl h'
        · exact Or.inr ⟨f', by simp [hf'], hxf⟩

/-! ### dump_canonical -/

theorem range_flatMap_sep (sep : Nat) (xs : List Bytes) (hne : xs ≠ []) :
    (List.range xs.length).flatMap (fun c => xs.getD c [] ++ [if c + 1 = xs.length then 10 else sep])
      = joinWith sep xs ++ [10] := by
  induction xs with
  | nil => exact absurd rfl hne
  | cons x ys ih =>
    rw [List.length_cons, List.range_succ_eq_map, List.flatMap_cons, List.flatMap_map]
    cases ys with
    | nil => simp [joinWith]
    | cons y zs =>
      have := ih (by simp)
      simp only [List.length_cons] at this ⊢
      simp only [joinWith, List.getD_cons_zero, List.getD_cons_succ]
      have h0 : ¬ (0 + 1 = zs.length + 1 + 1) := by omega
      simp only [h0, if_false]
      have hcongr : (List.range (zs.length + 1)).flatMap (fun c => (y :: zs).getD c [] ++ [if c + 1 + 1 = zs.length + 1 + 1 then 10 else sep])
          = (List.range (zs.length + 1)).flatMap (fun c => (y :: zs).getD c [] ++ [if c + 1 = zs.length + 1 then 10 else sep]) := by
        congr 1
        funext c
        have : (c + 1 + 1 = zs.length + 1 + 1) = (c + 1 = zs.length + 1) := by
          apply propext; constructor <;> intro h <;> omega
        simp only [this]
      rw [hcongr, this]
      simp

/-- rows of a column-major table -/
def rowsOf (cols : List (List Bytes)) : List (List Bytes) :=
  (List.range ((cols.head?.map List.length).getD 0)).map (fun r => cols.map (fun col => col.getD r []))

/-- the row-major interleave of `join_columns` is the canonical serialisation of the rows of the table -/
theorem joinColumns_rows (sep : Nat) (cols : List (List Bytes)) (hne : cols ≠ []) :
    joinColumns sep cols = dumpSpec sep (rowsOf cols) := by
  unfold joinColumns dumpSpec rowsOf
  simp only
  rw [List.flatMap_map]
  congr 1
  funext r
  have hlen : (cols.map (fun col => col.getD r [])).length = cols.length := by simp
  have hx := range_flatMap_sep sep (cols.map (fun col => col.getD r [])) (by simpa using hne)
  rw [hlen] at hx
  rw [← hx, List.flatMap_def, List.flatMap_def]
  congr 1
  apply List.map_congr_left
  intro c hc
  have hc' : c < cols.length := by simpa using hc
  congr 1
  simp [List.getD_eq_getElem?_getD, List.getElem?_map, List.getElem?_eq_getElem hc']

theorem rowsOf_columnsOf (n : Nat) (hn : 0 < n) (rows : List (List Bytes)) (hrect : ∀ r ∈ rows, r.length = n) :
    rowsOf (columnsOf n rows) = rows := by
  unfold rowsOf columnsOf
  have hhead : (((List.range n).map (fun c => rows.map (fun r => r.getD c []))).head?.map List.length).getD 0 = rows.length := by
    cases n with
    | zero => omega
    | succ m => simp [List.range_succ_eq_map]
  rw [hhead]
  apply List.ext_getElem
  · simp
  · intro i h1 h2
    simp only [List.getElem_map, List.getElem_range, List.map_map]
    have hi : i < rows.length := h2
    have hri : rows[i].length = n := hrect _ (List.getElem_mem hi)
    apply List.ext_getElem
    · simp [hri]
    · intro j h3 h4
      simp only [List.getElem_map, List.getElem_range, Function.comp]
      rw [List.getD_eq_getElem?_getD, List.getElem?_map, List.getElem?_eq_getElem hi]
      simp only [Option.map_some, Option.getD_some]
      rw [List.getD_eq_getElem?_getD, List.getElem?_eq_getElem h4]
      simp

/-- **dump_canonical.** For every table (any number of rows, every row with the same `n ≥ 1` cells) the bytes
produced by the column-interleaving writer are exactly the canonical serialisation: for each record its cell
texts joined by TAB, followed by a newline. -/
theorem dump_canonical (n : Nat) (hn : 0 < n) (rows : List Row) (hrect : ∀ r ∈ rows, r.length = n) :
    dumpDelimited n rows = dumpSpec 9 (rows.map (·.map cellText)) := by
  unfold dumpDelimited
  split
  · rename_i h; subst h; simp [dumpSpec]
  · have hcols : columnsOf n (rows.map (·.map cellText)) ≠ [] := by
      unfold columnsOf
      cases n with
      | zero => omega
      | succ m => simp [List.range_succ_eq_map]
    rw [joinColumns_rows 9 _ hcols, rowsOf_columnsOf n hn]
    intro r hr
    simp only [List.mem_map] at hr
    obtain ⟨r', hr', rfl⟩ := hr
    simp [hrect r' hr']

theorem dumpSpec_append (sep : Nat) (a b : List (List Bytes)) :
    dumpSpec sep (a ++ b) = dumpSpec sep a ++ dumpSpec sep b := by
  simp [dumpSpec]

/-! ### round trip -/

def cellOK : Cell → Prop
  | .text b => 9 ∉ b ∧ 10 ∉ b
  | _ => True

/-- reading a field back according to the kind of cell that was written (the schema) -/
def readCell : Cell → Bytes → Option Cell
  | .text _, t => some (.text t)
  | .int _, t => (specInt t).map Cell.int
  | .ints _, t => (specIntList t).map Cell.ints
  | .qual _, t => some (.qual (t.map (· - 33)))

def readRow (shape : Row) (fields : List Bytes) : Option Row :=
  if shape.length = fields.length then omap (fun p : Cell × Bytes => readCell p.1 p.2) (List.zip shape fields)
  else none            -- a record with more or fewer fields than the schema has columns is not read

/-- the reference reader of C02: complete lines, split on TAB, each field read by its column's kind -/
def readTable (shape : List Row) (bs : Bytes) : Option (List Row) :=
  if shape.length = (linesOf bs).length then
    omap (fun p : Row × List Bytes => readRow p.1 p.2) (List.zip shape ((linesOf bs).map (splitOn 9)))
  else none            -- surplus or missing lines are not dropped silently

theorem formatInt_free (i : Int) (x : Nat) (hx : x = 9 ∨ x = 10 ∨ x = 44) : x ∉ formatInt i := by
  intro hm
  rcases formatInt_bytes i x hm with h | h <;> omega

theorem cellText_free (c : Cell) (h : cellOK c) : 9 ∉ cellText c ∧ 10 ∉ cellText c := by
  cases c with
  | text b => exact h
  | int i => exact ⟨formatInt_free i 9 (by simp), formatInt_free i 10 (by simp)⟩
  | ints l =>
    constructor
    · intro hm
      rcases joinWith_mem 44 _ 9 hm with h' | ⟨f, hf, hxf⟩
      · omega
      · simp only [List.mem_map] at hf
        obtain ⟨i, _, rfl⟩ := hf
        exact formatInt_free i 9 (by simp) hxf
    · intro hm
      rcases joinWith_mem 44 _ 10 hm with h' | ⟨f, hf, hxf⟩
      · omega
      · simp only [List.mem_map] at hf
        obtain ⟨i, _, rfl⟩ := hf
        exact formatInt_free i 10 (by simp) hxf
  | qual q =>
    constructor <;> (intro hm; simp only [cellText, List.mem_map] at hm; obtain ⟨a, _, ha⟩ := hm; omega)

theorem readCell_cellText (c : Cell) (hq : ∀ q, c = Cell.qual q → True) : readCell c (cellText c) = some c := by
  cases c with
  | text b => rfl
  | int i => simp [readCell, cellText, parse_format_int]
  | ints l =>
    simp only [readCell, cellText]
    have : specIntList (joinWith 44 (l.map formatInt)) = some l := by
      unfold specIntList
      cases l with
      | nil => simp [joinWith, splitOn]
      | cons a as =>
        rw [splitOn_joinWith 44 _ (by simp)]
        · have hf : ((a :: as).map formatInt).filter (· ≠ []) = (a :: as).map formatInt := by
            apply List.filter_eq_self.mpr
            intro f hf
            simp only [List.mem_map] at hf
            obtain ⟨i, _, rfl⟩ := hf
            simp [formatInt_ne_nil]
          rw [hf, C02.omap_map]
          exact omap_some_map _ id _ (fun i _ => by simp [parse_format_int]) |>.trans (by simp)
        · intro f hf
          simp only [List.mem_map] at hf
          obtain ⟨i, _, rfl⟩ := hf
          exact formatInt_free i 44 (by simp)
    simp [this]
  | qual q =>
    simp [readCell, cellText, List.map_map, Function.comp_def]

theorem dumpSpec_unlines (rows : List (List Bytes)) : dumpSpec 9 rows = unlines (rows.map (joinWith 9)) := by
  simp [dumpSpec, unlines, List.flatMap_def, List.map_map, Function.comp_def]

/-- the text records of a dump are recovered exactly by lines / splitOn TAB -/
theorem roundtrip_records (rows : List (List Bytes)) (hne : ∀ r ∈ rows, r ≠ [])
    (hfree : ∀ r ∈ rows, ∀ f ∈ r, 9 ∉ f ∧ 10 ∉ f) :
    (linesOf (dumpSpec 9 rows)).map (splitOn 9) = rows := by
  rw [dumpSpec_unlines, C02.linesOf_unlines]
  · rw [List.map_map]
    conv => rhs; rw [← List.map_id rows]
    apply List.map_congr_left
    intro r hr
    simp only [Function.comp, id]
    exact splitOn_joinWith 9 r (hne r hr) (fun f hf => (hfree r hr f hf).1)
  · intro l hl
    simp only [List.mem_map] at hl
    obtain ⟨r, hr, rfl⟩ := hl
    intro hm
    rcases joinWith_mem 9 r 10 hm with h | ⟨f, hf, hxf⟩
    · omega
    · exact (hfree r hr f hf).2 hxf

theorem omap_zip_map {α β} (g : α → β → Option α) (f : α → β) (l : List α)
    (h : ∀ a ∈ l, g a (f a) = some a) :
    omap (fun p : α × β => g p.1 p.2) (List.zip l (l.map f)) = some l := by
  induction l with
  | nil => rfl
  | cons a as ih =>
    simp only [List.map_cons, List.zip_cons_cons]
    exact omap_cons_some _ _ _ _ _ (h a (by simp)) (ih (fun b hb => h b (by simp [hb])))

/-- **roundtrip.** For every schema of text / identifier / integer / integer-list / quality columns and every
representable table (text cells free of TAB and newline; every record with the same `n ≥ 1` cells), reading the
bytes the writer produced with the reference reader gives the table back, cell for cell. -/
theorem roundtrip (n : Nat) (hn : 0 < n) (rows : List Row) (hrect : ∀ r ∈ rows, r.length = n)
    (hok : ∀ r ∈ rows, ∀ c ∈ r, cellOK c) :
    readTable rows (dumpDelimited n rows) = some rows := by
  have hne : ∀ r ∈ rows.map (·.map cellText), r ≠ [] := by
    intro r hr
    simp only [List.mem_map] at hr
    obtain ⟨r', hr', rfl⟩ := hr
    have := hrect r' hr'
    intro h0
    have : r'.length = 0 := by simpa using congrArg List.length h0
    omega
  have hfree : ∀ r ∈ rows.map (·.map cellText), ∀ f ∈ r, 9 ∉ f ∧ 10 ∉ f := by
    intro r hr f hf
    simp only [List.mem_map] at hr
    obtain ⟨r', hr', rfl⟩ := hr
    simp only [List.mem_map] at hf
    obtain ⟨c, hc, rfl⟩ := hf
    exact cellText_free c (hok r' hr' c hc)
  have hrec := roundtrip_records (rows.map (·.map cellText)) hne hfree
  have hlen : rows.length = (linesOf (dumpDelimited n rows)).length := by
    have := congrArg List.length hrec
    rw [dump_canonical n hn rows hrect]
    simpa using this.symm
  unfold readTable
  rw [if_pos hlen, dump_canonical n hn rows hrect, hrec]
  apply omap_zip_map
  intro r hr
  unfold readRow
  rw [if_pos (by simp)]
  apply omap_zip_map
  intro c _
  exact readCell_cellText c (fun _ _ => trivial)

/-- the characters of Python's `str(float)` for a finite value (digits, sign, point, exponent mark) -/
def floatChar (b : Nat) : Bool := isDigit b || b == 45 || b == 43 || b == 46 || b == 101

/-- **float_partial.** What is proved about a float cell. Its text — produced by Python's `str(float)`, an external
function, and consisting of `floatChar`s only — contains neither TAB nor newline, so it is a legal text cell; and in
whatever column of a record of otherwise legal cells it stands, the record is written and read back (strict reference
reader) with exactly that text in that column. NOT proved here, only corresponded (byte-exact against Python `repr` on
the way out, value within 1e-12 on the way back): that `str(float)` picks a decimal text whose value is the float
(Python's repr guarantee) and that `str_to_float` of such a text is the float to printing precision (C18's). -/
theorem float_partial (t : Bytes) (h : t.all floatChar = true) :
    cellOK (Cell.text t) ∧
    ∀ (pre post : Row), (∀ c ∈ pre ++ post, cellOK c) →
      readTable [pre ++ Cell.text t :: post] (dumpDelimited (pre.length + 1 + post.length) [pre ++ Cell.text t :: post])
        = some [pre ++ Cell.text t :: post] := by
  have hb : ∀ b ∈ t, b ≠ 9 ∧ b ≠ 10 := by
    intro b hb
    have := (List.all_eq_true.mp h) b hb
    simp only [floatChar, isDigit, Bool.or_eq_true, Bool.and_eq_true, decide_eq_true_eq, beq_iff_eq] at this
    omega
  have hok : cellOK (Cell.text t) := ⟨fun h9 => (hb 9 h9).1 rfl, fun h10 => (hb 10 h10).2 rfl⟩
  refine ⟨hok, ?_⟩
  intro pre post hpp
  apply roundtrip _ (by omega)
  · intro r hr
    simp only [List.mem_singleton] at hr
    subst hr
    simp only [List.length_append, List.length_cons]
    omega
  · intro r hr c hc
    simp only [List.mem_singleton] at hr
    subst hr
    simp only [List.mem_append, List.mem_cons] at hc
    rcases hc with hc | rfl | hc
    · exact hpp c (by simp [hc])
    · exact hok
    · exact hpp c (by simp [hc])

example : ∃ t : Bytes, t.all floatChar = true ∧ t = [45, 49, 46, 53, 101, 45, 48, 55] := ⟨_, by decide, rfl⟩

/-- VCF: POS is written +1 and the reader's shift (tabulated from the code, Gen/C02) takes it back -/
theorem vcf_pos_roundtrip (c0 : Cell) (p : Int) (rest : Row) :
    shiftPos 1 (c0 :: Cell.int p :: rest) = c0 :: Cell.int (p + 1) :: rest ∧ (p + 1) + Gen.C02.vcfPosShift = p := by
  refine ⟨rfl, ?_⟩
  have := C02.gen_shifts.1
  omega

/-! ### composable writes -/

/-- a serialiser that works record by record -/
def Additive (dump : List Row → Bytes) : Prop := dump [] = [] ∧ ∀ a b, dump (a ++ b) = dump a ++ dump b

theorem writeAll_noheader (hdr : Bytes) (dump : List Row → Bytes) (hadd : Additive dump) (pa : Bool) (st : WState)
    (h : pa = true ∨ st.headerWritten = true) (ts : List (List Row)) :
    writeAll hdr dump pa st ts = dump ts.flatten := by
  induction ts generalizing st with
  | nil => simp [writeAll, hadd.1]
  | cons t rest ih =>
    have hcond : (!pa && !st.headerWritten) = false := by
      cases h with
      | inl h => simp [h]
      | inr h => simp [h]
    simp only [writeAll, writeStep, hcond, Bool.false_eq_true, if_false, List.flatten_cons]
    by_cases ht : t = []
    · subst ht; simp [ih st h]
    · simp only [ht, if_false, List.nil_append]
      rw [ih st h, hadd.2]

/-- **writes_compose.** For every list of tables written by successive `write` calls of one writer opened for
writing — any split of the rows, empty tables included — the file is the header exactly once (written by the
first call) followed by ONE dump of the concatenated table. -/
theorem writes_compose (hdr : Bytes) (dump : List Row → Bytes) (hadd : Additive dump) (e : Bool) (ts : List (List Row)) :
    writeAll hdr dump false (initState .write e) ts = (if ts = [] then [] else hdr) ++ dump ts.flatten := by
  cases ts with
  | nil => simp [writeAll, hadd.1]
  | cons t rest =>
    have hrest := writeAll_noheader hdr dump hadd false ⟨true⟩ (Or.inr rfl) rest
    have hi : initState Mode.write e = ⟨false⟩ := by simp [initState]
    simp only [writeAll, writeStep, hi]
    by_cases ht : t = []
    · subst ht
      simp [hrest]
    · simp [ht, hrest, hadd.2]

/-- a writer that owes the header (a 'w' writer, or an appending writer on a new/empty target) -/
theorem writes_compose_owing (hdr : Bytes) (dump : List Row → Bytes) (hadd : Additive dump) (ts : List (List Row)) :
    writeAll hdr dump false ⟨false⟩ ts = (if ts = [] then [] else hdr) ++ dump ts.flatten := by
  have := writes_compose hdr dump hadd true ts
  simpa [initState] using this

/-- an appending writer on a non-empty target never writes a header -/
theorem writes_compose_append (hdr : Bytes) (dump : List Row → Bytes) (hadd : Additive dump)
    (ts : List (List Row)) :
    writeAll hdr dump false (initState .append false) ts = dump ts.flatten :=
  writeAll_noheader hdr dump hadd false _ (Or.inr (by simp [initState])) ts

theorem flatten_filter_ne_nil {α} (ts : List (List α)) : (ts.filter (· ≠ [])).flatten = ts.flatten := by
  induction ts with
  | nil => rfl
  | cons t rest ih =>
    by_cases h : t = []
    · subst h
      have : ([] :: rest).filter (· ≠ []) = rest.filter (· ≠ []) := by simp
      rw [this, ih]; simp
    · have : (t :: rest).filter (· ≠ []) = t :: rest.filter (· ≠ []) := by simp [h]
      rw [this, List.flatten_cons, ih]; simp

/-- a stream of chunks is the same as successive `write` calls: the header is written by the first chunk, empty or not -/
theorem writes_compose_stream (hdr : Bytes) (dump : List Row → Bytes) (hadd : Additive dump) (ts : List (List Row)) :
    writeStream hdr dump false (initState .write true) ts
      = (if ts = [] then [] else hdr) ++ dump ts.flatten := by
  unfold writeStream
  exact writes_compose hdr dump hadd true ts

/-- the shipped stream rule dropped the header of a stream whose chunks are all empty -/
theorem writeStreamOld_unsound :
    writeStreamOld [35, 10] (fun t => List.replicate t.length 120) false (initState .write true) [[], []] = [] ∧
    writeStream [35, 10] (fun t => List.replicate t.length 120) false (initState .write true) [[], []] = [35, 10] := by decide

theorem map_dump_flatten (dump : List Row → Bytes) (hadd : Additive dump) (ts : List (List Row)) :
    (ts.map dump).flatten = dump ts.flatten := by
  induction ts with
  | nil => simp [hadd.1]
  | cons t rest ih => simp [ih, hadd.2]

/-- what one session writes, in terms of the `write` calls it really makes -/
theorem session_body (hdr : Bytes) (dump : List Row → Bytes) (st : WState) (s : Sess) :
    (if s.stream then writeStream hdr dump false st s.pieces else writeAll hdr dump false st s.pieces)
      = writeAll hdr dump false st s.calls := by
  unfold Sess.calls writeStream
  split <;> rfl

/-- the invariant of a run of appending writers: content = header (iff some call was made) ++ dump of all calls -/
theorem runAll_append_inv (hdr : Bytes) (dump : List Row → Bytes) (hadd : Additive dump) (ss : List Sess)
    (hall : ∀ s ∈ ss, s.mode = Mode.append) (done : List (List Row)) (acc : Bytes)
    (hacc : acc = (if done = [] then [] else hdr) ++ dump done.flatten) :
    runAll hdr dump acc ss
      = (if done ++ ss.flatMap Sess.calls = [] then [] else hdr) ++ dump (done ++ ss.flatMap Sess.calls).flatten := by
  induction ss generalizing done acc with
  | nil => simp [runAll, hacc]
  | cons s rest ih =>
    have hm : s.mode = Mode.append := hall s (by simp)
    have hstep : runSess hdr dump acc s
        = (if done ++ s.calls = [] then [] else hdr) ++ dump (done ++ s.calls).flatten := by
      unfold runSess
      simp only [hm, show (Mode.append = Mode.write) = False from by simp, if_false]
      rw [session_body]
      by_cases hempty : acc = []
      · have hst : initState Mode.append (acc == []) = ⟨false⟩ := by simp [initState, hempty]
        rw [hst, writes_compose_owing hdr dump hadd, hempty]
        rw [hempty] at hacc
        by_cases hd : done = []
        · subst hd; simp
        · simp only [hd, if_false] at hacc
          have hh : hdr = [] := (List.append_eq_nil_iff.mp hacc.symm).1
          have hdd : dump done.flatten = [] := (List.append_eq_nil_iff.mp hacc.symm).2
          simp [hh, List.flatten_append, hadd.2, hdd]
      · have hst : initState Mode.append (acc == []) = ⟨true⟩ := by simp [initState, hempty]
        rw [hst, writeAll_noheader hdr dump hadd false ⟨true⟩ (Or.inr rfl)]
        have hd : done ≠ [] := by
          intro hd; subst hd; simp [hadd.1] at hacc; exact hempty hacc
        rw [hacc]
        simp [hd, List.flatten_append, hadd.2]
    simp only [runAll, List.flatMap_cons]
    rw [ih (fun s' hs' => hall s' (by simp [hs'])) (done ++ s.calls) _ hstep]
    simp [List.append_assoc]

/-- **sessions_compose.** Any sequence of writers on one target — the first opened for writing or appending (to a
new or empty file), all later ones appending; each fed by successive `write` calls or by one stream
of chunks; any split of the rows, empty pieces included — leaves: the header exactly once in front (iff at least
one `write` call was made at all), followed by ONE dump of the concatenated table. (The target is modelled as a byte
string: for a gzip target this is the decompressed content, by the stated external assumption on `gzip.open`; the
shipped rule that told plain from gzip targets is `runAllOld`/`sessionOld_unsound`.) `dump` is any record-by-record
serialiser; for the writer models of the formats see `sessions_compose_writer`. -/
theorem sessions_compose (hdr : Bytes) (dump : List Row → Bytes) (hadd : Additive dump) (ss : List Sess)
    (htail : ∀ s ∈ ss.tail, s.mode = Mode.append) :
    runAll hdr dump [] ss
      = (if ss.flatMap Sess.calls = [] then [] else hdr) ++ dump (ss.flatMap Sess.calls).flatten := by
  cases ss with
  | nil => simp [runAll, hadd.1]
  | cons s0 rest =>
    by_cases hm : s0.mode = Mode.write
    · have h0 : runSess hdr dump [] s0 = (if s0.calls = [] then [] else hdr) ++ dump s0.calls.flatten := by
        unfold runSess
        simp only [hm, if_true, List.nil_append]
        rw [session_body, writes_compose hdr dump hadd]
      simp only [runAll]
      rw [runAll_append_inv hdr dump hadd rest (by simpa using htail) s0.calls _ h0]
      simp
    · have hall : ∀ s ∈ s0 :: rest, s.mode = Mode.append := by
        intro s hs
        simp only [List.mem_cons] at hs
        rcases hs with rfl | hs
        · cases hmm : s.mode with
          | write => exact absurd hmm hm
          | append => rfl
        · exact htail s (by simpa using hs)
      have := runAll_append_inv hdr dump hadd (s0 :: rest) hall [] [] (by simp [hadd.1])
      simpa using this

/-- the shipped rule: appending to a gzip target wrote the header again; appending to a new plain file wrote none -/
theorem sessionOld_unsound :
    runAllOld [35, 10] (fun t => List.replicate t.length 120) true []
        [⟨Mode.write, false, [[[]]]⟩, ⟨Mode.append, false, [[[]]]⟩] = [35, 10, 120, 35, 10, 120] ∧
    runAllOld [35, 10] (fun t => List.replicate t.length 120) false [] [⟨Mode.append, false, [[[]]]⟩] = [120] ∧
    runAll [35, 10] (fun t => List.replicate t.length 120) []
        [⟨Mode.write, false, [[[]]]⟩, ⟨Mode.append, false, [[[]]]⟩] = [35, 10, 120, 120] ∧
    runAll [35, 10] (fun t => List.replicate t.length 120) [] [⟨Mode.append, false, [[[]]]⟩] = [35, 10, 120] := by decide

theorem dumpDelimited_additive (n : Nat) (hn : 0 < n) :
    ∀ a b : List Row, (∀ r ∈ a ++ b, r.length = n) →
      dumpDelimited n (a ++ b) = dumpDelimited n a ++ dumpDelimited n b := by
  intro a b h
  rw [dump_canonical n hn _ h, dump_canonical n hn a (fun r hr => h r (by simp [hr])),
    dump_canonical n hn b (fun r hr => h r (by simp [hr]))]
  simp [dumpSpec_append]

/-! ### FASTA wrap arithmetic -/

theorem nLines_pos (W L : Nat) (hL : 0 < L) : nLines W L = (L - 1) / W + 1 := by
  unfold nLines
  have : ((L : Int) - 1) = ((L - 1 : Nat) : Int) := by omega
  rw [this, Int.fdiv_eq_ediv_of_nonneg _ (by omega), ← Int.natCast_ediv]
  generalize (L - 1) / W = q
  omega

theorem lastLen_pos (W L : Nat) (hL : 0 < L) : lastLen W L = (L - 1) % W + 1 := by
  unfold lastLen
  have : ((L : Int) - 1) = ((L - 1 : Nat) : Int) := by omega
  rw [this, Int.fmod_eq_emod_of_nonneg _ (by omega), ← Int.natCast_emod]
  generalize (L - 1) % W = q
  omega

theorem nLines_zero (W : Nat) (hW : 0 < W) : nLines W 0 = 0 := by
  unfold nLines
  rw [Int.fdiv_eq_ediv_of_nonneg _ (by omega)]
  have h : ((0 : Nat) : Int) - 1 = ((W : Int) - 1) + (-1) * (W : Int) := by omega
  rw [h, Int.add_mul_ediv_right _ _ (by omega), Int.ediv_eq_zero_of_lt (by omega) (by omega)]
  simp

theorem lastLen_zero (W : Nat) (hW : 0 < W) : lastLen W 0 = W := by
  unfold lastLen
  rw [Int.fmod_eq_emod_of_nonneg _ (by omega)]
  have h : ((0 : Nat) : Int) - 1 = ((W : Int) - 1) + (-1) * (W : Int) := by omega
  rw [h, Int.add_mul_emod_self_right, Int.emod_eq_of_lt (by omega) (by omega)]
  omega

/-- **fasta_wrap.** For every line width `W ≥ 1` and sequence length `L ≥ 1`: there is at least one line, the
last line has between 1 and `W` characters, and the full lines plus the last line hold exactly `L` characters. -/
theorem fasta_wrap (W L : Nat) (hW : 0 < W) (hL : 0 < L) :
    1 ≤ nLines W L ∧ 1 ≤ lastLen W L ∧ lastLen W L ≤ W ∧ (nLines W L - 1) * W + lastLen W L = L ∧
    L ≤ nLines W L * W := by
  rw [nLines_pos W L hL, lastLen_pos W L hL]
  have h1 := Nat.mod_lt (L - 1) hW
  have h2 := Nat.div_add_mod (L - 1) W
  have h3 : (L - 1) / W * W = W * ((L - 1) / W) := Nat.mul_comm _ _
  generalize (L - 1) / W = q at *
  generalize (L - 1) % W = r at *
  generalize hp : q * W = p at *
  refine ⟨by omega, by omega, by omega, ?_, ?_⟩
  · simp only [Nat.add_sub_cancel, hp]
    omega
  · rw [Nat.add_mul, hp]
    omega

/-- `L = 0`: the arithmetic gives zero lines and a "last line" of `W`; the last-line slot then coincides with the
header line (kept inside the property's domain: see `headerLenOld_unsound`) -/
theorem fasta_wrap_empty (W : Nat) (hW : 0 < W) : nLines W 0 = 0 ∧ lastLen W 0 = W ∧ lineLens W 0 = [] := by
  refine ⟨nLines_zero W hW, lastLen_zero W hW, ?_⟩
  simp [lineLens, nLines_zero W hW]

theorem sum_replicate (k W : Nat) : (List.replicate k W).sum = k * W := by
  induction k with
  | zero => simp
  | succ k ih => rw [List.replicate_succ, List.sum_cons, ih, Nat.succ_mul]; omega

/-- the line lengths the writer allots to a sequence always add up to the sequence length (so filling all
lines from the flat concatenation of all sequences never shifts a later record), every line is 1..W long -/
theorem lineLens_sum (W L : Nat) (hW : 0 < W) :
    (lineLens W L).sum = L ∧ ∀ x ∈ lineLens W L, 1 ≤ x ∧ x ≤ W := by
  rcases Nat.eq_zero_or_pos L with h0 | hL
  · subst h0
    simp [(fasta_wrap_empty W hW).2.2]
  · obtain ⟨h1, h2, h3, h4, _⟩ := fasta_wrap W L hW hL
    unfold lineLens
    cases hn : nLines W L with
    | zero => omega
    | succ k =>
      rw [hn] at h4
      simp only [Nat.add_sub_cancel] at h4
      refine ⟨?_, ?_⟩
      · rw [List.sum_append, sum_replicate]; simp; omega
      · intro x hx
        simp only [List.mem_append, List.mem_replicate, List.mem_singleton] at hx
        rcases hx with ⟨_, rfl⟩ | rfl
        · omega
        · omega

/-- reading the wrapped lines back (joining them) gives the sequence: `unwrap (wrap W s) = s` -/
theorem fasta_unwrap (W : Nat) (hW : 0 < W) (fuel : Nat) (s : Bytes) (h : s.length ≤ fuel) :
    (wrap W fuel s).flatten = s := by
  induction fuel generalizing s with
  | zero =>
    have : s = [] := by simpa using h
    subst this; rfl
  | succ k ih =>
    simp only [wrap]
    split
    · rename_i h0; subst h0; rfl
    · rename_i hne
      have hpos : 0 < s.length := List.length_pos_iff.mpr hne
      rw [List.flatten_cons, ih (s.drop W) (by simp; omega), List.take_append_drop]

theorem lineLens_small (W L : Nat) (hL : 0 < L) (hLW : L ≤ W) : lineLens W L = [L] := by
  have hn : nLines W L = 1 := by
    rw [nLines_pos W L hL, Nat.div_eq_of_lt (by omega)]
  have hl : lastLen W L = L := by
    rw [lastLen_pos W L hL, Nat.mod_eq_of_lt (by omega)]; omega
  simp [lineLens, hn, hl]

theorem lineLens_step (W L : Nat) (hW : 0 < W) (hLW : W < L) : lineLens W L = W :: lineLens W (L - W) := by
  have hL : 0 < L := by omega
  have hL' : 0 < L - W := by omega
  have e : L - 1 = (L - W - 1) + W := by omega
  have hn : nLines W L = nLines W (L - W) + 1 := by
    rw [nLines_pos W L hL, nLines_pos W (L - W) hL', e, Nat.add_div_right _ hW]
  have hl : lastLen W L = lastLen W (L - W) := by
    rw [lastLen_pos W L hL, lastLen_pos W (L - W) hL', e, Nat.add_mod_right]
  unfold lineLens
  rw [hn, hl]
  cases hk : nLines W (L - W) with
  | zero => exact absurd hk (by rw [nLines_pos W (L - W) hL']; exact Nat.succ_ne_zero _)
  | succ k => simp [List.replicate_succ]

theorem wrap_fuel (W : Nat) (hW : 0 < W) (f1 f2 : Nat) (s : Bytes) (h1 : s.length ≤ f1) (h2 : s.length ≤ f2) :
    wrap W f1 s = wrap W f2 s := by
  induction f1 generalizing f2 s with
  | zero =>
    have : s = [] := by simpa using h1
    subst this
    cases f2 <;> simp [wrap]
  | succ k ih =>
    cases f2 with
    | zero =>
      have : s = [] := by simpa using h2
      subst this; simp [wrap]
    | succ m =>
      simp only [wrap]
      split
      · rfl
      · rename_i hne
        have hpos : 0 < s.length := List.length_pos_iff.mpr hne
        rw [ih m (s.drop W) (by simp; omega) (by simp; omega)]

/-- cutting a sequence by the writer's line lengths gives the chunks of `W` -/
theorem unflatten_lineLens (W : Nat) (hW : 0 < W) (L : Nat) (s : Bytes) (hs : s.length = L) :
    C02.unflatten (lineLens W L) s = wrap W L s := by
  induction L using Nat.strongRecOn generalizing s with
  | _ L ih =>
    rcases Nat.eq_zero_or_pos L with h0 | hL
    · subst h0
      have : s = [] := by simpa using hs
      subst this
      simp [(fasta_wrap_empty W hW).2.2, C02.unflatten, wrap]
    · have hne : s ≠ [] := by intro h; subst h; simp at hs; omega
      obtain ⟨k, hk⟩ : ∃ k, L = k + 1 := ⟨L - 1, by omega⟩
      rcases Nat.lt_or_ge W L with hgt | hle
      · rw [lineLens_step W L hW hgt]
        simp only [C02.unflatten]
        rw [ih (L - W) (by omega) (s.drop W) (by simp; omega)]
        subst hk
        simp only [wrap, hne, if_false]
        rw [wrap_fuel W hW (k + 1 - W) k (s.drop W) (by simp; omega) (by simp; omega)]
      · rw [lineLens_small W L hL hle]
        subst hk
        simp only [C02.unflatten, wrap, hne, if_false]
        have ht : s.take (k + 1) = s.take W := by
          rw [List.take_of_length_le (by omega), List.take_of_length_le (by omega)]
        have hd : s.drop W = [] := List.drop_of_length_le (by omega)
        rw [ht, hd]
        cases k <;> simp [wrap]

theorem unflatten_append {α} (l1 l2 : List Nat) (xs : List α) :
    C02.unflatten (l1 ++ l2) xs = C02.unflatten l1 (xs.take l1.sum) ++ C02.unflatten l2 (xs.drop l1.sum) := by
  induction l1 generalizing xs with
  | nil => simp [C02.unflatten]
  | cons n ns ih =>
    simp only [List.cons_append, C02.unflatten, List.sum_cons, ih]
    rw [List.take_take, List.drop_take, List.drop_drop]
    have e1 : min n (n + ns.sum) = n := by omega
    have e2 : n + ns.sum - n = ns.sum := by omega
    rw [e1, e2]

theorem unflatten_length {α} (l : List Nat) (xs : List α) : (C02.unflatten l xs).length = l.length := by
  induction l generalizing xs with
  | nil => rfl
  | cons n ns ih => simp [C02.unflatten, ih]

/-- all sequence lines, cut from the flat concatenation, are each record's own chunks -/
theorem allLines_eq (W : Nat) (hW : 0 < W) (entries : List (Bytes × Bytes)) :
    C02.unflatten (entries.map (fun e => lineLens W e.2.length)).flatten (entries.map (·.2)).flatten
      = (entries.map (fun e => wrap W e.2.length e.2)).flatten := by
  induction entries with
  | nil => simp [C02.unflatten]
  | cons e rest ih =>
    simp only [List.map_cons, List.flatten_cons]
    rw [unflatten_append, (lineLens_sum W e.2.length hW).1]
    rw [List.take_append_of_le_length (by omega), List.take_of_length_le (by omega)]
    rw [List.drop_append_of_le_length (by omega), List.drop_of_length_le (by omega), List.nil_append]
    rw [ih, unflatten_lineLens W hW e.2.length e.2 rfl]

theorem zip_map_flatMap {α β γ} (l : List α) (f : α → β) (g : α × β → List γ) :
    (List.zip l (l.map f)).flatMap g = l.flatMap (fun a => g (a, f a)) := by
  induction l with
  | nil => rfl
  | cons a as ih => simp [ih]

/-- **fasta_layout.** For every list of records and every line width `W ≥ 1`, the bytes the FASTA writer builds
(line-length table + one flat fill of all sequences) are the canonical wrapped layout:
'>' name, newline, then the sequence in chunks of `W`, one per line — an empty sequence gives no sequence line. -/
theorem fasta_layout (W : Nat) (hW : 0 < W) (entries : List (Bytes × Bytes)) :
    dumpFasta W entries = fastaSpec W entries := by
  unfold dumpFasta fastaSpec
  simp only
  rw [allLines_eq W hW]
  have hlen : (entries.map (fun e => lineLens W e.2.length)).map List.length
      = (entries.map (fun e => wrap W e.2.length e.2)).map List.length := by
    simp only [List.map_map]
    apply List.map_congr_left
    intro e _
    simp only [Function.comp]
    rw [← unflatten_lineLens W hW e.2.length e.2 rfl, unflatten_length]
  rw [hlen, C02.unflatten_flatten]
  exact zip_map_flatMap entries (fun e => wrap W e.2.length e.2) _

/-- before the repair the header line's length slot was overwritten by `last_length + 1` when the sequence was
empty (e.g. name "ab": 81 instead of 4), which the ragged assignment then rejected (AssertionError) -/
theorem headerLenOld_unsound :
    headerLenOld 80 2 0 = 81 ∧ headerLenNew 80 2 0 = 4 ∧ headerLenOld 80 2 5 = headerLenNew 80 2 5 := by decide

/-! ### FASTQ layout -/

/-- **fastq_layout.** Every record is written as '@' name / sequence / '+' / qualities, one per line. -/
theorem fastq_layout (rows : List Row) (h : ∀ r ∈ rows, r.length = 3) :
    dumpFastq 64 [1, 0, 0, 0] rows = fastqSpec rows := by
  unfold dumpFastq fastqSpec joinFields
  rw [List.flatMap_map]
  simp only [List.flatMap_def]
  congr 1
  apply List.map_congr_left
  intro r hr
  have h3 := h r hr
  match r, h3 with
  | [a, b, c], _ => simp

/-! ### generated obligations -/

/-- the writer's line structure measured on the running code (every length 0..242 and around 400) is the
arithmetic the theorems are about, at the code's own line width -/
theorem gen_fasta_wrap :
    Gen.C03.fastaLineWidth = 80 ∧
    Gen.C03.fastaWrapTable.all (fun e =>
      (lineLens Gen.C03.fastaLineWidth e.1).length == e.2.1 &&
      (lineLens Gen.C03.fastaLineWidth e.1).getLast?.getD 0 == e.2.2.1 &&
      (lineLens Gen.C03.fastaLineWidth e.1).foldl max 0 == e.2.2.2) = true := by
  decide +kernel

/-- the default VCF header consists of complete '#' lines only (so it can never be taken for a record) -/
theorem gen_vcf_header :
    (C02.linesOf Gen.C03.vcfDefaultHeader).all (fun l => l.head? == some 35) = true ∧
    C02.tailOf Gen.C03.vcfDefaultHeader = [] ∧ Gen.C03.vcfDefaultHeader ≠ [] := by decide +kernel

theorem gen_fastq : Gen.C03.fastqMarker = 64 ∧ Gen.C03.fastqLineOffsets = [1, 0, 0, 0] ∧
    Gen.C03.fastqLinesPerEntry = 4 ∧ Gen.C03.fastaMarker = 62 := by decide

/-! ### model-level round trip through the reader model of C02 -/

open C02 (Col Schema columnOf)

/-- a cell fits a column kind -/
def cellFits (k : String) : Cell → Prop
  | .int i => k = "sint" ∨ k = "oint" ∨ (k = "int" ∧ 0 ≤ i)
  | .text t => (k = "str" ∨ k = "float" ∨ (k = "id" ∧ t.getLast? ≠ some 0) ∨ (k = "strand" ∧ t.length = 1 ∧ t.all C02.strandOK = true))
      ∧ 9 ∉ t ∧ 10 ∉ t ∧ 13 ∉ t
  | .ints _ => k = "ilist"
  | .qual _ => False

/-- the parsed column that a list of cells of one kind denotes -/
def colOf (k : String) (cells : List Cell) : Col :=
  if k = "int" ∨ k = "sint" ∨ k = "oint" then Col.ints (cells.map (fun c => match c with | .int i => i | _ => 0))
  else if k = "ilist" then Col.intLists (cells.map (fun c => match c with | .ints l => l | _ => []))
  else if k = "float" then Col.floats (cells.map cellText)
  else Col.strs (cells.map cellText)

theorem specNatI_formatInt (i : Int) (h : 0 ≤ i) : C02.specNatI (formatInt i) = some i := by
  unfold formatInt
  have : ¬ i < 0 := by omega
  simp only [this, if_false]
  unfold C02.specNatI
  rw [specNat_formatNat]
  simp only [Int.ofNat_eq_natCast, Option.some.injEq]
  omega

theorem specOInt_formatInt (i : Int) : C02.specOInt (formatInt i) = some i := by
  unfold C02.specOInt
  have h1 : formatInt i ≠ [] := formatInt_ne_nil i
  have h2 : formatInt i ≠ [46] := by
    intro h
    have := formatInt_bytes i 46 (by rw [h]; simp)
    omega
  simp [h1, h2, parse_format_int]

theorem specColumn_cells (k : String) (hk : C02.modelledKind k) (cells : List Cell) (hfit : ∀ c ∈ cells, cellFits k c) :
    C02.specColumn k (cells.map cellText) = some (colOf k cells) := by
  unfold C02.specColumn colOf
  by_cases h1 : k = "int"
  · subst h1
    simp only [if_true]
    rw [C02.omap_map, omap_some_map _ (fun c => match c with | .int i => i | _ => 0)]
    · rfl
    · intro c hc
      have := hfit c hc
      cases c with
      | int i =>
        simp only [cellFits] at this
        rcases this with h | h | h
        · exact absurd h (by decide)
        · exact absurd h (by decide)
        · exact specNatI_formatInt i h.2
      | text t => simp only [cellFits] at this; rcases this.1 with h | h | h | h <;> first | exact absurd h (by decide) | exact absurd h.1 (by decide)
      | ints l => simp only [cellFits] at this; exact absurd this (by decide)
      | qual q => exact absurd this id
  · by_cases h2 : k = "sint"
    · subst h2
      simp only [h1, if_false, if_true, true_or, or_true]
      rw [C02.omap_map, omap_some_map _ (fun c => match c with | .int i => i | _ => 0)]
      · rfl
      · intro c hc
        have := hfit c hc
        cases c with
        | int i => exact parse_format_int i
        | text t => simp only [cellFits] at this; rcases this.1 with h | h | h | h <;> first | exact absurd h (by decide) | exact absurd h.1 (by decide)
        | ints l => simp only [cellFits] at this; exact absurd this (by decide)
        | qual q => exact absurd this id
    · by_cases h3 : k = "oint"
      · subst h3
        simp only [h1, h2, if_false, if_true, true_or, or_true]
        rw [C02.omap_map, omap_some_map _ (fun c => match c with | .int i => i | _ => 0)]
        · rfl
        · intro c hc
          have := hfit c hc
          cases c with
          | int i => exact specOInt_formatInt i
          | text t => simp only [cellFits] at this; rcases this.1 with h | h | h | h <;> first | exact absurd h (by decide) | exact absurd h.1 (by decide)
          | ints l => simp only [cellFits] at this; exact absurd this (by decide)
          | qual q => exact absurd this id
      · have hnum : ¬ (k = "int" ∨ k = "sint" ∨ k = "oint") := by simp [h1, h2, h3]
        simp only [h1, h2, h3, hnum, if_false]
        -- the remaining kinds hold text or int lists
        have htext : ∀ c ∈ cells, k ≠ "ilist" → ∃ t, c = Cell.text t ∧
            ((k = "str" ∨ k = "float" ∨ (k = "id" ∧ t.getLast? ≠ some 0) ∨ (k = "strand" ∧ t.length = 1 ∧ t.all C02.strandOK = true))) := by
          intro c hc hk
          have := hfit c hc
          cases c with
          | int i => simp only [cellFits] at this; rcases this with h | h | h <;> first | exact absurd h h2 | exact absurd h h3 | exact absurd h.1 h1
          | text t => exact ⟨t, rfl, this.1⟩
          | ints l => exact absurd this hk
          | qual q => exact absurd this id
        by_cases h4 : k = "id"
        · subst h4
          simp only [if_true]
          have hall : (cells.map cellText).all (fun t => t.getLast? != some 0) = true := by
            rw [List.all_eq_true]
            intro t ht
            simp only [List.mem_map] at ht
            obtain ⟨c, hc, rfl⟩ := ht
            obtain ⟨t', rfl, hk⟩ := htext c hc (by decide)
            rcases hk with h | h | h | h
            · exact absurd h (by decide)
            · exact absurd h (by decide)
            · simpa [cellText] using h.2
            · exact absurd h.1 (by decide)
          simp [hall]
        · by_cases h5 : k = "str"
          · subst h5; simp
          · by_cases h6 : k = "float"
            · subst h6; simp
            · by_cases h7 : k = "ilist"
              · subst h7
                simp only [h4, h5, h6, if_false, if_true]
                rw [C02.omap_map, omap_some_map _ (fun c => match c with | .ints l => l | _ => [])]
                · rfl
                · intro c hc
                  have := hfit c hc
                  cases c with
                  | int i => simp only [cellFits] at this; rcases this with h | h | h <;> first | exact absurd h (by decide) | exact absurd h.1 (by decide)
                  | text t => simp only [cellFits] at this; rcases this.1 with h | h | h | h <;> first | exact absurd h (by decide) | exact absurd h.1 (by decide)
                  | ints l =>
                    have := readCell_cellText (Cell.ints l) (fun _ _ => trivial)
                    simp only [readCell, cellText, Option.map_eq_some_iff] at this
                    obtain ⟨l', hl', hinj⟩ := this
                    simp only [Cell.ints.injEq] at hinj
                    subst hinj
                    simpa [cellText] using hl'
                  | qual q => exact absurd this id
              · by_cases h8 : k = "strand"
                · subst h8
                  simp only [h4, h5, h6, h7, if_false, if_true]
                  have hall : (cells.map cellText).all (fun t => t.length == 1 && t.all C02.strandOK) = true := by
                    rw [List.all_eq_true]
                    intro t ht
                    simp only [List.mem_map] at ht
                    obtain ⟨c, hc, rfl⟩ := ht
                    obtain ⟨t', rfl, hk⟩ := htext c hc (by decide)
                    rcases hk with h | h | h | h
                    · exact absurd h (by decide)
                    · exact absurd h (by decide)
                    · exact absurd h.1 (by decide)
                    · simp [cellText, h.2.1, h.2.2]
                  simp [hall]
                · exfalso
                  unfold C02.modelledKind at hk
                  rcases hk with h | h | h | h | h | h | h | h
                  · exact h1 h
                  · exact h2 h
                  · exact h3 h
                  · exact h4 h
                  · exact h5 h
                  · exact h6 h
                  · exact h7 h
                  · exact h8 h

def colsFrom (rows : List Row) : Nat → List String → List Col
  | _, [] => []
  | j, k :: ks => colOf k (columnOf rows j) :: colsFrom rows (j + 1) ks

theorem specColumnsFrom_cells (rows : List Row) (ks : List String) (j : Nat)
    (hmod : ∀ k ∈ ks, C02.modelledKind k)
    (hfit : ∀ i k, ks[i]? = some k → ∀ c ∈ columnOf rows (j + i), cellFits k c) :
    C02.specColumnsFrom (rows.map (fun r => r.map cellText)) j ks = some (colsFrom rows j ks) := by
  induction ks generalizing j with
  | nil => rfl
  | cons k rest ih =>
    simp only [C02.specColumnsFrom, colsFrom]
    rw [C02.columnOf_map, specColumn_cells k (hmod k (by simp)) _ (fun c hc => hfit 0 k (by simp) c (by simpa using hc))]
    rw [ih (j + 1) (fun k' hk' => hmod k' (by simp [hk']))
      (fun i k' hi c hc => hfit (i + 1) k' (by simpa using hi) c (by
        have : j + (i + 1) = j + 1 + i := by omega
        rw [this]; exact hc))]

theorem cellText_bytes_fit (k : String) (c : Cell) (h : cellFits k c) :
    ∀ x ∈ cellText c, x ≠ 9 ∧ x ≠ 10 ∧ x ≠ 13 := by
  intro x hx
  cases c with
  | text t =>
    obtain ⟨_, h9, h10, h13⟩ := h
    simp only [cellText] at hx
    exact ⟨fun e => h9 (e ▸ hx), fun e => h10 (e ▸ hx), fun e => h13 (e ▸ hx)⟩
  | int i =>
    rcases formatInt_bytes i x hx with h' | h' <;> omega
  | ints l =>
    simp only [cellText] at hx
    rcases joinWith_mem 44 _ x hx with h' | ⟨f, hf, hxf⟩
    · omega
    · simp only [List.mem_map] at hf
      obtain ⟨i, _, rfl⟩ := hf
      rcases formatInt_bytes i x hxf with h' | h' <;> omega
  | qual q => exact absurd h id

/-- **write_read_model.** Model-level round trip through BOTH models: for every schema of the modelled column types
and every non-empty table whose cells fit their column kinds (text free of TAB/LF/CR; unsigned columns non-negative),
parsing — with the model of the code's reader (offset table, CR rule, digit matrix / sign path, padded identifiers,
list split) — the bytes produced by the model of the code's writer (column interleave, `ints_to_strings` text)
returns exactly the table, column by column, with one entry per row. -/
theorem write_read_model (S : Schema) (sks : List String) (rows : List Row)
    (hk : S.cols.map (·.2) = sks.map C02.normKind) (hS : S.delim = 9)
    (hmod : ∀ k ∈ sks, C02.modelledKind k)
    (hrows : rows ≠ []) (hn : 0 < sks.length) (hrect : ∀ r ∈ rows, r.length = sks.length)
    (hfit : ∀ i k, sks[i]? = some k → ∀ c ∈ columnOf rows i, cellFits k c) :
    C02.parseDelimited S (dumpDelimited sks.length rows) = .ok (rows.length, colsFrom rows 0 sks) := by
  -- every cell fits some kind, hence its text has no TAB / LF / CR
  have hcell : ∀ r ∈ rows, ∀ c ∈ r, ∀ x ∈ cellText c, x ≠ 9 ∧ x ≠ 10 ∧ x ≠ 13 := by
    intro r hr c hc
    obtain ⟨i, hi, hci⟩ := List.getElem_of_mem hc
    have hil : i < sks.length := by rw [← hrect r hr]; exact hi
    have hmem : c ∈ columnOf rows i := by
      unfold columnOf
      simp only [List.mem_filterMap]
      exact ⟨r, hr, by rw [List.getElem?_eq_getElem hi, hci]⟩
    exact cellText_bytes_fit _ c (hfit i sks[i] (List.getElem?_eq_getElem hil) c hmem)
  obtain ⟨texts, htexts⟩ : ∃ t, t = rows.map (fun r => r.map cellText) := ⟨_, rfl⟩
  have hbs : dumpDelimited sks.length rows = unlines (texts.map (joinWith 9)) := by
    rw [dump_canonical sks.length hn rows hrect, dumpSpec_unlines, htexts]
  have htne : ∀ t ∈ texts, t ≠ [] := by
    intro t ht
    rw [htexts] at ht
    simp only [List.mem_map] at ht
    obtain ⟨r, hr, rfl⟩ := ht
    intro h0
    have h1 : (r.map cellText).length = 0 := by rw [h0]; rfl
    rw [List.length_map, hrect r hr] at h1
    omega
  have hfree : ∀ t ∈ texts, ∀ f ∈ t, ∀ x ∈ f, x ≠ 9 ∧ x ≠ 10 ∧ x ≠ 13 := by
    intro t ht f hf
    rw [htexts] at ht
    simp only [List.mem_map] at ht
    obtain ⟨r, hr, rfl⟩ := ht
    simp only [List.mem_map] at hf
    obtain ⟨c, hc, rfl⟩ := hf
    exact hcell r hr c hc
  have hlinefree : ∀ l ∈ texts.map (joinWith 9), 10 ∉ l ∧ 13 ∉ l := by
    intro l hl
    simp only [List.mem_map] at hl
    obtain ⟨t, ht, rfl⟩ := hl
    constructor
    · intro hm
      rcases joinWith_mem 9 t 10 hm with h | ⟨f, hf, hxf⟩
      · omega
      · exact (hfree t ht f hf 10 hxf).2.1 rfl
    · intro hm
      rcases joinWith_mem 9 t 13 hm with h | ⟨f, hf, hxf⟩
      · omega
      · exact (hfree t ht f hf 13 hxf).2.2 rfl
  have hlines : linesOf (dumpDelimited sks.length rows) = texts.map (joinWith 9) := by
    rw [hbs]; exact C02.linesOf_unlines _ (fun l hl => (hlinefree l hl).1)
  have htexts_ne : texts ≠ [] := by rw [htexts]; simpa using hrows
  have hnocr : ∀ l ∈ linesOf (dumpDelimited sks.length rows), l.getLast? ≠ some 13 := by
    intro l hl
    rw [hlines] at hl
    intro h13
    exact (hlinefree l hl).2 (List.mem_of_getLast? h13)
  have hspl : C02.specLines (dumpDelimited sks.length rows) = texts.map (joinWith 9) := by
    unfold C02.specLines
    simp only
    rw [hlines]
    split
    · rename_i h
      unfold C02.crlfText at h
      simp only [Bool.and_eq_true, List.any_eq_true] at h
      obtain ⟨l, hl, h13⟩ := h.2
      have h13' : l.getLast? = some 13 := by simpa using h13
      exact absurd h13' (hnocr l (by rw [hlines]; exact hl))
    · rfl
  have hrecs : (texts.map (joinWith 9)).map (splitOn 9) = texts := by
    rw [List.map_map]
    conv => rhs; rw [← List.map_id texts]
    apply List.map_congr_left
    intro t ht
    simp only [Function.comp, id]
    exact splitOn_joinWith 9 t (htne t ht) (fun f hf hm => (hfree t ht f hf 9 hm).1 rfl)
  have hlenrows : (linesOf (dumpDelimited sks.length rows)).length = rows.length := by
    rw [hlines, htexts]; simp
  have := C02.parse_delimited S sks (dumpDelimited sks.length rows) hk (by rw [hS]; decide) (by rw [hS]; decide)
    (by rw [hlines]; simpa using htexts_ne) (Or.inl hnocr)
    (by
      intro l hl
      rw [hspl] at hl
      simp only [List.mem_map] at hl
      obtain ⟨t, ht, rfl⟩ := hl
      rw [hS, splitOn_joinWith 9 t (htne t ht) (fun f hf hm => (hfree t ht f hf 9 hm).1 rfl)]
      rw [htexts] at ht
      simp only [List.mem_map] at ht
      obtain ⟨r, hr, rfl⟩ := ht
      simp [hrect r hr])
    (colsFrom rows 0 sks)
    (by
      rw [hspl, hS, hrecs, htexts]
      exact specColumnsFrom_cells rows sks 0 hmod (by simpa using hfit))
  rw [hlenrows] at this
  exact this

theorem wrap_mem (W : Nat) (fuel : Nat) (s : Bytes) : ∀ x ∈ wrap W fuel s, ∀ b ∈ x, b ∈ s := by
  induction fuel generalizing s with
  | zero => intro x hx; simp [wrap] at hx
  | succ k ih =>
    intro x hx
    simp only [wrap] at hx
    split at hx
    · simp at hx
    · simp only [List.mem_cons] at hx
      rcases hx with rfl | hx
      · intro b hb; exact List.mem_of_mem_take hb
      · intro b hb; exact List.mem_of_mem_drop (ih (s.drop W) x hx b hb)

theorem fastaSpec_unlines (W : Nat) (entries : List (Bytes × Bytes)) :
    fastaSpec W entries = unlines (C02.fastaSer 62 (entries.map (fun e => (e.1, wrap W e.2.length e.2)))) := by
  unfold fastaSpec unlines C02.fastaSer
  induction entries with
  | nil => rfl
  | cons e rest ih =>
    simp only [List.flatMap_cons, List.map_cons, List.map_append, List.flatten_append, List.flatten_cons] at ih ⊢
    rw [ih]

/-- **fasta_write_read_model.** Model-level FASTA round trip: for every line width `W ≥ 1` and every list of records
whose names contain no newline and whose sequences contain neither a newline nor the record marker '>': grouping
(with the model of the code's reader) the lines of the bytes built by the model of the code's writer returns every
name and every sequence — the empty ones included — exactly. -/
theorem fasta_write_read_model (W : Nat) (hW : 0 < W) (entries : List (Bytes × Bytes))
    (hname : ∀ e ∈ entries, 10 ∉ e.1) (hseq : ∀ e ∈ entries, 10 ∉ e.2 ∧ 62 ∉ e.2) :
    C02.fastaGroup 62 (linesOf (dumpFasta W entries)) = (entries.map (·.1), entries.map (·.2)) := by
  rw [fasta_layout W hW, fastaSpec_unlines]
  have hfree : ∀ l ∈ C02.fastaSer 62 (entries.map (fun e => (e.1, wrap W e.2.length e.2))), 10 ∉ l := by
    intro l hl
    simp only [C02.fastaSer, List.mem_flatMap, List.mem_map] at hl
    obtain ⟨p, ⟨e, he, rfl⟩, hl⟩ := hl
    simp only [List.mem_cons] at hl
    rcases hl with rfl | hl
    · intro hm
      simp only [List.mem_cons] at hm
      rcases hm with h | h
      · omega
      · exact hname e he h
    · intro hm
      exact (hseq e he).1 (wrap_mem W _ _ l hl 10 hm)
  rw [C02.linesOf_unlines _ hfree]
  rw [C02.fasta_wrapped_join 62 _ (by
    intro p hp l hl
    simp only [List.mem_map] at hp
    obtain ⟨e, he, rfl⟩ := hp
    intro hh
    have hmem : (62 : Nat) ∈ l := by
      cases l with
      | nil => simp at hh
      | cons x xs => simp at hh; subst hh; simp
    exact (hseq e he).2 (wrap_mem W _ _ l hl 62 hmem))]
  simp only [List.map_map, Function.comp_def]
  congr 1
  apply List.map_congr_left
  intro e _
  exact fasta_unwrap W hW e.2.length e.2 (Nat.le_refl _)

/-- the four lines of a FASTQ record -/
def fastqLines (r : Row) : List Bytes :=
  match r.map cellText with
  | [n, s, q] => [64 :: n, s, [43], q]
  | _ => []

theorem fastqSpec_unlines (rows : List Row) : fastqSpec rows = unlines (rows.map fastqLines).flatten := by
  unfold fastqSpec unlines
  induction rows with
  | nil => rfl
  | cons r rest ih =>
    simp only [List.flatMap_cons, List.map_cons, List.flatten_cons, List.map_append, List.flatten_append] at ih ⊢
    rw [ih]
    congr 1
    unfold fastqLines
    split
    · rename_i heq; simp [heq]
    · rename_i hne'
      split
      · rename_i n s q heq; exact absurd heq (hne' n s q)
      · rfl

/-- **fastq_write_read_model.** Model-level FASTQ round trip: for every non-empty list of records (name, sequence,
qualities; no newline inside a text), the (start, end) table that the model of the reader builds on the bytes
produced by the model of the writer denotes, record by record: the name (marker dropped), the sequence, the '+'
line and the quality text. -/
theorem fastq_write_read_model (rows : List Row) (hne : rows ≠ []) (h3 : ∀ r ∈ rows, r.length = 3)
    (hfree : ∀ r ∈ rows, ∀ c ∈ r, 10 ∉ cellText c) :
    ∃ t, C02.klineTable 4 [1, 0, 0, 0] (dumpFastq 64 [1, 0, 0, 0] rows) = .ok t ∧
      t.map (fun e => e.map (fun p => C02.slice (dumpFastq 64 [1, 0, 0, 0] rows) p.1 p.2))
        = rows.map (fun r => match r.map cellText with | [n, s, q] => [n, s, [43], q] | _ => []) := by
  have hlen4 : ∀ ls ∈ rows.map fastqLines, ls.length = 4 := by
    intro ls hls
    simp only [List.mem_map] at hls
    obtain ⟨r, hr, rfl⟩ := hls
    have := h3 r hr
    unfold fastqLines
    match r, this with
    | [a, b, c], _ => simp
  have hbs : dumpFastq 64 [1, 0, 0, 0] rows = unlines (rows.map fastqLines).flatten := by
    rw [fastq_layout rows h3, fastqSpec_unlines]
  have hlfree : ∀ l ∈ (rows.map fastqLines).flatten, 10 ∉ l := by
    intro l hl
    simp only [List.mem_flatten, List.mem_map] at hl
    obtain ⟨ls, ⟨r, hr, rfl⟩, hl⟩ := hl
    have h3r := h3 r hr
    have hf := hfree r hr
    unfold fastqLines at hl
    match r, h3r, hf, hl with
    | [a, b, c], _, hf, hl =>
      simp only [List.map_cons, List.map_nil, List.mem_cons, List.not_mem_nil, or_false] at hl
      rcases hl with rfl | rfl | rfl | rfl
      · intro hm
        simp only [List.mem_cons] at hm
        rcases hm with h | h
        · omega
        · exact hf a (by simp) h
      · exact hf b (by simp)
      · simp
      · exact hf c (by simp)
  have hlines : linesOf (dumpFastq 64 [1, 0, 0, 0] rows) = (rows.map fastqLines).flatten := by
    rw [hbs]; exact C02.linesOf_unlines _ hlfree
  have hcount : (linesOf (dumpFastq 64 [1, 0, 0, 0] rows)).length = rows.length * 4 := by
    rw [hlines, C02.length_flatten_const 4 _ hlen4]; simp
  have hpos : 0 < rows.length := List.length_pos_iff.mpr hne
  obtain ⟨t, ht, htx⟩ := C02.kline_roles 4 [1, 0, 0, 0] (dumpFastq 64 [1, 0, 0, 0] rows) (by decide)
    (by rw [hcount]; omega) (by rw [hcount]; omega)
  refine ⟨t, ht, ?_⟩
  rw [htx, hcount, Nat.mul_div_cancel _ (by decide : 0 < 4), hlines]
  have hch := C02.chunkF_flatten 4 (rows.map fastqLines) hlen4
  rw [List.length_map] at hch
  rw [hch, List.map_map]
  apply List.map_congr_left
  intro r hr
  have h3r := h3 r hr
  simp only [Function.comp, fastqLines]
  match r, h3r with
  | [a, b, c], _ => simp

/-! ### injectivity, canonical digits, chunking independence, truncation -/

/-- **formatInt_injective.** Different integers are never written with the same text. -/
theorem formatInt_injective (i j : Int) (h : formatInt i = formatInt j) : i = j := by
  have hi := parse_format_int i
  rw [h, parse_format_int j] at hi
  exact (Option.some.inj hi).symm

/-- **natDigits_canonical.** The decimal text has no leading zero (except for 0 itself) and only digits 0..9. -/
theorem natDigits_canonical (n : Nat) :
    (∀ d ∈ natDigits n, d < 10) ∧ (0 < n → (natDigits n).head? ≠ some 0) ∧ natDigits 0 = [0] := by
  refine ⟨natDigits_lt n, ?_, by rw [natDigits]; simp⟩
  fun_induction natDigits n with
  | case1 n h => intro hn; simp; omega
  | case2 n h ih =>
    intro _
    have hpos : 0 < n / 10 := by omega
    have := ih hpos
    cases hd : natDigits (n / 10) with
    | nil => exact absurd hd (natDigits_ne_nil _)
    | cons x xs => rw [hd] at this; simpa using this

/-- **dump_injective.** The canonical bytes determine the table of cell texts: two tables (non-empty records, texts
free of TAB and newline) with the same serialisation are the same table. -/
theorem dump_injective (a b : List (List Bytes)) (hane : ∀ r ∈ a, r ≠ []) (hbne : ∀ r ∈ b, r ≠ [])
    (hafree : ∀ r ∈ a, ∀ f ∈ r, 9 ∉ f ∧ 10 ∉ f) (hbfree : ∀ r ∈ b, ∀ f ∈ r, 9 ∉ f ∧ 10 ∉ f)
    (h : dumpSpec 9 a = dumpSpec 9 b) : a = b := by
  rw [← roundtrip_records a hane hafree, ← roundtrip_records b hbne hbfree, h]

/-- **writes_chunking_independent.** Any two ways of cutting the same rows into successive `write` calls of one
writer give the same file, as soon as at least one call is made in both. -/
theorem writes_chunking_independent (hdr : Bytes) (dump : List Row → Bytes) (hadd : Additive dump)
    (ts us : List (List Row)) (hsame : ts.flatten = us.flatten) (ht : ts ≠ []) (hu : us ≠ []) :
    writeAll hdr dump false (initState .write true) ts = writeAll hdr dump false (initState .write true) us := by
  rw [writes_compose hdr dump hadd, writes_compose hdr dump hadd, hsame]
  simp [ht, hu]

/-- **sessions_truncate.** A writer opened with 'w' forgets whatever the target held: only the sessions from the
last 'w' on matter. -/
theorem sessions_truncate (hdr : Bytes) (dump : List Row → Bytes) (acc : Bytes) (before after : List Sess) (s : Sess)
    (hs : s.mode = Mode.write) :
    runAll hdr dump acc (before ++ s :: after) = runAll hdr dump [] (s :: after) := by
  induction before generalizing acc with
  | nil =>
    simp only [List.nil_append, runAll]
    congr 1
    unfold runSess
    simp [hs]
  | cons b rest ih =>
    simp only [List.cons_append, runAll]
    exact ih _

/-- **wrap_lengths.** Every line of a wrapped sequence has between 1 and `W` characters and all lines but the last
have exactly `W`. -/
theorem wrap_lengths (W : Nat) (hW : 0 < W) (fuel : Nat) (s : Bytes) :
    (∀ x ∈ wrap W fuel s, 1 ≤ x.length ∧ x.length ≤ W) ∧ ∀ x ∈ (wrap W fuel s).dropLast, x.length = W := by
  induction fuel generalizing s with
  | zero => simp [wrap]
  | succ k ih =>
    simp only [wrap]
    split
    · simp
    · rename_i hne
      have hpos : 0 < s.length := List.length_pos_iff.mpr hne
      obtain ⟨ih1, ih2⟩ := ih (s.drop W)
      constructor
      · intro x hx
        simp only [List.mem_cons] at hx
        rcases hx with rfl | hx
        · simp [List.length_take]; omega
        · exact ih1 x hx
      · intro x hx
        cases hrest : wrap W k (s.drop W) with
        | nil => rw [hrest] at hx; simp at hx
        | cons y ys =>
          rw [hrest, List.dropLast_cons_cons] at hx
          simp only [List.mem_cons] at hx
          rcases hx with rfl | hx
          · -- the rest is non-empty, so the sequence is longer than W
            have hdrop : s.drop W ≠ [] := by
              intro h0
              rw [h0] at hrest
              cases k <;> simp [wrap] at hrest
            have : W < s.length := by
              rcases Nat.lt_or_ge W s.length with h | h
              · exact h
              · exact absurd (List.drop_of_length_le h) hdrop
            simp [List.length_take]; omega
          · exact ih2 x (by rw [hrest]; exact hx)

/-! ### non-vacuity -/

example : Additive (fun rows => dumpSpec 9 (rows.map (·.map cellText))) := by
  constructor
  · rfl
  · intro a b; simp [dumpSpec_append]
example : cellOK (Cell.text [99, 104, 114]) := by simp [cellOK]
example : readTable [[Cell.text [99], Cell.int (-5)], [Cell.text [100, 101], Cell.int 300]]
    (dumpDelimited 2 [[Cell.text [99], Cell.int (-5)], [Cell.text [100, 101], Cell.int 300]])
    = some [[Cell.text [99], Cell.int (-5)], [Cell.text [100, 101], Cell.int 300]] := by decide +kernel
example : dumpDelimited 2 [[Cell.text [99], Cell.int (-5)]] = [99, 9, 45, 53, 10] := by decide +kernel
example : lineLens 80 161 = [80, 80, 1] := by decide +kernel

-- float_partial: "-2.5e-05"
example : [45, 50, 46, 53, 101, 45, 48, 53].all floatChar = true := by decide

-- write_read_model: BED3-like schema, two rows
example : Gen.C02.bed3.cols.map (·.2) = ["id", "int", "int"].map C02.normKind ∧ Gen.C02.bed3.delim = 9 := by decide
example : (match C02.parseDelimited Gen.C02.bed3 (dumpDelimited 3 [[Cell.text [99], Cell.int 1, Cell.int 22], [Cell.text [120, 121], Cell.int 333, Cell.int 4]]) with
    | .ok r => r == (2, colsFrom [[Cell.text [99], Cell.int 1, Cell.int 22], [Cell.text [120, 121], Cell.int 333, Cell.int 4]] 0 ["id", "int", "int"])
    | .error _ => false) = true := by decide +kernel

-- sessions_truncate / writes_chunking_independent: hypotheses are satisfiable
example : (⟨Mode.write, false, [[]]⟩ : Sess).mode = Mode.write := rfl
example : ([[[Cell.int 1]], [[Cell.int 2]]] : List (List Row)).flatten = ([[[Cell.int 1], [Cell.int 2]]] : List (List Row)).flatten := by decide

/-! ### the writers of the formats: canonical, and composable on the tables they are specified for -/

def Rect (n : Nat) (rows : List Row) : Prop := ∀ r ∈ rows, r.length = n

instance (n : Nat) (rows : List Row) : Decidable (Rect n rows) := by unfold Rect; exact inferInstance

/-- the tables a format's writer is specified for: FASTQ records have 3 cells, two-line FASTA records 2, the records of
a delimited table (after the format's `prepRow`) all have the same number `n ≥ 1` of cells; wrapped FASTA: any -/
def WF (fmt : String) (rows : List Row) : Prop :=
  if fmt = "fasta" then True
  else if fmt = "fastq" then Rect 3 rows
  else if fmt = "fasta2" then Rect 2 rows
  else ∃ n, 0 < n ∧ Rect n (prep fmt rows)

theorem Rect_sub {n : Nat} {rows sub : List Row} (h : Rect n rows) (hs : ∀ r ∈ sub, r ∈ rows) : Rect n sub :=
  fun r hr => h r (hs r hr)

theorem WF_sub (fmt : String) (rows sub : List Row) (h : WF fmt rows) (hs : ∀ r ∈ sub, r ∈ rows) : WF fmt sub := by
  unfold WF at h ⊢
  split
  · trivial
  · split
    · rw [if_neg (by assumption), if_pos (by assumption)] at h
      exact Rect_sub h hs
    · split
      · rw [if_neg (by assumption), if_neg (by assumption), if_pos (by assumption)] at h
        exact Rect_sub h hs
      · rw [if_neg (by assumption), if_neg (by assumption), if_neg (by assumption)] at h
        obtain ⟨n, hn, hr⟩ := h
        refine ⟨n, hn, ?_⟩
        intro r hr'
        unfold prep at hr' hr
        obtain ⟨r0, hr0, rfl⟩ := List.mem_map.mp hr'
        exact hr _ (List.mem_map.mpr ⟨r0, hs r0 hr0, rfl⟩)

theorem joinFields2 (rows : List Row) (h : Rect 2 rows) :
    joinFields 62 [1, 0] (rows.map (·.map cellText)) = (entriesOf rows).flatMap (fun e => 62 :: e.1 ++ [10] ++ e.2 ++ [10]) := by
  induction rows with
  | nil => rfl
  | cons r rest ih =>
    have hr : r.length = 2 := h r (by simp)
    obtain ⟨a, b, rfl⟩ : ∃ a b, r = [a, b] := by
      match r, hr with
      | [a, b], _ => exact ⟨a, b, rfl⟩
    have ih' := ih (fun r' hr' => h r' (by simp [hr']))
    simp only [joinFields, entriesOf, List.map_cons, List.flatMap_cons] at ih' ⊢
    rw [ih']
    simp

/-- **dumpModel_eq_dumpCanon.** On the tables it is specified for, the bytes of every format's writer model — run
with the constants measured on the package — are the canonical serialisation of the format. -/
theorem dumpModel_eq_dumpCanon (fmt : String) (rows : List Row) (h : WF fmt rows) :
    dumpModel Gen.C03.consts fmt rows = dumpCanon fmt rows := by
  unfold WF at h
  unfold dumpModel dumpCanon
  have hW : Gen.C03.consts.fastaWidth = 80 := gen_fasta_wrap.1
  have hq : Gen.C03.consts.fastqMarker = 64 := gen_fastq.1
  have ho : Gen.C03.consts.fastqOffsets = [1, 0, 0, 0] := gen_fastq.2.1
  have hm : Gen.C03.consts.fastaMarker = 62 := gen_fastq.2.2.2
  split
  · rw [hW]
    split
    · rename_i hr; subst hr; rfl
    · exact fasta_layout 80 (by decide) _
  · split
    · rw [if_neg (by assumption), if_pos (by assumption)] at h
      rw [hq, ho]
      exact fastq_layout rows h
    · split
      · rw [if_neg (by assumption), if_neg (by assumption), if_pos (by assumption)] at h
        rw [hm]
        exact joinFields2 rows h
      · rw [if_neg (by assumption), if_neg (by assumption), if_neg (by assumption)] at h
        obtain ⟨n, hn, hr⟩ := h
        simp only
        cases hp : prep fmt rows with
        | nil => simp [dumpDelimited, dumpSpec]
        | cons r0 rest =>
          rw [hp] at hr
          have h0 : r0.length = n := hr r0 (by simp)
          simp only [List.head?_cons, Option.map_some, Option.getD_some, h0]
          exact dump_canonical n hn _ hr

theorem dumpCanon_additive (fmt : String) : Additive (dumpCanon fmt) := by
  constructor
  · unfold dumpCanon
    split
    · rfl
    · split
      · rfl
      · split <;> rfl
  · intro a b
    unfold dumpCanon
    split
    · simp [fastaSpec, entriesOf]
    · split
      · simp [fastqSpec]
      · split
        · simp [entriesOf]
        · simp [prep, dumpSpec]

/-- the column count of the delimited serialiser comes from the first record, so — as a function on ALL tables — it is
not additive: `Additive` is only available for the canonical serialisation, and for the writer on `WF` tables -/
theorem dumpModel_not_additive : ¬ Additive (dumpModel Gen.C03.consts "bed3") := by
  intro h
  have := h.2 [[Cell.text [97]]] [[Cell.text [98], Cell.text [99]]]
  revert this
  decide

theorem writeAll_congr (hdr : Bytes) (d1 d2 : List Row → Bytes) (pa : Bool) (st : WState) (ts : List (List Row))
    (h : ∀ t ∈ ts, d1 t = d2 t) : writeAll hdr d1 pa st ts = writeAll hdr d2 pa st ts := by
  induction ts generalizing st with
  | nil => rfl
  | cons t rest ih =>
    have ht := h t (by simp)
    have hstep : writeStep hdr d1 pa st t = writeStep hdr d2 pa st t := by
      unfold writeStep
      simp only [ht]
    simp only [writeAll, hstep]
    rw [ih _ (fun t' ht' => h t' (by simp [ht']))]

theorem runAll_congr (hdr : Bytes) (d1 d2 : List Row → Bytes) (acc : Bytes) (ss : List Sess)
    (h : ∀ s ∈ ss, ∀ t ∈ s.pieces, d1 t = d2 t) : runAll hdr d1 acc ss = runAll hdr d2 acc ss := by
  induction ss generalizing acc with
  | nil => rfl
  | cons s rest ih =>
    have hs : runSess hdr d1 acc s = runSess hdr d2 acc s := by
      unfold runSess writeStream
      simp only [writeAll_congr hdr d1 d2 false _ s.pieces (h s (by simp))]
    simp only [runAll, hs]
    exact ih _ (fun s' hs' => h s' (by simp [hs']))

theorem mem_flatten_calls (ss : List Sess) (s : Sess) (hs : s ∈ ss) (t : List Row) (ht : t ∈ s.pieces) :
    ∀ r ∈ t, r ∈ (ss.flatMap Sess.calls).flatten := by
  intro r hr
  simp only [List.mem_flatten, List.mem_flatMap]
  exact ⟨t, ⟨s, hs, ht⟩, hr⟩

/-- **sessions_compose_writer.** For every format and every sequence of writers on one target (first 'w' or 'a', later
ones 'a'; `write` calls or streams; any split, empty pieces included) whose rows taken together form a table the
format's writer is specified for: the bytes the WRITER MODEL leaves are the header exactly once in front (iff a call
was made) followed by the canonical serialisation of the concatenated table — which is also what ONE call of the
writer model on the concatenated table produces. -/
theorem sessions_compose_writer (fmt : String) (hdr : Bytes) (ss : List Sess)
    (htail : ∀ s ∈ ss.tail, s.mode = Mode.append) (hwf : WF fmt (ss.flatMap Sess.calls).flatten) :
    runAll hdr (dumpModel Gen.C03.consts fmt) [] ss
      = (if ss.flatMap Sess.calls = [] then [] else hdr) ++ dumpCanon fmt (ss.flatMap Sess.calls).flatten ∧
    dumpCanon fmt (ss.flatMap Sess.calls).flatten = dumpModel Gen.C03.consts fmt (ss.flatMap Sess.calls).flatten := by
  constructor
  · rw [runAll_congr hdr (dumpModel Gen.C03.consts fmt) (dumpCanon fmt) [] ss (fun s hs t ht =>
      dumpModel_eq_dumpCanon fmt t (WF_sub fmt _ t hwf (mem_flatten_calls ss s hs t ht)))]
    exact sessions_compose hdr (dumpCanon fmt) (dumpCanon_additive fmt) ss htail
  · exact (dumpModel_eq_dumpCanon fmt _ hwf).symm

/-- **writes_compose_writer.** One writer opened with 'w', any cut of a specified table into successive calls. -/
theorem writes_compose_writer (fmt : String) (hdr : Bytes) (e : Bool) (ts : List (List Row)) (hwf : WF fmt ts.flatten) :
    writeAll hdr (dumpModel Gen.C03.consts fmt) false (initState .write e) ts
      = (if ts = [] then [] else hdr) ++ dumpModel Gen.C03.consts fmt ts.flatten := by
  rw [writeAll_congr hdr (dumpModel Gen.C03.consts fmt) (dumpCanon fmt) false _ ts (fun t ht =>
      dumpModel_eq_dumpCanon fmt t (WF_sub fmt _ t hwf (fun r hr => List.mem_flatten.mpr ⟨t, ht, hr⟩))),
    writes_compose hdr (dumpCanon fmt) (dumpCanon_additive fmt) e ts, dumpModel_eq_dumpCanon fmt _ hwf]

-- non-vacuity: a BED6-like table cut into two calls, a VCF table (POS shifted), a FASTQ table
example : WF "bed3" [[Cell.text [99], Cell.int 1, Cell.int 5], [Cell.text [100], Cell.int 7, Cell.int 9]] :=
  by unfold WF; simp only [show ("bed3" = "fasta") = False by decide, show ("bed3" = "fastq") = False by decide,
       show ("bed3" = "fasta2") = False by decide, if_false]; exact ⟨3, by decide, by decide⟩
example : WF "fastq" [[Cell.text [114], Cell.text [65], Cell.qual [40]]] := by
  unfold WF; simp only [show ("fastq" = "fasta") = False by decide, if_false, if_true]; decide


theorem shiftPos_inv (r : Row) : shiftPos (-1) (shiftPos 1 r) = r := by
  match r with
  | [] => rfl
  | [_] => rfl
  | c0 :: Cell.int p :: rest => simp only [shiftPos]; congr 2; congr 1; omega
  | _ :: Cell.text _ :: _ => rfl
  | _ :: Cell.ints _ :: _ => rfl
  | _ :: Cell.qual _ :: _ => rfl

theorem shiftPos_ok (d : Int) (r : Row) (h : ∀ c ∈ r, cellOK c) : ∀ c ∈ shiftPos d r, cellOK c := by
  match r with
  | [] => exact h
  | [_] => exact h
  | c0 :: Cell.int p :: rest =>
    intro c hc
    simp only [shiftPos, List.mem_cons] at hc
    rcases hc with rfl | rfl | hc
    · exact h _ (by simp)
    · trivial
    · exact h c (by simp [hc])
  | _ :: Cell.text _ :: _ => exact h
  | _ :: Cell.ints _ :: _ => exact h
  | _ :: Cell.qual _ :: _ => exact h

/-- **vcf_roundtrip.** VCF through write and read: for every table of legal cells whose records (position shifted by
the writer) all have the same `n ≥ 1` cells, the strict reference reader applied to the bytes of the VCF writer model,
followed by the reader's position shift (tabulated from the running code, `Gen.C02.vcfPosShift`), returns the table —
positions included, every other cell untouched. -/
theorem vcf_roundtrip (rows : List Row) (n : Nat) (hn : 0 < n) (hrect : Rect n (prep "vcf" rows))
    (hok : ∀ r ∈ rows, ∀ c ∈ r, cellOK c) :
    (readTable (prep "vcf" rows) (dumpModel Gen.C03.consts "vcf" rows)).map (·.map (shiftPos Gen.C02.vcfPosShift))
      = some rows := by
  have hwf : WF "vcf" rows := by
    unfold WF
    simp only [show ("vcf" = "fasta") = False by decide, show ("vcf" = "fastq") = False by decide,
      show ("vcf" = "fasta2") = False by decide, if_false]
    exact ⟨n, hn, hrect⟩
  have hcanon : dumpModel Gen.C03.consts "vcf" rows = dumpDelimited n (prep "vcf" rows) := by
    rw [dumpModel_eq_dumpCanon "vcf" rows hwf, dump_canonical n hn _ hrect]
    simp [dumpCanon]
  have hok' : ∀ r ∈ prep "vcf" rows, ∀ c ∈ r, cellOK c := by
    intro r hr
    unfold prep at hr
    obtain ⟨r0, hr0, rfl⟩ := List.mem_map.mp hr
    simp only [prepRow, show isVcf "vcf" = true by decide, if_true]
    exact shiftPos_ok 1 r0 (hok r0 hr0)
  rw [hcanon, roundtrip n hn _ hrect hok', C02.gen_shifts.1]
  simp only [Option.map_some, Option.some.injEq, prep, List.map_map]
  conv => rhs; rw [← List.map_id rows]
  apply List.map_congr_left
  intro r _
  simp only [Function.comp, prepRow, show isVcf "vcf" = true by decide, if_true, id]
  exact shiftPos_inv r

example : Rect 3 (prep "vcf" [[Cell.text [99], Cell.int 6, Cell.text [65]]]) := by decide

/-- **cutAt_flatten.** Cutting a table at increasing positions loses and duplicates nothing: the pieces put together
are the table (from the first position on). -/
theorem cutAt_flatten {α} (rows : List α) (prev : Nat) (cuts : List Nat)
    (hs : List.Pairwise (· ≤ ·) (prev :: cuts)) : (cutAt rows prev cuts).flatten = rows.drop prev := by
  induction cuts generalizing prev with
  | nil => simp [cutAt]
  | cons c cs ih =>
    have hpc : prev ≤ c := (List.pairwise_cons.mp hs).1 c (by simp)
    have hs' : List.Pairwise (· ≤ ·) (c :: cs) := (List.pairwise_cons.mp hs).2
    simp only [cutAt, List.flatten_cons, ih c hs']
    conv => rhs; rw [← List.take_append_drop c rows, List.drop_append]
    congr 1
    by_cases hlen : prev ≤ (rows.take c).length
    · rw [Nat.sub_eq_zero_of_le hlen]; rfl
    · have : rows.length < c := by
        rw [List.length_take] at hlen
        omega
      rw [List.drop_eq_nil_of_le (by omega)]
      simp

example : (cutAt [1, 2, 3, 4, 5] 0 [0, 2, 2, 4]).flatten = [1, 2, 3, 4, 5] := by decide

end C03
