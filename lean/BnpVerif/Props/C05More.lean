import BnpVerif.Props.C05Laws
/-! C05 — (1) programs without replacement / attribute assignment never create an overlay, so every lazy write is the
pass-through of the selected source records (C04's rule inside the register machine); (2) the buffer abstraction connected to
the model's own `Lazy.index` / `concatNew`; (3) a table read in chunks and concatenated is the table read whole; (4) the domain
guard on replacement sizes is necessary. -/
namespace C05
open PyIdx

/-! ### (1) untouched tables stay untouched; their writes are the source bytes -/

/-- operations that do not modify a column -/
def Op.pure : Op → Bool
  | .replace _ _ _ => false
  | .setattr _ _ _ => false
  | _ => true

/-- the register file of plain row lists the lazy registers' buffers follow -/
def stepBuf (op : Op) (bufs : List (List FRow)) : List (List FRow) :=
  match op with
  | .index a d ix => match bufs[a]? with
    | some b => match pyIndex b ix with
      | some b' => bufs.set d b'
      | none => bufs
    | none => bufs
  | .cat a b => match bufs[a]?, bufs[b]? with
    | some x, some y => bufs.set a (x ++ y)
    | _, _ => bufs
  | _ => bufs

/-- what an untouched table writes: the original bytes of its records -/
def writeObs (bufs : List (List FRow)) (a : Nat) : Obs :=
  match bufs[a]? with
  | some b => .bytes (b.map (·.raw)).flatten
  | none => .err

/-- the write observations of a program over plain row lists -/
def writeTrace : List Op → List (List FRow) → List Obs
  | [], _ => []
  | op :: ops, bufs => (match op with | .write a => writeObs bufs a | _ => Obs.unit) :: writeTrace ops (stepBuf op bufs)

/-- keep only the observations of write steps -/
def onlyWrites : List Op → List Obs → List Obs
  | op :: ops, o :: os => (if op.isWrite then o else Obs.unit) :: onlyWrites ops os
  | _, _ => []

def Untouched (l : Lazy) : Prop := Coh l ∧ l.set = []

theorem coh_select (l : Lazy) (hc : Coh l) (ixs : List Nat) : Coh (l.select ixs) := by
  intro g c hg
  simp only [Lazy.select, lookup_mapVals] at hg
  cases hcm : lookup l.computed g with
  | none => simp [hcm] at hg
  | some c0 =>
    simp [hcm] at hg; subst hg
    rw [hc g c0 hcm]; exact (fileCol_gather l.buf g ixs).symm

theorem map_set_buf (rs : List Lazy) (a : Nat) (l' : Lazy) : (rs.set a l').map (·.buf) = (rs.map (·.buf)).set a l'.buf := by
  simp [List.map_set]

theorem set_same_buf (rs : List Lazy) (a : Nat) (l l' : Lazy) (hl : rs[a]? = some l) (hb : l'.buf = l.buf) :
    (rs.set a l').map (·.buf) = rs.map (·.buf) := by
  rw [map_set_buf, hb]
  exact set_self_of_getElem? _ _ _ (by simp [List.getElem?_map, hl])

theorem mem_set_untouched (rs : List Lazy) (h : ∀ l ∈ rs, Untouched l) (a : Nat) (l' : Lazy) (hl' : Untouched l') :
    ∀ l ∈ rs.set a l', Untouched l := by
  intro l hmem
  rcases List.mem_or_eq_of_mem_set hmem with h1 | h1
  · exact h l h1
  · subst h1; exact hl'

theorem dataObject_untouched (nF : Nat) (l : Lazy) (h : Untouched l) :
    Untouched (l.dataObject nF).2 ∧ (l.dataObject nF).2.buf = l.buf := by
  unfold Lazy.dataObject
  cases hd : l.data with
  | some d => exact ⟨h, rfl⟩
  | none =>
    obtain ⟨_, g2, g3, g4, _, _⟩ := getAll_spec nF 0 l h.1
    refine ⟨⟨?_, ?_⟩, ?_⟩
    · intro f c hf; exact g2 f c hf
    · simp only; rw [g3]; exact h.2
    · simp only; exact g4

theorem concat_untouched (nF : Nat) (la lb : Lazy) (ha : Untouched la) (hb : Untouched lb) :
    ∃ r, concatNew nF false [la, lb] = some (r, [la, lb]) ∧ Untouched r ∧ r.buf = la.buf ++ lb.buf := by
  have hnames : (List.range nF).filter (fun name => false || [la, lb].any (fun a => (lookup a.set name).isSome)) = [] := by
    rw [List.filter_eq_nil_iff]
    intro n _
    simp [ha.2, hb.2, lookup]
  obtain ⟨r, hr, c1, _, _, c4, _⟩ := concatNew_spec nF false [la, lb] (by simp)
    (by intro x hx; simp at hx; rcases hx with rfl | rfl; exact ha.1; exact hb.1)
    (by intro x hx f c hf; simp at hx; rcases hx with rfl | rfl
        · rw [ha.2] at hf; simp [lookup] at hf
        · rw [hb.2] at hf; simp [lookup] at hf)
  rw [hnames] at hr
  have hr' : concatNew nF false [la, lb] = some (r, [la, lb]) := by rw [hr]; rfl
  refine ⟨r, hr', ⟨c1, ?_⟩, by rw [c4]; simp⟩
  have hset : ∀ x, concatNew nF false [la, lb] = some x → x.1.set = [] := by
    intro x hx
    unfold concatNew at hx
    simp only [hnames, concatSet, Option.some.injEq] at hx
    rw [← hx]
  exact hset _ hr'

/-- one step of an operation that modifies no column: the registers stay untouched, their buffers follow the plain
row-list machine, and a write hands out the source bytes of the selected records -/
theorem pure_step (k : Cfg) (hfc : k.fixedConcat = true) (hbc : k.bufferConcat = true) (op : Op) (hp : op.pure = true)
    (rs : List Lazy) (h : ∀ l ∈ rs, Untouched l) :
    (∀ l ∈ (stepLazy k op rs).2, Untouched l) ∧
    (stepLazy k op rs).2.map (·.buf) = stepBuf op (rs.map (·.buf)) ∧
    (∀ a, op = .write a → (stepLazy k op rs).1 = writeObs (rs.map (·.buf)) a) := by
  cases op with
  | len a =>
    refine ⟨?_, ?_, fun a' e => by cases e⟩ <;> (simp only [stepLazy]; cases rs[a]? <;> first | exact h | rfl)
  | get a f =>
    refine ⟨?_, ?_, fun a' e => by cases e⟩
    · simp only [stepLazy]
      cases hl : rs[a]? with
      | none => exact h
      | some l =>
        simp only
        split
        · obtain ⟨p1, p2, _⟩ := get_snd_props l (h l (List.mem_of_getElem? hl)).1 f
          exact mem_set_untouched rs h a _ ⟨p1, by rw [p2]; exact (h l (List.mem_of_getElem? hl)).2⟩
        · exact h
    · simp only [stepLazy, stepBuf]
      cases hl : rs[a]? with
      | none => rfl
      | some l =>
        simp only
        split
        · obtain ⟨_, _, p3, _⟩ := get_snd_props l (h l (List.mem_of_getElem? hl)).1 f
          exact set_same_buf rs a l _ hl p3
        · rfl
  | index a d ix =>
    have hidx : ∀ l : Lazy, (l.index ix).map (·.buf) = pyIndex l.buf ix := by
      intro l; unfold Lazy.index pyIndex Lazy.len
      cases ix.toList l.buf.length <;> rfl
    refine ⟨?_, ?_, fun a' e => by cases e⟩
    · simp only [stepLazy]
      cases hl : rs[a]? with
      | none => exact h
      | some l =>
        simp only
        cases hli : l.index ix with
        | none => exact h
        | some l' =>
          simp only
          apply mem_set_untouched rs h d
          unfold Lazy.index at hli
          cases hix : ix.toList l.len with
          | none => simp [hix] at hli
          | some ixs =>
            simp [hix] at hli; subst hli
            exact ⟨coh_select l (h l (List.mem_of_getElem? hl)).1 ixs, by simp [Lazy.select, (h l (List.mem_of_getElem? hl)).2, mapVals]⟩
    · simp only [stepLazy, stepBuf, List.getElem?_map]
      cases hl : rs[a]? with
      | none => rfl
      | some l =>
        simp only [Option.map_some]
        have := hidx l
        cases hli : l.index ix with
        | none => rw [hli] at this; simp only [Option.map_none] at this; rw [← this]
        | some l' =>
          rw [hli] at this; simp only [Option.map_some] at this
          rw [← this]; simp only
          exact map_set_buf rs d l'
  | row a i =>
    refine ⟨?_, ?_, fun a' e => by cases e⟩ <;>
      (simp only [stepLazy]; cases rs[a]? with
        | none => first | exact h | rfl
        | some l => simp only; cases norm l.len i <;> first | exact h | rfl)
  | cat a b =>
    have haf : (!k.bufferConcat) = false := by rw [hbc]; rfl
    refine ⟨?_, ?_, fun a' e => by cases e⟩
    · simp only [stepLazy, hfc, if_true, haf]
      cases hla : rs[a]? with
      | none => exact h
      | some la =>
        cases hlb : rs[b]? with
        | none => exact h
        | some lb =>
          obtain ⟨r, hr, hu, _⟩ := concat_untouched k.nF la lb (h la (List.mem_of_getElem? hla)) (h lb (List.mem_of_getElem? hlb))
          simp only [hr]
          apply mem_set_untouched _ _ a r hu
          split
          · exact h
          · exact mem_set_untouched rs h b lb (h lb (List.mem_of_getElem? hlb))
    · simp only [stepLazy, stepBuf, hfc, if_true, haf, List.getElem?_map]
      cases hla : rs[a]? with
      | none => rfl
      | some la =>
        cases hlb : rs[b]? with
        | none => rfl
        | some lb =>
          obtain ⟨r, hr, _, hbuf⟩ := concat_untouched k.nF la lb (h la (List.mem_of_getElem? hla)) (h lb (List.mem_of_getElem? hlb))
          simp only [hr, Option.map_some]
          rw [set_self_of_getElem? rs b lb hlb]
          have : (if (a == b) = true then rs else rs) = rs := by split <;> rfl
          rw [this, map_set_buf, hbuf]
  | replace a d kw => simp [Op.pure] at hp
  | setattr a f c => simp [Op.pure] at hp
  | tolist a =>
    refine ⟨?_, ?_, fun a' e => by cases e⟩
    · simp only [stepLazy]
      cases hl : rs[a]? with
      | none => exact h
      | some l =>
        simp only
        exact mem_set_untouched rs h a _ (dataObject_untouched k.nF l (h l (List.mem_of_getElem? hl))).1
    · simp only [stepLazy, stepBuf]
      cases hl : rs[a]? with
      | none => rfl
      | some l =>
        simp only
        exact set_same_buf rs a l _ hl (dataObject_untouched k.nF l (h l (List.mem_of_getElem? hl))).2
  | write a =>
    refine ⟨?_, ?_, ?_⟩
    · simp only [stepLazy]
      cases hl : rs[a]? with
      | none => exact h
      | some l => simp only; split <;> exact h
    · simp only [stepLazy, stepBuf]
      cases hl : rs[a]? with
      | none => rfl
      | some l => simp only; split <;> rfl
    · intro a' e
      cases e
      simp only [stepLazy, writeObs, List.getElem?_map]
      cases hl : rs[a]? with
      | none => rfl
      | some l =>
        have hs := (h l (List.mem_of_getElem? hl)).2
        simp [hs, Lazy.write]

/-- **C05.untouched_writes** — C04's rule inside the lazy register machine: for EVERY program without `replace` / attribute
assignment over delimited tables (buffer type with `concatenate`), starting from untouched registers — tables as read from files —
every `write` step hands out exactly the ORIGINAL BYTES of the records the same program selects on plain lists of file rows
(whatever was read, cached, indexed, concatenated or materialised in between; whatever `supports_modified_write` says) -/
theorem untouched_writes (k : Cfg) (hfc : k.fixedConcat = true) (hbc : k.bufferConcat = true) (ops : List Op)
    (hp : ∀ op ∈ ops, op.pure = true) :
    ∀ (rs : List Lazy), (∀ l ∈ rs, Untouched l) → onlyWrites ops (runLazy k ops rs) = writeTrace ops (rs.map (·.buf)) := by
  induction ops with
  | nil => intro rs _; rfl
  | cons op ops ih =>
    intro rs h
    obtain ⟨s1, s2, s3⟩ := pure_step k hfc hbc op (hp op (by simp)) rs h
    simp only [runLazy, onlyWrites, writeTrace]
    rw [ih (fun o ho => hp o (by simp [ho])) _ s1, s2]
    congr 1
    cases op with
    | write a => simp [Op.isWrite, s3 a rfl]
    | _ => simp [Op.isWrite]

theorem untouched_ofFile (buf : List FRow) : Untouched (Lazy.ofFile buf) := ⟨(R_ofFile 0 buf).1, rfl⟩

theorem ofFile_bufs (bufs : List (List FRow)) : (bufs.map Lazy.ofFile).map (·.buf) = bufs := by
  induction bufs with
  | nil => rfl
  | cons b bs ih => simp only [List.map_cons, ih]; rfl

/-- **C05.untouched_writes_files** — the same from files: the registers are the tables as read -/
theorem untouched_writes_files (k : Cfg) (hfc : k.fixedConcat = true) (hbc : k.bufferConcat = true) (ops : List Op)
    (hp : ∀ op ∈ ops, op.pure = true) (bufs : List (List FRow)) :
    onlyWrites ops (runLazy k ops (bufs.map Lazy.ofFile)) = writeTrace ops bufs := by
  have := untouched_writes k hfc hbc ops hp (bufs.map Lazy.ofFile) (by
    intro l hl; simp only [List.mem_map] at hl; obtain ⟨b, _, rfl⟩ := hl; exact untouched_ofFile b)
  rw [this, ofFile_bufs]


/-! ### (2) the buffer abstraction meets the model's own operations -/

/-- **C05.lazy_index_buffer** — `LazyBNPDataClass.__getitem__` over an item getter whose buffer is the pass-through extractor `e`:
the rows of the resulting lazy table are the rows the INDEXED EXTRACTOR denotes (`Lazy.index` and `C04.Ext.index` commute
with the abstraction `rowsOfExt`), and it fails exactly when the extractor's indexing fails -/
theorem lazy_index_buffer (parse : C04.Rec → FRow) (e : C04.Ext) (h : C04.LenWF e) (l : Lazy) (hl : l.buf = rowsOfExt parse e)
    (ix : Idx) : (l.index ix).map (·.buf) = (e.index ix).map (rowsOfExt parse) := by
  rw [buffer_index_refines parse e h ix, ← hl]
  unfold Lazy.index pyIndex Lazy.len
  cases ix.toList l.buf.length <;> rfl

/-- **C05.lazy_concat_buffer** — `np.concatenate` of lazy tables over extractors: the rows of the result are the rows the
CONCATENATED EXTRACTOR (`TextThroughputExtractor.concatenate`) denotes -/
theorem lazy_concat_buffer (parse : C04.Rec → FRow) (es : List C04.Ext) (hwf : ∀ e ∈ es, C04.WF e) (nF : Nat) (af : Bool)
    (ls : List Lazy) (hne : ls ≠ []) (hc : ∀ a ∈ ls, Coh a) (ha : ∀ a ∈ ls, Aligned a)
    (hb : ls.map (·.buf) = es.map (rowsOfExt parse)) :
    ∃ r rest, concatNew nF af ls = some (r, rest) ∧ r.buf = rowsOfExt parse (C04.Ext.concat es) := by
  obtain ⟨r, hr, _, _, _, c4, _⟩ := concatNew_spec nF af ls hne hc ha
  exact ⟨r, _, hr, by rw [c4, hb, buffer_concat_refines parse es hwf]⟩

/-! ### (3) reading in chunks -/

theorem fileCol_append (a b : List FRow) (f : Nat) : fileCol (a ++ b) f = fileCol a f ++ fileCol b f := by
  simp [fileCol]

/-- **C05.chunked_read** — a file read in two chunks and concatenated (`np.concatenate(list(read_chunks()))`) IS the file read
whole: the lazy concatenation of the chunk tables is related (by the bisimulation `R`) to the eager table of the whole file,
its rows are the file's rows, and the eager concatenation of the eager chunk tables is the eager whole-file table — so by
`programs` / `programs_values` every later observation agrees with the whole-file eager table -/
theorem chunked_read (nF : Nat) (af : Bool) (c1 c2 : List FRow) :
    ∃ r ls', concatNew nF af [Lazy.ofFile c1, Lazy.ofFile c2] = some (r, ls') ∧
      R nF r (Eager.ofFile nF (c1 ++ c2)) ∧ r.buf = c1 ++ c2 ∧
      Eager.concat [Eager.ofFile nF c1, Eager.ofFile nF c2] = some (Eager.ofFile nF (c1 ++ c2)) := by
  obtain ⟨r, la', lb', hcat, hrr, _, _, hec⟩ := step_concat nF af _ _ _ _ (R_ofFile nF c1) (R_ofFile nF c2)
  obtain ⟨r', hr', _, _, _, c4, _⟩ := concatNew_spec nF af [Lazy.ofFile c1, Lazy.ofFile c2] (by simp)
    (by intro x hx; simp at hx; rcases hx with rfl | rfl; exact (R_ofFile nF c1).1; exact (R_ofFile nF c2).1)
    (by intro x hx; simp at hx; rcases hx with rfl | rfl; exact (R_ofFile nF c1).2.1; exact (R_ofFile nF c2).2.1)
  have hcols : appendCols (Eager.ofFile nF c1).cols (Eager.ofFile nF c2).cols = (Eager.ofFile nF (c1 ++ c2)).cols := by
    unfold Eager.ofFile
    simp only
    rw [List.range_eq_range', appendCols_map]
    apply List.map_congr_left
    intro f _
    exact (fileCol_append c1 c2 f).symm
  have hE : (⟨appendCols (Eager.ofFile nF c1).cols (Eager.ofFile nF c2).cols⟩ : Eager) = Eager.ofFile nF (c1 ++ c2) := by
    rw [hcols]
  rw [hE] at hrr hec
  refine ⟨r, _, hcat, hrr, ?_, hec⟩
  rw [hcat] at hr'
  simp only [Option.some.injEq, Prod.mk.injEq] at hr'
  rw [hr'.1, c4]
  simp [Lazy.ofFile]

/-- **C05.chunked_read_programs** — hence: any program run on the chunk-read lazy table and on the whole-read eager table gives
the same observations (payload of writes masked; byte-for-byte on canonical files via `programs`) -/
theorem chunked_read_programs (k : Cfg) (hn : 0 < k.nF) (hfc : k.fixedConcat = true) (hfs : k.fixedSetattr = true)
    (hmw : k.modWrite = true) (hew : k.eagerWrite = true) (c1 c2 : List FRow) (ops : List Op) :
    ∃ r ls', concatNew k.nF (!k.bufferConcat) [Lazy.ofFile c1, Lazy.ofFile c2] = some (r, ls') ∧
      (RunOK k ops [r] → maskPayload (runLazy k ops [r]) = maskPayload (runEager k ops [Eager.ofFile k.nF (c1 ++ c2)])) := by
  obtain ⟨r, ls', h1, h2, _, _⟩ := chunked_read k.nF (!k.bufferConcat) c1 c2
  refine ⟨r, ls', h1, fun hok => ?_⟩
  apply programs_values k hn hfc hfs hmw hew ops [r] [Eager.ofFile k.nF (c1 ++ c2)] _ hok
  refine ⟨rfl, ?_⟩
  intro i l e hl he
  cases i with
  | zero => simp at hl he; subst hl; subst he; exact h2
  | succ i => simp at hl

/-! ### (4) the size guard is the domain of the property, and it is necessary -/

/-- **C05.illsized_setattr_diverges** — outside `RunOK` (a one-value column assigned to a two-row table) the model's two sides
show different rows, as the real tables do (the real lazy table fails at `tolist`, the real eager one zips to the shortest column):
replacement columns of the wrong length are a caller error the property does not cover -/
theorem illsized_setattr_diverges :
    runLazy demoCfg [.setattr 0 0 [[55]], .tolist 0] [Lazy.ofFile [demoRow 49 50, demoRow 51 52]] ≠
      runEager demoCfg [.setattr 0 0 [[55]], .tolist 0] [Eager.ofFile 2 [demoRow 49 50, demoRow 51 52]] ∧
    runOKb demoCfg [.setattr 0 0 [[55]], .tolist 0] [Lazy.ofFile [demoRow 49 50, demoRow 51 52]] = false := by
  decide +kernel

/-- a field number outside the entry type fails on both sides (no guard needed) -/
example : runLazy demoCfg [.get 0 7] [Lazy.ofFile [demoRow 49 50]] = [.err] ∧
    runEager demoCfg [.get 0 7] [Eager.ofFile 2 [demoRow 49 50]] = [.err] := by decide +kernel


/-! ### (5) which of the two machines a read gives: the documented switches and their precedence -/

/-- **C05.shouldBeLazy_precedence** — the predicate of the code is the documented rule: the `lazy=` keyword wins, without it the
global `config.LAZY` decides, and an excluded buffer type is never lazy (all 12 combinations) -/
theorem shouldBeLazy_precedence (cfgLazy : Bool) (kw : Option Bool) (excluded : Bool) :
    shouldBeLazy cfgLazy kw excluded = ((kw.getD cfgLazy) && !excluded) := by
  cases cfgLazy <;> cases excluded <;> cases kw with
  | none => rfl
  | some b => cases b <;> rfl

end C05
