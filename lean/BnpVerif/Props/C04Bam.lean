import BnpVerif.Props.C04Sam
/-! C04 — the BAM construction (`BamBuffer._find_starts` + `from_raw_buffer`) for ALL record lists:
a decompressed BAM body is a sequence of `block_size`-prefixed records. -/
namespace C04
open PyIdx

/-- little-endian 32-bit encoding of the block size -/
def enc32 (n : Nat) : Bytes := [n % 256, n / 256 % 256, n / 65536 % 256, n / 16777216 % 256]

/-- one BAM record: `block_size` then the body -/
def bamBlock (body : Bytes) : Bytes := enc32 body.length ++ body
def dumpBam (bodies : List Bytes) : Bytes := (bodies.map bamBlock).flatten

def bamOffsets : Nat → List Bytes → List Nat
  | k, [] => [k]
  | k, b :: bs => k :: bamOffsets (k + (bamBlock b).length) bs

theorem byteAt_append_right (A B : Bytes) (i : Nat) : byteAt (A ++ B) (A.length + i) = byteAt B i := by
  unfold byteAt
  simp [List.getD_eq_getElem?_getD, List.getElem?_append_right]

theorem le32_enc (Pfx rest : Bytes) (n : Nat) (hn : n < 4294967296) : le32 (Pfx ++ (enc32 n ++ rest)) Pfx.length = n := by
  unfold le32
  have h0 := byteAt_append_right Pfx (enc32 n ++ rest) 0
  have h1 := byteAt_append_right Pfx (enc32 n ++ rest) 1
  have h2 := byteAt_append_right Pfx (enc32 n ++ rest) 2
  have h3 := byteAt_append_right Pfx (enc32 n ++ rest) 3
  rw [Nat.add_zero] at h0
  rw [h0, h1, h2, h3]
  simp only [enc32, byteAt, List.cons_append, List.getD_cons_zero, List.getD_cons_succ]
  omega

theorem bamBlock_length (b : Bytes) : (bamBlock b).length = 4 + b.length := by
  simp [bamBlock, enc32]; omega

theorem bamStarts_dump (bodies : List Bytes) (hb : ∀ b ∈ bodies, b.length < 4294967296) :
    ∀ (Pfx : Bytes) (fuel : Nat), bodies.length < fuel →
      bamStarts (Pfx ++ dumpBam bodies) fuel Pfx.length = bamOffsets Pfx.length bodies := by
  induction bodies with
  | nil =>
    intro Pfx fuel hf
    cases fuel with
    | zero => omega
    | succ f =>
      simp only [bamStarts, dumpBam, bamOffsets, List.map_nil, List.flatten_nil, List.append_nil, Nat.le_refl, if_true]
      have : ¬ (Pfx.length + 4 ≤ Pfx.length) := by omega
      simp [this]
  | cons b bs ih =>
    intro Pfx fuel hf
    cases fuel with
    | zero => omega
    | succ f =>
      have hlen : (Pfx ++ dumpBam (b :: bs)).length = Pfx.length + (4 + b.length) + (dumpBam bs).length := by
        simp [dumpBam, bamBlock_length]; omega
      have hle := le32_enc Pfx (b ++ dumpBam bs) b.length (hb b (by simp))
      have hdata : Pfx ++ dumpBam (b :: bs) = Pfx ++ (enc32 b.length ++ (b ++ dumpBam bs)) := by
        simp [dumpBam, bamBlock, List.append_assoc]
      have hdata2 : Pfx ++ dumpBam (b :: bs) = (Pfx ++ bamBlock b) ++ dumpBam bs := by
        simp [dumpBam, List.append_assoc]
      simp only [bamStarts, bamOffsets]
      have c1 : Pfx.length ≤ (Pfx ++ dumpBam (b :: bs)).length := by rw [hlen]; omega
      have c2 : Pfx.length + 4 ≤ (Pfx ++ dumpBam (b :: bs)).length := by rw [hlen]; omega
      simp only [c1, c2, if_true]
      congr 1
      rw [hdata, hle, ← hdata, hdata2]
      have := ih (fun x hx => hb x (by simp [hx])) (Pfx ++ bamBlock b) f (by simp at hf; omega)
      simp only [List.length_append, bamBlock_length] at this ⊢
      have e : Pfx.length + b.length + 4 = Pfx.length + (4 + b.length) := by omega
      rw [e]; exact this

theorem bamOffsets_ne_nil (k : Nat) (bodies : List Bytes) : bamOffsets k bodies ≠ [] := by
  cases bodies <;> simp [bamOffsets]

theorem bamOffsets_head (k : Nat) (bodies : List Bytes) : (bamOffsets k bodies).head? = some k := by
  cases bodies <;> simp [bamOffsets]

theorem bamOffsets_last (k : Nat) (bodies : List Bytes) : (bamOffsets k bodies).getLastD 0 = k + (dumpBam bodies).length := by
  induction bodies generalizing k with
  | nil => simp [bamOffsets, dumpBam]
  | cons b bs ih =>
    have hne := bamOffsets_ne_nil (k + (bamBlock b).length) bs
    simp only [bamOffsets]
    have : (k :: bamOffsets (k + (bamBlock b).length) bs).getLastD 0 = (bamOffsets (k + (bamBlock b).length) bs).getLastD 0 := by
      cases h : bamOffsets (k + (bamBlock b).length) bs with
      | nil => exact absurd h hne
      | cons y ys => simp [List.getLastD]
    rw [this, ih]
    simp [dumpBam]; omega

theorem dumpBam_len_ge (bodies : List Bytes) : bodies.length ≤ (dumpBam bodies).length := by
  induction bodies with
  | nil => simp
  | cons b bs ih => simp only [dumpBam, List.map_cons, List.flatten_cons, List.length_append, bamBlock_length, List.length_cons] at ih ⊢; omega

theorem bam_tile (bodies : List Bytes) (k : Nat) (data : Bytes) (c : Bool) :
    TileOK k (bodies.map bamBlock)
      (Ext.mk data ((bamOffsets k bodies).dropLast.map (fun _ => [])) ((bamOffsets k bodies).dropLast.map (fun _ => []))
        (bamOffsets k bodies).dropLast ((bamOffsets k bodies).drop 1) c).rows := by
  induction bodies generalizing k with
  | nil => simp [bamOffsets, Ext.rows, TileOK]
  | cons b bs ih =>
    have hne := bamOffsets_ne_nil (k + (bamBlock b).length) bs
    have hhd := bamOffsets_head (k + (bamBlock b).length) bs
    have ih' := ih (k + (bamBlock b).length)
    unfold Ext.rows at ih' ⊢
    simp only at ih' ⊢
    simp only [bamOffsets, List.dropLast_cons_of_ne_nil hne, List.drop_succ_cons, List.drop_zero]
    cases hO : bamOffsets (k + (bamBlock b).length) bs with
    | nil => exact absurd hO hne
    | cons o os =>
      rw [hO] at hhd ih'
      simp only [List.head?_cons, Option.some.injEq] at hhd
      subst hhd
      simp only [List.zip_cons_cons, List.zipWith_cons_cons, TileOK, List.map_cons, List.drop_succ_cons, List.drop_zero] at ih' ⊢
      refine ⟨trivial, trivial, trivial, by simp, by simp, ?_⟩
      cases os with
      | nil =>
        cases bs with
        | nil => simp [TileOK]
        | cons b2 bs2 => simp [bamOffsets] at hO; exact absurd hO (bamOffsets_ne_nil _ _)
      | cons o2 os2 => exact ih'

/-- **C04.build_bam_records** — for EVERY list of BAM record bodies (each shorter than 2^32 bytes) the extractor
`BamBuffer.from_raw_buffer` constructs from the decompressed body (`_find_starts` following the block sizes) satisfies the
invariant of the program theorems and its records are exactly the `block_size`-prefixed records, in order -/
theorem build_bam_records (bodies : List Bytes) (hb : ∀ b ∈ bodies, b.length < 4294967296) :
    Inv (buildBam (dumpBam bodies)) ∧ (buildBam (dumpBam bodies)).abs.map (·.raw) = bodies.map bamBlock := by
  have hst : bamStarts (dumpBam bodies) ((dumpBam bodies).length + 1) 0 = bamOffsets 0 bodies := by
    have := bamStarts_dump bodies hb [] ((dumpBam bodies).length + 1) (by have := dumpBam_len_ge bodies; omega)
    simpa using this
  have hlast := bamOffsets_last 0 bodies
  have hdata : (dumpBam bodies).take ((bamOffsets 0 bodies).getLastD 0) = dumpBam bodies := by
    rw [hlast, Nat.zero_add, List.take_length]
  have hb' : buildBam (dumpBam bodies) = Ext.mk (dumpBam bodies) ((bamOffsets 0 bodies).dropLast.map (fun _ => []))
      ((bamOffsets 0 bodies).dropLast.map (fun _ => [])) (bamOffsets 0 bodies).dropLast ((bamOffsets 0 bodies).drop 1) true := by
    unfold buildBam
    simp only [hst, hdata]
  have htile := bam_tile bodies 0 (dumpBam bodies) true
  rw [← hb'] at htile
  obtain ⟨s1, s2, s3⟩ := tile_spec (bodies.map bamBlock) (buildBam (dumpBam bodies)).rows [] htile
  simp only [List.nil_append] at s1 s2
  have hd2 : (buildBam (dumpBam bodies)).data = dumpBam bodies := by rw [hb']
  have hraws : (buildBam (dumpBam bodies)).abs.map (·.raw) = bodies.map bamBlock := by
    unfold Ext.abs; rw [hd2]; exact s1
  have hwf : WF (buildBam (dumpBam bodies)) := by
    refine ⟨?_, fun r hr => by rw [hd2]; exact s2 r hr⟩
    rw [hb']
    unfold LenWF
    simp only [List.length_map, List.length_dropLast, List.length_drop]
    exact ⟨trivial, trivial, trivial⟩
  refine ⟨⟨hwf, ?_⟩, hraws⟩
  intro _
  unfold specBytes
  rw [hraws, hd2]
  rfl

/-- **C04.passthrough_bam** — end to end for BAM: every selection program writes the selected records' original bytes -/
theorem passthrough_bam (tables : List (List Bytes)) (hb : ∀ t ∈ tables, ∀ b ∈ t, b.length < 4294967296) (p : Prog) :
    (p.evalExt (tables.map (fun t => buildBam (dumpBam t)))).map Ext.bytes =
      (p.evalSpec (tables.map (·.map bamBlock))).map List.flatten := by
  apply passthrough_generic
  · intro e he
    simp only [List.mem_map] at he
    obtain ⟨t, ht, rfl⟩ := he
    exact (build_bam_records t (hb t ht)).1
  · simp only [List.map_map]
    apply List.map_congr_left
    intro t ht
    exact (build_bam_records t (hb t ht)).2

example : (buildBam (dumpBam [[1, 2, 3], [], [7]])).eStart = [0, 7, 11] ∧ (buildBam (dumpBam [[1, 2, 3], [], [7]])).eEnd = [7, 11, 16] := by decide

end C04
