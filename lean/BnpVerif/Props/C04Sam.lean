import BnpVerif.Props.C04KLine
/-! C04 — the SAM construction (`SAMBuffer._get_buffer_extractor`) for ALL well-formed files: lines with a
variable number (≥ 11) of tab-separated columns, LF or CRLF. -/
namespace C04
open PyIdx

/-- lines of clean, tab-free columns, at least `m` per line -/
def SamTable (m : Nat) (lines : List (List Bytes)) : Prop :=
  ∀ l ∈ lines, m ≤ l.length ∧ ∀ f ∈ l, cleanField 9 f

theorem posFrom_dumpFileV (sep : Nat) (lines : List (List Bytes)) (h : ∀ l ∈ lines, l ≠ [] ∧ ∀ f ∈ l, cleanField sep f) (k : Nat) :
    posFrom (fun b => b == 10 || b == sep) k (dumpFile sep lines) = (lineGroups sep k lines).flatten := by
  induction lines generalizing k with
  | nil => rfl
  | cons l ls ih =>
    have hl := h l (by simp)
    simp only [dumpFile, List.map_cons, List.flatten_cons, lineGroups]
    rw [posFrom_append, posFrom_dumpLine sep l k hl.1 hl.2]
    congr 1
    exact ih (fun x hx => h x (by simp [hx])) _

theorem filter_dumpFileV (sep : Nat) (lines : List (List Bytes)) (h : ∀ l ∈ lines, l ≠ [] ∧ ∀ f ∈ l, cleanField sep f) :
    (dumpFile sep lines).filter (fun b => b == 10 || b == sep) =
      (lines.map (fun l => List.replicate (l.length - 1) sep ++ [10])).flatten := by
  induction lines with
  | nil => rfl
  | cons l ls ih =>
    have hl := h l (by simp)
    simp only [dumpFile, List.map_cons, List.flatten_cons, List.filter_append]
    rw [filter_dumpLine sep l hl.1 hl.2]
    congr 1
    exact ih (fun x hx => h x (by simp [hx]))

theorem splitGroups_line (sep : Nat) (hs : sep ≠ 10) (m : Nat) :
    ∀ (g cur : List Nat) (cs ps : List Nat), g.length = m + 1 →
      splitGroups (List.replicate m sep ++ 10 :: cs) (g ++ ps) cur = (cur ++ g) :: splitGroups cs ps [] := by
  induction m with
  | zero =>
    intro g cur cs ps hg
    cases g with
    | nil => simp at hg
    | cons x g' =>
      cases g' with
      | nil => simp [splitGroups]
      | cons y g'' => simp at hg
  | succ m ih =>
    intro g cur cs ps hg
    cases g with
    | nil => simp at hg
    | cons x g' =>
      have hne : (sep == 10) = false := by simp [hs]
      simp only [List.replicate_succ, List.cons_append, splitGroups, hne, Bool.false_eq_true, if_false]
      rw [ih g' (cur ++ [x]) cs ps (by simpa using hg)]
      simp

theorem splitGroups_dump (sep : Nat) (hs : sep ≠ 10) (lines : List (List Bytes)) (hne : ∀ l ∈ lines, l ≠ []) (k : Nat) :
    splitGroups ((lines.map (fun l => List.replicate (l.length - 1) sep ++ [10])).flatten) (lineGroups sep k lines).flatten []
      = lineGroups sep k lines := by
  induction lines generalizing k with
  | nil => simp [lineGroups, splitGroups]
  | cons l ls ih =>
    have hl := hne l (by simp)
    simp only [List.map_cons, List.flatten_cons, lineGroups]
    rw [List.append_assoc, List.singleton_append]
    rw [splitGroups_line sep hs (l.length - 1) (lineDelims k l) [] _ _ (by
      rw [lineDelims_length k l hl]
      cases l with
      | nil => exact absurd rfl hl
      | cons f r => simp)]
    rw [List.nil_append, ih (fun x hx => hne x (by simp [hx]))]

def lineOffsets (sep : Nat) : Nat → List (List Bytes) → List Nat
  | _, [] => []
  | k, l :: ls => k :: lineOffsets sep (k + (dumpLine sep l).length) ls

theorem lineGroups_ne_nil (sep k : Nat) (l : List Bytes) (ls : List (List Bytes)) : lineGroups sep k (l :: ls) ≠ [] := by
  simp [lineGroups]

theorem lineStarts_offsets (sep : Nat) (lines : List (List Bytes)) (hne : ∀ l ∈ lines, l ≠ []) (hl : lines ≠ []) (k : Nat) :
    k :: (lineGroups sep k lines).dropLast.map (fun g => g.getLastD 0 + 1) = lineOffsets sep k lines := by
  induction lines generalizing k with
  | nil => exact absurd rfl hl
  | cons l ls ih =>
    cases ls with
    | nil => simp [lineGroups, lineOffsets]
    | cons l2 ls2 =>
      have h1 := dumpLine_length sep l k (hne l (by simp))
      have := ih (fun x hx => hne x (by simp [hx])) (by simp) (k + (dumpLine sep l).length)
      simp only [lineGroups, lineOffsets] at this ⊢
      rw [List.dropLast_cons_of_ne_nil (by simp), List.map_cons, ← h1]
      rw [this]

theorem lineGroups_last (sep : Nat) (lines : List (List Bytes)) (hne : ∀ l ∈ lines, l ≠ []) (k : Nat) (g : List Nat)
    (hg : (lineGroups sep k lines).getLast? = some g) : g.getLastD 0 + 1 = k + (dumpFile sep lines).length := by
  induction lines generalizing k with
  | nil => simp [lineGroups] at hg
  | cons l ls ih =>
    cases ls with
    | nil =>
      simp only [lineGroups, List.getLast?_singleton, Option.some.injEq] at hg
      subst hg
      have := dumpLine_length sep l k (hne l (by simp))
      simp only [dumpFile, List.map_cons, List.map_nil, List.flatten_cons, List.flatten_nil, List.append_nil]
      omega
    | cons l2 ls2 =>
      have hg' : (lineGroups sep (k + (dumpLine sep l).length) (l2 :: ls2)).getLast? = some g := by
        simp only [lineGroups] at hg ⊢
        rw [List.getLast?_cons_cons] at hg
        exact hg
      have := ih (fun x hx => hne x (by simp [hx])) _ hg'
      simp only [dumpFile, List.map_cons, List.flatten_cons, List.length_append] at this ⊢
      omega

theorem lineDelims_bounds (sep : Nat) (l : List Bytes) (k : Nat) (hne : l ≠ []) :
    ∀ d ∈ lineDelims k l, k ≤ d ∧ d + 1 ≤ k + (dumpLine sep l).length := by
  induction l generalizing k with
  | nil => exact absurd rfl hne
  | cons f r ih =>
    cases r with
    | nil =>
      intro d hd
      simp only [lineDelims, List.mem_singleton] at hd
      subst hd
      simp [dumpLine, intercalate]; omega
    | cons g r' =>
      intro d hd
      simp only [lineDelims, List.mem_cons] at hd
      rw [dumpLine_cons_cons]
      simp only [List.length_append, List.length_singleton]
      rcases hd with rfl | hd
      · have := dumpLine_len_ge sep g r'; omega
      · have := ih (k + f.length + 1) (by simp) d (by simpa [lineDelims] using hd)
        omega

theorem lineGroups_mem_length (sep : Nat) (lines : List (List Bytes)) (hne : ∀ l ∈ lines, l ≠ []) (k : Nat) (g : List Nat)
    (hg : g ∈ lineGroups sep k lines) : ∃ l ∈ lines, g.length = l.length := by
  induction lines generalizing k with
  | nil => simp [lineGroups] at hg
  | cons l ls ih =>
    simp only [lineGroups, List.mem_cons] at hg
    rcases hg with rfl | hg
    · exact ⟨l, by simp, lineDelims_length k l (hne l (by simp))⟩
    · obtain ⟨l', hl', e⟩ := ih (fun x hx => hne x (by simp [hx])) _ hg
      exact ⟨l', by simp [hl'], e⟩

/-- the extractor with an arbitrary (admissible) per-line end table -/
def samExtE (lines : List (List Bytes)) (Gs : List (List Nat)) : Ext :=
  { data := dumpFile 9 lines,
    fStart := List.zipWith (fun ls g => (ls :: g.map (· + 1)).take 11) (lineOffsets 9 0 lines) (lineGroups 9 0 lines),
    fLen := List.zipWith (fun ss es => List.zipWith (fun s e => e - s) ss es)
      (List.zipWith (fun ls g => (ls :: g.map (· + 1)).take 11) (lineOffsets 9 0 lines) (lineGroups 9 0 lines)) (Gs.map (·.take 11)),
    eStart := lineOffsets 9 0 lines,
    eEnd := (lineGroups 9 0 lines).map (fun g => g.getLastD 0 + 1),
    contiguous := true }

/-- what `SAMBuffer.from_raw_buffer` constructs -/
def samExt (lines : List (List Bytes)) : Ext :=
  samExtE lines (if crFlag (dumpFile 9 lines) (lineGroups 9 0 lines) then (lineGroups 9 0 lines).map (stripCR (dumpFile 9 lines))
    else lineGroups 9 0 lines)

theorem buildSam_eq (lines : List (List Bytes)) (hne : lines ≠ []) (h : SamTable 11 lines) :
    buildSam (dumpFile 9 lines) = some (samExt lines) := by
  have hl : ∀ l ∈ lines, l ≠ [] ∧ ∀ f ∈ l, cleanField 9 f := by
    intro l hl; refine ⟨?_, (h l hl).2⟩
    intro e; have := (h l hl).1; rw [e] at this; simp at this
  have hlne : ∀ l ∈ lines, l ≠ [] := fun l hx => (hl l hx).1
  obtain ⟨raw, hraw⟩ : ∃ raw, raw = dumpFile 9 lines := ⟨_, rfl⟩
  obtain ⟨G, hG⟩ : ∃ G, G = lineGroups 9 0 lines := ⟨_, rfl⟩
  have hd : posFrom (fun b => b == 10 || b == 9) 0 raw = G.flatten := by
    rw [hraw, hG]; exact posFrom_dumpFileV 9 lines hl 0
  have hgroups : splitGroups (raw.filter (fun b => b == 10 || b == 9)) G.flatten [] = G := by
    rw [hraw, hG, filter_dumpFileV 9 lines hl]
    exact splitGroups_dump 9 (by decide) lines hlne 0
  have hGne : G ≠ [] := by
    rw [hG]; cases lines with
    | nil => exact absurd rfl hne
    | cons l ls => exact lineGroups_ne_nil 9 0 l ls
  obtain ⟨lastG, hlastG⟩ : ∃ g, G.getLast? = some g := ⟨G.getLast hGne, List.getLast?_eq_some_getLast hGne⟩
  have hlast : lastG.getLastD 0 + 1 = raw.length := by
    have := lineGroups_last 9 lines hlne 0 lastG (by rw [← hG]; exact hlastG)
    rw [hraw]; omega
  have htake : raw.take (lastG.getLastD 0 + 1) = raw := by rw [hlast, List.take_length]
  have hstarts : 0 :: G.dropLast.map (fun g => g.getLastD 0 + 1) = lineOffsets 9 0 lines := by
    rw [hG]; exact lineStarts_offsets 9 lines hlne hne 0
  have hany : G.any (fun g => decide (g.length < 11)) = false := by
    rw [List.any_eq_false]
    intro g hg
    rw [hG] at hg
    have := lineGroups_mem_length 9 lines hlne 0 g hg
    obtain ⟨l, hlm, e⟩ := this
    have := (h l hlm).1
    simp; omega
  unfold buildSam
  simp only [← hraw, hd, hgroups, hlastG, htake, hstarts, hany, Bool.false_eq_true, if_false]
  unfold samExt samExtE crFlag
  rw [← hraw, ← hG]
  cases G.head? <;> rfl

theorem lineOffsets_length (sep k : Nat) (lines : List (List Bytes)) : (lineOffsets sep k lines).length = lines.length := by
  induction lines generalizing k with
  | nil => rfl
  | cons l ls ih => simp only [lineOffsets, List.length_cons]; rw [ih]

theorem sam_tile (lines : List (List Bytes)) (h : SamTable 11 lines) :
    ∀ (Gs : List (List Nat)) (k : Nat) (data : Bytes) (c : Bool), LeOK Gs (lineGroups 9 k lines) →
    TileOK k (lines.map (dumpLine 9))
      (Ext.mk data (List.zipWith (fun ls g => (ls :: g.map (· + 1)).take 11) (lineOffsets 9 k lines) (lineGroups 9 k lines))
        (List.zipWith (fun ss es => List.zipWith (fun s e => e - s) ss es)
          (List.zipWith (fun ls g => (ls :: g.map (· + 1)).take 11) (lineOffsets 9 k lines) (lineGroups 9 k lines)) (Gs.map (·.take 11)))
        (lineOffsets 9 k lines) ((lineGroups 9 k lines).map (fun g => g.getLastD 0 + 1)) c).rows := by
  induction lines with
  | nil =>
    intro Gs k data c hle
    cases Gs with
    | nil => simp [Ext.rows, lineOffsets, lineGroups, TileOK]
    | cons E Es => simp [lineGroups, LeOK] at hle
  | cons l ls ih =>
    intro Gs k data c hle
    cases Gs with
    | nil => simp [lineGroups, LeOK] at hle
    | cons E Es =>
      have hl := h l (by simp)
      have hlne : l ≠ [] := by intro e; rw [e] at hl; simp at hl
      simp only [lineGroups, LeOK] at hle
      obtain ⟨hE, hEle, hrest⟩ := hle
      have ih' := ih (fun x hx => h x (by simp [hx])) Es (k + (dumpLine 9 l).length) data c hrest
      unfold Ext.rows at ih' ⊢
      simp only at ih' ⊢
      simp only [lineOffsets, lineGroups, List.zipWith_cons_cons, List.map_cons, List.zip_cons_cons, TileOK]
      have hDlen := lineDelims_length k l hlne
      have h3 := dumpLine_length 9 l k hlne
      have hb := lineDelims_bounds 9 l k hlne
      have hfS : ∀ s ∈ (k :: (lineDelims k l).map (· + 1)).take 11, k ≤ s ∧ s ≤ k + (dumpLine 9 l).length := by
        intro s hs
        have hs' := List.mem_of_mem_take hs
        simp only [List.mem_cons, List.mem_map] at hs'
        rcases hs' with rfl | ⟨d, hd, rfl⟩
        · omega
        · have := hb d hd; omega
      refine ⟨trivial, by omega, ?_, fun s hs => (hfS s hs).1, ?_, ih'⟩
      · simp only [List.length_zipWith, List.length_take, List.length_cons, List.length_map, hE, hDlen]
        have := hl.1; omega
      · intro p hp
        obtain ⟨j, hj, hpj⟩ := List.getElem_of_mem hp
        simp only [List.length_zip, List.length_zipWith, List.length_take, List.length_cons, List.length_map, hE, hDlen] at hj
        rw [← hpj]
        simp only [List.getElem_zip, List.getElem_zipWith]
        have hjl : j < l.length := by have := hl.1; omega
        have hjS : j < ((k :: (lineDelims k l).map (· + 1)).take 11).length := by
          simp only [List.length_take, List.length_cons, List.length_map, hDlen]; omega
        have hs := hfS (((k :: (lineDelims k l).map (· + 1)).take 11)[j]'hjS) (List.getElem_mem hjS)
        have hjE : j < E.length := by rw [hE, hDlen]; exact hjl
        have hjD : j < (lineDelims k l).length := by rw [hDlen]; exact hjl
        have hle := hEle j
        simp only [List.getD_eq_getElem?_getD, List.getElem?_eq_getElem hjE, List.getElem?_eq_getElem hjD, Option.getD_some] at hle
        have hd := hb _ (List.getElem_mem hjD)
        simp only [List.getElem_take] at hs ⊢
        omega

theorem LeOK_strip (d : Bytes) : ∀ (G : List (List Nat)), LeOK (G.map (stripCR d)) G
  | [] => trivial
  | g :: gs => by
    obtain ⟨s1, s2, _⟩ := stripCR_spec d g
    exact ⟨s1, s2, LeOK_strip d gs⟩

/-- **C04.build_sam_records** — for EVERY SAM body of lines with at least 11 clean tab-separated columns (a variable
number of optional tags; LF, CRLF or mixed line ends) the extractor `SAMBuffer.from_raw_buffer` constructs satisfies
the invariant of the program theorems and its records are exactly the source lines -/
theorem build_sam_records (lines : List (List Bytes)) (hne : lines ≠ []) (h : SamTable 11 lines) :
    ∃ e, buildSam (dumpFile 9 lines) = some e ∧ Inv e ∧ e.abs.map (·.raw) = lines.map (dumpLine 9) := by
  refine ⟨samExt lines, buildSam_eq lines hne h, ?_⟩
  have hle : LeOK (if crFlag (dumpFile 9 lines) (lineGroups 9 0 lines) then (lineGroups 9 0 lines).map (stripCR (dumpFile 9 lines))
      else lineGroups 9 0 lines) (lineGroups 9 0 lines) := by
    split
    · exact LeOK_strip _ _
    · exact LeOK_refl _
  have htile := sam_tile lines h _ 0 (dumpFile 9 lines) true hle
  obtain ⟨s1, s2, s3⟩ := tile_spec (lines.map (dumpLine 9)) (samExt lines).rows [] htile
  simp only [List.nil_append] at s1 s2
  have habs : (samExt lines).abs.map (·.raw) = lines.map (dumpLine 9) := s1
  have hlen : ∀ (Gs : List (List Nat)), LeOK Gs (lineGroups 9 0 lines) → Gs.length = lines.length := by
    intro Gs hG
    have : ∀ (A B : List (List Nat)), LeOK A B → A.length = B.length := by
      intro A
      induction A with
      | nil => intro B hAB; cases B with | nil => rfl | cons b bs => simp [LeOK] at hAB
      | cons a as iha =>
        intro B hAB
        cases B with
        | nil => simp [LeOK] at hAB
        | cons b bs => simp [iha bs hAB.2.2]
    rw [this _ _ hG, lineGroups_length]
  have hoff : (lineOffsets 9 0 lines).length = lines.length := lineOffsets_length 9 0 lines
  have hwf : WF (samExt lines) := by
    refine ⟨?_, fun r hr => s2 r hr⟩
    unfold LenWF samExt samExtE
    simp only [List.length_map, List.length_zipWith, lineGroups_length, hoff, hlen _ hle, Nat.min_self]
    exact ⟨trivial, trivial, trivial⟩
  refine ⟨⟨hwf, ?_⟩, habs⟩
  intro _
  unfold specBytes
  rw [habs]
  rfl

/-- the end-to-end statement from its two ingredients: invariant + "records are the source blocks" -/
theorem passthrough_generic (exts : List Ext) (srcs : List (List Bytes)) (hI : ∀ e ∈ exts, Inv e)
    (hr : exts.map (fun e => e.abs.map (·.raw)) = srcs) (p : Prog) :
    (p.evalExt exts).map Ext.bytes = (p.evalSpec srcs).map List.flatten := by
  rw [program_bytes _ hI p]
  have : srcs = (exts.map Ext.abs).map (·.map (·.raw)) := by rw [← hr, List.map_map]; rfl
  rw [this, evalSpec_map]
  cases p.evalSpec (exts.map Ext.abs) with
  | none => rfl
  | some recs => simp [specBytes]

/-- **C04.passthrough_sam** — end to end for SAM bodies (LF/CRLF, optional tags): bytes written = the selected source lines -/
theorem passthrough_sam (tables : List (List (List Bytes))) (hne : ∀ t ∈ tables, t ≠ []) (h : ∀ t ∈ tables, SamTable 11 t) (p : Prog) :
    (∀ t ∈ tables, buildSam (dumpFile 9 t) = some (samExt t)) ∧
    (p.evalExt (tables.map samExt)).map Ext.bytes = (p.evalSpec (tables.map (·.map (dumpLine 9)))).map List.flatten := by
  refine ⟨fun t ht => buildSam_eq t (hne t ht) (h t ht), ?_⟩
  have hspec : ∀ t ∈ tables, Inv (samExt t) ∧ (samExt t).abs.map (·.raw) = t.map (dumpLine 9) := by
    intro t ht
    obtain ⟨e, he, hi, hr⟩ := build_sam_records t (hne t ht) (h t ht)
    rw [buildSam_eq t (hne t ht) (h t ht)] at he
    simp only [Option.some.injEq] at he
    subst he
    exact ⟨hi, hr⟩
  apply passthrough_generic
  · intro e he
    simp only [List.mem_map] at he
    obtain ⟨t, ht, rfl⟩ := he
    exact (hspec t ht).1
  · simp only [List.map_map]
    apply List.map_congr_left
    intro t ht
    exact (hspec t ht).2

example : SamTable 11 [["r1", "0", "c", "007", "60", "4M", "*", "0", "0", "ACGT", "IIII", "NM:i:0\r"].map (·.toList.map Char.toNat)] := by
  intro l hl
  simp only [List.mem_cons, List.not_mem_nil, or_false] at hl
  subst hl
  refine ⟨by decide, ?_⟩
  intro f hf
  simp only [List.map_cons, List.map_nil, List.mem_cons, List.not_mem_nil, or_false] at hf
  rcases hf with rfl | rfl | rfl | rfl | rfl | rfl | rfl | rfl | rfl | rfl | rfl | rfl <;> intro b hb <;> revert b <;> decide

end C04
