import BnpVerif.Props.C04Sam
import BnpVerif.Props.C04Cr
import BnpVerif.Props.C04Eager
import BnpVerif.Props.C04Write
/-! C04 — SOURCE-LEVEL field text: what `get_field_by_number(j)` returns for the extractor the code constructs from a dumped
file, stated on the source lines themselves (FASTQ / two-line FASTA: the line without its header character; SAM: the
column; CRLF: without the carriage return), and carried through every program. -/
namespace C04
open PyIdx

theorem slice_sub {α} (d : List α) (s a m n : Nat) (hm : m ≤ n) :
    slice d (s + a) (m - a) = ((slice d s n).take m).drop a := by
  unfold slice
  rw [List.take_take, Nat.min_eq_left hm, List.drop_take, List.drop_drop]

/-- inside the whole file, the bytes from offset `a` to offset `m` of the j-th field of a dumped line -/
theorem line_field_cut (sep : Nat) (Pfx rest : Bytes) (l : List Bytes) (j : Nat) (hj : j < l.length) (a m : Nat)
    (hm : m ≤ (l[j]).length) :
    slice (Pfx ++ dumpLine sep l ++ rest) ((offsFrom Pfx.length l)[j]'(by rw [offsFrom_length]; exact hj) + a) (m - a)
      = ((l[j]).take m).drop a := by
  have hj1 : j < (offsFrom Pfx.length l).length := by rw [offsFrom_length]; exact hj
  have hoge := offsFrom_ge Pfx.length l _ (List.getElem_mem hj1)
  have hb := offs_bound sep l Pfx.length j hj
  simp only [List.getD_eq_getElem?_getD, List.getElem?_eq_getElem hj1, List.getElem?_eq_getElem hj, Option.getD_some] at hb
  have hs : slice (Pfx ++ dumpLine sep l ++ rest) ((offsFrom Pfx.length l)[j]) (l[j]).length = l[j] := by
    have := slice_append_mid Pfx (dumpLine sep l) rest ((offsFrom Pfx.length l)[j] - Pfx.length) (l[j]).length (by omega)
    have e : Pfx.length + ((offsFrom Pfx.length l)[j] - Pfx.length) = (offsFrom Pfx.length l)[j] := by omega
    rw [e] at this
    rw [this]; exact line_field sep l Pfx.length j hj
  rw [slice_sub _ _ a m _ hm, hs]

/-- `get_field_by_number(j)` reads the two parallel tables only -/
theorem fieldText_zip (e : Ext) (h : LenWF e) (j : Nat) :
    e.fieldText j = List.zipWith (fun ss ls => slice e.data (ss.getD j 0) (ls.getD j 0)) e.fStart e.fLen := by
  obtain ⟨h1, h2, h3⟩ := h
  unfold Ext.fieldText Ext.rows
  apply List.ext_getElem
  · simp [List.length_zipWith, List.length_zip]; omega
  · intro i hi1 hi2
    simp [List.getElem_zipWith, List.getElem_zip]

theorem zipWith_map_zipWith {α β γ δ ε} (F : β → δ → ε) (g : α → β) (h : β → γ → δ) :
    ∀ (A : List α) (B : List γ),
      List.zipWith F (A.map g) (List.zipWith h (A.map g) B) = List.zipWith (fun a b => F (g a) (h (g a) b)) A B
  | [], _ => by simp
  | _ :: _, [] => by simp
  | a :: as, b :: bs => by simp [zipWith_map_zipWith F g h as bs]

/-! ### k-line formats -/

/-- the end of a line's field as `_modify_for_carriage_return` leaves it -/
def cut (d : Bytes) (e : Nat) : Nat := if byteAt d (e - 1) == 13 then e - 1 else e

/-- line-end tables in closed form: line x that starts at o ends at `o + |g x|` -/
def gEnds (g : Bytes → Bytes) : Nat → List (List Bytes) → List (List Nat)
  | _, [] => []
  | k, l :: ls => List.zipWith (fun o x => o + (g x).length) (offsFrom k l) l :: gEnds g (k + (dumpLine 10 l).length) ls

theorem lineGroups_gEnds (entries : List (List Bytes)) (hne : ∀ l ∈ entries, l ≠ []) (k : Nat) :
    lineGroups 10 k entries = gEnds id k entries := by
  induction entries generalizing k with
  | nil => rfl
  | cons l ls ih =>
    simp only [lineGroups, gEnds]
    rw [lineDelims_closed k l (hne l (by simp)), ih (fun x hx => hne x (by simp [hx]))]
    rfl

/-- the text in front of a line does not end in a carriage return (it is empty or ends with a newline) -/
def PfxOK (Pfx : Bytes) : Prop := Pfx.getLast? ≠ some 13

theorem pfxOK_nl (A : Bytes) : PfxOK (A ++ [10]) := by
  unfold PfxOK; simp

theorem cut_line (Pfx x rest : Bytes) (hp : PfxOK Pfx) :
    cut (Pfx ++ x ++ [10] ++ rest) (Pfx.length + x.length) = Pfx.length + (dropCR x).length := by
  unfold cut
  by_cases hx : x = []
  · subst hx
    have hne13 : byteAt (Pfx ++ [] ++ [10] ++ rest) (Pfx.length + 0 - 1) ≠ 13 := by
      by_cases hP : Pfx = []
      · subst hP; simp [byteAt]
      · have hpos : 0 < Pfx.length := List.length_pos_iff.mpr hP
        have hlt : Pfx.length + 0 - 1 < Pfx.length := by omega
        have : byteAt (Pfx ++ [] ++ [10] ++ rest) (Pfx.length + 0 - 1) = Pfx[Pfx.length + 0 - 1] := by
          rw [List.append_nil, List.append_assoc]
          exact byteAt_append_left _ _ _ hlt
        rw [this]
        intro h13
        apply hp
        rw [getLast?_eq_getElem_pred Pfx hP]
        simp only [Nat.add_zero] at h13
        rw [h13]
    simp only [List.length_nil, beq_iff_eq, hne13, if_false, dropCR]
    simp
  · have hpos : 0 < x.length := List.length_pos_iff.mpr hx
    have hb : byteAt (Pfx ++ x ++ [10] ++ rest) (Pfx.length + x.length - 1) = x[x.length - 1] := by
      have hlt : Pfx.length + x.length - 1 < (Pfx ++ x).length := by simp; omega
      rw [List.append_assoc (Pfx ++ x), byteAt_append_left _ _ _ hlt]
      rw [List.getElem_append_right (by omega)]
      congr 1
      omega
    rw [hb]
    unfold dropCR
    rw [getLast?_eq_getElem_pred x hx]
    by_cases h13 : x[x.length - 1] = 13
    · simp [h13]; omega
    · simp [h13]

theorem cut_entry (l : List Bytes) (hne : l ≠ []) :
    ∀ (Pfx rest : Bytes), PfxOK Pfx →
      (lineDelims Pfx.length l).map (cut (Pfx ++ dumpLine 10 l ++ rest)) =
        List.zipWith (fun o x => o + (dropCR x).length) (offsFrom Pfx.length l) l := by
  induction l with
  | nil => exact absurd rfl hne
  | cons x r ih =>
    intro Pfx rest hp
    cases r with
    | nil =>
      have := cut_line Pfx x rest hp
      simp only [lineDelims, offsFrom, dumpLine, intercalate, List.map_cons, List.map_nil, List.zipWith_cons_cons, List.zipWith_nil_right]
      rw [← List.append_assoc Pfx x [10], this]
    | cons g r' =>
      have h1 := cut_line Pfx x (dumpLine 10 (g :: r') ++ rest) hp
      have h2 := ih (by simp) (Pfx ++ x ++ [10]) rest (pfxOK_nl _)
      have hdata : Pfx ++ dumpLine 10 (x :: g :: r') ++ rest = Pfx ++ x ++ [10] ++ (dumpLine 10 (g :: r') ++ rest) := by
        rw [dumpLine_cons_cons]; simp [List.append_assoc]
      have hdata2 : Pfx ++ dumpLine 10 (x :: g :: r') ++ rest = (Pfx ++ x ++ [10]) ++ dumpLine 10 (g :: r') ++ rest := by
        rw [dumpLine_cons_cons]; simp [List.append_assoc]
      have hlen : (Pfx ++ x ++ [10]).length = Pfx.length + x.length + 1 := by simp; omega
      rw [hlen] at h2
      simp only [lineDelims, offsFrom, List.map_cons, List.zipWith_cons_cons]
      congr 1
      · rw [hdata]; exact h1
      · rw [hdata2]; exact h2

theorem cut_table (entries : List (List Bytes)) (hne : ∀ l ∈ entries, l ≠ []) :
    ∀ (Pfx tail : Bytes), PfxOK Pfx →
      (lineGroups 10 Pfx.length entries).map (·.map (cut (Pfx ++ dumpFile 10 entries ++ tail))) = gEnds dropCR Pfx.length entries := by
  induction entries with
  | nil => intro Pfx tail _; rfl
  | cons l ls ih =>
    intro Pfx tail hp
    have hl := hne l (by simp)
    have hdata : Pfx ++ dumpFile 10 (l :: ls) ++ tail = Pfx ++ dumpLine 10 l ++ (dumpFile 10 ls ++ tail) := by
      simp [dumpFile, List.append_assoc]
    have hdata2 : Pfx ++ dumpFile 10 (l :: ls) ++ tail = (Pfx ++ dumpLine 10 l) ++ dumpFile 10 ls ++ tail := by
      simp [dumpFile, List.append_assoc]
    have hok : PfxOK (Pfx ++ dumpLine 10 l) := by
      unfold dumpLine; rw [← List.append_assoc]; exact pfxOK_nl _
    have h2 := ih (fun x hx => hne x (by simp [hx])) (Pfx ++ dumpLine 10 l) tail hok
    simp only [List.length_append] at h2
    simp only [lineGroups, gEnds, List.map_cons]
    congr 1
    · rw [hdata]; exact cut_entry l hl Pfx _ hp
    · rw [hdata2]; exact h2

/-- the field texts of the rows built over `startGroups` with any closed-form end table -/
theorem kline_field_rows (offs : List Nat) (j : Nat) (hjo : j < offs.length) (g : Bytes → Bytes)
    (hg : ∀ x, (g x).length ≤ x.length ∧ x.take (g x).length = g x)
    (entries : List (List Bytes)) (hlen : ∀ l ∈ entries, j < l.length) :
    ∀ (Pfx tail : Bytes),
      List.zipWith (fun s E =>
          slice (Pfx ++ dumpFile 10 entries ++ tail) ((List.zipWith (· + ·) s offs).getD j 0)
            ((List.zipWith (fun s e => e - s) (List.zipWith (· + ·) s offs) E).getD j 0))
        (startGroups 10 Pfx.length entries) (gEnds g Pfx.length entries)
      = entries.map (fun l => (g (l.getD j [])).drop (offs.getD j 0)) := by
  induction entries with
  | nil => intro Pfx tail; rfl
  | cons l ls ih =>
    intro Pfx tail
    have hj := hlen l (by simp)
    have hl : l ≠ [] := by intro e; rw [e] at hj; simp at hj
    have hdata : Pfx ++ dumpFile 10 (l :: ls) ++ tail = Pfx ++ dumpLine 10 l ++ (dumpFile 10 ls ++ tail) := by
      simp [dumpFile, List.append_assoc]
    have hdata2 : Pfx ++ dumpFile 10 (l :: ls) ++ tail = (Pfx ++ dumpLine 10 l) ++ dumpFile 10 ls ++ tail := by
      simp [dumpFile, List.append_assoc]
    have h2 := ih (fun x hx => hlen x (by simp [hx])) (Pfx ++ dumpLine 10 l) tail
    simp only [List.length_append] at h2
    simp only [startGroups, gEnds, List.zipWith_cons_cons, List.map_cons]
    congr 1
    · rw [lineStarts_closed Pfx.length l hl]
      have hj1 : j < (offsFrom Pfx.length l).length := by rw [offsFrom_length]; exact hj
      have hs : (List.zipWith (· + ·) (offsFrom Pfx.length l) offs).getD j 0 = (offsFrom Pfx.length l)[j] + offs[j] := by
        simp [List.getD_eq_getElem?_getD, List.getElem?_zipWith, List.getElem?_eq_getElem hj1, List.getElem?_eq_getElem hjo]
      have hE : (List.zipWith (fun s e => e - s) (List.zipWith (· + ·) (offsFrom Pfx.length l) offs)
            (List.zipWith (fun o x => o + (g x).length) (offsFrom Pfx.length l) l)).getD j 0
          = (g l[j]).length - offs[j] := by
        simp [List.getD_eq_getElem?_getD, List.getElem?_zipWith, List.getElem?_eq_getElem hj1, List.getElem?_eq_getElem hjo,
          List.getElem?_eq_getElem hj]
        omega
      rw [hs, hE, hdata, line_field_cut 10 Pfx _ l j hj offs[j] (g l[j]).length (hg _).1, (hg _).2]
      simp [List.getD_eq_getElem?_getD, List.getElem?_eq_getElem hj, List.getElem?_eq_getElem hjo]
    · rw [hdata2]; exact h2

/-- the carriage-return switch of `OneLineBuffer._modify_for_carriage_return` on the dumped file -/
def kCR (K : Nat) (entries : List (List Bytes)) : Bool :=
  !kGuard (lineGroups 10 0 entries) &&
    ((lineGroups 10 0 entries).take K).any (fun r => byteAt (dumpFile 10 entries) (r.headD 0 - 1) == 13)

theorem dropCR_ok (x : Bytes) : (dropCR x).length ≤ x.length ∧ x.take (dropCR x).length = dropCR x :=
  ⟨dropCR_len_le x, dropCR_prefix x⟩

/-- **C04.kline_fields** — SOURCE-LEVEL field text for the k-line formats: for EVERY list of K-line entries, field j of the
extractor the code constructs (FASTQ: K = 4, offsets [1,0,0,0]; FASTA: K = 2, [1,0]) is, entry by entry, the j-th LINE of the
source entry without its first `offs[j]` bytes (the '@' / '>' of the header line) and — when the carriage-return switch is
on — without its trailing CR. (A model that kept the header character, or the CR, in the name would violate this.) -/
theorem kline_fields (K : Nat) (hK : 0 < K) (offs : List Nat) (entries : List (List Bytes))
    (h : CleanTable 10 K entries) (j : Nat) (hj : j < K) (hjo : j < offs.length) :
    (kExt K offs entries).fieldText j =
      entries.map (fun l => ((if kCR K entries then dropCR (l.getD j []) else l.getD j [])).drop (offs.getD j 0)) := by
  have hlne : ∀ l ∈ entries, l ≠ [] := by
    intro l hl e; have := (h l hl).1; rw [e] at this; simp at this; omega
  have hlen : ∀ l ∈ entries, j < l.length := by intro l hl; rw [(h l hl).1]; exact hj
  have hEs : kEnds (dumpFile 10 entries) K (lineGroups 10 0 entries) = gEnds (if kCR K entries then dropCR else id) 0 entries := by
    unfold kEnds
    have hc : (!kGuard (lineGroups 10 0 entries) &&
        ((lineGroups 10 0 entries).take K).any (fun r => byteAt (dumpFile 10 entries) (r.headD 0 - 1) == 13)) = kCR K entries := rfl
    rw [hc]
    cases hk : kCR K entries with
    | true =>
      simp only [if_true]
      have := cut_table entries hlne [] [] (by unfold PfxOK; simp)
      simp only [List.length_nil, List.nil_append, List.append_nil] at this
      exact this
    | false =>
      simp only [Bool.false_eq_true, if_false]
      exact lineGroups_gEnds entries hlne 0
  have hwf : LenWF (kExt K offs entries) := by
    have hl2 : (kEnds (dumpFile 10 entries) K (lineGroups 10 0 entries)).length = entries.length := by
      unfold kEnds; split <;> simp [lineGroups_length]
    unfold LenWF kExt
    simp only [List.length_map, List.length_zipWith, startGroups_length, lineGroups_length, hl2, Nat.min_self]
    exact ⟨trivial, trivial, trivial⟩
  rw [fieldText_zip _ hwf j]
  unfold kExt
  simp only
  rw [zipWith_map_zipWith, hEs]
  have hg : ∀ x, ((if kCR K entries then dropCR else id) x).length ≤ x.length ∧
      x.take ((if kCR K entries then dropCR else id) x).length = (if kCR K entries then dropCR else id) x := by
    intro x; cases kCR K entries
    · simp
    · simpa using dropCR_ok x
  have := kline_field_rows offs j hjo _ hg entries hlen [] []
  simp only [List.length_nil, List.nil_append, List.append_nil] at this
  rw [this]
  apply List.map_congr_left
  intro l _
  cases kCR K entries <;> rfl

end C04
