import BnpVerif.Props.C04Sam
import BnpVerif.Props.C04Cr
import BnpVerif.Props.C04Eager
import BnpVerif.Props.C04Write
/-! C04 — SOURCE-LEVEL field text: what `get_field_by_number(j)` returns for the extractor the code constructs from a dumped
file, stated on the source lines themselves (FASTQ / two-line FASTA: the line without its header character; SAM: the
column; CRLF: without the carriage return), and carried through every program. -/
namespace C04
open PyIdx

theorem slice_sub {α} (d : List α) (s a m n : Nat) (hm : m ≤ n) :
    slice d (s + a) (m - a) = ((slice d s n).take m).drop a := by
  unfold slice
  rw [List.take_take, Nat.min_eq_left hm, List.drop_take, List.drop_drop]

/-- inside the whole file, the bytes from offset `a` to offset `m` of the j-th field of a dumped line -/
theorem line_field_cut (sep : Nat) (Pfx rest : Bytes) (l : List Bytes) (j : Nat) (hj : j < l.length) (a m : Nat)
    (hm : m ≤ (l[j]).length) :
    slice (Pfx ++ dumpLine sep l ++ rest) ((offsFrom Pfx.length l)[j]'(by rw [offsFrom_length]; exact hj) + a) (m - a)
      = ((l[j]).take m).drop a := by
  have hj1 : j < (offsFrom Pfx.length l).length := by rw [offsFrom_length]; exact hj
  have hoge := offsFrom_ge Pfx.length l _ (List.getElem_mem hj1)
  have hb := offs_bound sep l Pfx.length j hj
  simp only [List.getD_eq_getElem?_getD, List.getElem?_eq_getElem hj1, List.getElem?_eq_getElem hj, Option.getD_some] at hb
  have hs : slice (Pfx ++ dumpLine sep l ++ rest) ((offsFrom Pfx.length l)[j]) (l[j]).length = l[j] := by
    have := slice_append_mid Pfx (dumpLine sep l) rest ((offsFrom Pfx.length l)[j] - Pfx.length) (l[j]).length (by omega)
    have e : Pfx.length + ((offsFrom Pfx.length l)[j] - Pfx.length) = (offsFrom Pfx.length l)[j] := by omega
    rw [e] at this
    rw [this]; exact line_field sep l Pfx.length j hj
  rw [slice_sub _ _ a m _ hm, hs]

/-- `get_field_by_number(j)` reads the two parallel tables only -/
theorem fieldText_zip (e : Ext) (h : LenWF e) (j : Nat) :
    e.fieldText j = List.zipWith (fun ss ls => slice e.data (ss.getD j 0) (ls.getD j 0)) e.fStart e.fLen := by
  obtain ⟨h1, h2, h3⟩ := h
  unfold Ext.fieldText Ext.rows
  apply List.ext_getElem
  · simp [List.length_zipWith, List.length_zip]; omega
  · intro i hi1 hi2
    simp [List.getElem_zipWith, List.getElem_zip]

theorem zipWith_map_zipWith {α β γ δ ε} (F : β → δ → ε) (g : α → β) (h : β → γ → δ) :
    ∀ (A : List α) (B : List γ),
      List.zipWith F (A.map g) (List.zipWith h (A.map g) B) = List.zipWith (fun a b => F (g a) (h (g a) b)) A B
  | [], _ => by simp
  | _ :: _, [] => by simp
  | a :: as, b :: bs => by simp [zipWith_map_zipWith F g h as bs]

/-! ### k-line formats -/

/-- the end of a line's field as `_modify_for_carriage_return` leaves it -/
def cut (d : Bytes) (e : Nat) : Nat := if byteAt d (e - 1) == 13 then e - 1 else e

/-- line-end tables in closed form: line x that starts at o ends at `o + |g x|` -/
def gEnds (g : Bytes → Bytes) : Nat → List (List Bytes) → List (List Nat)
  | _, [] => []
  | k, l :: ls => List.zipWith (fun o x => o + (g x).length) (offsFrom k l) l :: gEnds g (k + (dumpLine 10 l).length) ls

theorem lineGroups_gEnds (entries : List (List Bytes)) (hne : ∀ l ∈ entries, l ≠ []) (k : Nat) :
    lineGroups 10 k entries = gEnds id k entries := by
  induction entries generalizing k with
  | nil => rfl
  | cons l ls ih =>
    simp only [lineGroups, gEnds]
    rw [lineDelims_closed k l (hne l (by simp)), ih (fun x hx => hne x (by simp [hx]))]
    rfl

/-- the text in front of a line does not end in a carriage return (it is empty or ends with a newline) -/
def PfxOK (Pfx : Bytes) : Prop := Pfx.getLast? ≠ some 13

theorem pfxOK_nl (A : Bytes) : PfxOK (A ++ [10]) := by
  unfold PfxOK; simp

theorem cut_line (Pfx x rest : Bytes) (hp : PfxOK Pfx) :
    cut (Pfx ++ x ++ [10] ++ rest) (Pfx.length + x.length) = Pfx.length + (dropCR x).length := by
  unfold cut
  by_cases hx : x = []
  · subst hx
    have hne13 : byteAt (Pfx ++ [] ++ [10] ++ rest) (Pfx.length + 0 - 1) ≠ 13 := by
      by_cases hP : Pfx = []
      · subst hP; simp [byteAt]
      · have hpos : 0 < Pfx.length := List.length_pos_iff.mpr hP
        have hlt : Pfx.length + 0 - 1 < Pfx.length := by omega
        have : byteAt (Pfx ++ [] ++ [10] ++ rest) (Pfx.length + 0 - 1) = Pfx[Pfx.length + 0 - 1] := by
          rw [List.append_nil, List.append_assoc]
          exact byteAt_append_left _ _ _ hlt
        rw [this]
        intro h13
        apply hp
        rw [getLast?_eq_getElem_pred Pfx hP]
        simp only [Nat.add_zero] at h13
        rw [h13]
    simp only [List.length_nil, beq_iff_eq, hne13, if_false, dropCR]
    simp
  · have hpos : 0 < x.length := List.length_pos_iff.mpr hx
    have hb : byteAt (Pfx ++ x ++ [10] ++ rest) (Pfx.length + x.length - 1) = x[x.length - 1] := by
      have hlt : Pfx.length + x.length - 1 < (Pfx ++ x).length := by simp; omega
      rw [List.append_assoc (Pfx ++ x), byteAt_append_left _ _ _ hlt]
      rw [List.getElem_append_right (by omega)]
      congr 1
      omega
    rw [hb]
    unfold dropCR
    rw [getLast?_eq_getElem_pred x hx]
    by_cases h13 : x[x.length - 1] = 13
    · simp [h13]; omega
    · simp [h13]

theorem cut_entry (l : List Bytes) (hne : l ≠ []) :
    ∀ (Pfx rest : Bytes), PfxOK Pfx →
      (lineDelims Pfx.length l).map (cut (Pfx ++ dumpLine 10 l ++ rest)) =
        List.zipWith (fun o x => o + (dropCR x).length) (offsFrom Pfx.length l) l := by
  induction l with
  | nil => exact absurd rfl hne
  | cons x r ih =>
    intro Pfx rest hp
    cases r with
    | nil =>
      have := cut_line Pfx x rest hp
      simp only [lineDelims, offsFrom, dumpLine, intercalate, List.map_cons, List.map_nil, List.zipWith_cons_cons, List.zipWith_nil_right]
      rw [← List.append_assoc Pfx x [10], this]
    | cons g r' =>
      have h1 := cut_line Pfx x (dumpLine 10 (g :: r') ++ rest) hp
      have h2 := ih (by simp) (Pfx ++ x ++ [10]) rest (pfxOK_nl _)
      have hdata : Pfx ++ dumpLine 10 (x :: g :: r') ++ rest = Pfx ++ x ++ [10] ++ (dumpLine 10 (g :: r') ++ rest) := by
        rw [dumpLine_cons_cons]; simp [List.append_assoc]
      have hdata2 : Pfx ++ dumpLine 10 (x :: g :: r') ++ rest = (Pfx ++ x ++ [10]) ++ dumpLine 10 (g :: r') ++ rest := by
        rw [dumpLine_cons_cons]; simp [List.append_assoc]
      have hlen : (Pfx ++ x ++ [10]).length = Pfx.length + x.length + 1 := by simp; omega
      rw [hlen] at h2
      simp only [lineDelims, offsFrom, List.map_cons, List.zipWith_cons_cons]
      congr 1
      · rw [hdata]; exact h1
      · rw [hdata2]; exact h2

theorem cut_table (entries : List (List Bytes)) (hne : ∀ l ∈ entries, l ≠ []) :
    ∀ (Pfx tail : Bytes), PfxOK Pfx →
      (lineGroups 10 Pfx.length entries).map (·.map (cut (Pfx ++ dumpFile 10 entries ++ tail))) = gEnds dropCR Pfx.length entries := by
  induction entries with
  | nil => intro Pfx tail _; rfl
  | cons l ls ih =>
    intro Pfx tail hp
    have hl := hne l (by simp)
    have hdata : Pfx ++ dumpFile 10 (l :: ls) ++ tail = Pfx ++ dumpLine 10 l ++ (dumpFile 10 ls ++ tail) := by
      simp [dumpFile, List.append_assoc]
    have hdata2 : Pfx ++ dumpFile 10 (l :: ls) ++ tail = (Pfx ++ dumpLine 10 l) ++ dumpFile 10 ls ++ tail := by
      simp [dumpFile, List.append_assoc]
    have hok : PfxOK (Pfx ++ dumpLine 10 l) := by
      unfold dumpLine; rw [← List.append_assoc]; exact pfxOK_nl _
    have h2 := ih (fun x hx => hne x (by simp [hx])) (Pfx ++ dumpLine 10 l) tail hok
    simp only [List.length_append] at h2
    simp only [lineGroups, gEnds, List.map_cons]
    congr 1
    · rw [hdata]; exact cut_entry l hl Pfx _ hp
    · rw [hdata2]; exact h2

/-- the field texts of the rows built over `startGroups` with any closed-form end table -/
theorem kline_field_rows (offs : List Nat) (j : Nat) (hjo : j < offs.length) (g : Bytes → Bytes)
    (hg : ∀ x, (g x).length ≤ x.length ∧ x.take (g x).length = g x)
    (entries : List (List Bytes)) (hlen : ∀ l ∈ entries, j < l.length) :
    ∀ (Pfx tail : Bytes),
      List.zipWith (fun s E =>
          slice (Pfx ++ dumpFile 10 entries ++ tail) ((List.zipWith (· + ·) s offs).getD j 0)
            ((List.zipWith (fun s e => e - s) (List.zipWith (· + ·) s offs) E).getD j 0))
        (startGroups 10 Pfx.length entries) (gEnds g Pfx.length entries)
      = entries.map (fun l => (g (l.getD j [])).drop (offs.getD j 0)) := by
  induction entries with
  | nil => intro Pfx tail; rfl
  | cons l ls ih =>
    intro Pfx tail
    have hj := hlen l (by simp)
    have hl : l ≠ [] := by intro e; rw [e] at hj; simp at hj
    have hdata : Pfx ++ dumpFile 10 (l :: ls) ++ tail = Pfx ++ dumpLine 10 l ++ (dumpFile 10 ls ++ tail) := by
      simp [dumpFile, List.append_assoc]
    have hdata2 : Pfx ++ dumpFile 10 (l :: ls) ++ tail = (Pfx ++ dumpLine 10 l) ++ dumpFile 10 ls ++ tail := by
      simp [dumpFile, List.append_assoc]
    have h2 := ih (fun x hx => hlen x (by simp [hx])) (Pfx ++ dumpLine 10 l) tail
    simp only [List.length_append] at h2
    simp only [startGroups, gEnds, List.zipWith_cons_cons, List.map_cons]
    congr 1
    · rw [lineStarts_closed Pfx.length l hl]
      have hj1 : j < (offsFrom Pfx.length l).length := by rw [offsFrom_length]; exact hj
      have hs : (List.zipWith (· + ·) (offsFrom Pfx.length l) offs).getD j 0 = (offsFrom Pfx.length l)[j] + offs[j] := by
        simp [List.getD_eq_getElem?_getD, List.getElem?_zipWith, List.getElem?_eq_getElem hj1, List.getElem?_eq_getElem hjo]
      have hE : (List.zipWith (fun s e => e - s) (List.zipWith (· + ·) (offsFrom Pfx.length l) offs)
            (List.zipWith (fun o x => o + (g x).length) (offsFrom Pfx.length l) l)).getD j 0
          = (g l[j]).length - offs[j] := by
        simp [List.getD_eq_getElem?_getD, List.getElem?_zipWith, List.getElem?_eq_getElem hj1, List.getElem?_eq_getElem hjo,
          List.getElem?_eq_getElem hj]
        omega
      rw [hs, hE, hdata, line_field_cut 10 Pfx _ l j hj offs[j] (g l[j]).length (hg _).1, (hg _).2]
      simp [List.getD_eq_getElem?_getD, List.getElem?_eq_getElem hj, List.getElem?_eq_getElem hjo]
    · rw [hdata2]; exact h2

/-- the carriage-return switch of `OneLineBuffer._modify_for_carriage_return` on the dumped file -/
def kCR (K : Nat) (entries : List (List Bytes)) : Bool :=
  !kGuard (lineGroups 10 0 entries) &&
    ((lineGroups 10 0 entries).take K).any (fun r => byteAt (dumpFile 10 entries) (r.headD 0 - 1) == 13)

theorem dropCR_ok (x : Bytes) : (dropCR x).length ≤ x.length ∧ x.take (dropCR x).length = dropCR x :=
  ⟨dropCR_len_le x, dropCR_prefix x⟩

/-- **C04.kline_fields** — SOURCE-LEVEL field text for the k-line formats: for EVERY list of K-line entries, field j of the
extractor the code constructs (FASTQ: K = 4, offsets [1,0,0,0]; FASTA: K = 2, [1,0]) is, entry by entry, the j-th LINE of the
source entry without its first `offs[j]` bytes (the '@' / '>' of the header line) and — when the carriage-return switch is
on — without its trailing CR. (A model that kept the header character, or the CR, in the name would violate this.) -/
theorem kline_fields (K : Nat) (hK : 0 < K) (offs : List Nat) (entries : List (List Bytes))
    (h : CleanTable 10 K entries) (j : Nat) (hj : j < K) (hjo : j < offs.length) :
    (kExt K offs entries).fieldText j =
      entries.map (fun l => ((if kCR K entries then dropCR (l.getD j []) else l.getD j [])).drop (offs.getD j 0)) := by
  have hlne : ∀ l ∈ entries, l ≠ [] := by
    intro l hl e; have := (h l hl).1; rw [e] at this; simp at this; omega
  have hlen : ∀ l ∈ entries, j < l.length := by intro l hl; rw [(h l hl).1]; exact hj
  have hEs : kEnds (dumpFile 10 entries) K (lineGroups 10 0 entries) = gEnds (if kCR K entries then dropCR else id) 0 entries := by
    unfold kEnds
    have hc : (!kGuard (lineGroups 10 0 entries) &&
        ((lineGroups 10 0 entries).take K).any (fun r => byteAt (dumpFile 10 entries) (r.headD 0 - 1) == 13)) = kCR K entries := rfl
    rw [hc]
    cases hk : kCR K entries with
    | true =>
      simp only [if_true]
      have := cut_table entries hlne [] [] (by unfold PfxOK; simp)
      simp only [List.length_nil, List.nil_append, List.append_nil] at this
      exact this
    | false =>
      simp only [Bool.false_eq_true, if_false]
      exact lineGroups_gEnds entries hlne 0
  have hwf : LenWF (kExt K offs entries) := by
    have hl2 : (kEnds (dumpFile 10 entries) K (lineGroups 10 0 entries)).length = entries.length := by
      unfold kEnds; split <;> simp [lineGroups_length]
    unfold LenWF kExt
    simp only [List.length_map, List.length_zipWith, startGroups_length, lineGroups_length, hl2, Nat.min_self]
    exact ⟨trivial, trivial, trivial⟩
  rw [fieldText_zip _ hwf j]
  unfold kExt
  simp only
  rw [zipWith_map_zipWith, hEs]
  have hg : ∀ x, ((if kCR K entries then dropCR else id) x).length ≤ x.length ∧
      x.take ((if kCR K entries then dropCR else id) x).length = (if kCR K entries then dropCR else id) x := by
    intro x; cases kCR K entries
    · simp
    · simpa using dropCR_ok x
  have := kline_field_rows offs j hjo _ hg entries hlen [] []
  simp only [List.length_nil, List.nil_append, List.append_nil] at this
  rw [this]
  apply List.map_congr_left
  intro l _
  cases kCR K entries <;> rfl


theorem dropCR_noCR (x : Bytes) (h : ∀ b ∈ x, b ≠ 13) : dropCR x = x := by
  unfold dropCR
  split
  · rename_i h13
    exact absurd rfl (h 13 (List.mem_of_getLast? h13))
  · rfl

/-- **C04.kline_fields_lf** — plain LF text: field j of every entry is the j-th source line without its `offs[j]` header bytes -/
theorem kline_fields_lf (K : Nat) (hK : 0 < K) (offs : List Nat) (entries : List (List Bytes))
    (h : CleanTable 10 K entries) (hnocr : NoCRTable entries) (j : Nat) (hj : j < K) (hjo : j < offs.length) :
    (kExt K offs entries).fieldText j = entries.map (fun l => (l.getD j []).drop (offs.getD j 0)) := by
  rw [kline_fields K hK offs entries h j hj hjo]
  apply List.map_congr_left
  intro l hl
  have hjl : j < l.length := by rw [(h l hl).1]; exact hj
  have : dropCR (l.getD j []) = l.getD j [] := by
    apply dropCR_noCR
    intro b hb
    have hmem : l.getD j [] ∈ l := by
      rw [List.getD_eq_getElem?_getD, List.getElem?_eq_getElem hjl]; exact List.getElem_mem hjl
    exact hnocr l hl _ hmem b hb
  cases kCR K entries
  · rfl
  · simp only [if_true]; rw [this]

/-- a CRLF file of k-line entries, seen as an LF dump: every line carries the CR -/
def CRLines (entries : List (List Bytes)) : Prop := ∀ l ∈ entries, ∀ x ∈ l, x.getLast? = some 13

theorem lineDelims_headD (k : Nat) (x : Bytes) (r : List Bytes) : (lineDelims k (x :: r)).headD 0 = k + x.length := by
  cases r <;> rfl

theorem kCR_of_CRLines (K : Nat) (hK : 0 < K) (entries : List (List Bytes)) (hne : entries ≠ [])
    (h : CleanTable 10 K entries) (hcr : CRLines entries) : kCR K entries = true := by
  cases entries with
  | nil => exact absurd rfl hne
  | cons l0 ls =>
    have hl0 := (h l0 (by simp)).1
    cases l0 with
    | nil => simp at hl0; omega
    | cons x0 r =>
      have hx0 := hcr (x0 :: r) (by simp) x0 (by simp)
      have hx0ne : x0 ≠ [] := by intro e; rw [e] at hx0; simp at hx0
      have hpos : 0 < x0.length := List.length_pos_iff.mpr hx0ne
      obtain ⟨k', hk'⟩ : ∃ k', K = k' + 1 := ⟨K - 1, by omega⟩
      have hbyte : byteAt (dumpFile 10 ((x0 :: r) :: ls)) (x0.length - 1) = 13 := by
        have hd : dumpFile 10 ((x0 :: r) :: ls) = x0 ++ ((dumpLine 10 (x0 :: r)).drop x0.length ++ dumpFile 10 ls) := by
          have : dumpLine 10 (x0 :: r) = x0 ++ (dumpLine 10 (x0 :: r)).drop x0.length := by
            cases r with
            | nil => simp [dumpLine, intercalate]
            | cons g r' => rw [dumpLine_cons_cons]; simp [List.append_assoc]
          simp only [dumpFile, List.map_cons, List.flatten_cons]
          conv => lhs; rw [this]
          simp [List.append_assoc]
        rw [hd, byteAt_append_left _ _ _ (by omega)]
        rw [getLast?_eq_getElem_pred x0 hx0ne] at hx0
        simpa using hx0
      unfold kCR kGuard
      simp only [lineGroups, List.head?_cons, Option.map_some, Option.getD_some, hk', List.take_succ_cons, List.any_cons,
        lineDelims_headD, Nat.zero_add]
      simp [hbyte, hx0ne]

/-- **C04.kline_fields_crlf** — CRLF text: field j of every entry is the j-th source line without header bytes and without the CR -/
theorem kline_fields_crlf (K : Nat) (hK : 0 < K) (offs : List Nat) (entries : List (List Bytes)) (hne : entries ≠ [])
    (h : CleanTable 10 K entries) (hcr : CRLines entries) (j : Nat) (hj : j < K) (hjo : j < offs.length) :
    (kExt K offs entries).fieldText j = entries.map (fun l => (dropCR (l.getD j [])).drop (offs.getD j 0)) := by
  rw [kline_fields K hK offs entries h j hj hjo, kCR_of_CRLines K hK entries hne h hcr]
  rfl

/-! ### carried through programs: what the driver's evaluators return for the k-line formats -/

/-- the j-th entry field of a source entry, as the code's construction delivers it -/
def kSrcField (K : Nat) (offs : List Nat) (entries : List (List Bytes)) (j : Nat) (l : List Bytes) : Bytes :=
  ((if kCR K entries then dropCR (l.getD j []) else l.getD j [])).drop (offs.getD j 0)

theorem program_fields_src {α} (exts : List Ext) (hI : ∀ e ∈ exts, Inv e) (srcs : List (List α)) (f : α → Bytes) (j : Nat)
    (hsrc : exts.map (fun e => e.fieldText j) = srcs.map (·.map f)) (p : Prog) :
    (p.evalExt exts).map (fun e => e.fieldText j) = (p.evalSpec srcs).map (·.map f) := by
  rw [program_fields exts hI p j]
  have : (exts.map Ext.abs).map (·.map (·.field j)) = srcs.map (·.map f) := by
    rw [← hsrc, List.map_map]
    apply List.map_congr_left
    intro e he
    simp only [Function.comp]
    exact (field_text e (hI e he).1 j).symm
  rw [← evalSpec_map, this, evalSpec_map]


theorem rows_src {α} (recs : List Rec) (t : List α) (hlen : recs.length = t.length) (fidx : List Nat) (f : Nat → α → Bytes)
    (h : ∀ j ∈ fidx, recs.map (·.field j) = t.map (f j)) :
    recs.map (Rec.entry fidx) = t.map (fun l => fidx.map (fun j => f j l)) := by
  apply List.ext_getElem
  · simp [hlen]
  · intro i h1 h2
    simp only [List.getElem_map, Rec.entry]
    apply List.map_congr_left
    intro j hj
    have e1 := List.getElem_of_eq (h j hj) (by simpa using h1 : i < (recs.map (·.field j)).length)
    simpa using e1

theorem program_rows_src {α} (canCat : Bool) (fidx : List Nat) (exts : List Ext) (hI : ∀ e ∈ exts, Inv e)
    (srcs : List (List α)) (F : α → List Bytes)
    (hsrc : exts.map (fun e => e.abs.map (Rec.entry fidx)) = srcs.map (·.map F)) (p : Prog) :
    (p.evalTab canCat fidx exts).map (Tab.rows fidx) = (p.evalSpec srcs).map (·.map F) := by
  rw [(eager_fields canCat fidx exts hI p).2, ← evalSpec_map, List.map_map]
  have : exts.map ((fun x => x.map (Rec.entry fidx)) ∘ Ext.abs) = srcs.map (·.map F) := hsrc
  rw [this, evalSpec_map]

/-- programs over the constructed k-line extractors, for any per-table description `f` of the field texts -/
theorem kline_program_any (K : Nat) (hK : 0 < K) (offs : List Nat) (tables : List (List (List Bytes)))
    (hne : ∀ t ∈ tables, t ≠ []) (h : ∀ t ∈ tables, CleanTable 10 K t) (ho : ∀ t ∈ tables, OffsOK offs t)
    (f : Nat → List Bytes → Bytes)
    (hf : ∀ t ∈ tables, ∀ j, j < K → (kExt K offs t).fieldText j = t.map (f j)) (p : Prog) :
    (∀ j, j < K → (p.evalExt (tables.map (kExt K offs))).map (fun e => e.fieldText j) = (p.evalSpec tables).map (·.map (f j))) ∧
    (∀ fidx : List Nat, (∀ j ∈ fidx, j < K) →
      (p.evalTab false fidx (tables.map (kExt K offs))).map (Tab.rows fidx) =
        (p.evalSpec tables).map (·.map (fun l => fidx.map (fun j => f j l)))) := by
  have hspec : ∀ t ∈ tables, Inv (kExt K offs t) ∧ (kExt K offs t).abs.map (·.raw) = t.map (dumpLine 10) := by
    intro t ht
    obtain ⟨e, he, hi, hr⟩ := build_kline_records K hK offs t (hne t ht) (h t ht) (ho t ht)
    rw [buildKLine_eq K hK offs t (hne t ht) (h t ht)] at he
    simp only [Option.some.injEq] at he
    subst he
    exact ⟨hi, hr⟩
  have hinv : ∀ e ∈ tables.map (kExt K offs), Inv e := by
    intro e he
    simp only [List.mem_map] at he
    obtain ⟨t, ht, rfl⟩ := he
    exact (hspec t ht).1
  refine ⟨?_, ?_⟩
  · intro j hj
    apply program_fields_src _ hinv tables (f j) j
    rw [List.map_map]
    apply List.map_congr_left
    intro t ht
    exact hf t ht j hj
  · intro fidx hfi
    apply program_rows_src false fidx _ hinv tables (fun l => fidx.map (fun j => f j l))
    rw [List.map_map]
    apply List.map_congr_left
    intro t ht
    simp only [Function.comp]
    have hlen : (kExt K offs t).abs.length = t.length := by
      have := congrArg List.length (hspec t ht).2
      simpa using this
    apply rows_src _ t hlen fidx f
    intro j hj
    rw [← field_text _ (hspec t ht).1.1 j]
    exact hf t ht j (hfi j hj)

/-- **C04.passthrough_kline_fields** — end to end for FASTQ / two-line FASTA on plain LF files: after EVERY program, (1) on the
pass-through extractor every entry field of the result is the corresponding line of the SELECTED SOURCE entries without its
header bytes, and (2) the rows the driver's `evalTab` (eager fallback on `np.concatenate` included) yields are those same texts -/
theorem passthrough_kline_fields (K : Nat) (hK : 0 < K) (offs : List Nat) (hoffs : offs.length = K)
    (tables : List (List (List Bytes))) (hne : ∀ t ∈ tables, t ≠ []) (h : ∀ t ∈ tables, CleanTable 10 K t)
    (ho : ∀ t ∈ tables, OffsOK offs t) (hnocr : ∀ t ∈ tables, NoCRTable t) (p : Prog) :
    (∀ j, j < K → (p.evalExt (tables.map (kExt K offs))).map (fun e => e.fieldText j) =
      (p.evalSpec tables).map (·.map (fun l => (l.getD j []).drop (offs.getD j 0)))) ∧
    (∀ fidx : List Nat, (∀ j ∈ fidx, j < K) →
      (p.evalTab false fidx (tables.map (kExt K offs))).map (Tab.rows fidx) =
        (p.evalSpec tables).map (·.map (fun l => fidx.map (fun j => (l.getD j []).drop (offs.getD j 0))))) :=
  kline_program_any K hK offs tables hne h ho (fun j l => (l.getD j []).drop (offs.getD j 0))
    (fun t ht j hj => kline_fields_lf K hK offs t (h t ht) (hnocr t ht) j hj (by omega)) p

/-- **C04.passthrough_kline_fields_crlf** — the same on CRLF files: the texts additionally lose their carriage return -/
theorem passthrough_kline_fields_crlf (K : Nat) (hK : 0 < K) (offs : List Nat) (hoffs : offs.length = K)
    (tables : List (List (List Bytes))) (hne : ∀ t ∈ tables, t ≠ []) (h : ∀ t ∈ tables, CleanTable 10 K t)
    (ho : ∀ t ∈ tables, OffsOK offs t) (hcr : ∀ t ∈ tables, CRLines t) (p : Prog) :
    (∀ j, j < K → (p.evalExt (tables.map (kExt K offs))).map (fun e => e.fieldText j) =
      (p.evalSpec tables).map (·.map (fun l => (dropCR (l.getD j [])).drop (offs.getD j 0)))) ∧
    (∀ fidx : List Nat, (∀ j ∈ fidx, j < K) →
      (p.evalTab false fidx (tables.map (kExt K offs))).map (Tab.rows fidx) =
        (p.evalSpec tables).map (·.map (fun l => fidx.map (fun j => (dropCR (l.getD j [])).drop (offs.getD j 0))))) :=
  kline_program_any K hK offs tables hne h ho (fun j l => (dropCR (l.getD j [])).drop (offs.getD j 0))
    (fun t ht j hj => kline_fields_crlf K hK offs t (hne t ht) (h t ht) (hcr t ht) j hj (by omega)) p

/-- **C04.passthrough_kline_tab** — the bytes theorem for the evaluator the driver runs on FASTQ / FASTA: on every program
without concatenation `evalTab` yields the pass-through extractor, whose bytes are the selected entries' source bytes -/
theorem passthrough_kline_tab (K : Nat) (hK : 0 < K) (offs : List Nat) (fidx : List Nat)
    (tables : List (List (List Bytes))) (hne : ∀ t ∈ tables, t ≠ []) (h : ∀ t ∈ tables, CleanTable 10 K t)
    (ho : ∀ t ∈ tables, OffsOK offs t) (p : Prog) (hp : p.catFree = true) :
    p.evalTab false fidx (tables.map (kExt K offs)) = (p.evalExt (tables.map (kExt K offs))).map Tab.lz ∧
    (p.evalExt (tables.map (kExt K offs))).map Ext.bytes = (p.evalSpec (tables.map (·.map (dumpLine 10)))).map List.flatten :=
  ⟨evalTab_lz false fidx _ p (Or.inr hp), (passthrough_kline K hK offs tables hne h ho p).2⟩

/-! non-vacuity / meaning: the name of a FASTQ entry comes back without '@' -/
example : (kExt 4 [1, 0, 0, 0] [["@r1 d".toList.map Char.toNat, "ACGT".toList.map Char.toNat, "+".toList.map Char.toNat, "IIII".toList.map Char.toNat]]).fieldText 0
    = ["r1 d".toList.map Char.toNat] := by decide


/-! ### SAM -/

theorem zipWith_zipWith_left {α γ δ ε} (F : α → δ → ε) (h : α → γ → δ) :
    ∀ (A : List α) (B : List γ), List.zipWith F A (List.zipWith h A B) = List.zipWith (fun a b => F a (h a b)) A B
  | [], _ => by simp
  | _ :: _, [] => by simp
  | a :: as, b :: bs => by simp [zipWith_zipWith_left F h as bs]

/-- the first 11 field starts of a SAM line are the starts of its first 11 columns -/
theorem sam_starts (k : Nat) (l : List Bytes) (h11 : 11 ≤ l.length) :
    (k :: (lineDelims k l).map (· + 1)).take 11 = (offsFrom k l).take 11 := by
  have hne : l ≠ [] := by intro e; rw [e] at h11; simp at h11
  have hD := lineDelims_ne_nil k l
  have hsplit : lineDelims k l = (lineDelims k l).dropLast ++ [(lineDelims k l).getLast hD] :=
    (List.dropLast_concat_getLast hD).symm
  have : k :: (lineDelims k l).map (· + 1) = offsFrom k l ++ [(lineDelims k l).getLast hD + 1] := by
    conv => lhs; rw [hsplit]
    rw [List.map_append, ← List.cons_append, lineStarts_closed k l hne]
    rfl
  rw [this, List.take_append_of_le_length (by rw [offsFrom_length]; exact h11)]

/-- the text `get_field_by_number(j)` (j < 11) reads from one SAM line, for both settings of the CR switch -/
theorem sam_field_rows (j : Nat) (hj : j < 11) (strip : Bool) (lines : List (List Bytes))
    (h : ∀ l ∈ lines, 11 ≤ l.length ∧ l.getLastD [] ≠ []) :
    ∀ (Pfx tail : Bytes),
      List.zipWith (fun s E =>
          slice (Pfx ++ dumpFile 9 lines ++ tail) (s.getD j 0) ((List.zipWith (fun s e => e - s) s E).getD j 0))
        (List.zipWith (fun ls g => (ls :: g.map (· + 1)).take 11) (lineOffsets 9 Pfx.length lines) (lineGroups 9 Pfx.length lines))
        ((lineGroups 9 Pfx.length lines).map
          (fun g => ((if strip then stripCR (Pfx ++ dumpFile 9 lines ++ tail) g else g)).take 11))
      = lines.map (fun l => if (strip && j + 1 == l.length) then dropCR (l.getD j []) else l.getD j []) := by
  induction lines with
  | nil => intro Pfx tail; rfl
  | cons l ls ih =>
    intro Pfx tail
    obtain ⟨h11, hlast⟩ := h l (by simp)
    have hl : l ≠ [] := by intro e; rw [e] at h11; simp at h11
    have hdata : Pfx ++ dumpFile 9 (l :: ls) ++ tail = Pfx ++ dumpLine 9 l ++ (dumpFile 9 ls ++ tail) := by
      simp [dumpFile, List.append_assoc]
    have hdata2 : Pfx ++ dumpFile 9 (l :: ls) ++ tail = (Pfx ++ dumpLine 9 l) ++ dumpFile 9 ls ++ tail := by
      simp [dumpFile, List.append_assoc]
    have h2 := ih (fun x hx => h x (by simp [hx])) (Pfx ++ dumpLine 9 l) tail
    simp only [List.length_append] at h2
    simp only [lineOffsets, lineGroups, List.zipWith_cons_cons, List.map_cons]
    congr 1
    · rw [sam_starts Pfx.length l h11]
      have hjl : j < l.length := by omega
      have hj1 : j < (offsFrom Pfx.length l).length := by rw [offsFrom_length]; exact hjl
      have hDlen := lineDelims_length Pfx.length l hl
      have hjD : j < (lineDelims Pfx.length l).length := by rw [hDlen]; exact hjl
      have hs : ((offsFrom Pfx.length l).take 11).getD j 0 = (offsFrom Pfx.length l)[j] := by
        simp [List.getD_eq_getElem?_getD, List.getElem?_take, hj, List.getElem?_eq_getElem hj1]
      have hDj : (lineDelims Pfx.length l)[j] = (offsFrom Pfx.length l)[j] + (l[j]).length := by
        have := lineDelims_closed Pfx.length l hl
        simp [this]
      obtain ⟨E, hE⟩ : ∃ E, E = (if strip then stripCR (Pfx ++ dumpFile 9 (l :: ls) ++ tail) (lineDelims Pfx.length l)
          else lineDelims Pfx.length l) := ⟨_, rfl⟩
      have hElen : E.length = l.length := by
        rw [hE]; cases strip
        · simpa using hDlen
        · simp only [if_true]; rw [(stripCR_spec _ _).1, hDlen]
      have hjE : j < E.length := by rw [hElen]; exact hjl
      have hEj : E[j] = (offsFrom Pfx.length l)[j] +
          (if (strip && j + 1 == l.length) then dropCR (l[j]) else l[j]).length := by
        cases hst : strip with
        | false =>
          have : E = lineDelims Pfx.length l := by rw [hE, hst]; rfl
          simp only [this, Bool.false_and, Bool.false_eq_true, if_false]
          exact hDj
        | true =>
          have hE' : E = stripCR (Pfx ++ dumpFile 9 (l :: ls) ++ tail) (lineDelims Pfx.length l) := by rw [hE, hst]; rfl
          obtain ⟨s1, s2, s3⟩ := stripCR_spec (Pfx ++ dumpFile 9 (l :: ls) ++ tail) (lineDelims Pfx.length l)
          by_cases hjl1 : j + 1 = l.length
          · have hcond : (true && j + 1 == l.length) = true := by simp [hjl1]
            rw [hcond]; simp only [if_true]
            have hsl := stripCR_last 9 Pfx (dumpFile 9 ls ++ tail) l hl hlast
            rw [← hdata, ← hE'] at hsl
            have e1 : E.getLastD 0 = E[j] := by
              rw [getLastD_eq_getD_pred, hElen, List.getD_eq_getElem?_getD]
              have : l.length - 1 = j := by omega
              rw [this, List.getElem?_eq_getElem hjE]; rfl
            have e2 : (offsFrom Pfx.length l).getLastD 0 = (offsFrom Pfx.length l)[j] := by
              rw [getLastD_eq_getD_pred, offsFrom_length, List.getD_eq_getElem?_getD]
              have : l.length - 1 = j := by omega
              rw [this, List.getElem?_eq_getElem hj1]; rfl
            have e3 : l.getLastD [] = l[j] := by
              rw [getLastD_eq_getD_pred, List.getD_eq_getElem?_getD]
              have : l.length - 1 = j := by omega
              rw [this, List.getElem?_eq_getElem hjl]; rfl
            rw [e1, e2, e3] at hsl
            exact hsl
          · have hcond : (true && j + 1 == l.length) = false := by simp [hjl1]
            rw [hcond]; simp only [Bool.false_eq_true, if_false]
            have := s3 j (by rw [hDlen]; omega)
            rw [← hE'] at this
            simp only [List.getD_eq_getElem?_getD, List.getElem?_eq_getElem hjE, List.getElem?_eq_getElem hjD, Option.getD_some] at this
            rw [this]; exact hDj
      have hLen : (List.zipWith (fun s e => e - s) ((offsFrom Pfx.length l).take 11) (E.take 11)).getD j 0
          = (if (strip && j + 1 == l.length) then dropCR (l[j]) else l[j]).length := by
        simp [List.getD_eq_getElem?_getD, List.getElem?_zipWith, List.getElem?_take, hj, List.getElem?_eq_getElem hj1,
          List.getElem?_eq_getElem hjE, hEj]
      rw [← hE, hs, hLen, hdata]
      have hm : (if (strip && j + 1 == l.length) then dropCR (l[j]) else l[j]).length ≤ (l[j]).length := by
        split
        · exact dropCR_len_le _
        · exact Nat.le_refl _
      have := line_field_cut 9 Pfx (dumpFile 9 ls ++ tail) l j hjl 0 _ hm
      simp only [Nat.add_zero, Nat.sub_zero, List.drop_zero] at this
      rw [this]
      simp only [List.getD_eq_getElem?_getD, List.getElem?_eq_getElem hjl, Option.getD_some]
      split
      · exact dropCR_prefix _
      · exact List.take_length
    · rw [hdata2]; exact h2

/-- the carriage-return switch of `SAMBuffer._modify_for_carriage_return` on the dumped file -/
def samCR (lines : List (List Bytes)) : Bool := crFlag (dumpFile 9 lines) (lineGroups 9 0 lines)

theorem samExt_inv (lines : List (List Bytes)) (hne : lines ≠ []) (h : SamTable 11 lines) :
    Inv (samExt lines) ∧ (samExt lines).abs.map (·.raw) = lines.map (dumpLine 9) := by
  obtain ⟨e, he, hi, hr⟩ := build_sam_records lines hne h
  rw [buildSam_eq lines hne h] at he
  simp only [Option.some.injEq] at he
  subst he
  exact ⟨hi, hr⟩

/-- **C04.sam_fields** — SOURCE-LEVEL field text for SAM: for EVERY body of lines with at least 11 clean columns (any
number of optional tags, last column non-empty), each of the 11 mandatory fields of the constructed extractor is, line by line,
exactly the source column — except that when the carriage-return switch is on and the line has no tags, the 11th field
loses its trailing CR -/
theorem sam_fields (lines : List (List Bytes)) (hne : lines ≠ []) (h : SamTable 11 lines)
    (hlast : ∀ l ∈ lines, l.getLastD [] ≠ []) (j : Nat) (hj : j < 11) :
    (samExt lines).fieldText j =
      lines.map (fun l => if (samCR lines && j + 1 == l.length) then dropCR (l.getD j []) else l.getD j []) := by
  have hwf := (samExt_inv lines hne h).1.1.1
  rw [fieldText_zip _ hwf j]
  have hGs : ((if crFlag (dumpFile 9 lines) (lineGroups 9 0 lines) then (lineGroups 9 0 lines).map (stripCR (dumpFile 9 lines))
      else lineGroups 9 0 lines)).map (·.take 11) =
      (lineGroups 9 0 lines).map (fun g => ((if samCR lines then stripCR (dumpFile 9 lines) g else g)).take 11) := by
    unfold samCR
    cases crFlag (dumpFile 9 lines) (lineGroups 9 0 lines) <;> simp [List.map_map, Function.comp]
  unfold samExt samExtE
  simp only
  rw [zipWith_zipWith_left, hGs]
  have := sam_field_rows j hj (samCR lines) lines (fun l hl => ⟨(h l hl).1, hlast l hl⟩) [] []
  simp only [List.length_nil, List.nil_append, List.append_nil] at this
  exact this

/-- **C04.sam_fields_tags** — in particular: lines that carry at least one tag (or plain LF text) have all 11 fields exact -/
theorem sam_fields_exact (lines : List (List Bytes)) (hne : lines ≠ []) (h : SamTable 11 lines)
    (hlast : ∀ l ∈ lines, l.getLastD [] ≠ [])
    (hok : ∀ l ∈ lines, 11 < l.length ∨ ∀ b ∈ l.getD 10 [], b ≠ 13) (j : Nat) (hj : j < 11) :
    (samExt lines).fieldText j = lines.map (fun l => l.getD j []) := by
  rw [sam_fields lines hne h hlast j hj]
  apply List.map_congr_left
  intro l hl
  split
  · rename_i hc
    simp only [Bool.and_eq_true, beq_iff_eq] at hc
    have h11 := (h l hl).1
    have hj10 : j = 10 := by omega
    rcases hok l hl with h1 | h1
    · omega
    · subst hj10; exact dropCR_noCR _ h1
  · rfl


/-! ### "rest of line" columns at source level (VCF genotype columns, SAM tags) -/

/-- a dumped line, split in front of its j-th field -/
theorem line_tail (sep : Nat) (l : List Bytes) :
    ∀ (k j : Nat) (hj : j < l.length), ∃ A : Bytes,
      dumpLine sep l = A ++ intercalate [sep] (l.drop j) ++ [10] ∧
      A.length = (offsFrom k l)[j]'(by rw [offsFrom_length]; exact hj) - k := by
  induction l with
  | nil => intro k j hj; simp at hj
  | cons f r ih =>
    intro k j hj
    cases j with
    | zero => exact ⟨[], by simp [dumpLine], by simp [offsFrom]⟩
    | succ j =>
      cases r with
      | nil => simp at hj
      | cons g r' =>
        have hj' : j < (g :: r').length := by simp at hj ⊢; omega
        obtain ⟨A, hA, hlen⟩ := ih (k + f.length + 1) j hj'
        have hge := offsFrom_ge (k + f.length + 1) (g :: r') _ (List.getElem_mem (by rw [offsFrom_length]; exact hj'))
        refine ⟨f ++ [sep] ++ A, ?_, ?_⟩
        · rw [dumpLine_cons_cons, hA]; simp [List.append_assoc]
        · simp only [offsFrom, List.getElem_cons_succ, List.length_append, List.length_singleton, hlen]
          simp only [offsFrom] at hge
          omega

theorem offsFrom_succ (l : List Bytes) :
    ∀ (k j : Nat) (hj : j + 1 < l.length),
      (offsFrom k l)[j + 1]'(by rw [offsFrom_length]; exact hj) =
        (offsFrom k l)[j]'(by rw [offsFrom_length]; omega) + (l[j]'(by omega)).length + 1 := by
  induction l with
  | nil => intro k j hj; simp at hj
  | cons f r ih =>
    intro k j hj
    cases r with
    | nil => simp at hj
    | cons g r' =>
      cases j with
      | zero => simp [offsFrom]
      | succ j =>
        have := ih (k + f.length + 1) j (by simp at hj ⊢; omega)
        simpa [offsFrom] using this

/-- the end of the last field of a dumped line, measured from the start of field j, is the length of the text from field j on -/
theorem tail_len (sep : Nat) (l : List Bytes) (k j : Nat) (hj : j < l.length) :
    (offsFrom k l)[l.length - 1]'(by rw [offsFrom_length]; omega) + (l[l.length - 1]'(by omega)).length =
      (offsFrom k l)[j]'(by rw [offsFrom_length]; exact hj) + (intercalate [sep] (l.drop j)).length := by
  have hlast : l.length - 1 < l.length := by omega
  obtain ⟨A, hA, hAl⟩ := line_tail sep l k j hj
  obtain ⟨B, hB, hBl⟩ := line_tail sep l k (l.length - 1) hlast
  have hdrop : l.drop (l.length - 1) = [l[l.length - 1]] := by
    rw [List.drop_eq_getElem_cons hlast]
    have : l.length - 1 + 1 = l.length := by omega
    rw [this, List.drop_length]
  rw [hdrop] at hB
  simp only [intercalate] at hB
  have h1 := congrArg List.length hA
  have h2 := congrArg List.length hB
  simp only [List.length_append, List.length_singleton] at h1 h2
  have g1 := offsFrom_ge k l _ (List.getElem_mem (by rw [offsFrom_length]; exact hj : j < (offsFrom k l).length))
  have g2 := offsFrom_ge k l _ (List.getElem_mem (by rw [offsFrom_length]; exact hlast : l.length - 1 < (offsFrom k l).length))
  omega

/-- inside the whole file: the first `c` bytes of the text of a line from its j-th field on -/
theorem line_rest_text (sep : Nat) (Pfx rest : Bytes) (l : List Bytes) (j : Nat) (hj : j < l.length) (c : Nat) :
    slice (Pfx ++ dumpLine sep l ++ rest) ((offsFrom Pfx.length l)[j]'(by rw [offsFrom_length]; exact hj)) c
      = (intercalate [sep] (l.drop j) ++ [10] ++ rest).take c := by
  obtain ⟨A, hA, hAl⟩ := line_tail sep l Pfx.length j hj
  have hge := offsFrom_ge Pfx.length l _ (List.getElem_mem (by rw [offsFrom_length]; exact hj : j < (offsFrom Pfx.length l).length))
  have hd : Pfx ++ dumpLine sep l ++ rest = (Pfx ++ A) ++ (intercalate [sep] (l.drop j) ++ [10] ++ rest) := by
    rw [hA]; simp [List.append_assoc]
  have hlen : (Pfx ++ A).length = (offsFrom Pfx.length l)[j]'(by rw [offsFrom_length]; exact hj) := by
    simp only [List.length_append, hAl]; omega
  rw [hd, ← hlen]
  have := slice_append_right (Pfx ++ A) (intercalate [sep] (l.drop j) ++ [10] ++ rest) 0 c
  rw [Nat.add_zero] at this
  rw [this]
  unfold slice; simp

theorem intercalate_getLast? (sep : Nat) (fs : List Bytes) (hne : fs ≠ []) (hl : fs.getLast hne ≠ []) :
    (intercalate [sep] fs).getLast? = (fs.getLast hne).getLast? := by
  induction fs with
  | nil => exact absurd rfl hne
  | cons f r ih =>
    cases r with
    | nil => rfl
    | cons g r' =>
      have hne' : (g :: r') ≠ [] := by simp
      have hl' : (g :: r').getLast hne' ≠ [] := by simpa [List.getLast_cons hne'] using hl
      have hi := ih hne' hl'
      obtain ⟨v, hv⟩ : ∃ v, ((g :: r').getLast hne').getLast? = some v := by
        cases hx : (g :: r').getLast hne' with
        | nil => exact absurd hx hl'
        | cons a b => exact ⟨_, List.getLast?_eq_some_getLast (by simp)⟩
      simp only [intercalate]
      rw [List.getLast?_append, hi, List.getLast_cons hne', hv]
      rfl

/-- dropping the CR of the last field of a tail = dropping the CR of the tail's text -/
theorem dropCR_tail (sep : Nat) (fs : List Bytes) (hne : fs ≠ []) (hl : fs.getLast hne ≠ []) :
    (intercalate [sep] fs).take ((intercalate [sep] fs).length - ((fs.getLast hne).length - (dropCR (fs.getLast hne)).length))
      = dropCR (intercalate [sep] fs) := by
  have hg := intercalate_getLast? sep fs hne hl
  unfold dropCR
  rw [hg]
  by_cases h13 : (fs.getLast hne).getLast? = some 13
  · simp only [h13, if_true, List.length_dropLast]
    have hpos : 0 < (fs.getLast hne).length := List.length_pos_iff.mpr hl
    have : (fs.getLast hne).length - ((fs.getLast hne).length - 1) = 1 := by omega
    rw [this, List.dropLast_eq_take]
  · simp only [h13, if_false, Nat.sub_self, Nat.sub_zero, List.take_length]


theorem dropCR_tail' (sep : Nat) (fs : List Bytes) (x : Bytes) (hx : fs.getLast? = some x) (hxne : x ≠ []) :
    (intercalate [sep] fs).take ((intercalate [sep] fs).length - (x.length - (dropCR x).length)) = dropCR (intercalate [sep] fs) := by
  have hne : fs ≠ [] := by intro e; rw [e] at hx; simp at hx
  have hxe : fs.getLast hne = x := by
    rw [List.getLast?_eq_some_getLast hne] at hx; exact Option.some.inj hx
  have := dropCR_tail sep fs hne (by rw [hxe]; exact hxne)
  rw [hxe] at this
  exact this

/-- the text of one dumped line from its j-th field up to `m` bytes into its last field -/
theorem line_rest_cut (sep : Nat) (Pfx rest : Bytes) (l : List Bytes) (j : Nat) (hj : j < l.length) (oj oL : Nat) (xL : Bytes)
    (hoj : (offsFrom Pfx.length l)[j]? = some oj) (hoL : (offsFrom Pfx.length l)[l.length - 1]? = some oL)
    (hxL : l[l.length - 1]? = some xL) (m : Nat) (hm : m ≤ xL.length) :
    slice (Pfx ++ dumpLine sep l ++ rest) oj (oL + m - oj)
      = (intercalate [sep] (l.drop j)).take ((intercalate [sep] (l.drop j)).length - (xL.length - m)) := by
  have hL : l.length - 1 < l.length := by omega
  have hjo : j < (offsFrom Pfx.length l).length := by rw [offsFrom_length]; exact hj
  have hLo : l.length - 1 < (offsFrom Pfx.length l).length := by rw [offsFrom_length]; exact hL
  have htl := tail_len sep l Pfx.length j hj
  have hrt := line_rest_text sep Pfx rest l j hj
  rw [List.getElem?_eq_getElem hjo] at hoj
  rw [List.getElem?_eq_getElem hLo] at hoL
  rw [List.getElem?_eq_getElem hL] at hxL
  simp only [Option.some.injEq] at hoj hoL hxL
  rw [hoj] at htl hrt
  rw [hoL, hxL] at htl
  rw [hrt]
  have hc : oL + m - oj = (intercalate [sep] (l.drop j)).length - (xL.length - m) := by omega
  rw [hc, List.append_assoc, List.take_append_of_le_length (by omega)]

/-- the rows of a delimited extractor: "rest of line from field j" under both settings of the CR switch -/
theorem rest_rows (sep n j : Nat) (hj : j < n) (strip : Bool) (lines : List (List Bytes))
    (h : ∀ l ∈ lines, l.length = n ∧ l.getLastD [] ≠ []) :
    ∀ (Pfx tail : Bytes),
      (expRowsE sep Pfx.length lines ((lineGroups sep Pfx.length lines).map
          (fun g => if strip then stripCR (Pfx ++ dumpFile sep lines ++ tail) g else g))).map
        (fun r => slice (Pfx ++ dumpFile sep lines ++ tail) (r.fS.getD j 0) (r.fS.getLastD 0 + r.fL.getLastD 0 - r.fS.getD j 0))
      = lines.map (fun l => if strip then dropCR (intercalate [sep] (l.drop j)) else intercalate [sep] (l.drop j)) := by
  induction lines with
  | nil => intro Pfx tail; simp [expRowsE]
  | cons l ls ih =>
    intro Pfx tail
    obtain ⟨hln, hlast⟩ := h l (by simp)
    have hne : l ≠ [] := by intro e; rw [e] at hln; simp at hln; omega
    have hdata : Pfx ++ dumpFile sep (l :: ls) ++ tail = Pfx ++ dumpLine sep l ++ (dumpFile sep ls ++ tail) := by
      simp [dumpFile, List.append_assoc]
    have hdata2 : Pfx ++ dumpFile sep (l :: ls) ++ tail = (Pfx ++ dumpLine sep l) ++ dumpFile sep ls ++ tail := by
      simp [dumpFile, List.append_assoc]
    simp only [lineGroups, List.map_cons, expRowsE]
    congr 1
    · have hjl : j < l.length := by omega
      have hL : l.length - 1 < l.length := by omega
      have hoff : (offsFrom Pfx.length l).length = l.length := offsFrom_length _ _
      have hjo : j < (offsFrom Pfx.length l).length := by rw [hoff]; exact hjl
      have hLo : l.length - 1 < (offsFrom Pfx.length l).length := by rw [hoff]; exact hL
      have hDlen := lineDelims_length Pfx.length l hne
      have hgl : (l.drop j).getLast? = some (l[l.length - 1]) := by
        rw [List.getLast?_drop, if_neg (by omega), List.getLast?_eq_getElem?, List.getElem?_eq_getElem hL]
      have hllb := line_last_byte sep Pfx (dumpFile sep ls ++ tail) l hne hlast
      have hsl := stripCR_last sep Pfx (dumpFile sep ls ++ tail) l hne hlast
      have hlL0 : l.getLastD [] = l[l.length - 1] := by
        rw [getLastD_eq_getD_pred, List.getD_eq_getElem?_getD, List.getElem?_eq_getElem hL]; rfl
      have hoL0 : (offsFrom Pfx.length l).getLastD 0 = (offsFrom Pfx.length l)[l.length - 1] := by
        have : (offsFrom Pfx.length l).getLastD 0 = (offsFrom Pfx.length l).getD (l.length - 1) 0 := by
          rw [getLastD_eq_getD_pred, hoff]
        rw [this, List.getD_eq_getElem?_getD, List.getElem?_eq_getElem hLo]; rfl
      have hfSj0 : (offsFrom Pfx.length l).getD j 0 = (offsFrom Pfx.length l)[j] := by
        rw [List.getD_eq_getElem?_getD, List.getElem?_eq_getElem hjo]; rfl
      have hcut0 := line_rest_cut sep Pfx (dumpFile sep ls ++ tail) l j hjl _ _ _
        (List.getElem?_eq_getElem hjo) (List.getElem?_eq_getElem hLo) (List.getElem?_eq_getElem hL)
      obtain ⟨xL, hxL⟩ : ∃ x, x = l[l.length - 1] := ⟨_, rfl⟩
      obtain ⟨oL, hoLd⟩ : ∃ o, o = (offsFrom Pfx.length l)[l.length - 1] := ⟨_, rfl⟩
      obtain ⟨oj, hojd⟩ : ∃ o, o = (offsFrom Pfx.length l)[j] := ⟨_, rfl⟩
      rw [← hxL, ← hoLd, ← hojd] at hcut0
      rw [← hxL] at hgl hlL0
      rw [← hoLd] at hoL0
      rw [← hojd] at hfSj0
      rw [hlL0, hoL0] at hllb hsl
      rw [hlL0] at hlast
      rw [← hdata] at hsl
      obtain ⟨E, hE⟩ : ∃ E, E = (if strip then stripCR (Pfx ++ dumpFile sep (l :: ls) ++ tail) (lineDelims Pfx.length l)
          else lineDelims Pfx.length l) := ⟨_, rfl⟩
      rw [← hE]
      have hElen : E.length = l.length := by
        rw [hE]; cases strip
        · simpa using hDlen
        · simp only [if_true]; rw [(stripCR_spec _ _).1, hDlen]
      -- the end the switch leaves for the last field
      have hElast : E.getLastD 0 = oL + (if strip then dropCR xL else xL).length := by
        cases hst : strip with
        | false =>
          have : E = lineDelims Pfx.length l := by rw [hE, hst]; rfl
          rw [this]
          simpa using hllb.1
        | true =>
          have hE' : E = stripCR (Pfx ++ dumpFile sep (l :: ls) ++ tail) (lineDelims Pfx.length l) := by rw [hE, hst]; rfl
          rw [hE']
          simpa using hsl
      have hfLlast : (List.zipWith (fun s e => e - s) (offsFrom Pfx.length l) E).getLastD 0 = E.getLastD 0 - oL := by
        have h1 : (List.zipWith (fun s e => e - s) (offsFrom Pfx.length l) E).getLastD 0 =
            (List.zipWith (fun s e => e - s) (offsFrom Pfx.length l) E).getD (l.length - 1) 0 := by
          rw [getLastD_eq_getD_pred]; simp only [List.length_zipWith, hoff, hElen, Nat.min_self]
        have h2 : E.getLastD 0 = E.getD (l.length - 1) 0 := by rw [getLastD_eq_getD_pred, hElen]
        have hLE : l.length - 1 < E.length := by rw [hElen]; exact hL
        rw [h1, h2, hoLd]
        simp [List.getD_eq_getElem?_getD, List.getElem?_zipWith, List.getElem?_eq_getElem hLo, List.getElem?_eq_getElem hLE]
      rw [hfSj0, hoL0, hfLlast, hElast, hdata]
      have hm : (if strip then dropCR xL else xL).length ≤ xL.length := by
        split
        · exact dropCR_len_le _
        · exact Nat.le_refl _
      have hcut := hcut0 _ hm
      have e0 : oL + (oL + (if strip then dropCR xL else xL).length - oL) - oj
          = oL + (if strip then dropCR xL else xL).length - oj := by omega
      rw [e0, hcut]
      cases strip with
      | false => simp
      | true =>
        simp only [if_true]
        exact dropCR_tail' sep (l.drop j) _ hgl hlast
    · have := ih (fun x hx => h x (by simp [hx])) (Pfx ++ dumpLine sep l) tail
      simp only [List.length_append] at this
      rw [hdata2]
      exact this

/-- the CR switch of the delimited construction on the dumped file -/
def delimCR (sep : Nat) (lines : List (List Bytes)) : Bool := crFlag (dumpFile sep lines) (lineGroups sep 0 lines)

/-- **C04.delimited_rest** — SOURCE-LEVEL "rest of line" (`get_fields_by_range(from_nr=j)`, the VCF genotype columns): for EVERY
table of n clean fields per line with non-empty last fields, it is, line by line, the source text from column j to the end of the
line (columns joined by the separator) — without the trailing CR when the carriage-return switch is on -/
theorem delimited_rest (sep n : Nat) (hn : 0 < n) (lines : List (List Bytes)) (h : CleanTable sep n lines)
    (hlast : ∀ l ∈ lines, l.getLastD [] ≠ []) (j : Nat) (hj : j < n) :
    (expExtG sep lines).rest j =
      lines.map (fun l => if delimCR sep lines then dropCR (intercalate [sep] (l.drop j)) else intercalate [sep] (l.drop j)) := by
  have hlne : ∀ l ∈ lines, l ≠ [] := by
    intro l hl e; have := (h l hl).1; rw [e] at this; simp at this; omega
  have hEs : endsOf (dumpFile sep lines) (lineGroups sep 0 lines) =
      (lineGroups sep 0 lines).map (fun g => if delimCR sep lines then stripCR (dumpFile sep lines) g else g) := by
    unfold endsOf delimCR
    cases crFlag (dumpFile sep lines) (lineGroups sep 0 lines) <;> simp
  have hrows : (expExtG sep lines).rows = expRowsE sep 0 lines
      ((lineGroups sep 0 lines).map (fun g => if delimCR sep lines then stripCR (dumpFile sep lines) g else g)) := by
    unfold expExtG; rw [hEs]
    exact rows_expE sep lines hlne _ 0 _ true (by simp [lineGroups_length])
  have := rest_rows sep n j hj (delimCR sep lines) lines (fun l hl => ⟨(h l hl).1, hlast l hl⟩) [] []
  simp only [List.length_nil, List.nil_append, List.append_nil] at this
  unfold Ext.rest
  rw [hrows]
  exact this


/-- what `_get_extra_field` computes on one row -/
def extraOf (d : Bytes) (r : Row) : Bytes :=
  let st := r.fS.getLastD 0 + r.fL.getLastD 0 + 1
  let lineEnd := r.eE - 1 - (if byteAt d (r.eE - 2) == 13 then 1 else 0)
  slice d st (lineEnd - st)

theorem samExtra_eq (e : Ext) : e.samExtra = e.rows.map (extraOf e.data) := rfl

theorem slice_zero_len {α} (d : List α) (s : Nat) : slice d s 0 = [] := by simp [slice]

/-- one SAM line inside the file: the tags text under both settings of the CR switch -/
theorem sam_extra_row (Pfx rest : Bytes) (l : List Bytes) (h11 : 11 ≤ l.length) (hlast : l.getLastD [] ≠ []) (strip : Bool) :
    extraOf (Pfx ++ dumpLine 9 l ++ rest)
      ⟨(Pfx.length :: (lineDelims Pfx.length l).map (· + 1)).take 11,
       List.zipWith (fun s e => e - s) ((Pfx.length :: (lineDelims Pfx.length l).map (· + 1)).take 11)
         ((if strip then stripCR (Pfx ++ dumpLine 9 l ++ rest) (lineDelims Pfx.length l) else lineDelims Pfx.length l).take 11),
       Pfx.length, (lineDelims Pfx.length l).getLastD 0 + 1⟩
      = dropCR (intercalate [9] (l.drop 11)) := by
  have hne : l ≠ [] := by intro e; rw [e] at h11; simp at h11
  have hL : l.length - 1 < l.length := by omega
  have h10 : 10 < l.length := by omega
  have hoff : (offsFrom Pfx.length l).length = l.length := offsFrom_length _ _
  have hLo : l.length - 1 < (offsFrom Pfx.length l).length := by rw [hoff]; exact hL
  have h10o : 10 < (offsFrom Pfx.length l).length := by rw [hoff]; exact h10
  have hDlen := lineDelims_length Pfx.length l hne
  have h10D : 10 < (lineDelims Pfx.length l).length := by rw [hDlen]; exact h10
  have hllb := line_last_byte 9 Pfx rest l hne hlast
  have hsl := stripCR_last 9 Pfx rest l hne hlast
  have hlL0 : l.getLastD [] = l[l.length - 1] := by
    rw [getLastD_eq_getD_pred, List.getD_eq_getElem?_getD, List.getElem?_eq_getElem hL]; rfl
  have hoL0 : (offsFrom Pfx.length l).getLastD 0 = (offsFrom Pfx.length l)[l.length - 1] := by
    have : (offsFrom Pfx.length l).getLastD 0 = (offsFrom Pfx.length l).getD (l.length - 1) 0 := by
      rw [getLastD_eq_getD_pred, hoff]
    rw [this, List.getD_eq_getElem?_getD, List.getElem?_eq_getElem hLo]; rfl
  have hD10 : (lineDelims Pfx.length l)[10] = (offsFrom Pfx.length l)[10] + (l[10]).length := by
    have := lineDelims_closed Pfx.length l hne
    simp [this]
  obtain ⟨E, hE⟩ : ∃ E, E = (if strip then stripCR (Pfx ++ dumpLine 9 l ++ rest) (lineDelims Pfx.length l)
      else lineDelims Pfx.length l) := ⟨_, rfl⟩
  rw [← hE]
  have hElen : E.length = l.length := by
    rw [hE]; cases strip
    · simpa using hDlen
    · simp only [if_true]; rw [(stripCR_spec _ _).1, hDlen]
  have h10E : 10 < E.length := by rw [hElen]; exact h10
  rw [sam_starts Pfx.length l h11]
  -- last entries of the two 11-long tables
  have hfS : ((offsFrom Pfx.length l).take 11).getLastD 0 = (offsFrom Pfx.length l)[10] := by
    rw [getLastD_eq_getD_pred]
    have : ((offsFrom Pfx.length l).take 11).length = 11 := by rw [List.length_take, hoff]; omega
    rw [this]
    simp [List.getD_eq_getElem?_getD, List.getElem?_take, List.getElem?_eq_getElem h10o]
  have hfL : (List.zipWith (fun s e => e - s) ((offsFrom Pfx.length l).take 11) (E.take 11)).getLastD 0 =
      E[10] - (offsFrom Pfx.length l)[10] := by
    rw [getLastD_eq_getD_pred]
    have : (List.zipWith (fun s e => e - s) ((offsFrom Pfx.length l).take 11) (E.take 11)).length = 11 := by
      simp only [List.length_zipWith, List.length_take, hoff, hElen]; omega
    rw [this]
    simp [List.getD_eq_getElem?_getD, List.getElem?_zipWith, List.getElem?_take, List.getElem?_eq_getElem h10o,
      List.getElem?_eq_getElem h10E]
  unfold extraOf
  simp only
  rw [hfS, hfL]
  -- the line end
  obtain ⟨xL, hxL⟩ : ∃ x, x = l[l.length - 1] := ⟨_, rfl⟩
  obtain ⟨oL, hoLd⟩ : ∃ o, o = (offsFrom Pfx.length l)[l.length - 1] := ⟨_, rfl⟩
  rw [← hxL] at hlL0
  rw [← hoLd] at hoL0
  rw [hlL0, hoL0] at hllb hsl
  rw [hlL0] at hlast
  obtain ⟨g1, g2, g3⟩ := hllb
  have hpos : 0 < xL.length := g2
  have hend : (lineDelims Pfx.length l).getLastD 0 + 1 - 1 -
      (if byteAt (Pfx ++ dumpLine 9 l ++ rest) ((lineDelims Pfx.length l).getLastD 0 + 1 - 2) == 13 then 1 else 0)
      = oL + (dropCR xL).length := by
    have e2 : (lineDelims Pfx.length l).getLastD 0 + 1 - 2 = (lineDelims Pfx.length l).getLastD 0 - 1 := by omega
    have hb : xL.getLast? = some (byteAt (Pfx ++ dumpLine 9 l ++ rest) ((lineDelims Pfx.length l).getLastD 0 - 1)) := g3.symm
    rw [e2, g1]
    rw [g1] at hb
    generalize byteAt (Pfx ++ dumpLine 9 l ++ rest) (oL + xL.length - 1) = b at hb
    unfold dropCR
    rw [hb]
    by_cases h13 : b = 13
    · subst h13; simp; omega
    · have : (b == 13) = false := by simp [h13]
      simp [this, h13]
  rw [hend]
  by_cases hl11 : l.length = 11
  · -- no tags: nothing between the 11th field and the line end
    have hidx : l.length - 1 = 10 := by omega
    have hE10 : (offsFrom Pfx.length l)[10] + (dropCR xL).length ≤ E[10] ∧ oL = (offsFrom Pfx.length l)[10] := by
      have hoL10 : oL = (offsFrom Pfx.length l)[10] := by rw [hoLd]; simp [hidx]
      have hx10 : xL = l[10] := by rw [hxL]; simp [hidx]
      refine ⟨?_, hoL10⟩
      cases hst : strip with
      | false =>
        have : E = lineDelims Pfx.length l := by rw [hE, hst]; rfl
        simp only [this, hD10, ← hx10]
        have := dropCR_len_le xL; omega
      | true =>
        have hE' : E = stripCR (Pfx ++ dumpLine 9 l ++ rest) (lineDelims Pfx.length l) := by rw [hE, hst]; rfl
        rw [← hE'] at hsl
        have : E.getLastD 0 = E[10] := by
          have h2 : E.getLastD 0 = E.getD (l.length - 1) 0 := by rw [getLastD_eq_getD_pred, hElen]
          rw [h2, hidx, List.getD_eq_getElem?_getD, List.getElem?_eq_getElem h10E]; rfl
        rw [this, hoL10] at hsl
        omega
    have hz : oL + (dropCR xL).length - ((offsFrom Pfx.length l)[10] + (E[10] - (offsFrom Pfx.length l)[10]) + 1) = 0 := by
      obtain ⟨a, b⟩ := hE10; omega
    rw [hz, slice_zero_len]
    have : l.drop 11 = [] := by rw [← hl11]; exact List.drop_length
    rw [this]; rfl
  · -- tags: from the start of column 12 to the CR-less line end
    have h11' : 11 < l.length := by omega
    have h11o : 11 < (offsFrom Pfx.length l).length := by rw [hoff]; exact h11'
    have hE10 : E[10] = (offsFrom Pfx.length l)[10] + (l[10]).length := by
      cases hst : strip with
      | false =>
        have : E = lineDelims Pfx.length l := by rw [hE, hst]; rfl
        simp only [this, hD10]
      | true =>
        have hE' : E = stripCR (Pfx ++ dumpLine 9 l ++ rest) (lineDelims Pfx.length l) := by rw [hE, hst]; rfl
        have := (stripCR_spec (Pfx ++ dumpLine 9 l ++ rest) (lineDelims Pfx.length l)).2.2 10 (by rw [hDlen]; omega)
        rw [← hE'] at this
        simp only [List.getD_eq_getElem?_getD, List.getElem?_eq_getElem h10E, List.getElem?_eq_getElem h10D, Option.getD_some] at this
        rw [this, hD10]
    have hsucc := offsFrom_succ l Pfx.length 10 h11'
    have hst : (offsFrom Pfx.length l)[10] + (E[10] - (offsFrom Pfx.length l)[10]) + 1 = (offsFrom Pfx.length l)[11] := by
      rw [hE10, hsucc]; omega
    rw [hst]
    have hcut := line_rest_cut 9 Pfx rest l 11 h11' _ oL xL (List.getElem?_eq_getElem h11o)
      (by rw [List.getElem?_eq_getElem hLo, hoLd]) (by rw [List.getElem?_eq_getElem hL, hxL]) (dropCR xL).length (dropCR_len_le xL)
    rw [hcut]
    have hgl : (l.drop 11).getLast? = some xL := by
      rw [List.getLast?_drop, if_neg (by omega), List.getLast?_eq_getElem?, List.getElem?_eq_getElem hL, hxL]
    exact dropCR_tail' 9 (l.drop 11) xL hgl hlast


theorem sam_extra_rows (strip : Bool) (lines : List (List Bytes)) (h : ∀ l ∈ lines, 11 ≤ l.length ∧ l.getLastD [] ≠ []) :
    ∀ (Pfx tail data : Bytes) (c : Bool),
      (Ext.mk data
        (List.zipWith (fun ls g => (ls :: g.map (· + 1)).take 11) (lineOffsets 9 Pfx.length lines) (lineGroups 9 Pfx.length lines))
        (List.zipWith (fun ss es => List.zipWith (fun s e => e - s) ss es)
          (List.zipWith (fun ls g => (ls :: g.map (· + 1)).take 11) (lineOffsets 9 Pfx.length lines) (lineGroups 9 Pfx.length lines))
          (((lineGroups 9 Pfx.length lines).map
            (fun g => if strip then stripCR (Pfx ++ dumpFile 9 lines ++ tail) g else g)).map (·.take 11)))
        (lineOffsets 9 Pfx.length lines) ((lineGroups 9 Pfx.length lines).map (fun g => g.getLastD 0 + 1)) c).rows.map
          (extraOf (Pfx ++ dumpFile 9 lines ++ tail))
      = lines.map (fun l => dropCR (intercalate [9] (l.drop 11))) := by
  induction lines with
  | nil => intro Pfx tail data c; simp [Ext.rows, lineOffsets, lineGroups]
  | cons l ls ih =>
    intro Pfx tail data c
    obtain ⟨h11, hlast⟩ := h l (by simp)
    have hdata : Pfx ++ dumpFile 9 (l :: ls) ++ tail = Pfx ++ dumpLine 9 l ++ (dumpFile 9 ls ++ tail) := by
      simp [dumpFile, List.append_assoc]
    have hdata2 : Pfx ++ dumpFile 9 (l :: ls) ++ tail = (Pfx ++ dumpLine 9 l) ++ dumpFile 9 ls ++ tail := by
      simp [dumpFile, List.append_assoc]
    have ih' := ih (fun x hx => h x (by simp [hx])) (Pfx ++ dumpLine 9 l) tail data c
    simp only [List.length_append] at ih'
    unfold Ext.rows at ih' ⊢
    simp only at ih' ⊢
    simp only [lineOffsets, lineGroups, List.zipWith_cons_cons, List.map_cons, List.zip_cons_cons]
    congr 1
    · rw [hdata]
      exact sam_extra_row Pfx (dumpFile 9 ls ++ tail) l h11 hlast strip
    · rw [hdata2]; exact ih'

/-- **C04.sam_extra_src** — SOURCE-LEVEL SAM tags: for EVERY body of lines with at least 11 clean columns (last column non-empty),
`_get_extra_field` returns, line by line, the source text of the columns after the 11th, joined by tabs, without the line's
trailing CR (LF, CRLF or mixed; empty when the line has no tags) -/
theorem sam_extra_src (lines : List (List Bytes)) (hne : lines ≠ []) (h : SamTable 11 lines)
    (hlast : ∀ l ∈ lines, l.getLastD [] ≠ []) :
    (samExt lines).samExtra = lines.map (fun l => dropCR (intercalate [9] (l.drop 11))) := by
  have hGs : ((if crFlag (dumpFile 9 lines) (lineGroups 9 0 lines) then (lineGroups 9 0 lines).map (stripCR (dumpFile 9 lines))
      else lineGroups 9 0 lines)) =
      (lineGroups 9 0 lines).map (fun g => if samCR lines then stripCR (dumpFile 9 lines) g else g) := by
    unfold samCR
    cases crFlag (dumpFile 9 lines) (lineGroups 9 0 lines) <;> simp
  rw [samExtra_eq]
  unfold samExt samExtE
  rw [hGs]
  have := sam_extra_rows (samCR lines) lines (fun l hl => ⟨(h l hl).1, hlast l hl⟩) [] [] (dumpFile 9 lines) true
  simp only [List.length_nil, List.nil_append, List.append_nil] at this
  exact this

/-! meaning: on a CRLF line the tags come back without the CR, on a line without tags they are empty -/
example : (samExt [["r1", "0", "c", "007", "60", "4M", "*", "0", "0", "ACGT", "IIII", "NM:i:0", "XS:A:+\r"].map (·.toList.map Char.toNat),
    ["r2", "0", "c", "7", "60", "4M", "*", "0", "0", "ACGT", "IIII\r"].map (·.toList.map Char.toNat)]).samExtra
    = ["NM:i:0\tXS:A:+".toList.map Char.toNat, []] := by decide


/-! ### delimited formats: the last column on ANY file (LF, CRLF, mixed) -/

/-- **C04.delimited_last_column** — for EVERY table of n clean fields per line with non-empty last fields (LF, CRLF or MIXED
line ends): the last column is returned exactly when the carriage-return switch is off, and without the trailing CR of each
line that has one when it is on (`crlf_last_column` is the all-CRLF case; `build_delimited_records` gives the other columns) -/
theorem delimited_last_column (sep n : Nat) (hn : 0 < n) (lines : List (List Bytes))
    (h : CleanTable sep n lines) (hlast : ∀ l ∈ lines, l.getLastD [] ≠ []) :
    (expExtG sep lines).fieldText (n - 1) =
      lines.map (fun l => if delimCR sep lines then dropCR (l.getD (n - 1) []) else l.getD (n - 1) []) := by
  have hlne : ∀ l ∈ lines, l ≠ [] := by
    intro l hl e; have := (h l hl).1; rw [e] at this; simp at this; omega
  cases hflag : delimCR sep lines with
  | true =>
    have hflag' : crFlag (dumpFile sep lines) (lineGroups sep 0 lines) = true := hflag
    have hEs : endsOf (dumpFile sep lines) (lineGroups sep 0 lines) = (lineGroups sep 0 lines).map (stripCR (dumpFile sep lines)) := by
      unfold endsOf; simp [hflag']
    have hrows : (expExtG sep lines).rows = expRowsE sep 0 lines ((lineGroups sep 0 lines).map (stripCR (dumpFile sep lines))) := by
      unfold expExtG; rw [hEs]
      exact rows_expE sep lines hlne _ 0 _ true (by simp [lineGroups_length])
    have := last_column_rows sep n hn lines (fun l hl => ⟨(h l hl).1, hlast l hl⟩) [] []
    simp only [List.length_nil, List.nil_append, List.append_nil] at this
    unfold Ext.fieldText
    rw [hrows]
    exact this
  | false =>
    have hflag' : crFlag (dumpFile sep lines) (lineGroups sep 0 lines) = false := hflag
    have heq : expExtG sep lines = expExt sep lines := by
      unfold expExtG expExt endsOf; simp [hflag']
    obtain ⟨_, _, c⟩ := expExtE_spec sep n hn (fun _ _ => true) lines h _ (EsOK_groups sep _ lines hlne 0)
    rw [heq]
    have := c (n - 1) (by omega) rfl
    unfold expExt
    simpa using this

/-- the carriage-return switch at source level: it is on exactly when the FIRST line's last field ends in a CR -/
theorem delimCR_src (sep : Nat) (l0 : List Bytes) (ls : List (List Bytes)) (hne0 : l0 ≠ []) (hlast : l0.getLastD [] ≠ []) :
    delimCR sep (l0 :: ls) = ((l0.getLastD []).getLast? == some 13) := by
  obtain ⟨a, b, c⟩ := line_last_byte sep [] (dumpFile sep ls) l0 hne0 hlast
  simp only [List.length_nil, List.nil_append] at a b c
  unfold delimCR crFlag
  simp only [lineGroups, List.head?_cons, Option.map_some, Option.getD_some, dumpFile, List.map_cons, List.flatten_cons]
  simp only [dumpFile] at c
  have hpos : ((lineDelims 0 l0).getLastD 0 != 0) = true := by
    rw [a]; simp only [bne_iff_ne, ne_eq]; omega
  rw [hpos, Bool.true_and, ← c]
  simp

end C04
