import BnpVerif.Model.C04
/-! C04 property theorems: the extractor refines "a list of records". Helper lemmas first;
the property theorems are the ones listed in `Audit/C04.lean`. -/
namespace C04
open PyIdx

/-! ### slices -/

theorem slice_length {α} (d : List α) (s l : Nat) (h : s + l ≤ d.length) : (slice d s l).length = l := by
  unfold slice; simp; omega

theorem slice_append_mid {α} (A D B : List α) (s l : Nat) (h : s + l ≤ D.length) :
    slice (A ++ D ++ B) (A.length + s) l = slice D s l := by
  unfold slice
  rw [List.append_assoc, List.drop_append]
  have h1 : List.drop (A.length + s) A = [] := by simp
  have h2 : A.length + s - A.length = s := by omega
  rw [h1, h2, List.nil_append, List.drop_append_of_le_length (by omega)]
  rw [List.take_append_of_le_length (by simp; omega)]

theorem slice_slice {α} (d : List α) (es ee fs fl : Nat) (h1 : es ≤ fs) (h2 : fs + fl ≤ ee) (_h3 : ee ≤ d.length) :
    slice (slice d es (ee - es)) (fs - es) fl = slice d fs fl := by
  unfold slice
  rw [List.drop_take, List.take_take, List.drop_drop]
  have : es + (fs - es) = fs := by omega
  rw [this]
  congr 1
  omega

theorem slice_zero_all {α} (d : List α) : slice d 0 d.length = d := by
  unfold slice; simp

/-! ### well-formedness -/

def RowWF (dlen : Nat) (r : Row) : Prop :=
  r.eS ≤ r.eE ∧ r.eE ≤ dlen ∧ r.fS.length = r.fL.length ∧ (∀ s ∈ r.fS, r.eS ≤ s) ∧
  (∀ p ∈ List.zip r.fS r.fL, p.1 + p.2 ≤ r.eE)

def LenWF (e : Ext) : Prop :=
  e.fLen.length = e.fStart.length ∧ e.eStart.length = e.fStart.length ∧ e.eEnd.length = e.fStart.length

def WF (e : Ext) : Prop := LenWF e ∧ ∀ r ∈ e.rows, RowWF e.data.length r

/-- the representation invariant of the pass-through path: when the extractor claims to be
contiguous its data is exactly its records, in order -/
def Inv (e : Ext) : Prop := WF e ∧ (e.contiguous = true → e.data = specBytes e.abs)

/-! ### rows of the parallel arrays -/

theorem rows_ofRows (d : Bytes) (rs : List Row) (c : Bool) : (Ext.ofRows d rs c).rows = rs := by
  unfold Ext.ofRows Ext.rows
  induction rs with
  | nil => rfl
  | cons r rs ih => simp only [List.map_cons, List.zip_cons_cons, List.zipWith_cons_cons, ih]

theorem rows_length (e : Ext) (h : LenWF e) : e.rows.length = e.fStart.length := by
  unfold Ext.rows; simp [List.length_zipWith, List.length_zip]; unfold LenWF at h; omega

theorem rows_select (e : Ext) (h : LenWF e) (ixs : List Nat) : (e.select ixs).rows = gather e.rows ixs := by
  obtain ⟨h1, h2, h3⟩ := h
  unfold Ext.rows Ext.select
  simp only [List.zip]
  rw [gather_zipWith _ _ _ (by simp [List.length_zipWith]; omega)]
  rw [gather_zipWith _ _ _ (by omega), gather_zipWith _ _ _ (by omega)]

theorem lenWF_select (e : Ext) (h : LenWF e) (ixs : List Nat) (hv : ∀ k ∈ ixs, k < e.len) : LenWF (e.select ixs) := by
  obtain ⟨h1, h2, h3⟩ := h
  unfold Ext.len at hv
  have a := gather_length e.fStart ixs hv
  have b := gather_length e.fLen ixs (by intro k hk; rw [h1]; exact hv k hk)
  have c := gather_length e.eStart ixs (by intro k hk; rw [h2]; exact hv k hk)
  have d := gather_length e.eEnd ixs (by intro k hk; rw [h3]; exact hv k hk)
  unfold LenWF Ext.select
  simp only
  exact ⟨by rw [b, a], by rw [c, a], by rw [d, a]⟩

theorem wf_select (e : Ext) (h : WF e) (ixs : List Nat) (hv : ∀ k ∈ ixs, k < e.len) : WF (e.select ixs) := by
  refine ⟨lenWF_select e h.1 ixs hv, ?_⟩
  intro r hr
  rw [rows_select e h.1] at hr
  exact h.2 r (mem_gather _ _ _ hr)

/-! ### selection -/

theorem abs_select (e : Ext) (h : LenWF e) (ixs : List Nat) : (e.select ixs).abs = gather e.abs ixs := by
  unfold Ext.abs
  rw [rows_select e h, gather_map]
  rfl

/-- **C04.select_refines** — for every index form (single int, slice with any step, boolean mask,
int list with repeats and negatives) selecting on the extractor is NumPy-indexing the list of
records it denotes; an invalid index fails in both. -/
theorem select_refines (e : Ext) (h : LenWF e) (ix : Idx) :
    (e.index ix).map Ext.abs = pyIndex e.abs ix := by
  unfold Ext.index pyIndex
  have hl : e.abs.length = e.len := by
    unfold Ext.abs Ext.len; rw [List.length_map, rows_length e h]
  rw [hl]
  cases hix : ix.toList e.len with
  | none => rfl
  | some ixs => simp [abs_select e h ixs]

/-! ### concatenation -/

def shiftRow (off : Nat) (r : Row) : Row := ⟨r.fS.map (· + off), r.fL, r.eS + off, r.eE + off⟩

theorem rows_shift (e : Ext) (off : Nat) :
    (List.zipWith (fun (p : List Nat × List Nat) (q : Nat × Nat) => Row.mk p.1 p.2 q.1 q.2)
      (List.zip (e.fStart.map (·.map (· + off))) e.fLen) (List.zip (e.eStart.map (· + off)) (e.eEnd.map (· + off))))
    = e.rows.map (shiftRow off) := by
  unfold Ext.rows
  generalize e.fStart = a
  generalize e.fLen = b
  generalize e.eStart = c
  generalize e.eEnd = d
  induction a generalizing b c d with
  | nil => simp
  | cons x xs ih =>
    cases b with
    | nil => simp
    | cons y ys =>
      cases c with
      | nil => simp
      | cons z zs =>
        cases d with
        | nil => simp
        | cons w ws => simp [shiftRow, ih]

theorem rows_concatFrom (off : Nat) (e : Ext) (es : List Ext) (h : LenWF e) :
    (concatFrom off (e :: es)).rows = e.rows.map (shiftRow off) ++ (concatFrom (off + e.data.length) es).rows := by
  obtain ⟨h1, h2, h3⟩ := h
  rw [← rows_shift]
  simp only [concatFrom, Ext.rows]
  rw [List.zip_append (by simp; omega), List.zip_append (by simp; omega)]
  rw [List.zipWith_append (by simp [List.length_zip]; omega)]

theorem absRow_shift (Pfx D B : Bytes) (r : Row) (h : RowWF D.length r) :
    absRow (Pfx ++ D ++ B) (shiftRow Pfx.length r) = absRow D r := by
  obtain ⟨h1, h2, h3, h4, h5⟩ := h
  unfold absRow shiftRow
  simp only
  congr 1
  · have : r.eE + Pfx.length - (r.eS + Pfx.length) = r.eE - r.eS := by omega
    rw [this, Nat.add_comm r.eS, slice_append_mid _ _ _ _ _ (by omega)]
  · rw [List.zipWith_map_left]
    apply List.ext_getElem
    · simp
    · intro i hi1 hi2
      simp only [List.getElem_zipWith]
      congr 1
      omega

theorem rowWF_shift (off dlen extra : Nat) (r : Row) (h : RowWF dlen r) :
    RowWF (off + dlen + extra) (shiftRow off r) := by
  obtain ⟨h1, h2, h3, h4, h5⟩ := h
  unfold shiftRow
  refine ⟨by simp; omega, by simp; omega, by simp [h3], ?_, ?_⟩
  · intro s hs
    simp only [List.mem_map] at hs
    obtain ⟨s0, hs0, rfl⟩ := hs
    have := h4 s0 hs0
    simp; omega
  · intro p hp
    simp only at hp
    rw [List.zip_map_left] at hp
    simp only [List.mem_map] at hp
    obtain ⟨p0, hp0, rfl⟩ := hp
    have := h5 p0 hp0
    simp; omega

theorem concatFrom_spec (es : List Ext) (hes : ∀ e ∈ es, WF e) :
    ∀ (Pfx : Bytes),
      (concatFrom Pfx.length es).rows.map (absRow (Pfx ++ (concatFrom Pfx.length es).data)) = (es.map Ext.abs).flatten
      ∧ LenWF (concatFrom Pfx.length es)
      ∧ (∀ r ∈ (concatFrom Pfx.length es).rows, RowWF (Pfx.length + (concatFrom Pfx.length es).data.length) r)
      ∧ (concatFrom Pfx.length es).data = (es.map (·.data)).flatten
      ∧ (concatFrom Pfx.length es).contiguous = es.all (·.contiguous) := by
  induction es with
  | nil =>
    intro Pfx
    refine ⟨by simp [concatFrom, Ext.rows], by simp [concatFrom, LenWF], by simp [concatFrom, Ext.rows], by simp [concatFrom], by simp [concatFrom]⟩
  | cons e es ih =>
    intro Pfx
    have he := hes e (by simp)
    have ih' := ih (fun x hx => hes x (by simp [hx])) (Pfx ++ e.data)
    simp only [List.length_append] at ih'
    obtain ⟨i1, i2, i3, i4, i5⟩ := ih'
    have hdata : (concatFrom Pfx.length (e :: es)).data = e.data ++ (concatFrom (Pfx.length + e.data.length) es).data := by
      simp [concatFrom]
    refine ⟨?_, ?_, ?_, ?_, ?_⟩
    · rw [rows_concatFrom _ _ _ he.1, hdata, List.map_append, List.map_cons, List.flatten_cons]
      congr 1
      · unfold Ext.abs
        rw [List.map_map]
        apply List.map_congr_left
        intro r hr
        simp only [Function.comp]
        rw [← List.append_assoc]
        exact absRow_shift Pfx e.data _ r (he.2 r hr)
      · rw [← List.append_assoc]; exact i1
    · obtain ⟨a1, a2, a3⟩ := he.1
      obtain ⟨b1, b2, b3⟩ := i2
      simp only [concatFrom, LenWF, List.length_append, List.length_map]
      omega
    · intro r hr
      rw [rows_concatFrom _ _ _ he.1] at hr
      rw [hdata, List.length_append]
      simp only [List.mem_append, List.mem_map] at hr
      cases hr with
      | inl h =>
        obtain ⟨r0, hr0, rfl⟩ := h
        have := rowWF_shift Pfx.length e.data.length (concatFrom (Pfx.length + e.data.length) es).data.length r0 (he.2 r0 hr0)
        rw [Nat.add_assoc] at this; exact this
      | inr h =>
        have := i3 r h
        rw [Nat.add_assoc] at this; exact this
    · rw [hdata, i4]; simp
    · simp [concatFrom, i5]

/-- **C04.concat_refines** — concatenating extractors concatenates the record lists they denote
(field offsets and record bounds are shifted by the cumulative data sizes). -/
theorem concat_refines (es : List Ext) (hes : ∀ e ∈ es, WF e) :
    (Ext.concat es).abs = (es.map Ext.abs).flatten := by
  have := (concatFrom_spec es hes []).1
  simpa [Ext.concat, Ext.abs] using this

theorem wf_concat (es : List Ext) (hes : ∀ e ∈ es, WF e) : WF (Ext.concat es) := by
  obtain ⟨_, h2, h3, _, _⟩ := concatFrom_spec es hes []
  exact ⟨h2, by simpa [Ext.concat] using h3⟩

theorem specBytes_append (a b : List Rec) : specBytes (a ++ b) = specBytes a ++ specBytes b := by
  simp [specBytes]

theorem specBytes_flatten (l : List (List Rec)) : specBytes l.flatten = (l.map specBytes).flatten := by
  induction l with
  | nil => rfl
  | cons a l ih => simp [specBytes_append, ih]

theorem inv_concat (es : List Ext) (hes : ∀ e ∈ es, Inv e) : Inv (Ext.concat es) := by
  refine ⟨wf_concat es (fun e he => (hes e he).1), ?_⟩
  intro hc
  obtain ⟨_, _, _, h4, h5⟩ := concatFrom_spec es (fun e he => (hes e he).1) []
  simp only [List.length_nil] at h4 h5
  have hr := concat_refines es (fun e he => (hes e he).1)
  unfold Ext.concat at hc hr ⊢
  rw [hr, h4, specBytes_flatten]
  rw [h5, List.all_eq_true] at hc
  rw [List.map_map]
  congr 1
  apply List.map_congr_left
  intro e he
  exact (hes e he).2 (hc e he)

/-! ### compaction -/

theorem compactRows_spec (data : Bytes) (rs : List Row) (hrs : ∀ r ∈ rs, RowWF data.length r) :
    ∀ (Pfx : Bytes),
      (compactRows data Pfx.length rs).1.map (absRow (Pfx ++ (compactRows data Pfx.length rs).2)) = rs.map (absRow data)
      ∧ (compactRows data Pfx.length rs).2 = (rs.map (fun r => (absRow data r).raw)).flatten
      ∧ (∀ r ∈ (compactRows data Pfx.length rs).1, RowWF (Pfx.length + (compactRows data Pfx.length rs).2.length) r) := by
  induction rs with
  | nil => intro Pfx; simp [compactRows]
  | cons r rs ih =>
    intro Pfx
    have hr := hrs r (by simp)
    obtain ⟨h1, h2, h3, h4, h5⟩ := hr
    have hn : (slice data r.eS (r.eE - r.eS)).length = r.eE - r.eS := slice_length _ _ _ (by omega)
    have ih' := ih (fun x hx => hrs x (by simp [hx])) (Pfx ++ slice data r.eS (r.eE - r.eS))
    simp only [List.length_append, hn] at ih'
    obtain ⟨i1, i2, i3⟩ := ih'
    simp only [compactRows]
    refine ⟨?_, ?_, ?_⟩
    · simp only [List.map_cons]
      congr 1
      · unfold absRow
        simp only
        congr 1
        · have e1 : Pfx.length + (r.eE - r.eS) - Pfx.length = r.eE - r.eS := by omega
          rw [e1, ← List.append_assoc]
          have := slice_append_mid Pfx (slice data r.eS (r.eE - r.eS)) (compactRows data (Pfx.length + (r.eE - r.eS)) rs).2 0 (r.eE - r.eS) (by omega)
          rw [Nat.add_zero] at this
          rw [this]
          conv => rhs; rw [← slice_zero_all (slice data r.eS (r.eE - r.eS))]
          rw [hn]
        · rw [List.zipWith_map_left]
          apply List.ext_getElem
          · simp
          · intro i hi1 hi2
            simp only [List.getElem_zipWith]
            congr 1
            have hi : i < r.fS.length := by simp [List.length_zipWith] at hi2; omega
            have : r.eS ≤ r.fS[i] := h4 _ (List.getElem_mem _)
            omega
      · rw [← List.append_assoc]; exact i1
    · simp only [List.map_cons, List.flatten_cons, i2]
      rfl
    · intro x hx
      simp only [List.mem_cons] at hx
      rw [List.length_append, hn]
      cases hx with
      | inl h =>
        subst h
        refine ⟨by simp, by simp, by simp [h3], ?_, ?_⟩
        · intro s hs
          simp only [List.mem_map] at hs
          obtain ⟨s0, hs0, rfl⟩ := hs
          have := h4 s0 hs0
          simp; omega
        · intro p hp
          simp only at hp
          rw [List.zip_map_left] at hp
          simp only [List.mem_map] at hp
          obtain ⟨p0, hp0, rfl⟩ := hp
          have := h5 p0 hp0
          have := h4 p0.1 (List.of_mem_zip hp0).1
          simp; omega
      | inr h =>
        have := i3 x h
        rw [Nat.add_assoc] at this; exact this

theorem lenWF_ofRows (d : Bytes) (rs : List Row) (c : Bool) : LenWF (Ext.ofRows d rs c) := by
  simp [LenWF, Ext.ofRows]

/-- **C04.compact_preserves** — `_make_contigous` changes the representation only: the records
denoted are the same (raw bytes and every field), and the new data is exactly those records in order. -/
theorem compact_preserves (e : Ext) (h : WF e) :
    e.compact.abs = e.abs ∧ e.compact.data = specBytes e.abs ∧ e.compact.contiguous = true := by
  obtain ⟨s1, s2, _⟩ := compactRows_spec e.data e.rows h.2 []
  simp only [List.length_nil, List.nil_append] at s1 s2
  refine ⟨?_, ?_, rfl⟩
  · unfold Ext.compact Ext.abs
    simp only
    rw [rows_ofRows]
    exact s1
  · unfold Ext.compact specBytes Ext.abs
    simp only [Ext.ofRows]
    rw [s2, List.map_map]
    rfl

theorem wf_compact (e : Ext) (h : WF e) : WF e.compact := by
  obtain ⟨_, _, s3⟩ := compactRows_spec e.data e.rows h.2 []
  simp only [List.length_nil, Nat.zero_add] at s3
  refine ⟨lenWF_ofRows _ _ _, ?_⟩
  intro r hr
  unfold Ext.compact at hr ⊢
  simp only at hr ⊢
  rw [rows_ofRows] at hr
  exact s3 r hr

theorem inv_compact (e : Ext) (h : WF e) : Inv e.compact := by
  obtain ⟨a, b, _⟩ := compact_preserves e h
  exact ⟨wf_compact e h, fun _ => by rw [b, a]⟩

theorem inv_select (e : Ext) (h : WF e) (ixs : List Nat) (hv : ∀ k ∈ ixs, k < e.len) : Inv (e.select ixs) :=
  ⟨wf_select e h ixs hv, fun hc => by simp [Ext.select] at hc⟩

theorem touch_abs (e : Ext) (h : WF e) : e.touch.abs = e.abs := by
  unfold Ext.touch
  split
  · rfl
  · exact (compact_preserves e h).1

theorem inv_touch (e : Ext) (h : Inv e) : Inv e.touch := by
  unfold Ext.touch
  split
  · exact h
  · exact inv_compact e h.1

/-- **C04.bytes_spec** — what `buffer.data` hands to the writer is exactly the denoted records' bytes -/
theorem bytes_spec (e : Ext) (h : Inv e) : e.bytes = specBytes e.abs := by
  unfold Ext.bytes Ext.touch
  split
  · rename_i hc; exact h.2 hc
  · exact (compact_preserves e h.1).2.1

/-! ### programs -/

theorem index_inv (e : Ext) (h : Inv e) (ix : Idx) (e' : Ext) (he : e.index ix = some e') : Inv e' := by
  unfold Ext.index at he
  cases hix : ix.toList e.len with
  | none => simp [hix] at he
  | some ixs =>
    simp [hix] at he
    subst he
    exact inv_select e h.1 ixs (toList_lt _ _ _ hix)

theorem mem_take_drop {α} (l : List α) (a n : Nat) (x : α) (h : x ∈ (l.drop a).take n) : x ∈ l :=
  List.mem_of_mem_drop (List.mem_of_mem_take h)

/-- every program keeps the invariant and denotes what the same program gives on lists of records -/
theorem program_abs (tabs : List Ext) (ht : ∀ t ∈ tabs, Inv t) (p : Prog) :
    (∀ e, p.evalExt tabs = some e → Inv e) ∧
    (p.evalExt tabs).map Ext.abs = p.evalSpec (tabs.map Ext.abs) := by
  induction p with
  | leaf k =>
    refine ⟨fun e he => ht e (List.mem_of_getElem? he), ?_⟩
    simp [Prog.evalExt, Prog.evalSpec, List.getElem?_map]
  | sel p ix ih =>
    obtain ⟨ih1, ih2⟩ := ih
    simp only [Prog.evalExt, Prog.evalSpec]
    cases hp : p.evalExt tabs with
    | none =>
      rw [hp] at ih2
      simp at ih2
      refine ⟨by simp, ?_⟩
      rw [← ih2]; simp
    | some e =>
      rw [hp] at ih2
      simp at ih2
      have hI := ih1 e hp
      refine ⟨fun e' he' => index_inv e hI ix e' (by simpa using he'), ?_⟩
      rw [← ih2]
      simp only [Option.bind_some]
      exact select_refines e hI.1.1 ix
  | cat p q ihp ihq =>
    obtain ⟨p1, p2⟩ := ihp
    obtain ⟨q1, q2⟩ := ihq
    simp only [Prog.evalExt, Prog.evalSpec]
    cases hp : p.evalExt tabs with
    | none =>
      rw [hp] at p2; simp at p2
      rw [← p2]; simp
    | some a =>
      rw [hp] at p2; simp at p2
      cases hq : q.evalExt tabs with
      | none =>
        rw [hq] at q2; simp at q2
        rw [← p2, ← q2]; simp
      | some b =>
        rw [hq] at q2; simp at q2
        rw [← p2, ← q2]
        have hall : ∀ e ∈ [a, b], Inv e := by
          intro e he
          simp only [List.mem_cons, List.not_mem_nil, or_false] at he
          rcases he with rfl | rfl
          · exact p1 _ hp
          · exact q1 _ hq
        refine ⟨fun e he => by simp at he; subst he; exact inv_concat _ hall, ?_⟩
        simp only [Option.map_some]
        rw [concat_refines _ (fun e he => (hall e he).1)]
        simp
  | catRange a n =>
    simp only [Prog.evalExt, Prog.evalSpec, List.length_map]
    split
    · have hall : ∀ e ∈ (tabs.drop a).take n, Inv e := fun e he => ht e (mem_take_drop _ _ _ _ he)
      refine ⟨fun e he => by simp at he; subst he; exact inv_concat _ hall, ?_⟩
      simp only [Option.map_some]
      rw [concat_refines _ (fun e he => (hall e he).1)]
      simp [List.map_take, List.map_drop]
    · simp
  | touch p ih =>
    obtain ⟨ih1, ih2⟩ := ih
    simp only [Prog.evalExt, Prog.evalSpec]
    cases hp : p.evalExt tabs with
    | none => rw [hp] at ih2; simp at ih2; rw [← ih2]; simp
    | some e =>
      rw [hp] at ih2; simp at ih2
      have hI := ih1 e hp
      refine ⟨fun e' he' => by simp at he'; subst he'; exact inv_touch e hI, ?_⟩
      rw [← ih2]
      simp [touch_abs e hI.1]

  | seq p q ihp ihq =>
    obtain ⟨_, p2⟩ := ihp
    obtain ⟨q1, q2⟩ := ihq
    simp only [Prog.evalExt, Prog.evalSpec]
    cases hp : p.evalExt tabs with
    | none =>
      rw [hp] at p2
      cases hsp : p.evalSpec (tabs.map Ext.abs) with
      | none => simp
      | some x => rw [hsp] at p2; simp at p2
    | some a =>
      rw [hp] at p2
      cases hsp : p.evalSpec (tabs.map Ext.abs) with
      | none => rw [hsp] at p2; simp at p2
      | some x => simp only [Option.bind_some]; exact ⟨q1, q2⟩

/-- **C04.program_bytes** — for every finite program of selections (all index forms),
binary and n-ary concatenations and in-between writes applied to tables that satisfy the
invariant, the bytes handed to the writer are exactly the concatenation of the selected records'
original bytes in the selected order; the program fails (IndexError) exactly when it fails on lists. -/
theorem program_bytes (tabs : List Ext) (ht : ∀ t ∈ tabs, Inv t) (p : Prog) :
    (p.evalExt tabs).map Ext.bytes = (p.evalSpec (tabs.map Ext.abs)).map specBytes := by
  obtain ⟨h1, h2⟩ := program_abs tabs ht p
  rw [← h2]
  cases hp : p.evalExt tabs with
  | none => rfl
  | some e => simp [bytes_spec e (h1 e hp)]

/-! ### fields are functions of the abstract record -/

theorem mem_rows_zip (r : Row) (h : r.fS.length = r.fL.length) (j : Nat) (hj : j < r.fS.length) :
    (r.fS[j], r.fL[j]'(by omega)) ∈ List.zip r.fS r.fL := by
  have : (List.zip r.fS r.fL)[j]'(by simp [List.length_zip]; omega) = (r.fS[j], r.fL[j]'(by omega)) := by simp
  rw [← this]; exact List.getElem_mem _

theorem field_absRow (data : Bytes) (r : Row) (h : RowWF data.length r) (j : Nat) :
    (absRow data r).field j = slice data (r.fS.getD j 0) (r.fL.getD j 0) := by
  obtain ⟨h1, h2, h3, h4, h5⟩ := h
  unfold Rec.field absRow
  simp only
  by_cases hj : j < r.fS.length
  · have hj' : j < r.fL.length := by omega
    have hz : (List.zipWith (fun s l => (s - r.eS, l)) r.fS r.fL)[j]? = some (r.fS[j] - r.eS, r.fL[j]) := by
      simp [List.getElem?_zipWith, List.getElem?_eq_getElem hj, List.getElem?_eq_getElem hj']
    rw [hz]
    simp only [List.getD_eq_getElem?_getD, List.getElem?_eq_getElem hj, List.getElem?_eq_getElem hj', Option.getD_some]
    have hb := h5 _ (mem_rows_zip r h3 j hj)
    simp only at hb
    exact slice_slice data r.eS r.eE _ _ (h4 _ (List.getElem_mem _)) hb h2
  · have hz : (List.zipWith (fun s l => (s - r.eS, l)) r.fS r.fL)[j]? = none := by
      simp [List.getElem?_zipWith, List.getElem?_eq_none (Nat.le_of_not_lt hj)]
    rw [hz]
    have hj' : r.fL.length ≤ j := by omega
    simp [List.getD_eq_getElem?_getD, List.getElem?_eq_none (Nat.le_of_not_lt hj), List.getElem?_eq_none hj', slice]

/-- **C04.field_text** — the text `get_field_by_number(j)` returns for every entry is the j-th
field of the denoted record (a function of the record's own bytes: nothing outside the record is read) -/
theorem field_text (e : Ext) (h : WF e) (j : Nat) : e.fieldText j = e.abs.map (·.field j) := by
  unfold Ext.fieldText Ext.abs
  rw [List.map_map]
  apply List.map_congr_left
  intro r hr
  simp only [Function.comp]
  exact (field_absRow e.data r (h.2 r hr) j).symm

/-- **C04.program_fields** — after any program, every field of every record is the original
text of that field in the selected source record (so a replaced write can only change replaced columns) -/
theorem program_fields (tabs : List Ext) (ht : ∀ t ∈ tabs, Inv t) (p : Prog) (j : Nat) :
    (p.evalExt tabs).map (fun e => e.fieldText j) = (p.evalSpec (tabs.map Ext.abs)).map (·.map (·.field j)) := by
  obtain ⟨h1, h2⟩ := program_abs tabs ht p
  rw [← h2]
  cases hp : p.evalExt tabs with
  | none => rfl
  | some e => simp [field_text e (h1 e hp).1 j]

/-! ### "rest of line" fields (VCF genotype columns, SAM tags) are functions of the record too -/

theorem rel_getLast (r : Row) (h3 : r.fS.length = r.fL.length) (hne : 0 < r.fS.length) :
    (List.zipWith (fun s l => (s - r.eS, l)) r.fS r.fL).getLast? =
      some (r.fS.getLastD 0 - r.eS, r.fL.getLastD 0) := by
  have h1 : r.fS.getLastD 0 = r.fS[r.fS.length - 1]'(by omega) := by
    rw [List.getLastD_eq_getLast?, List.getLast?_eq_getElem?, List.getElem?_eq_getElem (by omega)]; rfl
  have h2 : r.fL.getLastD 0 = r.fL[r.fL.length - 1]'(by omega) := by
    rw [List.getLastD_eq_getLast?, List.getLast?_eq_getElem?, List.getElem?_eq_getElem (by omega)]; rfl
  rw [List.getLast?_eq_getElem?, h1, h2]
  simp only [List.length_zipWith, List.getElem?_zipWith]
  have e1 : min r.fS.length r.fL.length - 1 = r.fS.length - 1 := by omega
  rw [e1, List.getElem?_eq_getElem (by omega : r.fS.length - 1 < r.fS.length)]
  have e2 : r.fS.length - 1 = r.fL.length - 1 := by omega
  rw [List.getElem?_eq_getElem (by omega : r.fS.length - 1 < r.fL.length)]
  simp [e2]

theorem last_bounds (r : Row) (dlen : Nat) (h : RowWF dlen r) (hne : 0 < r.fS.length) :
    r.eS ≤ r.fS.getLastD 0 ∧ r.fS.getLastD 0 + r.fL.getLastD 0 ≤ r.eE := by
  obtain ⟨_, _, h3, h4, h5⟩ := h
  have h1 : r.fS.getLastD 0 = r.fS[r.fS.length - 1]'(by omega) := by
    rw [List.getLastD_eq_getLast?, List.getLast?_eq_getElem?, List.getElem?_eq_getElem (by omega)]; rfl
  have h2 : r.fL.getLastD 0 = r.fL[r.fL.length - 1]'(by omega) := by
    rw [List.getLastD_eq_getLast?, List.getLast?_eq_getElem?, List.getElem?_eq_getElem (by omega)]; rfl
  rw [h1, h2]
  refine ⟨h4 _ (List.getElem_mem _), ?_⟩
  have := h5 _ (mem_rows_zip r h3 (r.fS.length - 1) (by omega))
  simp only at this
  have e2 : r.fS.length - 1 = r.fL.length - 1 := by omega
  simpa [e2] using this

/-- **C04.rest_text** — `get_fields_by_range(from_nr=j)` (repaired rule) returns, for every entry,
the record's text from field j to the end of its last field -/
theorem rest_text (e : Ext) (h : WF e) (j : Nat) (hj : ∀ r ∈ e.rows, j < r.fS.length) :
    e.rest j = e.abs.map (·.rest j) := by
  unfold Ext.rest Ext.abs
  rw [List.map_map]
  apply List.map_congr_left
  intro r hr
  simp only [Function.comp]
  have hw := h.2 r hr
  obtain ⟨h1, h2, h3, h4, h5⟩ := hw
  have hjr := hj r hr
  obtain ⟨lb1, lb2⟩ := last_bounds r _ (h.2 r hr) (by omega)
  unfold Rec.rest absRow
  simp only
  rw [rel_getLast r h3 (by omega)]
  have hz : (List.zipWith (fun s l => (s - r.eS, l)) r.fS r.fL)[j]? = some (r.fS[j] - r.eS, r.fL[j]'(by omega)) := by
    simp [List.getElem?_zipWith, List.getElem?_eq_getElem hjr, List.getElem?_eq_getElem (by omega : j < r.fL.length)]
  rw [hz]
  simp only [List.getD_eq_getElem?_getD, List.getElem?_eq_getElem hjr, Option.getD_some]
  have hs := h4 _ (List.getElem_mem hjr)
  have hb := h5 _ (mem_rows_zip r h3 j hjr)
  simp only at hb
  have e1 : r.fS.getLastD 0 - r.eS + r.fL.getLastD 0 - (r.fS[j] - r.eS) = r.fS.getLastD 0 + r.fL.getLastD 0 - r.fS[j] := by omega
  rw [e1]
  exact (slice_slice e.data r.eS r.eE _ _ hs (by omega) h2).symm

theorem byteAt_slice (d : Bytes) (s l i : Nat) (hi : i < l) : byteAt (slice d s l) i = byteAt d (s + i) := by
  unfold byteAt slice
  simp only [List.getD_eq_getElem?_getD, List.getElem?_take, hi, if_true, List.getElem?_drop]

/-- **C04.sam_extra_text** — `_get_extra_field` (repaired rule) returns the record's text after its
11th field and the following separator, up to the line terminator (LF or CRLF); empty when there are no tags -/
theorem sam_extra_text (e : Ext) (h : WF e) (hne : ∀ r ∈ e.rows, 0 < r.fS.length) :
    e.samExtra = e.abs.map (·.extra) := by
  unfold Ext.samExtra Ext.abs
  rw [List.map_map]
  apply List.map_congr_left
  intro r hr
  simp only [Function.comp]
  obtain ⟨h1, h2, h3, h4, h5⟩ := h.2 r hr
  obtain ⟨lb1, lb2⟩ := last_bounds r _ (h.2 r hr) (hne r hr)
  by_cases hlen : r.eS + 2 ≤ r.eE
  case neg =>
    -- a record shorter than two bytes has no room for tags: both sides are empty, whatever byte the CR test looks at
    unfold Rec.extra absRow
    simp only
    rw [rel_getLast r h3 (hne r hr)]
    simp only
    rw [slice_length _ _ _ (by omega)]
    generalize (if byteAt e.data (r.eE - 2) == 13 then 1 else 0 : Nat) = c
    generalize (if byteAt (slice e.data r.eS (r.eE - r.eS)) (r.eE - r.eS - 2) == 13 then 1 else 0 : Nat) = c'
    have z1 : r.eE - 1 - c - (r.fS.getLastD 0 + r.fL.getLastD 0 + 1) = 0 := by omega
    have z2 : r.eE - r.eS - 1 - c' - (r.fS.getLastD 0 - r.eS + r.fL.getLastD 0 + 1) = 0 := by omega
    rw [z1, z2]; simp [slice]
  unfold Rec.extra absRow
  simp only
  rw [rel_getLast r h3 (hne r hr)]
  simp only
  rw [slice_length _ _ _ (by omega)]
  rw [byteAt_slice _ _ _ _ (by omega : r.eE - r.eS - 2 < r.eE - r.eS)]
  have e9 : r.eS + (r.eE - r.eS - 2) = r.eE - 2 := by omega
  rw [e9]
  generalize (if byteAt e.data (r.eE - 2) == 13 then 1 else 0 : Nat) = c
  have e0 : r.fS.getLastD 0 - r.eS + r.fL.getLastD 0 + 1 = (r.fS.getLastD 0 + r.fL.getLastD 0 + 1) - r.eS := by omega
  have e1 : r.eE - r.eS - 1 - c - (r.fS.getLastD 0 + r.fL.getLastD 0 + 1 - r.eS) = r.eE - 1 - c - (r.fS.getLastD 0 + r.fL.getLastD 0 + 1) := by omega
  rw [e0, e1]
  by_cases hc : r.fS.getLastD 0 + r.fL.getLastD 0 + 1 ≤ r.eE
  · exact (slice_slice e.data r.eS r.eE _ _ (by omega) (by omega) h2).symm
  · have : r.eE - 1 - c - (r.fS.getLastD 0 + r.fL.getLastD 0 + 1) = 0 := by omega
    rw [this]; simp [slice]

/-! ### the invariant checker the driver runs on every constructed extractor is sound -/

theorem rowWFb_sound (dlen : Nat) (r : Row) (h : rowWFb dlen r = true) : RowWF dlen r := by
  unfold rowWFb at h
  simp only [Bool.and_eq_true, decide_eq_true_eq, beq_iff_eq, List.all_eq_true] at h
  obtain ⟨⟨⟨⟨a, b⟩, c⟩, d⟩, f⟩ := h
  exact ⟨a, b, c, d, f⟩

/-- **C04.invB_sound** — `Ext.invB e = true` establishes the hypothesis `Inv e` of the program theorems -/
theorem invB_sound (e : Ext) (h : e.invB = true) : Inv e := by
  unfold Ext.invB at h
  simp only [Bool.and_eq_true, beq_iff_eq, List.all_eq_true, Bool.or_eq_true, Bool.not_eq_eq_eq_not, Bool.not_true] at h
  obtain ⟨⟨⟨⟨a, b⟩, c⟩, d⟩, f⟩ := h
  refine ⟨⟨⟨a, b, c⟩, fun r hr => rowWFb_sound _ r (d r hr)⟩, ?_⟩
  intro hc
  cases f with
  | inl f => rw [hc] at f; exact absurd f (by decide)
  | inr f => exact f

/-! ### modified writes -/

theorem getD_map_field (l : List Rec) (j i : Nat) :
    (l.map (·.field j)).getD i [] = ((l[i]?).map (·.field j)).getD [] := by
  simp only [List.getD_eq_getElem?_getD, List.getElem?_map]

/-! ### BAM: the same extractor without field tables -/

/-- **C04.bam_records** — `BamBufferExtractor.__getitem__/_make_contigous/data` is the same machine
with empty field tables: record bounds inside the data suffice for selection to be list indexing and
for compaction to deliver exactly the selected records' bytes. -/
theorem bam_records (e : Ext) (hl : LenWF e)
    (hr : ∀ r ∈ e.rows, r.fS = [] ∧ r.fL = [] ∧ r.eS ≤ r.eE ∧ r.eE ≤ e.data.length) (ix : Idx) :
    WF e ∧ (e.index ix).map Ext.abs = pyIndex e.abs ix ∧
    (∀ e', e.index ix = some e' → e'.bytes = specBytes e'.abs) := by
  have hwf : WF e := ⟨hl, fun r h => by
    obtain ⟨a, b, c, d⟩ := hr r h
    exact ⟨c, d, by rw [a, b], by rw [a]; simp, by rw [a]; simp⟩⟩
  refine ⟨hwf, select_refines e hl ix, ?_⟩
  intro e' he'
  unfold Ext.index at he'
  cases hix : ix.toList e.len with
  | none => simp [hix] at he'
  | some ixs =>
    simp [hix] at he'
    subst he'
    exact bytes_spec _ (inv_select e hwf ixs (toList_lt _ _ _ hix))

/-! ### the construction from a raw chunk: the shipped record-end rule is refuted -/

def crlfWitness : Bytes := "a\t1\r\nbb\t22\r\n".toList.map Char.toNat

/-- **C04.buildOld_unsound** — with the shipped rule (`entry_ends` taken after the carriage return
was stripped from the last field) a CRLF file's extractor violates the invariant, and selecting
`[1, 0]` writes records without their newline. Kept as the recorded refutation. -/
theorem buildOld_unsound :
    (buildDelimited false 9 crlfWitness).map Ext.invB = some false ∧
    (buildDelimited false 9 crlfWitness).map (fun e => (e.select [1, 0]).bytes)
      = some ("bb\t22\ra\t1\r".toList.map Char.toNat) := by decide +kernel

/-- **C04.buildFixed_witness** — the repaired rule on the same file: invariant holds, selection
writes the two source lines (with CRLF) in the selected order. -/
theorem buildFixed_witness :
    (buildDelimited true 9 crlfWitness).map Ext.invB = some true ∧
    (buildDelimited true 9 crlfWitness).map (fun e => (e.select [1, 0]).bytes)
      = some ("bb\t22\r\na\t1\r\n".toList.map Char.toNat) ∧
    (buildDelimited true 9 crlfWitness).map (fun e => e.fieldText 1)
      = some ["1".toList.map Char.toNat, "22".toList.map Char.toNat] := by decide +kernel

/-! ### non-vacuity: the hypotheses are satisfiable by non-trivial values -/

def demo : Ext := (buildDelimited true 9 ("chr1\t007\t+12\nc\t3\t4\nchrX\t10\t20\n".toList.map Char.toNat)).getD ⟨[], [], [], [], [], true⟩

example : demo.invB = true := by decide +kernel
example : Inv demo := invB_sound demo (by decide +kernel)
example : (Prog.evalExt [demo, demo] (.sel (.cat (.sel (.leaf 0) (.slice none none (-1))) (.touch (.leaf 1))) (.ints [-1, 0, 0, 4]))).map Ext.bytes
    = some ("chrX\t10\t20\nchrX\t10\t20\nchrX\t10\t20\nc\t3\t4\n".toList.map Char.toNat) := by decide +kernel
example : (buildKLine 4 [1, 0, 0, 0] ("@r1 d\nACGT\n+r1 d\nIIII\n@r2\nAC\n+\n#I\n".toList.map Char.toNat)).map Ext.invB = some true := by decide +kernel
example : (buildSam ("r1\t0\tc\t007\t60\t4M\t*\t0\t0\tACGT\tIIII\tNM:i:0\tXS:A:+\nr2\t16\tc\t9\t0\t2M\t=\t1\t0\tAC\tII\n".toList.map Char.toNat)).map
    (fun e => (e.invB, e.samExtra)) = some (true, ["NM:i:0\tXS:A:+".toList.map Char.toNat, []]) := by decide +kernel
example : (buildSam ("r1\t0\tc\t007\t60\t4M\t*\t0\t0\tACGT\tIIII\tNM:i:0\r\nr2\t16\tc\t9\t0\t2M\t=\t1\t0\tAC\tII\r\n".toList.map Char.toNat)).map
    (fun e => (e.invB, e.samExtra, e.fieldText 10)) = some (true, ["NM:i:0".toList.map Char.toNat, []],
      ["IIII".toList.map Char.toNat, "II".toList.map Char.toNat]) := by decide +kernel

end C04
