import BnpVerif.Props.C04Core
/-! C04 — the construction of the extractor from a raw chunk, for ALL well-formed LF files:
`buildDelimited` applied to the dump of a table of clean fields yields an extractor that satisfies
the invariant and denotes exactly the source lines and their fields. -/
namespace C04
open PyIdx

/-! ### the specification side: dumping a table of fields -/

def dumpLine (sep : Nat) (fields : List Bytes) : Bytes := intercalate [sep] fields ++ [10]
def dumpFile (sep : Nat) (lines : List (List Bytes)) : Bytes := (lines.map (dumpLine sep)).flatten

/-- a field contains neither the separator nor a newline (a carriage return is allowed: a CRLF
file is the LF dump of the table whose last column carries the CR) -/
def cleanField (sep : Nat) (f : Bytes) : Prop := ∀ b ∈ f, b ≠ sep ∧ b ≠ 10

/-- no carriage return anywhere in the table (plain LF text) -/
def NoCRTable (lines : List (List Bytes)) : Prop := ∀ l ∈ lines, ∀ f ∈ l, ∀ b ∈ f, b ≠ 13

/-- delimiter positions of one dumped line that starts at offset k (the last one is the newline) -/
def lineDelims : Nat → List Bytes → List Nat
  | k, [] => [k]
  | k, [f] => [k + f.length]
  | k, f :: g :: r => (k + f.length) :: lineDelims (k + f.length + 1) (g :: r)

theorem posFrom_append (p : Nat → Bool) (k : Nat) (a b : Bytes) :
    posFrom p k (a ++ b) = posFrom p k a ++ posFrom p (k + a.length) b := by
  induction a generalizing k with
  | nil => simp [posFrom]
  | cons x xs ih =>
    simp only [List.cons_append, posFrom, List.length_cons]
    have : k + (xs.length + 1) = k + 1 + xs.length := by omega
    split <;> simp [ih, this]

theorem posFrom_clean (sep : Nat) (k : Nat) (f : Bytes) (h : cleanField sep f) :
    posFrom (fun b => b == 10 || b == sep) k f = [] := by
  induction f generalizing k with
  | nil => rfl
  | cons x xs ih =>
    have hx := h x (by simp)
    have : (x == 10 || x == sep) = false := by simp [hx.1, hx.2]
    simp only [posFrom, this]
    exact ih (k + 1) (fun b hb => h b (by simp [hb]))

theorem dumpLine_length (sep : Nat) (fields : List Bytes) (k : Nat) (hne : fields ≠ []) :
    k + (dumpLine sep fields).length = (lineDelims k fields).getLastD 0 + 1 := by
  unfold dumpLine
  induction fields generalizing k with
  | nil => exact absurd rfl hne
  | cons f r ih =>
    cases r with
    | nil => simp [intercalate, lineDelims]; omega
    | cons g r' =>
      have := ih (k + f.length + 1) (by simp)
      simp only [intercalate, lineDelims, List.length_append, List.length_cons, List.length_nil] at this ⊢
      have hl : ((k + f.length) :: lineDelims (k + f.length + 1) (g :: r')).getLastD 0 = (lineDelims (k + f.length + 1) (g :: r')).getLastD 0 := by
        cases hd : lineDelims (k + f.length + 1) (g :: r') with
        | nil => cases r' <;> simp [lineDelims] at hd
        | cons y ys => simp [List.getLastD]
      rw [hl]
      omega

theorem posFrom_dumpLine (sep : Nat) (fields : List Bytes) (k : Nat) (hne : fields ≠ [])
    (hc : ∀ f ∈ fields, cleanField sep f) :
    posFrom (fun b => b == 10 || b == sep) k (dumpLine sep fields) = lineDelims k fields := by
  unfold dumpLine
  induction fields generalizing k with
  | nil => exact absurd rfl hne
  | cons f r ih =>
    cases r with
    | nil =>
      simp only [intercalate, lineDelims]
      rw [posFrom_append, posFrom_clean sep k f (hc f (by simp))]
      simp [posFrom]
    | cons g r' =>
      have := ih (k + f.length + 1) (by simp) (fun x hx => hc x (by simp [hx]))
      simp only [intercalate, lineDelims]
      rw [List.append_assoc, List.append_assoc, posFrom_append, posFrom_clean sep k f (hc f (by simp))]
      simp only [List.nil_append, List.singleton_append, posFrom]
      have hs : (sep == 10 || sep == sep) = true := by simp
      simp only [hs, if_true]
      rw [this]

/-! ### the delimiter table of a dumped file, line by line -/

def lineGroups (sep : Nat) : Nat → List (List Bytes) → List (List Nat)
  | _, [] => []
  | k, l :: ls => lineDelims k l :: lineGroups sep (k + (dumpLine sep l).length) ls

def startGroups (sep : Nat) : Nat → List (List Bytes) → List (List Nat)
  | _, [] => []
  | k, l :: ls => (k :: (lineDelims k l).dropLast.map (· + 1)) :: startGroups sep (k + (dumpLine sep l).length) ls

/-- a table of `n ≥ 1` clean fields per line -/
def CleanTable (sep n : Nat) (lines : List (List Bytes)) : Prop :=
  ∀ l ∈ lines, l.length = n ∧ ∀ f ∈ l, cleanField sep f

theorem lineDelims_length (k : Nat) (fields : List Bytes) (hne : fields ≠ []) :
    (lineDelims k fields).length = fields.length := by
  induction fields generalizing k with
  | nil => exact absurd rfl hne
  | cons f r ih =>
    cases r with
    | nil => rfl
    | cons g r' => simp only [lineDelims, List.length_cons]; rw [ih (k + f.length + 1) (by simp)]; rfl

theorem posFrom_dumpFile (sep n : Nat) (hn : 0 < n) (lines : List (List Bytes)) (h : CleanTable sep n lines) (k : Nat) :
    posFrom (fun b => b == 10 || b == sep) k (dumpFile sep lines) = (lineGroups sep k lines).flatten := by
  induction lines generalizing k with
  | nil => rfl
  | cons l ls ih =>
    have hl := h l (by simp)
    have hne : l ≠ [] := by intro e; rw [e] at hl; simp at hl; omega
    simp only [dumpFile, List.map_cons, List.flatten_cons, lineGroups]
    rw [posFrom_append, posFrom_dumpLine sep l k hne hl.2]
    congr 1
    exact ih (fun x hx => h x (by simp [hx])) _

theorem posFrom_lt (p : Nat → Bool) (k : Nat) (l : Bytes) : ∀ i ∈ posFrom p k l, k ≤ i ∧ i < k + l.length := by
  induction l generalizing k with
  | nil => intro i hi; simp [posFrom] at hi
  | cons x xs ih =>
    intro i hi
    simp only [posFrom] at hi
    split at hi
    · simp only [List.mem_cons] at hi
      rcases hi with rfl | hi
      · simp
      · have := ih (k + 1) i hi; simp; omega
    · have := ih (k + 1) i hi; simp; omega

theorem chunksOf_flatten {α} (n : Nat) (hn : 0 < n) (gs : List (List α)) (hg : ∀ g ∈ gs, g.length = n) :
    ∀ fuel, gs.length ≤ fuel → chunksOf n fuel gs.flatten = gs := by
  induction gs with
  | nil => intro fuel _; cases fuel <;> simp [chunksOf]
  | cons g gs ih =>
    intro fuel hf
    cases fuel with
    | zero => simp at hf
    | succ fuel =>
      have hgl := hg g (by simp)
      have hne : (g ++ gs.flatten).isEmpty = false := by
        cases g with
        | nil => simp at hgl; omega
        | cons x xs => rfl
      have hn0 : (n == 0) = false := by simp; omega
      simp only [List.flatten_cons, chunksOf, hne, hn0, Bool.or_self, Bool.false_eq_true, if_false]
      rw [List.take_left' hgl, List.drop_left' hgl]
      rw [ih (fun x hx => hg x (by simp [hx])) fuel (by simp at hf; omega)]

theorem lineGroups_length (sep : Nat) (k : Nat) (lines : List (List Bytes)) : (lineGroups sep k lines).length = lines.length := by
  induction lines generalizing k with
  | nil => rfl
  | cons l ls ih => simp [lineGroups, ih]

theorem startGroups_length (sep : Nat) (k : Nat) (lines : List (List Bytes)) : (startGroups sep k lines).length = lines.length := by
  induction lines generalizing k with
  | nil => rfl
  | cons l ls ih => simp [startGroups, ih]

theorem lineGroups_all_length (sep n : Nat) (hn : 0 < n) (lines : List (List Bytes)) (h : CleanTable sep n lines) (k : Nat) :
    ∀ g ∈ lineGroups sep k lines, g.length = n := by
  induction lines generalizing k with
  | nil => intro g hg; simp [lineGroups] at hg
  | cons l ls ih =>
    intro g hg
    have hl := h l (by simp)
    have hne : l ≠ [] := by intro e; rw [e] at hl; simp at hl; omega
    simp only [lineGroups, List.mem_cons] at hg
    rcases hg with rfl | hg
    · rw [lineDelims_length k l hne, hl.1]
    · exact ih (fun x hx => h x (by simp [hx])) _ g hg

theorem startGroups_all_length (sep n : Nat) (hn : 0 < n) (lines : List (List Bytes)) (h : CleanTable sep n lines) (k : Nat) :
    ∀ g ∈ startGroups sep k lines, g.length = n := by
  induction lines generalizing k with
  | nil => intro g hg; simp [startGroups] at hg
  | cons l ls ih =>
    intro g hg
    have hl := h l (by simp)
    have hne : l ≠ [] := by intro e; rw [e] at hl; simp at hl; omega
    simp only [startGroups, List.mem_cons] at hg
    rcases hg with rfl | hg
    · simp [lineDelims_length k l hne, hl.1]; omega
    · exact ih (fun x hx => h x (by simp [hx])) _ g hg

theorem lineDelims_ne_nil (k : Nat) (fields : List Bytes) : lineDelims k fields ≠ [] := by
  cases fields with
  | nil => simp [lineDelims]
  | cons f r => cases r <;> simp [lineDelims]

/-- the start table: 0, then one past every delimiter but the last, regrouped line by line -/
theorem starts_groups (sep : Nat) (lines : List (List Bytes)) (hne : lines ≠ []) (k : Nat) :
    k :: ((lineGroups sep k lines).flatten.dropLast.map (· + 1)) = (startGroups sep k lines).flatten := by
  induction lines generalizing k with
  | nil => exact absurd rfl hne
  | cons l ls ih =>
    cases ls with
    | nil => simp [lineGroups, startGroups]
    | cons l2 ls2 =>
      have ih' := ih (by simp) (k + (dumpLine sep l).length)
      have hB : (lineGroups sep (k + (dumpLine sep l).length) (l2 :: ls2)).flatten ≠ [] := by
        simp only [lineGroups, List.flatten_cons]
        intro e
        exact lineDelims_ne_nil _ l2 (List.append_eq_nil_iff.mp e).1
      simp only [lineGroups, startGroups, List.flatten_cons] at ih' hB ⊢
      rw [List.dropLast_append_of_ne_nil hB, List.map_append, ← ih']
      have hA := lineDelims_ne_nil k l
      have hlast : (lineDelims k l).map (· + 1) = (lineDelims k l).dropLast.map (· + 1) ++ [k + (dumpLine sep l).length] := by
        have h1 : lineDelims k l = (lineDelims k l).dropLast ++ [(lineDelims k l).getLast hA] := (List.dropLast_concat_getLast hA).symm
        conv => lhs; rw [h1]
        rw [List.map_append]
        congr 1
        by_cases hl : l = []
        · subst hl; simp [lineDelims, dumpLine, intercalate]
        · have := dumpLine_length sep l k hl
          rw [List.getLastD_eq_getLast?, List.getLast?_eq_some_getLast hA] at this
          simp at this ⊢; omega
      rw [hlast]
      simp

/-! ### the scalar quantities `from_raw_buffer` derives -/

theorem filter_clean (sep : Nat) (f : Bytes) (h : cleanField sep f) : f.filter (fun b => b == 10 || b == sep) = [] := by
  rw [List.filter_eq_nil_iff]
  intro b hb
  have := h b hb
  simp [this.1, this.2]

theorem filter_dumpLine (sep : Nat) (fields : List Bytes) (hne : fields ≠ []) (hc : ∀ f ∈ fields, cleanField sep f) :
    (dumpLine sep fields).filter (fun b => b == 10 || b == sep) = List.replicate (fields.length - 1) sep ++ [10] := by
  unfold dumpLine
  induction fields with
  | nil => exact absurd rfl hne
  | cons f r ih =>
    cases r with
    | nil => simp [intercalate, List.filter_append, filter_clean sep f (hc f (by simp))]
    | cons g r' =>
      have := ih (by simp) (fun x hx => hc x (by simp [hx]))
      simp only [intercalate, List.append_assoc, List.filter_append, filter_clean sep f (hc f (by simp)), List.nil_append] at this ⊢
      rw [this]
      simp [List.replicate_succ]

theorem findIdx_replicate (sep : Nat) (hs : sep ≠ 10) (m : Nat) (X : Bytes) :
    (List.replicate m sep ++ 10 :: X).findIdx (· == 10) = m := by
  induction m with
  | zero => simp [List.findIdx_cons]
  | succ m ih =>
    simp only [List.replicate_succ, List.cons_append, List.findIdx_cons]
    have : (sep == 10) = false := by simp [hs]
    simp [this, ih]

theorem dumpFile_ends_nl (sep : Nat) (lines : List (List Bytes)) (hne : lines ≠ []) :
    ∃ X, dumpFile sep lines = X ++ [10] := by
  induction lines with
  | nil => exact absurd rfl hne
  | cons l ls ih =>
    cases ls with
    | nil => exact ⟨intercalate [sep] l, by simp [dumpFile, dumpLine]⟩
    | cons l2 ls2 =>
      obtain ⟨X, hX⟩ := ih (by simp)
      refine ⟨dumpLine sep l ++ X, ?_⟩
      simp only [dumpFile, List.map_cons, List.flatten_cons] at hX ⊢
      rw [hX, List.append_assoc]

theorem lastNl_dumpFile (sep : Nat) (lines : List (List Bytes)) (hne : lines ≠ []) :
    (posFrom (· == 10) 0 (dumpFile sep lines)).getLast? = some ((dumpFile sep lines).length - 1) := by
  obtain ⟨X, hX⟩ := dumpFile_ends_nl sep lines hne
  rw [hX, posFrom_append]
  simp [posFrom]

theorem intercalate_no_cr (sep : Nat) (hs : sep ≠ 13) (fields : List Bytes) (hc : ∀ f ∈ fields, ∀ b ∈ f, b ≠ 13) :
    ∀ b ∈ intercalate [sep] fields, b ≠ 13 := by
  induction fields with
  | nil => intro b hb; simp [intercalate] at hb
  | cons f r ih =>
    cases r with
    | nil => intro b hb; simp only [intercalate] at hb; exact hc f (by simp) b hb
    | cons g r' =>
      intro b hb
      simp only [intercalate, List.mem_append, List.mem_singleton] at hb
      rcases hb with (hb | hb) | hb
      · exact hc f (by simp) b hb
      · rw [hb]; exact hs
      · exact ih (fun x hx => hc x (by simp [hx])) b hb

theorem byteAt_append_left (A B : Bytes) (i : Nat) (h : i < A.length) : byteAt (A ++ B) i = A[i] := by
  unfold byteAt
  simp [List.getD_eq_getElem?_getD, List.getElem?_append_left h, List.getElem?_eq_getElem h]

/-! ### the constructed extractor, in closed form -/

/-- the carriage-return switch of `_modify_for_carriage_return`: is the byte before the first newline a CR? -/
def crFlag (raw : Bytes) (G : List (List Nat)) : Bool :=
  ((G.head?).map (fun r0 => (r0.getLastD 0 != 0) && byteAt raw (r0.getLastD 0 - 1) == 13)).getD false

/-- the field-end table after `_modify_for_carriage_return` -/
def endsOf (raw : Bytes) (G : List (List Nat)) : List (List Nat) := if crFlag raw G then G.map (stripCR raw) else G

/-- the extractor with an arbitrary field-end table `Es` (record ends always come from the newline table) -/
def expExtE (sep : Nat) (lines : List (List Bytes)) (Es : List (List Nat)) : Ext :=
  { data := dumpFile sep lines,
    fStart := startGroups sep 0 lines,
    fLen := List.zipWith (fun ss es => List.zipWith (fun s e => e - s) ss es) (startGroups sep 0 lines) Es,
    eStart := (startGroups sep 0 lines).map (·.headD 0),
    eEnd := (lineGroups sep 0 lines).map (fun r => r.getLastD 0 + 1),
    contiguous := true }

/-- what the (repaired) code constructs from the dumped file -/
def expExtG (sep : Nat) (lines : List (List Bytes)) : Ext :=
  expExtE sep lines (endsOf (dumpFile sep lines) (lineGroups sep 0 lines))

/-- the same when no carriage return is stripped -/
def expExt (sep : Nat) (lines : List (List Bytes)) : Ext := expExtE sep lines (lineGroups sep 0 lines)

theorem flatten_length_const {α} (n : Nat) (gs : List (List α)) (h : ∀ g ∈ gs, g.length = n) :
    gs.flatten.length = gs.length * n := by
  induction gs with
  | nil => simp
  | cons g gs ih =>
    simp only [List.flatten_cons, List.length_append, List.length_cons]
    rw [ih (fun x hx => h x (by simp [hx])), h g (by simp), Nat.succ_mul]; omega

/-- **C04.buildDelimited_eq** — `from_raw_buffer` + `_get_buffer_extractor` + `_modify_for_carriage_return` on the dump
of ANY table of `n ≥ 1` clean fields per line (CR allowed inside fields, hence CRLF and mixed files too) -/
theorem buildDelimited_eq (sep n : Nat) (hs10 : sep ≠ 10) (hn : 0 < n)
    (lines : List (List Bytes)) (hne : lines ≠ []) (h : CleanTable sep n lines) :
    buildDelimited true sep (dumpFile sep lines) = some (expExtG sep lines) := by
  obtain ⟨raw, hraw⟩ : ∃ raw, raw = dumpFile sep lines := ⟨_, rfl⟩
  obtain ⟨G, hG⟩ : ∃ G, G = lineGroups sep 0 lines := ⟨_, rfl⟩
  obtain ⟨S, hS⟩ : ∃ S, S = startGroups sep 0 lines := ⟨_, rfl⟩
  have hd : posFrom (fun b => b == 10 || b == sep) 0 raw = G.flatten := by
    rw [hraw, hG]; exact posFrom_dumpFile sep n hn lines h 0
  have hl : (posFrom (· == 10) 0 raw).getLast? = some (raw.length - 1) := by
    rw [hraw]; exact lastNl_dumpFile sep lines hne
  have hGall : ∀ g ∈ G, g.length = n := by rw [hG]; exact lineGroups_all_length sep n hn lines h 0
  have hSall : ∀ g ∈ S, g.length = n := by rw [hS]; exact startGroups_all_length sep n hn lines h 0
  have hGlen : G.length = lines.length := by rw [hG]; exact lineGroups_length sep 0 lines
  have hSlen : S.length = lines.length := by rw [hS]; exact startGroups_length sep 0 lines
  have hflen : G.flatten.length = lines.length * n := by rw [flatten_length_const n G hGall, hGlen]
  have hrawpos : 0 < raw.length := by
    obtain ⟨X, hX⟩ := dumpFile_ends_nl sep lines hne
    rw [hraw, hX]; simp
  have htake : raw.take (raw.length - 1 + 1) = raw := by
    have : raw.length - 1 + 1 = raw.length := by omega
    rw [this, List.take_length]
  have hf : G.flatten.filter (· ≤ raw.length - 1) = G.flatten := by
    rw [List.filter_eq_self]
    intro i hi
    rw [← hd] at hi
    have := posFrom_lt _ 0 raw i hi
    simp; omega
  have hc : (raw.filter (fun b => b == 10 || b == sep)).findIdx (· == 10) + 1 = n := by
    cases lines with
    | nil => exact absurd rfl hne
    | cons l0 ls =>
      have hl0 := h l0 (by simp)
      have hne0 : l0 ≠ [] := by intro e; rw [e] at hl0; simp at hl0; omega
      rw [hraw]
      simp only [dumpFile, List.map_cons, List.flatten_cons, List.filter_append]
      rw [filter_dumpLine sep l0 hne0 hl0.2, List.append_assoc, List.singleton_append, findIdx_replicate sep hs10, hl0.1]
      omega
  have hmod : (G.flatten.length % n != 0) = false := by
    rw [hflen, Nat.mul_mod_left]; rfl
  have hfuel : lines.length ≤ G.flatten.length := by
    rw [hflen]; exact Nat.le_mul_of_pos_right _ hn
  have hSchunk : chunksOf n G.flatten.length (0 :: G.flatten.dropLast.map (· + 1)) = S := by
    rw [hG, starts_groups sep lines hne 0, ← hS]
    exact chunksOf_flatten n hn S hSall _ (by rw [hSlen]; rw [hG] at hfuel; exact hfuel)
  have hGchunk : chunksOf n G.flatten.length G.flatten = G :=
    chunksOf_flatten n hn G hGall _ (by rw [hGlen]; exact hfuel)
  unfold buildDelimited
  simp only [← hraw, hl, hd, hc, htake, hf, hSchunk, hGchunk, hmod, Bool.false_eq_true, if_false, if_true]
  unfold expExtG expExtE endsOf crFlag
  rw [← hraw, ← hG, ← hS]
  cases G.head? <;> rfl

/-- for plain LF text (no CR anywhere, separator not CR) nothing is stripped -/
theorem endsOf_lf (sep n : Nat) (hs13 : sep ≠ 13) (hn : 0 < n) (lines : List (List Bytes)) (h : CleanTable sep n lines)
    (hnocr : NoCRTable lines) :
    endsOf (dumpFile sep lines) (lineGroups sep 0 lines) = lineGroups sep 0 lines := by
  unfold endsOf
  have : crFlag (dumpFile sep lines) (lineGroups sep 0 lines) = false := by
    unfold crFlag
    cases lines with
    | nil => rfl
    | cons l0 ls =>
      have hl0 := h l0 (by simp)
      have hne0 : l0 ≠ [] := by intro e; rw [e] at hl0; simp at hl0; omega
      simp only [lineGroups, List.head?_cons, Option.map_some, Option.getD_some]
      have hlast := dumpLine_length sep l0 0 hne0
      simp only [Nat.zero_add] at hlast
      obtain ⟨m, hm⟩ : ∃ m, m = (lineDelims 0 l0).getLastD 0 := ⟨_, rfl⟩
      rw [← hm] at hlast ⊢
      by_cases hz : m = 0
      · simp [hz]
      · have hb : byteAt (dumpFile sep (l0 :: ls)) (m - 1) ≠ 13 := by
          simp only [dumpFile, List.map_cons, List.flatten_cons, dumpLine, List.append_assoc]
          have hlt : m - 1 < (intercalate [sep] l0).length := by
            simp only [dumpLine, List.length_append, List.length_singleton] at hlast; omega
          rw [byteAt_append_left _ _ _ hlt]
          exact intercalate_no_cr sep hs13 l0 (hnocr l0 (by simp)) _ (List.getElem_mem hlt)
        simp [hb]
  simp [this]

/-! ### one line: closed forms of its start / end tables -/

def offsFrom : Nat → List Bytes → List Nat
  | _, [] => []
  | o, f :: r => o :: offsFrom (o + f.length + 1) r

theorem offsFrom_length (o : Nat) (fs : List Bytes) : (offsFrom o fs).length = fs.length := by
  induction fs generalizing o with
  | nil => rfl
  | cons f r ih => simp [offsFrom, ih]

theorem offsFrom_ge (o : Nat) (fs : List Bytes) : ∀ x ∈ offsFrom o fs, o ≤ x := by
  induction fs generalizing o with
  | nil => intro x hx; simp [offsFrom] at hx
  | cons f r ih =>
    intro x hx
    simp only [offsFrom, List.mem_cons] at hx
    rcases hx with rfl | hx
    · exact Nat.le_refl _
    · have := ih (o + f.length + 1) x hx; omega

theorem lineDelims_closed (k : Nat) (fields : List Bytes) (hne : fields ≠ []) :
    lineDelims k fields = List.zipWith (fun o f => o + f.length) (offsFrom k fields) fields := by
  induction fields generalizing k with
  | nil => exact absurd rfl hne
  | cons f r ih =>
    cases r with
    | nil => rfl
    | cons g r' =>
      simp only [lineDelims, offsFrom, List.zipWith_cons_cons]
      rw [ih (k + f.length + 1) (by simp)]
      rfl

theorem lineStarts_closed (k : Nat) (fields : List Bytes) (hne : fields ≠ []) :
    k :: (lineDelims k fields).dropLast.map (· + 1) = offsFrom k fields := by
  induction fields generalizing k with
  | nil => exact absurd rfl hne
  | cons f r ih =>
    cases r with
    | nil => rfl
    | cons g r' =>
      have hD := lineDelims_ne_nil (k + f.length + 1) (g :: r')
      simp only [lineDelims, offsFrom]
      rw [List.dropLast_cons_of_ne_nil hD, List.map_cons, ih (k + f.length + 1) (by simp)]
      rfl

theorem slice_append_right {α} (A Y : List α) (x len : Nat) : slice (A ++ Y) (A.length + x) len = slice Y x len := by
  unfold slice
  rw [List.drop_append]
  have h1 : List.drop (A.length + x) A = [] := by simp
  have h2 : A.length + x - A.length = x := by omega
  rw [h1, h2, List.nil_append]

theorem dumpLine_cons_cons (sep : Nat) (f g : Bytes) (r : List Bytes) :
    dumpLine sep (f :: g :: r) = (f ++ [sep]) ++ dumpLine sep (g :: r) := by
  simp [dumpLine, intercalate]

/-- the text between the j-th start and the j-th delimiter of a dumped line is its j-th field -/
theorem line_field (sep : Nat) (fields : List Bytes) (k j : Nat) (hj : j < fields.length) :
    slice (dumpLine sep fields) ((offsFrom k fields)[j]'(by rw [offsFrom_length]; exact hj) - k) (fields[j]).length = fields[j] := by
  induction fields generalizing k j with
  | nil => simp at hj
  | cons f r ih =>
    cases j with
    | zero =>
      simp only [offsFrom, List.getElem_cons_zero, Nat.sub_self]
      unfold slice dumpLine
      cases r with
      | nil => simp [intercalate]
      | cons g r' => simp [intercalate, List.append_assoc]
    | succ j =>
      cases r with
      | nil => simp at hj
      | cons g r' =>
        have hj' : j < (g :: r').length := by simp at hj ⊢; omega
        have := ih (k + f.length + 1) j hj'
        simp only [offsFrom, List.getElem_cons_succ] at this ⊢
        have hge := offsFrom_ge (k + f.length + 1) (g :: r') _ (List.getElem_mem (by rw [offsFrom_length]; exact hj'))
        simp only [offsFrom] at hge
        rw [dumpLine_cons_cons]
        have e1 : (offsFrom (k + f.length + 1) (g :: r'))[j]'(by rw [offsFrom_length]; exact hj') - k
            = (f ++ [sep]).length + ((offsFrom (k + f.length + 1) (g :: r'))[j]'(by rw [offsFrom_length]; exact hj') - (k + f.length + 1)) := by
          simp only [offsFrom] at hge ⊢
          simp; omega
        simp only [offsFrom] at e1
        rw [e1, slice_append_right]
        exact this

/-! ### the rows of the constructed extractor and what they denote -/

def expRowsE (sep : Nat) : Nat → List (List Bytes) → List (List Nat) → List Row
  | k, l :: ls, E :: Es =>
    ⟨offsFrom k l, List.zipWith (fun s e => e - s) (offsFrom k l) E, k, k + (dumpLine sep l).length⟩ ::
      expRowsE sep (k + (dumpLine sep l).length) ls Es
  | _, _, _ => []

/-- a field-end table that has one end per field, never beyond the field's true end, and exact on
the columns selected by `full` -/
def EsOK (sep : Nat) (full : Nat → Nat → Bool) : Nat → List (List Bytes) → List (List Nat) → Prop
  | k, l :: ls, E :: Es =>
    E.length = l.length ∧
    (∀ j, j < l.length → E.getD j 0 ≤ (offsFrom k l).getD j 0 + (l.getD j []).length ∧
      (full j l.length = true → E.getD j 0 = (offsFrom k l).getD j 0 + (l.getD j []).length)) ∧
    EsOK sep full (k + (dumpLine sep l).length) ls Es
  | _, [], [] => True
  | _, _, _ => False

theorem rows_expE (sep : Nat) (lines : List (List Bytes)) (hne : ∀ l ∈ lines, l ≠ []) :
    ∀ (Es : List (List Nat)) (k : Nat) (data : Bytes) (c : Bool), Es.length = lines.length →
    (Ext.mk data (startGroups sep k lines)
      (List.zipWith (fun ss es => List.zipWith (fun s e => e - s) ss es) (startGroups sep k lines) Es)
      ((startGroups sep k lines).map (·.headD 0)) ((lineGroups sep k lines).map (fun r => r.getLastD 0 + 1)) c).rows
    = expRowsE sep k lines Es := by
  induction lines with
  | nil => intro Es k data c hlen; cases Es <;> simp [Ext.rows, startGroups, lineGroups, expRowsE]
  | cons l ls ih =>
    intro Es k data c hlen
    cases Es with
    | nil => simp at hlen
    | cons E Es =>
      have hl := hne l (by simp)
      have := ih (fun x hx => hne x (by simp [hx])) Es (k + (dumpLine sep l).length) data c (by simpa using hlen)
      unfold Ext.rows at this ⊢
      simp only at this ⊢
      simp only [startGroups, lineGroups, List.zipWith_cons_cons, List.map_cons, List.zip_cons_cons, expRowsE]
      rw [this]
      congr 1
      have h1 := lineStarts_closed k l hl
      have h3 := dumpLine_length sep l k hl
      rw [h1]
      congr 1
      · cases l with
        | nil => exact absurd rfl hl
        | cons f r => rfl
      · omega

theorem dumpLine_len_ge (sep : Nat) (f : Bytes) (r : List Bytes) : f.length + 1 ≤ (dumpLine sep (f :: r)).length := by
  cases r with
  | nil => simp [dumpLine, intercalate]
  | cons g r' => rw [dumpLine_cons_cons]; simp

theorem offs_bound (sep : Nat) (l : List Bytes) (k : Nat) :
    ∀ j, j < l.length → (offsFrom k l).getD j 0 + (l.getD j []).length + 1 ≤ k + (dumpLine sep l).length := by
  induction l generalizing k with
  | nil => intro j hj; simp at hj
  | cons f r ih =>
    intro j hj
    cases j with
    | zero => have := dumpLine_len_ge sep f r; simp [offsFrom]; omega
    | succ j =>
      cases r with
      | nil => simp at hj
      | cons g r' =>
        have := ih (k + f.length + 1) j (by simp at hj ⊢; omega)
        rw [dumpLine_cons_cons]
        simp only [offsFrom, List.getD_cons_succ, List.length_append, List.length_singleton] at this ⊢
        omega

theorem lineRowE_spec (sep : Nat) (Pfx rest : Bytes) (l : List Bytes) (E : List Nat) (hE : E.length = l.length)
    (hle : ∀ j, j < l.length → E.getD j 0 ≤ (offsFrom Pfx.length l).getD j 0 + (l.getD j []).length) :
    let row : Row := ⟨offsFrom Pfx.length l, List.zipWith (fun s e => e - s) (offsFrom Pfx.length l) E, Pfx.length,
      Pfx.length + (dumpLine sep l).length⟩
    (absRow (Pfx ++ dumpLine sep l ++ rest) row).raw = dumpLine sep l ∧
    (∀ j, j < l.length → E.getD j 0 = (offsFrom Pfx.length l).getD j 0 + (l.getD j []).length →
      (absRow (Pfx ++ dumpLine sep l ++ rest) row).field j = l.getD j []) ∧
    RowWF (Pfx ++ dumpLine sep l ++ rest).length row := by
  intro row
  have hs : slice (Pfx ++ dumpLine sep l ++ rest) Pfx.length (Pfx.length + (dumpLine sep l).length - Pfx.length) = dumpLine sep l := by
    have : Pfx.length + (dumpLine sep l).length - Pfx.length = (dumpLine sep l).length := by omega
    rw [this]
    have h := slice_append_mid Pfx (dumpLine sep l) rest 0 (dumpLine sep l).length (by omega)
    rw [Nat.add_zero] at h
    rw [h, slice_zero_all]
  refine ⟨hs, ?_, ?_⟩
  · intro j hj hfull
    unfold Rec.field absRow
    simp only [row]
    have hj1 : j < (offsFrom Pfx.length l).length := by rw [offsFrom_length]; exact hj
    have hj2 : j < E.length := by rw [hE]; exact hj
    have hz : (List.zipWith (fun s len => (s - Pfx.length, len)) (offsFrom Pfx.length l)
        (List.zipWith (fun s e => e - s) (offsFrom Pfx.length l) E))[j]?
        = some ((offsFrom Pfx.length l)[j] - Pfx.length, E[j] - (offsFrom Pfx.length l)[j]) := by
      simp [List.getElem?_zipWith, List.getElem?_eq_getElem hj1, List.getElem?_eq_getElem hj2]
    rw [hz]
    simp only
    have e1 : E[j] - (offsFrom Pfx.length l)[j] = (l[j]).length := by
      simp only [List.getD_eq_getElem?_getD, List.getElem?_eq_getElem hj1, List.getElem?_eq_getElem hj2,
        List.getElem?_eq_getElem hj, Option.getD_some] at hfull
      omega
    rw [hs, e1, line_field sep l Pfx.length j hj]
    simp [List.getD_eq_getElem?_getD, List.getElem?_eq_getElem hj]
  · refine ⟨by simp [row], by simp [row], by simp [row, offsFrom_length, hE], ?_, ?_⟩
    · intro s hs'; exact offsFrom_ge _ _ s hs'
    · intro p hp
      simp only [row] at hp ⊢
      obtain ⟨j, hj, hpj⟩ := List.getElem_of_mem hp
      simp only [List.length_zip, List.length_zipWith, offsFrom_length, hE, Nat.min_self] at hj
      have hj1 : j < (offsFrom Pfx.length l).length := by rw [offsFrom_length]; exact hj
      have hj2 : j < E.length := by rw [hE]; exact hj
      have hb := offs_bound sep l Pfx.length j hj
      have hl := hle j hj
      simp only [List.getD_eq_getElem?_getD, List.getElem?_eq_getElem hj1, List.getElem?_eq_getElem hj2,
        List.getElem?_eq_getElem hj, Option.getD_some] at hb hl
      rw [← hpj]
      simp only [List.getElem_zip, List.getElem_zipWith]
      omega

theorem expRowsE_spec (sep : Nat) (full : Nat → Nat → Bool) (lines : List (List Bytes)) :
    ∀ (Es : List (List Nat)) (Pfx : Bytes), EsOK sep full Pfx.length lines Es →
      ((expRowsE sep Pfx.length lines Es).map (absRow (Pfx ++ dumpFile sep lines))).map (·.raw) = lines.map (dumpLine sep) ∧
      (∀ j n, (∀ l ∈ lines, l.length = n) → j < n → full j n = true →
        ((expRowsE sep Pfx.length lines Es).map (absRow (Pfx ++ dumpFile sep lines))).map (·.field j) = lines.map (fun l => l.getD j [])) ∧
      (∀ r ∈ expRowsE sep Pfx.length lines Es, RowWF (Pfx ++ dumpFile sep lines).length r) ∧
      Es.length = lines.length := by
  induction lines with
  | nil =>
    intro Es Pfx hok
    cases Es with
    | nil => simp [expRowsE]
    | cons E Es => simp [EsOK] at hok
  | cons l ls ih =>
    intro Es Pfx hok
    cases Es with
    | nil => simp [EsOK] at hok
    | cons E Es =>
      obtain ⟨hE, hcols, hrest⟩ := hok
      have hrest' : EsOK sep full (Pfx ++ dumpLine sep l).length ls Es := by simpa [List.length_append] using hrest
      obtain ⟨i1, i2, i3, i4⟩ := ih Es (Pfx ++ dumpLine sep l) hrest'
      obtain ⟨r1, r2, r3⟩ := lineRowE_spec sep Pfx (dumpFile sep ls) l E hE (fun j hj => (hcols j hj).1)
      have hdata : Pfx ++ dumpFile sep (l :: ls) = Pfx ++ dumpLine sep l ++ dumpFile sep ls := by
        simp [dumpFile, List.append_assoc]
      simp only [List.length_append] at i1 i2 i3
      simp only [expRowsE, List.map_cons, hdata]
      refine ⟨by rw [r1, i1], ?_, ?_, by simp [i4]⟩
      · intro j n hn hj hfull
        have hln := hn l (by simp)
        rw [r2 j (by rw [hln]; exact hj) ((hcols j (by rw [hln]; exact hj)).2 (by rw [hln]; exact hfull)),
          i2 j n (fun x hx => hn x (by simp [hx])) hj hfull]
      · intro r hr
        simp only [List.mem_cons] at hr
        rcases hr with rfl | hr
        · exact r3
        · have := i3 r hr
          simp only [List.length_append] at this ⊢
          exact this

theorem EsOK_groups (sep : Nat) (full : Nat → Nat → Bool) (lines : List (List Bytes)) (hne : ∀ l ∈ lines, l ≠ []) (k : Nat) :
    EsOK sep full k lines (lineGroups sep k lines) := by
  induction lines generalizing k with
  | nil => simp [lineGroups, EsOK]
  | cons l ls ih =>
    have hl := hne l (by simp)
    simp only [lineGroups, EsOK]
    refine ⟨lineDelims_length k l hl, ?_, ih (fun x hx => hne x (by simp [hx])) _⟩
    intro j hj
    have hj1 : j < (offsFrom k l).length := by rw [offsFrom_length]; exact hj
    have : (lineDelims k l).getD j 0 = (offsFrom k l).getD j 0 + (l.getD j []).length := by
      rw [lineDelims_closed k l hl]
      simp [List.getD_eq_getElem?_getD, List.getElem?_zipWith, List.getElem?_eq_getElem hj1, List.getElem?_eq_getElem hj]
    exact ⟨by omega, fun _ => this⟩

theorem stripCR_spec (d : Bytes) (E : List Nat) :
    (stripCR d E).length = E.length ∧ (∀ j, (stripCR d E).getD j 0 ≤ E.getD j 0) ∧
    (∀ j, j + 1 < E.length → (stripCR d E).getD j 0 = E.getD j 0) := by
  unfold stripCR
  cases hE : E.getLast? with
  | none => exact ⟨rfl, fun _ => Nat.le_refl _, fun _ _ => rfl⟩
  | some e =>
    have hne : E ≠ [] := by intro h; rw [h] at hE; simp at hE
    have hsplit : E = E.dropLast ++ [e] := by
      have := List.dropLast_concat_getLast hne
      rw [List.getLast?_eq_some_getLast hne] at hE
      simp only [Option.some.injEq] at hE
      rw [hE] at this; exact this.symm
    have hlen : E.dropLast.length + 1 = E.length := by
      conv => rhs; rw [hsplit]
      simp
    refine ⟨by simp; omega, ?_, ?_⟩
    · intro j
      conv => rhs; rw [hsplit]
      simp only [List.getD_eq_getElem?_getD]
      by_cases hj : j < E.dropLast.length
      · simp [List.getElem?_append_left hj]
      · by_cases hj2 : j = E.dropLast.length
        · subst hj2
          simp only [List.getElem?_append_right (Nat.le_refl _), Nat.sub_self, List.getElem?_cons_zero, Option.getD_some]
          split <;> omega
        · have h1 : E.dropLast.length ≤ j := Nat.le_of_not_lt hj
          obtain ⟨q, hq⟩ : ∃ q, j - E.dropLast.length = q + 1 := ⟨j - E.dropLast.length - 1, by omega⟩
          rw [List.getElem?_append_right h1, List.getElem?_append_right h1, hq]
          simp
    · intro j hj
      conv => rhs; rw [hsplit]
      have hj' : j < E.dropLast.length := by omega
      simp [List.getD_eq_getElem?_getD, List.getElem?_append_left hj']

theorem EsOK_strip (sep : Nat) (d : Bytes) (lines : List (List Bytes)) (hne : ∀ l ∈ lines, l ≠ []) (k : Nat) :
    EsOK sep (fun j n => decide (j + 1 < n)) k lines ((lineGroups sep k lines).map (stripCR d)) := by
  induction lines generalizing k with
  | nil => simp [lineGroups, EsOK]
  | cons l ls ih =>
    have hl := hne l (by simp)
    obtain ⟨g1, g2, _⟩ := EsOK_groups sep (fun _ _ => true) (l :: ls) hne k
    obtain ⟨s1, s2, s3⟩ := stripCR_spec d (lineDelims k l)
    simp only [lineGroups, List.map_cons, EsOK]
    refine ⟨by rw [s1]; exact g1, ?_, ih (fun x hx => hne x (by simp [hx])) _⟩
    intro j hj
    have hg := (g2 j hj).2 rfl
    refine ⟨by rw [← hg]; exact s2 j, ?_⟩
    intro hfull
    simp only [decide_eq_true_eq] at hfull
    rw [s3 j (by rw [g1]; exact hfull), hg]

theorem EsOK_weaken (sep : Nat) (full full' : Nat → Nat → Bool) (himp : ∀ j n, full' j n = true → full j n = true) :
    ∀ (lines : List (List Bytes)) (Es : List (List Nat)) (k : Nat), EsOK sep full k lines Es → EsOK sep full' k lines Es := by
  intro lines
  induction lines with
  | nil => intro Es k h; cases Es <;> simp [EsOK] at h ⊢
  | cons l ls ih =>
    intro Es k h
    cases Es with
    | nil => simp [EsOK] at h
    | cons E Es =>
      obtain ⟨h1, h2, h3⟩ := h
      exact ⟨h1, fun j hj => ⟨(h2 j hj).1, fun hf => (h2 j hj).2 (himp _ _ hf)⟩, ih Es _ h3⟩

/-- everything the program theorems need about the constructed extractor, for any admissible field-end table -/
theorem expExtE_spec (sep n : Nat) (hn : 0 < n) (full : Nat → Nat → Bool) (lines : List (List Bytes)) (h : CleanTable sep n lines)
    (Es : List (List Nat)) (hok : EsOK sep full 0 lines Es) :
    Inv (expExtE sep lines Es) ∧ (expExtE sep lines Es).abs.map (·.raw) = lines.map (dumpLine sep) ∧
      (∀ j, j < n → full j n = true → (expExtE sep lines Es).fieldText j = lines.map (fun l => l.getD j [])) := by
  have hlne : ∀ l ∈ lines, l ≠ [] := by
    intro l hl e; have := (h l hl).1; rw [e] at this; simp at this; omega
  obtain ⟨s1, s2, s3, s4⟩ := expRowsE_spec sep full lines Es [] (by simpa using hok)
  simp only [List.length_nil, List.nil_append] at s1 s2 s3
  have hrows : (expExtE sep lines Es).rows = expRowsE sep 0 lines Es := rows_expE sep lines hlne Es 0 _ true s4
  have habs : (expExtE sep lines Es).abs = (expRowsE sep 0 lines Es).map (absRow (dumpFile sep lines)) := by
    unfold Ext.abs; rw [hrows]; rfl
  have hwf : WF (expExtE sep lines Es) := by
    refine ⟨?_, ?_⟩
    · unfold LenWF expExtE
      simp only [List.length_map, List.length_zipWith, startGroups_length, lineGroups_length, s4, Nat.min_self]
      exact ⟨trivial, trivial, trivial⟩
    · intro r hr; rw [hrows] at hr; exact s3 r hr
  refine ⟨⟨hwf, ?_⟩, by rw [habs]; exact s1, ?_⟩
  · intro _
    unfold specBytes
    rw [habs, s1]
    rfl
  · intro j hj hfull
    rw [field_text _ hwf j, habs]
    exact s2 j n (fun l hl => (h l hl).1) hj hfull

theorem endsOf_ok (sep n : Nat) (hn : 0 < n) (lines : List (List Bytes)) (h : CleanTable sep n lines) :
    EsOK sep (fun j n => decide (j + 1 < n)) 0 lines (endsOf (dumpFile sep lines) (lineGroups sep 0 lines)) := by
  have hlne : ∀ l ∈ lines, l ≠ [] := by
    intro l hl e; have := (h l hl).1; rw [e] at this; simp at this; omega
  unfold endsOf
  split
  · exact EsOK_strip sep _ lines hlne 0
  · exact EsOK_weaken sep (fun _ _ => true) _ (fun _ _ _ => rfl) lines _ 0 (EsOK_groups sep _ lines hlne 0)

/-- **C04.build_delimited_records** — for EVERY table of `n ≥ 1` clean fields per line (no separator or LF inside a
field; CR allowed, so CRLF and mixed-ending files are included as "last column ends in CR"), the extractor the code
constructs from the dumped file satisfies the invariant of the program theorems and denotes exactly the source lines;
`get_field_by_number(j)` returns the j-th field's text of every line for every column but the last (whose trailing CR,
if the first line has one, is stripped). -/
theorem build_delimited_records (sep n : Nat) (hs10 : sep ≠ 10) (hn : 0 < n)
    (lines : List (List Bytes)) (hne : lines ≠ []) (h : CleanTable sep n lines) :
    ∃ e, buildDelimited true sep (dumpFile sep lines) = some e ∧ Inv e ∧
      e.abs.map (·.raw) = lines.map (dumpLine sep) ∧
      (∀ j, j + 1 < n → e.fieldText j = lines.map (fun l => l.getD j [])) := by
  obtain ⟨a, b, c⟩ := expExtE_spec sep n hn _ lines h _ (endsOf_ok sep n hn lines h)
  exact ⟨expExtG sep lines, buildDelimited_eq sep n hs10 hn lines hne h, a, b,
    fun j hj => c j (by omega) (by simp; exact hj)⟩

/-- **C04.build_delimited_records_lf** — for plain LF text (no CR in any field) every column, the last included, is returned exactly -/
theorem build_delimited_records_lf (sep n : Nat) (hs10 : sep ≠ 10) (hs13 : sep ≠ 13) (hn : 0 < n)
    (lines : List (List Bytes)) (hne : lines ≠ []) (h : CleanTable sep n lines) (hnocr : NoCRTable lines) :
    ∃ e, buildDelimited true sep (dumpFile sep lines) = some e ∧ Inv e ∧
      e.abs.map (·.raw) = lines.map (dumpLine sep) ∧
      (∀ j, j < n → e.fieldText j = lines.map (fun l => l.getD j [])) := by
  have hlne : ∀ l ∈ lines, l ≠ [] := by
    intro l hl e; have := (h l hl).1; rw [e] at this; simp at this; omega
  have heq : expExtG sep lines = expExt sep lines := by
    unfold expExtG expExt; rw [endsOf_lf sep n hs13 hn lines h hnocr]
  obtain ⟨a, b, c⟩ := expExtE_spec sep n hn (fun _ _ => true) lines h _ (EsOK_groups sep _ lines hlne 0)
  refine ⟨expExt sep lines, by rw [← heq]; exact buildDelimited_eq sep n hs10 hn lines hne h, a, b, fun j hj => c j hj rfl⟩

/-! ### end to end: from files to written bytes -/

theorem evalSpec_map {α β} (f : α → β) (tabs : List (List α)) (p : Prog) :
    p.evalSpec (tabs.map (·.map f)) = (p.evalSpec tabs).map (·.map f) := by
  induction p with
  | leaf k => simp [Prog.evalSpec, List.getElem?_map]
  | sel p ix ih =>
    simp only [Prog.evalSpec, ih]
    cases p.evalSpec tabs with
    | none => rfl
    | some l => simp [pyIndex_map]
  | cat p q ihp ihq =>
    simp only [Prog.evalSpec, ihp, ihq]
    cases p.evalSpec tabs <;> cases q.evalSpec tabs <;> simp
  | catRange a n =>
    simp only [Prog.evalSpec, List.length_map]
    split
    · simp [List.map_take, List.map_drop, List.map_flatten]
    · rfl
  | touch p ih => simp only [Prog.evalSpec, ih]
  | seq p q ihp ihq =>
    simp only [Prog.evalSpec, ihp, ihq]
    cases p.evalSpec tabs <;> simp

/-- **C04.passthrough_all_files** — the property, end to end, for the delimited formats (LF, CRLF or mixed line ends):
for EVERY list of well-formed tables (dumped to files and read back by the code's own construction) and
EVERY finite program of selections, concatenations and in-between writes, the bytes handed to the writer
are the selected SOURCE LINES in the selected order — or the program fails with an index error exactly when
the same program fails on Python lists of lines. -/
theorem passthrough_all_files (sep n : Nat) (hs10 : sep ≠ 10) (hn : 0 < n)
    (tables : List (List (List Bytes))) (hne : ∀ t ∈ tables, t ≠ []) (h : ∀ t ∈ tables, CleanTable sep n t) (p : Prog) :
    (∀ t ∈ tables, buildDelimited true sep (dumpFile sep t) = some (expExtG sep t)) ∧
    (p.evalExt (tables.map (expExtG sep))).map Ext.bytes =
      (p.evalSpec (tables.map (·.map (dumpLine sep)))).map List.flatten := by
  refine ⟨fun t ht => buildDelimited_eq sep n hs10 hn t (hne t ht) (h t ht), ?_⟩
  have hspec : ∀ t ∈ tables, Inv (expExtG sep t) ∧ (expExtG sep t).abs.map (·.raw) = t.map (dumpLine sep) := by
    intro t ht
    obtain ⟨a, b, _⟩ := expExtE_spec sep n hn _ t (h t ht) _ (endsOf_ok sep n hn t (h t ht))
    exact ⟨a, b⟩
  have hinv : ∀ e ∈ tables.map (expExtG sep), Inv e := by
    intro e he
    simp only [List.mem_map] at he
    obtain ⟨t, ht, rfl⟩ := he
    exact (hspec t ht).1
  rw [program_bytes _ hinv p]
  have hraws : tables.map (·.map (dumpLine sep)) = ((tables.map (expExtG sep)).map Ext.abs).map (·.map (·.raw)) := by
    simp only [List.map_map]
    apply List.map_congr_left
    intro t ht
    simp only [Function.comp]
    exact ((hspec t ht).2).symm
  rw [hraws, evalSpec_map]
  cases p.evalSpec ((tables.map (expExtG sep)).map Ext.abs) with
  | none => rfl
  | some recs => simp [specBytes]

/-- a CRLF file is the dump of the table whose last column carries the CR -/
example : dumpFile 9 [["a".toList.map Char.toNat, "1\r".toList.map Char.toNat], ["bb".toList.map Char.toNat, "22\r".toList.map Char.toNat]]
    = crlfWitness := by decide

/-! non-vacuity: a two-line, two-column table with unequal field widths -/
example : CleanTable 9 2 [["chr1".toList.map Char.toNat, "007".toList.map Char.toNat], ["c".toList.map Char.toNat, []]] := by
  intro l hl
  simp only [List.mem_cons, List.not_mem_nil, or_false] at hl
  rcases hl with rfl | rfl <;> refine ⟨rfl, ?_⟩ <;> intro f hf <;> simp only [List.mem_cons, List.not_mem_nil, or_false] at hf <;>
    rcases hf with rfl | rfl <;> intro b hb <;> revert b <;> decide

end C04
