import BnpVerif.Model.C19
import BnpVerif.Gen.C19
/-! C19 property theorems. Helper lemmas are interleaved; the property theorems are the ones listed
in `Audit/C19.lean`. All statements are for tables of any number of rows / columns and any cell type. -/
set_option linter.unusedSectionVars false
set_option linter.unusedSimpArgs false
set_option linter.unnecessarySimpa false
namespace C19
open Base
variable {α : Type}

theorem omap_cons' {β γ} (f : β → Option γ) (a : β) (as : List β) :
    omap f (a :: as) = (f a).bind (fun b => (omap f as).map (b :: ·)) := by
  cases h1 : f a <;> cases h2 : omap f as <;> simp [omap, h1, h2]

theorem toRows_cons_cons (c d : List α) (cs : Cols α) :
    toRows (c :: d :: cs) = List.zipWith (· :: ·) c (toRows (d :: cs)) := rfl

theorem wfn_tail {n : Nat} {c : List α} {cs : Cols α} (h : WFn n (c :: cs)) : WFn n cs :=
  fun x hx => h x (by simp [hx])

theorem wfn_head {n : Nat} {c : List α} {cs : Cols α} (h : WFn n (c :: cs)) : c.length = n :=
  h c (by simp)

/-- number of rows of a rectangular table with at least one column -/
theorem toRows_length (n : Nat) (cols : Cols α) (h : WFn n cols) (hne : cols ≠ []) :
    (toRows cols).length = n := by
  induction cols with
  | nil => exact absurd rfl hne
  | cons c cs ih =>
    cases cs with
    | nil => simp [toRows, wfn_head h]
    | cons d ds =>
      rw [toRows_cons_cons, List.length_zipWith, ih (wfn_tail h) (by simp), wfn_head h]
      simp

/-- row `i` of `zip(*cols)` is the `i`-th cell of every column -/
theorem toRows_getElem? (n : Nat) (cols : Cols α) (h : WFn n cols) (hne : cols ≠ []) (i : Nat) :
    (toRows cols)[i]? = if i < n then rowAt cols i else none := by
  induction cols with
  | nil => exact absurd rfl hne
  | cons c cs ih =>
    have hc := wfn_head h
    cases cs with
    | nil =>
      simp only [toRows, rowAt, omap, List.getElem?_map]
      by_cases hi : i < n
      · have : i < c.length := by omega
        simp [hi, List.getElem?_eq_getElem this]
      · have : c[i]? = none := by simp; omega
        simp [hi, this]
    | cons d ds =>
      have ih' := ih (wfn_tail h) (by simp)
      rw [toRows_cons_cons, List.getElem?_zipWith, ih']
      by_cases hi : i < n
      · have : i < c.length := by omega
        simp only [hi, ↓reduceIte, rowAt]
        have e : omap (fun c => c[i]?) (c :: d :: ds)
            = (c[i]?).bind (fun b => (omap (fun c => c[i]?) (d :: ds)).map (b :: ·)) := omap_cons' _ _ _
        rw [e]
        cases omap (fun c => c[i]?) (d :: ds) <;> simp [List.getElem?_eq_getElem this]
      · have : c[i]? = none := by simp; omega
        simp [hi, this]

theorem rowAt_length (cols : Cols α) (i : Nat) (r : List α) (h : rowAt cols i = some r) : r.length = cols.length :=
  omap_length _ _ _ h

/-! ### gather -/
theorem gather_getElem? (ix : List Nat) (l : List α) (h : ∀ i ∈ ix, i < l.length) (p : Nat) :
    (gather ix l)[p]? = (ix[p]?).bind (fun i => l[i]?) := by
  induction ix generalizing p with
  | nil => simp [gather]
  | cons i ix ih =>
    have hi : i < l.length := h i (by simp)
    have ih' := ih (fun j hj => h j (by simp [hj]))
    simp only [gather, List.filterMap_cons, List.getElem?_eq_getElem hi] at ih' ⊢
    cases p with
    | zero => simp [List.getElem?_eq_getElem hi]
    | succ p => simpa using ih' p

theorem gather_length (ix : List Nat) (l : List α) (h : ∀ i ∈ ix, i < l.length) :
    (gather ix l).length = ix.length := by
  induction ix with
  | nil => simp [gather]
  | cons i ix ih =>
    have hi : i < l.length := h i (by simp)
    have ih' := ih (fun j hj => h j (by simp [hj]))
    simp only [gather, List.filterMap_cons, List.getElem?_eq_getElem hi] at ih' ⊢
    simp [ih']

theorem wfn_map_gather (n : Nat) (ix : List Nat) (cols : Cols α) (h : WFn n cols) (hix : ∀ i ∈ ix, i < n) :
    WFn ix.length (cols.map (gather ix)) := by
  intro c hc
  simp only [List.mem_map] at hc
  obtain ⟨c0, hc0, rfl⟩ := hc
  exact gather_length ix c0 (fun i hi => by rw [h c0 hc0]; exact hix i hi)

/-- **indexing refines row selection**: indexing every column with the same index list gives
exactly the selected rows, in the order (and with the repeats) of the index -/
theorem take_rows_aux (n : Nat) (ix : List Nat) (cols : Cols α) (h : WFn n cols) (hne : cols ≠ [])
    (hix : ∀ i ∈ ix, i < n) : toRows (cols.map (gather ix)) = gather ix (toRows cols) := by
  have hlen := toRows_length n cols h hne
  apply List.ext_getElem?
  intro p
  rw [toRows_getElem? ix.length _ (wfn_map_gather n ix cols h hix) (by simpa using hne),
    gather_getElem? ix (toRows cols) (fun i hi => by rw [hlen]; exact hix i hi)]
  by_cases hp : p < ix.length
  · simp only [hp, ↓reduceIte, List.getElem?_eq_getElem hp, Option.bind_some]
    rw [toRows_getElem? n cols h hne, if_pos (hix _ (List.getElem_mem hp))]
    simp only [rowAt]
    clear hlen hne
    induction cols with
    | nil => rfl
    | cons c cs ih =>
      have hcl : ∀ i ∈ ix, i < c.length := fun i hi => by rw [wfn_head h]; exact hix i hi
      simp only [List.map_cons, omap, ih (wfn_tail h), gather_getElem? ix c hcl,
        List.getElem?_eq_getElem hp, Option.bind_some]
  · have : ix[p]? = none := by simp; omega
    simp [hp, this]

theorem wf_of_wfn (n : Nat) (cols : Cols α) (h : WFn n cols) : WF cols := by
  cases cols with
  | nil => intro c hc; simp at hc
  | cons c cs =>
    intro x hx
    simp only [nrows]
    rw [h x hx, h c (by simp)]

theorem wfB_iff (cols : Cols α) : wfB cols = true ↔ WF cols := by
  simp [wfB, WF, WFn]

theorem wf_wfn (cols : Cols α) (h : WF cols) : WFn (nrows cols) cols := h

/-! ### indexing -/
theorem take_some (ix : List Nat) (cols r : Cols α) (h : take ix cols = some r) :
    (∀ i ∈ ix, i < nrows cols) ∧ r = cols.map (gather ix) := by
  unfold take at h
  split at h
  · rename_i hall
    simp only [List.all_eq_true, decide_eq_true_eq] at hall
    exact ⟨hall, by simpa using h.symm⟩
  · simp at h

theorem take_wf (ix : List Nat) (cols r : Cols α) (hw : WF cols) (h : take ix cols = some r) : WF r := by
  obtain ⟨hix, rfl⟩ := take_some ix cols r h
  exact wf_of_wfn ix.length _ (wfn_map_gather (nrows cols) ix cols hw hix)

/-- `table[index list]` selects exactly the rows named by the index (order, repeats) -/
theorem take_rows (ix : List Nat) (cols r : Cols α) (hw : WF cols) (hne : cols ≠ []) (h : take ix cols = some r) :
    takeRows ix (toRows cols) = some (toRows r) := by
  obtain ⟨hix, rfl⟩ := take_some ix cols r h
  unfold takeRows
  rw [toRows_length (nrows cols) cols hw hne]
  rw [if_pos (by simpa using hix), take_rows_aux (nrows cols) ix cols hw hne hix]

theorem maskIdx_lt (m : List Bool) : ∀ i ∈ maskIdx m, i < m.length := by
  induction m with
  | nil => simp [maskIdx]
  | cons b bs ih =>
    intro i hi
    simp only [maskIdx, List.mem_append, List.mem_map] at hi
    rcases hi with hi | ⟨j, hj, rfl⟩
    · cases b <;> simp at hi; subst hi; simp
    · have := ih j hj; simp; omega

theorem gather_maskIdx (m : List Bool) (l : List α) (h : m.length = l.length) :
    gather (maskIdx m) l = (l.zip m).filterMap (fun p => if p.2 then some p.1 else none) := by
  induction m generalizing l with
  | nil => simp [maskIdx, gather]
  | cons b bs ih =>
    cases l with
    | nil => simp at h
    | cons x xs =>
      have ih' := ih xs (by simpa using h)
      simp only [maskIdx, gather, List.filterMap_append, List.filterMap_map, List.zip_cons_cons,
        List.filterMap_cons] at ih' ⊢
      have e : List.filterMap ((fun i => (x :: xs)[i]?) ∘ fun x => x + 1) (maskIdx bs)
          = List.filterMap (fun i => xs[i]?) (maskIdx bs) := by
        have : ((fun i => (x :: xs)[i]?) ∘ fun x => x + 1) = (fun i => xs[i]?) := by funext i; simp
        rw [this]
      rw [e, ih']
      cases b <;> simp

theorem mask_wf (m : List Bool) (cols r : Cols α) (hw : WF cols) (h : mask m cols = some r) : WF r := by
  unfold mask at h
  split at h
  · exact take_wf _ cols r hw h
  · simp at h

/-- boolean masking keeps exactly the rows whose mask entry is `True`, in order -/
theorem mask_rows (m : List Bool) (cols r : Cols α) (hw : WF cols) (hne : cols ≠ []) (h : mask m cols = some r) :
    toRows r = ((toRows cols).zip m).filterMap (fun p => if p.2 then some p.1 else none) := by
  unfold mask at h
  split at h
  · rename_i hm
    have := take_rows _ cols r hw hne h
    unfold takeRows at this
    split at this
    · simp only [Option.some.injEq] at this
      rw [← this, gather_maskIdx m _ (by rw [toRows_length (nrows cols) cols hw hne]; exact hm)]
    · simp at this
  · simp at h

/-! ### concatenation -/
theorem concat_wfn (n m : Nat) (a b : Cols α) (ha : WFn n a) (hb : WFn m b) : WFn (n + m) (concat a b) := by
  intro c hc
  unfold concat at hc
  obtain ⟨i, hi, rfl⟩ := List.getElem_of_mem hc
  simp only [List.getElem_zipWith, List.length_append]
  rw [ha _ (List.getElem_mem _), hb _ (List.getElem_mem _)]

theorem concat_wf (a b : Cols α) (ha : WF a) (hb : WF b) : WF (concat a b) :=
  wf_of_wfn _ _ (concat_wfn _ _ a b ha hb)

/-- concatenating two tables with the same fields gives the rows of the first followed by the rows of the second -/
theorem concat_rows (n m : Nat) (a b : Cols α) (ha : WFn n a) (hb : WFn m b) (hl : a.length = b.length) (hne : a ≠ []) :
    toRows (concat a b) = toRows a ++ toRows b := by
  induction a generalizing b with
  | nil => exact absurd rfl hne
  | cons c cs ih =>
    cases b with
    | nil => simp at hl
    | cons d ds =>
      cases cs with
      | nil =>
        have : ds = [] := by
          cases ds with
          | nil => rfl
          | cons _ _ => simp at hl
        subst this
        simp [concat, toRows]
      | cons c' cs' =>
        cases ds with
        | nil => simp at hl
        | cons d' ds' =>
          have ih' := ih (d' :: ds') (wfn_tail ha) (wfn_tail hb) (by simpa using hl) (by simp)
          simp only [concat, List.zipWith_cons_cons] at ih' ⊢
          rw [toRows_cons_cons, ih', toRows_cons_cons, toRows_cons_cons]
          rw [List.zipWith_append]
          rw [wfn_head ha, toRows_length n _ (wfn_tail ha) (by simp)]

/-! ### sorting -/
theorem argsort_perm (ks : List Int) : (argsort ks).Perm (List.range ks.length) := by
  unfold argsort
  have h := (List.mergeSort_perm ((List.range ks.length).zip ks) (fun a b => decide (a.2 ≤ b.2))).map (·.1)
  refine h.trans ?_
  rw [List.map_fst_zip]
  simp

theorem argsort_lt (ks : List Int) : ∀ i ∈ argsort ks, i < ks.length := by
  intro i hi
  have := (argsort_perm ks).mem_iff.mp hi
  simpa using this

theorem sortBy_wf (key : α → Int) (j : Nat) (cols r : Cols α) (hw : WF cols) (h : sortBy key j cols = some r) : WF r := by
  unfold sortBy at h
  split at h
  · simp at h
  · exact take_wf _ cols r hw h

/-- `sort_by` re-orders whole rows by a permutation of the row positions -/
theorem sortBy_rows (key : α → Int) (j : Nat) (cols r : Cols α) (hw : WF cols) (hne : cols ≠ [])
    (h : sortBy key j cols = some r) :
    ∃ ix : List Nat, ix.Perm (List.range (nrows cols)) ∧ toRows r = gather ix (toRows cols) := by
  unfold sortBy at h
  split at h
  · simp at h
  · rename_i c hc
    have hcl : c.length = nrows cols := hw c (List.mem_of_getElem? hc)
    refine ⟨argsort (c.map key), ?_, ?_⟩
    · have := argsort_perm (c.map key)
      simpa [hcl] using this
    · have := take_rows _ cols r hw hne h
      unfold takeRows at this
      split at this
      · simpa using this.symm
      · simp at this

/-- the keys along the sorting permutation are in non-decreasing order -/
theorem argsort_sorted (ks : List Int) :
    (((List.range ks.length).zip ks).mergeSort (fun a b => decide (a.2 ≤ b.2))).Pairwise (fun a b => a.2 ≤ b.2) := by
  have := List.pairwise_mergeSort (le := fun (a b : Nat × Int) => decide (a.2 ≤ b.2))
    (fun a b c hab hbc => by simp only [decide_eq_true_eq] at *; omega)
    (fun a b => by simp only [Bool.or_eq_true, decide_eq_true_eq]; omega)
    ((List.range ks.length).zip ks)
  simpa using this

/-! ### rows ↔ table -/
theorem omap_getElem? {β γ} (f : β → Option γ) (l : List β) (r : List γ) (h : omap f l = some r) (j : Nat) :
    r[j]? = (l[j]?).bind f := by
  induction l generalizing r j with
  | nil => simp at h; subst h; simp
  | cons x xs ih =>
    obtain ⟨b, bs, hb, hbs, rfl⟩ := omap_cons_eq_some f x xs r h
    cases j with
    | zero => simp [hb]
    | succ j => simpa using ih bs hbs j

theorem omap_eq_some_of_getElem {β γ} (f : β → Option γ) (R : List β) (L : List γ) (hl : L.length = R.length)
    (h : ∀ i (h1 : i < R.length) (h2 : i < L.length), f R[i] = some L[i]) : omap f R = some L := by
  induction R generalizing L with
  | nil =>
    have : L = [] := List.length_eq_zero_iff.mp (by simpa using hl)
    subst this; rfl
  | cons x xs ih =>
    cases L with
    | nil => simp at hl
    | cons y ys =>
      have h0 := h 0 (by simp) (by simp)
      simp only [List.getElem_cons_zero] at h0
      have := ih ys (by simpa using hl) (fun i h1 h2 => by
        have := h (i + 1) (by simp; omega) (by simp; omega)
        simpa using this)
      exact omap_cons_some f x xs y ys h0 this

theorem toRows_rowlen (n : Nat) (cols : Cols α) (h : WFn n cols) (hne : cols ≠ []) :
    WFn cols.length (toRows cols) := by
  intro r hr
  obtain ⟨i, hi, rfl⟩ := List.getElem_of_mem hr
  have hlen := toRows_length n cols h hne
  have := toRows_getElem? n cols h hne i
  rw [List.getElem?_eq_getElem hi, if_pos (by omega)] at this
  exact rowAt_length cols i _ this.symm

/-- transposing twice gives the table back (rectangular, at least one row and one column) -/
theorem toRows_toRows (n : Nat) (cols : Cols α) (h : WFn n cols) (hne : cols ≠ []) (hn : 0 < n) :
    toRows (toRows cols) = cols := by
  have hlen := toRows_length n cols h hne
  have hR := toRows_rowlen n cols h hne
  have hRne : toRows cols ≠ [] := by
    intro e; rw [e] at hlen; simp at hlen; omega
  apply List.ext_getElem?
  intro j
  rw [toRows_getElem? cols.length _ hR hRne]
  by_cases hj : j < cols.length
  · rw [if_pos hj, List.getElem?_eq_getElem hj]
    unfold rowAt
    apply omap_eq_some_of_getElem
    · rw [hlen]; exact h _ (List.getElem_mem hj)
    · intro i h1 h2
      have hi : i < n := by omega
      have hrow := toRows_getElem? n cols h hne i
      rw [List.getElem?_eq_getElem h1, if_pos hi] at hrow
      have := omap_getElem? _ cols _ hrow.symm j
      rw [this, List.getElem?_eq_getElem hj]
      simp [List.getElem?_eq_getElem h2]
  · have : cols[j]? = none := by simp; omega
    simp [hj, this]

theorem toRows_zero (cols : Cols α) (h : WFn 0 cols) (hne : cols ≠ []) : toRows cols = [] :=
  List.length_eq_zero_iff.mp (toRows_length 0 cols h hne)

theorem wfn_zero_eq (cols : Cols α) (h : WFn 0 cols) : cols = List.replicate cols.length [] := by
  apply List.ext_getElem
  · simp
  · intro i h1 h2
    simp
    exact List.length_eq_zero_iff.mp (h _ (List.getElem_mem h1))

/-- **rows → table → rows and table → rows → table are identities** (`from_entry_tuples ∘ tolist`,
including the empty table) -/
theorem rows_inverse (cols : Cols α) (hw : WF cols) (hne : cols ≠ []) :
    fromRows cols.length (toRows cols) = some cols := by
  by_cases hn : 0 < nrows cols
  · have hlen := toRows_length _ cols hw hne
    have e := toRows_toRows _ cols hw hne hn
    unfold fromRows
    cases hR : toRows cols with
    | nil => rw [hR] at hlen; simp at hlen; omega
    | cons r rs =>
      simp only
      rw [← hR, e]
      have : wfB cols = true := (wfB_iff cols).mpr hw
      simp [this]
  · have h0 : nrows cols = 0 := by omega
    have hw0 : WFn 0 cols := by rw [← h0]; exact hw
    rw [toRows_zero cols hw0 hne]
    simp only [fromRows]
    rw [← wfn_zero_eq cols hw0]

/-- rows → table → rows: for a rectangular, non-empty list of rows of width ≥ 1 -/
theorem rows_table_rows (k : Nat) (rows : List (List α)) (cols : Cols α) (hk : 0 < k) (hr : WFn k rows)
    (h : fromRows k rows = some cols) : toRows cols = rows := by
  cases rows with
  | nil =>
    simp only [fromRows, Option.some.injEq] at h
    subst h
    apply toRows_zero
    · intro c hc; simp at hc; simp [hc.2]
    · intro e
      have : (List.replicate k ([] : List α)).length = 0 := by rw [e]; rfl
      simp at this; omega
  | cons r rs =>
    simp only [fromRows] at h
    split at h
    · simp only [Option.some.injEq] at h
      subst h
      exact toRows_toRows k (r :: rs) hr (by simp) hk
    · simp at h

/-- the shipped `from_entry_tuples` could not rebuild an empty table from its (empty) list of rows -/
theorem fromRowsOld_unsound :
    toRows ([[], []] : Cols Nat) = [] ∧ fromRowsOld 2 ([] : List (List Nat)) = none ∧
    fromRows 2 ([] : List (List Nat)) = some [[], []] := by decide

/-! ### replace / add_fields -/
theorem omap_set {β γ} (f : β → Option γ) (l : List β) (r : List γ) (h : omap f l = some r) (j : Nat) (x : β) (y : γ)
    (hx : f x = some y) : omap f (l.set j x) = some (r.set j y) := by
  induction l generalizing r j with
  | nil => simp at h; subst h; simp
  | cons a as ih =>
    obtain ⟨b, bs, hb, hbs, rfl⟩ := omap_cons_eq_some f a as r h
    cases j with
    | zero => simp only [List.set_cons_zero]; exact omap_cons_some f x as y bs hx hbs
    | succ j => simp only [List.set_cons_succ]; exact omap_cons_some f a _ b _ hb (ih bs hbs j)

theorem wfn_set (n : Nat) (cols : Cols α) (j : Nat) (c : List α) (h : WFn n cols) (hc : c.length = n) :
    WFn n (cols.set j c) := by
  intro x hx
  rcases List.mem_or_eq_of_mem_set hx with hx | rfl
  · exact h x hx
  · exact hc

/-- replacing one field changes that component of every row and nothing else -/
theorem replace_rows (n : Nat) (cols : Cols α) (j : Nat) (c : List α) (h : WFn n cols) (hne : cols ≠ [])
    (hc : c.length = n) : toRows (cols.set j c) = replaceRows j c (toRows cols) := by
  have hlen := toRows_length n cols h hne
  apply List.ext_getElem?
  intro i
  rw [toRows_getElem? n _ (wfn_set n cols j c h hc) (by simpa using hne)]
  unfold replaceRows
  rw [List.getElem?_zipWith, toRows_getElem? n cols h hne]
  by_cases hi : i < n
  · simp only [hi, ↓reduceIte]
    have hic : i < c.length := by omega
    have hsome : ∃ r, rowAt cols i = some r := by
      have := toRows_getElem? n cols h hne i
      rw [if_pos hi, List.getElem?_eq_getElem (by omega)] at this
      exact ⟨_, this.symm⟩
    obtain ⟨r, hr⟩ := hsome
    rw [hr, List.getElem?_eq_getElem hic]
    exact omap_set _ cols r hr j c c[i] (List.getElem?_eq_getElem hic)
  · have : c[i]? = none := by simp; omega
    simp [hi, this]

/-- adding fields extends every row by the new cells -/
theorem addFields_rows (n : Nat) (cols new : Cols α) (h : WFn n cols) (hn : WFn n new) (hne : cols ≠ []) (hne' : new ≠ []) :
    toRows (cols ++ new) = addRows (toRows cols) (toRows new) := by
  have hw : WFn n (cols ++ new) := by
    intro c hc
    rcases List.mem_append.mp hc with hc | hc
    · exact h c hc
    · exact hn c hc
  apply List.ext_getElem?
  intro i
  unfold addRows
  rw [toRows_getElem? n _ hw (by simp [hne]), List.getElem?_zipWith, toRows_getElem? n cols h hne,
    toRows_getElem? n new hn hne']
  by_cases hi : i < n
  · simp only [hi, ↓reduceIte, rowAt, omap_append]
    cases omap (fun c => c[i]?) cols <;> cases omap (fun c => c[i]?) new <;> rfl
  · simp [hi]

/-! ### every operation preserves the invariant; so does every program -/
theorem step_wf (cols r : Cols α) (op : Op α) (hw : WF cols) (h : step cols op = some r) : WF r := by
  cases op with
  | take ix => exact take_wf ix cols r hw h
  | mask m => exact mask_wf m cols r hw h
  | concat o =>
    simp only [step] at h
    split at h
    · rename_i hc
      simp only [Bool.and_eq_true] at hc
      simp only [Option.some.injEq] at h; subst h
      exact concat_wf cols o hw ((wfB_iff o).mp hc.1)
    · simp at h
  | concatL o =>
    simp only [step] at h
    split at h
    · rename_i hc
      simp only [Bool.and_eq_true] at hc
      simp only [Option.some.injEq] at h; subst h
      exact concat_wf o cols ((wfB_iff o).mp hc.1) hw
    · simp at h
  | sortBy j key => exact sortBy_wf key j cols r hw h
  | predMask j p =>
    simp only [step, predMask] at h
    split at h
    · simp at h
    · exact mask_wf _ cols r hw h
  | replace j c =>
    simp only [step, replaceCol] at h
    split at h
    · rename_i hc
      simp only [Bool.and_eq_true] at hc
      simp only [Option.some.injEq] at h; subst h
      exact (wfB_iff _).mp hc.2
    · simp at h
  | addFields new =>
    simp only [step, addFields] at h
    split at h
    · rename_i hc
      simp only [Option.some.injEq] at h; subst h
      exact (wfB_iff _).mp hc
    · simp at h

/-- **invariant**: after any finite sequence of operations all columns still have equal length -/
theorem inv (ops : List (Op α)) (cols r : Cols α) (hw : WF cols) (h : run ops cols = some r) : WF r := by
  induction ops generalizing cols with
  | nil => simp only [run, Option.some.injEq] at h; subst h; exact hw
  | cons op ops ih =>
    simp only [run] at h
    split at h
    · rename_i c' hc'
      exact ih c' (step_wf cols c' op hw hc') h
    · simp at h


/-! ### sorted result -/
theorem gather_map {β} (f : α → β) (ix : List Nat) (l : List α) : (gather ix l).map f = gather ix (l.map f) := by
  induction ix with
  | nil => rfl
  | cons i ix ih =>
    simp only [gather, List.filterMap_cons, List.getElem?_map] at ih ⊢
    cases l[i]? <;> simp [ih]

theorem mem_zip_range (ks : List Int) (p : Nat × Int) (h : p ∈ (List.range ks.length).zip ks) : ks[p.1]? = some p.2 := by
  obtain ⟨i, hi, rfl⟩ := List.getElem_of_mem h
  simp only [List.length_zip, List.length_range, Nat.min_self] at hi
  simp [List.getElem?_eq_getElem hi]

/-- after `sort_by` the key column is in non-decreasing order -/
theorem sortBy_sorted (key : α → Int) (j : Nat) (cols r : Cols α) (h : sortBy key j cols = some r) :
    ∃ c', r[j]? = some c' ∧ (c'.map key).Pairwise (· ≤ ·) := by
  unfold sortBy at h
  split at h
  · simp at h
  · rename_i c hc
    obtain ⟨_, rfl⟩ := take_some _ cols r h
    refine ⟨gather (argsort (c.map key)) c, by simp [hc], ?_⟩
    rw [gather_map]
    obtain ⟨ks, hks⟩ : ∃ ks, ks = c.map key := ⟨_, rfl⟩
    rw [← hks]
    have hs := argsort_sorted ks
    have hp := List.mergeSort_perm ((List.range ks.length).zip ks) (fun a b => decide (a.2 ≤ b.2))
    obtain ⟨S, hS⟩ : ∃ S, S = ((List.range ks.length).zip ks).mergeSort (fun a b => decide (a.2 ≤ b.2)) := ⟨_, rfl⟩
    rw [← hS] at hs hp
    have hmem : ∀ p ∈ S, ks[p.1]? = some p.2 := fun p hp' => mem_zip_range ks p (hp.mem_iff.mp hp')
    have e : gather (argsort ks) ks = S.map (·.2) := by
      unfold argsort gather
      rw [← hS, List.filterMap_map]
      clear hs hp hS
      induction S with
      | nil => rfl
      | cons p S ih =>
        simp only [List.filterMap_cons, Function.comp_apply, hmem p (by simp), List.map_cons]
        rw [ih (fun q hq => hmem q (by simp [hq]))]
    rw [e, List.pairwise_map]
    exact hs

/-- on a well-formed table `sort_by` an existing (numeric) field never fails -/
theorem sortBy_total (key : α → Int) (j : Nat) (cols : Cols α) (hw : WF cols) (hj : j < cols.length) :
    ∃ r, sortBy key j cols = some r := by
  unfold sortBy
  rw [List.getElem?_eq_getElem hj]
  simp only [take]
  rw [if_pos]
  · exact ⟨_, rfl⟩
  · rw [List.all_eq_true]
    intro i hi
    have := argsort_lt _ i hi
    have hl : cols[j].length = nrows cols := hw _ (List.getElem_mem hj)
    simp only [List.length_map, hl] at this
    simpa using this

/-! ### non-vacuity: the hypotheses are satisfiable by non-trivial tables -/
example : WF [[1, 2, 3], [10, 20, 30]] := (wfB_iff _).mp (by decide)
example : toRows [[1, 2, 3], [10, 20, 30]] = [[1, 10], [2, 20], [3, 30]] := by decide
example : take [2, 0, 2] [[1, 2, 3], [10, 20, 30]] = some [[3, 1, 3], [30, 10, 30]] := by decide
example : mask [true, false, true] [[1, 2, 3], [10, 20, 30]] = some [[1, 3], [10, 30]] := by decide
example : ∃ r, sortBy (fun (x : Int) => x) 0 [[3, 1, 2], [10, 20, 30]] = some r :=
  sortBy_total _ 0 _ ((wfB_iff _).mp (by decide)) (by decide)
example : run [.mask [true, true, false], .concat [[7], [70]], .take [2, 0, 1], .replace 0 [0, 0, 0]]
    [[3, 1, 2], [30, 10, 20]] = some [[0, 0, 0], [70, 30, 10]] := by decide
example : replaceCol 1 [5] [[1, 2, 3], [10, 20, 30]] = none := by decide

/-! ### typed construction: the tabulated dispatch converts or raises -/

/-- **construction converts each column to its declared type or raises** — checked by the kernel over the
whole dispatch table re-extracted from the running code on every run (every field kind × every argument
form). "Declared type" is per field kind (`allowedClasses`: an `int` field holds an integer array, a `float`
field a float array, a `bool` field a bool array, ...). The cells that do neither are listed one by one as
recorded findings: `knownDtypeKept` (a numeric field keeps another numeric dtype) and `knownUnconverted`
(the argument is stored as it came); `construct_census` counts the groups and
`construct_whitelists_tight` shows that no listed cell is stale. -/
theorem construct_converts_or_raises : Gen.C19.constructTable.all constructCellOK = true := by decide +kernel

/-- the census of the excepted cells: of the 300 cells (10 field kinds × 30 argument forms), 20 keep another numeric
dtype (`knownDtypeKept`) and 42 store the argument unconverted (`knownUnconverted`); the other 238 raise or hold
exactly the declared class -/
theorem construct_census :
    let t := Gen.C19.constructTable
    let conforms := t.filter (fun r => r.2.2 == "raise" || (allowedClasses r.1).contains r.2.2)
    let kept := t.filter (fun r => r.2.2 != "raise" && !(allowedClasses r.1).contains r.2.2 && knownDtypeKept.contains r)
    let unconv := t.filter (fun r => r.2.2 != "raise" && !(allowedClasses r.1).contains r.2.2 && !knownDtypeKept.contains r)
    (t.length, conforms.length, kept.length, unconv.length) = (300, 238, 20, 42) := by
  decide +kernel

/-- the two lists of excepted cells are tight: every listed cell occurs in the table re-extracted from the running
code and does there what the list says (stores that other numeric class / stores something that is neither the
declared class nor a raise) - so repairing a finding without taking its cells off the list breaks the build -/
theorem construct_whitelists_tight :
    knownDtypeKept.all (fun c => Gen.C19.constructTable.contains c && !(allowedClasses c.1).contains c.2.2) = true ∧
    knownUnconverted.all (fun kf => Gen.C19.constructTable.any (fun r =>
      r.1 == kf.1 && r.2.1 == kf.2 && r.2.2 != "raise" && !(allowedClasses r.1).contains r.2.2 && !knownDtypeKept.contains r)) = true := by
  decide +kernel

/-- the table covers every field kind × every argument form it claims to (no cell silently missing) -/
theorem construct_table_complete :
    Gen.C19.constructTable.map (fun r => (r.1, r.2.1)) =
      (["str", "sid", "int", "float", "bool", "opt", "li", "dna", "strand", "inner"].flatMap (fun k =>
        ["list_str", "list_int", "list_float", "list_bool", "list_none", "nd_int", "nd_float", "nd_bool", "nd_str",
         "nd_obj_int", "series_obj_int", "actg_ragged", "actg_flat", "encoded_ragged", "dna_ragged", "string_array", "ragged_int", "list_list_int", "table", "list_entries",
         "series_str", "series_int", "strand_str",
         "list_bytes", "nd_bytes", "nd_obj_str", "nd_obj_bytes", "list_npstr", "sid_raw", "series_bytes"].map (fun f => (k, f)))) := by decide +kernel

theorem takeWhile_all {β} (p : β → Bool) (l : List β) (h : ∀ x ∈ l, p x = true) : l.takeWhile p = l := by
  induction l with
  | nil => rfl
  | cons a l ih => simp [List.takeWhile_cons, h a (by simp), ih (fun x hx => h x (by simp [hx]))]

theorem dropWhile_all {β} (p : β → Bool) (l : List β) (h : ∀ x ∈ l, p x = true) : l.dropWhile p = [] := by
  induction l with
  | nil => rfl
  | cons a l ih => simp [List.dropWhile_cons, h a (by simp), ih (fun x hx => h x (by simp [hx]))]

theorem dotFree_ne (n : Name) (h : dotFree n) : ∀ x ∈ n, (x != dot) = true := by
  intro x hx
  simp only [bne_iff_ne, ne_eq]
  intro e; subst e; exact h hx

theorem firstComp_dotFree (n : Name) (h : dotFree n) : firstComp n = n :=
  takeWhile_all _ n (dotFree_ne n h)

theorem firstComp_join (n k : Name) (h : dotFree n) : firstComp (n ++ dot :: k) = n := by
  unfold firstComp
  rw [List.takeWhile_append]
  have : n.takeWhile (· != dot) = n := firstComp_dotFree n h
  simp [this]

theorem split1_join (n k : Name) (h : dotFree n) : split1 (n ++ dot :: k) = some (n, k) := by
  unfold split1
  have hc : (n ++ dot :: k).contains dot = true := by simp
  rw [if_pos hc]
  have h1 := firstComp_join n k h
  unfold firstComp at h1
  rw [h1]
  congr 2
  rw [List.dropWhile_append]
  have : n.dropWhile (· != dot) = [] := dropWhile_all _ n (dotFree_ne n h)
  simp [this]

theorem split1_fst (k : Name) (a b : Name) (h : split1 k = some (a, b)) : a = firstComp k := by
  unfold split1 at h
  split at h
  · simp only [Option.some.injEq, Prod.mk.injEq] at h; exact h.1.symm
  · simp at h

theorem lookup_clean {α} (n : Name) (hn : dotFree n) (p q : List (Name × List α)) (hp : Clean n p) :
    (p ++ q).lookup n = q.lookup n := by
  induction p with
  | nil => rfl
  | cons kv p ih =>
    have h1 : firstComp kv.1 ≠ n := hp kv (by simp)
    have hne : (n == kv.1) = false := by
      simp only [beq_eq_false_iff_ne, ne_eq]
      intro e
      rw [← e, firstComp_dotFree n hn] at h1
      exact h1 rfl
    obtain ⟨k, v⟩ := kv
    simp only [List.cons_append, List.lookup_cons, hne]
    exact ih (fun x hx => hp x (by simp [hx]))

theorem subDict_clean {α} (n : Name) (p : List (Name × List α)) (hp : Clean n p) : subDict n p = [] := by
  unfold subDict
  rw [List.filterMap_eq_nil_iff]
  intro kv hkv
  have h1 := hp kv hkv
  cases hs : split1 kv.1 with
  | none => rfl
  | some ab =>
    obtain ⟨a, b⟩ := ab
    have := split1_fst kv.1 a b hs
    simp only
    rw [if_neg]
    rw [this]; exact h1

theorem subDict_append {α} (n : Name) (p q : List (Name × List α)) : subDict n (p ++ q) = subDict n p ++ subDict n q := by
  simp [subDict]

theorem subDict_join {α} (n : Name) (hn : dotFree n) (d : List (Name × List α)) :
    subDict n (d.map (fun kv => (n ++ dot :: kv.1, kv.2))) = d := by
  induction d with
  | nil => rfl
  | cons kv d ih =>
    simp only [subDict, List.map_cons, List.filterMap_cons, split1_join n kv.1 hn, ↓reduceIte] at ih ⊢
    rw [ih]

mutual
theorem toDictFields_first {α} : ∀ (fs : List (Name × Tab α)), wfFields fs →
    ∀ kv ∈ toDictFields fs, ∃ p ∈ fs, firstComp kv.1 = p.1
  | [], _ => by intro kv h; simp [toDictFields] at h
  | (n, t) :: rest, hw => by
    intro kv h
    simp only [wfFields] at hw
    simp only [toDictFields, List.mem_append] at h
    rcases h with h | h
    · exact ⟨(n, t), by simp, toDictVal_first n hw.1 t kv h⟩
    · obtain ⟨p, hp, e⟩ := toDictFields_first rest hw.2.2.2 kv h
      exact ⟨p, by simp [hp], e⟩
theorem toDictVal_first {α} (n : Name) (hn : dotFree n) : ∀ (t : Tab α), ∀ kv ∈ toDictVal n t, firstComp kv.1 = n
  | .col c => by intro kv h; simp [toDictVal] at h; rw [h]; exact firstComp_dotFree n hn
  | .tab fs => by
    intro kv h
    simp only [toDictVal, List.mem_map] at h
    obtain ⟨kv', _, rfl⟩ := h
    exact firstComp_join n kv'.1 hn
end


theorem clean_fields {α} (n : Name) (rest : List (Name × Tab α)) (hw : wfFields rest) (hne : ∀ p ∈ rest, p.1 ≠ n) :
    Clean n (toDictFields rest) := by
  intro kv hkv
  obtain ⟨p, hp, e⟩ := toDictFields_first rest hw kv hkv
  rw [e]; exact hne p hp

theorem clean_append {α} (n : Name) (p q : List (Name × List α)) (hp : Clean n p) (hq : Clean n q) : Clean n (p ++ q) := by
  intro kv h
  rcases List.mem_append.mp h with h | h
  · exact hp kv h
  · exact hq kv h

mutual
theorem fromDictFields_spec {α} : ∀ (fs : List (Name × Tab α)), wfFields fs →
    ∀ (pre post : List (Name × List α)), (∀ p ∈ fs, Clean p.1 pre) → (∀ p ∈ fs, Clean p.1 post) →
    fromDictFields (schemaFields fs) (pre ++ toDictFields fs ++ post) = some fs
  | [], _, _, _, _, _ => rfl
  | (n, t) :: rest, hw, pre, post, hpre, hpost => by
    simp only [wfFields] at hw
    obtain ⟨hn, hdist, hwt, hwr⟩ := hw
    have hv := fromDictVal_spec n hn t hwt pre (toDictFields rest ++ post) (hpre (n, t) (by simp))
      (clean_append n _ _ (clean_fields n rest hwr hdist) (hpost (n, t) (by simp)))
    have hr := fromDictFields_spec rest hwr (pre ++ toDictVal n t) post
      (fun p hp => clean_append p.1 _ _ (hpre p (by simp [hp])) (by
        intro kv hkv
        rw [toDictVal_first n hn t kv hkv]
        exact fun e => hdist p hp e.symm))
      (fun p hp => hpost p (by simp [hp]))
    simp only [schemaFields, toDictFields, fromDictFields]
    have e1 : pre ++ (toDictVal n t ++ toDictFields rest) ++ post = pre ++ toDictVal n t ++ (toDictFields rest ++ post) := by
      simp [List.append_assoc]
    have e2 : pre ++ (toDictVal n t ++ toDictFields rest) ++ post = pre ++ toDictVal n t ++ toDictFields rest ++ post := by
      simp [List.append_assoc]
    rw [e1, hv, ← e1, e2, hr]
theorem fromDictVal_spec {α} (n : Name) (hn : dotFree n) : ∀ (t : Tab α), wfVal t →
    ∀ (pre post : List (Name × List α)), Clean n pre → Clean n post →
    fromDictVal n (schemaVal t) (pre ++ toDictVal n t ++ post) = some t
  | .col c, _, pre, post, hpre, _ => by
    simp only [schemaVal, toDictVal, fromDictVal, plainDict, List.filter_append]
    rw [List.append_assoc, lookup_clean n hn _ _ (fun kv h => hpre kv (List.mem_filter.mp h).1)]
    have : dot ∉ n := hn
    simp [List.filter_cons, this]
  | .tab fs, hw, pre, post, hpre, hpost => by
    simp only [wfVal] at hw
    simp only [schemaVal, toDictVal, fromDictVal]
    rw [subDict_append, subDict_append, subDict_clean n pre hpre, subDict_clean n post hpost, subDict_join n hn]
    have := fromDictFields_spec fs hw [] [] (fun _ _ _ h => by simp at h) (fun _ _ _ h => by simp at h)
    simp only [List.nil_append, List.append_nil] at this ⊢
    rw [this]; rfl
end

/-- **`from_dict ∘ todict = id`** for tables with arbitrarily nested table fields: the dotted keys
`name.sub…` are split back at the first dot, level by level, and every (nested) field gets exactly
its own columns back — provided field names are dot-free (Python identifiers) and distinct per table. -/
theorem fromDict_toDict {α} (fs : List (Name × Tab α)) (hw : wfFields fs) :
    fromDictFields (schemaFields fs) (toDictFields fs) = some fs := by
  have := fromDictFields_spec fs hw [] [] (fun _ _ _ h => by simp at h) (fun _ _ _ h => by simp at h)
  simpa using this

/-- a field name containing a dot breaks the round trip (why the hypothesis is needed; `add_fields`
rejects such names) -/
theorem fromDict_dotted_name_unsound :
    fromDictFields (schemaFields [([97, 46, 98], Tab.col [1, 2])]) (toDictFields [([97, 46, 98], Tab.col [1, 2])])
      = (none : Option (List (Name × Tab Nat))) := by decide

example : wfFields [([97], Tab.col [1, 2]), ([98], Tab.tab [([97], Tab.col [3, 4]), ([99], Tab.col [5, 6])])] := by
  simp [wfFields, wfVal, dotFree, dot]
example : toDictFields [([97], Tab.col [1, 2]), ([98], Tab.tab [([97], Tab.col [3, 4]), ([99], Tab.col [5, 6])])]
    = [([97], [1, 2]), ([98, 46, 97], [3, 4]), ([98, 46, 99], [5, 6])] := by decide



/-! ### masks computed from a column (`t[t.field == v]`) -/

theorem zip_filterMap_eq_filter {β} (rows : List β) (q : β → Bool) :
    (rows.zip (rows.map q)).filterMap (fun p => if p.2 then some p.1 else none) = rows.filter q := by
  induction rows with
  | nil => rfl
  | cons r rs ih => cases h : q r <;> simp [h, ih]

/-- column `j` read off the rows -/
theorem toRows_column (n : Nat) (cols : Cols α) (h : WFn n cols) (hne : cols ≠ []) (j : Nat) (c : List α)
    (hc : cols[j]? = some c) : (toRows cols).map (fun r => r[j]?) = c.map some := by
  have hlen := toRows_length n cols h hne
  have hcl : c.length = n := h c (List.mem_of_getElem? hc)
  apply List.ext_getElem
  · simp [hlen, hcl]
  · intro i h1 h2
    simp only [List.length_map] at h1 h2
    simp only [List.getElem_map]
    have hrow := toRows_getElem? n cols h hne i
    rw [List.getElem?_eq_getElem h1, if_pos (by omega)] at hrow
    have := omap_getElem? _ cols _ hrow.symm j
    rw [this, hc]
    simp [List.getElem?_eq_getElem h2]

/-- **masking by a comparison on one field** keeps exactly the rows whose cell in that field satisfies
the comparison, whole rows, in order -/
theorem predMask_rows (p : α → Bool) (j : Nat) (cols r : Cols α) (hw : WF cols) (hne : cols ≠ [])
    (h : predMask p j cols = some r) :
    toRows r = (toRows cols).filter (fun row => match row[j]? with | some x => p x | none => false) := by
  unfold predMask at h
  split at h
  · simp at h
  · rename_i c hc
    rw [mask_rows _ cols r hw hne h]
    have hcol := toRows_column (nrows cols) cols hw hne j c hc
    have : c.map p = (toRows cols).map (fun row => match row[j]? with | some x => p x | none => false) := by
      have := congrArg (List.map (fun o : Option α => match o with | some x => p x | none => false)) hcol
      simp only [List.map_map, Function.comp_def] at this
      exact this.symm
    rw [this, zip_filterMap_eq_filter]

/-- a comparison mask never fails on an existing field of a well-formed table -/
theorem predMask_total (p : α → Bool) (j : Nat) (cols : Cols α) (hw : WF cols) (hj : j < cols.length) :
    ∃ r, predMask p j cols = some r := by
  unfold predMask
  rw [List.getElem?_eq_getElem hj]
  simp only [mask]
  have hl : cols[j].length = nrows cols := hw _ (List.getElem_mem hj)
  rw [if_pos (by simpa using hl)]
  simp only [take]
  rw [if_pos]
  · exact ⟨_, rfl⟩
  · rw [List.all_eq_true]
    intro i hi
    have := maskIdx_lt _ i hi
    simp only [List.length_map, hl] at this
    simpa using this

/-! ### `add_fields` without a type map: the tabulated inference gives the natural class -/

/-- **inferred field types**: over the whole table re-extracted from the running code, a column added without a
declared type gets the class its values naturally have (ints → integer array, text → text column, encoded
sequences keep their encoding); it is refused only for values that are no basic type -/
theorem infer_natural_class : Gen.C19.inferTable.all inferCellOK = true := by decide +kernel

theorem infer_table_complete :
    Gen.C19.inferTable.map (·.1) = ["list_int", "list_str", "list_float", "list_bool", "list_mixed", "nd_int", "nd_float",
      "nd_bool", "nd_str", "encoded_ragged", "dna_ragged", "list_dna_rows", "string_array", "list_list_int"] := by decide +kernel

/-! ### the index vocabulary pinned by standard notions -/

/-- `maskIdx` lists exactly the positions holding `True` … -/
theorem mem_maskIdx (m : List Bool) (i : Nat) : i ∈ maskIdx m ↔ m[i]? = some true := by
  induction m generalizing i with
  | nil => simp [maskIdx]
  | cons b bs ih =>
    simp only [maskIdx, List.mem_append, List.mem_map]
    cases i with
    | zero => cases b <;> simp
    | succ i =>
      constructor
      · rintro (h | ⟨k, hk, e⟩)
        · cases b <;> simp at h
        · have : k = i := by omega
          subst this; simpa using (ih k).mp hk
      · intro h
        exact Or.inr ⟨i, (ih i).mpr (by simpa using h), rfl⟩

/-- … in increasing order -/
theorem maskIdx_sorted (m : List Bool) : (maskIdx m).Pairwise (· < ·) := by
  induction m with
  | nil => simp [maskIdx]
  | cons b bs ih =>
    simp only [maskIdx]
    rw [List.pairwise_append]
    refine ⟨by cases b <;> simp, ?_, ?_⟩
    · rw [List.pairwise_map]
      exact ih.imp (by intro a b h; omega)
    · intro a ha c hc
      cases b <;> simp at ha
      subst ha
      simp only [List.mem_map] at hc
      obtain ⟨k, _, rfl⟩ := hc
      omega

/-- `gather` is `map` of `getElem` on in-range indices -/
theorem gather_eq_map (ix : List Nat) (l : List α) (d : α) (h : ∀ i ∈ ix, i < l.length) :
    gather ix l = ix.map (fun i => l.getD i d) := by
  induction ix with
  | nil => rfl
  | cons i ix ih =>
    have hi : i < l.length := h i (by simp)
    simp only [gather, List.filterMap_cons, List.getElem?_eq_getElem hi, List.map_cons] at ih ⊢
    rw [ih (fun j hj => h j (by simp [hj]))]
    simp [List.getD_eq_getElem?_getD, List.getElem?_eq_getElem hi]

theorem concat_getElem? (a b : Cols α) (j : Nat) :
    (concat a b)[j]? = (a[j]?).bind (fun x => (b[j]?).map (fun y => x ++ y)) := by
  simp only [concat, List.getElem?_zipWith]
  cases a[j]? <;> cases b[j]? <;> rfl

/-! ### when the operations raise (completeness) -/

theorem take_none_iff (ix : List Nat) (cols : Cols α) : take ix cols = none ↔ ∃ i ∈ ix, nrows cols ≤ i := by
  unfold take
  split
  · rename_i h
    simp only [List.all_eq_true, decide_eq_true_eq] at h
    simp only [reduceCtorEq, false_iff, not_exists, not_and]
    intro i hi; have := h i hi; omega
  · rename_i h
    rw [Bool.not_eq_true, List.all_eq_false] at h
    obtain ⟨i, hi, hlt⟩ := h
    simp only [true_iff]
    exact ⟨i, hi, by simpa using hlt⟩

theorem mask_none_iff (m : List Bool) (cols : Cols α) : mask m cols = none ↔ m.length ≠ nrows cols := by
  unfold mask
  split
  · rename_i h
    simp only [h, ne_eq, not_true_eq_false, iff_false]
    intro hn
    obtain ⟨i, hi, hle⟩ := (take_none_iff _ cols).mp hn
    have := maskIdx_lt m i hi
    omega
  · rename_i h; simp [h]

theorem replaceCol_none_iff (j : Nat) (c : List α) (cols : Cols α) :
    replaceCol j c cols = none ↔ ¬ (j < cols.length ∧ WF (cols.set j c)) := by
  unfold replaceCol
  split
  · rename_i h
    simp only [Bool.and_eq_true, decide_eq_true_eq] at h
    simp [h.1, (wfB_iff _).mp h.2]
  · rename_i h
    simp only [Bool.and_eq_true, decide_eq_true_eq, not_and] at h
    simp only [true_iff, not_and]
    intro hj hw
    exact h hj ((wfB_iff _).mpr hw)

/-! ### laws: identity, composition, distribution -/

theorem gather_range (l : List α) : gather (List.range l.length) l = l := by
  apply List.ext_getElem?
  intro p
  rw [gather_getElem? _ l (by intro i hi; simpa using hi)]
  by_cases hp : p < l.length
  · simp [hp]
  · simp [hp] <;> omega

/-- indexing with all positions in order is the identity -/
theorem take_range (cols : Cols α) (hw : WF cols) : take (List.range (nrows cols)) cols = some cols := by
  unfold take
  rw [if_pos (by simp)]
  congr 1
  conv => rhs; rw [← List.map_id cols]
  apply List.map_congr_left
  intro c hc
  have := hw c hc
  rw [← this]
  exact gather_range c

theorem gather_gather (ix iy : List Nat) (l : List α) (hy : ∀ i ∈ iy, i < l.length) (hx : ∀ i ∈ ix, i < iy.length) :
    gather ix (gather iy l) = gather (gather ix iy) l := by
  apply List.ext_getElem?
  intro p
  have hl : (gather iy l).length = iy.length := gather_length iy l hy
  rw [gather_getElem? ix _ (by intro i hi; rw [hl]; exact hx i hi)]
  have hxy : ∀ i ∈ gather ix iy, i < l.length := by
    intro i hi
    simp only [gather, List.mem_filterMap] at hi
    obtain ⟨k, _, hk⟩ := hi
    exact hy i (List.mem_of_getElem? hk)
  rw [gather_getElem? (gather ix iy) l hxy, gather_getElem? ix iy hx]
  cases ix[p]? with
  | none => rfl
  | some k =>
    simp only [Option.bind_some]
    rw [gather_getElem? iy l hy]

/-- **composition of indexings**: `t[iy][ix] = t[iy[ix]]` -/
theorem take_take (ix iy : List Nat) (cols c1 c2 : Cols α) (hw : WF cols) (hne : cols ≠ [])
    (h1 : take iy cols = some c1) (h2 : take ix c1 = some c2) : take (gather ix iy) cols = some c2 := by
  obtain ⟨hy, rfl⟩ := take_some iy cols c1 h1
  obtain ⟨hx, rfl⟩ := take_some ix _ c2 h2
  have hn1 : nrows (cols.map (gather iy)) = iy.length := by
    cases cols with
    | nil => exact absurd rfl hne
    | cons c cs =>
      simp only [List.map_cons, nrows]
      exact gather_length iy c (fun i hi => by simpa [nrows] using hy i hi)
  rw [hn1] at hx
  unfold take
  rw [if_pos]
  · congr 1
    rw [List.map_map]
    apply List.map_congr_left
    intro c hc
    simp only [Function.comp_apply]
    exact (gather_gather ix iy c (fun i hi => by rw [hw c hc]; exact hy i hi) hx).symm
  · rw [List.all_eq_true]
    intro i hi
    simp only [gather, List.mem_filterMap] at hi
    obtain ⟨k, _, hk⟩ := hi
    simpa using hy i (List.mem_of_getElem? hk)

theorem concat_assoc (a b c : Cols α) : concat (concat a b) c = concat a (concat b c) := by
  apply List.ext_getElem?
  intro j
  simp only [concat_getElem?]
  cases a[j]? <;> cases b[j]? <;> cases c[j]? <;> simp



/-! ### sorting: already sorted keys, idempotence, stability -/

theorem zip_range_pairwise (ks : List Int) (h : ks.Pairwise (· ≤ ·)) :
    ((List.range ks.length).zip ks).Pairwise (fun a b => decide (a.2 ≤ b.2) = true) := by
  have : (((List.range ks.length).zip ks).map (·.2)).Pairwise (· ≤ ·) := by
    rw [List.map_snd_zip (by simp)]; exact h
  rw [List.pairwise_map] at this
  exact this.imp (by intro a b hab; simpa using hab)

/-- sorting keys that are already in order moves nothing -/
theorem argsort_of_sorted (ks : List Int) (h : ks.Pairwise (· ≤ ·)) : argsort ks = List.range ks.length := by
  unfold argsort
  rw [List.mergeSort_of_pairwise (zip_range_pairwise ks h), List.map_fst_zip (by simp)]

/-- **`sort_by` is idempotent**: sorting an already sorted table by the same field gives the same table -/
theorem sortBy_idempotent (key : α → Int) (j : Nat) (cols r : Cols α) (hw : WF cols) (h : sortBy key j cols = some r) :
    sortBy key j r = some r := by
  obtain ⟨c', hc', hs⟩ := sortBy_sorted key j cols r h
  have hwr := sortBy_wf key j cols r hw h
  unfold sortBy
  rw [hc']
  simp only
  rw [argsort_of_sorted _ hs]
  have : (c'.map key).length = nrows r := by
    simp only [List.length_map]
    exact hwr c' (List.mem_of_getElem? hc')
  rw [this]
  exact take_range r hwr

/-- **stability**: two rows whose keys are in order keep their relative order -/
theorem argsort_stable (ks : List Int) (i j : Nat) (hij : i < j) (hj : j < ks.length) (hle : ks[i]'(by omega) ≤ ks[j]) :
    List.Sublist [i, j] (argsort ks) := by
  have hsub : List.Sublist [(i, ks[i]'(by omega)), (j, ks[j])] ((List.range ks.length).zip ks) := by
    have hz : (List.range ks.length).zip ks = (List.range ks.length).map (fun k => (k, ks.getD k 0)) := by
      apply List.ext_getElem
      · simp
      · intro k h1 h2
        simp only [List.length_zip, List.length_range, Nat.min_self] at h1
        simp [List.getD_eq_getElem?_getD, List.getElem?_eq_getElem h1]
    rw [hz]
    have : [(i, ks[i]'(by omega)), (j, ks[j])] = [i, j].map (fun k => (k, ks.getD k 0)) := by
      simp [List.getD_eq_getElem?_getD, List.getElem?_eq_getElem hj, List.getElem?_eq_getElem (by omega : i < ks.length)]
    rw [this]
    apply List.Sublist.map
    -- [i, j] is a sublist of range n
    have hr : List.range ks.length = List.range i ++ i :: (List.range' (i + 1) (j - i - 1) ++ j :: List.range' (j + 1) (ks.length - j - 1)) := by
      apply List.ext_getElem
      · simp; omega
      · intro k h1 h2
        simp only [List.length_range] at h1
        simp only [List.getElem_range, List.getElem_append, List.length_range, List.getElem_cons, List.length_range',
          List.getElem_range']
        split
        · rfl
        · split
          · omega
          · split
            · omega
            · split <;> omega
    rw [hr]
    have s1 : List.Sublist [j] (List.range' (i + 1) (j - i - 1) ++ j :: List.range' (j + 1) (ks.length - j - 1)) :=
      (List.Sublist.cons_cons j (List.nil_sublist _)).trans (List.sublist_append_right _ _)
    exact (List.Sublist.cons_cons i s1).trans (List.sublist_append_right _ _)
  have := List.pair_sublist_mergeSort (le := fun (a b : Nat × Int) => decide (a.2 ≤ b.2))
    (fun a b c hab hbc => by simp only [decide_eq_true_eq] at *; omega)
    (fun a b => by simp only [Bool.or_eq_true, decide_eq_true_eq]; omega)
    (by simpa using hle) hsub
  have h2 := this.map (·.1)
  simpa [argsort] using h2


/-! ### the column interpreter refines the row interpreter (audit review #21) -/

theorem step_width (cols r : Cols α) (op : Op α) (h : step cols op = some r) : cols.length ≤ r.length := by
  cases op with
  | take ix => obtain ⟨_, rfl⟩ := take_some ix cols r h; simp
  | mask m =>
    simp only [step, mask] at h
    split at h
    · obtain ⟨_, rfl⟩ := take_some _ cols r h; simp
    · simp at h
  | concat o =>
    simp only [step] at h
    split at h
    · rename_i hc
      simp only [Bool.and_eq_true, beq_iff_eq] at hc
      simp only [Option.some.injEq] at h; subst h
      simp [concat, hc.2]
    · simp at h
  | concatL o =>
    simp only [step] at h
    split at h
    · rename_i hc
      simp only [Bool.and_eq_true, beq_iff_eq] at hc
      simp only [Option.some.injEq] at h; subst h
      simp [concat, hc.2]
    · simp at h
  | sortBy j key =>
    simp only [step, sortBy] at h
    split at h
    · simp at h
    · obtain ⟨_, rfl⟩ := take_some _ cols r h; simp
  | predMask j p =>
    simp only [step, predMask, mask] at h
    split at h
    · simp at h
    · split at h
      · obtain ⟨_, rfl⟩ := take_some _ cols r h; simp
      · simp at h
  | replace j c =>
    simp only [step, replaceCol] at h
    split at h
    · simp only [Option.some.injEq] at h; subst h; simp
    · simp at h
  | addFields new =>
    simp only [step, addFields] at h
    split at h
    · simp only [Option.some.injEq] at h; subst h; simp
    · simp at h

theorem take_eq_some (ix : List Nat) (cols : Cols α) (h : ∀ i ∈ ix, i < nrows cols) :
    take ix cols = some (cols.map (gather ix)) := by
  unfold take
  rw [if_pos (by simpa using h)]

/-- for a table with at least two fields, or when another field than the only one is replaced, the constructor's
length check on the replaced table is: the new column has as many cells as the table has rows -/
theorem wfB_set_iff (n : Nat) (cols : Cols α) (j : Nat) (c : List α) (h : WFn n cols) (hj : j < cols.length)
    (h2 : 2 ≤ cols.length) : wfB (cols.set j c) = true ↔ c.length = n := by
  rw [wfB_iff]
  constructor
  · intro hw
    -- another column k ≠ j keeps its length n; the first column fixes nrows
    obtain ⟨k, hk, hkj⟩ : ∃ k, k < cols.length ∧ k ≠ j := by
      by_cases h0 : j = 0
      · exact ⟨1, by omega, by omega⟩
      · exact ⟨0, by omega, by omega⟩
    have hkl : ((cols.set j c)[k]'(by simpa using hk)).length = nrows (cols.set j c) :=
      hw _ (List.getElem_mem _)
    have hjl : ((cols.set j c)[j]'(by simpa using hj)).length = nrows (cols.set j c) :=
      hw _ (List.getElem_mem _)
    rw [List.getElem_set_ne (by omega)] at hkl
    rw [List.getElem_set_self] at hjl
    have := h cols[k] (List.getElem_mem _)
    omega
  · intro hc
    exact wf_of_wfn n _ (wfn_set n cols j c h hc)

theorem nrows_append (cols new : Cols α) (hne : cols ≠ []) : nrows (cols ++ new) = nrows cols := by
  cases cols with
  | nil => exact absurd rfl hne
  | cons c cs => rfl

theorem filterMap_getElem?_rows (cols : Cols α) (hw : WF cols) (hne : cols ≠ []) (j : Nat) (c : List α)
    (hc : cols[j]? = some c) : (toRows cols).filterMap (fun r => r[j]?) = c := by
  have h := toRows_column (nrows cols) cols hw hne j c hc
  have : (toRows cols).filterMap (fun r => r[j]?) = ((toRows cols).map (fun r => r[j]?)).filterMap id := by
    rw [List.filterMap_map]; rfl
  rw [this, h, List.filterMap_map]
  simp

/-- **one operation, columns = entries**: on a rectangular table with at least one field, every operation of the
program language does to the columns exactly what its row-wise reading does to the list of entries - the same
result rows, the same number of fields, and it raises in exactly the same situations -/
theorem step_refines_rows (cols : Cols α) (op : Op α) (hw : WF cols) (hne : cols ≠ []) :
    stepRows (cols.length, toRows cols) op = (step cols op).map (fun r => (r.length, toRows r)) := by
  have hlen := toRows_length (nrows cols) cols hw hne
  cases op with
  | take ix =>
    simp only [stepRows, step]
    by_cases hix : ∀ i ∈ ix, i < nrows cols
    · rw [take_eq_some ix cols hix]
      have := take_rows ix cols _ hw hne (take_eq_some ix cols hix)
      simp [this]
    · have h1 : take ix cols = none := by
        unfold take; rw [if_neg (by simpa using hix)]
      have h2 : takeRows ix (toRows cols) = none := by
        unfold takeRows; rw [hlen, if_neg (by simpa using hix)]
      simp [h1, h2]
  | mask m =>
    simp only [stepRows, step, hlen]
    by_cases hm : m.length = nrows cols
    · have hix : ∀ i ∈ maskIdx m, i < nrows cols := fun i hi => hm ▸ maskIdx_lt m i hi
      have hmk : mask m cols = some (cols.map (gather (maskIdx m))) := by
        unfold mask; rw [if_pos hm, take_eq_some _ cols hix]
      rw [if_pos hm, hmk]
      simp [mask_rows m cols _ hw hne hmk]
    · have : mask m cols = none := by unfold mask; rw [if_neg hm]
      rw [if_neg hm, this]; rfl
  | concat o =>
    simp only [stepRows, step]
    split
    · rename_i hc
      simp only [Bool.and_eq_true, beq_iff_eq] at hc
      have hwo : WF o := (wfB_iff o).mp hc.1
      simp only [Option.map_some, Option.some.injEq, Prod.mk.injEq]
      refine ⟨by simp [concat, hc.2], ?_⟩
      exact (concat_rows _ _ cols o hw hwo hc.2.symm hne).symm
    · rfl
  | concatL o =>
    simp only [stepRows, step]
    split
    · rename_i hc
      simp only [Bool.and_eq_true, beq_iff_eq] at hc
      have hwo : WF o := (wfB_iff o).mp hc.1
      have hone : o ≠ [] := by
        intro e; rw [e] at hc; apply hne; exact List.length_eq_zero_iff.mp hc.2.symm
      simp only [Option.map_some, Option.some.injEq, Prod.mk.injEq]
      refine ⟨by simp [concat, hc.2], ?_⟩
      exact (concat_rows _ _ o cols hwo hw hc.2 hone).symm
    · rfl
  | sortBy j key =>
    simp only [stepRows, step, sortBy]
    by_cases hj : j < cols.length
    · rw [if_pos hj, List.getElem?_eq_getElem hj]
      simp only
      have hc : cols[j]? = some cols[j] := List.getElem?_eq_getElem hj
      rw [filterMap_getElem?_rows cols hw hne j _ hc]
      have hcl : cols[j].length = nrows cols := hw _ (List.getElem_mem _)
      have hix : ∀ i ∈ argsort (cols[j].map key), i < nrows cols := by
        intro i hi
        have := argsort_lt _ i hi
        simpa [hcl] using this
      rw [take_eq_some _ cols hix]
      have := take_rows _ cols _ hw hne (take_eq_some _ cols hix)
      simp [this]
    · rw [if_neg hj, List.getElem?_eq_none (by omega)]
      rfl
  | predMask j p =>
    simp only [stepRows, step]
    by_cases hj : j < cols.length
    · have hc : cols[j]? = some cols[j] := List.getElem?_eq_getElem hj
      have hcl : cols[j].length = nrows cols := hw _ (List.getElem_mem _)
      have hix : ∀ i ∈ maskIdx (cols[j].map p), i < nrows cols := by
        intro i hi
        have := maskIdx_lt _ i hi
        simpa [hcl] using this
      have hpm : predMask p j cols = some (cols.map (gather (maskIdx (cols[j].map p)))) := by
        unfold predMask mask
        rw [hc]
        simp only [List.length_map, hcl, ↓reduceIte]
        exact take_eq_some _ cols hix
      rw [if_pos hj, hpm]
      simp only [Option.map_some, Option.some.injEq, Prod.mk.injEq]
      refine ⟨by simp, ?_⟩
      rw [predMask_rows p j cols _ hw hne hpm]
      congr 1
    · have : predMask p j cols = none := by
        unfold predMask; rw [List.getElem?_eq_none (by omega)]
      rw [if_neg hj, this]; rfl
  | replace j c =>
    simp only [stepRows, step, replaceCol, hlen]
    by_cases h1 : cols.length = 1 ∧ j = 0
    · obtain ⟨hl, rfl⟩ := h1
      obtain ⟨c0, rfl⟩ : ∃ c0, cols = [c0] := List.length_eq_one_iff.mp hl
      simp [wfB, nrows, toRows]
    · have hcond : ((cols.length == 1) && (j == 0)) = false := by
        simp only [Bool.and_eq_false_iff, beq_eq_false_iff_ne]
        by_cases hl : cols.length = 1
        · exact Or.inr (fun e => h1 ⟨hl, e⟩)
        · exact Or.inl hl
      rw [hcond]
      simp only [Bool.false_eq_true, ↓reduceIte]
      by_cases hj : j < cols.length
      · have h2 : 2 ≤ cols.length := by
          have : cols.length ≠ 0 := fun e => hne (List.length_eq_zero_iff.mp e)
          by_cases hl : cols.length = 1
          · exfalso; exact h1 ⟨hl, by omega⟩
          · omega
        have hiff := wfB_set_iff (nrows cols) cols j c hw hj h2
        by_cases hc : c.length = nrows cols
        · rw [if_pos (by simp [hj, hc]), if_pos (by simp [hj, hiff.mpr hc])]
          simp [replace_rows (nrows cols) cols j c hw hne hc]
        · have : wfB (cols.set j c) = false := by
            cases hb : wfB (cols.set j c)
            · rfl
            · exact absurd (hiff.mp hb) hc
          rw [if_neg (by simp [hc]), if_neg (by simp [this])]
          rfl
      · rw [if_neg (by simp [hj]), if_neg (by simp [hj])]
        rfl
  | addFields new =>
    simp only [stepRows, step, addFields, hlen]
    have hwf : wfB (cols ++ new) = new.all (fun c => c.length == nrows cols) := by
      have hall : cols.all (fun c => c.length == nrows cols) = true := by
        simpa [wfB] using (wfB_iff cols).mpr hw
      simp only [wfB, nrows_append cols new hne, List.all_append, hall, Bool.true_and]
    rw [hwf]
    split
    · rename_i hall
      simp only [Option.map_some, Option.some.injEq, Prod.mk.injEq]
      refine ⟨by simp, ?_⟩
      by_cases hn : new = []
      · subst hn; simp
      · have hnw : WFn (nrows cols) new := by
          intro c hc
          have := List.all_eq_true.mp hall c hc
          simpa using this
        have : new.isEmpty = false := by cases new <;> simp_all
        rw [this]
        simp only [Bool.false_eq_true, ↓reduceIte]
        exact (addFields_rows (nrows cols) cols new hw hnw hne hn).symm
    · rfl

/-- **programs, columns = entries** (`run_refines_rows`): running any program of table operations on the columns
of a rectangular table with at least one field gives - in the result's number of fields, in its list of entries,
and in whether it raises - exactly what the row-wise interpreter (`runRows`, the reading of a table as a list of
NumPy records) gives on the table's entries -/
theorem run_refines_rows (ops : List (Op α)) (cols : Cols α) (hw : WF cols) (hne : cols ≠ []) :
    runRows ops (cols.length, toRows cols) = (run ops cols).map (fun r => (r.length, toRows r)) := by
  induction ops generalizing cols with
  | nil => simp [runRows, run]
  | cons op ops ih =>
    simp only [runRows, run, step_refines_rows cols op hw hne]
    cases hs : step cols op with
    | none => simp
    | some r =>
      have hwr := step_wf cols r op hw hs
      have hner : r ≠ [] := by
        intro e
        have := step_width cols r op hs
        rw [e] at this
        exact hne (List.length_eq_zero_iff.mp (by simpa using this))
      simp only [Option.map_some]
      exact ih r hwr hner


/-! ### one entry by integer index -/

/-- `table[i]` / `rows[i]` raise exactly outside `-n ≤ i < n` (too large AND too negative) -/
theorem pyIndex_none_iff (n : Nat) (i : Int) : pyIndex n i = none ↔ (i < -(n : Int) ∨ (n : Int) ≤ i) := by
  unfold pyIndex
  split
  · split <;> simp <;> omega
  · split <;> simp <;> omega

/-- inside the range the entry is the one at `i` for `i ≥ 0` and at `n + i` for `i < 0` -/
theorem pyIndex_some (n : Nat) (i : Int) (k : Nat) (h : pyIndex n i = some k) :
    k < n ∧ (k : Int) = if 0 ≤ i then i else n + i := by
  unfold pyIndex at h
  split at h
  · split at h
    · simp only [Option.some.injEq] at h; subst h; rename_i h0 _; simp [h0]; omega
    · simp at h
  · split at h
    · simp only [Option.some.injEq] at h; subst h; rename_i h0 _; simp [h0]; omega
    · simp at h

/-- **one entry, columns = entries**: `table[i]` is `rows[i]` of the table's entries for every integer `i` -
the same entry, and `IndexError` in exactly the same cases -/
theorem pick_refines_rows (cols : Cols α) (hw : WF cols) (hne : cols ≠ []) (i : Int) :
    pickRow cols i = pickRows (toRows cols) i := by
  unfold pickRow pickRows
  rw [toRows_length (nrows cols) cols hw hne]
  cases h : pyIndex (nrows cols) i with
  | none => rfl
  | some k =>
    have := (pyIndex_some _ _ _ h).1
    simp only [Option.bind_some]
    rw [toRows_getElem? (nrows cols) cols hw hne k, if_pos this]

example : pyIndex 3 (-4) = none ∧ pyIndex 3 (-3) = some 0 ∧ pyIndex 3 2 = some 2 ∧ pyIndex 3 3 = none ∧ pyIndex 0 (-1) = none := by decide


end C19
