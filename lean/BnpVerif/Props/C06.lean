import BnpVerif.Model.C06
import BnpVerif.Gen.C06
/-! C06 property theorems. Helper lemmas first (private), property theorems are the ones
listed in `Audit/C06.lean`. -/
namespace C06

open Base

/-! ### the specification is what the property says -/

/-- encoding succeeds exactly when every character is accepted -/
theorem spec_encode_iff (alph : List Nat) (s : Bytes) :
    (specEncode alph s).isSome ↔ ∀ b ∈ s, accepts alph b = true := by
  unfold specEncode
  rw [omap_isSome_iff]
  constructor
  · intro h b hb
    have := h b hb
    unfold specEncByte at this
    split at this <;> simp_all
  · intro h b hb
    unfold specEncByte
    simp [h b hb]

theorem upper_mem_of_accepts (alph : List Nat) (hno : alph.all (fun b => !isLower b) = true)
    (b : Nat) (h : accepts alph b = true) : toUpper b ∈ alph := by
  unfold accepts at h
  unfold toUpper
  simp only [Bool.or_eq_true, Bool.and_eq_true, List.contains_iff_mem] at h
  split
  · rename_i hl
    cases h with
    | inl hm =>
      have := (List.all_eq_true.mp hno) b hm
      simp [hl] at this
    | inr hm => exact hm.2
  · rename_i hl
    cases h with
    | inl hm => exact hm
    | inr hm => exact absurd hm.1 hl

/-- decoding an encoded text gives the upper-cased original, element for element -/
theorem spec_decode_encode (alph : List Nat) (hno : alph.all (fun b => !isLower b) = true)
    (s : Bytes) (cs : List Nat) (h : specEncode alph s = some cs) :
    specDecode alph cs = some (s.map toUpper) := by
  unfold specEncode at h
  unfold specDecode
  induction s generalizing cs with
  | nil => simp at h; subst h; rfl
  | cons a l ih =>
    obtain ⟨b, bs, hab, hbs, rfl⟩ := omap_cons_eq_some _ a l cs h
    unfold specEncByte at hab
    split at hab
    · rename_i hacc
      have hm := upper_mem_of_accepts alph hno a hacc
      simp only [Option.some.injEq] at hab
      subst hab
      have : alph[alph.idxOf (toUpper a)]? = some (toUpper a) := by
        rw [List.getElem?_eq_getElem (List.idxOf_lt_length_of_mem hm)]
        simp
      exact omap_cons_some _ _ _ _ _ this (ih bs hbs)
    · simp at hab

/-! ### the code's table is the specification (given the whole-table obligation) -/

theorem encByte_eq_spec (E : Enc) (h : tableOK E = true) (b : Nat) (hb : b < 256) :
    encByte E b = specEncByte E.alphabet b := by
  unfold tableOK at h
  simp only [Bool.and_eq_true, List.all_eq_true, List.mem_range, beq_iff_eq] at h
  exact h.1.1.1.2 b hb

theorem encode_eq_spec (E : Enc) (h : tableOK E = true) (s : Bytes) (hs : ∀ b ∈ s, b < 256) :
    encode E s = specEncode E.alphabet s := by
  unfold encode specEncode
  exact omap_congr _ _ _ (fun b hb => encByte_eq_spec E h b (hs b hb))

theorem decode_eq_spec (E : Enc) (h : tableOK E = true) (cs : List Nat) :
    decode E cs = specDecode E.alphabet cs := by
  unfold tableOK at h
  simp only [Bool.and_eq_true, beq_iff_eq] at h
  unfold decode specDecode
  rw [h.1.1.2]

theorem tableOK_noLower (E : Enc) (h : tableOK E = true) :
    E.alphabet.all (fun b => !isLower b) = true := by
  unfold tableOK at h
  simp only [Bool.and_eq_true] at h
  exact h.1.2

/-- C06 clause 1: encoding succeeds exactly when every character belongs to the alphabet
(letters case-insensitively) -/
theorem encode_iff (E : Enc) (h : tableOK E = true) (s : Bytes) (hs : ∀ b ∈ s, b < 256) :
    (encode E s).isSome ↔ ∀ b ∈ s, accepts E.alphabet b = true := by
  rw [encode_eq_spec E h s hs]; exact spec_encode_iff _ _

/-- C06 clause 2: decode ∘ encode = upper-casing, element for element -/
theorem decode_encode (E : Enc) (h : tableOK E = true) (s : Bytes) (hs : ∀ b ∈ s, b < 256)
    (cs : List Nat) (he : encode E s = some cs) : decode E cs = some (s.map toUpper) := by
  rw [encode_eq_spec E h s hs] at he
  rw [decode_eq_spec E h]
  exact spec_decode_encode _ (tableOK_noLower E h) s cs he

/-- the reported error offset is the first offending position -/
theorem firstBad_spec (E : Enc) (h : tableOK E = true) (s : Bytes) (hs : ∀ b ∈ s, b < 256) :
    firstBad E s = (let i := s.findIdx (fun b => !accepts E.alphabet b); if i < s.length then some i else none) := by
  unfold firstBad
  have : s.findIdx (fun b => (encByte E b).isNone) = s.findIdx (fun b => !accepts E.alphabet b) := by
    apply findIdx_congr
    intro b hb
    rw [encByte_eq_spec E h b (hs b hb)]
    unfold specEncByte
    split <;> simp_all
  simp only [this]

/-! ### ragged input: row shape is kept, rows are encoded independently -/

theorem unflatten_flatten {α} (rows : List (List α)) :
    unflatten (rows.map List.length) rows.flatten = rows := by
  induction rows with
  | nil => simp [unflatten]
  | cons r rs ih => simp [unflatten, ih]

theorem ragged_shape (alph : List Nat) (hno : alph.all (fun b => !isLower b) = true)
    (rows : List Bytes) (cs : List Nat) (h : specEncode alph rows.flatten = some cs) :
    (specDecode alph cs).map (unflatten (rows.map List.length)) = some (rows.map (·.map toUpper)) := by
  rw [spec_decode_encode alph hno _ cs h]
  simp only [Option.map_some, Option.some.injEq]
  have : (rows.flatten.map toUpper) = (rows.map (·.map toUpper)).flatten := by
    simp [List.map_flatten]
  rw [this]
  have hl : rows.map List.length = (rows.map (·.map toUpper)).map List.length := by
    simp [List.map_map, Function.comp_def]
  rw [hl]
  exact unflatten_flatten _

/-! ### the generated tables (re-extracted from /repo on every run) satisfy the obligation -/

theorem gen_tables_ok : Gen.C06.all.all (fun p => tableOK p.2) = true := by decide +kernel

theorem gen_names : Gen.C06.all.map (·.1) =
    ["ACTGEncoding", "ACGTEncoding", "ACTGnEncoding", "ACGTnEncoding", "DigitEncoding", "ACUGEncoding",
     "AminoAcidEncoding", "BamEncoding", "CigarOpEncoding", "StrandEncoding"] := by decide +kernel

/-- the alphabets themselves are the documented ones (written here independently of the code) -/
theorem gen_alphabets : Gen.C06.all.map (·.2.alphabet) =
    ["ACTG".toList.map Char.toNat, "ACGT".toList.map Char.toNat, "ACTGN".toList.map Char.toNat,
     "ACGTN".toList.map Char.toNat, "0123456789".toList.map Char.toNat, "ACUG".toList.map Char.toNat,
     "ACDEFGHIKLMNPQRSTVWY*".toList.map Char.toNat, "=ACMGRSVTWYHKDBN".toList.map Char.toNat,
     "MIDNSHP=X".toList.map Char.toNat, "+-.".toList.map Char.toNat] := by decide +kernel

/-- every predefined encoding: accept exactly the alphabet, decode∘encode = upper -/
theorem predefined (n : String) (E : Enc) (hE : (n, E) ∈ Gen.C06.all) (s : Bytes) (hs : ∀ b ∈ s, b < 256) :
    ((encode E s).isSome ↔ ∀ b ∈ s, accepts E.alphabet b = true) ∧
    (∀ cs, encode E s = some cs → decode E cs = some (s.map toUpper)) := by
  have h : tableOK E = true := (List.all_eq_true.mp gen_tables_ok) (n, E) hE
  exact ⟨encode_iff E h s hs, fun cs he => decode_encode E h s hs cs he⟩

/-! ### re-targeting already-encoded data -/

theorem le_of_max? (d : List Nat) (m : Nat) (h : d.max? = some m) : ∀ c ∈ d, c ≤ m := by
  intro c hc
  exact (List.max?_eq_some_iff.mp h).2 c hc

/-- C06 clause 3 (re-targeting), for ALL alphabets: a returned result decodes, with the target
alphabet, to exactly the text the data denoted under the source alphabet. -/
theorem retarget_sound (src tgt : List Nat) (d d' : List Nat) (h : retarget src tgt d = some d') :
    ∃ text, specDecode src d = some text ∧ specDecode tgt d' = some text := by
  unfold retarget retargetWith at h
  split at h
  · rename_i hnone
    have hd : d = [] := List.max?_eq_none_iff.mp hnone
    simp only [Option.some.injEq] at h
    subst h; subst hd
    exact ⟨[], by simp [specDecode], by simp [specDecode]⟩
  · rename_i m hm
    split at h
    · rename_i htake
      split at h
      · rename_i hlt
        simp only [Option.some.injEq] at h
        subst h
        have hle := le_of_max? d m hm
        have htake' : src.take (m + 1) = tgt.take (m + 1) := by simpa using htake
        have hget : ∀ c, c ≤ m → src[c]? = tgt[c]? := by
          intro c hc
          have h1 : (src.take (m+1))[c]? = src[c]? := by
            rw [List.getElem?_take]; simp; omega
          have h2 : (tgt.take (m+1))[c]? = tgt[c]? := by
            rw [List.getElem?_take]; simp; omega
          rw [← h1, ← h2, htake']
        have hsome : ∀ c ∈ d, ∃ t, tgt[c]? = some t := by
          intro c hc
          have : c < tgt.length := Nat.lt_of_le_of_lt (hle c hc) hlt
          exact ⟨tgt[c], List.getElem?_eq_getElem this⟩
        have heq : specDecode src d = specDecode tgt d := by
          unfold specDecode
          exact omap_congr _ _ _ (fun c hc => hget c (hle c hc))
        have : (specDecode tgt d).isSome := by
          unfold specDecode
          rw [omap_isSome_iff]
          intro c hc
          obtain ⟨t, ht⟩ := hsome c hc
          simp [ht]
        obtain ⟨text, ht⟩ := Option.isSome_iff_exists.mp this
        exact ⟨text, heq ▸ ht, ht⟩
      · simp at h
    · simp at h

/-- the same for the whole step including the "same encoding: return as is" shortcut: whenever
the source data is valid text for its alphabet, a returned result decodes to the same text -/
theorem retargetFull_sound (src tgt : List Nat) (d d' : List Nat) (text : Bytes)
    (hd : specDecode src d = some text) (h : retargetFull src tgt d = some d') :
    specDecode tgt d' = some text := by
  unfold retargetFull at h
  split at h
  · rename_i he
    have : src = tgt := by simpa using he
    simp only [Option.some.injEq] at h
    subst h; subst this; exact hd
  · obtain ⟨t, h1, h2⟩ := retarget_sound src tgt d d' h
    rw [hd] at h1
    simp only [Option.some.injEq] at h1
    rw [h2, h1]

/-- the rule the code shipped with (prefix of length `max`, not `max+1`) is unsound:
"ACG" in ACGT re-targeted to ACTG silently becomes "ACT". Kept as the recorded refutation. -/
theorem retargetOld_unsound :
    retargetOld [65,67,71,84] [65,67,84,71] [0,1,2] = some [0,1,2] ∧
    specDecode [65,67,71,84] [0,1,2] = some [65,67,71] ∧
    specDecode [65,67,84,71] [0,1,2] = some [65,67,84] := by decide

/-- `change_encoding` (decode then encode): a returned result decodes to the upper-cased
source text (= the source text when the source alphabet has no lower-case letters). -/
theorem change_encoding_sound (src tgt : List Nat) (hno : tgt.all (fun b => !isLower b) = true)
    (d d' : List Nat) (h : changeEncoding src tgt d = some d') :
    ∃ text, specDecode src d = some text ∧ specDecode tgt d' = some (text.map toUpper) := by
  unfold changeEncoding at h
  split at h
  · simp at h
  · rename_i text ht
    exact ⟨text, ht, spec_decode_encode tgt hno text d' h⟩

theorem map_toUpper_id (l : List Nat) (h : l.all (fun b => !isLower b) = true) : l.map toUpper = l := by
  induction l with
  | nil => rfl
  | cons x xs ih =>
    simp only [List.all_cons, Bool.and_eq_true] at h
    simp only [List.map_cons, ih h.2]
    unfold toUpper
    simp at h
    simp [h.1]

/-! ### non-vacuity -/
example : tableOK Gen.C06.ACGTEncoding = true := by decide +kernel
example : retarget [65,67,71,84] [65,67,71,84,78] [0,1,2,3] = some [0,1,2,3] := by decide
example : retarget [65,67,71,84] [65,67,84,71] [0,1,2] = none := by decide
example : changeEncoding [65,67,71,84] [65,67,84,71] [0,1,2] = some [0,1,3] := by decide


/-! ### numeric encodings by offset -/

/-- **C06.offset_roundtrip** — `decode (encode b) = b` for every byte and every `min_code`: an offset encoding
never changes the text (uint8 arithmetic wraps, and wraps back) -/
theorem offset_roundtrip (m b : Nat) (hb : b < 256) : offsetDecode m (offsetEncode m b) = b := by
  unfold offsetDecode offsetEncode; omega

/-- on and above `min_code` the code is the plain difference (the quality / digit value) -/
theorem offset_value (m b : Nat) (hm : m ≤ b) (hb : b < 256) : offsetEncode m b = b - m := by
  unfold offsetEncode; omega

theorem offset_injective (m b b' : Nat) (hb : b < 256) (hb' : b' < 256) (h : offsetEncode m b = offsetEncode m b') : b = b' := by
  unfold offsetEncode at h; omega

/-- the three predefined offset encodings of the package (tables re-extracted from /repo on every run) are
exactly `b ↦ b − min_code (mod 256)` and its inverse, with the documented `min_code`s `'0'`, `'!'`, NUL -/
theorem gen_offset_tables_ok : Gen.C06.offsets.all (fun p => offsetTableOK p.2) = true := by decide +kernel

theorem gen_offset_min_codes : Gen.C06.offsets.map (fun p => (p.1, p.2.minCode)) =
    [("NumDigitEncoding", 48), ("QualityEncoding", 33), ("CigarEncoding", 0)] := by decide +kernel

/-- every predefined offset encoding, every byte: the package's decode of its encode is the byte itself -/
theorem predefined_offset (n : String) (E : OffsetEnc) (hE : (n, E) ∈ Gen.C06.offsets) (b : Nat) (hb : b < 256) :
    E.encT[b]? = some (offsetEncode E.minCode b) ∧ E.decT[offsetEncode E.minCode b]? = some b := by
  have h := (List.all_eq_true.mp gen_offset_tables_ok) (n, E) hE
  simp only [offsetTableOK, Bool.and_eq_true, decide_eq_true_eq, beq_iff_eq] at h
  obtain ⟨⟨_, he⟩, hd⟩ := h
  have hlt : offsetEncode E.minCode b < 256 := by unfold offsetEncode; omega
  constructor
  · rw [he]; simp [hb]
  · rw [hd]; simp [hlt, offset_roundtrip E.minCode b hb]

end C06

namespace C06
open Base

/-! ## responses to the independent review -/

/-- decoded text of an alphabet without lower-case letters has none -/
theorem specDecode_noLower (alph : List Nat) (hno : alph.all (fun b => !isLower b) = true) :
    ∀ (cs : List Nat) (t : Bytes), specDecode alph cs = some t → t.all (fun b => !isLower b) = true := by
  intro cs
  unfold specDecode
  induction cs with
  | nil => intro t h; simp at h; subst h; rfl
  | cons c cs ih =>
    intro t h
    obtain ⟨b, bs, hb, hbs, rfl⟩ := omap_cons_eq_some _ c cs t h
    have hmem : b ∈ alph := List.mem_of_getElem? hb
    have := List.all_eq_true.mp hno b hmem
    simp only [List.all_cons, Bool.and_eq_true]
    exact ⟨this, ih bs hbs⟩

/-- **C06.change_encoding_same_text** — `change_encoding` between two alphabets without lower-case letters (every
`AlphabetEncoding` upper-cases its alphabet on construction; `tableOK` checks it for the predefined ones): a returned
result decodes, with the target alphabet, to EXACTLY the text the data denoted under the source alphabet. -/
theorem change_encoding_same_text (src tgt : List Nat) (hs : src.all (fun b => !isLower b) = true)
    (ht : tgt.all (fun b => !isLower b) = true) (d d' : List Nat) (h : changeEncoding src tgt d = some d') :
    ∃ text, specDecode src d = some text ∧ specDecode tgt d' = some text := by
  obtain ⟨text, h1, h2⟩ := change_encoding_sound src tgt ht d d' h
  refine ⟨text, h1, ?_⟩
  rw [h2, map_toUpper_id text (specDecode_noLower src hs d text h1)]

/-- the guard on the source is needed (the reviewer's witness: a lower-case "alphabet") -/
example : changeEncoding [97] [65] [0] = some [0] ∧ specDecode [97] [0] = some [97] ∧ specDecode [65] [0] = some [65] := by decide

/-- ragged input on the TABLE model the driver runs (`encode E rows.flatten`, `decode E`, `unflatten`) -/
theorem ragged_shape_table (E : Enc) (h : tableOK E = true) (rows : List Bytes) (hs : ∀ b ∈ rows.flatten, b < 256)
    (cs : List Nat) (he : encode E rows.flatten = some cs) :
    (decode E cs).map (unflatten (rows.map List.length)) = some (rows.map (·.map toUpper)) := by
  rw [encode_eq_spec E h _ hs] at he
  rw [decode_eq_spec E h]
  exact ragged_shape E.alphabet (tableOK_noLower E h) rows cs he

/-- rows are encoded independently: the flat formulation equals the row-wise one -/
theorem omap_flatten {α β} (f : α → Option β) : ∀ (rows : List (List α)),
    omap f rows.flatten = (omap (omap f) rows).map List.flatten := by
  intro rows
  induction rows with
  | nil => rfl
  | cons r rs ih =>
    rw [List.flatten_cons, omap_append, ih]
    simp only [omap]
    cases omap f r <;> cases omap (omap f) rs <;> simp

/-- the error clause: encoding fails exactly when an offending character exists, and the reported offset is the
FIRST offending position (every earlier character is accepted, the one at the offset is not) -/
theorem encode_none_iff (E : Enc) (h : tableOK E = true) (s : Bytes) (hs : ∀ b ∈ s, b < 256) :
    encode E s = none ↔ (firstBad E s).isSome = true := by
  rw [firstBad_spec E h s hs]
  have hiff := encode_iff E h s hs
  have hex : (s.findIdx (fun b => !accepts E.alphabet b) < s.length) ↔ ∃ x ∈ s, (!accepts E.alphabet x) = true :=
    List.findIdx_lt_length
  simp only
  constructor
  · intro hn
    have hnot : ¬ ∀ b ∈ s, accepts E.alphabet b = true := fun hall => by
      have := hiff.mpr hall; rw [hn] at this; simp at this
    have hx : ∃ x ∈ s, (!accepts E.alphabet x) = true :=
      Classical.byContradiction (fun hc => hnot (fun b hb => by
        cases hacc : accepts E.alphabet b with
        | true => rfl
        | false => exact absurd ⟨b, hb, by simp [hacc]⟩ hc))
    simp [hex.mpr hx]
  · intro hsome
    cases he : encode E s with
    | none => rfl
    | some cs =>
      have hall := hiff.mp (by simp [he])
      have hnlt : ¬ (s.findIdx (fun b => !accepts E.alphabet b) < s.length) := fun hlt => by
        obtain ⟨x, hx, hp⟩ := hex.mp hlt
        simp [hall x hx] at hp
      simp [hnlt] at hsome

theorem firstBad_least (E : Enc) (h : tableOK E = true) (s : Bytes) (hs : ∀ b ∈ s, b < 256) (i : Nat)
    (hi : firstBad E s = some i) :
    (∃ hlt : i < s.length, accepts E.alphabet s[i] = false) ∧ ∀ j (hj : j < i) (hjl : j < s.length), accepts E.alphabet s[j] = true := by
  rw [firstBad_spec E h s hs] at hi
  simp only at hi
  split at hi
  · rename_i hlt
    simp only [Option.some.injEq] at hi
    subst hi
    refine ⟨⟨hlt, ?_⟩, ?_⟩
    · have := List.findIdx_getElem (w := hlt)
      simpa using this
    · intro j hj hjl
      have := List.not_of_lt_findIdx hj
      simpa using this
  · cases hi

/-- codes and text determine each other: with a duplicate-free alphabet (part of `tableOK`), encoding the decoded
text gives back the codes — no two codes share a letter -/
theorem encode_decode (alph : List Nat) (hno : alph.all (fun b => !isLower b) = true) (hnd : alph.Nodup) :
    ∀ (cs : List Nat) (t : Bytes), specDecode alph cs = some t → specEncode alph t = some cs := by
  intro cs
  unfold specDecode specEncode
  induction cs with
  | nil => intro t h; simp at h; subst h; rfl
  | cons c cs ih =>
    intro t h
    obtain ⟨b, bs, hb, hbs, rfl⟩ := omap_cons_eq_some _ c cs t h
    have hmem : b ∈ alph := List.mem_of_getElem? hb
    have hlow : isLower b = false := by simpa using List.all_eq_true.mp hno b hmem
    have hacc : accepts alph b = true := by simp [accepts, hmem]
    have hup : toUpper b = b := by simp [toUpper, hlow]
    have hc : c < alph.length := by
      rcases Nat.lt_or_ge c alph.length with h' | h'
      · exact h'
      · rw [List.getElem?_eq_none h'] at hb; cases hb
    have hidx : alph.idxOf b = c := by
      have hb' : alph[c] = b := by
        rw [List.getElem?_eq_getElem hc] at hb; exact Option.some.inj hb
      rw [← hb']
      exact hnd.idxOf_getElem c hc
    apply omap_cons_some _ _ _ _ _ _ (ih bs hbs)
    simp [specEncByte, hacc, hup, hidx]

/-! ### the whole path from text (what the driver runs for `retarget` / `change`) -/

/-- text → source codes → `as_encoded_array(·, target)` → decoded with the target -/
theorem retarget_from_text (src tgt : List Nat) (hno : src.all (fun b => !isLower b) = true) (s : Bytes) (d d' : List Nat)
    (he : specEncode src s = some d) (hr : retargetFull src tgt d = some d') :
    specDecode tgt d' = some (s.map toUpper) :=
  retargetFull_sound src tgt d d' _ (spec_decode_encode src hno s d he) hr

/-- text → source codes → `change_encoding` → decoded with the target -/
theorem change_from_text (src tgt : List Nat) (hs : src.all (fun b => !isLower b) = true)
    (ht : tgt.all (fun b => !isLower b) = true) (s : Bytes) (d d' : List Nat)
    (he : specEncode src s = some d) (hc : changeEncoding src tgt d = some d') :
    specDecode tgt d' = some (s.map toUpper) := by
  obtain ⟨text, h1, h2⟩ := change_encoding_same_text src tgt hs ht d d' hc
  rw [spec_decode_encode src hs s d he] at h1
  rw [h2, ← Option.some.inj h1]


/-- **C06.retargetText_sound** — the function the driver runs for re-targeting: whenever it returns, the text read with
the target alphabet is the (upper-cased) text that was encoded with the source alphabet — it never silently yields
other letters. -/
theorem retargetText_sound (src tgt : List Nat) (hno : src.all (fun b => !isLower b) = true) (s t : Bytes)
    (h : retargetText src tgt s = some t) : t = s.map toUpper := by
  unfold retargetText at h
  cases he : specEncode src s with
  | none => rw [he] at h; cases h
  | some d =>
    rw [he] at h
    simp only [Option.bind_some] at h
    cases hr : retargetFull src tgt d with
    | none => rw [hr] at h; cases h
    | some d' =>
      rw [hr] at h
      simp only [Option.bind_some] at h
      rw [retarget_from_text src tgt hno s d d' he hr] at h
      exact (Option.some.inj h).symm

/-- **C06.changeText_sound** — the same for `change_encoding` -/
theorem changeText_sound (src tgt : List Nat) (hs : src.all (fun b => !isLower b) = true)
    (ht : tgt.all (fun b => !isLower b) = true) (s t : Bytes) (h : changeText src tgt s = some t) : t = s.map toUpper := by
  unfold changeText at h
  cases he : specEncode src s with
  | none => rw [he] at h; cases h
  | some d =>
    rw [he] at h
    simp only [Option.bind_some] at h
    cases hc : changeEncoding src tgt d with
    | none => rw [hc] at h; cases h
    | some d' =>
      rw [hc] at h
      simp only [Option.bind_some] at h
      rw [change_from_text src tgt hs ht s d d' he hc] at h
      exact (Option.some.inj h).symm

/-- ragged: rows keep their lengths and their (upper-cased) text -/
theorem retargetRows_sound (src tgt : List Nat) (hno : src.all (fun b => !isLower b) = true) (rows out : List Bytes)
    (h : retargetRows src tgt rows = some out) : out = rows.map (·.map toUpper) := by
  unfold retargetRows at h
  cases ht : retargetText src tgt rows.flatten with
  | none => rw [ht] at h; cases h
  | some t =>
    rw [ht] at h
    have := retargetText_sound src tgt hno _ t ht
    subst this
    simp only [Option.map_some, Option.some.injEq] at h
    rw [← h]
    have hm : rows.flatten.map toUpper = (rows.map (·.map toUpper)).flatten := by simp [List.map_flatten]
    have hl : rows.map List.length = (rows.map (·.map toUpper)).map List.length := by simp [List.map_map, Function.comp_def]
    rw [hm, hl]
    exact unflatten_flatten _

/-! ### codes wider than a byte (text handed over as int16 … int64 code arrays) -/

/-- **C06.wide_code_rejected** — the lookup is by the code itself: a code that does not fit a byte is refused whatever
its low byte is (the table has exactly 256 entries, generated and checked every run by `tableOK`). A lookup that wraps
the code modulo 256 (seeded change C06-x3: `np.take(..., mode='wrap')`) accepts `256 + 'A'` as `A`; the model and
this theorem do not. -/
theorem wide_code_rejected (E : Enc) (h : tableOK E = true) (b : Nat) (hb : 256 ≤ b) : encByte E b = none := by
  unfold tableOK at h
  simp only [Bool.and_eq_true, beq_iff_eq] at h
  have hlen : E.encT.length = 256 := h.1.1.1.1
  unfold encByte
  rw [List.getElem?_eq_none (by omega)]
  rfl

/-- **C06.wide_text_rejected** — a text holding any code ≥ 256 is refused as a whole -/
theorem wide_text_rejected (E : Enc) (h : tableOK E = true) (s : Bytes) (hs : ∃ b ∈ s, 256 ≤ b) : encode E s = none := by
  obtain ⟨b, hb, hge⟩ := hs
  unfold encode
  cases hm : omap (encByte E) s with
  | none => rfl
  | some r =>
    have := (omap_isSome_iff (encByte E) s).mp (by rw [hm]; rfl) b hb
    rw [wide_code_rejected E h b hge] at this
    simp at this

/-- non-vacuity on a generated table: `256 + 'A'` (321) in the middle of `GA?TACA` -/
example : tableOK Gen.C06.ACGTEncoding = true ∧ encode Gen.C06.ACGTEncoding [71, 65, 321, 84, 65, 67, 65] = none ∧
    encode Gen.C06.ACGTEncoding [71, 65, 65, 84, 65, 67, 65] = some [2, 0, 0, 3, 0, 1, 0] := by decide +kernel

theorem omap_append' {α β} (f : α → Option β) (a b : List α) :
    omap f (a ++ b) = (omap f a).bind (fun x => (omap f b).map (x ++ ·)) := by
  induction a with
  | nil => cases h : omap f b <;> simp [h]
  | cons x xs ih =>
    simp only [List.cons_append, omap, ih]
    cases hx : f x <;> cases hxs : omap f xs <;> cases hb : omap f b <;> simp

/-- **C06.encode_append** — encoding is local: the codes of a concatenated text are the codes of its parts,
concatenated, and the concatenation is refused exactly when a part is (so encoding row by row, chunk by chunk
or as one flat array gives the same codes). -/
theorem encode_append (E : Enc) (a b : Bytes) :
    encode E (a ++ b) = (encode E a).bind (fun x => (encode E b).map (x ++ ·)) := omap_append' _ a b

/-- the same for decoding -/
theorem decode_append (E : Enc) (a b : List Nat) :
    decode E (a ++ b) = (decode E a).bind (fun x => (decode E b).map (x ++ ·)) := omap_append' _ a b

/-- **C06.encode_flatten** — rows: encoding the flattened rows succeeds exactly when every row encodes, and gives the flattened row codes -/
theorem encode_flatten (E : Enc) : ∀ (rows : List Bytes),
    encode E rows.flatten = (omap (encode E) rows).map List.flatten := by
  intro rows
  induction rows with
  | nil => rfl
  | cons r rs ih =>
    simp only [List.flatten_cons, encode_append, ih, omap]
    cases hr : encode E r <;> cases hrs : omap (encode E) rs <;> simp

/-- non-vacuity on a concrete table: "AC" ++ "gT" -/
example : specEncode [65, 67, 71, 84] ([65, 67] ++ [103, 84]) = some ([0, 1] ++ [2, 3]) := by decide

end C06
