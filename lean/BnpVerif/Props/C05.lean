import BnpVerif.Props.C05Core
import BnpVerif.Props.C05Laws
import BnpVerif.Props.C05More
/-! C05 property theorems: `C05Core` (bisimulation lazy three-store table ~ eager column table, step and program theorems,
canonical-bytes equality, refutations of the shipped concatenate / __setattr__, the tie of the buffer abstraction to C04) and
`C05Laws` (the model's notions pinned by standard list facts; algebraic laws), `C05More` (untouched tables stay untouched and
write the source bytes under every program; `Lazy.index` / `concatNew` over the C04 extractor; chunked = whole read; the size
guard is necessary). Audited theorems: `Audit/C05.lean`. -/
