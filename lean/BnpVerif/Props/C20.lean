import BnpVerif.Model.C20
import BnpVerif.Gen.C20
/-! C20 property theorems (heap model). The general frame theorem `frame` is proved for ALL programs
that pass the static check `safe`, all heaps and all argument bindings; the anchored routines are
instances. All statements are about the MODEL: the view/copy tags of the NumPy steps are assumptions
(`*_partial` in the names of the property-level statements records exactly this gap); the real
decision is taken by the snapshot registry of `harness/props/c20.py`. -/
namespace C20

/-! ### environment and heap lemmas -/

theorem Env.get_set_same (e : Env) (v : Nat) (r : Ref) : (e.set v r).get v = some r := by
  induction e generalizing v with
  | nil =>
    induction v with
    | zero => rfl
    | succ v ih => simpa [Env.set, Env.get] using ih
  | cons x e ih =>
    cases v with
    | zero => rfl
    | succ v => simpa [Env.set, Env.get] using ih v

theorem Env.get_set_other (e : Env) (v w : Nat) (r : Ref) (h : w ≠ v) : (e.set v r).get w = e.get w := by
  induction e generalizing v w with
  | nil =>
    induction v generalizing w with
    | zero =>
      cases w with
      | zero => exact absurd rfl h
      | succ w => simp [Env.set, Env.get]
    | succ v ih =>
      cases w with
      | zero => simp [Env.set, Env.get]
      | succ w =>
        have := ih w (by omega)
        simpa [Env.set, Env.get] using this
  | cons x e ih =>
    cases v with
    | zero =>
      cases w with
      | zero => exact absurd rfl h
      | succ w => simp [Env.set, Env.get]
    | succ v =>
      cases w with
      | zero => simp [Env.set, Env.get]
      | succ w =>
        have := ih v w (by omega)
        simpa [Env.set, Env.get] using this

theorem updateBuf_length (h : Heap) (i : Nat) (f : Buf → Buf) : (updateBuf h i f).length = h.length := by
  induction h generalizing i with
  | nil => rfl
  | cons b h ih => cases i <;> simp [updateBuf, ih]

theorem updateBuf_take (h : Heap) (i n : Nat) (f : Buf → Buf) (hn : n ≤ i) :
    (updateBuf h i f).take n = h.take n := by
  induction h generalizing i n with
  | nil => rfl
  | cons b h ih =>
    cases i with
    | zero => have : n = 0 := by omega
              subst this; rfl
    | succ i =>
      cases n with
      | zero => rfl
      | succ n => simp [updateBuf, ih i n (by omega)]

theorem updateBuf_get_other (h : Heap) (i j : Nat) (f : Buf → Buf) (hj : j ≠ i) :
    (updateBuf h i f)[j]? = h[j]? := by
  induction h generalizing i j with
  | nil => rfl
  | cons b h ih =>
    cases i with
    | zero =>
      cases j with
      | zero => exact absurd rfl hj
      | succ j => simp [updateBuf]
    | succ i =>
      cases j with
      | zero => simp [updateBuf]
      | succ j => simpa [updateBuf] using ih i j (by omega)

theorem writeRef_take (h : Heap) (r : Ref) (vals : Bytes) (n : Nat) (hn : n ≤ r.buf) :
    (writeRef h r vals).take n = h.take n := updateBuf_take h r.buf n _ hn

theorem writeRef_length (h : Heap) (r : Ref) (vals : Bytes) : (writeRef h r vals).length = h.length :=
  updateBuf_length h r.buf _

theorem take_append_one (h : Heap) (b : Buf) (n : Nat) (hn : n ≤ h.length) : (h ++ [b]).take n = h.take n := by
  rw [List.take_append_of_le_length hn]

/-! ### the general frame theorem -/

/-- run-time meaning of the static `fresh` set: the caller's buffers (the first `n0`) are intact and every
variable in `fresh` points into a buffer allocated later -/
structure Inv (h0 : Heap) (fresh : List Nat) (s : State) : Prop where
  pre : s.heap.take h0.length = h0
  len : h0.length ≤ s.heap.length
  fr : ∀ v ∈ fresh, ∀ r, s.env.get v = some r → h0.length ≤ r.buf

theorem step_inv (h0 : Heap) (st : Step) (p : List Step) (fresh : List Nat) (s s' : State)
    (hs : safe (st :: p) fresh = true) (inv : Inv h0 fresh s) (hst : step s st = some s') :
    ∃ fresh', safe p fresh' = true ∧ Inv h0 fresh' s' := by
  cases st with
  | alloc dst srcs f =>
    simp only [step, Option.some.injEq] at hst
    subst hst
    refine ⟨dst :: fresh, by simpa [safe] using hs, ?_, ?_, ?_⟩
    · simp only; rw [take_append_one _ _ _ inv.len]; exact inv.pre
    · simp only [List.length_append, List.length_singleton]; have := inv.len; omega
    · intro v hv r hr
      by_cases hvd : v = dst
      · subst hvd
        simp only [Env.get_set_same, Option.some.injEq] at hr
        subst hr; exact inv.len
      · rw [Env.get_set_other _ _ _ _ hvd] at hr
        rcases List.mem_cons.mp hv with h | h
        · exact absurd h hvd
        · exact inv.fr v h r hr
  | view dst src sel =>
    simp only [step] at hst
    split at hst
    · cases hst
    · rename_i r hr
      simp only [Option.some.injEq] at hst
      subst hst
      simp only [safe] at hs
      by_cases hsrc : fresh.contains src = true
      · rw [if_pos hsrc] at hs
        refine ⟨dst :: fresh, hs, inv.pre, inv.len, ?_⟩
        intro v hv r' hr'
        by_cases hvd : v = dst
        · subst hvd
          simp only [Env.get_set_same, Option.some.injEq] at hr'
          subst hr'
          exact inv.fr src (by simpa using hsrc) r hr
        · rw [Env.get_set_other _ _ _ _ hvd] at hr'
          rcases List.mem_cons.mp hv with h | h
          · exact absurd h hvd
          · exact inv.fr v h r' hr'
      · rw [if_neg hsrc] at hs
        refine ⟨fresh.filter (· != dst), hs, inv.pre, inv.len, ?_⟩
        intro v hv r' hr'
        simp only [List.mem_filter, bne_iff_ne, ne_eq] at hv
        rw [Env.get_set_other _ _ _ _ hv.2] at hr'
        exact inv.fr v hv.1 r' hr'
  | write v srcs f =>
    simp only [step] at hst
    split at hst
    · cases hst
    · rename_i r hr
      split at hst
      · simp only [Option.some.injEq] at hst
        subst hst
        simp only [safe, Bool.and_eq_true] at hs
        have hb := inv.fr v (by simpa using hs.1) r hr
        exact ⟨fresh, hs.2, by simp only; rw [writeRef_take _ _ _ _ hb]; exact inv.pre,
               by simp only; rw [writeRef_length]; exact inv.len, inv.fr⟩
      · cases hst
  | tryWrite v srcs f =>
    simp only [step] at hst
    split at hst
    · cases hst
    · rename_i r hr
      simp only [safe, Bool.and_eq_true] at hs
      have hb := inv.fr v (by simpa using hs.1) r hr
      split at hst
      · simp only [Option.some.injEq] at hst
        subst hst
        exact ⟨fresh, hs.2, by simp only; rw [writeRef_take _ _ _ _ hb]; exact inv.pre,
               by simp only; rw [writeRef_length]; exact inv.len, inv.fr⟩
      · simp only [Option.some.injEq] at hst
        subst hst
        refine ⟨fresh, hs.2, ?_, ?_, ?_⟩
        · simp only
          rw [writeRef_take _ _ _ _ (by exact inv.len), take_append_one _ _ _ inv.len]; exact inv.pre
        · simp only [writeRef_length, List.length_append, List.length_singleton]; have := inv.len; omega
        · intro w hw r' hr'
          by_cases hwv : w = v
          · subst hwv
            simp only [Env.get_set_same, Option.some.injEq] at hr'
            subst hr'; exact inv.len
          · rw [Env.get_set_other _ _ _ _ hwv] at hr'
            exact inv.fr w hw r' hr'

theorem run_inv (h0 : Heap) (p : List Step) : ∀ (fresh : List Nat) (s s' : State),
    safe p fresh = true → Inv h0 fresh s → run p s = some s' → s'.heap.take h0.length = h0 := by
  induction p with
  | nil => intro fresh s s' _ inv hr; simp only [run, Option.some.injEq] at hr; subst hr; exact inv.pre
  | cons st p ih =>
    intro fresh s s' hs inv hr
    simp only [run] at hr
    split at hr
    · cases hr
    · rename_i s1 hs1
      obtain ⟨fresh', hs', inv'⟩ := step_inv h0 st p fresh s s1 hs inv hs1
      exact ih fresh' s1 s' hs' inv' hr

/-- **general frame theorem** (heap model): a routine all of whose in-place writes go through references
into buffers it allocated itself leaves EVERY buffer that existed before the call byte-for-byte
unchanged — for every heap, every argument binding (aliased or not, writable or not) and every value
function. -/
theorem frame (p : List Step) (hs : safe p [] = true) (h : Heap) (env : Env) (s' : State)
    (hr : run p { heap := h, env := env } = some s') : s'.heap.take h.length = h :=
  run_inv h p [] _ s' hs ⟨by simp, Nat.le_refl _, by intro v hv; cases hv⟩ hr

/-- read-only buffers (chunks obtained with `np.frombuffer`) are never changed by ANY program,
safe or not: an in-place write to them raises, and `tryWrite` copies first -/
theorem frame_readonly (p : List Step) : ∀ (s s' : State) (b : Nat) (buf : Buf),
    s.heap[b]? = some buf → buf.writable = false → run p s = some s' → s'.heap[b]? = some buf := by
  induction p with
  | nil => intro s s' b buf hb _ hr; simp only [run, Option.some.injEq] at hr; subst hr; exact hb
  | cons st p ih =>
    intro s s' b buf hb hw hr
    simp only [run] at hr
    split at hr
    · cases hr
    · rename_i s1 hs1
      refine ih s1 s' b buf ?_ hw hr
      have hblt : b < s.heap.length := by
        rcases Nat.lt_or_ge b s.heap.length with h | h
        · exact h
        · rw [List.getElem?_eq_none h] at hb; cases hb
      cases st with
      | alloc dst srcs f =>
        simp only [step, Option.some.injEq] at hs1; subst hs1
        simp only; rw [List.getElem?_append_left hblt]; exact hb
      | view dst src sel =>
        simp only [step] at hs1
        split at hs1
        · cases hs1
        · simp only [Option.some.injEq] at hs1; subst hs1; exact hb
      | write v srcs f =>
        simp only [step] at hs1
        split at hs1
        · cases hs1
        · rename_i r hr'
          split at hs1
          · rename_i hwr
            simp only [Option.some.injEq] at hs1; subst hs1
            simp only [writeRef]
            by_cases hbr : b = r.buf
            · subst hbr
              simp [isWritable, hb, hw] at hwr
            · rw [updateBuf_get_other _ _ _ _ hbr]; exact hb
          · cases hs1
      | tryWrite v srcs f =>
        simp only [step] at hs1
        split at hs1
        · cases hs1
        · rename_i r hr'
          split at hs1
          · rename_i hwr
            simp only [Option.some.injEq] at hs1; subst hs1
            simp only [writeRef]
            by_cases hbr : b = r.buf
            · subst hbr
              simp [isWritable, hb, hw] at hwr
            · rw [updateBuf_get_other _ _ _ _ hbr]; exact hb
          · simp only [Option.some.injEq] at hs1; subst hs1
            simp only [writeRef]
            rw [updateBuf_get_other _ _ _ _ (by omega), List.getElem?_append_left hblt]; exact hb

/-! ### the anchored routines -/

/-- `str_to_int`: the sign characters are zeroed on a private copy; no caller buffer changes -/
theorem frame_str_to_int (value : List Bytes → Bytes) (h : Heap) (env : Env) (s' : State)
    (hr : run (strToInt value) { heap := h, env := env } = some s') : s'.heap.take h.length = h :=
  frame _ rfl h env s' hr

/-- without the leading `.copy()` the same routine writes the caller's text: "-12" becomes "012" -/
theorem strToIntNoCopy_unsound :
    safe (strToIntNoCopy (fun _ => [])) [] = false ∧
    (run (strToIntNoCopy (fun _ => [])) { heap := [⟨[45, 49, 50], true⟩, ⟨[3], true⟩], env := [some ⟨0, [0, 1, 2]⟩, some ⟨1, [0]⟩] }).map (fun s => s.heap.take 2)
      = some [⟨[48, 49, 50], true⟩, ⟨[3], true⟩] := by decide

/-- `str_to_float`: `-` and `.` are zeroed on the rows obtained by boolean indexing (a copy) -/
theorem frame_str_to_float (selRows value : List Bytes → Bytes) (zeroDots : Bytes → List Bytes → Bytes)
    (h : Heap) (env : Env) (s' : State)
    (hr : run (strToFloat selRows value zeroDots) { heap := h, env := env } = some s') :
    s'.heap.take h.length = h :=
  frame _ rfl h env s' hr

/-- the private `_decimal_str_to_float` on the caller's own array does write it (so every public path
must keep its boolean-index copy) -/
theorem decimalStrToFloatDirect_unsound :
    safe (decimalStrToFloatDirect (fun _ => []) (fun c _ => c)) [] = false ∧
    (run (decimalStrToFloatDirect (fun _ => []) (fun c _ => c.map (fun x => if x == 46 then 48 else x)))
        { heap := [⟨[45, 49, 46, 53], true⟩, ⟨[4], true⟩], env := [some ⟨0, [0, 1, 2, 3]⟩, some ⟨1, [0]⟩] }).map
        (fun s => s.heap.take 1)
      = some [⟨[48, 49, 48, 53], true⟩] := by decide

/-- list-valued columns: the separator is written into the gathered field text, never into the file buffer -/
theorem frame_parse_split_fields (gather value : List Bytes → Bytes) (putSep : Bytes → List Bytes → Bytes)
    (h : Heap) (env : Env) (s' : State)
    (hr : run (parseSplitFields gather value putSep) { heap := h, env := env } = some s') :
    s'.heap.take h.length = h :=
  frame _ rfl h env s' hr

/-- `_parse_split_fields` on a VIEW of the file buffer: a writable buffer gets the separator written into
it ("5,6\t" becomes "5,6,"), a read-only buffer is saved by the `except ValueError: copy` fallback -/
theorem parseSplitFieldsOnView_unsound :
    let prog := parseSplitFieldsOnView (fun _ => [0, 1, 2, 3]) (fun _ => [])
                  (fun c _ => c.take (c.length - 1) ++ [44])
    let env : Env := [some ⟨0, [0, 1, 2, 3, 4]⟩, some ⟨1, [4]⟩]
    (run prog { heap := [⟨[53, 44, 54, 9, 55], true⟩, ⟨[4], true⟩], env := env }).map (fun s => s.heap.take 1)
      = some [⟨[53, 44, 54, 44, 55], true⟩] ∧
    (run prog { heap := [⟨[53, 44, 54, 9, 55], false⟩, ⟨[4], true⟩], env := env }).map (fun s => s.heap.take 1)
      = some [⟨[53, 44, 54, 9, 55], false⟩] := by decide

/-- genotype columns of file chunks: whatever is written is written into the gathered column text only
(shipped and repaired code alike) -/
theorem frame_genotype (old : Bool) (gather pick : List Bytes → Bytes) (h : Heap) (env : Env) (s' : State)
    (hr : run (genotypePreprocess old gather pick) { heap := h, env := env } = some s') :
    s'.heap.take h.length = h := by
  cases old
  · exact frame _ rfl h env s' hr
  · exact frame _ rfl h env s' hr

/-- the public `GenotypeRowEncoding.encode` on the caller's own array (repaired code): nothing is written -/
theorem frame_genotype_encode (pick : List Bytes → Bytes) (h : Heap) (env : Env) (s' : State)
    (hr : run (genotypeEncode pick) { heap := h, env := env } = some s') : s'.heap.take h.length = h :=
  frame _ rfl h env s' hr

/-- the shipped `encode` rewrote the caller's text: "0/1\n" became "0/1\t" (recorded refutation) -/
theorem genotypeEncodeOld_unsound :
    safe (genotypeEncodeOld (fun _ => [])) [] = false ∧
    (run (genotypeEncodeOld (fun _ => [])) { heap := [⟨[48, 47, 49, 10], true⟩], env := [some ⟨0, [0, 1, 2, 3]⟩] }).map
        (fun s => s.heap.take 1)
      = some [⟨[48, 47, 49, 9], true⟩] := by decide

/-- `merge_intervals`: `stops += distance` and `new.stop -= distance` hit arrays the routine made itself -/
theorem frame_merge (acc mask pickStart pickStop : List Bytes → Bytes) (addD subD : Bytes → List Bytes → Bytes)
    (h : Heap) (env : Env) (s' : State)
    (hr : run (mergeIntervals acc mask pickStart pickStop addD subD) { heap := h, env := env } = some s') :
    s'.heap.take h.length = h :=
  frame _ rfl h env s' hr

/-- accumulating into the argument instead would overwrite the caller's stop column -/
theorem mergeIntervalsInPlace_unsound :
    (run (mergeIntervalsInPlace (fun a => (a.headD []).map (· + 0)) (fun _ => []) (fun _ => []) (fun _ => [])
            (fun c _ => c.map (· + 5)) (fun c _ => c))
        { heap := [⟨[1, 2], true⟩, ⟨[9, 4], true⟩], env := [some ⟨0, [0, 1]⟩, some ⟨1, [0, 1]⟩] }).map
        (fun s => s.heap.take 2)
      = some [⟨[1, 2], true⟩, ⟨[14, 9], true⟩] := by decide

/-- `bincount_reduce(a, b)` writes its first argument (documented accumulator of the stream reduction) … -/
theorem bincountReduce_writes_argument :
    (run (bincountReduce (fun c a => (c.zip (a.headD [])).map (fun p => p.1 + p.2)))
        { heap := [⟨[1, 2, 3], true⟩, ⟨[10, 10, 10], true⟩], env := [some ⟨0, [0, 1, 2]⟩, some ⟨1, [0, 1, 2]⟩] }).map
        (fun s => s.heap.take 2)
      = some [⟨[11, 12, 13], true⟩, ⟨[10, 10, 10], true⟩] := by decide

/-- … but inside `bnp.bincount(stream)` it only ever writes the per-chunk counts it computed itself -/
theorem frame_bincount_stream (count : List Bytes → Bytes) (add : Bytes → List Bytes → Bytes)
    (h : Heap) (env : Env) (s' : State)
    (hr : run (bincountStream count add) { heap := h, env := env } = some s') :
    s'.heap.take h.length = h :=
  frame _ rfl h env s' hr

/-- PARTIAL (gap: the buffers allocated by the first call are discarded instead of being carried along
under renaming; NumPy address reuse is outside the model): a second call with the same arguments on the
heap left by the first call behaves exactly like the first, hence returns equal results. -/
theorem idempotent_partial (p : List Step) (hs : safe p [] = true) (h : Heap) (env : Env) (s1 : State)
    (hr : run p { heap := h, env := env } = some s1) :
    run p { heap := s1.heap.take h.length, env := env } = some s1 := by
  rw [frame p hs h env s1 hr]; exact hr

/-! ### Gen obligation: the modelled write sites, probed on the running code this run -/

/-- every probed site leaves its argument unchanged on the running code (so the `frame_*` instances,
not the `*_unsound` variants, are the programs that describe the code as it is now) -/
theorem gen_sites_clean : Gen.C20.sitesClean.all (·.2) = true := by decide

theorem gen_sites_names : Gen.C20.sitesClean.map (·.1) =
    ["str_to_int", "str_to_float", "str_to_float_plain", "str_to_float_with_missing", "list_column", "list_column_gz_chunks",
     "GenotypeRowEncoding.encode", "PhasedGenotypeRowEncoding.encode", "genotype_column", "merge_intervals"] := by decide

/-! ### non-vacuity: the programs do run, and do write (into their own buffers) -/

example : (run (strToInt (fun a => [digitsValue ((a.headD []).take 3)]))
    { heap := [⟨[45, 49, 50], true⟩, ⟨[3], true⟩], env := [some ⟨0, [0, 1, 2]⟩, some ⟨1, [0]⟩] }).map (·.heap)
    = some [⟨[45, 49, 50], true⟩, ⟨[3], true⟩, ⟨[48, 49, 50], true⟩, ⟨[12], true⟩] := by decide
example : safe (mergeIntervals (fun _ => []) (fun _ => []) (fun _ => []) (fun _ => []) (fun c _ => c) (fun c _ => c)) [] = true := rfl
example : safe (bincountReduce (fun c _ => c)) [] = false := rfl
example : mergeCols [1, 3, 10] [5, 4, 12] = ([1, 10], [5, 12]) := by decide

end C20
