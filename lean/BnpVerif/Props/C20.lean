import BnpVerif.Model.C20
import BnpVerif.Gen.C20
/-! C20 property theorems (heap model). The general frame theorem `frame` is proved for ALL programs
that pass the static check `safe`, all heaps and all argument bindings; the anchored routines are
instances. All statements are about the MODEL: the view/copy tags of the NumPy steps are assumptions
(`*_partial` in the names of the property-level statements records exactly this gap); the real
decision is taken by the snapshot registry of `harness/props/c20.py`. -/
namespace C20

/-! ### environment and heap lemmas -/

theorem Env.get_set_same (e : Env) (v : Nat) (r : Ref) : (e.set v r).get v = some r := by
  induction e generalizing v with
  | nil =>
    induction v with
    | zero => rfl
    | succ v ih => simpa [Env.set, Env.get] using ih
  | cons x e ih =>
    cases v with
    | zero => rfl
    | succ v => simpa [Env.set, Env.get] using ih v

theorem Env.get_set_other (e : Env) (v w : Nat) (r : Ref) (h : w ≠ v) : (e.set v r).get w = e.get w := by
  induction e generalizing v w with
  | nil =>
    induction v generalizing w with
    | zero =>
      cases w with
      | zero => exact absurd rfl h
      | succ w => simp [Env.set, Env.get]
    | succ v ih =>
      cases w with
      | zero => simp [Env.set, Env.get]
      | succ w =>
        have := ih w (by omega)
        simpa [Env.set, Env.get] using this
  | cons x e ih =>
    cases v with
    | zero =>
      cases w with
      | zero => exact absurd rfl h
      | succ w => simp [Env.set, Env.get]
    | succ v =>
      cases w with
      | zero => simp [Env.set, Env.get]
      | succ w =>
        have := ih v w (by omega)
        simpa [Env.set, Env.get] using this

theorem updateBuf_length (h : Heap) (i : Nat) (f : Buf → Buf) : (updateBuf h i f).length = h.length := by
  induction h generalizing i with
  | nil => rfl
  | cons b h ih => cases i <;> simp [updateBuf, ih]

theorem updateBuf_take (h : Heap) (i n : Nat) (f : Buf → Buf) (hn : n ≤ i) :
    (updateBuf h i f).take n = h.take n := by
  induction h generalizing i n with
  | nil => rfl
  | cons b h ih =>
    cases i with
    | zero => have : n = 0 := by omega
              subst this; rfl
    | succ i =>
      cases n with
      | zero => rfl
      | succ n => simp [updateBuf, ih i n (by omega)]

theorem updateBuf_get_other (h : Heap) (i j : Nat) (f : Buf → Buf) (hj : j ≠ i) :
    (updateBuf h i f)[j]? = h[j]? := by
  induction h generalizing i j with
  | nil => rfl
  | cons b h ih =>
    cases i with
    | zero =>
      cases j with
      | zero => exact absurd rfl hj
      | succ j => simp [updateBuf]
    | succ i =>
      cases j with
      | zero => simp [updateBuf]
      | succ j => simpa [updateBuf] using ih i j (by omega)

theorem writeRef_take (h : Heap) (r : Ref) (vals : Bytes) (n : Nat) (hn : n ≤ r.buf) :
    (writeRef h r vals).take n = h.take n := updateBuf_take h r.buf n _ hn

theorem writeRef_length (h : Heap) (r : Ref) (vals : Bytes) : (writeRef h r vals).length = h.length :=
  updateBuf_length h r.buf _

theorem take_append_one (h : Heap) (b : Buf) (n : Nat) (hn : n ≤ h.length) : (h ++ [b]).take n = h.take n := by
  rw [List.take_append_of_le_length hn]

/-! ### the general frame theorem -/

/-- run-time meaning of the static `fresh` set: the caller's buffers (the first `n0`) are intact and every
variable in `fresh` points into a buffer allocated later -/
structure Inv (h0 : Heap) (fresh : List Nat) (s : State) : Prop where
  pre : s.heap.take h0.length = h0
  len : h0.length ≤ s.heap.length
  fr : ∀ v ∈ fresh, ∀ r, s.env.get v = some r → h0.length ≤ r.buf

/-- how one step changes the set of variables known to live in the routine's own buffers (the bookkeeping of `safe`) -/
def stepFresh : Step → List Nat → List Nat
  | .alloc dst _ _, fresh => dst :: fresh
  | .view dst src _, fresh => if fresh.contains src then dst :: fresh else fresh.filter (· != dst)
  | .write _ _ _, fresh => fresh
  | .tryWrite _ _ _, fresh => fresh

theorem step_inv_fresh (h0 : Heap) (st : Step) (p : List Step) (fresh : List Nat) (s s' : State)
    (hs : safe (st :: p) fresh = true) (inv : Inv h0 fresh s) (hst : step s st = some s') :
    safe p (stepFresh st fresh) = true ∧ Inv h0 (stepFresh st fresh) s' := by
  cases st with
  | alloc dst srcs f =>
    simp only [step, Option.some.injEq] at hst
    subst hst
    refine ⟨by simpa [safe, stepFresh] using hs, ?_, ?_, ?_⟩
    · simp only; rw [take_append_one _ _ _ inv.len]; exact inv.pre
    · simp only [List.length_append, List.length_singleton]; have := inv.len; omega
    · intro v hv r hr
      by_cases hvd : v = dst
      · subst hvd
        simp only [Env.get_set_same, Option.some.injEq] at hr
        subst hr; exact inv.len
      · rw [Env.get_set_other _ _ _ _ hvd] at hr
        rcases List.mem_cons.mp hv with h | h
        · exact absurd h hvd
        · exact inv.fr v h r hr
  | view dst src sel =>
    simp only [step] at hst
    split at hst
    · cases hst
    · rename_i r hr
      simp only [Option.some.injEq] at hst
      subst hst
      simp only [safe] at hs
      by_cases hsrc : fresh.contains src = true
      · rw [if_pos hsrc] at hs
        simp only [stepFresh, if_pos hsrc]
        refine ⟨hs, inv.pre, inv.len, ?_⟩
        intro v hv r' hr'
        by_cases hvd : v = dst
        · subst hvd
          simp only [Env.get_set_same, Option.some.injEq] at hr'
          subst hr'
          exact inv.fr src (by simpa using hsrc) r hr
        · rw [Env.get_set_other _ _ _ _ hvd] at hr'
          rcases List.mem_cons.mp hv with h | h
          · exact absurd h hvd
          · exact inv.fr v h r' hr'
      · rw [if_neg hsrc] at hs
        simp only [stepFresh, if_neg hsrc]
        refine ⟨hs, inv.pre, inv.len, ?_⟩
        intro v hv r' hr'
        simp only [List.mem_filter, bne_iff_ne, ne_eq] at hv
        rw [Env.get_set_other _ _ _ _ hv.2] at hr'
        exact inv.fr v hv.1 r' hr'
  | write v srcs f =>
    simp only [step] at hst
    split at hst
    · cases hst
    · rename_i r hr
      split at hst
      · simp only [Option.some.injEq] at hst
        subst hst
        simp only [safe, Bool.and_eq_true] at hs
        have hb := inv.fr v (by simpa using hs.1) r hr
        exact ⟨hs.2, by simp only; rw [writeRef_take _ _ _ _ hb]; exact inv.pre,
               by simp only; rw [writeRef_length]; exact inv.len, inv.fr⟩
      · cases hst
  | tryWrite v srcs f =>
    simp only [step] at hst
    split at hst
    · cases hst
    · rename_i r hr
      simp only [safe, Bool.and_eq_true] at hs
      have hb := inv.fr v (by simpa using hs.1) r hr
      split at hst
      · simp only [Option.some.injEq] at hst
        subst hst
        exact ⟨hs.2, by simp only; rw [writeRef_take _ _ _ _ hb]; exact inv.pre,
               by simp only; rw [writeRef_length]; exact inv.len, inv.fr⟩
      · simp only [Option.some.injEq] at hst
        subst hst
        refine ⟨hs.2, ?_, ?_, ?_⟩
        · simp only
          rw [writeRef_take _ _ _ _ (by exact inv.len), take_append_one _ _ _ inv.len]; exact inv.pre
        · simp only [writeRef_length, List.length_append, List.length_singleton]; have := inv.len; omega
        · intro w hw r' hr'
          by_cases hwv : w = v
          · subst hwv
            simp only [Env.get_set_same, Option.some.injEq] at hr'
            subst hr'; exact inv.len
          · rw [Env.get_set_other _ _ _ _ hwv] at hr'
            exact inv.fr w hw r' hr'

theorem step_inv (h0 : Heap) (st : Step) (p : List Step) (fresh : List Nat) (s s' : State)
    (hs : safe (st :: p) fresh = true) (inv : Inv h0 fresh s) (hst : step s st = some s') :
    ∃ fresh', safe p fresh' = true ∧ Inv h0 fresh' s' :=
  ⟨_, step_inv_fresh h0 st p fresh s s' hs inv hst⟩

theorem run_inv (h0 : Heap) (p : List Step) : ∀ (fresh : List Nat) (s s' : State),
    safe p fresh = true → Inv h0 fresh s → run p s = some s' → s'.heap.take h0.length = h0 := by
  induction p with
  | nil => intro fresh s s' _ inv hr; simp only [run, Option.some.injEq] at hr; subst hr; exact inv.pre
  | cons st p ih =>
    intro fresh s s' hs inv hr
    simp only [run] at hr
    split at hr
    · cases hr
    · rename_i s1 hs1
      obtain ⟨fresh', hs', inv'⟩ := step_inv h0 st p fresh s s1 hs inv hs1
      exact ih fresh' s1 s' hs' inv' hr

/-- **general frame theorem** (heap model): a routine all of whose in-place writes go through references
into buffers it allocated itself leaves EVERY buffer that existed before the call byte-for-byte
unchanged — for every heap, every argument binding (aliased or not, writable or not) and every value
function. -/
theorem frame (p : List Step) (hs : safe p [] = true) (h : Heap) (env : Env) (s' : State)
    (hr : run p { heap := h, env := env } = some s') : s'.heap.take h.length = h :=
  run_inv h p [] _ s' hs ⟨by simp, Nat.le_refl _, by intro v hv; cases hv⟩ hr

/-- read-only buffers (chunks obtained with `np.frombuffer`) are never changed by ANY program,
safe or not: an in-place write to them raises, and `tryWrite` copies first -/
theorem frame_readonly (p : List Step) : ∀ (s s' : State) (b : Nat) (buf : Buf),
    s.heap[b]? = some buf → buf.writable = false → run p s = some s' → s'.heap[b]? = some buf := by
  induction p with
  | nil => intro s s' b buf hb _ hr; simp only [run, Option.some.injEq] at hr; subst hr; exact hb
  | cons st p ih =>
    intro s s' b buf hb hw hr
    simp only [run] at hr
    split at hr
    · cases hr
    · rename_i s1 hs1
      refine ih s1 s' b buf ?_ hw hr
      have hblt : b < s.heap.length := by
        rcases Nat.lt_or_ge b s.heap.length with h | h
        · exact h
        · rw [List.getElem?_eq_none h] at hb; cases hb
      cases st with
      | alloc dst srcs f =>
        simp only [step, Option.some.injEq] at hs1; subst hs1
        simp only; rw [List.getElem?_append_left hblt]; exact hb
      | view dst src sel =>
        simp only [step] at hs1
        split at hs1
        · cases hs1
        · simp only [Option.some.injEq] at hs1; subst hs1; exact hb
      | write v srcs f =>
        simp only [step] at hs1
        split at hs1
        · cases hs1
        · rename_i r hr'
          split at hs1
          · rename_i hwr
            simp only [Option.some.injEq] at hs1; subst hs1
            simp only [writeRef]
            by_cases hbr : b = r.buf
            · subst hbr
              simp [isWritable, hb, hw] at hwr
            · rw [updateBuf_get_other _ _ _ _ hbr]; exact hb
          · cases hs1
      | tryWrite v srcs f =>
        simp only [step] at hs1
        split at hs1
        · cases hs1
        · rename_i r hr'
          split at hs1
          · rename_i hwr
            simp only [Option.some.injEq] at hs1; subst hs1
            simp only [writeRef]
            by_cases hbr : b = r.buf
            · subst hbr
              simp [isWritable, hb, hw] at hwr
            · rw [updateBuf_get_other _ _ _ _ hbr]; exact hb
          · simp only [Option.some.injEq] at hs1; subst hs1
            simp only [writeRef]
            rw [updateBuf_get_other _ _ _ _ (by omega), List.getElem?_append_left hblt]; exact hb

/-! ### the anchored routines

The `*_model` theorems below are `frame` applied to the hand-written programs of `Model/C20.lean`: they certify that a routine
WITH THESE view/copy TAGS writes only its own buffers. That the tags are the library's (and NumPy's) behaviour is a separate
obligation: every tag used by a program is listed in `modelTags` and compared with `Gen.C20.stepAliasing`, which is measured
on the running code with `np.shares_memory` on every run (`gen_tags_match`). -/

/-- `str_to_int`: the sign characters are zeroed on a private copy; no caller buffer changes -/
theorem frame_str_to_int_model (value : List Bytes → Bytes) (h : Heap) (env : Env) (s' : State)
    (hr : run (strToInt value) { heap := h, env := env } = some s') : s'.heap.take h.length = h :=
  frame _ rfl h env s' hr

/-- without the leading `.copy()` the same routine writes the caller's text: "-12" becomes "012" -/
theorem strToIntNoCopy_unsound :
    safe (strToIntNoCopy (fun _ => [])) [] = false ∧
    (run (strToIntNoCopy (fun _ => [])) { heap := [⟨[45, 49, 50], true⟩, ⟨[3], true⟩], env := [some ⟨0, [0, 1, 2]⟩, some ⟨1, [0]⟩] }).map (fun s => s.heap.take 2)
      = some [⟨[48, 49, 50], true⟩, ⟨[3], true⟩] := by decide

/-- `str_to_float`: `-` and `.` are zeroed on the rows obtained by boolean indexing (a copy) -/
theorem frame_str_to_float_model (selRows value : List Bytes → Bytes) (zeroDots : Bytes → List Bytes → Bytes)
    (h : Heap) (env : Env) (s' : State)
    (hr : run (strToFloat selRows value zeroDots) { heap := h, env := env } = some s') :
    s'.heap.take h.length = h :=
  frame _ rfl h env s' hr

/-- the private `_decimal_str_to_float` on the caller's own array does write it (so every public path
must keep its boolean-index copy) -/
theorem decimalStrToFloatDirect_unsound :
    safe (decimalStrToFloatDirect (fun _ => []) (fun c _ => c)) [] = false ∧
    (run (decimalStrToFloatDirect (fun _ => []) (fun c _ => c.map (fun x => if x == 46 then 48 else x)))
        { heap := [⟨[45, 49, 46, 53], true⟩, ⟨[4], true⟩], env := [some ⟨0, [0, 1, 2, 3]⟩, some ⟨1, [0]⟩] }).map
        (fun s => s.heap.take 1)
      = some [⟨[48, 49, 48, 53], true⟩] := by decide

/-! #### ILLUSTRATION (not audited, not evidence for the property): what `safe` rejects

The two programs below model code that does NOT exist in the package: a hypothetical patch (accept an upper-case exponent marker by
lower-casing it in place on the caller's array) and its hypothetical repair (the same on a private copy). `safe` is only ever applied
to hand-written `Step` programs, so a real patch of this kind is caught by the RESPELT correspondence cases of
`harness/props/c20.py`, not by anything here; the examples only show which shape of routine the static check refuses. -/

/-- (illustration, hypothetical code) `str_to_float` made to accept ANOTHER SPELLING of the exponent marker ("1E-5") by lower-casing it IN PLACE on what
`as_encoded_array(number_text)` returned — for an already encoded argument that is the caller's own array — before the
rows are selected (a plausible "accept what other tools write" patch). var 0 = text, var 1 = lengths -/
def strToFloatFoldExponentInPlace (selRows value : List Bytes → Bytes) (zeroDots : Bytes → List Bytes → Bytes) : List Step :=
  [ .view 2 0 (fun c => List.range c.length),                     -- as_encoded_array(x) of an encoded x: x itself
    .write 2 [] (fun cur _ => cur.map (fun x => if x == 69 then 101 else x)),   -- number_text[number_text == "E"] = "e"
    .alloc 3 [2, 1] selRows,
    .write 3 [1] (fun cur a => zeroSigns cur (a.headD [])),
    .write 3 [1] zeroDots,
    .alloc 4 [3, 1, 2] value ]

/-- (illustration) the same acceptance done on a private copy (`number_text = number_text.copy()` first) -/
def strToFloatFoldExponentOnCopy (selRows value : List Bytes → Bytes) (zeroDots : Bytes → List Bytes → Bytes) : List Step :=
  [ .alloc 2 [0] (fun a => a.headD []),                           -- .copy()
    .write 2 [] (fun cur _ => cur.map (fun x => if x == 69 then 101 else x)),
    .alloc 3 [2, 1] selRows,
    .write 3 [1] (fun cur a => zeroSigns cur (a.headD [])),
    .write 3 [1] zeroDots,
    .alloc 4 [3, 1, 2] value ]

/-- (illustration) a call that used to raise on "1E3" now succeeds — and leaves "1e3" in the caller's text: the static check rejects the
program; the run shows the changed buffer; where a LATER step raises the text has been rewritten all the same -/
example :
    let prog := strToFloatFoldExponentInPlace (fun a => a.headD []) (fun _ => []) (fun c _ => c)
    safe prog [] = false ∧
    (run prog { heap := [⟨[49, 69, 51], true⟩, ⟨[3], true⟩], env := [some ⟨0, [0, 1, 2]⟩, some ⟨1, [0]⟩] }).map
        (fun s => s.heap.take 1) = some [⟨[49, 101, 51], true⟩] ∧
    run (prog ++ [.view 9 8 (fun _ => [])]) { heap := [⟨[49, 69, 51], true⟩, ⟨[3], true⟩], env := [some ⟨0, [0, 1, 2]⟩, some ⟨1, [0]⟩] } = none ∧
    ((runUntil (prog ++ [.view 9 8 (fun _ => [])]) { heap := [⟨[49, 69, 51], true⟩, ⟨[3], true⟩], env := [some ⟨0, [0, 1, 2]⟩, some ⟨1, [0]⟩] }).heap.take 1)
      = [⟨[49, 101, 51], true⟩] := by decide

/-- (illustration) the variant on a private copy passes `safe`, so `frame` applies to it -/
example (selRows value : List Bytes → Bytes) (zeroDots : Bytes → List Bytes → Bytes) (h : Heap) (env : Env) (s' : State)
    (hr : run (strToFloatFoldExponentOnCopy selRows value zeroDots) { heap := h, env := env } = some s') :
    s'.heap.take h.length = h :=
  frame _ rfl h env s' hr

/-- list-valued columns: the separator is written into the gathered field text, never into the file buffer -/
theorem frame_parse_split_fields_model (gather value : List Bytes → Bytes) (putSep : Bytes → List Bytes → Bytes)
    (h : Heap) (env : Env) (s' : State)
    (hr : run (parseSplitFields gather value putSep) { heap := h, env := env } = some s') :
    s'.heap.take h.length = h :=
  frame _ rfl h env s' hr

/-- `_parse_split_fields` on a VIEW of the file buffer: a writable buffer gets the separator written into
it ("5,6\t" becomes "5,6,"), a read-only buffer is saved by the `except ValueError: copy` fallback -/
theorem parseSplitFieldsOnView_unsound :
    let prog := parseSplitFieldsOnView (fun _ => [0, 1, 2, 3]) (fun _ => [])
                  (fun c _ => c.take (c.length - 1) ++ [44])
    let env : Env := [some ⟨0, [0, 1, 2, 3, 4]⟩, some ⟨1, [4]⟩]
    (run prog { heap := [⟨[53, 44, 54, 9, 55], true⟩, ⟨[4], true⟩], env := env }).map (fun s => s.heap.take 1)
      = some [⟨[53, 44, 54, 44, 55], true⟩] ∧
    (run prog { heap := [⟨[53, 44, 54, 9, 55], false⟩, ⟨[4], true⟩], env := env }).map (fun s => s.heap.take 1)
      = some [⟨[53, 44, 54, 9, 55], false⟩] := by decide

/-- genotype columns of file chunks: whatever is written is written into the gathered column text only
(shipped and repaired code alike) -/
theorem frame_genotype_model (old : Bool) (gather pick : List Bytes → Bytes) (h : Heap) (env : Env) (s' : State)
    (hr : run (genotypePreprocess old gather pick) { heap := h, env := env } = some s') :
    s'.heap.take h.length = h := by
  cases old
  · exact frame _ rfl h env s' hr
  · exact frame _ rfl h env s' hr

/-- the public `GenotypeRowEncoding.encode` on the caller's own array (repaired code): nothing is written -/
theorem frame_genotype_encode_model (pick : List Bytes → Bytes) (h : Heap) (env : Env) (s' : State)
    (hr : run (genotypeEncode pick) { heap := h, env := env } = some s') : s'.heap.take h.length = h :=
  frame _ rfl h env s' hr

/-- the shipped `encode` rewrote the caller's text: "0/1\n" became "0/1\t" (recorded refutation) -/
theorem genotypeEncodeOld_unsound :
    safe (genotypeEncodeOld (fun _ => [])) [] = false ∧
    (run (genotypeEncodeOld (fun _ => [])) { heap := [⟨[48, 47, 49, 10], true⟩], env := [some ⟨0, [0, 1, 2, 3]⟩] }).map
        (fun s => s.heap.take 1)
      = some [⟨[48, 47, 49, 9], true⟩] := by decide

/-- `merge_intervals`: `stops += distance` and `new.stop -= distance` hit arrays the routine made itself -/
theorem frame_merge_model (acc mask pickStart pickStop : List Bytes → Bytes) (addD subD : Bytes → List Bytes → Bytes)
    (h : Heap) (env : Env) (s' : State)
    (hr : run (mergeIntervals acc mask pickStart pickStop addD subD) { heap := h, env := env } = some s') :
    s'.heap.take h.length = h :=
  frame _ rfl h env s' hr

/-- accumulating into the argument instead would overwrite the caller's stop column -/
theorem mergeIntervalsInPlace_unsound :
    (run (mergeIntervalsInPlace (fun a => (a.headD []).map (· + 0)) (fun _ => []) (fun _ => []) (fun _ => [])
            (fun c _ => c.map (· + 5)) (fun c _ => c))
        { heap := [⟨[1, 2], true⟩, ⟨[9, 4], true⟩], env := [some ⟨0, [0, 1]⟩, some ⟨1, [0, 1]⟩] }).map
        (fun s => s.heap.take 2)
      = some [⟨[1, 2], true⟩, ⟨[14, 9], true⟩] := by decide

/-- `bincount_reduce(a, b)` writes its first argument (documented accumulator of the stream reduction) … -/
theorem bincountReduce_writes_argument :
    (run (bincountReduce (fun c a => (c.zip (a.headD [])).map (fun p => p.1 + p.2)))
        { heap := [⟨[1, 2, 3], true⟩, ⟨[10, 10, 10], true⟩], env := [some ⟨0, [0, 1, 2]⟩, some ⟨1, [0, 1, 2]⟩] }).map
        (fun s => s.heap.take 2)
      = some [⟨[11, 12, 13], true⟩, ⟨[10, 10, 10], true⟩] := by decide

/-- … but inside `bnp.bincount(stream)` it only ever writes the per-chunk counts it computed itself -/
theorem frame_bincount_stream_model (count : List Bytes → Bytes) (add : Bytes → List Bytes → Bytes)
    (h : Heap) (env : Env) (s' : State)
    (hr : run (bincountStream count add) { heap := h, env := env } = some s') :
    s'.heap.take h.length = h :=
  frame _ rfl h env s' hr

/-- PARTIAL (gap: the buffers allocated by the first call are discarded instead of being carried along
under renaming; NumPy address reuse is outside the model): a second call with the same arguments on the
heap left by the first call behaves exactly like the first, hence returns equal results. -/
theorem idempotent_partial (p : List Step) (hs : safe p [] = true) (h : Heap) (env : Env) (s1 : State)
    (hr : run p { heap := h, env := env } = some s1) :
    run p { heap := s1.heap.take h.length, env := env } = some s1 := by
  rw [frame p hs h env s1 hr]; exact hr

/-! ### idempotence in full: the garbage of the first call is carried along (simulation under renaming) -/

/-- buffer ids when `g` foreign buffers sit between the caller's `n` buffers and the routine's own allocations -/
def shiftBuf (n g b : Nat) : Nat := if b < n then b else b + g
def shiftRef (n g : Nat) (r : Ref) : Ref := { r with buf := shiftBuf n g r.buf }
def shiftEnv (n g : Nat) (e : Env) : Env := e.map (Option.map (shiftRef n g))

/-- the two runs are in step: same caller buffers `a`, same own buffers `e`, the second run additionally carries the
untouched foreign buffers `G`; references differ by the renaming only -/
def Sim (n : Nat) (G : Heap) (s1 s2 : State) : Prop :=
  ∃ a e, a.length = n ∧ s1.heap = a ++ e ∧ s2.heap = a ++ (G ++ e) ∧ s2.env = shiftEnv n G.length s1.env

theorem getElem?_shift (a G e : Heap) (b : Nat) :
    (a ++ (G ++ e))[shiftBuf a.length G.length b]? = (a ++ e)[b]? := by
  unfold shiftBuf
  by_cases hb : b < a.length
  · rw [if_pos hb, List.getElem?_append_left hb, List.getElem?_append_left hb]
  · rw [if_neg hb, List.getElem?_append_right (by omega), List.getElem?_append_right (by omega),
      List.getElem?_append_right (by omega)]
    congr 1; omega

theorem read_shift (a G e : Heap) (r : Ref) :
    read (a ++ (G ++ e)) (shiftRef a.length G.length r) = read (a ++ e) r := by
  simp only [read, shiftRef, getElem?_shift]

theorem isWritable_shift (a G e : Heap) (r : Ref) :
    isWritable (a ++ (G ++ e)) (shiftRef a.length G.length r) = isWritable (a ++ e) r := by
  simp only [isWritable, shiftRef, getElem?_shift]

theorem Env.get_shift (n g : Nat) (e : Env) (v : Nat) : (shiftEnv n g e).get v = (e.get v).map (shiftRef n g) := by
  simp only [Env.get, shiftEnv, List.getElem?_map]
  cases e[v]? with
  | none => rfl
  | some o => cases o <;> rfl

theorem readAll_shift (a G e : Heap) (env : Env) (vs : List Nat) :
    readAll (a ++ (G ++ e)) (shiftEnv a.length G.length env) vs = readAll (a ++ e) env vs := by
  unfold readAll
  apply List.map_congr_left
  intro v _
  rw [Env.get_shift]
  cases env.get v with
  | none => rfl
  | some r => simp [read_shift]

theorem Env.set_shift (n g : Nat) (e : Env) (v : Nat) (r : Ref) :
    shiftEnv n g (e.set v r) = (shiftEnv n g e).set v (shiftRef n g r) := by
  induction e generalizing v with
  | nil =>
    induction v with
    | zero => rfl
    | succ v ih => simpa [Env.set, shiftEnv] using ih
  | cons x e ih =>
    cases v with
    | zero => simp [Env.set, shiftEnv]
    | succ v => simpa [Env.set, shiftEnv] using ih v

theorem updateBuf_append (x y : Heap) (b : Nat) (f : Buf → Buf) :
    updateBuf (x ++ y) b f = if b < x.length then updateBuf x b f ++ y else x ++ updateBuf y (b - x.length) f := by
  induction x generalizing b with
  | nil => simp
  | cons c x ih =>
    cases b with
    | zero => simp [updateBuf]
    | succ b =>
      simp only [List.cons_append, updateBuf, ih, List.length_cons, Nat.add_lt_add_iff_right, Nat.add_sub_add_right]
      split <;> rfl

/-- an in-place write hits corresponding buffers in both runs -/
theorem writeRef_shift (a G e : Heap) (r : Ref) (vals : Bytes) :
    ∃ a' e', a'.length = a.length ∧ writeRef (a ++ e) r vals = a' ++ e' ∧
      writeRef (a ++ (G ++ e)) (shiftRef a.length G.length r) vals = a' ++ (G ++ e') := by
  simp only [writeRef, shiftRef, shiftBuf]
  generalize (fun (b : Buf) => ({ b with data := writeData b.data r.idx vals } : Buf)) = F
  by_cases hb : r.buf < a.length
  · refine ⟨updateBuf a r.buf F, e, updateBuf_length _ _ _, ?_, ?_⟩
    · rw [updateBuf_append, if_pos hb]
    · rw [if_pos hb, updateBuf_append, if_pos hb]
  · refine ⟨a, updateBuf e (r.buf - a.length) F, rfl, ?_, ?_⟩
    · rw [updateBuf_append, if_neg hb]
    · rw [if_neg hb, updateBuf_append, if_neg (by omega), updateBuf_append, if_neg (by omega)]
      congr 3; omega

theorem step_sim (n : Nat) (G : Heap) (st : Step) (s1 s2 s1' : State) (hsim : Sim n G s1 s2)
    (h1 : step s1 st = some s1') : ∃ s2', step s2 st = some s2' ∧ Sim n G s1' s2' := by
  obtain ⟨a, e, ha, hh1, hh2, henv⟩ := hsim
  obtain ⟨heap1, env1⟩ := s1
  obtain ⟨heap2, env2⟩ := s2
  simp only at hh1 hh2 henv
  subst ha hh1 hh2 henv
  cases st with
  | alloc dst srcs f =>
    simp only [step, Option.some.injEq] at h1 ⊢
    subst h1
    refine ⟨_, rfl, a, e ++ [{ data := f (readAll (a ++ e) env1 srcs), writable := true }], rfl, by simp, ?_, ?_⟩
    · simp only [readAll_shift]; simp
    · simp only [readAll_shift, Env.set_shift]
      congr 1
      simp only [shiftRef, shiftBuf, List.length_append]
      rw [if_neg (by omega)]
      congr 1; omega
  | view dst src sel =>
    simp only [step] at h1 ⊢
    cases hg : Env.get env1 src with
    | none => simp only [hg] at h1; cases h1
    | some r =>
      simp only [hg, Option.some.injEq] at h1
      subst h1
      simp only [Env.get_shift, hg, Option.map_some, read_shift]
      refine ⟨_, rfl, a, e, rfl, rfl, rfl, ?_⟩
      simp only [Env.set_shift]
      rfl
  | write v srcs f =>
    simp only [step] at h1 ⊢
    cases hg : Env.get env1 v with
    | none => simp only [hg] at h1; cases h1
    | some r =>
      simp only [hg] at h1
      simp only [Env.get_shift, hg, Option.map_some, isWritable_shift, read_shift, readAll_shift]
      by_cases hw : isWritable (a ++ e) r = true
      · simp only [hw, if_true, Option.some.injEq] at h1 ⊢
        subst h1
        obtain ⟨a', e', hl, hw1, hw2⟩ := writeRef_shift a G e r (f (read (a ++ e) r) (readAll (a ++ e) env1 srcs))
        exact ⟨_, rfl, a', e', hl, hw1, hw2, rfl⟩
      · simp only [hw, Bool.false_eq_true, if_false] at h1
        cases h1
  | tryWrite v srcs f =>
    simp only [step] at h1 ⊢
    cases hg : Env.get env1 v with
    | none => simp only [hg] at h1; cases h1
    | some r =>
      simp only [hg] at h1
      simp only [Env.get_shift, hg, Option.map_some, isWritable_shift, read_shift, readAll_shift]
      by_cases hw : isWritable (a ++ e) r = true
      · simp only [hw, if_true, Option.some.injEq] at h1 ⊢
        subst h1
        obtain ⟨a', e', hl, hw1, hw2⟩ := writeRef_shift a G e r (f (read (a ++ e) r) (readAll (a ++ e) env1 srcs))
        exact ⟨_, rfl, a', e', hl, hw1, hw2, rfl⟩
      · simp only [hw, Bool.false_eq_true, if_false, Option.some.injEq] at h1 ⊢
        subst h1
        -- the private copy is appended in both runs and written there
        have hr' : (⟨(a ++ (G ++ e)).length, List.range (read (a ++ e) r).length⟩ : Ref)
            = shiftRef a.length G.length ⟨(a ++ e).length, List.range (read (a ++ e) r).length⟩ := by
          simp only [shiftRef, shiftBuf, List.length_append]
          rw [if_neg (by omega)]
          congr 1; omega
        obtain ⟨a', e', hl, hw1, hw2⟩ := writeRef_shift a G (e ++ [{ data := read (a ++ e) r, writable := true }])
          ⟨(a ++ e).length, List.range (read (a ++ e) r).length⟩ (f (read (a ++ e) r) (readAll (a ++ e) env1 srcs))
        refine ⟨_, rfl, a', e', hl, ?_, ?_, ?_⟩
        · simp only [← hw1, List.append_assoc]
        · simp only [hr', ← hw2, List.append_assoc]
        · simp only [hr', Env.set_shift]

theorem run_sim (n : Nat) (G : Heap) (p : List Step) : ∀ (s1 s2 s1' : State), Sim n G s1 s2 → run p s1 = some s1' →
    ∃ s2', run p s2 = some s2' ∧ Sim n G s1' s2' := by
  induction p with
  | nil => intro s1 s2 s1' hsim h; simp only [run, Option.some.injEq] at h; subst h; exact ⟨s2, rfl, hsim⟩
  | cons st p ih =>
    intro s1 s2 s1' hsim h
    simp only [run] at h
    split at h
    · cases h
    · rename_i sm hsm
      obtain ⟨sm2, hst2, hsim2⟩ := step_sim n G st s1 s2 sm hsim hsm
      obtain ⟨s2', hr2, hsim'⟩ := ih sm sm2 s1' hsim2 h
      exact ⟨s2', by simp only [run, hst2, hr2], hsim'⟩

/-- every variable reads the same in two runs that are in step -/
theorem sim_reads (n : Nat) (G : Heap) (s1 s2 : State) (hsim : Sim n G s1 s2) (v : Nat) :
    (s2.env.get v).map (read s2.heap) = (s1.env.get v).map (read s1.heap) := by
  obtain ⟨a, e, ha, hh1, hh2, henv⟩ := hsim
  subst ha
  rw [henv, Env.get_shift, hh1, hh2]
  cases s1.env.get v with
  | none => rfl
  | some r => simp [read_shift]

/-- **idempotence** (no truncation): after a call of a routine that writes only into its own buffers, a SECOND call with
the same argument bindings — on the heap the first call left behind, results and temporaries of the first call
included — succeeds and every variable (the result in particular) reads exactly as after the first call.
`henv`: the arguments refer to buffers that exist. -/
theorem idempotent (p : List Step) (hs : safe p [] = true) (h : Heap) (env : Env) (s1 : State)
    (hr : run p { heap := h, env := env } = some s1) (henv : ∀ v r, env.get v = some r → r.buf < h.length) :
    ∃ s2, run p { heap := s1.heap, env := env } = some s2 ∧
      ∀ v, (s2.env.get v).map (read s2.heap) = (s1.env.get v).map (read s1.heap) := by
  have hf := frame p hs h env s1 hr
  obtain ⟨G, hG⟩ : ∃ G, s1.heap = h ++ G := ⟨s1.heap.drop h.length, by
    conv => lhs; rw [← List.take_append_drop h.length s1.heap, hf]⟩
  have henv' : shiftEnv h.length G.length env = env := by
    unfold shiftEnv
    apply List.ext_getElem?
    intro i
    rw [List.getElem?_map]
    cases hi : env[i]? with
    | none => rfl
    | some o =>
      cases o with
      | none => rfl
      | some r =>
        have := henv i r (by simp [Env.get, hi])
        simp [shiftRef, shiftBuf, this]
  have hsim : Sim h.length G { heap := h, env := env } { heap := s1.heap, env := env } :=
    ⟨h, [], rfl, by simp, by simp [hG], henv'.symm⟩
  obtain ⟨s2, hr2, hsim2⟩ := run_sim h.length G p _ _ s1 hsim hr
  exact ⟨s2, hr2, sim_reads h.length G s1 s2 hsim2⟩

/-! ### the heap primitives obey the standard get/set laws (so `read`/`writeRef` are not right only by definition) -/

theorem setAt_length (d : Bytes) (i v : Nat) : (setAt d i v).length = d.length := by
  induction d generalizing i with
  | nil => rfl
  | cons x xs ih => cases i <;> simp [setAt, ih]

theorem setAt_getElem? (d : Bytes) (i v j : Nat) :
    (setAt d i v)[j]? = if j = i ∧ i < d.length then some v else d[j]? := by
  induction d generalizing i j with
  | nil => simp [setAt]
  | cons x xs ih =>
    cases i with
    | zero => cases j <;> simp [setAt]
    | succ i =>
      cases j with
      | zero => simp [setAt]
      | succ j => simp [setAt, ih]

theorem writeData_length (d : Bytes) (idx : List Nat) (vals : Bytes) : (writeData d idx vals).length = d.length := by
  induction idx generalizing d vals with
  | nil => cases vals <;> rfl
  | cons i is ih =>
    cases vals with
    | nil => rfl
    | cons v vs => simp [writeData, ih, setAt_length]

/-- positions that are not written keep their value -/
theorem writeData_getElem?_not_mem (d : Bytes) (idx : List Nat) (vals : Bytes) (j : Nat) (hj : j ∉ idx) :
    (writeData d idx vals)[j]? = d[j]? := by
  induction idx generalizing d vals with
  | nil => cases vals <;> rfl
  | cons i is ih =>
    cases vals with
    | nil => rfl
    | cons v vs =>
      simp only [List.mem_cons, not_or] at hj
      simp only [writeData]
      rw [ih _ _ hj.2, setAt_getElem?, if_neg (fun h => hj.1 h.1)]

/-- get-after-set: position `idx[k]` holds `vals[k]` (distinct, in-range positions) -/
theorem writeData_getElem?_mem (d : Bytes) (idx : List Nat) (vals : Bytes) (hnd : idx.Nodup)
    (hin : ∀ i ∈ idx, i < d.length) (hl : vals.length = idx.length) (k : Nat) (hk : k < idx.length) :
    (writeData d idx vals)[idx[k]]? = vals[k]? := by
  induction idx generalizing d vals k with
  | nil => simp at hk
  | cons i is ih =>
    cases vals with
    | nil => simp at hl
    | cons v vs =>
      simp only [List.nodup_cons] at hnd
      simp only [writeData]
      cases k with
      | zero =>
        simp only [List.getElem_cons_zero, List.getElem?_cons_zero]
        rw [writeData_getElem?_not_mem _ _ _ _ hnd.1, setAt_getElem?, if_pos ⟨rfl, hin i (by simp)⟩]
      | succ k =>
        simp only [List.getElem_cons_succ, List.getElem?_cons_succ]
        exact ih (setAt d i v) vs hnd.2 (fun j hj => by rw [setAt_length]; exact hin j (by simp [hj]))
          (by simpa using hl) k (by simpa using hk)

theorem updateBuf_getElem?_same (h : Heap) (i : Nat) (f : Buf → Buf) : (updateBuf h i f)[i]? = (h[i]?).map f := by
  induction h generalizing i with
  | nil => rfl
  | cons b h ih => cases i <;> simp [updateBuf, ih]

/-- **get-after-set**: what is written through a reference is read back through it -/
theorem read_writeRef_same (h : Heap) (r : Ref) (vals : Bytes) (b : Buf) (hb : h[r.buf]? = some b) (hnd : r.idx.Nodup)
    (hin : ∀ i ∈ r.idx, i < b.data.length) (hl : vals.length = r.idx.length) : read (writeRef h r vals) r = vals := by
  apply List.ext_getElem?
  intro k
  simp only [read, writeRef, updateBuf_getElem?_same, hb, Option.map_some, List.getElem?_map]
  by_cases hk : k < r.idx.length
  · rw [List.getElem?_eq_getElem hk]
    simp only [Option.map_some, Option.join_some]
    rw [writeData_getElem?_mem _ _ _ hnd hin hl k hk]
    cases hv : vals[k]? with
    | none => rw [List.getElem?_eq_none_iff] at hv; omega
    | some x => rfl
  · rw [List.getElem?_eq_none (by omega), List.getElem?_eq_none (by omega)]; rfl

/-- a write through one buffer is invisible through references into any other buffer -/
theorem read_writeRef_other (h : Heap) (r r' : Ref) (vals : Bytes) (hne : r'.buf ≠ r.buf) :
    read (writeRef h r vals) r' = read h r' := by
  simp only [read, writeRef, updateBuf_get_other _ _ _ _ hne]

theorem read_append_left (h x : Heap) (r : Ref) (hr : r.buf < h.length) : read (h ++ x) r = read h r := by
  simp only [read, List.getElem?_append_left hr]

/-- a freshly allocated array reads as the values it was created from -/
theorem read_new (h : Heap) (vals : Bytes) :
    read (h ++ [{ data := vals, writable := true }]) { buf := h.length, idx := List.range vals.length } = vals := by
  apply List.ext_getElem?
  intro k
  simp only [read, List.getElem?_map, List.getElem?_append_right (Nat.le_refl _), Nat.sub_self, List.getElem?_cons_zero,
    Option.map_some, Option.join_some]
  by_cases hk : k < vals.length
  · simp [List.getElem?_range hk, List.getElem?_eq_getElem hk]
  · rw [List.getElem?_eq_none (by simpa using hk), List.getElem?_eq_none (by omega)]; rfl

/-! ### fresh row selections (`col[1:4]`) and memoised columns: the two history-dependent classes -/

/-- an allocation binds its variable to a new writable buffer that reads as the computed values -/
theorem step_alloc_self (s : State) (dst : Nat) (srcs : List Nat) (f : List Bytes → Bytes) :
    ∃ s' r, step s (.alloc dst srcs f) = some s' ∧ s'.env.get dst = some r ∧ r.buf = s.heap.length ∧
      read s'.heap r = f (readAll s.heap s.env srcs) ∧ isWritable s'.heap r = true ∧
      s'.heap.length = s.heap.length + 1 ∧ s'.heap.take s.heap.length = s.heap ∧
      ∀ v, v ≠ dst → s'.env.get v = s.env.get v := by
  refine ⟨_, _, rfl, Env.get_set_same _ _ _, rfl, read_new _ _, by simp [isWritable], by simp, by simp, ?_⟩
  intro v hv
  exact Env.get_set_other _ _ _ _ hv

/-- references into existing buffers read the same after an allocation -/
theorem read_after_alloc (s s' : State) (dst : Nat) (srcs : List Nat) (f : List Bytes → Bytes) (r : Ref)
    (hs : step s (.alloc dst srcs f) = some s') (hb : r.buf < s.heap.length) : read s'.heap r = read s.heap r := by
  simp only [step, Option.some.injEq] at hs
  subst hs
  exact read_append_left _ _ _ hb

/-- an in-place write through `w` leaves every reference into another buffer reading the same, and rebinds nothing -/
theorem step_write_other (s : State) (w : Nat) (srcs : List Nat) (f : Bytes → List Bytes → Bytes) (rw : Ref)
    (hw : s.env.get w = some rw) (hwr : isWritable s.heap rw = true) :
    ∃ s', step s (.write w srcs f) = some s' ∧ s'.env = s.env ∧ s'.heap.length = s.heap.length ∧
      ∀ r : Ref, r.buf ≠ rw.buf → read s'.heap r = read s.heap r := by
  refine ⟨{ s with heap := writeRef s.heap rw (f (read s.heap rw) (readAll s.heap s.env srcs)) },
    by simp only [step, hw, hwr, if_true], rfl, writeRef_length _ _ _, ?_⟩
  intro r hne
  exact read_writeRef_other _ _ _ _ hne

/-- `str_to_int` on a fresh, view-shaped selection: no caller buffer changes AND the caller's selection object (which the call
materialises) still reads exactly what it read before -/
theorem frame_fresh_selection_model (value : List Bytes → Bytes) (h : Heap) (env : Env) (r0 : Ref) (s' : State)
    (h0 : env.get 0 = some r0) (hr : run (strToIntFresh value) { heap := h, env := env } = some s') :
    s'.heap.take h.length = h ∧ (s'.env.get 0).map (read s'.heap) = some (read h r0) := by
  refine ⟨frame _ rfl h env s' hr, ?_⟩
  obtain ⟨s1, rA, h1, g1, b1, rd1, _, l1, _, _⟩ := step_alloc_self { heap := h, env := env } 0 [0] (fun a => a.headD [])
  have rd1' : read s1.heap rA = read h r0 := by
    rw [rd1]; simp [readAll, h0]
  obtain ⟨s2, rB, h2, g2, b2, _, w2, l2, _, o2⟩ := step_alloc_self s1 2 [0] (fun a => a.headD [])
  have g2A : s2.env.get 0 = some rA := by rw [o2 0 (by decide)]; exact g1
  have rd2 : read s2.heap rA = read h r0 := by
    rw [read_after_alloc s1 s2 2 [0] _ rA h2 (by rw [b1, l1]; simp), rd1']
  obtain ⟨s3, h3, e3, l3, o3⟩ := step_write_other s2 2 [1] (fun cur a => zeroSigns cur (a.headD [])) rB g2 w2
  have rd3 : read s3.heap rA = read h r0 := by
    rw [o3 rA (by rw [b1, b2, l1]; simp), rd2]
  obtain ⟨s4, rC, h4, _, _, _, _, _, _, o4⟩ := step_alloc_self s3 3 [2, 1, 0] value
  have rd4 : read s4.heap rA = read h r0 := by
    rw [read_after_alloc s3 s4 3 _ _ rA h4 (by rw [l3, l2, b1, l1]; simp; omega), rd3]
  have g4 : s4.env.get 0 = some rA := by rw [o4 0 (by decide), e3]; exact g2A
  have hrun : run (strToIntFresh value) { heap := h, env := env } = some s4 := by
    simp only [strToIntFresh, run, h1, h2, h3, h4]
  rw [hrun] at hr
  cases hr
  rw [g4]; simp [rd4]

/-- if `copy()` returns the gathered data itself, the signs are zeroed in the caller's selection object:
a selection reading "-12" reads "012" after the call (and a second call parses 12 instead of -12) -/
theorem strToIntFreshAlias_unsound :
    (run (strToIntFreshAlias (fun _ => [])) { heap := [⟨[55, 45, 49, 50, 55], true⟩, ⟨[3], true⟩], env := [some ⟨0, [1, 2, 3]⟩, some ⟨1, [0]⟩] }).map (fun s => ((s.env.get 0).map (read s.heap), s.heap.take 1))
      = some (some [48, 49, 50], [⟨[55, 45, 49, 50, 55], true⟩]) := by decide

/-- VCF positions: `val -= 1` is applied to the freshly parsed column, never to a caller buffer -/
theorem frame_vcf_position_model (parse : List Bytes → Bytes) (h : Heap) (env : Env) (s' : State)
    (hr : run (vcfPosition parse) { heap := h, env := env } = some s') : s'.heap.take h.length = h :=
  frame _ rfl h env s' hr

/-- with a per-buffer memo of parsed columns the same `val -= 1` hits the memo: a stored POS 15 reads 14, then 13 -/
theorem vcfPositionMemo_unsound :
    safe vcfPositionMemo [] = false ∧
    (run vcfPositionMemo { heap := [⟨[0], true⟩, ⟨[15, 30], true⟩], env := [some ⟨0, [0]⟩, some ⟨1, [0, 1]⟩] }).map (·.heap)
      = some [⟨[0], true⟩, ⟨[14, 29], true⟩] ∧
    ((run vcfPositionMemo { heap := [⟨[0], true⟩, ⟨[15, 30], true⟩], env := [some ⟨0, [0]⟩, some ⟨1, [0, 1]⟩] }).bind
        (fun s => run vcfPositionMemo { heap := s.heap, env := [some ⟨0, [0]⟩, some ⟨1, [0, 1]⟩] })).map (·.heap)
      = some [⟨[0], true⟩, ⟨[13, 28], true⟩] := by decide

/-- corollary of `frame` in terms of what the caller can observe: every reference the caller holds into a buffer that
existed before the call reads the same afterwards -/
theorem frame_reads (p : List Step) (hs : safe p [] = true) (h : Heap) (env : Env) (s' : State)
    (hr : run p { heap := h, env := env } = some s') (r : Ref) (hb : r.buf < h.length) : read s'.heap r = read h r := by
  have hf := frame p hs h env s' hr
  have : s'.heap[r.buf]? = h[r.buf]? := by
    conv => rhs; rw [← hf]
    rw [List.getElem?_take]; simp [hb]
  simp only [read, this]

example : ∃ s2, run (strToInt (fun a => a.headD [])) { heap := [⟨[45, 49], true⟩, ⟨[2], true⟩, ⟨[48, 49], true⟩, ⟨[48, 49], true⟩], env := [some ⟨0, [0, 1]⟩, some ⟨1, [0]⟩] } = some s2 := ⟨_, rfl⟩

/-! ### calls that raise -/

theorem runUntil_inv (h0 : Heap) (p : List Step) : ∀ (fresh : List Nat) (s : State),
    safe p fresh = true → Inv h0 fresh s → (runUntil p s).heap.take h0.length = h0 := by
  induction p with
  | nil => intro fresh s _ inv; exact inv.pre
  | cons st p ih =>
    intro fresh s hs inv
    simp only [runUntil]
    cases hst : step s st with
    | none => exact inv.pre
    | some s1 =>
      obtain ⟨hs', inv'⟩ := step_inv_fresh h0 st p fresh s s1 hs inv hst
      exact ih _ s1 hs' inv'

/-- **also on the error path**: wherever a routine that writes only into its own buffers stops — at its end or at a step
that raises — every buffer that existed before the call is unchanged. A call that raises leaves its arguments alone. -/
theorem frame_on_error (p : List Step) (hs : safe p [] = true) (h : Heap) (env : Env) :
    (runUntil p { heap := h, env := env }).heap.take h.length = h :=
  runUntil_inv h p [] _ hs ⟨by simp, Nat.le_refl _, by intro v hv; cases hv⟩

/-- a routine that checks its precondition only AFTER writing the caller's array leaves the damage behind when it raises:
clip the stops into the argument, then fail on a read-only second argument -/
theorem writeThenRaise_unsound :
    let p : List Step := [.view 2 0 (fun c => List.range c.length), .write 2 [] (fun c _ => c.map (fun x => min x 20)), .write 1 [] (fun c _ => c)]
    run p { heap := [⟨[8, 7, 25], true⟩, ⟨[0], false⟩], env := [some ⟨0, [0, 1, 2]⟩, some ⟨1, [0]⟩] } = none ∧
    (runUntil p { heap := [⟨[8, 7, 25], true⟩, ⟨[0], false⟩], env := [some ⟨0, [0, 1, 2]⟩, some ⟨1, [0]⟩] }).heap
      = [⟨[8, 7, 20], true⟩, ⟨[0], false⟩] := by decide

/-! ### results are fresh; what a chunk writes is unchanged (corollaries) -/

/-- the variables the static check knows to live in buffers allocated by the routine, after the whole program -/
def freshAfter : List Step → List Nat → List Nat
  | [], fresh => fresh
  | st :: p, fresh => freshAfter p (stepFresh st fresh)

theorem run_inv_fresh (h0 : Heap) (p : List Step) : ∀ (fresh : List Nat) (s s' : State),
    safe p fresh = true → Inv h0 fresh s → run p s = some s' → Inv h0 (freshAfter p fresh) s' := by
  induction p with
  | nil => intro fresh s s' _ inv hr; simp only [run, Option.some.injEq] at hr; subst hr; exact inv
  | cons st p ih =>
    intro fresh s s' hs inv hr
    simp only [run] at hr
    split at hr
    · cases hr
    · rename_i s1 hs1
      obtain ⟨hs', inv'⟩ := step_inv_fresh h0 st p fresh s s1 hs inv hs1
      have : freshAfter (st :: p) fresh = freshAfter p (stepFresh st fresh) := by cases st <;> rfl
      rw [this]
      exact ih _ s1 s' hs' inv' hr

/-- **a result does not alias an argument**: every variable the routine leaves in one of its own buffers (in particular
a result produced by `alloc`, or a view of such a result) refers to a buffer that did not exist before the call — so nothing
the caller later writes through the result can reach a buffer the caller owned before -/
theorem result_fresh (p : List Step) (hs : safe p [] = true) (h : Heap) (env : Env) (s' : State)
    (hr : run p { heap := h, env := env } = some s') (v : Nat) (hv : v ∈ freshAfter p []) (r : Ref)
    (hg : s'.env.get v = some r) : h.length ≤ r.buf :=
  (run_inv_fresh h p [] _ s' hs ⟨by simp, Nat.le_refl _, by intro v hv; cases hv⟩ hr).fr v hv r hg

example : 3 ∈ freshAfter (strToInt (fun _ => [])) [] := by decide
example : 4 ∈ freshAfter (mergeIntervals (fun _ => []) (fun _ => []) (fun _ => []) (fun _ => []) (fun c _ => c) (fun c _ => c)) [] ∧
    5 ∈ freshAfter (mergeIntervals (fun _ => []) (fun _ => []) (fun _ => []) (fun _ => []) (fun c _ => c) (fun c _ => c)) [] := by decide

/-- the bytes a lazily read chunk writes are what its record references read in the file buffer -/
def writtenBytes (h : Heap) (records : List Ref) : Bytes := (records.map (read h)).flatten

/-- **field access does not change what a chunk writes**: after ANY routine that passes the static check (parsing a list
column, a genotype column, a VCF position, a number column, …) the chunk's records — references into buffers that existed
before — read, hence write, the same bytes -/
theorem written_bytes_unchanged (p : List Step) (hs : safe p [] = true) (h : Heap) (env : Env) (s' : State)
    (hr : run p { heap := h, env := env } = some s') (records : List Ref) (hb : ∀ r ∈ records, r.buf < h.length) :
    writtenBytes s'.heap records = writtenBytes h records := by
  unfold writtenBytes
  congr 1
  apply List.map_congr_left
  intro r hrm
  exact frame_reads p hs h env s' hr r (hb r hrm)

/-- Gen obligation: every view/copy tag a program of `Model/C20.lean` relies on is what `np.shares_memory` measures on
the running code this run (aliasing of the step's result with its source: true = view, false = fresh buffer) -/
theorem gen_tags_match : Gen.C20.stepAliasing = modelTags := by decide

/-! ### Gen obligation: the modelled write sites, probed on the running code this run -/

/-- every probed site leaves its argument unchanged on the running code (so the `frame_*` instances,
not the `*_unsound` variants, are the programs that describe the code as it is now) -/
theorem gen_sites_clean : Gen.C20.sitesClean.all (·.2) = true := by decide

theorem gen_sites_names : Gen.C20.sitesClean.map (·.1) =
    ["str_to_int", "str_to_float", "str_to_float_plain", "str_to_float_with_missing", "list_column", "list_column_gz_chunks",
     "single_list_column_no_final_newline", "single_float_list_column_gz_chunks", "GenotypeRowEncoding.encode", "PhasedGenotypeRowEncoding.encode", "genotype_column", "merge_intervals"] := by decide

/-! ### non-vacuity: the programs do run, and do write (into their own buffers) -/

example : (run (strToInt (fun a => [digitsValue ((a.headD []).take 3)]))
    { heap := [⟨[45, 49, 50], true⟩, ⟨[3], true⟩], env := [some ⟨0, [0, 1, 2]⟩, some ⟨1, [0]⟩] }).map (·.heap)
    = some [⟨[45, 49, 50], true⟩, ⟨[3], true⟩, ⟨[48, 49, 50], true⟩, ⟨[12], true⟩] := by decide
example : safe (mergeIntervals (fun _ => []) (fun _ => []) (fun _ => []) (fun _ => []) (fun c _ => c) (fun c _ => c)) [] = true := rfl
example : safe (bincountReduce (fun c _ => c)) [] = false := rfl
example : mergeCols [1, 3, 10] [5, 4, 12] = ([1, 10], [5, 12]) := by decide

end C20
