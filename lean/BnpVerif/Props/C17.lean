import BnpVerif.Model.C17
/-! C17 property theorems. Helper lemmas first; the property theorems are the ones listed in
`Audit/C17.lean`. -/
namespace C17

/-! ### wrapped layout -/

theorem wrap_nil (W : Nat) : wrapBytes W [] = [] := by
  rw [wrapBytes]; simp

theorem wrap_cons (W : Nat) (hW : 0 < W) (seq : Bytes) (hs : seq ≠ []) :
    wrapBytes W seq = seq.take W ++ 10 :: wrapBytes W (seq.drop W) := by
  rw [wrapBytes]
  have : ¬ (seq = [] ∨ W = 0) := by
    intro h; cases h with | inl h => exact hs h | inr h => omega
  simp [this]

theorem posOf_lt (W i : Nat) (h : i < W) : posOf W i = i := by
  unfold posOf
  rw [Nat.div_eq_of_lt h, Nat.mod_eq_of_lt h]; omega

theorem posOf_ge (W i : Nat) (hW : 0 < W) (h : W ≤ i) : posOf W i = (W + 1) + posOf W (i - W) := by
  unfold posOf
  obtain ⟨k, rfl⟩ : ∃ k, i = k + W := ⟨i - W, by omega⟩
  rw [Nat.add_sub_cancel, Nat.add_div_right _ hW, Nat.add_mod_right, Nat.succ_mul]
  omega

/-- **C17.layout** (bases): in the wrapped block, byte `posOf W i` is base `i` -/
theorem layout (W : Nat) (hW : 0 < W) (seq : Bytes) (i : Nat) (hi : i < seq.length) :
    (wrapBytes W seq)[posOf W i]? = seq[i]? := by
  induction hn : seq.length using Nat.strongRecOn generalizing seq i with
  | _ n ih =>
    have hs : seq ≠ [] := by intro h; subst h; simp at hi
    rw [wrap_cons W hW seq hs]
    by_cases hlt : i < W
    · rw [posOf_lt W i hlt, List.getElem?_append_left (by simp; omega)]
      rw [List.getElem?_take]; simp [hlt]
    · have hge : W ≤ i := by omega
      rw [posOf_ge W i hW hge]
      have hl : (seq.take W).length = W := by simp; omega
      rw [List.getElem?_append_right (by omega), hl]
      have : W + 1 + posOf W (i - W) - W = posOf W (i - W) + 1 := by omega
      rw [this, List.getElem?_cons_succ]
      rw [ih (seq.length - W) (by omega) (seq.drop W) (i - W) (by simp; omega) (by simp)]
      rw [List.getElem?_drop]
      congr 1; omega

/-- **C17.layout** (line breaks): the newline that ends line `j` sits right after its bases, at
`(j+1)(W+1) − 1` for a full line -/
theorem layout_newline (W : Nat) (hW : 0 < W) (seq : Bytes) (j : Nat) (hj : j * W < seq.length) :
    (wrapBytes W seq)[min ((j + 1) * W) seq.length + j]? = some 10 := by
  induction j generalizing seq with
  | zero =>
    have hs : seq ≠ [] := by intro h; subst h; simp at hj
    rw [wrap_cons W hW seq hs]
    have hl : (seq.take W).length = min W seq.length := by simp
    rw [List.getElem?_append_right (by simp), hl]
    simp
  | succ k ih =>
    have hs : seq ≠ [] := by intro h; subst h; simp at hj
    have hWL : W ≤ seq.length := by
      have : W ≤ (k + 1) * W := Nat.le_mul_of_pos_left W (by omega)
      omega
    rw [wrap_cons W hW seq hs]
    have hl : (seq.take W).length = W := by simp; omega
    have e1 : (k + 1 + 1) * W = (k + 1) * W + W := Nat.succ_mul _ _
    have e2 : (k + 1) * W = k * W + W := Nat.succ_mul _ _
    rw [List.getElem?_append_right (by rw [hl]; omega), hl]
    have hk := ih (seq.drop W) (by simp; omega)
    simp only [List.length_drop] at hk
    have : min ((k + 1 + 1) * W) seq.length + (k + 1) - W = (min ((k + 1) * W) (seq.length - W) + k) + 1 := by omega
    rw [this, List.getElem?_cons_succ, hk]

theorem wrap_short (W : Nat) (seq : Bytes) (h : seq.length ≤ W) (hs : seq ≠ []) :
    wrapBytes W seq = seq ++ [10] := by
  have hW : 0 < W := by
    cases seq with | nil => exact absurd rfl hs | cons _ _ => simp at h; omega
  rw [wrap_cons W hW seq hs, List.take_of_length_le h, List.drop_of_length_le h, wrap_nil]

/-- wrapping at `W` and at `min W L` give the same bytes -/
theorem wrap_min (W : Nat) (seq : Bytes) (hs : seq ≠ []) :
    wrapBytes W seq = wrapBytes (min W seq.length) seq := by
  by_cases h : seq.length ≤ W
  · rw [Nat.min_eq_right h, wrap_short W seq h hs, wrap_short seq.length seq (Nat.le_refl _) hs]
  · rw [Nat.min_eq_left (by omega)]



/-! ### np.delete -/

theorem delete_keep (idxs : List Nat) (i : Nat) (x y : Bytes)
    (h : ∀ k, i ≤ k → k < i + x.length → k ∉ idxs) :
    deleteIdxFrom idxs i (x ++ y) = x ++ deleteIdxFrom idxs (i + x.length) y := by
  induction x generalizing i with
  | nil => simp
  | cons c cs ih =>
    have hi : idxs.contains i = false := by
      have := h i (Nat.le_refl _) (by simp)
      simpa using this
    simp only [List.cons_append, deleteIdxFrom, hi, Bool.false_eq_true, if_false, List.length_cons]
    have h' : ∀ k, i + 1 ≤ k → k < i + 1 + cs.length → k ∉ idxs := by
      intro k hk1 hk2
      exact h k (by omega) (by rw [List.length_cons]; omega)
    rw [ih (i + 1) h']
    have : i + 1 + cs.length = i + (cs.length + 1) := by omega
    rw [this]

theorem delete_drop (idxs : List Nat) (i : Nat) (c : Nat) (y : Bytes) (h : i ∈ idxs) :
    deleteIdxFrom idxs i (c :: y) = deleteIdxFrom idxs (i + 1) y := by
  have hi : idxs.contains i = true := List.contains_iff_mem.mpr h
  simp only [deleteIdxFrom, hi, if_true]

theorem delete_shift (idxs idxs' : List Nat) (s : Nat) (i : Nat) (y : Bytes)
    (h : ∀ k, i ≤ k → (k + s ∈ idxs ↔ k ∈ idxs')) :
    deleteIdxFrom idxs (i + s) y = deleteIdxFrom idxs' i y := by
  induction y generalizing i with
  | nil => rfl
  | cons c cs ih =>
    have hc : idxs.contains (i + s) = idxs'.contains i := by
      have := h i (Nat.le_refl _)
      cases h1 : idxs.contains (i + s) <;> cases h2 : idxs'.contains i <;> simp_all
    simp only [deleteIdxFrom, hc]
    have := ih (i + 1) (fun k hk => h k (by omega))
    rw [show i + 1 + s = i + s + 1 by omega] at this
    rw [this]

theorem delete_none (y : Bytes) : deleteIdx y [] = y := by
  unfold deleteIdx
  have : ∀ i, deleteIdxFrom [] i y = y := by
    induction y with
    | nil => intro i; rfl
    | cons c cs ih => intro i; simp [deleteIdxFrom, ih]
  exact this 0

/-! ### interval fetch inside one wrapped block -/

/-- the code's arithmetic on a block that starts at byte 0 -/
def fetchCore (W : Nat) (T : Bytes) (a b : Nat) : Bytes :=
  let sa := a / W * (W + 1) + a % W
  let sb := b / W * (W + 1) + b % W
  deleteIdx ((T.drop sa).take (sb - sa))
    ((List.range (b / W - a / W)).map (fun j => (W + 1) * (j + 1) - 1 - a % W))

theorem div_mod_shift (W x : Nat) (hW : 0 < W) (h : W ≤ x) :
    x / W = (x - W) / W + 1 ∧ x % W = (x - W) % W := by
  obtain ⟨k, rfl⟩ : ∃ k, x = k + W := ⟨x - W, by omega⟩
  rw [Nat.add_sub_cancel, Nat.add_div_right _ hW, Nat.add_mod_right]
  exact ⟨rfl, rfl⟩

theorem drop_block (A R : Bytes) (x : Nat) : (A ++ 10 :: R).drop (x + (A.length + 1)) = R.drop x := by
  rw [show x + (A.length + 1) = A.length + (x + 1) by omega, ← List.drop_drop, List.drop_left]
  simp

/-- both ends beyond the first line: the first line can be peeled off -/
theorem fetchCore_peel (W : Nat) (hW : 0 < W) (A T' : Bytes) (hA : A.length = W) (a b : Nat)
    (ha : W ≤ a) (hab : a ≤ b) :
    fetchCore W (A ++ 10 :: T') a b = fetchCore W T' (a - W) (b - W) := by
  obtain ⟨ha1, ha2⟩ := div_mod_shift W a hW ha
  obtain ⟨hb1, hb2⟩ := div_mod_shift W b hW (by omega)
  unfold fetchCore
  simp only [ha1, ha2, hb1, hb2]
  have e1 : ∀ q r : Nat, (q + 1) * (W + 1) + r = (q * (W + 1) + r) + (A.length + 1) := by
    intro q r
    have : (q + 1) * (W + 1) = q * (W + 1) + (W + 1) := Nat.succ_mul _ _
    omega
  rw [e1, e1, drop_block]
  have e5 : ∀ x y : Nat, x + (A.length + 1) - (y + (A.length + 1)) = x - y := by intros; omega
  have e6 : ∀ x y : Nat, x + 1 - (y + 1) = x - y := by intros; omega
  rw [e5, e6]

/-- both ends inside the first line -/
theorem fetchCore_inside (W : Nat) (A R : Bytes) (a b : Nat) (hab : a ≤ b) (hbW : b < W)
    (hb : b ≤ A.length) :
    fetchCore W (A ++ R) a b = (A.drop a).take (b - a) := by
  have ha1 : a / W = 0 := Nat.div_eq_of_lt (by omega)
  have ha2 : a % W = a := Nat.mod_eq_of_lt (by omega)
  have hb1 : b / W = 0 := Nat.div_eq_of_lt hbW
  have hb2 : b % W = b := Nat.mod_eq_of_lt hbW
  unfold fetchCore
  simp only [ha1, ha2, hb1, hb2, Nat.zero_mul, Nat.zero_add, Nat.sub_self, List.range_zero, List.map_nil,
    delete_none]
  rw [List.drop_append_of_le_length (by omega), List.take_append_of_le_length (by simp; omega)]

theorem fetchCore_zero (W : Nat) (T : Bytes) (b : Nat) :
    fetchCore W T 0 b = deleteIdx (T.take (b / W * (W + 1) + b % W))
      ((List.range (b / W)).map (fun j => (W + 1) * (j + 1) - 1)) := by
  unfold fetchCore
  simp

/-- the interval starts in the first line and leaves it -/
theorem fetchCore_cross (W : Nat) (hW : 0 < W) (A T' : Bytes) (hA : A.length = W) (a b : Nat)
    (ha : a < W) (hb : W ≤ b) :
    fetchCore W (A ++ 10 :: T') a b = A.drop a ++ fetchCore W T' 0 (b - W) := by
  have ha1 : a / W = 0 := Nat.div_eq_of_lt ha
  have ha2 : a % W = a := Nat.mod_eq_of_lt ha
  obtain ⟨hb1, hb2⟩ := div_mod_shift W b hW hb
  rw [fetchCore_zero]
  obtain ⟨q, hq⟩ : ∃ q, q = (b - W) / W := ⟨_, rfl⟩
  obtain ⟨sb', hsb'⟩ : ∃ sb', sb' = q * (W + 1) + (b - W) % W := ⟨_, rfl⟩
  unfold fetchCore
  simp only [ha1, ha2, hb1, hb2, Nat.zero_mul, Nat.zero_add, Nat.sub_zero]
  rw [← hq, ← hsb']
  have e2 : (q + 1) * (W + 1) + (b - W) % W - a = (W - a) + (1 + sb') := by
    have : (q + 1) * (W + 1) = q * (W + 1) + (W + 1) := Nat.succ_mul _ _
    omega
  have hx : (A.drop a).length = W - a := by simp; omega
  rw [e2, List.drop_append_of_le_length (by omega), List.take_append, hx]
  have e3 : W - a + (1 + sb') - (W - a) = 1 + sb' := by omega
  rw [List.take_of_length_le (by omega), e3]
  have e4 : (10 :: T').take (1 + sb') = 10 :: T'.take sb' := by
    rw [Nat.add_comm]; rfl
  rw [e4, List.range_succ_eq_map, List.map_cons, List.map_map]
  unfold deleteIdx
  have hm : ∀ j : Nat, (W + 1) * (j + 1 + 1) - 1 - a = (W + 1) * (j + 1) - 1 + (W - a + 1) := by
    intro j
    have h1 : (W + 1) * (j + 1 + 1) = (W + 1) * (j + 1) + (W + 1) := Nat.mul_succ _ _
    have h2 : 0 < (W + 1) * (j + 1) := Nat.mul_pos (by omega) (by omega)
    omega
  rw [delete_keep _ 0 _ _ (by
    intro k _ hk
    rw [hx] at hk
    simp only [List.mem_cons, List.mem_map, Function.comp, not_or, not_exists, not_and]
    refine ⟨by omega, ?_⟩
    intro j _
    have := hm j
    simp only [Nat.succ_eq_add_one]
    omega)]
  rw [hx, Nat.zero_add, delete_drop _ _ _ _ (by simp)]
  rw [show 0 + (W - a) + 1 = 0 + (W - a + 1) by omega]
  rw [delete_shift _ ((List.range q).map (fun j => (W + 1) * (j + 1) - 1)) (W - a + 1) 0 _ (by
    intro k _
    simp only [List.mem_cons, List.mem_map, Function.comp, Nat.succ_eq_add_one]
    constructor
    · intro h
      rcases h with h | ⟨j, hj, h⟩
      · omega
      · exact ⟨j, hj, by have := hm j; omega⟩
    · intro ⟨j, hj, h⟩
      right
      exact ⟨j, hj, by have := hm j; omega⟩)]

theorem fetchCore_spec (W : Nat) (hW : 0 < W) (seq post : Bytes) (a b : Nat) (hab : a ≤ b)
    (hb : b ≤ seq.length) :
    fetchCore W (wrapBytes W seq ++ post) a b = (seq.drop a).take (b - a) := by
  induction hn : seq.length using Nat.strongRecOn generalizing seq a b with
  | _ n ih =>
    by_cases hs : seq = []
    · subst hs
      simp at hb; subst hb
      have : a = 0 := by omega
      subst this
      rw [fetchCore_zero]; simp [delete_none]
    · by_cases haW : W ≤ a
      · have hl : (seq.take W).length = W := by simp; omega
        rw [wrap_cons W hW seq hs, List.append_assoc, List.cons_append,
          fetchCore_peel W hW _ _ hl a b haW hab,
          ih (seq.length - W) (by omega) (seq.drop W) (a - W) (b - W) (by omega) (by simp; omega) (by simp)]
        rw [List.drop_drop]
        have e7 : b - W - (a - W) = b - a := by omega
        have e8 : W + (a - W) = a := by omega
        rw [e7, e8]
      · by_cases hbW : b < W
        · rw [wrap_cons W hW seq hs, List.append_assoc,
            fetchCore_inside W _ _ a b hab hbW (by simp; omega)]
          rw [List.drop_take, List.take_take]
          congr 1; omega
        · have hl : (seq.take W).length = W := by simp; omega
          rw [wrap_cons W hW seq hs, List.append_assoc, List.cons_append,
            fetchCore_cross W hW _ _ hl a b (by omega) (by omega),
            ih (seq.length - W) (by omega) (seq.drop W) 0 (b - W) (by omega) (by simp; omega) (by simp)]
          simp only [List.drop_zero, Nat.sub_zero]
          rw [List.drop_take]
          have h1 : (seq.drop a).take (b - a) = (seq.drop a).take ((W - a) + (b - W)) := by
            congr 1; omega
          rw [h1, List.take_add]
          congr 2
          rw [List.drop_drop]
          congr 1; omega


/-- **C17.contig_lengths**: the lengths reported are the index's sequence-length column -/
theorem contig_lengths_rows (idx : List IdxRow) :
    contigLengths idx = idx.map (fun r => (firstWord r.name, r.rlen)) := rfl

/-- the rule shipped before the repair reported bases-per-line: for `>a\nACGTA\nCG\n` (index row
`a 7 3 5 6`, see `index_rows`) it gave `{'a': 5}`; the true length is 7 -/
theorem contig_lengths_old_unsound :
    contigLengthsOld [⟨"a".toList.map Char.toNat, 7, 3, 5, 6⟩] = [("a".toList.map Char.toNat, 5)] ∧
    contigLengths [⟨"a".toList.map Char.toNat, 7, 3, 5, 6⟩] = [("a".toList.map Char.toNat, 7)] := by decide

end C17
