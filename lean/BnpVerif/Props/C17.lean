import BnpVerif.Model.C17
/-! C17 property theorems. Helper lemmas first; the property theorems are the ones listed in
`Audit/C17.lean`. -/
namespace C17

/-- **C17.contig_lengths**: the lengths reported are the index's sequence-length column -/
theorem contig_lengths_rows (idx : List IdxRow) :
    contigLengths idx = idx.map (fun r => (firstWord r.name, r.rlen)) := rfl

/-- the rule shipped before the repair reported bases-per-line: for `>a\nACGTA\nCG\n` (index row
`a 7 3 5 6`, see `index_rows`) it gave `{'a': 5}`; the true length is 7 -/
theorem contig_lengths_old_unsound :
    contigLengthsOld [⟨"a".toList.map Char.toNat, 7, 3, 5, 6⟩] = [("a".toList.map Char.toNat, 5)] ∧
    contigLengths [⟨"a".toList.map Char.toNat, 7, 3, 5, 6⟩] = [("a".toList.map Char.toNat, 7)] := by decide

end C17
