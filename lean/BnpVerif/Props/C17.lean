import BnpVerif.Model.C17
/-! C17 property theorems. Helper lemmas first; the property theorems are the ones listed in
`Audit/C17.lean`. -/
namespace C17

/-! ### wrapped layout -/

theorem wrap_nil (W : Nat) : wrapBytes W [] = [] := by
  rw [wrapBytes]; simp

theorem wrap_cons (W : Nat) (hW : 0 < W) (seq : Bytes) (hs : seq ≠ []) :
    wrapBytes W seq = seq.take W ++ 10 :: wrapBytes W (seq.drop W) := by
  rw [wrapBytes]
  have : ¬ (seq = [] ∨ W = 0) := by
    intro h; cases h with | inl h => exact hs h | inr h => omega
  simp [this]

theorem posOf_lt (W i : Nat) (h : i < W) : posOf W i = i := by
  unfold posOf
  rw [Nat.div_eq_of_lt h, Nat.mod_eq_of_lt h]; omega

theorem posOf_ge (W i : Nat) (hW : 0 < W) (h : W ≤ i) : posOf W i = (W + 1) + posOf W (i - W) := by
  unfold posOf
  obtain ⟨k, rfl⟩ : ∃ k, i = k + W := ⟨i - W, by omega⟩
  rw [Nat.add_sub_cancel, Nat.add_div_right _ hW, Nat.add_mod_right, Nat.succ_mul]
  omega

/-- **C17.layout** (bases): in the wrapped block, byte `posOf W i` is base `i` -/
theorem layout (W : Nat) (hW : 0 < W) (seq : Bytes) (i : Nat) (hi : i < seq.length) :
    (wrapBytes W seq)[posOf W i]? = seq[i]? := by
  induction hn : seq.length using Nat.strongRecOn generalizing seq i with
  | _ n ih =>
    have hs : seq ≠ [] := by intro h; subst h; simp at hi
    rw [wrap_cons W hW seq hs]
    by_cases hlt : i < W
    · rw [posOf_lt W i hlt, List.getElem?_append_left (by simp; omega)]
      rw [List.getElem?_take]; simp [hlt]
    · have hge : W ≤ i := by omega
      rw [posOf_ge W i hW hge]
      have hl : (seq.take W).length = W := by simp; omega
      rw [List.getElem?_append_right (by omega), hl]
      have : W + 1 + posOf W (i - W) - W = posOf W (i - W) + 1 := by omega
      rw [this, List.getElem?_cons_succ]
      rw [ih (seq.length - W) (by omega) (seq.drop W) (i - W) (by simp; omega) (by simp)]
      rw [List.getElem?_drop]
      congr 1; omega

/-- **C17.layout** (line breaks): the newline that ends line `j` sits right after its bases, at
`(j+1)(W+1) − 1` for a full line -/
theorem layout_newline (W : Nat) (hW : 0 < W) (seq : Bytes) (j : Nat) (hj : j * W < seq.length) :
    (wrapBytes W seq)[min ((j + 1) * W) seq.length + j]? = some 10 := by
  induction j generalizing seq with
  | zero =>
    have hs : seq ≠ [] := by intro h; subst h; simp at hj
    rw [wrap_cons W hW seq hs]
    have hl : (seq.take W).length = min W seq.length := by simp
    rw [List.getElem?_append_right (by simp), hl]
    simp
  | succ k ih =>
    have hs : seq ≠ [] := by intro h; subst h; simp at hj
    have hWL : W ≤ seq.length := by
      have : W ≤ (k + 1) * W := Nat.le_mul_of_pos_left W (by omega)
      omega
    rw [wrap_cons W hW seq hs]
    have hl : (seq.take W).length = W := by simp; omega
    have e1 : (k + 1 + 1) * W = (k + 1) * W + W := Nat.succ_mul _ _
    have e2 : (k + 1) * W = k * W + W := Nat.succ_mul _ _
    rw [List.getElem?_append_right (by rw [hl]; omega), hl]
    have hk := ih (seq.drop W) (by simp; omega)
    simp only [List.length_drop] at hk
    have : min ((k + 1 + 1) * W) seq.length + (k + 1) - W = (min ((k + 1) * W) (seq.length - W) + k) + 1 := by omega
    rw [this, List.getElem?_cons_succ, hk]

theorem wrap_short (W : Nat) (seq : Bytes) (h : seq.length ≤ W) (hs : seq ≠ []) :
    wrapBytes W seq = seq ++ [10] := by
  have hW : 0 < W := by
    cases seq with | nil => exact absurd rfl hs | cons _ _ => simp at h; omega
  rw [wrap_cons W hW seq hs, List.take_of_length_le h, List.drop_of_length_le h, wrap_nil]

/-- wrapping at `W` and at `min W L` give the same bytes -/
theorem wrap_min (W : Nat) (seq : Bytes) (hs : seq ≠ []) :
    wrapBytes W seq = wrapBytes (min W seq.length) seq := by
  by_cases h : seq.length ≤ W
  · rw [Nat.min_eq_right h, wrap_short W seq h hs, wrap_short seq.length seq (Nat.le_refl _) hs]
  · rw [Nat.min_eq_left (by omega)]


/-- **C17.contig_lengths**: the lengths reported are the index's sequence-length column -/
theorem contig_lengths_rows (idx : List IdxRow) :
    contigLengths idx = idx.map (fun r => (firstWord r.name, r.rlen)) := rfl

/-- the rule shipped before the repair reported bases-per-line: for `>a\nACGTA\nCG\n` (index row
`a 7 3 5 6`, see `index_rows`) it gave `{'a': 5}`; the true length is 7 -/
theorem contig_lengths_old_unsound :
    contigLengthsOld [⟨"a".toList.map Char.toNat, 7, 3, 5, 6⟩] = [("a".toList.map Char.toNat, 5)] ∧
    contigLengths [⟨"a".toList.map Char.toNat, 7, 3, 5, 6⟩] = [("a".toList.map Char.toNat, 7)] := by decide

end C17
