import BnpVerif.Model.C17
import BnpVerif.Props.C18
import BnpVerif.Props.C01
import BnpVerif.Gen.C17
/-! C17 property theorems. Helper lemmas first; the property theorems are the ones listed in
`Audit/C17.lean`. -/
namespace C17

/-! ### wrapped layout -/

theorem wrap_nil (W : Nat) : wrapBytes W [] = [] := by
  rw [wrapBytes]; simp

theorem wrap_cons (W : Nat) (hW : 0 < W) (seq : Bytes) (hs : seq ≠ []) :
    wrapBytes W seq = seq.take W ++ 10 :: wrapBytes W (seq.drop W) := by
  rw [wrapBytes]
  have : ¬ (seq = [] ∨ W = 0) := by
    intro h; cases h with | inl h => exact hs h | inr h => omega
  simp [this]

theorem posOf_lt (W i : Nat) (h : i < W) : posOf W i = i := by
  unfold posOf
  rw [Nat.div_eq_of_lt h, Nat.mod_eq_of_lt h]; omega

theorem posOf_ge (W i : Nat) (hW : 0 < W) (h : W ≤ i) : posOf W i = (W + 1) + posOf W (i - W) := by
  unfold posOf
  obtain ⟨k, rfl⟩ : ∃ k, i = k + W := ⟨i - W, by omega⟩
  rw [Nat.add_sub_cancel, Nat.add_div_right _ hW, Nat.add_mod_right, Nat.succ_mul]
  omega

/-- **C17.layout** (bases): in the wrapped block, byte `posOf W i` is base `i` -/
theorem layout (W : Nat) (hW : 0 < W) (seq : Bytes) (i : Nat) (hi : i < seq.length) :
    (wrapBytes W seq)[posOf W i]? = seq[i]? := by
  induction hn : seq.length using Nat.strongRecOn generalizing seq i with
  | _ n ih =>
    have hs : seq ≠ [] := by intro h; subst h; simp at hi
    rw [wrap_cons W hW seq hs]
    by_cases hlt : i < W
    · rw [posOf_lt W i hlt, List.getElem?_append_left (by simp; omega)]
      rw [List.getElem?_take]; simp [hlt]
    · have hge : W ≤ i := by omega
      rw [posOf_ge W i hW hge]
      have hl : (seq.take W).length = W := by simp; omega
      rw [List.getElem?_append_right (by omega), hl]
      have : W + 1 + posOf W (i - W) - W = posOf W (i - W) + 1 := by omega
      rw [this, List.getElem?_cons_succ]
      rw [ih (seq.length - W) (by omega) (seq.drop W) (i - W) (by simp; omega) (by simp)]
      rw [List.getElem?_drop]
      congr 1; omega

/-- **C17.layout** (line breaks): the newline that ends line `j` sits right after its bases, at
`(j+1)(W+1) − 1` for a full line -/
theorem layout_newline (W : Nat) (hW : 0 < W) (seq : Bytes) (j : Nat) (hj : j * W < seq.length) :
    (wrapBytes W seq)[min ((j + 1) * W) seq.length + j]? = some 10 := by
  induction j generalizing seq with
  | zero =>
    have hs : seq ≠ [] := by intro h; subst h; simp at hj
    rw [wrap_cons W hW seq hs]
    have hl : (seq.take W).length = min W seq.length := by simp
    rw [List.getElem?_append_right (by simp), hl]
    simp
  | succ k ih =>
    have hs : seq ≠ [] := by intro h; subst h; simp at hj
    have hWL : W ≤ seq.length := by
      have : W ≤ (k + 1) * W := Nat.le_mul_of_pos_left W (by omega)
      omega
    rw [wrap_cons W hW seq hs]
    have hl : (seq.take W).length = W := by simp; omega
    have e1 : (k + 1 + 1) * W = (k + 1) * W + W := Nat.succ_mul _ _
    have e2 : (k + 1) * W = k * W + W := Nat.succ_mul _ _
    rw [List.getElem?_append_right (by rw [hl]; omega), hl]
    have hk := ih (seq.drop W) (by simp; omega)
    simp only [List.length_drop] at hk
    have : min ((k + 1 + 1) * W) seq.length + (k + 1) - W = (min ((k + 1) * W) (seq.length - W) + k) + 1 := by omega
    rw [this, List.getElem?_cons_succ, hk]

theorem wrap_short (W : Nat) (seq : Bytes) (h : seq.length ≤ W) (hs : seq ≠ []) :
    wrapBytes W seq = seq ++ [10] := by
  have hW : 0 < W := by
    cases seq with | nil => exact absurd rfl hs | cons _ _ => simp at h; omega
  rw [wrap_cons W hW seq hs, List.take_of_length_le h, List.drop_of_length_le h, wrap_nil]

/-- wrapping at `W` and at `min W L` give the same bytes -/
theorem wrap_min (W : Nat) (seq : Bytes) (hs : seq ≠ []) :
    wrapBytes W seq = wrapBytes (min W seq.length) seq := by
  by_cases h : seq.length ≤ W
  · rw [Nat.min_eq_right h, wrap_short W seq h hs, wrap_short seq.length seq (Nat.le_refl _) hs]
  · rw [Nat.min_eq_left (by omega)]



/-! ### np.delete -/

theorem delete_keep (idxs : List Nat) (i : Nat) (x y : Bytes)
    (h : ∀ k, i ≤ k → k < i + x.length → k ∉ idxs) :
    deleteIdxFrom idxs i (x ++ y) = x ++ deleteIdxFrom idxs (i + x.length) y := by
  induction x generalizing i with
  | nil => simp
  | cons c cs ih =>
    have hi : idxs.contains i = false := by
      have := h i (Nat.le_refl _) (by simp)
      simpa using this
    simp only [List.cons_append, deleteIdxFrom, hi, Bool.false_eq_true, if_false, List.length_cons]
    have h' : ∀ k, i + 1 ≤ k → k < i + 1 + cs.length → k ∉ idxs := by
      intro k hk1 hk2
      exact h k (by omega) (by rw [List.length_cons]; omega)
    rw [ih (i + 1) h']
    have : i + 1 + cs.length = i + (cs.length + 1) := by omega
    rw [this]

theorem delete_drop (idxs : List Nat) (i : Nat) (c : Nat) (y : Bytes) (h : i ∈ idxs) :
    deleteIdxFrom idxs i (c :: y) = deleteIdxFrom idxs (i + 1) y := by
  have hi : idxs.contains i = true := List.contains_iff_mem.mpr h
  simp only [deleteIdxFrom, hi, if_true]

theorem delete_shift (idxs idxs' : List Nat) (s : Nat) (i : Nat) (y : Bytes)
    (h : ∀ k, i ≤ k → (k + s ∈ idxs ↔ k ∈ idxs')) :
    deleteIdxFrom idxs (i + s) y = deleteIdxFrom idxs' i y := by
  induction y generalizing i with
  | nil => rfl
  | cons c cs ih =>
    have hc : idxs.contains (i + s) = idxs'.contains i := by
      have := h i (Nat.le_refl _)
      cases h1 : idxs.contains (i + s) <;> cases h2 : idxs'.contains i <;> simp_all
    simp only [deleteIdxFrom, hc]
    have := ih (i + 1) (fun k hk => h k (by omega))
    rw [show i + 1 + s = i + s + 1 by omega] at this
    rw [this]

theorem delete_none (y : Bytes) : deleteIdx y [] = y := by
  unfold deleteIdx
  have : ∀ i, deleteIdxFrom [] i y = y := by
    induction y with
    | nil => intro i; rfl
    | cons c cs ih => intro i; simp [deleteIdxFrom, ih]
  exact this 0

/-! ### interval fetch inside one wrapped block -/

/-- the code's arithmetic on a block that starts at byte 0 -/
def fetchCore (W : Nat) (T : Bytes) (a b : Nat) : Bytes :=
  let sa := a / W * (W + 1) + a % W
  let sb := b / W * (W + 1) + b % W
  deleteIdx ((T.drop sa).take (sb - sa))
    ((List.range (b / W - a / W)).map (fun j => (W + 1) * (j + 1) - 1 - a % W))

theorem div_mod_shift (W x : Nat) (hW : 0 < W) (h : W ≤ x) :
    x / W = (x - W) / W + 1 ∧ x % W = (x - W) % W := by
  obtain ⟨k, rfl⟩ : ∃ k, x = k + W := ⟨x - W, by omega⟩
  rw [Nat.add_sub_cancel, Nat.add_div_right _ hW, Nat.add_mod_right]
  exact ⟨rfl, rfl⟩

theorem drop_block (A R : Bytes) (x : Nat) : (A ++ 10 :: R).drop (x + (A.length + 1)) = R.drop x := by
  rw [show x + (A.length + 1) = A.length + (x + 1) by omega, ← List.drop_drop, List.drop_left]
  simp

/-- both ends beyond the first line: the first line can be peeled off -/
theorem fetchCore_peel (W : Nat) (hW : 0 < W) (A T' : Bytes) (hA : A.length = W) (a b : Nat)
    (ha : W ≤ a) (hab : a ≤ b) :
    fetchCore W (A ++ 10 :: T') a b = fetchCore W T' (a - W) (b - W) := by
  obtain ⟨ha1, ha2⟩ := div_mod_shift W a hW ha
  obtain ⟨hb1, hb2⟩ := div_mod_shift W b hW (by omega)
  unfold fetchCore
  simp only [ha1, ha2, hb1, hb2]
  have e1 : ∀ q r : Nat, (q + 1) * (W + 1) + r = (q * (W + 1) + r) + (A.length + 1) := by
    intro q r
    have : (q + 1) * (W + 1) = q * (W + 1) + (W + 1) := Nat.succ_mul _ _
    omega
  rw [e1, e1, drop_block]
  have e5 : ∀ x y : Nat, x + (A.length + 1) - (y + (A.length + 1)) = x - y := by intros; omega
  have e6 : ∀ x y : Nat, x + 1 - (y + 1) = x - y := by intros; omega
  rw [e5, e6]

/-- both ends inside the first line -/
theorem fetchCore_inside (W : Nat) (A R : Bytes) (a b : Nat) (hab : a ≤ b) (hbW : b < W)
    (hb : b ≤ A.length) :
    fetchCore W (A ++ R) a b = (A.drop a).take (b - a) := by
  have ha1 : a / W = 0 := Nat.div_eq_of_lt (by omega)
  have ha2 : a % W = a := Nat.mod_eq_of_lt (by omega)
  have hb1 : b / W = 0 := Nat.div_eq_of_lt hbW
  have hb2 : b % W = b := Nat.mod_eq_of_lt hbW
  unfold fetchCore
  simp only [ha1, ha2, hb1, hb2, Nat.zero_mul, Nat.zero_add, Nat.sub_self, List.range_zero, List.map_nil,
    delete_none]
  rw [List.drop_append_of_le_length (by omega), List.take_append_of_le_length (by simp; omega)]

theorem fetchCore_zero (W : Nat) (T : Bytes) (b : Nat) :
    fetchCore W T 0 b = deleteIdx (T.take (b / W * (W + 1) + b % W))
      ((List.range (b / W)).map (fun j => (W + 1) * (j + 1) - 1)) := by
  unfold fetchCore
  simp

/-- the interval starts in the first line and leaves it -/
theorem fetchCore_cross (W : Nat) (hW : 0 < W) (A T' : Bytes) (hA : A.length = W) (a b : Nat)
    (ha : a < W) (hb : W ≤ b) :
    fetchCore W (A ++ 10 :: T') a b = A.drop a ++ fetchCore W T' 0 (b - W) := by
  have ha1 : a / W = 0 := Nat.div_eq_of_lt ha
  have ha2 : a % W = a := Nat.mod_eq_of_lt ha
  obtain ⟨hb1, hb2⟩ := div_mod_shift W b hW hb
  rw [fetchCore_zero]
  obtain ⟨q, hq⟩ : ∃ q, q = (b - W) / W := ⟨_, rfl⟩
  obtain ⟨sb', hsb'⟩ : ∃ sb', sb' = q * (W + 1) + (b - W) % W := ⟨_, rfl⟩
  unfold fetchCore
  simp only [ha1, ha2, hb1, hb2, Nat.zero_mul, Nat.zero_add, Nat.sub_zero]
  rw [← hq, ← hsb']
  have e2 : (q + 1) * (W + 1) + (b - W) % W - a = (W - a) + (1 + sb') := by
    have : (q + 1) * (W + 1) = q * (W + 1) + (W + 1) := Nat.succ_mul _ _
    omega
  have hx : (A.drop a).length = W - a := by simp; omega
  rw [e2, List.drop_append_of_le_length (by omega), List.take_append, hx]
  have e3 : W - a + (1 + sb') - (W - a) = 1 + sb' := by omega
  rw [List.take_of_length_le (by omega), e3]
  have e4 : (10 :: T').take (1 + sb') = 10 :: T'.take sb' := by
    rw [Nat.add_comm]; rfl
  rw [e4, List.range_succ_eq_map, List.map_cons, List.map_map]
  unfold deleteIdx
  have hm : ∀ j : Nat, (W + 1) * (j + 1 + 1) - 1 - a = (W + 1) * (j + 1) - 1 + (W - a + 1) := by
    intro j
    have h1 : (W + 1) * (j + 1 + 1) = (W + 1) * (j + 1) + (W + 1) := Nat.mul_succ _ _
    have h2 : 0 < (W + 1) * (j + 1) := Nat.mul_pos (by omega) (by omega)
    omega
  rw [delete_keep _ 0 _ _ (by
    intro k _ hk
    rw [hx] at hk
    simp only [List.mem_cons, List.mem_map, Function.comp, not_or, not_exists, not_and]
    refine ⟨by omega, ?_⟩
    intro j _
    have := hm j
    simp only [Nat.succ_eq_add_one]
    omega)]
  rw [hx, Nat.zero_add, delete_drop _ _ _ _ (by simp)]
  rw [show 0 + (W - a) + 1 = 0 + (W - a + 1) by omega]
  rw [delete_shift _ ((List.range q).map (fun j => (W + 1) * (j + 1) - 1)) (W - a + 1) 0 _ (by
    intro k _
    simp only [List.mem_cons, List.mem_map, Function.comp, Nat.succ_eq_add_one]
    constructor
    · intro h
      rcases h with h | ⟨j, hj, h⟩
      · omega
      · exact ⟨j, hj, by have := hm j; omega⟩
    · intro ⟨j, hj, h⟩
      right
      exact ⟨j, hj, by have := hm j; omega⟩)]

theorem fetchCore_spec (W : Nat) (hW : 0 < W) (seq post : Bytes) (a b : Nat) (hab : a ≤ b)
    (hb : b ≤ seq.length) :
    fetchCore W (wrapBytes W seq ++ post) a b = (seq.drop a).take (b - a) := by
  induction hn : seq.length using Nat.strongRecOn generalizing seq a b with
  | _ n ih =>
    by_cases hs : seq = []
    · subst hs
      simp at hb; subst hb
      have : a = 0 := by omega
      subst this
      rw [fetchCore_zero]; simp [delete_none]
    · by_cases haW : W ≤ a
      · have hl : (seq.take W).length = W := by simp; omega
        rw [wrap_cons W hW seq hs, List.append_assoc, List.cons_append,
          fetchCore_peel W hW _ _ hl a b haW hab,
          ih (seq.length - W) (by omega) (seq.drop W) (a - W) (b - W) (by omega) (by simp; omega) (by simp)]
        rw [List.drop_drop]
        have e7 : b - W - (a - W) = b - a := by omega
        have e8 : W + (a - W) = a := by omega
        rw [e7, e8]
      · by_cases hbW : b < W
        · rw [wrap_cons W hW seq hs, List.append_assoc,
            fetchCore_inside W _ _ a b hab hbW (by simp; omega)]
          rw [List.drop_take, List.take_take]
          congr 1; omega
        · have hl : (seq.take W).length = W := by simp; omega
          rw [wrap_cons W hW seq hs, List.append_assoc, List.cons_append,
            fetchCore_cross W hW _ _ hl a b (by omega) (by omega),
            ih (seq.length - W) (by omega) (seq.drop W) 0 (b - W) (by omega) (by simp; omega) (by simp)]
          simp only [List.drop_zero, Nat.sub_zero]
          rw [List.drop_take]
          have h1 : (seq.drop a).take (b - a) = (seq.drop a).take ((W - a) + (b - W)) := by
            congr 1; omega
          rw [h1, List.take_add]
          congr 2
          rw [List.drop_drop]
          congr 1; omega



/-- **C17.fetch_interval**: for a record stored anywhere in a file (`pre` before its first base,
`post` after its last line), with the index row the property prescribes, every interval
`0 ≤ a ≤ b ≤ L` is fetched as exactly `seq[a:b]` — for every width `W ≥ 1`, wherever `a` and `b`
fall relative to line breaks -/
theorem fetch_interval (pre post seq : Bytes) (W : Nat) (hW : 0 < W) (hs : seq ≠ []) (name : Bytes)
    (a b : Nat) (hab : a ≤ b) (hb : b ≤ seq.length) :
    fetchInterval (pre ++ wrapBytes W seq ++ post)
      ⟨name, seq.length, pre.length, min W seq.length, min W seq.length + 1⟩ a b
      = (seq.drop a).take (b - a) := by
  have hL : 0 < seq.length := by
    cases seq with | nil => exact absurd rfl hs | cons _ _ => simp
  obtain ⟨W', hW'⟩ : ∃ W', W' = min W seq.length := ⟨_, rfl⟩
  have hW'pos : 0 < W' := by omega
  rw [wrap_min W seq hs, ← hW']
  have := fetchCore_spec W' hW'pos seq post a b hab hb
  unfold fetchCore at this
  unfold fetchInterval readAt
  simp only
  rw [List.append_assoc, ← List.drop_drop, List.drop_left]
  rw [← this]

example : fetchInterval (">a\nACGTA\nCG\n>b\nTT\n".toList.map Char.toNat)
    ⟨"a".toList.map Char.toNat, 7, 3, 5, 6⟩ 4 6 = "AC".toList.map Char.toNat := by decide



/-! ### index rows -/

/-- the lines of a wrapped block -/
def chunks (W : Nat) (seq : Bytes) : List Bytes :=
  if _h : seq = [] ∨ W = 0 then [] else seq.take W :: chunks W (seq.drop W)
termination_by seq.length
decreasing_by
  have : seq.length ≠ 0 := fun hc => _h (Or.inl (List.eq_nil_of_length_eq_zero hc))
  simp only [List.length_drop]; omega

theorem chunks_nil (W : Nat) : chunks W [] = [] := by rw [chunks]; simp

theorem chunks_cons (W : Nat) (hW : 0 < W) (seq : Bytes) (hs : seq ≠ []) :
    chunks W seq = seq.take W :: chunks W (seq.drop W) := by
  rw [chunks]
  have : ¬ (seq = [] ∨ W = 0) := by
    intro h; cases h with | inl h => exact hs h | inr h => omega
  simp [this]

theorem lines_line (cur l rest : Bytes) (h : 10 ∉ l) :
    linesAux cur (l ++ 10 :: rest) = (cur.reverse ++ l) :: linesAux [] rest := by
  induction l generalizing cur with
  | nil => simp [linesAux]
  | cons c cs ih =>
    have hc : c ≠ 10 := fun hc => h (by simp [hc])
    simp only [List.cons_append, linesAux, hc, if_false]
    rw [ih (c :: cur) (fun hm => h (by simp [hm]))]
    simp

theorem lines_wrap (W : Nat) (hW : 0 < W) (seq rest : Bytes) (h : 10 ∉ seq) :
    linesAux [] (wrapBytes W seq ++ rest) = chunks W seq ++ linesAux [] rest := by
  induction hn : seq.length using Nat.strongRecOn generalizing seq with
  | _ n ih =>
    by_cases hs : seq = []
    · subst hs; simp [wrap_nil, chunks_nil]
    · have hL : 0 < seq.length := by
        cases seq with | nil => exact absurd rfl hs | cons _ _ => simp
      rw [wrap_cons W hW seq hs, chunks_cons W hW seq hs, List.append_assoc, List.cons_append,
        lines_line [] _ _ (fun hm => h (List.mem_of_mem_take hm))]
      rw [ih (seq.length - W) (by omega) (seq.drop W) (fun hm => h (List.mem_of_mem_drop hm)) (by simp)]
      simp

structure WFRec (r : Rec) : Prop where
  width_pos : 0 < r.width
  seq_ne : r.seq ≠ []
  header_nl : 10 ∉ r.header
  seq_nl : 10 ∉ r.seq
  seq_marker : 62 ∉ r.seq

/-- the lines of a file of records -/
def recLines (r : Rec) : List Bytes := (62 :: r.header) :: chunks r.width r.seq

theorem lines_file (rs : List Rec) (h : ∀ r ∈ rs, WFRec r) :
    linesOf (fileOf rs) = (rs.map recLines).flatten := by
  unfold linesOf
  induction rs with
  | nil => simp [fileOf, linesAux]
  | cons r rs ih =>
    have hr := h r (by simp)
    have e : fileOf (r :: rs) = (62 :: r.header) ++ 10 :: (wrapBytes r.width r.seq ++ fileOf rs) := by
      simp [fileOf, recBytes]
    rw [e, lines_line [] _ _ (by
      intro hm
      simp only [List.mem_cons] at hm
      cases hm with | inl hm => omega | inr hm => exact hr.header_nl hm)]
    rw [lines_wrap r.width hr.width_pos r.seq _ hr.seq_nl, ih (fun x hx => h x (by simp [hx]))]
    simp [recLines]

theorem chunks_props_aux (W : Nat) (hW : 0 < W) (n : Nat) : ∀ seq : Bytes, seq.length ≤ n → 62 ∉ seq →
    (∀ l ∈ chunks W seq, isHeader l = false) ∧
    ((chunks W seq).map List.length).sum = seq.length ∧
    ((chunks W seq).map (fun l => l.length + 1)).sum = (wrapBytes W seq).length ∧
    ((chunks W seq).headD []).length = min W seq.length := by
  induction n with
  | zero =>
    intro seq hle _
    have : seq = [] := List.eq_nil_of_length_eq_zero (by omega)
    subst this; simp [wrap_nil, chunks_nil]
  | succ m ih =>
    intro seq hle h62
    by_cases hs : seq = []
    · subst hs; simp [wrap_nil, chunks_nil]
    · have hL : 0 < seq.length := by
        cases seq with | nil => exact absurd rfl hs | cons _ _ => simp
      obtain ⟨h1, h2, h3, _⟩ := ih (seq.drop W) (by simp; omega)
        (fun hm => h62 (List.mem_of_mem_drop hm))
      rw [wrap_cons W hW seq hs, chunks_cons W hW seq hs]
      refine ⟨?_, ?_, ?_, ?_⟩
      · intro l hl
        simp only [List.mem_cons] at hl
        cases hl with
        | inl hl =>
          subst hl
          cases hseq : seq with
          | nil => exact absurd hseq hs
          | cons c cs =>
            have hc : c ≠ 62 := fun hc => h62 (by simp [hseq, hc])
            obtain ⟨k, rfl⟩ : ∃ k, W = k + 1 := ⟨W - 1, by omega⟩
            simp [isHeader, hc]
        | inr hl => exact h1 l hl
      · simp only [List.map_cons, List.sum_cons, h2, List.length_take, List.length_drop]; omega
      · simp only [List.map_cons, List.sum_cons, h3, List.length_take, List.length_append, List.length_cons]; omega
      · simp

theorem chunks_props (W : Nat) (hW : 0 < W) (seq : Bytes) (h62 : 62 ∉ seq) :
    (∀ l ∈ chunks W seq, isHeader l = false) ∧
    ((chunks W seq).map List.length).sum = seq.length ∧
    ((chunks W seq).map (fun l => l.length + 1)).sum = (wrapBytes W seq).length ∧
    ((chunks W seq).headD []).length = min W seq.length :=
  chunks_props_aux W hW seq.length seq (Nat.le_refl _) h62

theorem takeWhile_append_stop {α} (p : α → Bool) (l1 l2 : List α) (h1 : ∀ x ∈ l1, p x = true)
    (h2 : l2 = [] ∨ ∃ y ys, l2 = y :: ys ∧ p y = false) :
    (l1 ++ l2).takeWhile p = l1 ∧ (l1 ++ l2).dropWhile p = l2 := by
  induction l1 with
  | nil =>
    rcases h2 with h2 | ⟨y, ys, h2, hy⟩
    · subst h2; simp
    · subst h2; simp [hy]
  | cons x xs ih =>
    have hx := h1 x (by simp)
    obtain ⟨i1, i2⟩ := ih (fun z hz => h1 z (by simp [hz]))
    simp [hx, i1, i2]

theorem index_from (off : Nat) (rs : List Rec) (h : ∀ r ∈ rs, WFRec r) :
    indexLines off (rs.map recLines).flatten = specIndexFrom off rs := by
  induction rs generalizing off with
  | nil => simp [specIndexFrom]; rw [indexLines]
  | cons r rs ih =>
    have hr := h r (by simp)
    obtain ⟨c1, c2, c3, c4⟩ := chunks_props r.width hr.width_pos r.seq hr.seq_marker
    have hstop : (rs.map recLines).flatten = [] ∨
        ∃ y ys, (rs.map recLines).flatten = y :: ys ∧ (fun l => !isHeader l) y = false := by
      cases rs with
      | nil => left; rfl
      | cons r2 rs2 =>
        right
        exact ⟨62 :: r2.header, chunks r2.width r2.seq ++ (rs2.map recLines).flatten,
          by simp [recLines], by simp [isHeader]⟩
    obtain ⟨t1, t2⟩ := takeWhile_append_stop (fun l => !isHeader l) (chunks r.width r.seq) _
      (fun x hx => by simp [c1 x hx]) hstop
    have e : ((r :: rs).map recLines).flatten
        = (62 :: r.header) :: (chunks r.width r.seq ++ (rs.map recLines).flatten) := by
      simp [recLines]
    rw [e, indexLines]
    simp only [t1, t2, c2, c3, c4, specIndexFrom, List.length_cons, List.drop_succ_cons, List.drop_zero]
    rw [ih _ (fun x hx => h x (by simp [hx]))]
    congr 2 <;> omega

/-- **C17.index_rows**: for every FASTA made of well-formed records (any number of records, any
width ≥ 1 per record, last line short or full, single-line records, headers with descriptions) the
index built by the code lists header, true length, byte offset of the first base, bases per line
and bytes per line; `create_index` names each row by the first word of the header -/
theorem index_rows (rs : List Rec) (h : ∀ r ∈ rs, WFRec r) :
    buildIndex (fileOf rs) = specIndex rs ∧
    createIndex (fileOf rs) = (specIndex rs).map (fun r => { r with name := firstWord r.name }) := by
  have : buildIndex (fileOf rs) = specIndex rs := by
    unfold buildIndex specIndex
    rw [lines_file rs h, index_from 0 rs h]
  exact ⟨this, by unfold createIndex; rw [this]⟩

example : WFRec ⟨"a desc".toList.map Char.toNat, "ACGTACG".toList.map Char.toNat, 5⟩ :=
  ⟨by decide, by decide, by decide, by decide, by decide⟩



/-! ### whole-contig read -/

theorem posOf_eq (W i : Nat) : posOf W i = i + i / W := by
  unfold posOf
  have h1 := Nat.div_add_mod i W
  have h2 : i / W * (W + 1) = W * (i / W) + i / W := by rw [Nat.mul_succ, Nat.mul_comm]
  omega

theorem posOf_mono (W i j : Nat) (h : i ≤ j) : posOf W i ≤ posOf W j := by
  rw [posOf_eq, posOf_eq]
  have := Nat.div_le_div_right (c := W) h
  omega

theorem reshape_get (W : Nat) (hW : 0 < W) (n : Nat) : ∀ (data : Bytes) (i : Nat), i < n * W →
    n * (W + 1) ≤ data.length → (reshapeCols (W + 1) W n data)[i]? = data[posOf W i]? := by
  induction n with
  | zero => intro data i hi; simp at hi
  | succ m ih =>
    intro data i hi hlen
    have e1 : (m + 1) * (W + 1) = m * (W + 1) + (W + 1) := Nat.succ_mul _ _
    have e2 : (m + 1) * W = m * W + W := Nat.succ_mul _ _
    simp only [reshapeCols]
    have hl : ((data.take (W + 1)).take W).length = W := by simp; omega
    by_cases hlt : i < W
    · rw [List.getElem?_append_left (by omega), posOf_lt W i hlt, List.take_take,
        List.getElem?_take]
      simp [hlt]
    · rw [List.getElem?_append_right (by omega), hl, posOf_ge W i hW (by omega)]
      rw [ih (data.drop (W + 1)) (i - W) (by omega) (by simp; omega), List.getElem?_drop]

/-- **C17.fetch_contig**: the whole-contig read returns the full sequence -/
theorem fetch_contig (pre post seq : Bytes) (W : Nat) (hW : 0 < W) (hs : seq ≠ []) (name : Bytes) :
    fetchContig (pre ++ wrapBytes W seq ++ post)
      ⟨name, seq.length, pre.length, min W seq.length, min W seq.length + 1⟩ = seq := by
  have hL : 0 < seq.length := by
    cases seq with | nil => exact absurd rfl hs | cons _ _ => simp
  obtain ⟨V, hV⟩ : ∃ V, V = min W seq.length := ⟨_, rfl⟩
  have hVpos : 0 < V := by omega
  rw [wrap_min W seq hs, ← hV]
  unfold fetchContig readAt
  simp only
  obtain ⟨nRows, hnR⟩ : ∃ nRows, nRows = (seq.length + V - 1) / V := ⟨_, rfl⟩
  rw [← hnR]
  -- row arithmetic
  have hq : nRows = (seq.length - 1) / V + 1 := by
    rw [hnR, show seq.length + V - 1 = (seq.length - 1) + V by omega, Nat.add_div_right _ hVpos]
  have hdm := Nat.div_add_mod (seq.length - 1) V
  have hmod := Nat.mod_lt (seq.length - 1) hVpos
  obtain ⟨q, hqd⟩ : ∃ q, q = (seq.length - 1) / V := ⟨_, rfl⟩
  rw [← hqd] at hq hdm
  have hVq : V * q = q * V := Nat.mul_comm _ _
  have hbytes : (nRows - 1) * (V + 1) + (seq.length - (nRows - 1) * V) = posOf V (seq.length - 1) + 1 := by
    rw [posOf_eq, ← hqd, hq, Nat.add_sub_cancel]
    have : q * (V + 1) = q * V + q := Nat.mul_succ _ _
    omega
  rw [hbytes]
  have hrows : seq.length ≤ nRows * V := by
    rw [hq, Nat.succ_mul]; omega
  obtain ⟨T, hT⟩ : ∃ T, T = wrapBytes V seq := ⟨_, rfl⟩
  rw [← hT, List.append_assoc, List.drop_left]
  obtain ⟨got, hgot⟩ : ∃ got, got = ((T ++ post).take (posOf V (seq.length - 1) + 1)) := ⟨_, rfl⟩
  rw [← hgot]
  apply List.ext_getElem?
  intro i
  by_cases hi : i < seq.length
  · rw [List.getElem?_take, if_pos hi]
    have hdata : nRows * (V + 1) ≤ (got ++ List.replicate ((V + 1) * nRows - got.length) 0).length := by
      simp only [List.length_append, List.length_replicate]
      rw [Nat.mul_comm (V + 1) nRows]; omega
    rw [reshape_get V hVpos nRows _ i (by omega) hdata]
    have hp : posOf V i < posOf V (seq.length - 1) + 1 := by
      have := posOf_mono V i (seq.length - 1) (by omega); omega
    have hlay := layout V hVpos seq i hi
    rw [← hT] at hlay
    have hTi : posOf V i < T.length := by
      cases hc : T[posOf V i]? with
      | none => rw [hc] at hlay; simp at hlay; omega
      | some _ => exact (List.getElem?_eq_some_iff.mp hc).1
    have hgl : posOf V i < got.length := by
      rw [hgot, List.length_take, List.length_append]; omega
    rw [List.getElem?_append_left hgl, hgot, List.getElem?_take, if_pos hp,
      List.getElem?_append_left hTi, hlay]
  · rw [List.getElem?_take, if_neg hi]
    simp; omega



/-! ### end to end on a whole file -/

theorem fileOf_append (rs1 rs2 : List Rec) : fileOf (rs1 ++ rs2) = fileOf rs1 ++ fileOf rs2 := by
  simp [fileOf]

theorem length_recBytes (r : Rec) :
    (recBytes r).length = r.header.length + 2 + (wrapBytes r.width r.seq).length := by
  simp [recBytes]; omega

theorem specIndexFrom_append (off : Nat) (rs1 rs2 : List Rec) :
    specIndexFrom off (rs1 ++ rs2) = specIndexFrom off rs1 ++ specIndexFrom (off + (fileOf rs1).length) rs2 := by
  induction rs1 generalizing off with
  | nil => simp [specIndexFrom, fileOf]
  | cons r rs ih =>
    simp only [List.cons_append, specIndexFrom, ih]
    have : fileOf (r :: rs) = recBytes r ++ fileOf rs := by simp [fileOf]
    rw [this, List.length_append, length_recBytes]
    simp only [List.cons.injEq, true_and]
    congr 2; omega

theorem length_specIndexFrom (off : Nat) (rs : List Rec) : (specIndexFrom off rs).length = rs.length := by
  induction rs generalizing off with
  | nil => rfl
  | cons r rs ih => simp [specIndexFrom, ih]

theorem takeWhile_idem {α} (p : α → Bool) (l : List α) : (l.takeWhile p).takeWhile p = l.takeWhile p := by
  induction l with
  | nil => rfl
  | cons c cs ih =>
    cases hp : p c with
    | true => rw [List.takeWhile_cons, hp]; simp only [if_true]; rw [List.takeWhile_cons, hp]; simp only [if_true, ih]
    | false => rw [List.takeWhile_cons, hp]; simp

theorem firstWord_idem (h : Bytes) : firstWord (firstWord h) = firstWord h := takeWhile_idem _ h

/-- **C17.random_access**: in the file made of any well-formed records, the row the library builds
for the record at any position names it by its first header word, carries its true length, and both
the interval read (every `0 ≤ a ≤ b ≤ L`) and the whole-contig read through that row return the
record's own bases -/
theorem random_access (rs1 rs2 : List Rec) (r : Rec) (hwf : ∀ x ∈ rs1 ++ r :: rs2, WFRec x)
    (a b : Nat) (hab : a ≤ b) (hb : b ≤ r.seq.length) :
    ∃ row, (createIndex (fileOf (rs1 ++ r :: rs2)))[rs1.length]? = some row ∧
      row.name = firstWord r.header ∧ row.rlen = r.seq.length ∧
      fetchInterval (fileOf (rs1 ++ r :: rs2)) row a b = (r.seq.drop a).take (b - a) ∧
      fetchContig (fileOf (rs1 ++ r :: rs2)) row = r.seq := by
  have hr : WFRec r := hwf r (by simp)
  obtain ⟨pre, hpre⟩ : ∃ pre, pre = fileOf rs1 ++ (62 :: r.header ++ [10]) := ⟨_, rfl⟩
  have hfile : fileOf (rs1 ++ r :: rs2) = pre ++ wrapBytes r.width r.seq ++ fileOf rs2 := by
    rw [hpre, fileOf_append]
    have : fileOf (r :: rs2) = recBytes r ++ fileOf rs2 := by simp [fileOf]
    rw [this]; simp [recBytes]
  have hplen : pre.length = (fileOf rs1).length + r.header.length + 2 := by
    rw [hpre]; simp; omega
  refine ⟨⟨firstWord r.header, r.seq.length, pre.length, min r.width r.seq.length, min r.width r.seq.length + 1⟩, ?_, rfl, rfl, ?_, ?_⟩
  · rw [(index_rows _ hwf).2]
    unfold specIndex
    rw [specIndexFrom_append, List.map_append, List.getElem?_append_right (by simp [length_specIndexFrom])]
    simp [length_specIndexFrom, specIndexFrom, hplen]
  · rw [hfile]
    exact fetch_interval pre (fileOf rs2) r.seq r.width hr.width_pos hr.seq_ne _ a b hab hb
  · rw [hfile]
    exact fetch_contig pre (fileOf rs2) r.seq r.width hr.width_pos hr.seq_ne _

theorem spec_lengths (off : Nat) (rs : List Rec) :
    (specIndexFrom off rs).map (fun r => (firstWord r.name, r.rlen))
      = rs.map (fun r => (firstWord r.header, r.seq.length)) := by
  induction rs generalizing off with
  | nil => rfl
  | cons r rs ih => simp [specIndexFrom, ih]

/-- **C17.contig_lengths**: the contig lengths reported for a file are the true sequence lengths -/
theorem contig_lengths (rs : List Rec) (hwf : ∀ x ∈ rs, WFRec x) :
    contigLengths (createIndex (fileOf rs)) = rs.map (fun r => (firstWord r.header, r.seq.length)) := by
  rw [(index_rows rs hwf).2]
  unfold contigLengths specIndex
  rw [List.map_map]
  have : ((fun r : IdxRow => (firstWord r.name, r.rlen)) ∘ fun r => { r with name := firstWord r.name })
      = fun r : IdxRow => (firstWord r.name, r.rlen) := by
    funext r; simp [firstWord_idem]
  rw [this, spec_lengths]


open Base

/-! ### multi-chunk index building -/

theorem specIndexFrom_shift (off k : Nat) (rs : List Rec) :
    (specIndexFrom off rs).map (fun r => { r with offset := r.offset + k }) = specIndexFrom (off + k) rs := by
  induction rs generalizing off with
  | nil => rfl
  | cons r rs ih =>
    simp only [specIndexFrom, List.map_cons]
    rw [ih]
    congr 2 <;> omega

/-- **C17.index_chunks**: offsets add up across chunks — for EVERY way of cutting the file at record
boundaries into chunks (any number of chunks, any number of records per chunk, empty chunks
included), indexing the chunks separately and shifting by the accumulated chunk sizes gives exactly
the index of the whole file. (That the reader cuts wrapped FASTA only right before a header line is
`C01.readAll_bytes_fasta` / `Fmt.fasta.cutLen`.) -/
theorem index_chunks (groups : List (List Rec)) (h : ∀ g ∈ groups, ∀ r ∈ g, WFRec r) :
    createIndexChunked (groups.map fileOf) = createIndex (fileOf groups.flatten) := by
  have hall : ∀ r ∈ groups.flatten, WFRec r := by
    intro r hr
    obtain ⟨g, hg, hrg⟩ := List.mem_flatten.mp hr
    exact h g hg r hrg
  rw [(index_rows _ hall).2]
  unfold createIndexChunked specIndex
  have key : ∀ (gs : List (List Rec)) (off : Nat), (∀ g ∈ gs, ∀ r ∈ g, WFRec r) →
      createIndexChunkedFrom off (gs.map fileOf)
        = (specIndexFrom off gs.flatten).map (fun r => { r with name := firstWord r.name }) := by
    intro gs
    induction gs with
    | nil => intro off _; rfl
    | cons g gs ih =>
      intro off hg
      simp only [List.map_cons, createIndexChunkedFrom, List.flatten_cons]
      rw [(index_rows g (hg g (by simp))).1, ih _ (fun x hx => hg x (by simp [hx]))]
      rw [specIndexFrom_append, List.map_append]
      congr 1
      unfold specIndex
      have := specIndexFrom_shift 0 off g
      rw [Nat.zero_add] at this
      rw [← this, List.map_map]
      rfl
  exact key groups 0 h



/-! ### the written `.fai` read back: `read_index` and `Genome.from_file` -/

def goodName (n : Bytes) : Prop := n ≠ [] ∧ ∀ b ∈ n, isWs b = false

def natText (n : Nat) : Bytes := C18.decimal (n : Int)

theorem natText_eq (n : Nat) : natText n = (C18.digitsBE n).map (· + 48) := by
  unfold natText
  rw [C18.decimal_nonneg _ (by omega)]
  simp

theorem natText_digit (n : Nat) : ∀ b ∈ natText n, 48 ≤ b ∧ b ≤ 57 := by
  intro b hb
  rw [natText_eq] at hb
  obtain ⟨d, hd, rfl⟩ := List.mem_map.mp hb
  have := C18.digitsBE_lt n d hd
  omega

theorem natText_ne_nil (n : Nat) : natText n ≠ [] := by
  rw [natText_eq]
  intro hc
  have := congrArg List.length hc
  simp only [List.length_map, List.length_nil] at this
  have := (C18.digitsBE_bounds n).2.2
  omega

theorem natText_not_ws (n : Nat) : ∀ b ∈ natText n, isWs b = false := by
  intro b hb
  have := natText_digit n b hb
  unfold isWs
  have h1 : (b == 32) = false := by simp; omega
  have h2 : decide (b ≤ 13) = false := by simp; omega
  have h3 : decide (b ≤ 31) = false := by simp; omega
  simp [h1, h2, h3]

theorem specNat_natText (n : Nat) : C18.specNat (natText n) = some n := by
  rw [natText_eq]; exact C18.specNat_digits n

/-- the fields of one row -/
def rowFields (r : IdxRow) : List Bytes := [r.name, natText r.rlen, natText r.offset, natText r.lenc, natText r.lenb]

def small (r : IdxRow) : Prop :=
  r.rlen < 2 ^ 63 ∧ r.offset < 2 ^ 63 ∧ r.lenc < 2 ^ 63 ∧ r.lenb < 2 ^ 63

theorem faiLine_eq (r : IdxRow) (hs : small r) : faiLine r = List.intercalate [9] (rowFields r) ++ [10] := by
  unfold faiLine rowFields natText
  obtain ⟨h1, h2, h3, h4⟩ := hs
  rw [C18.format_int _ (by
    intro n hn
    simp only [List.mem_cons, List.not_mem_nil, or_false] at hn
    unfold C18.int64
    rcases hn with rfl | rfl | rfl | rfl <;> omega)]
  rfl

theorem not_mem_intercalate (b sep : Nat) (strs : List Bytes) (hsep : b ≠ sep) (h : ∀ s ∈ strs, b ∉ s) :
    b ∉ List.intercalate [sep] strs := by
  induction strs with
  | nil => simp [List.intercalate]
  | cons s r ih =>
    cases r with
    | nil => simpa [List.intercalate] using h s (by simp)
    | cons s2 r' =>
      have e : List.intercalate [sep] (s :: s2 :: r') = s ++ sep :: List.intercalate [sep] (s2 :: r') := by
        simp [List.intercalate]
      rw [e]
      intro hm
      simp only [List.mem_append, List.mem_cons] at hm
      rcases hm with hm | hm | hm
      · exact h s (by simp) hm
      · exact hsep hm
      · exact ih (fun t ht => h t (by simp [ht])) hm

theorem field_no (b : Nat) (hb : isWs b = true) (r : IdxRow) (hn : goodName r.name) : ∀ s ∈ rowFields r, b ∉ s := by
  intro s hs
  unfold rowFields at hs
  simp only [List.mem_cons, List.not_mem_nil, or_false] at hs
  rcases hs with rfl | rfl | rfl | rfl | rfl
  · intro hm; have := hn.2 b hm; rw [hb] at this; exact Bool.noConfusion this
  all_goals (intro hm; have := natText_not_ws _ b hm; rw [hb] at this; exact Bool.noConfusion this)

theorem lines_fai (idx : List IdxRow) (hs : ∀ r ∈ idx, small r) (hn : ∀ r ∈ idx, goodName r.name) :
    linesOf (faiText idx) = idx.map (fun r => List.intercalate [9] (rowFields r)) := by
  unfold linesOf faiText
  induction idx with
  | nil => simp [linesAux]
  | cons r rs ih =>
    simp only [List.map_cons, List.flatten_cons]
    rw [faiLine_eq r (hs r (by simp)), List.append_assoc, List.singleton_append]
    rw [lines_line [] _ _ (not_mem_intercalate 10 9 _ (by omega) (field_no 10 (by decide) r (hn r (by simp))))]
    rw [ih (fun x hx => hs x (by simp [hx])) (fun x hx => hn x (by simp [hx]))]
    simp

theorem firstWord_good (n : Bytes) (h : goodName n) : firstWord n = n := by
  unfold firstWord
  have : ∀ l : Bytes, (∀ b ∈ l, isWs b = false) → l.takeWhile (fun b => !isWs b) = l := by
    intro l
    induction l with
    | nil => intro _; rfl
    | cons c cs ih =>
      intro hl
      have hc := hl c (by simp)
      simp [hc, ih (fun b hb => hl b (by simp [hb]))]
  exact this n h.2

theorem parse_fai_line (r : IdxRow) (hn : goodName r.name) :
    parseFaiLine (List.intercalate [9] (rowFields r)) = some r := by
  unfold parseFaiLine
  rw [C18.split_join _ 9 (by simp [rowFields]) (field_no 9 (by decide) r hn)]
  simp only [rowFields, specNat_natText, firstWord_good r.name hn]

/-- **C17.fai_roundtrip**: the index file the library writes, read back by `read_index`, gives the
same rows (names that are single words, numbers below 2^63) -/
theorem fai_roundtrip (idx : List IdxRow) (hs : ∀ r ∈ idx, small r) (hn : ∀ r ∈ idx, goodName r.name) :
    readIndex (faiText idx) = some idx := by
  unfold readIndex
  rw [lines_fai idx hs hn]
  have : ∀ l : List IdxRow, (∀ r ∈ l, goodName r.name) →
      omap parseFaiLine (l.map (fun r => List.intercalate [9] (rowFields r))) = some l := by
    intro l hl
    exact C18.omap_map_some _ _ l (fun r hr => parse_fai_line r (hl r hr))
  exact this idx hn

/-! `str.split()` on a tab-joined line of whitespace-free, non-empty fields -/

theorem wordsAux_word (cur s : Bytes) (hs : ∀ b ∈ s, isWs b = false) (hne : cur.reverse ++ s ≠ []) :
    wordsAux cur s = [cur.reverse ++ s] := by
  induction s generalizing cur with
  | nil =>
    have : cur ≠ [] := by intro hc; subst hc; simp at hne
    simp [wordsAux, this]
  | cons c cs ih =>
    have hc := hs c (by simp)
    simp only [wordsAux, hc, Bool.false_eq_true, if_false]
    rw [ih (c :: cur) (fun b hb => hs b (by simp [hb])) (by simp)]
    simp

theorem wordsAux_sep (cur s rest : Bytes) (w : Nat) (hw : isWs w = true) (hs : ∀ b ∈ s, isWs b = false)
    (hne : cur.reverse ++ s ≠ []) :
    wordsAux cur (s ++ w :: rest) = (cur.reverse ++ s) :: wordsAux [] rest := by
  induction s generalizing cur with
  | nil =>
    have : cur ≠ [] := by intro hc; subst hc; simp at hne
    simp [wordsAux, hw, this]
  | cons c cs ih =>
    have hc := hs c (by simp)
    simp only [List.cons_append, wordsAux, hc, Bool.false_eq_true, if_false]
    rw [ih (c :: cur) (fun b hb => hs b (by simp [hb])) (by simp)]
    simp

theorem words_join (strs : List Bytes) (h : ∀ s ∈ strs, s ≠ [] ∧ ∀ b ∈ s, isWs b = false) :
    words (List.intercalate [9] strs) = strs := by
  unfold words
  induction strs with
  | nil => simp [List.intercalate, wordsAux]
  | cons s r ih =>
    obtain ⟨hne, hws⟩ := h s (by simp)
    cases r with
    | nil => simp [List.intercalate, wordsAux_word [] s hws (by simpa using hne)]
    | cons s2 r' =>
      have e : List.intercalate [9] (s :: s2 :: r') = s ++ 9 :: List.intercalate [9] (s2 :: r') := by
        simp [List.intercalate]
      rw [e, wordsAux_sep [] s _ 9 (by decide) hws (by simpa using hne), ih (fun t ht => h t (by simp [ht]))]
      simp

theorem omap_map_map {α β γ} (f : β → Option γ) (g : α → β) (k : α → γ) (l : List α)
    (h : ∀ a ∈ l, f (g a) = some (k a)) : omap f (l.map g) = some (l.map k) := by
  induction l with
  | nil => rfl
  | cons x xs ih =>
    simp only [List.map_cons]
    exact omap_cons_some _ _ _ _ _ (h x (by simp)) (ih (fun a ha => h a (by simp [ha])))

/-- **C17.genome_sizes**: `Genome.from_file` on the written index sees every name with its true
sequence length column -/
theorem genome_sizes (idx : List IdxRow) (hs : ∀ r ∈ idx, small r) (hn : ∀ r ∈ idx, goodName r.name) :
    genomeSizes (faiText idx) = some (idx.map (fun r => (r.name, r.rlen))) := by
  unfold genomeSizes
  rw [lines_fai idx hs hn]
  apply omap_map_map
  intro r hr
  have hg := hn r hr
  rw [words_join (rowFields r) (by
    intro s hsm
    unfold rowFields at hsm
    simp only [List.mem_cons, List.not_mem_nil, or_false] at hsm
    rcases hsm with rfl | rfl | rfl | rfl | rfl
    · exact hg
    all_goals exact ⟨natText_ne_nil _, natText_not_ws _⟩)]
  simp only [rowFields, specNat_natText]



theorem wrap_length_ge (W : Nat) (hW : 0 < W) (n : Nat) : ∀ seq : Bytes, seq.length ≤ n → seq ≠ [] →
    seq.length + 1 ≤ (wrapBytes W seq).length := by
  induction n with
  | zero => intro seq hl hs; exact absurd (List.eq_nil_of_length_eq_zero (by omega)) hs
  | succ m ih =>
    intro seq hl hs
    have hL : 0 < seq.length := by cases seq with | nil => exact absurd rfl hs | cons _ _ => simp
    rw [wrap_cons W hW seq hs]
    simp only [List.length_append, List.length_cons, List.length_take]
    by_cases hd : seq.drop W = []
    · have : seq.length ≤ W := by
        have := congrArg List.length hd; simp at this; omega
      rw [hd, wrap_nil]; simp; omega
    · have := ih (seq.drop W) (by simp; omega) hd
      simp only [List.length_drop] at this
      omega

theorem spec_rows_small (off : Nat) (rs : List Rec) (h : ∀ r ∈ rs, WFRec r) :
    ∀ row ∈ specIndexFrom off rs, row.offset + row.rlen + 1 ≤ off + (fileOf rs).length ∧
      row.lenc ≤ row.rlen ∧ row.lenb = row.lenc + 1 := by
  induction rs generalizing off with
  | nil => intro row hr; simp [specIndexFrom] at hr
  | cons r rs ih =>
    intro row hr
    have hwf := h r (by simp)
    have hw := wrap_length_ge r.width hwf.width_pos r.seq.length r.seq (Nat.le_refl _) hwf.seq_ne
    have hf : (fileOf (r :: rs)).length = r.header.length + 2 + (wrapBytes r.width r.seq).length + (fileOf rs).length := by
      have : fileOf (r :: rs) = recBytes r ++ fileOf rs := by simp [fileOf]
      rw [this, List.length_append, length_recBytes]
    simp only [specIndexFrom, List.mem_cons] at hr
    rcases hr with rfl | hr
    · simp only; rw [hf]; refine ⟨by omega, by omega, trivial⟩
    · have := ih _ (fun x hx => h x (by simp [hx])) row hr
      rw [hf]; omega

theorem firstWord_goodName (h : Bytes) (hh : ∃ c t, h = c :: t ∧ isWs c = false) : goodName (firstWord h) := by
  obtain ⟨c, t, rfl, hc⟩ := hh
  constructor
  · simp [firstWord, hc]
  · have : ∀ (l : Bytes) (b : Nat), b ∈ l.takeWhile (fun b => !isWs b) → isWs b = false := by
      intro l
      induction l with
      | nil => intro b hb; simp at hb
      | cons x xs ih =>
        intro b hb
        by_cases hx : isWs x = true
        · simp [hx] at hb
        · have hx' : isWs x = false := by simpa using hx
          simp only [List.takeWhile_cons, hx', Bool.not_false, if_true, List.mem_cons] at hb
          rcases hb with rfl | hb
          · exact hx'
          · exact ih b hb
    exact this (c :: t)

/-- **C17.fai_file**: the whole plumbing for a file of well-formed records whose headers start with a
non-blank (file smaller than 2^63 bytes): the index the library writes next to the FASTA, read back
by `read_index`, is the index it built; and `Genome.from_file` reads from it every record's name
(first header word) with its true sequence length -/
theorem fai_file (rs : List Rec) (h : ∀ r ∈ rs, WFRec r)
    (hh : ∀ r ∈ rs, ∃ c t, r.header = c :: t ∧ isWs c = false) (hsize : (fileOf rs).length < 2 ^ 63) :
    readIndex (faiText (createIndex (fileOf rs))) = some (createIndex (fileOf rs)) ∧
    genomeSizes (faiText (createIndex (fileOf rs))) = some (rs.map (fun r => (firstWord r.header, r.seq.length))) := by
  have hidx := (index_rows rs h).2
  have hsmall : ∀ row ∈ createIndex (fileOf rs), small row := by
    intro row hr
    rw [hidx] at hr
    obtain ⟨row0, hr0, rfl⟩ := List.mem_map.mp hr
    have := spec_rows_small 0 rs h row0 hr0
    unfold small
    simp only
    omega
  have hnames : ∀ row ∈ createIndex (fileOf rs), goodName row.name := by
    intro row hr
    rw [hidx] at hr
    obtain ⟨row0, hr0, rfl⟩ := List.mem_map.mp hr
    simp only
    have : ∃ r ∈ rs, row0.name = r.header := by
      have key : ∀ (off : Nat) (l : List Rec), row0 ∈ specIndexFrom off l → ∃ r ∈ l, row0.name = r.header := by
        intro off l
        induction l generalizing off with
        | nil => intro hm; simp [specIndexFrom] at hm
        | cons r l ih =>
          intro hm
          simp only [specIndexFrom, List.mem_cons] at hm
          rcases hm with rfl | hm
          · exact ⟨r, by simp, rfl⟩
          · obtain ⟨r', hr', he⟩ := ih _ hm
            exact ⟨r', by simp [hr'], he⟩
      exact key 0 rs hr0
    obtain ⟨r, hrm, he⟩ := this
    rw [he]
    exact firstWord_goodName r.header (hh r hrm)
  refine ⟨fai_roundtrip _ hsmall hnames, ?_⟩
  rw [genome_sizes _ hsmall hnames]
  have hc := contig_lengths rs h
  unfold contigLengths at hc
  congr 1
  rw [← hc]
  apply List.map_congr_left
  intro row hr
  rw [firstWord_good row.name (hnames row hr)]



/-! ### the chunks the reader delivers are whole records -/

/-- no newline directly followed by `'>'` -/
def okBreak : Bytes → Bool
  | a :: b :: t => !(a == 10 && b == 62) && okBreak (b :: t)
  | _ => true

theorem ok_split (X Y : Bytes) : okBreak (X ++ 10 :: 62 :: Y) = false := by
  induction X with
  | nil => simp [okBreak]
  | cons x xs ih =>
    cases hx : xs ++ 10 :: 62 :: Y with
    | nil => simp at hx
    | cons y ys =>
      rw [List.cons_append, hx, okBreak, ← hx, ih]; simp

theorem ok_append (P Q : Bytes) (hP : okBreak P = true) (hQ : okBreak Q = true)
    (h : ¬ (P.getLast? = some 10 ∧ Q.head? = some 62)) : okBreak (P ++ Q) = true := by
  induction P with
  | nil => simpa using hQ
  | cons x xs ih =>
    cases xs with
    | nil =>
      cases Q with
      | nil => simp [okBreak]
      | cons q qs =>
        simp only [List.cons_append, List.nil_append, okBreak, hQ, Bool.and_true, Bool.not_eq_true']
        simp only [List.getLast?_singleton, List.head?_cons, Option.some.injEq] at h
        apply Bool.eq_false_iff.mpr
        intro hc
        simp at hc
        exact h hc
    | cons y ys =>
      simp only [List.cons_append, okBreak, Bool.and_eq_true] at hP ⊢
      refine ⟨hP.1, ?_⟩
      have := ih hP.2 (by simpa [List.getLast?_cons_cons] using h)
      simpa using this

theorem ok_no_nl (l : Bytes) (h : 10 ∉ l) : okBreak l = true := by
  induction l with
  | nil => rfl
  | cons x xs ih =>
    cases xs with
    | nil => rfl
    | cons y ys =>
      have hx : x ≠ 10 := fun hc => h (by simp [hc])
      simp only [okBreak, Bool.and_eq_true]
      refine ⟨by simp [hx], ih (fun hm => h (by simp [hm]))⟩

theorem getLast_no (l : Bytes) (b : Nat) (h : b ∉ l) : l.getLast? ≠ some b := by
  intro hc
  exact h (List.mem_of_getLast? hc)

theorem wrap_ok (W : Nat) (hW : 0 < W) (n : Nat) : ∀ seq : Bytes, seq.length ≤ n → 10 ∉ seq → 62 ∉ seq →
    okBreak (wrapBytes W seq) = true ∧ (wrapBytes W seq).head? ≠ some 62 ∧
    (seq ≠ [] → (wrapBytes W seq).getLast? = some 10) := by
  induction n with
  | zero =>
    intro seq hl _ _
    have : seq = [] := List.eq_nil_of_length_eq_zero (by omega)
    subst this; simp [wrap_nil, okBreak]
  | succ m ih =>
    intro seq hl h10 h62
    by_cases hs : seq = []
    · subst hs; simp [wrap_nil, okBreak]
    · have hL : 0 < seq.length := by cases seq with | nil => exact absurd rfl hs | cons _ _ => simp
      obtain ⟨i1, i2, i3⟩ := ih (seq.drop W) (by rw [List.length_drop]; omega) (fun hm => h10 (List.mem_of_mem_drop hm))
        (fun hm => h62 (List.mem_of_mem_drop hm))
      rw [wrap_cons W hW seq hs]
      have ht10 : 10 ∉ seq.take W := fun hm => h10 (List.mem_of_mem_take hm)
      have ht62 : 62 ∉ seq.take W := fun hm => h62 (List.mem_of_mem_take hm)
      have hne : seq.take W ≠ [] := by
        intro hc; have := congrArg List.length hc; simp only [List.length_take, List.length_nil] at this; omega
      refine ⟨?_, ?_, ?_⟩
      · apply ok_append _ _ (ok_no_nl _ ht10)
        · cases hw : wrapBytes W (seq.drop W) with
          | nil => rfl
          | cons y ys =>
            rw [okBreak, ← hw, i1]
            have : y ≠ 62 := by intro hc; rw [hw, hc] at i2; simp at i2
            simp [this]
        · intro hc; exact getLast_no _ 10 ht10 hc.1
      · cases htk : seq.take W with
        | nil => exact absurd htk hne
        | cons c cs =>
          simp only [List.cons_append, List.head?_cons, ne_eq, Option.some.injEq]
          intro hc; exact ht62 (by rw [htk, hc]; simp)
      · intro _
        by_cases hd : seq.drop W = []
        · rw [hd, wrap_nil]; simp
        · have := i3 hd
          rw [List.getLast?_append, List.getLast?_cons]
          cases hw : wrapBytes W (seq.drop W) with
          | nil => rw [hw] at this; simp at this
          | cons y ys => rw [hw] at this; simp [this]

theorem rec_ok (r : Rec) (h : WFRec r) :
    okBreak (recBytes r) = true ∧ (recBytes r).head? = some 62 ∧ (recBytes r).getLast? = some 10 := by
  obtain ⟨w1, w2, w3⟩ := wrap_ok r.width h.width_pos r.seq.length r.seq (Nat.le_refl _) h.seq_nl h.seq_marker
  have hw3 := w3 h.seq_ne
  unfold recBytes
  refine ⟨?_, rfl, ?_⟩
  · have e : 62 :: r.header ++ 10 :: wrapBytes r.width r.seq = (62 :: r.header) ++ (10 :: wrapBytes r.width r.seq) := rfl
    rw [e]
    apply ok_append
    · apply ok_no_nl
      intro hm
      simp only [List.mem_cons] at hm
      rcases hm with hm | hm
      · omega
      · exact h.header_nl hm
    · cases hw : wrapBytes r.width r.seq with
      | nil => rfl
      | cons y ys =>
        rw [okBreak, ← hw, w1]
        have : y ≠ 62 := by intro hc; rw [hw, hc] at w2; simp at w2
        simp [this]
    · intro hc
      have : (62 :: r.header).getLast? ≠ some 10 := by
        apply getLast_no
        intro hm
        simp only [List.mem_cons] at hm
        rcases hm with hm | hm
        · omega
        · exact h.header_nl hm
      exact this hc.1
  · have e : 62 :: r.header ++ 10 :: wrapBytes r.width r.seq = (62 :: r.header ++ [10]) ++ wrapBytes r.width r.seq := by simp
    rw [e, List.getLast?_append, hw3]; rfl

theorem file_head (rs : List Rec) : fileOf rs = [] ∨ (fileOf rs).head? = some 62 := by
  cases rs with
  | nil => left; rfl
  | cons r rs => right; simp [fileOf, recBytes]

theorem file_last (rs : List Rec) (h : ∀ r ∈ rs, WFRec r) : fileOf rs = [] ∨ (fileOf rs).getLast? = some 10 := by
  induction rs with
  | nil => left; rfl
  | cons r rs ih =>
    right
    have e : fileOf (r :: rs) = recBytes r ++ fileOf rs := by simp [fileOf]
    rw [e, List.getLast?_append]
    rcases ih (fun x hx => h x (by simp [hx])) with h0 | h1
    · rw [h0]; simp [(rec_ok r (h r (by simp))).2.2]
    · rw [h1]; rfl

/-- a cut of a well-formed file after a newline and before a `'>'` is a record boundary -/
theorem cut_aligned (rs : List Rec) (h : ∀ r ∈ rs, WFRec r) (A B : Bytes) (hf : fileOf rs = A ++ B)
    (hA : A = [] ∨ A.getLast? = some 10) (hB : B = [] ∨ B.head? = some 62) :
    ∃ rs1 rs2, rs = rs1 ++ rs2 ∧ A = fileOf rs1 ∧ B = fileOf rs2 := by
  induction rs generalizing A with
  | nil =>
    have : A = [] ∧ B = [] := by simpa [fileOf] using hf.symm
    exact ⟨[], [], rfl, by simp [this.1, fileOf], by simp [this.2, fileOf]⟩
  | cons r rs ih =>
    have hr := h r (by simp)
    obtain ⟨o1, o2, o3⟩ := rec_ok r hr
    have e : fileOf (r :: rs) = recBytes r ++ fileOf rs := by simp [fileOf]
    rw [e] at hf
    rcases List.append_eq_append_iff.mp hf with ⟨C, hAC, hBC⟩ | ⟨C, hRC, hBC⟩
    · -- A = recBytes r ++ C, fileOf rs = C ++ B
      have hC : C = [] ∨ C.getLast? = some 10 := by
        by_cases hc : C = []
        · left; exact hc
        · right
          rcases hA with hA | hA
          · rw [hAC] at hA; simp at hA; exact absurd hA.2 hc
          · rw [hAC, List.getLast?_append] at hA
            cases hl : C.getLast? with
            | none => exact absurd (List.getLast?_eq_none_iff.mp hl) hc
            | some x => rw [hl] at hA; simpa using hA
      obtain ⟨rs1, rs2, e1, e2, e3⟩ := ih (fun x hx => h x (by simp [hx])) C hBC hC
      exact ⟨r :: rs1, rs2, by rw [e1]; rfl, by rw [hAC, e2]; simp [fileOf], e3⟩
    · -- recBytes r = A ++ C, B = C ++ fileOf rs
      by_cases hA0 : A = []
      · subst hA0
        exact ⟨[], r :: rs, rfl, rfl, by simp only [List.nil_append] at hRC; rw [hBC, ← hRC, e]⟩
      · by_cases hC0 : C = []
        · subst hC0
          simp only [List.append_nil, List.nil_append] at hRC hBC
          exact ⟨[r], rs, rfl, by rw [← hRC]; simp [fileOf], hBC⟩
        · -- a cut strictly inside the record: impossible
          exfalso
          have hA1 : A.getLast? = some 10 := by rcases hA with hA | hA; exact absurd hA hA0; exact hA
          have hB1 : C.head? = some 62 := by
            rcases hB with hB | hB
            · rw [hBC] at hB; simp at hB; exact absurd hB.1 hC0
            · cases C with
              | nil => exact absurd rfl hC0
              | cons c cs => rw [hBC] at hB; simpa using hB
          obtain ⟨A0, hA0'⟩ : ∃ A0, A = A0 ++ [10] := by
            refine ⟨A.dropLast, ?_⟩
            have h1 := List.dropLast_concat_getLast hA0
            have h2 : A.getLast hA0 = 10 := by
              rw [List.getLast?_eq_some_getLast hA0] at hA1
              exact Option.some.inj hA1
            rw [h2] at h1
            exact h1.symm
          obtain ⟨C0, hC0'⟩ : ∃ C0, C = 62 :: C0 := by
            cases C with
            | nil => exact absurd rfl hC0
            | cons c cs => simp at hB1; exact ⟨cs, by rw [hB1]⟩
          rw [hA0', hC0', List.append_assoc] at hRC
          have := ok_split A0 C0
          simp only [List.singleton_append] at hRC
          rw [← hRC, o1] at this
          exact Bool.noConfusion this

/-- chunks that start with `'>'`, end with a newline and concatenate to a well-formed file are the
files of consecutive groups of its records -/
theorem chunks_groups (cs : List Bytes) (hc : ∀ c ∈ cs, c ≠ [] ∧ c.getLast? = some 10 ∧ c.head? = some 62) :
    ∀ rs : List Rec, (∀ r ∈ rs, WFRec r) → cs.flatten = fileOf rs →
      ∃ groups : List (List Rec), groups.flatten = rs ∧ cs = groups.map fileOf := by
  induction cs with
  | nil =>
    intro rs _ hf
    cases rs with
    | nil => exact ⟨[], rfl, rfl⟩
    | cons r rs => simp [fileOf, recBytes] at hf
  | cons c cs ih =>
    intro rs h hf
    obtain ⟨c1, c2, c3⟩ := hc c (by simp)
    have hB : cs.flatten = [] ∨ cs.flatten.head? = some 62 := by
      cases cs with
      | nil => left; rfl
      | cons d ds =>
        right
        obtain ⟨d1, _, d3⟩ := hc d (by simp)
        cases d with
        | nil => exact absurd rfl d1
        | cons x xs => simpa using d3
    obtain ⟨rs1, rs2, e1, e2, e3⟩ := cut_aligned rs h c cs.flatten (by simpa using hf.symm) (Or.inr c2) hB
    have h2 : ∀ r ∈ rs2, WFRec r := fun r hr => h r (by rw [e1]; simp [hr])
    obtain ⟨groups, g1, g2⟩ := ih (fun d hd => hc d (by simp [hd])) rs2 h2 e3
    exact ⟨rs1 :: groups, by simp [g1, e1], by simp [e2, g2]⟩

/-- **C17.index_reader_chunks**: end to end with the chunked reader — for EVERY chunk size `k ≥ 1`
and both reader modes, `create_index` applied to the chunks the reader (C01's model of
`read_chunks` for wrapped FASTA) delivers for a file of well-formed records gives exactly the index
of the whole file: offsets add up across chunks however the file is chunked -/
theorem index_reader_chunks (rs : List Rec) (h : ∀ r ∈ rs, WFRec r) (mode : C01.Mode) (k : Nat) (hk : 0 < k) :
    createIndexChunked (C01.readAll C01.Fmt.fasta true mode (fileOf rs) k) = createIndex (fileOf rs) := by
  obtain ⟨hflat, hch⟩ := C01.readAll_bytes_fasta mode (fileOf rs) (by
    rcases file_head rs with h0 | h1
    · left; exact h0
    · right; exact h1) k hk
  have hnorm : C01.norm (fileOf rs) = fileOf rs := by
    unfold C01.norm
    rcases file_last rs h with h0 | h1
    · rw [h0]; rfl
    · have : (fileOf rs).isEmpty = false := by
        cases hf : fileOf rs with
        | nil => rw [hf] at h1; simp at h1
        | cons _ _ => rfl
      simp only [this, Bool.false_eq_true, if_false, C01.addNL]
      have : (fileOf rs).getLast? = some C01.NL := h1
      simp [this]
  rw [hnorm] at hflat
  obtain ⟨groups, g1, g2⟩ := chunks_groups _ (fun c hc => by
    obtain ⟨a1, a2, a3⟩ := hch c hc
    exact ⟨a1, a2, a3⟩) rs h hflat
  rw [g2, ← g1]
  exact index_chunks groups (by
    intro g hg r hr
    exact h r (by rw [← g1]; exact List.mem_flatten.mpr ⟨g, hg, hr⟩))



/-! ### FASTA without a final newline -/

theorem fetchInterval_eq (file : Bytes) (r : IdxRow) (a b : Nat) :
    fetchInterval file r a b = deleteIdx (rawRead file r a b) (newlineIdxs r a b) := rfl

/-- `np.delete` only looks at indices inside the array -/
theorem delete_congr (idxs idxs' : List Nat) (l : Bytes) (i : Nat)
    (h : ∀ k, i ≤ k → k < i + l.length → (k ∈ idxs ↔ k ∈ idxs')) :
    deleteIdxFrom idxs i l = deleteIdxFrom idxs' i l := by
  induction l generalizing i with
  | nil => rfl
  | cons c cs ih =>
    have hc : idxs.contains i = idxs'.contains i := by
      have := h i (Nat.le_refl _) (by simp)
      cases h1 : idxs.contains i <;> cases h2 : idxs'.contains i <;> simp_all
    simp only [deleteIdxFrom, hc]
    rw [ih (i + 1) (fun k hk1 hk2 => h k (by omega) (by rw [List.length_cons]; omega))]

theorem delete_snoc (idxs : List Nat) (i : Nat) (l : Bytes) (x : Nat) (h : i + l.length ∈ idxs) :
    deleteIdxFrom idxs i (l ++ [x]) = deleteIdxFrom idxs i l := by
  induction l generalizing i with
  | nil =>
    have hm : i ∈ idxs := by simpa using h
    have : idxs.contains i = true := List.contains_iff_mem.mpr hm
    simp only [List.nil_append, deleteIdxFrom, this, if_true]
  | cons c cs ih =>
    simp only [List.cons_append, deleteIdxFrom]
    rw [ih (i + 1) (by rw [List.length_cons] at h; rw [show i + 1 + cs.length = i + (cs.length + 1) by omega]; exact h)]

/-- when the checks pass, the checked fetch is the fetch -/
theorem checked_eq_of_some (file : Bytes) (r : IdxRow) (a b : Nat) (x : Bytes)
    (h : fetchIntervalChecked file r a b = some x) : x = fetchInterval file r a b := by
  unfold fetchIntervalChecked deleteChecked at h
  simp only at h
  rw [fetchInterval_eq]
  by_cases hl : (newlineIdxs r a b).getLast? = some (rawRead file r a b).length
  · simp only [hl, if_true] at h
    split at h
    · simp only [Option.some.injEq] at h
      rw [← h]
      unfold deleteIdx
      apply delete_congr
      intro k _ hk
      constructor
      · intro hm; exact List.dropLast_subset _ hm
      · intro hm
        have hne : newlineIdxs r a b ≠ [] := by intro hc; rw [hc] at hm; simp at hm
        have := List.dropLast_concat_getLast hne
        rw [← this, List.mem_append] at hm
        rcases hm with hm | hm
        · exact hm
        · simp only [List.mem_singleton] at hm
          rw [List.getLast?_eq_some_getLast hne] at hl
          have := Option.some.inj hl
          omega
    · simp at h
  · simp only [hl, if_false] at h
    split at h
    · simp only [Option.some.injEq] at h; exact h.symm
    · simp at h

theorem wrap_ok' (V : Nat) (hV : 0 < V) (seq : Bytes) (hs : seq ≠ []) : (wrapBytes V seq).getLast? = some 10 := by
  have : ∀ n, ∀ s : Bytes, s.length ≤ n → s ≠ [] → (wrapBytes V s).getLast? = some 10 := by
    intro n
    induction n with
    | zero => intro s hl hs'; exact absurd (List.eq_nil_of_length_eq_zero (by omega)) hs'
    | succ m ih =>
      intro s hl hs'
      rw [wrap_cons V hV s hs', List.getLast?_append, List.getLast?_cons]
      by_cases hd : s.drop V = []
      · rw [hd, wrap_nil]; simp
      · have hL : 0 < s.length := by cases s with | nil => exact absurd rfl hs' | cons _ _ => simp
        have := ih (s.drop V) (by rw [List.length_drop]; omega) hd
        cases hw : wrapBytes V (s.drop V) with
        | nil => rw [hw] at this; simp at this
        | cons y ys => rw [hw] at this; simp [this]
  exact this seq.length seq (Nat.le_refl _) hs

theorem wrap_length (W : Nat) (hW : 0 < W) (n : Nat) : ∀ seq : Bytes, seq.length ≤ n →
    (wrapBytes W seq).length = seq.length + (seq.length + W - 1) / W := by
  induction n with
  | zero =>
    intro seq hl
    have : seq = [] := List.eq_nil_of_length_eq_zero (by omega)
    subst this
    rw [wrap_nil]
    simp only [List.length_nil, Nat.zero_add]
    rw [Nat.div_eq_of_lt (by omega)]
  | succ m ih =>
    intro seq hl
    by_cases hs : seq = []
    · subst hs
      rw [wrap_nil]
      simp only [List.length_nil, Nat.zero_add]
      rw [Nat.div_eq_of_lt (by omega)]
    · have hL : 0 < seq.length := by cases seq with | nil => exact absurd rfl hs | cons _ _ => simp
      rw [wrap_cons W hW seq hs]
      simp only [List.length_append, List.length_cons, List.length_take]
      rw [ih (seq.drop W) (by rw [List.length_drop]; omega), List.length_drop]
      by_cases hle : seq.length ≤ W
      · have h1 : (seq.length + W - 1) / W = 1 := by
          rw [show seq.length + W - 1 = (seq.length - 1) + W by omega, Nat.add_div_right _ hW,
            Nat.div_eq_of_lt (by omega)]
        have h2 : (seq.length - W + W - 1) / W = 0 := by
          rw [Nat.div_eq_of_lt (by omega)]
        rw [h1, h2]; omega
      · have h1 : (seq.length + W - 1) / W = (seq.length - W + W - 1) / W + 1 := by
          rw [show seq.length + W - 1 = (seq.length - W + W - 1) + W by omega, Nat.add_div_right _ hW]
        rw [h1]; omega

theorem take_drop_dropLast_lt {α} (X : List α) (p n : Nat) (h : p + n < X.length) :
    (X.dropLast.drop p).take n = (X.drop p).take n := by
  apply List.ext_getElem?
  intro i
  simp only [List.getElem?_take, List.getElem?_drop, List.getElem?_dropLast]
  by_cases hi : i < n
  · simp only [hi, if_true]
    rw [if_pos (by omega)]
  · simp [hi]

theorem take_drop_dropLast_eq {α} (X : List α) (p n : Nat) (h : p + n = X.length) :
    (X.dropLast.drop p).take n = ((X.drop p).take n).dropLast := by
  apply List.ext_getElem?
  intro i
  simp only [List.getElem?_take, List.getElem?_drop, List.getElem?_dropLast, List.length_take, List.length_drop]
  by_cases hi : i < n
  · simp only [hi, if_true]
    by_cases h2 : i < n - 1
    · rw [if_pos (by omega), if_pos (by omega)]
    · rw [if_neg (by omega), if_neg (by omega)]
  · simp only [hi, if_false]
    rw [if_neg (by omega)]

/-- the repaired rule on the bytes read and the newline positions -/
def ruleApply (raw : Bytes) (idxs : List Nat) : Option Bytes :=
  deleteChecked raw (if idxs.getLast? = some raw.length then idxs.dropLast else idxs)

theorem rule_complete (R0 : Bytes) (idxs : List Nat) (hin : ∀ i ∈ idxs, i < R0.length) :
    ruleApply R0 idxs = some (deleteIdx R0 idxs) := by
  unfold ruleApply deleteChecked
  have hl : idxs.getLast? ≠ some R0.length := by
    intro hc
    have := hin _ (List.mem_of_getLast? hc)
    omega
  simp only [hl, if_false]
  have : idxs.all (fun i => decide (i < R0.length)) = true := by
    simp only [List.all_eq_true, decide_eq_true_eq]; exact hin
  simp [this]

theorem rule_truncated (D : Bytes) (x : Nat) (init : List Nat) (hin : ∀ i ∈ init, i < D.length) :
    ruleApply D (init ++ [D.length]) = some (deleteIdx (D ++ [x]) (init ++ [D.length])) := by
  unfold ruleApply deleteChecked
  have hl : (init ++ [D.length]).getLast? = some D.length := by simp
  simp only [hl, if_true, List.dropLast_concat]
  have : init.all (fun i => decide (i < D.length)) = true := by
    simp only [List.all_eq_true, decide_eq_true_eq]; exact hin
  simp only [this, if_true, Option.some.injEq]
  unfold deleteIdx
  rw [delete_snoc _ 0 _ _ (by rw [Nat.zero_add]; simp)]
  apply delete_congr
  intro k _ hk
  rw [Nat.zero_add] at hk
  constructor
  · intro hm; exact List.mem_append_left _ hm
  · intro hm
    rcases List.mem_append.mp hm with hm | hm
    · exact hm
    · simp only [List.mem_singleton] at hm; omega

/-- **C17.fetch_interval_checked**: with NumPy's bounds check on `np.delete` modelled, the repaired
interval read returns exactly `seq[a:b]` for every `0 ≤ a ≤ b ≤ L` and every width — when the record
is followed by its newline (and anything after it), AND when it is the last record of a file that
has no final newline (last line full or short) -/
theorem fetch_interval_checked (pre seq tail : Bytes) (W : Nat) (hW : 0 < W) (hs : seq ≠ []) (name : Bytes)
    (a b : Nat) (hab : a ≤ b) (hb : b ≤ seq.length) (htail : tail = [] ∨ ∃ post, tail = 10 :: post) :
    fetchIntervalChecked (pre ++ (wrapBytes W seq).dropLast ++ tail)
      ⟨name, seq.length, pre.length, min W seq.length, min W seq.length + 1⟩ a b
      = some ((seq.drop a).take (b - a)) := by
  have hL : 0 < seq.length := by cases seq with | nil => exact absurd rfl hs | cons _ _ => simp
  obtain ⟨V, hV⟩ : ∃ V, V = min W seq.length := ⟨_, rfl⟩
  have hVpos : 0 < V := by omega
  have hVL : V ≤ seq.length := by omega
  rw [wrap_min W seq hs, ← hV]
  obtain ⟨T, hT⟩ : ∃ T, T = wrapBytes V seq := ⟨_, rfl⟩
  rw [← hT]
  have hTlen : T.length = seq.length + (seq.length + V - 1) / V := by
    rw [hT]; exact wrap_length V hVpos seq.length seq (Nat.le_refl _)
  have hTlast : T.getLast? = some 10 := by
    rw [hT]
    exact (wrap_ok' V hVpos seq hs)
  -- the full file with the final newline and what the (lenient) fetch gives there
  have hfull := fetch_interval pre [] seq W hW hs name a b hab hb
  rw [wrap_min W seq hs, ← hV, ← hT, fetchInterval_eq] at hfull
  obtain ⟨row, hrow⟩ : ∃ row : IdxRow, row = ⟨name, seq.length, pre.length, V, V + 1⟩ := ⟨_, rfl⟩
  rw [← hrow] at hfull ⊢
  -- arithmetic of the read
  obtain ⟨sa, hsa⟩ : ∃ sa, sa = a / V * (V + 1) + a % V := ⟨_, rfl⟩
  obtain ⟨sb, hsb⟩ : ∃ sb, sb = b / V * (V + 1) + b % V := ⟨_, rfl⟩
  have hpa : sa = a + a / V := by rw [hsa]; exact posOf_eq V a
  have hpb : sb = b + b / V := by rw [hsb]; exact posOf_eq V b
  have hdiv : a / V ≤ b / V := Nat.div_le_div_right hab
  have hbdiv : b / V ≤ (seq.length + V - 1) / V := Nat.div_le_div_right (by omega)
  have hsbT : sb ≤ T.length := by rw [hpb, hTlen]; omega
  have hraw : ∀ file, rawRead file row a b = (file.drop (pre.length + sa)).take (sb - sa) := by
    intro file; rw [hrow, hsa, hsb]; rfl
  obtain ⟨n, hn⟩ : ∃ n, n = b / V - a / V := ⟨_, rfl⟩
  have hidx : newlineIdxs row a b = (List.range n).map (fun j => (V + 1) * (j + 1) - 1 - a % V) := by
    rw [hrow, hn]; rfl
  have hmodb := Nat.mod_lt b hVpos
  have hmoda := Nat.mod_lt a hVpos
  have hR : sb - sa = n * (V + 1) + b % V - a % V := by
    rw [hsa, hsb, hn, Nat.sub_mul]
    have : a / V * (V + 1) ≤ b / V * (V + 1) := Nat.mul_le_mul_right _ hdiv
    omega
  have hidx_lt : ∀ i ∈ newlineIdxs row a b, i + b % V + 1 ≤ sb - sa := by
    intro i hi
    rw [hidx] at hi
    obtain ⟨j, hj, rfl⟩ := List.mem_map.mp hi
    have hj' : j < n := List.mem_range.mp hj
    have h1 : (V + 1) * (j + 1) ≤ (V + 1) * n := Nat.mul_le_mul_left _ (by omega)
    have h2 : (V + 1) * n = n * (V + 1) := Nat.mul_comm _ _
    have h3 : 0 < (V + 1) * (j + 1) := Nat.mul_pos (by omega) (by omega)
    have h4 : V + 1 ≤ (V + 1) * (j + 1) := Nat.le_mul_of_pos_right _ (by omega)
    rw [hR]; omega
  have hsab : sa ≤ sb := by rw [hpa, hpb]; omega
  -- the bytes read from the file that has its final newline
  obtain ⟨R0, hR0⟩ : ∃ R0, R0 = (T.drop sa).take (sb - sa) := ⟨_, rfl⟩
  have hR0len : R0.length = sb - sa := by rw [hR0, List.length_take, List.length_drop]; omega
  have hfull_raw : rawRead (pre ++ T ++ []) row a b = R0 := by
    rw [hraw, hR0, List.append_nil, ← List.drop_drop, List.drop_left]
  rw [hfull_raw] at hfull
  have hin : ∀ i ∈ newlineIdxs row a b, i < R0.length := by
    intro i hi; have := hidx_lt i hi; rw [hR0len]; omega
  have hTsplit : T = T.dropLast ++ [10] := by
    have hne : T ≠ [] := by intro hc; rw [hc] at hTlast; simp at hTlast
    have h1 := List.dropLast_concat_getLast hne
    have h2 : T.getLast hne = 10 := by
      rw [List.getLast?_eq_some_getLast hne] at hTlast; exact Option.some.inj hTlast
    rw [h2] at h1; exact h1.symm
  show ruleApply (rawRead (pre ++ T.dropLast ++ tail) row a b) (newlineIdxs row a b) = _
  rcases htail with ht | ⟨post, ht⟩
  · -- no final newline
    subst ht
    rw [List.append_nil]
    by_cases hlt : sb < T.length
    · have : rawRead (pre ++ T.dropLast) row a b = R0 := by
        rw [hraw, hR0, ← List.drop_drop, List.drop_left, take_drop_dropLast_lt T sa (sb - sa) (by omega)]
      rw [this, rule_complete R0 _ hin, hfull]
    · have hsbT' : sb = T.length := by omega
      by_cases hab' : a = b
      · subst hab'
        have hs0 : sb - sa = 0 := by rw [hsa, hsb]; omega
        have : rawRead (pre ++ T.dropLast) row a a = R0 := by
          rw [hraw, hR0, hs0]; simp
        rw [this, rule_complete R0 _ hin, hfull]
      · have hbmod : b % V = 0 := by
          have h1 : b / V = (seq.length + V - 1) / V := by rw [hpb, hTlen] at hsbT'; omega
          have h2 : b = seq.length := by rw [hpb, hTlen] at hsbT'; omega
          apply Classical.byContradiction
          intro hc
          have hdm := Nat.div_add_mod b V
          have : V * (b / V + 1) ≤ seq.length + V - 1 := by rw [Nat.mul_add, Nat.mul_one]; omega
          have := (Nat.le_div_iff_mul_le hVpos).mpr (by rw [Nat.mul_comm]; exact this)
          omega
        have hn1 : 1 ≤ n := by
          have h1 := Nat.div_add_mod b V
          have h2 := Nat.div_add_mod a V
          rw [hn]
          apply Classical.byContradiction
          intro hc
          have : b / V = a / V := by omega
          rw [this] at h1; omega
        obtain ⟨m, hm⟩ : ∃ m, n = m + 1 := ⟨n - 1, by omega⟩
        have hlast : (V + 1) * (m + 1) - 1 - a % V = R0.length - 1 := by
          have : (V + 1) * (m + 1) = n * (V + 1) := by rw [hm, Nat.mul_comm]
          rw [hR0len, hR, hbmod, this]; omega
        have hRne : R0 ≠ [] := by
          intro hc; rw [hc] at hR0len; simp at hR0len
          have : sa < sb := by rw [hpa, hpb]; omega
          omega
        obtain ⟨D, hD⟩ : ∃ D, D = R0.dropLast := ⟨_, rfl⟩
        have hDlen : D.length = R0.length - 1 := by rw [hD]; exact List.length_dropLast
        have hRsplit : R0 = D ++ [R0.getLast hRne] := by rw [hD]; exact (List.dropLast_concat_getLast hRne).symm
        have hidx2 : newlineIdxs row a b = (List.range m).map (fun j => (V + 1) * (j + 1) - 1 - a % V) ++ [D.length] := by
          rw [hidx, hm, List.range_succ, List.map_append, List.map_cons, List.map_nil, hlast, hDlen]
        have : rawRead (pre ++ T.dropLast) row a b = D := by
          rw [hraw, hD, hR0, ← List.drop_drop, List.drop_left, take_drop_dropLast_eq T sa (sb - sa) (by omega)]
        rw [this, hidx2, rule_truncated D (R0.getLast hRne) _ (by
          intro i hi
          obtain ⟨j, hj, rfl⟩ := List.mem_map.mp hi
          have hj' : j < m := List.mem_range.mp hj
          have h1 : (V + 1) * (j + 1) + (V + 1) ≤ (V + 1) * (m + 1) := by
            rw [← Nat.mul_succ]; exact Nat.mul_le_mul_left _ (by omega)
          omega), ← hidx2, ← hRsplit, hfull]
  · -- the record is followed by its newline
    subst ht
    have : pre ++ T.dropLast ++ 10 :: post = pre ++ T ++ post := by
      rw (occs := [2]) [hTsplit]; simp
    rw [this]
    have : rawRead (pre ++ T ++ post) row a b = R0 := by
      rw [hraw, hR0, List.append_assoc, ← List.drop_drop, List.drop_left,
        List.drop_append_of_le_length (by omega), List.take_append_of_le_length (by rw [List.length_drop]; omega)]
    rw [this, rule_complete R0 _ hin, hfull]

/-- the rule shipped before the repair raised IndexError on `>a\nACGT` (no final newline), interval
`[0, 4)`: it deleted position 4 of the 4 bytes it had read -/
theorem fetch_no_final_newline_old_unsound :
    fetchIntervalOld (">a\nACGT".toList.map Char.toNat) ⟨"a".toList.map Char.toNat, 4, 3, 4, 5⟩ 0 4 = none ∧
    fetchIntervalChecked (">a\nACGT".toList.map Char.toNat) ⟨"a".toList.map Char.toNat, 4, 3, 4, 5⟩ 0 4
      = some ("ACGT".toList.map Char.toNat) := by decide

/-- the whole-contig read only depends on the bytes it reads -/
theorem fetchContig_congr (file file' : Bytes) (r : IdxRow)
    (h : readAt file r.offset ((((r.rlen + r.lenc - 1) / r.lenc) - 1) * r.lenb + (r.rlen - (((r.rlen + r.lenc - 1) / r.lenc) - 1) * r.lenc))
       = readAt file' r.offset ((((r.rlen + r.lenc - 1) / r.lenc) - 1) * r.lenb + (r.rlen - (((r.rlen + r.lenc - 1) / r.lenc) - 1) * r.lenc))) :
    fetchContig file r = fetchContig file' r := by
  unfold fetchContig
  simp only [h]

/-- **C17.fetch_contig_no_final_newline**: the whole-contig read of the last record of a file
without final newline returns the full sequence -/
theorem fetch_contig_no_final_newline (pre seq : Bytes) (W : Nat) (hW : 0 < W) (hs : seq ≠ []) (name : Bytes) :
    fetchContig (pre ++ (wrapBytes W seq).dropLast)
      ⟨name, seq.length, pre.length, min W seq.length, min W seq.length + 1⟩ = seq := by
  have hL : 0 < seq.length := by cases seq with | nil => exact absurd rfl hs | cons _ _ => simp
  have hfull := fetch_contig pre [] seq W hW hs name
  refine Eq.trans (fetchContig_congr _ (pre ++ wrapBytes W seq ++ []) _ ?_) hfull
  obtain ⟨V, hV⟩ : ∃ V, V = min W seq.length := ⟨_, rfl⟩
  have hVpos : 0 < V := by omega
  simp only [← hV]
  rw [wrap_min W seq hs, ← hV]
  obtain ⟨T, hT⟩ : ∃ T, T = wrapBytes V seq := ⟨_, rfl⟩
  rw [← hT]
  have hTlen : T.length = seq.length + (seq.length + V - 1) / V := by
    rw [hT]; exact wrap_length V hVpos seq.length seq (Nat.le_refl _)
  obtain ⟨n, hn⟩ : ∃ n, n = (seq.length + V - 1) / V := ⟨_, rfl⟩
  rw [← hn] at hTlen ⊢
  have hn' : n = (seq.length - 1) / V + 1 := by
    rw [hn, show seq.length + V - 1 = (seq.length - 1) + V by omega, Nat.add_div_right _ hVpos]
  have hle : (n - 1) * V ≤ seq.length - 1 := by
    rw [hn', Nat.add_sub_cancel]; exact Nat.div_mul_le_self _ _
  obtain ⟨k, hk⟩ : ∃ k, k = (n - 1) * V := ⟨_, rfl⟩
  have hle' : k ≤ seq.length - 1 := by rw [hk]; exact hle
  have hk2 : (n - 1) * (V + 1) = k + (n - 1) := by rw [hk, Nat.mul_succ]
  have hn1 : 1 ≤ n := by rw [hn']; exact Nat.le_add_left 1 _
  clear hn hn' hle
  have hbytes : (n - 1) * (V + 1) + (seq.length - (n - 1) * V) < T.length := by
    rw [hTlen, hk2, ← hk]; omega
  unfold readAt
  rw [List.append_nil, List.drop_left, List.drop_left]
  have := take_drop_dropLast_lt T 0 ((n - 1) * (V + 1) + (seq.length - (n - 1) * V)) (by omega)
  simpa using this

theorem lines_snoc (Y : Bytes) (c : Nat) (hc : c ≠ 10) (cur : Bytes) :
    linesAux cur (Y ++ [c]) = linesAux cur (Y ++ [c, 10]) := by
  induction Y generalizing cur with
  | nil => simp [linesAux, hc]
  | cons y ys ih =>
    simp only [List.cons_append, linesAux]
    split
    · rw [ih]
    · rw [ih]

theorem wrap_ends (V : Nat) (hV : 0 < V) (n : Nat) : ∀ s : Bytes, s.length ≤ n → s ≠ [] → 10 ∉ s →
    ∃ Y c, wrapBytes V s = Y ++ [c, 10] ∧ c ≠ 10 := by
  induction n with
  | zero => intro s hl hs; exact absurd (List.eq_nil_of_length_eq_zero (by omega)) hs
  | succ m ih =>
    intro s hl hs h10
    have hL : 0 < s.length := by cases s with | nil => exact absurd rfl hs | cons _ _ => simp
    rw [wrap_cons V hV s hs]
    by_cases hd : s.drop V = []
    · rw [hd, wrap_nil]
      have hne : s.take V ≠ [] := by
        intro hc; have := congrArg List.length hc
        simp only [List.length_take, List.length_nil] at this; omega
      refine ⟨(s.take V).dropLast, (s.take V).getLast hne, ?_, ?_⟩
      · have := List.dropLast_concat_getLast hne
        rw (occs := [1]) [← this]; simp
      · intro hc
        exact h10 (List.mem_of_mem_take (by rw [← hc]; exact List.getLast_mem hne))
    · obtain ⟨Y, c, hY, hc⟩ := ih (s.drop V) (by rw [List.length_drop]; omega) hd
        (fun hm => h10 (List.mem_of_mem_drop hm))
      exact ⟨s.take V ++ 10 :: Y, c, by rw [hY]; simp, hc⟩

/-- **C17.index_rows_no_final_newline**: the index built from a FASTA whose last line is not followed
by a newline is the same as with the newline -/
theorem index_rows_no_final_newline (rs : List Rec) (h : ∀ r ∈ rs, WFRec r) (hne : rs ≠ []) :
    buildIndex (fileOf rs).dropLast = specIndex rs := by
  rw [← (index_rows rs h).1]
  unfold buildIndex
  congr 1
  -- the file ends with a base followed by the newline
  obtain ⟨rs', r, rfl⟩ : ∃ rs' r, rs = rs' ++ [r] := ⟨rs.dropLast, rs.getLast hne, (List.dropLast_concat_getLast hne).symm⟩
  have hr := h r (by simp)
  obtain ⟨Y, c, hY, hc⟩ := wrap_ends r.width hr.width_pos r.seq.length r.seq (Nat.le_refl _) hr.seq_ne hr.seq_nl
  have hf : fileOf (rs' ++ [r]) = (fileOf rs' ++ 62 :: r.header ++ 10 :: Y) ++ [c, 10] := by
    rw [fileOf_append]
    have : fileOf [r] = recBytes r := by simp [fileOf]
    rw [this]; unfold recBytes; rw [hY]; simp
  rw [hf]
  have : ((fileOf rs' ++ 62 :: r.header ++ 10 :: Y) ++ [c, 10]).dropLast = (fileOf rs' ++ 62 :: r.header ++ 10 :: Y) ++ [c] := by
    rw [show [c, 10] = [c] ++ [10] from rfl, ← List.append_assoc, List.dropLast_concat]
  rw [this]
  unfold linesOf
  exact lines_snoc _ c hc []

example : ∃ rs : List Rec, (∀ r ∈ rs, WFRec r) ∧ rs ≠ [] :=
  ⟨[⟨"a d".toList.map Char.toNat, "ACGTACGT".toList.map Char.toNat, 4⟩], by
    intro r hr; simp only [List.mem_singleton] at hr; subst hr
    exact ⟨by decide, by decide, by decide, by decide, by decide⟩, by simp⟩



/-! ### round 4: characterisations in plain list vocabulary, lookup by name -/

/-- **C17.wrap_filter**: the wrapped block is the sequence with newlines inserted — removing the
newline bytes gives back exactly the sequence (no base lost, duplicated or reordered) -/
theorem wrap_filter (W : Nat) (hW : 0 < W) (seq : Bytes) (h : 10 ∉ seq) :
    (wrapBytes W seq).filter (· != 10) = seq := by
  have key : ∀ n, ∀ s : Bytes, s.length ≤ n → 10 ∉ s → (wrapBytes W s).filter (· != 10) = s := by
    intro n
    induction n with
    | zero =>
      intro s hl _
      have : s = [] := List.eq_nil_of_length_eq_zero (by omega)
      subst this; simp [wrap_nil]
    | succ m ih =>
      intro s hl h10
      by_cases hs : s = []
      · subst hs; simp [wrap_nil]
      · have hL : 0 < s.length := by cases s with | nil => exact absurd rfl hs | cons _ _ => simp
        rw [wrap_cons W hW s hs, List.filter_append, List.filter_cons]
        simp only [bne_self_eq_false, Bool.false_eq_true, if_false]
        rw [ih (s.drop W) (by rw [List.length_drop]; omega) (fun hm => h10 (List.mem_of_mem_drop hm))]
        have : (s.take W).filter (· != 10) = s.take W := by
          apply List.filter_eq_self.mpr
          intro b hb
          have : b ≠ 10 := fun hc => h10 (List.mem_of_mem_take (hc ▸ hb))
          simpa using this
        rw [this, List.take_append_drop]
  exact key seq.length seq (Nat.le_refl _) h

/-- every line of the wrapped block has at most `W` bases, all but the last exactly `W` -/
theorem chunks_widths (W : Nat) (hW : 0 < W) (seq : Bytes) :
    (chunks W seq).flatten = seq ∧ ∀ l ∈ chunks W seq, 0 < l.length ∧ l.length ≤ W := by
  have key : ∀ n, ∀ s : Bytes, s.length ≤ n →
      (chunks W s).flatten = s ∧ ∀ l ∈ chunks W s, 0 < l.length ∧ l.length ≤ W := by
    intro n
    induction n with
    | zero =>
      intro s hl
      have : s = [] := List.eq_nil_of_length_eq_zero (by omega)
      subst this; simp [chunks_nil]
    | succ m ih =>
      intro s hl
      by_cases hs : s = []
      · subst hs; simp [chunks_nil]
      · have hL : 0 < s.length := by cases s with | nil => exact absurd rfl hs | cons _ _ => simp
        obtain ⟨i1, i2⟩ := ih (s.drop W) (by rw [List.length_drop]; omega)
        rw [chunks_cons W hW s hs]
        refine ⟨by simp [i1], ?_⟩
        intro l hl'
        simp only [List.mem_cons] at hl'
        rcases hl' with rfl | hl'
        · simp only [List.length_take]; omega
        · exact i2 l hl'
  exact key seq.length seq (Nat.le_refl _)

/-- **C17.delete_eq_filter**: the model of `np.delete` is "keep the elements whose position is not
listed" in standard list vocabulary -/
theorem delete_eq_filter (l : Bytes) (idxs : List Nat) :
    deleteIdx l idxs = (l.zipIdx.filter (fun p => !idxs.contains p.2)).map (·.1) := by
  unfold deleteIdx
  have key : ∀ (i : Nat) (l : Bytes),
      deleteIdxFrom idxs i l = ((l.zipIdx i).filter (fun p => !idxs.contains p.2)).map (·.1) := by
    intro i l
    induction l generalizing i with
    | nil => rfl
    | cons x xs ih =>
      simp only [deleteIdxFrom, List.zipIdx_cons, List.filter_cons]
      cases hc : idxs.contains i with
      | true => simp [ih]
      | false => simp [ih]
  exact key 0 l

/-- **C17.lines_join**: `linesOf` is the inverse of "terminate every line with a newline" -/
theorem lines_join (ls : List Bytes) (h : ∀ l ∈ ls, 10 ∉ l) :
    linesOf (ls.map (· ++ [10])).flatten = ls := by
  unfold linesOf
  induction ls with
  | nil => simp [linesAux]
  | cons l r ih =>
    simp only [List.map_cons, List.flatten_cons, List.append_assoc, List.singleton_append]
    rw [lines_line [] l _ (h l (by simp)), ih (fun x hx => h x (by simp [hx]))]
    simp

/-- **C17.firstWord_spec**: the name is the longest whitespace-free prefix of the header -/
theorem firstWord_spec (h : Bytes) :
    ∃ rest, h = firstWord h ++ rest ∧ (∀ b ∈ firstWord h, isWs b = false) ∧
      (rest = [] ∨ ∃ c t, rest = c :: t ∧ isWs c = true) := by
  unfold firstWord
  induction h with
  | nil => exact ⟨[], rfl, by simp, Or.inl rfl⟩
  | cons c cs ih =>
    by_cases hc : isWs c = true
    · exact ⟨c :: cs, by simp [hc], by simp [hc], Or.inr ⟨c, cs, rfl, hc⟩⟩
    · have hc' : isWs c = false := by simpa using hc
      obtain ⟨rest, e1, e2, e3⟩ := ih
      refine ⟨rest, ?_, ?_, e3⟩
      · simp only [List.takeWhile_cons, hc', Bool.not_false, if_true, List.cons_append]
        rw [← e1]
      · intro b hb
        simp only [List.takeWhile_cons, hc', Bool.not_false, if_true, List.mem_cons] at hb
        rcases hb with rfl | hb
        · exact hc'
        · exact e2 b hb

/-- **C17.lookup_finds**: looking a record up by its name in the built index finds exactly its row,
provided no EARLIER record has the same name (first match wins, as in the `dict` the code builds
the last one would — so names must be distinct for the file to be usable at all) -/
theorem lookup_finds (rs1 rs2 : List Rec) (r : Rec) (hwf : ∀ x ∈ rs1 ++ r :: rs2, WFRec x)
    (hdist : ∀ x ∈ rs1, firstWord x.header ≠ firstWord r.header) :
    ∃ row, lookup (createIndex (fileOf (rs1 ++ r :: rs2))) (firstWord r.header) = some row ∧
      row.name = firstWord r.header ∧ row.rlen = r.seq.length ∧
      fetchContig (fileOf (rs1 ++ r :: rs2)) row = r.seq := by
  obtain ⟨row, hrow, hname, hlen, _, hcontig⟩ := random_access rs1 rs2 r hwf 0 0 (Nat.le_refl _) (Nat.zero_le _)
  refine ⟨row, ?_, hname, hlen, hcontig⟩
  rw [(index_rows _ hwf).2] at hrow ⊢
  unfold specIndex at hrow ⊢
  rw [specIndexFrom_append, List.map_append] at hrow ⊢
  unfold lookup
  rw [List.find?_append]
  have hnone : ((specIndexFrom 0 rs1).map (fun r => { r with name := firstWord r.name })).find?
      (fun x => firstWord x.name == firstWord r.header) = none := by
    rw [List.find?_eq_none]
    intro x hx
    obtain ⟨x0, hx0, rfl⟩ := List.mem_map.mp hx
    simp only [firstWord_idem]
    have : ∃ y ∈ rs1, x0.name = y.header := by
      have key : ∀ (off : Nat) (l : List Rec), x0 ∈ specIndexFrom off l → ∃ y ∈ l, x0.name = y.header := by
        intro off l
        induction l generalizing off with
        | nil => intro hm; simp [specIndexFrom] at hm
        | cons y l ih =>
          intro hm
          simp only [specIndexFrom, List.mem_cons] at hm
          rcases hm with rfl | hm
          · exact ⟨y, by simp, rfl⟩
          · obtain ⟨y', hy', he⟩ := ih _ hm
            exact ⟨y', by simp [hy'], he⟩
      exact key 0 rs1 hx0
    obtain ⟨y, hy, he⟩ := this
    rw [he]
    simpa using hdist y hy
  rw [hnone, Option.none_or]
  rw [List.getElem?_append_right (by simp [length_specIndexFrom])] at hrow
  simp only [List.length_map, length_specIndexFrom, Nat.sub_self, specIndexFrom, List.map_cons,
    List.getElem?_cons_zero, Option.some.injEq] at hrow
  simp only [specIndexFrom, List.map_cons, List.find?_cons]
  rw [← hrow]
  simp [firstWord_idem]


/-- **C17.index_chunk_size_independent**: the index does not depend on how the reader chunks the file -/
theorem index_chunk_size_independent (rs : List Rec) (h : ∀ r ∈ rs, WFRec r) (m1 m2 : C01.Mode) (k1 k2 : Nat)
    (h1 : 0 < k1) (h2 : 0 < k2) :
    createIndexChunked (C01.readAll C01.Fmt.fasta true m1 (fileOf rs) k1)
      = createIndexChunked (C01.readAll C01.Fmt.fasta true m2 (fileOf rs) k2) := by
  rw [index_reader_chunks rs h m1 k1 h1, index_reader_chunks rs h m2 k2 h2]


/-! ### any set of intervals: flat buffer + re-wrap -/

theorem writeAt_zeros (pre p : Bytes) (S : Nat) :
    writeAt (pre ++ List.replicate (p.length + S) 0) pre.length p = pre ++ p ++ List.replicate S 0 := by
  unfold writeAt
  rw [List.take_left, ← List.drop_drop, List.drop_left, ← List.replicate_append_replicate,
    List.drop_left' (by simp)]

theorem fill_pieces (pieces : List Bytes) (pre : Bytes) :
    fillPieces (pre ++ List.replicate (pieces.map List.length).sum 0) pre.length (pieces.zip (pieces.map List.length))
      = pre ++ pieces.flatten := by
  induction pieces generalizing pre with
  | nil => simp [fillPieces]
  | cons p r ih =>
    simp only [List.map_cons, List.sum_cons, List.zip_cons_cons, fillPieces, List.flatten_cons]
    rw [writeAt_zeros]
    have := ih (pre ++ p)
    rw [List.length_append] at this
    rw [this, List.append_assoc]

/-- the flat-buffer assembly returns the pieces themselves whenever every piece has the length the
code allots to it (`stop − start`) -/
theorem assemble_pieces (pieces : List Bytes) (lens : List Nat) (h : pieces.map List.length = lens) :
    C18.unflatten lens (fillPieces (List.replicate lens.sum 0) 0 (pieces.zip lens)) = pieces := by
  subst h
  have := fill_pieces pieces []
  simp only [List.nil_append, List.length_nil] at this
  rw [this]
  exact C18.unflatten_flatten pieces

/-- the explicit row the library builds for the record at a given position -/
theorem row_at (rs1 rs2 : List Rec) (r : Rec) (hwf : ∀ x ∈ rs1 ++ r :: rs2, WFRec x) :
    (createIndex (fileOf (rs1 ++ r :: rs2)))[rs1.length]? =
      some ⟨firstWord r.header, r.seq.length, (fileOf rs1).length + r.header.length + 2,
            min r.width r.seq.length, min r.width r.seq.length + 1⟩ := by
  rw [(index_rows _ hwf).2]
  unfold specIndex
  rw [specIndexFrom_append, List.map_append, List.getElem?_append_right (by simp [length_specIndexFrom])]
  simp [length_specIndexFrom, specIndexFrom]

theorem lookup_explicit (rs1 rs2 : List Rec) (r : Rec) (hwf : ∀ x ∈ rs1 ++ r :: rs2, WFRec x)
    (hdist : ∀ x ∈ rs1, firstWord x.header ≠ firstWord r.header) :
    lookup (createIndex (fileOf (rs1 ++ r :: rs2))) (firstWord r.header) =
      some ⟨firstWord r.header, r.seq.length, (fileOf rs1).length + r.header.length + 2,
            min r.width r.seq.length, min r.width r.seq.length + 1⟩ := by
  obtain ⟨row, hl, _, _, _⟩ := lookup_finds rs1 rs2 r hwf hdist
  -- the row found is the row at the record's position
  have hrow := row_at rs1 rs2 r hwf
  rw [hl]
  congr 1
  -- both are the first row whose name matches; identify through the index structure
  rw [(index_rows _ hwf).2] at hl hrow
  unfold specIndex at hl hrow
  rw [specIndexFrom_append, List.map_append] at hl hrow
  unfold lookup at hl
  rw [List.find?_append] at hl
  have hnone : ((specIndexFrom 0 rs1).map (fun r => { r with name := firstWord r.name })).find?
      (fun x => firstWord x.name == firstWord r.header) = none := by
    rw [List.find?_eq_none]
    intro x hx
    obtain ⟨x0, hx0, rfl⟩ := List.mem_map.mp hx
    simp only [firstWord_idem]
    have key : ∀ (off : Nat) (l : List Rec), x0 ∈ specIndexFrom off l → ∃ y ∈ l, x0.name = y.header := by
      intro off l
      induction l generalizing off with
      | nil => intro hm; simp [specIndexFrom] at hm
      | cons y l ih =>
        intro hm
        simp only [specIndexFrom, List.mem_cons] at hm
        rcases hm with rfl | hm
        · exact ⟨y, by simp, rfl⟩
        · obtain ⟨y', hy', he⟩ := ih _ hm
          exact ⟨y', by simp [hy'], he⟩
    obtain ⟨y, hy, he⟩ := key 0 rs1 hx0
    rw [he]
    simpa using hdist y hy
  rw [hnone, Option.none_or] at hl
  rw [List.getElem?_append_right (by simp [length_specIndexFrom])] at hrow
  simp only [List.length_map, length_specIndexFrom, Nat.sub_self, specIndexFrom, List.map_cons,
    List.getElem?_cons_zero, Option.some.injEq] at hrow
  simp only [specIndexFrom, List.map_cons, List.find?_cons, firstWord_idem, beq_self_eq_true] at hl
  rw [← hrow]
  exact (Option.some.inj hl).symm

theorem fileOf_cons (r : Rec) (rs : List Rec) : fileOf (r :: rs) = recBytes r ++ fileOf rs := by simp [fileOf]

/-- one interval by name on a whole file, with the bounds check of `np.delete` -/
theorem fetch_by_name (rs1 rs2 : List Rec) (r : Rec) (hwf : ∀ x ∈ rs1 ++ r :: rs2, WFRec x)
    (hdist : ∀ x ∈ rs1, firstWord x.header ≠ firstWord r.header) (a b : Nat) (hab : a ≤ b) (hb : b ≤ r.seq.length) :
    fetchNamed (fileOf (rs1 ++ r :: rs2)) (createIndex (fileOf (rs1 ++ r :: rs2))) (firstWord r.header, a, b)
      = some ((r.seq.drop a).take (b - a)) := by
  unfold fetchNamed
  simp only
  rw [lookup_explicit rs1 rs2 r hwf hdist]
  have hr : WFRec r := hwf r (by simp)
  obtain ⟨pre, hpre⟩ : ∃ pre, pre = fileOf rs1 ++ (62 :: r.header ++ [10]) := ⟨_, rfl⟩
  have hplen : pre.length = (fileOf rs1).length + r.header.length + 2 := by rw [hpre]; simp; omega
  have hlast := wrap_ok' r.width hr.width_pos r.seq hr.seq_ne
  have hne : wrapBytes r.width r.seq ≠ [] := by intro hc; rw [hc] at hlast; simp at hlast
  have hsplit : wrapBytes r.width r.seq = (wrapBytes r.width r.seq).dropLast ++ [10] := by
    have h1 := List.dropLast_concat_getLast hne
    have h2 : (wrapBytes r.width r.seq).getLast hne = 10 := by
      rw [List.getLast?_eq_some_getLast hne] at hlast; exact Option.some.inj hlast
    rw [h2] at h1; exact h1.symm
  have hfile : fileOf (rs1 ++ r :: rs2) = pre ++ (wrapBytes r.width r.seq).dropLast ++ (10 :: fileOf rs2) := by
    rw [hpre, fileOf_append, fileOf_cons]
    unfold recBytes
    rw (occs := [1]) [hsplit]
    simp
  rw [hfile, ← hplen]
  exact fetch_interval_checked pre r.seq (10 :: fileOf rs2) r.width hr.width_pos hr.seq_ne _ a b hab hb
    (Or.inr ⟨fileOf rs2, rfl⟩)

/-- **C17.interval_set**: fetching ANY list of in-bounds intervals (any number, any order, repeats,
several records, names looked up in the built index) from a file of well-formed records with pairwise
distinct names returns exactly the list of the corresponding substrings — per-interval reads with
NumPy's bounds check, the flat pre-allocated buffer and the ragged re-wrap included -/
theorem interval_set (rs : List Rec) (hwf : ∀ r ∈ rs, WFRec r)
    (hnames : (rs.map (fun r => firstWord r.header)).Pairwise (· ≠ ·))
    (ivs : List (Rec × Nat × Nat)) (hiv : ∀ q ∈ ivs, q.1 ∈ rs ∧ q.2.1 ≤ q.2.2 ∧ q.2.2 ≤ q.1.seq.length) :
    getIntervalSequences (fileOf rs) (createIndex (fileOf rs))
        (ivs.map (fun q => (firstWord q.1.header, q.2.1, q.2.2)))
      = some (ivs.map (fun q => (q.1.seq.drop q.2.1).take (q.2.2 - q.2.1))) := by
  unfold getIntervalSequences
  have hpieces : omap (fetchNamed (fileOf rs) (createIndex (fileOf rs))) (ivs.map (fun q => (firstWord q.1.header, q.2.1, q.2.2)))
      = some (ivs.map (fun q => (q.1.seq.drop q.2.1).take (q.2.2 - q.2.1))) := by
    apply omap_map_map
    intro q hq
    obtain ⟨hmem, hab, hb⟩ := hiv q hq
    obtain ⟨rs1, rs2, hsplit⟩ := List.append_of_mem hmem
    have hd : ∀ x ∈ rs1, firstWord x.header ≠ firstWord q.1.header := by
      rw [hsplit, List.map_append, List.pairwise_append] at hnames
      intro x hx
      exact hnames.2.2 _ (List.mem_map.mpr ⟨x, hx, rfl⟩) _ (by simp)
    have := fetch_by_name rs1 rs2 q.1 (by rw [← hsplit]; exact hwf) hd q.2.1 q.2.2 hab hb
    rw [← hsplit] at this
    exact this
  rw [hpieces]
  simp only [Option.some.injEq, List.map_map]
  apply assemble_pieces
  rw [List.map_map]
  apply List.map_congr_left
  intro q hq
  obtain ⟨_, hab, hb⟩ := hiv q hq
  simp only [Function.comp, List.length_take, List.length_drop]
  omega



/-! ### blank-line-separated records -/

theorem lines_blank (k : Nat) (rest : Bytes) :
    linesAux [] (List.replicate k 10 ++ rest) = List.replicate k [] ++ linesAux [] rest := by
  induction k with
  | zero => simp
  | succ n ih => simp [List.replicate_succ, linesAux, ih]

def recLinesB (p : Rec × Nat) : List Bytes := recLines p.1 ++ List.replicate p.2 []

theorem lines_fileB (rs : List (Rec × Nat)) (h : ∀ p ∈ rs, WFRec p.1) :
    linesOf (fileOfB rs) = (rs.map recLinesB).flatten := by
  unfold linesOf
  induction rs with
  | nil => simp [fileOfB, linesAux]
  | cons p rs ih =>
    obtain ⟨r, k⟩ := p
    have hr := h (r, k) (by simp)
    have e : fileOfB ((r, k) :: rs) = (62 :: r.header) ++ 10 :: (wrapBytes r.width r.seq ++ (List.replicate k 10 ++ fileOfB rs)) := by
      simp [fileOfB, recBytes]
    rw [e, lines_line [] _ _ (by
      intro hm
      simp only [List.mem_cons] at hm
      cases hm with | inl hm => omega | inr hm => exact hr.header_nl hm)]
    rw [lines_wrap r.width hr.width_pos r.seq _ hr.seq_nl, lines_blank, ih (fun x hx => h x (by simp [hx]))]
    simp [recLinesB, recLines]

theorem sum_replicate_zero (k : Nat) : ((List.replicate k ([] : Bytes)).map List.length).sum = 0 := by
  induction k with
  | zero => rfl
  | succ n ih => simp [List.replicate_succ]

theorem sum_replicate_one (k : Nat) : ((List.replicate k ([] : Bytes)).map (fun l => l.length + 1)).sum = k := by
  induction k with
  | zero => rfl
  | succ n ih => simp [List.replicate_succ, ih]; omega

theorem index_fromB (off : Nat) (rs : List (Rec × Nat)) (h : ∀ p ∈ rs, WFRec p.1) :
    indexLines off (rs.map recLinesB).flatten = specIndexFromB off rs := by
  induction rs generalizing off with
  | nil => simp [specIndexFromB]; rw [indexLines]
  | cons p rs ih =>
    obtain ⟨r, k⟩ := p
    have hr := h (r, k) (by simp)
    obtain ⟨c1, c2, c3, c4⟩ := chunks_props r.width hr.width_pos r.seq hr.seq_marker
    have hne : chunks r.width r.seq ≠ [] := by
      rw [chunks_cons r.width hr.width_pos r.seq hr.seq_ne]; simp
    have hstop : (rs.map recLinesB).flatten = [] ∨
        ∃ y ys, (rs.map recLinesB).flatten = y :: ys ∧ (fun l => !isHeader l) y = false := by
      cases rs with
      | nil => left; rfl
      | cons p2 rs2 =>
        right
        exact ⟨62 :: p2.1.header, chunks p2.1.width p2.1.seq ++ List.replicate p2.2 [] ++ (rs2.map recLinesB).flatten,
          by simp [recLinesB, recLines], by simp [isHeader]⟩
    obtain ⟨t1, t2⟩ := takeWhile_append_stop (fun l => !isHeader l) (chunks r.width r.seq ++ List.replicate k []) _
      (fun x hx => by
        rcases List.mem_append.mp hx with hx | hx
        · simp [c1 x hx]
        · have := List.eq_of_mem_replicate hx
          subst this; simp [isHeader]) hstop
    have e : (((r, k) :: rs).map recLinesB).flatten
        = (62 :: r.header) :: ((chunks r.width r.seq ++ List.replicate k []) ++ (rs.map recLinesB).flatten) := by
      simp [recLinesB, recLines]
    rw [e, indexLines]
    have hhead : ((chunks r.width r.seq ++ List.replicate k []).headD []).length = min r.width r.seq.length := by
      cases hc : chunks r.width r.seq with
      | nil => exact absurd hc hne
      | cons x xs => rw [hc] at c4; simpa using c4
    simp only [t1, t2, List.map_append, List.sum_append, c2, c3, hhead, sum_replicate_zero, sum_replicate_one,
      specIndexFromB, List.length_cons, List.drop_succ_cons, List.drop_zero, Nat.add_zero]
    rw [ih _ (fun x hx => h x (by simp [hx]))]
    congr 2 <;> omega

/-- **C17.index_rows_blank**: records separated by blank lines (any number of empty lines after any
record, the last one included; last sequence line short, full or the only one): the built index still
lists header, TRUE sequence length (the sum of the line lengths, not a product of line count and width),
offset of the first base, bases per line and bytes per line; the empty lines only move later offsets -/
theorem index_rows_blank (rs : List (Rec × Nat)) (h : ∀ p ∈ rs, WFRec p.1) :
    buildIndex (fileOfB rs) = specIndexFromB 0 rs ∧
    contigLengths (createIndex (fileOfB rs)) = rs.map (fun p => (firstWord p.1.header, p.1.seq.length)) := by
  have hb : buildIndex (fileOfB rs) = specIndexFromB 0 rs := by
    unfold buildIndex; rw [lines_fileB rs h, index_fromB 0 rs h]
  refine ⟨hb, ?_⟩
  unfold createIndex contigLengths
  rw [hb, List.map_map]
  have key : ∀ (off : Nat) (l : List (Rec × Nat)),
      (specIndexFromB off l).map ((fun r : IdxRow => (firstWord r.name, r.rlen)) ∘ fun r => { r with name := firstWord r.name })
        = l.map (fun p => (firstWord p.1.header, p.1.seq.length)) := by
    intro off l
    induction l generalizing off with
    | nil => rfl
    | cons p l ih => obtain ⟨r, k⟩ := p; simp [specIndexFromB, ih, firstWord_idem]
  exact key 0 rs

example : ∃ rs : List (Rec × Nat), (∀ p ∈ rs, WFRec p.1) ∧ rs.map (·.2) = [2, 0] :=
  ⟨[(⟨"a d".toList.map Char.toNat, "ACGTACG".toList.map Char.toNat, 5⟩, 2), (⟨"b".toList.map Char.toNat, "TT".toList.map Char.toNat, 60⟩, 0)], by
    intro p hp
    simp only [List.mem_cons, List.not_mem_nil, or_false] at hp
    rcases hp with rfl | rfl <;> exact ⟨by decide, by decide, by decide, by decide, by decide⟩, rfl⟩


section Traced
open Gen.C17

/-! ### the hand model's row/offset arithmetic IS the arithmetic traced from the code -/

theorem fdiv_nat (x y : Nat) : Int.fdiv (x : Int) (y : Int) = ((x / y : Nat) : Int) := by
  rw [Int.fdiv_eq_ediv_of_nonneg _ (by omega)]; simp

theorem fmod_nat (x y : Nat) : Int.fmod (x : Int) (y : Int) = ((x % y : Nat) : Int) := by
  rw [Int.fmod_eq_emod_of_nonneg _ (by omega)]; simp

theorem cast_pred_add (r c : Nat) (hr : 0 < r) : ((r : Int) + (c : Int) - 1) = ((r + c - 1 : Nat) : Int) := by
  omega

/-- **C17.traced_kernel**: on natural-number arguments with a positive line width (`0 < lenc`: the
statement is not claimed where the code would divide by zero) the expressions traced from the running
`get_interval_sequences` are exactly the quantities the model uses (seek position, read length,
number of deleted newline positions, start column), and the row length the code claims for an
interval is `b − a` whenever `lenb = lenc + 1` -/
theorem traced_kernel (a b rlen offset lenc lenb : Nat) (_hc : 0 < lenc) :
    trSeek a b rlen offset lenc lenb = ((offset + (a / lenc * lenb + a % lenc) : Nat) : Int) ∧
    (trReadLen a b rlen offset lenc lenb).toNat = (b / lenc * lenb + b % lenc) - (a / lenc * lenb + a % lenc) ∧
    (trNDel a b rlen offset lenc lenb).toNat = b / lenc - a / lenc ∧
    trStartMod a b rlen offset lenc lenb = ((a % lenc : Nat) : Int) ∧
    (a ≤ b → lenb = lenc + 1 → trRowLen a b rlen offset lenc lenb = ((b - a : Nat) : Int)) := by
  unfold trSeek trReadLen trNDel trStartMod trRowLen
  simp only [fdiv_nat, fmod_nat]
  obtain ⟨qa, hqa⟩ : ∃ qa, qa = a / lenc := ⟨_, rfl⟩
  obtain ⟨qb, hqb⟩ : ∃ qb, qb = b / lenc := ⟨_, rfl⟩
  obtain ⟨ra, hra⟩ : ∃ ra, ra = a % lenc := ⟨_, rfl⟩
  obtain ⟨rb, hrb⟩ : ∃ rb, rb = b % lenc := ⟨_, rfl⟩
  have h1 := Nat.div_add_mod a lenc
  have h2 := Nat.div_add_mod b lenc
  rw [← hqa, ← hra] at h1
  rw [← hqb, ← hrb] at h2
  simp only [← hqa, ← hqb, ← hra, ← hrb]
  refine ⟨?_, ?_, by omega, trivial, ?_⟩
  · rw [Int.natCast_add, Int.natCast_add, Int.natCast_mul]
  · rw [← Int.natCast_mul, ← Int.natCast_mul, ← Int.natCast_add, ← Int.natCast_add]; omega
  · intro hab hl
    subst hl
    have hq : qa ≤ qb := by rw [hqa, hqb]; exact Nat.div_le_div_right hab
    have hA : (a : Int) = (qa : Int) * (lenc : Int) + (ra : Int) := by
      rw [← h1, Int.natCast_add, Int.natCast_mul, Int.mul_comm]
    have hB : (b : Int) = (qb : Int) * (lenc : Int) + (rb : Int) := by
      rw [← h2, Int.natCast_add, Int.natCast_mul, Int.mul_comm]
    rw [Int.natCast_sub hab, hA, hB, Int.natCast_add, Int.natCast_one, Int.mul_add, Int.mul_add, Int.mul_one, Int.mul_one]
    generalize (qa : Int) * (lenc : Int) = X
    generalize (qb : Int) * (lenc : Int) = Y
    omega

/-- the row count and whole-contig read length traced from `__getitem__` are the model's
(`rlen ≥ 1`, `lenc ≥ 1`) -/
theorem traced_bytes_to_read (a b rlen offset lenc lenb : Nat) (hr : 0 < rlen) (hc : 0 < lenc) :
    trNRows a b rlen offset lenc lenb = (((rlen + lenc - 1) / lenc : Nat) : Int) ∧
    trBytesToRead a b rlen offset lenc lenb =
      ((((rlen + lenc - 1) / lenc - 1) * lenb + (rlen - ((rlen + lenc - 1) / lenc - 1) * lenc) : Nat) : Int) := by
  unfold trNRows trBytesToRead
  rw [cast_pred_add rlen lenc hr, fdiv_nat]
  refine ⟨rfl, ?_⟩
  obtain ⟨n, hn⟩ : ∃ n, n = (rlen + lenc - 1) / lenc := ⟨_, rfl⟩
  rw [← hn]
  have hn' : n = (rlen - 1) / lenc + 1 := by
    rw [hn, show rlen + lenc - 1 = (rlen - 1) + lenc by omega, Nat.add_div_right _ hc]
  obtain ⟨m, hm⟩ : ∃ m, m = (rlen - 1) / lenc := ⟨_, rfl⟩
  rw [← hm] at hn'
  have hle : m * lenc ≤ rlen := by
    have := Nat.div_mul_le_self (rlen - 1) lenc
    rw [← hm] at this; omega
  subst hn'
  simp only [Nat.add_sub_cancel]
  have e0 : (((m + 1 : Nat) : Int) - 1) = (m : Int) := by omega
  rw [e0]
  have e1 : ((m * lenb + (rlen - m * lenc) : Nat) : Int) = (m : Int) * (lenb : Int) + ((rlen : Int) - (m : Int) * (lenc : Int)) := by
    rw [Int.natCast_add, Int.natCast_sub hle, Int.natCast_mul, Int.natCast_mul]
  rw [e1]


/-- **C17.fetch_uses_traced**: the model's interval read is the traced arithmetic plugged into the
file and `np.delete` externals — so `fetch_interval` / `random_access` are statements about what the
running code computes for these quantities -/
theorem fetch_uses_traced (file : Bytes) (r : IdxRow) (a b : Nat) (hc : 0 < r.lenc) :
    fetchInterval file r a b =
      deleteIdx (readAt file (trSeek a b r.rlen r.offset r.lenc r.lenb).toNat
                             (trReadLen a b r.rlen r.offset r.lenc r.lenb).toNat)
        ((List.range (trNDel a b r.rlen r.offset r.lenc r.lenb).toNat).map
          (fun j => r.lenb * (j + 1) - 1 - (trStartMod a b r.rlen r.offset r.lenc r.lenb).toNat)) := by
  obtain ⟨h1, h2, h3, h4, _⟩ := traced_kernel a b r.rlen r.offset r.lenc r.lenb hc
  rw [h1, h2, h3, h4]
  rfl


/-- **C17.fast_path_same**: the vectorised interval path (string-encoded chromosomes) computes, for
ALL integer arguments, the same seek position, read length, number of deleted newlines and start
column as the scalar path — so `fetch_uses_traced`, `fetch_interval` and `random_access` hold for
both code paths — and the row length it allocates is `b − a` -/
theorem fast_path_same (a b rlen offset lenc lenb : Int) (_hc : 0 < lenc) :
    trFastSeek a b rlen offset lenc lenb = trSeek a b rlen offset lenc lenb ∧
    trFastReadLen a b rlen offset lenc lenb = trReadLen a b rlen offset lenc lenb ∧
    trFastNDel a b rlen offset lenc lenb = trNDel a b rlen offset lenc lenb ∧
    trFastStartMod a b rlen offset lenc lenb = trStartMod a b rlen offset lenc lenb ∧
    trFastRowLen a b rlen offset lenc lenb = b - a := by
  unfold trFastSeek trSeek trFastReadLen trReadLen trFastNDel trNDel trFastStartMod trStartMod trFastRowLen
  refine ⟨by omega, by omega, by omega, by omega, by omega⟩

example : (0 : Nat) < (⟨[97], 7, 3, 5, 6⟩ : IdxRow).lenc := by decide

end Traced

/-- the rule shipped before the repair reported bases-per-line: for `>a\nACGTA\nCG\n` (index row
`a 7 3 5 6`, see `index_rows`) it gave `{'a': 5}`; the true length is 7 -/
theorem contig_lengths_old_unsound :
    contigLengthsOld [⟨"a".toList.map Char.toNat, 7, 3, 5, 6⟩] = [("a".toList.map Char.toNat, 5)] ∧
    contigLengths [⟨"a".toList.map Char.toNat, 7, 3, 5, 6⟩] = [("a".toList.map Char.toNat, 7)] := by decide

end C17
