import Lean.Data.Json
/-! JSON line protocol helpers for the correspondence driver (not part of any model). -/
namespace Proto
open Lean

def getNat (j : Json) (k : String) : Except String Nat := do
  let v ← j.getObjVal? k
  v.getNat?

def getInt (j : Json) (k : String) : Except String Int := do
  let v ← j.getObjVal? k
  v.getInt?

def getStr (j : Json) (k : String) : Except String String := do
  let v ← j.getObjVal? k
  v.getStr?

def getBool (j : Json) (k : String) : Except String Bool := do
  let v ← j.getObjVal? k
  v.getBool?

def asNatList (v : Json) : Except String (List Nat) := do
  let a ← v.getArr?
  a.toList.mapM (·.getNat?)

def asIntList (v : Json) : Except String (List Int) := do
  let a ← v.getArr?
  a.toList.mapM (·.getInt?)

def getNatList (j : Json) (k : String) : Except String (List Nat) := do
  asNatList (← j.getObjVal? k)

def getIntList (j : Json) (k : String) : Except String (List Int) := do
  asIntList (← j.getObjVal? k)

def getNatListList (j : Json) (k : String) : Except String (List (List Nat)) := do
  let a ← (← j.getObjVal? k).getArr?
  a.toList.mapM asNatList

def getIntListList (j : Json) (k : String) : Except String (List (List Int)) := do
  let a ← (← j.getObjVal? k).getArr?
  a.toList.mapM asIntList

def getArr (j : Json) (k : String) : Except String (List Json) := do
  let a ← (← j.getObjVal? k).getArr?
  pure a.toList

def natList (l : List Nat) : Json := Json.arr (l.map (fun n => Json.num (JsonNumber.fromNat n))).toArray
def intList (l : List Int) : Json := Json.arr (l.map (fun n => Json.num (JsonNumber.fromInt n))).toArray
def natListList (l : List (List Nat)) : Json := Json.arr (l.map natList).toArray
def intListList (l : List (List Int)) : Json := Json.arr (l.map intList).toArray
def boolList (l : List Bool) : Json := Json.arr (l.map Json.bool).toArray
def str (s : String) : Json := Json.str s
def nat (n : Nat) : Json := Json.num (JsonNumber.fromNat n)
def int (n : Int) : Json := Json.num (JsonNumber.fromInt n)

/-- reply with model value `m` and (optionally) spec value `s` -/
def reply (m : Json) (s : Option Json := none) : Json :=
  match s with
  | some s => Json.mkObj [("m", m), ("s", s)]
  | none => Json.mkObj [("m", m)]

/-- the driver loop: one JSON case per line on stdin (fields "op" and the case), one JSON reply per line on stdout -/
partial def loop (handle : String → Json → Except String Json) (h : IO.FS.Stream) (out : IO.FS.Stream) : IO Unit := do
  let line ← h.getLine
  if line.isEmpty then return ()
  let l := line.trimAscii.toString
  if l.isEmpty then loop handle h out else
  let r : Json := match Json.parse l with
    | .error e => Json.mkObj [("err", Json.str s!"parse: {e}")]
    | .ok j => match (do let op ← getStr j "op"; handle op j) with
      | .ok v => v
      | .error e => Json.mkObj [("err", Json.str e)]
  out.putStrLn r.compress
  loop handle h out

def mainLoop (handle : String → Json → Except String Json) : IO Unit := do
  loop handle (← IO.getStdin) (← IO.getStdout)

end Proto
