import BnpVerif.Proto
import BnpVerif.Model.C02
import BnpVerif.Gen.C02
namespace Drv.C02
open Lean Proto _root_.C02

def txt (b : Bytes) : Json := Json.str (String.ofList (b.map Char.ofNat))

def colJ : Col → Json
  | .ints v => intList v
  | .strs v => Json.arr (v.map txt).toArray
  | .floats v => Json.arr (v.map (fun b => Json.str ("t:" ++ String.ofList (b.map Char.ofNat)))).toArray
  | .intLists v => intListList v
  | .bools v => boolList v
  | .strLists v => Json.arr (v.map (fun r => Json.arr (r.map txt).toArray)).toArray
  | .floatLists v => Json.arr (v.map (fun r => Json.arr (r.map (fun b => Json.str ("t:" ++ String.ofList (b.map Char.ofNat)))).toArray)).toArray

def resJ (r : Nat × List Col) : Json :=
  Json.mkObj [("n", nat r.1), ("cols", Json.arr (r.2.map colJ).toArray)]

def errJ : Err → Json
  | .format _ => Json.mkObj [("err", str "format")]
  | .shape => Json.mkObj [("err", str "other:shape")]
  | .other => Json.mkObj [("err", str "other")]
  | .encoding => Json.mkObj [("err", str "encoding")]

def pickKept {α : Type} (keep : List Bool) (l : List α) : List α := ((List.zip keep l).filter (·.1)).map (·.2)

def findFmt (n : String) : Except String Schema :=
  match Gen.C02.all.find? (·.1 == n) with
  | some p => pure p.2
  | none => throw s!"unknown format {n}"

def handle (op : String) (j : Json) : Except String Json := do
  match op with
  | "parse" =>
    let fmt ← getStr j "fmt"
    let S ← findFmt fmt
    let text ← getStr j "text"
    let via ← getStr j "via"
    let bs : Bytes := text.toList.map Char.toNat
    let viaOpen := via == "open"
    let flavour := (j.getObjValAs? String "flavour").toOption.getD "VCFBuffer"
    let defsJ := (j.getObjVal? "info_defs").toOption
    let defs : List (String × String) := match defsJ with
      | some (Json.arr a) => a.toList.filterMap (fun kd => match kd with
          | Json.arr #[Json.str k, Json.str d] => some (k, d)
          | _ => none)
      | _ => []
    let extended := fmt == "vcf" && (defs != [] || flavour != "VCFBuffer" && flavour != "VCFWithInfoAsStringBuffer")
    let m := if fmt == "vcf" then
        match parseVcfX S Gen.C02.vcfPosShift flavour defs (if viaOpen then ensureNl (dropHeader S.comment bs) else bs) with
        | .ok r =>
          let infoJ := match r.info with
            | .inl c => colJ c
            | .inr cs => Json.mkObj (cs.map (fun kc => (kc.1, colJ kc.2)))
          Json.mkObj [("n", nat r.n), ("cols", Json.arr ((r.fixed.map colJ) ++ [infoJ] ++ (match r.geno with | some g => [colJ g] | none => [])).toArray)]
        | .error e => errJ e
      else match parseFile fmt S viaOpen bs Gen.C02.vcfPosShift ((getNatList j "sel_idx").toOption) with
      | .ok r => resJ r
      | .error e => errJ e
    let selIdx := (getNatList j "sel_idx").toOption
    let s : Option Json :=
      if fmt = "fasta" then ((specFasta bs).bind (resPick? selIdx)).map resJ
      else match docKline.find? (·.1 == fmt) with
      | some (_, k, mk) => ((specKline k mk bs).bind (resPick? selIdx)).map resJ
      | none => if extended then none else ((specParse fmt viaOpen bs).bind (resPick? selIdx)).map resJ
    pure (reply m s)
  | "attrs" =>
    let fmt ← getStr j "fmt"
    let S ← findFmt fmt
    let text ← getStr j "text"
    let feature ← getStr j "feature"
    let keys ← (← getArr j "keys").mapM (·.getStr?)
    let bs : Bytes := text.toList.map Char.toNat
    let m := match parseFile fmt S true bs with
      | .error e => errJ e
      | .ok r =>
        match r.2[2]?, r.2[3]?, r.2[8]? with
        | some (Col.strs fts), some (Col.ints starts), some (Col.strs attrs) =>
          let keep := fts.map (fun f => f == feature.toList.map Char.toNat)
          let sel := pickKept keep attrs
          let ids := keys.map (fun k =>
            let kb := k.toList.map Char.toNat
            (k, Json.arr ((if fmt == "gtf" then gtfAttr kb sel else gffAttr kb sel).map txt).toArray))
          Json.mkObj [("n", nat sel.length), ("start", intList (pickKept keep starts)), ("ids", Json.mkObj ids)]
        | _, _, _ => errJ Err.other
    pure (reply m none)
  | _ => throw s!"C02: unknown op {op}"

end Drv.C02
