import BnpVerif.Proto
import BnpVerif.Model.C18
namespace Drv.C18
open Lean Proto _root_.C18

def toB (s : String) : Bytes := s.toList.map Char.toNat
def ofB (b : Bytes) : String := String.ofList (b.map Char.ofNat)

def getStrList (j : Json) (k : String) : Except String (List String) := do
  let a ← (← j.getObjVal? k).getArr?
  a.toList.mapM (·.getStr?)

def strList (l : List Bytes) : Json := Json.arr (l.map (fun b => Json.str (ofB b))).toArray
def errEnc : Json := Json.mkObj [("err", str "encoding")]
def decJ (d : Dec) : Json := Json.mkObj [("m", int d.m), ("e", int d.e)]
def optDecList (l : List (Option Dec)) : Json :=
  Json.arr (l.map (fun o => match o with | some d => decJ d | none => Json.null)).toArray

def handle (op : String) (j : Json) : Except String Json := do
  match op with
  | "fmt" =>
    let ns ← getIntList j "ns"
    pure (reply (strList (intsToStrings ns)) (some (strList (ns.map decimal))))
  | "parse" =>
    let rows := (← getStrList j "rows").map toB
    let m := match strToInt rows with
      | some vs => intList vs
      | none => errEnc
    let s := match Base.omap specParse rows with
      | some vs => if vs.all inInt64 then intList vs else Json.null
      | none => Json.null
    pure (reply m (some s))
  | "parse1" =>
    let t := toB (← getStr j "s")
    let m := match strToInt1 t with
      | some v => int v
      | none => errEnc
    let s := match specNat t with
      | some v => if inInt64 v then int v else Json.null
      | none => Json.null
    pure (reply m (some s))
  | "intlists" =>
    let rows ← getIntListList j "rows"
    let keep ← getBool j "keep_last"
    pure (reply (strList (intListsToStrings rows 44 keep)) (some (strList (specJoin rows 44 keep))))
  | "splitparse" =>
    let t := toB (← getStr j "text")
    let m := match splitParse t 44 with
      | some vs => intList vs
      | none => errEnc
    pure (reply m none)
  | "column_ints" =>
    let rows := (← getStrList j "rows").map toB
    let m := match columnInts rows with
      | some vs => intList vs
      | none => errEnc
    let s := match Base.omap specParse rows with
      | some vs => if vs.all inInt64 then intList vs else Json.null
      | none => Json.null
    pure (reply m (some s))
  | "lazy_ints" =>
    -- the integer columns a program on a lazily read table looked at: each read names the column and the rows selected
    -- at that moment (positions in the file); the model lays the table out as text, compacts the selection
    -- (`_make_contigous`) and reads the column from the compacted text (digit matrix / ragged route by the SELECTED rows)
    let ls ← (← j.getObjVal? "lines").getArr?
    let lines ← ls.toList.mapM (fun b => do
      let a ← b.getArr?
      let l ← a.toList.mapM (·.getStr?)
      pure (l.map toB))
    let rs ← (← j.getObjVal? "reads").getArr?
    let reads ← rs.toList.mapM (fun r => do
      let col ← getNat r "col"
      let sel ← getNatList r "sel"
      pure (col, sel))
    let m := reads.map (fun (col, sel) => match lazyColumnInts lines col sel with
      | some vs => intList vs
      | none => errEnc)
    let s := reads.map (fun (col, sel) =>
      match Base.omap specParse (sel.map (fun i => (lines.getD i []).getD col [])) with
      | some vs => if vs.all inInt64 then intList vs else Json.null
      | none => Json.null)
    pure (reply (Json.arr m.toArray) (some (Json.arr s.toArray)))
  | "parse_missing" =>
    let rows := (← getStrList j "rows").map toB
    let miss ← getInt j "missing"
    let m := match strToIntWithMissing rows miss with
      | some vs => intList vs
      | none => errEnc
    let s := intList (rows.map (fun r => if isMissing r then miss else (specParse r).getD 0))
    pure (reply m (some s))
  | "join" =>
    let strs := (← getStrList j "strs").map toB
    let sep := (toB (← getStr j "sep")).headD 44
    let keep ← getBool j "keep_last"
    let sp := if keep then (strs.map (· ++ [sep])).flatten else List.intercalate [sep] strs
    pure (reply (Json.str (ofB (join strs sep keep))) (some (Json.str (ofB sp))))
  | "split" =>
    let t := toB (← getStr j "text")
    let seps := (← getStrList j "seps").map (fun x => (toB x).headD 44)
    pure (reply (strList (splitBy (fun b => seps.contains b) t)) none)
  | "boollists" =>
    let rows ← getNatListList j "rows"
    let m := match digitListsToStrings rows with
      | some l => strList l
      | none => Json.mkObj [("err", str "other")]
    pure (reply m (some (strList (rows.map (fun r => r.map (fun d => 48 + d))))))
  | "fparse_missing" =>
    let rows := (← getStrList j "rows").map toB
    let one (f : Bytes → Option Dec) (r : Bytes) : Json :=
      if isMissing r then Json.str "missing" else match f r with
        | some d => decJ d
        | none => Json.null
    pure (reply (Json.arr (rows.map (one strToFloatRow)).toArray) (some (Json.arr (rows.map (one specFloat)).toArray)))
  | "frepr" =>
    -- texts produced by float_to_strings: they must have the repr shape, then the parser's logic is applied
    let rows := (← getStrList j "rows").map toB
    pure (reply (optDecList (rows.map reprParse)) (some (optDecList (rows.map specFloat))))
  | "fparse" =>
    let rows := (← getStrList j "rows").map toB
    pure (reply (optDecList (rows.map strToFloatRow)) (some (optDecList (rows.map specFloat))))
  | _ => throw s!"C18: unknown op {op}"

end Drv.C18
