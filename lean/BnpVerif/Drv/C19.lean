import BnpVerif.Proto
import BnpVerif.Model.C19
namespace Drv.C19
open Lean Proto _root_.C19

def errJ : Json := Json.mkObj [("err", str "raise")]

def getBoolList (j : Json) (k : String) : Except String (List Bool) := do
  let a ← (← j.getObjVal? k).getArr?
  a.toList.mapM (·.getBool?)

def parseOp (v : Json) : Except String (Op Int × Int) := do
  let k ← getStr v "k"
  match k with
  | "take" => pure (.take (← getNatList v "ix"), 1)
  | "mask" => pure (.mask (← getBoolList v "m"), 1)
  | "concat" => pure (.concat (← getIntListList v "other"), 1)
  | "concatL" => pure (.concatL (← getIntListList v "other"), 1)
  | "sort" =>
    let tbl ← getIntListList v "keys"
    let key : Int → Int := fun x => match tbl.find? (fun p => p.head? == some x) with
      | some [_, r] => r
      | _ => 0
    pure (.sortBy (← getNat v "j") key, 1)
  | "pred" =>
    -- `t[t.f == v]` (how = "eq"), `!=` ("ne"), `np.isin(t.f, vs)` ("isin"): `vals` are the cell codes compared with
    let vals ← getIntList v "vals"
    let how ← getStr v "how"
    let p : Int → Bool := fun x => if how == "ne" then !(vals.contains x) else vals.contains x
    pure (.predMask (← getNat v "j") p, 1)
  | "replace" => pure (.replace (← getNat v "j") (← getIntList v "c"), 1)
  | "add" => pure (.addFields (← getIntListList v "new"), 1)
  | _ => throw s!"unknown op {k}"

/-- schema JSON: a list of `[name, "leaf"]` / `[name, [sub-schema…]]`; leaf `i` (in order) gets the one-cell column `[i]` -/
partial def parseFields (v : Json) (next : Nat) : Except String (List (C19.Name × Tab Int) × Nat) := do
  let arr ← v.getArr?
  let mut out : List (C19.Name × Tab Int) := []
  let mut n := next
  for f in arr.toList do
    let pair ← f.getArr?
    let nm ← (pair[0]!).getStr?
    let name : C19.Name := nm.toList.map (·.toNat)
    match (pair[1]!).getStr? with
    | .ok _ =>
      out := out ++ [(name, Tab.col [(n : Int)])]
      n := n + 1
    | .error _ =>
      let (sub, n') ← parseFields (pair[1]!) n
      out := out ++ [(name, Tab.tab sub)]
      n := n'
  pure (out, n)

def keyStr (k : C19.Name) : String := String.ofList (k.map Char.ofNat)

mutual
partial def tabEq : Tab Int → Tab Int → Bool
  | .col a, .col b => a == b
  | .tab a, .tab b => fieldsEq a b
  | _, _ => false
partial def fieldsEq : List (C19.Name × Tab Int) → List (C19.Name × Tab Int) → Bool
  | [], [] => true
  | (n, t) :: r, (n', t') :: r' => n == n' && tabEq t t' && fieldsEq r r'
  | _, _ => false
end

def handle (op : String) (j : Json) : Except String Json := do
  match op with
  | "program" =>
    let cols ← getIntListList j "cols"
    let ops ← (← getArr j "ops").mapM parseOp
    let ops := ops.map (·.1)
    let m := match run ops cols with
      | some r => Json.mkObj [("rows", intListList (toRows r)), ("width", nat r.length)]
      | none => errJ
    let s := match runRows ops (cols.length, toRows cols) with
      | some (w, rows) => Json.mkObj [("rows", intListList rows), ("width", nat w)]
      | none => errJ
    pure (reply m (some s))
  | "pick" =>
    -- a (possibly empty) program of selections, then one entry by integer index
    let cols ← getIntListList j "cols"
    let ops ← (← getArr j "ops").mapM parseOp
    let ops := ops.map (·.1)
    let i ← getInt j "i"
    let f := fun (r : Option (Option (List Int))) => match r with
      | some (some row) => Json.mkObj [("row", intList row)]
      | some none => Json.mkObj [("err", str "index")]
      | none => errJ
    let m := f ((run ops cols).map (fun r => pickRow r i))
    let s := f ((runRows ops (cols.length, toRows cols)).map (fun st => pickRows st.2 i))
    pure (reply m (some s))
  | "roundtrip" =>
    -- rows -> table -> rows (from_entry_tuples / tolist)
    let rows ← getIntListList j "rows"
    let width ← getNat j "width"
    let m := match fromRows width rows with
      | some cols => Json.mkObj [("rows", intListList (if cols.isEmpty then [] else toRows cols)), ("width", nat cols.length)]
      | none => errJ
    let rect := rows.all (fun r => r.length == width)
    let s := if rect then Json.mkObj [("rows", intListList rows), ("width", nat width)] else errJ
    pure (reply m (some s))
  | "dict" =>
    let (fs, _) ← parseFields (← j.getObjVal? "schema") 0
    let d := toDictFields fs
    let back := match fromDictFields (schemaFields fs) d with
      | some fs' => fieldsEq fs fs'
      | none => false
    let m := Json.mkObj [("keys", Json.arr (d.map (fun kv => str (keyStr kv.1))).toArray),
      ("leaves", intList (d.flatMap (·.2))), ("roundtrip", Json.bool back)]
    pure (reply m none)
  | _ => throw s!"C19: unknown op {op}"

end Drv.C19
